/-
  C17, differential tie of the binary32 MODEL (LibfiveModel/B32.lean, exact fractions + one
  round-to-nearest-even) to the HARDWARE single-precision arithmetic: Lean's `Float32` is the C `float`
  type, its `+ - * /`, comparisons, `abs`, `isFinite` are the machine's instructions / libm calls.

  `B32.ofBits` / `B32.toBits` are the IEEE-754 binary32 encoding (the model has a single NaN: every NaN
  pattern is mapped to it, and a NaN result is compared as the canonical quiet NaN 0x7fc00000).
  `selftest seed n` draws `n` operand triples from a deterministic PRNG and compares, for each, the
  operations of `B32.scalar` (the record the theorems of LibfiveTheorems/C17B32.lean are about) with the
  native ones, bit for bit.

  Output lines: `ok b32 <op> <count>` per operation (only if no case of that operation disagreed),
  `MISMATCH b32 <op> a=<hex> b=<hex> [c=<hex>] model=<hex> native=<hex>` per disagreement (at most 20),
  `skip b32 ...` for what cannot be compared.  Core Lean only.
-/
import LibfiveModel.B32
open Libfive

namespace Driver.C17B32

/-! ### the encoding -/

/-- IEEE-754 binary32 decoding: 1 sign bit, 8 exponent bits (bias 127), 23 fraction bits.
    Exponent field 255: ±∞ (fraction 0) or NaN; field 0: `±fr·2^-149` (zeros and subnormals);
    otherwise `±(2^23 + fr)·2^(ex-150)`. -/
def B32.ofBits (b : UInt32) : B32 :=
  let neg : Bool := (b >>> 31) == 1
  let ex : Nat := ((b >>> 23) &&& 0xff).toNat
  let fr : Nat := (b &&& 0x7fffff).toNat
  if ex == 255 then (if fr == 0 then B32.ofRaw (.inf neg) else B32.nan)
  else if ex == 0 then B32.ofRaw (.fin neg fr (-149))
  else B32.ofRaw (.fin neg (8388608 + fr) ((ex : Int) - 150))

/-- IEEE-754 binary32 encoding; the model's NaN is the canonical quiet NaN `0x7fc00000`. -/
def B32.toBits (x : B32) : UInt32 :=
  match x.val with
  | .nan => 0x7fc00000
  | .inf s => (if s then 0xff800000 else 0x7f800000)
  | .fin s m e =>
    let sign : Nat := if s then 2147483648 else 0
    if m < 8388608 then (sign + m).toUInt32
    else (sign + (e + 150).toNat * 8388608 + (m - 8388608)).toUInt32

/-- native result with all NaNs identified -/
def canon (f : Float32) : UInt32 := if f.isNaN then 0x7fc00000 else f.toBits

def canonBits (b : UInt32) : UInt32 :=
  if (b &&& 0x7f800000) == 0x7f800000 && (b &&& 0x7fffff) != 0 then 0x7fc00000 else b

def hex (b : UInt32) : String :=
  let n := b.toNat
  String.ofList ((List.range 8).map fun i =>
    let d := (n >>> (4 * (7 - i))) % 16
    if d < 10 then Char.ofNat (d + '0'.toNat) else Char.ofNat (d - 10 + 'a'.toNat))

def boolBits (b : Bool) : UInt32 := if b then 1 else 0

/-! ### correctly rounded single-precision fma WITHOUT a native instruction

Lean 4.33's `Float32` has no `fma`.  The emulation below is the one the C17 driver already uses to
reproduce the harness' `vfnmadd` numbers (`Driver.C17.fma32`): the product of two singles is exact in
double; `p + c` is formed in double with its exact error (TwoSum) and forced to round-to-odd, so that
the final double → single rounding is the single rounding of the exact `a*b + c` (53 ≥ 2·24 + 2).
Its verdicts are reported under a separate operation name (`subMulFusedEmu`). -/
def fmaEmu (a b c : Float32) : Float32 :=
  let p : Float := a.toFloat * b.toFloat
  let cf := c.toFloat
  let s := p + cf
  let bb := s - p
  let e := (p - (s - bb)) + (cf - bb)
  if e == 0 || s.isNaN || s.isInf || e.isNaN then s.toFloat32 else
    let bits := s.toBits
    if bits &&& 1 == 1 then s.toFloat32 else
      let up := (e > 0) == (s > 0)
      (Float.ofBits (if up then bits + 1 else bits - 1)).toFloat32

/-! ### deterministic inputs -/

/-- splitmix64 -/
def next (s : UInt64) : UInt64 × UInt64 :=
  let s := s + 0x9e3779b97f4a7c15
  let z := s
  let z := (z ^^^ (z >>> 30)) * 0xbf58476d1ce4e5b9
  let z := (z ^^^ (z >>> 27)) * 0x94d049bb133111eb
  (s, z ^^^ (z >>> 31))

/-- ±0, ±min subnormal, ±max subnormal, ±FLT_MIN, ±1, ±FLT_MAX, ±∞, NaNs (quiet, signalling, negative,
    all-ones), 1e-6f (`EPSILON`), 2, 0.5, the neighbours of 1, the neighbours of FLT_MIN and FLT_MAX -/
def landmarks : Array UInt32 := #[
  0x00000000, 0x80000000, 0x00000001, 0x80000001, 0x007fffff, 0x807fffff, 0x00800000, 0x80800000,
  0x3f800000, 0xbf800000, 0x7f7fffff, 0xff7fffff, 0x7f800000, 0xff800000, 0x7fc00000, 0x7f800001,
  0xffc00000, 0xffffffff, 0x358637bd, 0xb58637bd, 0x40000000, 0xc0000000, 0x3f000000, 0xbf000000,
  0x3f7fffff, 0x3f800001, 0x00800001, 0x007ffffe, 0x7f7ffffe, 0x00000002, 0x00000003, 0x80000003,
  0x01000000, 0x00c00000, 0x7f000000, 0x7effffff, 0x4b800000, 0x4b7fffff, 0x4b000000, 0x4b000001]

/-- one operand; `prev` is an earlier operand of the same case (for cancellation / near-equal pairs) -/
def operand (z : UInt64) (prev : UInt32) : UInt32 :=
  let cat := (z % 16).toNat
  let r : UInt32 := (z >>> 32).toUInt32
  let t : UInt32 := ((z >>> 8) &&& 0xffffff).toUInt32
  if cat < 5 then r                                              -- uniformly random bit pattern
  else if cat < 8 then landmarks[(r % landmarks.size.toUInt32).toNat]!
  else if cat < 10 then                                          -- 2^k ± a few ulps, either sign
    let ex := r % 255                                            -- exponent field 0..254
    let d := (r >>> 8) % 9                                       -- -4..4
    let sgn := (r >>> 16) &&& 1
    let mag := (ex <<< 23) + d - 4
    (sgn <<< 31) ||| (mag &&& 0x7fffffff)
  else if cat < 12 then                                          -- small integers, halves, quarters
    let k := (r % 129).toNat
    let q := (r >>> 8) % 3
    let f := Float32.ofNat k / (if q == 0 then 1 else if q == 1 then 2 else 4)
    (if (r >>> 16) &&& 1 == 1 then (-f) else f).toBits
  else if cat == 12 then                                         -- a few ulps from an earlier operand
    let d := r % 9
    let sgn := ((r >>> 8) &&& 1) <<< 31
    (prev + d - 4) ^^^ sgn
  else if cat == 13 then                                         -- same exponent as an earlier operand
    (prev &&& 0xff800000) ||| (r &&& 0x7fffff)
  else if cat == 14 then                                         -- subnormal range / top binades
    let sgn : UInt32 := (r &&& 1) <<< 31
    let fr : UInt32 := t &&& 0x7fffff
    let k : UInt32 := (r >>> 2) % 3
    let ex : UInt32 := if (r >>> 1) &&& 1 == 0 then k else (252 : UInt32) + k
    sgn ||| fr ||| (ex <<< 23)
  else                                                           -- moderate magnitude (2^-10 .. 2^10)
    let sgn : UInt32 := (r &&& 1) <<< 31
    let fr : UInt32 := t &&& 0x7fffff
    let ex : UInt32 := (117 : UInt32) + ((r >>> 1) % 21 : UInt32)
    sgn ||| fr ||| (ex <<< 23)

/-! ### the comparison -/

structure Acc where
  counts : Array (String × Nat) := #[]
  bad : Array String := #[]               -- operations with at least one disagreement
  lines : Array String := #[]
  nmis : Nat := 0
  tally : Array (String × Nat) := #[]     -- input / result distribution (`info b32 dist` lines)

def Acc.bump (a : Acc) (op : String) : Acc :=
  match a.counts.findIdx? (·.1 == op) with
  | some i => { a with counts := a.counts.modify i fun p => (p.1, p.2 + 1) }
  | none => { a with counts := a.counts.push (op, 1) }

def Acc.note (a : Acc) (key : String) : Acc :=
  match a.tally.findIdx? (·.1 == key) with
  | some i => { a with tally := a.tally.modify i fun p => (p.1, p.2 + 1) }
  | none => { a with tally := a.tally.push (key, 1) }

/-- class of a bit pattern -/
def cls (b : UInt32) : String :=
  let ex := (b >>> 23) &&& 0xff
  let fr := b &&& 0x7fffff
  if ex == 255 then (if fr == 0 then "inf" else "nan")
  else if ex == 0 then (if fr == 0 then "zero" else "subnormal")
  else "normal"

/-- the double `d` is not a binary32 value: the exact result it came from is not one either (a
    representable exact result would have been produced exactly), i.e. the single-precision operation
    had to round -/
def rounds (d : Float) : Bool := d.isFinite && d.toFloat32.toFloat != d

/-- record one comparison of operation `op` on operands `args` (bit patterns) -/
def Acc.cmp (a : Acc) (op : String) (args : List UInt32) (model native : UInt32) : Acc :=
  let a := a.bump op
  if model == native then a else
    let names := ["a", "b", "c"]
    let as := " ".intercalate ((names.zip args).map fun (n, v) => s!"{n}={hex v}")
    let a := { a with nmis := a.nmis + 1, bad := if a.bad.contains op then a.bad else a.bad.push op }
    if a.lines.size < 20 then
      { a with lines := a.lines.push s!"MISMATCH b32 {op} {as} model={hex model} native={hex native}" }
    else a

def one (acc : Acc) (ab bb cb : UInt32) : Acc :=
  let U := B32.scalar false
  let F := B32.scalar true
  let a := B32.ofBits ab
  let b := B32.ofBits bb
  let c := B32.ofBits cb
  let fa := Float32.ofBits ab
  let fb := Float32.ofBits bb
  let fc := Float32.ofBits cb
  -- the encoding itself: decode ∘ encode is the identity on every non-NaN pattern, NaNs collapse
  let acc := acc.cmp "bits" [ab] (B32.toBits a) (canonBits ab)
  let acc := acc.cmp "half" [ab] (B32.toBits (U.half a)) (canon (fa / 2))
  let acc := acc.cmp "abs" [ab] (B32.toBits (U.abs a)) (canon (Float32.abs fa))
  let acc := acc.cmp "isFinite" [ab] (boolBits (U.isFinite a)) (boolBits fa.isFinite)
  let acc := acc.cmp "isZero" [ab] (boolBits (U.isZero a)) (boolBits (fa == 0))
  let acc := acc.cmp "sub" [ab, bb] (B32.toBits (U.sub a b)) (canon (fa - fb))
  let acc := acc.cmp "div" [ab, bb] (B32.toBits (U.div a b)) (canon (fa / fb))
  let acc := acc.cmp "lt" [ab, bb] (boolBits (U.lt a b)) (boolBits (decide (fa < fb)))
  let acc := acc.cmp "ge" [ab, bb] (boolBits (U.ge a b)) (boolBits (decide (fa ≥ fb)))
  -- `geHalf q s` is `q >= s*0.5` in double (both sides exact there)
  let acc := acc.cmp "geHalf" [ab, bb] (boolBits (U.geHalf a b)) (boolBits (decide (fa.toFloat ≥ fb.toFloat * 0.5)))
  -- `sqAdd acc x = acc + x*x`, each step rounded (not used by any C17 theorem; compared all the same)
  let acc := acc.cmp "sqAdd" [ab, bb] (B32.toBits (U.sqAdd a b)) (canon (fa + fb * fb))
  -- v - s*d, v = a, s = b, d = c
  let acc := acc.cmp "subMul" [ab, bb, cb] (B32.toBits (U.subMul a b c)) (canon (fa - (fb * fc)))
  let acc := acc.cmp "subMulFusedEmu" [ab, bb, cb] (B32.toBits (F.subMul a b c)) (canon (fmaEmu (-fb) fc fa))
  -- distribution of what was compared (results by class, operations that had to round, triples on
  -- which the fused and the unfused model differ)
  let acc := acc.note s!"operand.{cls ab}"
  let acc := acc.note s!"sub.{cls (B32.toBits (U.sub a b))}"
  let acc := acc.note s!"div.{cls (B32.toBits (U.div a b))}"
  let acc := acc.note s!"subMul.{cls (B32.toBits (U.subMul a b c))}"
  let acc := if rounds (fa.toFloat - fb.toFloat) then acc.note "sub.rounded_at_least" else acc
  let acc := if rounds (fa.toFloat / fb.toFloat) then acc.note "div.rounded_at_least" else acc
  let acc := if rounds (fb.toFloat * fc.toFloat) then acc.note "subMul.product_rounded" else acc
  let acc := if fa.isFinite && (fa / 2).toFloat != fa.toFloat / 2 then acc.note "half.rounded" else acc
  let acc := if B32.toBits (U.subMul a b c) != B32.toBits (F.subMul a b c) then acc.note "subMul.fused_differs_from_unfused" else acc
  acc

/-- `iter half k FLT_MAX` against `k` native halvings -/
def halfIter (acc : Acc) (k : Nat) : Acc := Id.run do
  let m := Solver.iter (B32.scalar false).half k B32.fltMax
  let mut f : Float32 := Float32.ofBits 0x7f7fffff
  for _ in [0:k] do f := f / 2
  return acc.cmp "halfIter" [0x7f7fffff, k.toUInt32] (B32.toBits m) (canon f)

def selftest (seed n : Nat) : Array String := Id.run do
  let mut acc : Acc := {}
  let mut s : UInt64 := seed.toUInt64 * 0x2545f4914f6cdd1d + 0x1234567
  -- every landmark against every landmark (third operand: rotating), before the random cases
  if n > 0 then
    for x in landmarks do
      for y in landmarks do
        let (s', z) := next s
        s := s'
        acc := one acc x y landmarks[(z % landmarks.size.toUInt64).toNat]!
  for _ in [0:n] do
    let (s1, z0) := next s
    let (s2, z1) := next s1
    let (s3, z2) := next s2
    let (s4, z3) := next s3
    s := s4
    let a := operand z0 (z3 >>> 32).toUInt32
    let b := operand z1 a
    let mode := (z3 % 8).toNat
    -- triples: a third of them with `v` a few ulps from the rounded product `s*d` (cancellation in
    -- `v - s*d`: the cases where fused and unfused differ), the rest independent
    let c0 := operand z2 b
    if mode < 2 then
      let d := ((z3 >>> 8) % 9).toUInt32
      let v := (Float32.ofBits b * Float32.ofBits c0).toBits + d - 4
      acc := one acc v b c0
    else if mode == 2 then
      -- `a / b` with `a` a few ulps from `b * c` (quotients near representable values)
      let d := ((z3 >>> 8) % 5).toUInt32
      let v := (Float32.ofBits b * Float32.ofBits c0).toBits + d - 2
      acc := one acc v b c0
    else
      acc := one acc a b c0
  acc := halfIter acc 277
  acc := halfIter acc 278
  let mut out : Array String := #[]
  for (op, k) in acc.counts do
    if !acc.bad.contains op then out := out.push s!"ok b32 {op} {k}"
  out := out ++ acc.lines
  if acc.nmis > acc.lines.size then
    out := out.push s!"info b32 {acc.nmis - acc.lines.size} further disagreements not listed"
  for (k, v) in acc.tally do out := out.push s!"info b32 dist {k} {v}"
  out := out.push "skip b32 subMulFused no native Float32 fma in Lean 4.33 (compared against the double/round-to-odd emulation instead: subMulFusedEmu)"
  return out

end Driver.C17B32
