/-
  C13 driver: replays the operation stream of harness/treeops.cpp through the reference-count
  model (LibfiveModel/RefCount.lean) and compares, after every operation, the model's prediction
  with what the real library did: number of live nodes, which slots are live and where they point,
  the refcount of every slot's node and (when printed) of every live node.
  Output: `ok …` / `MISMATCH …` per observation.
-/
import Driver.Parse
import LibfiveModel.RefCount
open Libfive Libfive.RC

namespace Driver.C13

structure Pending where
  toks : List String := []
  built : Option (List Spec × Option Ref) := none   -- parsed `built` line (root none = unparsable)
  mbuilt : Option Nat := none
  isNull : Bool := false
  exc : Bool := false
  bad : Option String := none

def parseRef (t : String) : Option Ref :=
  if t.startsWith "o" then (t.drop 1).toString.toNat?.map Ref.old
  else if t.startsWith "n" && t != "null" then (t.drop 1).toString.toNat?.map Ref.new
  else none

/-- tokens after `built`: n {kind nk ref*} root ref -/
partial def parseBuilt (ws : List String) : Option (List Spec × Option Ref) :=
  match ws with
  | n :: rest =>
    let n := nat! n
    let rec go (k : Nat) (ws : List String) (acc : List Spec) : Option (List Spec × List String) :=
      match k, ws with
      | 0, ws => some (acc.reverse, ws)
      | k + 1, kind :: nk :: ws =>
        let nk := nat! nk
        let refs := (ws.take nk).map parseRef
        if refs.any Option.isNone || (ws.take nk).length < nk then none
        else go k (ws.drop nk) (⟨nat! kind, refs.filterMap id⟩ :: acc)
      | _, _ => none
    match go n rest [] with
    | some (specs, ["root", r]) => some (specs, parseRef r)
    | _ => none
  | _ => none

def slotIdx (t : String) : Nat := nat! t

/-- run a list of model ops; returns final state and whether all were accepted -/
def runOps (s : State) (ops : List RC.Op) : State × Bool :=
  -- (pattern-matching lambda: the pair is taken apart before `step`, so the state stays unshared)
  ops.foldl (fun (acc : State × Bool) o =>
    match acc with
    | (st, ok) =>
      let r := step st o
      (r.1, ok && r.2 == Out.ok)) (s, true)

def ptrOf (s : State) (h : Nat) : Option Nat := (s.slot h).ptr

/-- macro expansion with scratch slots A B C = the last three slots -/
def runMacro (s0 : State) (toks : List String) : State × Bool := Id.run do
  let n := s0.slots.size
  let A := n - 2
  let B := n - 1
  let C := n - 3
  let mut s := s0
  let mut ok := true
  match toks with
  | ["mchainun", d, src, _op, cnt] =>
    let r := runOps s [.copy A (slotIdx src)]
    s := r.1; ok := ok && r.2
    for _ in [0:nat! cnt] do
      match ptrOf s A with
      | some pa =>
        let r := runOps s [.build B [A] false [⟨1, [.old pa]⟩] (.new 0) false, .moveAssign A B, .destroy B]
        s := r.1; ok := ok && r.2
      | none => ok := false
    let r := runOps s [.move (slotIdx d) A, .destroy A]
    return (r.1, ok && r.2)
  | ["mchainbin", d, src, l, _op, cnt] =>
    let r := runOps s [.copy A (slotIdx src)]
    s := r.1; ok := ok && r.2
    for _ in [0:nat! cnt] do
      match ptrOf s A, ptrOf s (slotIdx l) with
      | some pa, some pl =>
        let r := runOps s [.build B [A, slotIdx l] false [⟨2, [.old pa, .old pl]⟩] (.new 0) false,
                           .moveAssign A B, .destroy B]
        s := r.1; ok := ok && r.2
      | _, _ => ok := false
    let r := runOps s [.move (slotIdx d) A, .destroy A]
    return (r.1, ok && r.2)
  | ["mchainself", d, src, _op, cnt] =>
    let r := runOps s [.copy A (slotIdx src)]
    s := r.1; ok := ok && r.2
    for _ in [0:nat! cnt] do
      match ptrOf s A with
      | some pa =>
        let r := runOps s [.build B [A, A] false [⟨2, [.old pa, .old pa]⟩] (.new 0) false, .moveAssign A B, .destroy B]
        s := r.1; ok := ok && r.2
      | none => ok := false
    let r := runOps s [.move (slotIdx d) A, .destroy A]
    return (r.1, ok && r.2)
  | ["mfan", d, src, l, _o1, _o2, cnt] =>
    let r := runOps s [.copy A (slotIdx src)]
    s := r.1; ok := ok && r.2
    for _ in [0:nat! cnt] do
      match ptrOf s (slotIdx l) with
      | some pl =>
        let r := runOps s [.build B [slotIdx l] false [⟨1, [.old pl]⟩] (.new 0) false]
        s := r.1; ok := ok && r.2
        match ptrOf s A, ptrOf s B with
        | some pa, some pb =>
          let r := runOps s [.build C [A, B] false [⟨2, [.old pa, .old pb]⟩] (.new 0) false,
                             .moveAssign A C, .destroy C, .destroy B]
          s := r.1; ok := ok && r.2
        | _, _ => ok := false
      | none => ok := false
    let r := runOps s [.move (slotIdx d) A, .destroy A]
    return (r.1, ok && r.2)
  | ["machild", d, k] =>
    -- `t = t->lhs()` / `t = t->rhs()`: copy-assignment from a member of the node `t` points to; the end state is
    -- that of  tmp = child; t = tmp; ~tmp  (the child survives even if `t` was the last owner of its parent)
    match ptrOf s (slotIdx d) with
    | some pd =>
      match (fieldsOf (s.node? pd))[nat! k]? with
      | some pc =>
        let r := runOps s [.build B [slotIdx d] false [] (.old pc) false, .copyAssign (slotIdx d) B, .destroy B]
        return (r.1, ok && r.2)
      | none => return (s, false)
    | none => return (s, false)
  | ["mchainremap", d, src, l, pos, cnt] =>
    -- TreeRemap{x, y, z, t}: four children; the chain runs through slot `pos` (0 = t, 1 = x, 2 = y, 3 = z)
    let r := runOps s [.copy A (slotIdx src)]
    s := r.1; ok := ok && r.2
    for _ in [0:nat! cnt] do
      match ptrOf s A, ptrOf s (slotIdx l) with
      | some pa, some pl =>
        let kids : List RC.Ref :=
          if nat! pos == 0 then [.old pl, .old pl, .old pl, .old pa]
          else if nat! pos == 1 then [.old pa, .old pl, .old pl, .old pl]
          else if nat! pos == 2 then [.old pl, .old pa, .old pl, .old pl]
          else [.old pl, .old pl, .old pa, .old pl]
        let r := runOps s [.build B [A, slotIdx l] false [⟨4, kids⟩] (.new 0) false, .moveAssign A B, .destroy B]
        s := r.1; ok := ok && r.2
      | _, _ => ok := false
    let r := runOps s [.move (slotIdx d) A, .destroy A]
    return (r.1, ok && r.2)
  | ["mchainapply", d, src, v, l, pos, cnt] =>
    -- TreeApply{target, value, t}: three children; the chain runs through t (pos 0) or value (pos 1)
    let r := runOps s [.copy A (slotIdx src)]
    s := r.1; ok := ok && r.2
    for _ in [0:nat! cnt] do
      match ptrOf s A, ptrOf s (slotIdx v), ptrOf s (slotIdx l) with
      | some pa, some pv, some pl =>
        let kids : List RC.Ref :=
          if nat! pos == 0 then [.old pv, .old pl, .old pa] else [.old pv, .old pa, .old pl]
        let r := runOps s [.build B [A, slotIdx v, slotIdx l] false [⟨3, kids⟩] (.new 0) false, .moveAssign A B, .destroy B]
        s := r.1; ok := ok && r.2
      | _, _, _ => ok := false
    let r := runOps s [.move (slotIdx d) A, .destroy A]
    return (r.1, ok && r.2)
  | _ => return (s, false)

/-- translate one harness op (with what the harness reported about its outcome) into model ops -/
def modelOps (p : Pending) : Option (List RC.Op) :=
  let sl := slotIdx
  let buildOp (d : String) (args : List String) (temps raw : Bool) : Option (List RC.Op) :=
    if p.exc then some [.observe (args.map sl)]
    else if p.isNull then some [.null (sl d)]
    else match p.built with
      | some (specs, some root) => some [.build (sl d) (args.map sl) temps specs root raw]
      | _ => none
  match p.toks with
  | ["vconst", d, _] => buildOp d [] false false
  | ["vvar", d] => buildOp d [] false false
  | ["vxyz", d, _] => buildOp d [] false false
  | ["vinvalid", d] => buildOp d [] false false
  | ["vcopy", d, s] => some [.copy (sl d) (sl s)]
  | ["vmove", d, s] => some [.move (sl d) (sl s)]
  | ["vcassign", d, s] => some [.copyAssign (sl d) (sl s)]
  | ["vmassign", d, s] => some [.moveAssign (sl d) (sl s)]
  | ["vdestroy", d] => some [.destroy (sl d)]
  | ["vrelease", d, s] => some [.release (sl d) (sl s)]
  | ["vreclaim", d, s] => some [.reclaim (sl d) (sl s)]
  | ["vunary", d, _, a] => buildOp d [a] false false
  | ["vbinary", d, _, a, b] => buildOp d [a, b] false false
  | ["vremap", d, t, x, y, z] => buildOp d [t, x, y, z] true false
  | ["vapply", d, t, v, w] => buildOp d [t, v, w] true false
  | ["vopt", d, a] => buildOp d [a] false false
  | ["vflat", d, a] => buildOp d [a] false false
  | ["vcvars", d, a] => buildOp d [a] false false
  | ["vdeser", d, a] => buildOp d [a] false false
  | ["vprint", a] => some [.observe [sl a]]
  | ["vsize", a] => some [.observe [sl a]]
  | ["vser", a] => some [.observe [sl a]]
  | ["vserforce", a] => some [.observe [sl a]]
  | ["vwalk", a] => some [.observe [sl a]]
  | ["veval", a] => some [.observe [sl a]]
  | ["veq", a, b] => some [.observe [sl a, sl b]]
  | ["cxyz", d, _] => buildOp d [] true true
  | ["cconst", d, _] => buildOp d [] true true
  | ["cvar", d] => buildOp d [] true true
  | ["cnullary", d, _] => buildOp d [] true true
  | ["cunary", d, _, a] => buildOp d [a] true true
  | ["cbinary", d, _, a, b] => buildOp d [a, b] true true
  | ["cremap", d, t, x, y, z] => buildOp d [t, x, y, z] true true
  | ["copt", d, a] => buildOp d [a] true true
  | ["csaveload", d, a] => buildOp d [a] true true
  | ["cdelete", d] => some [.destroy (sl d)]
  | ["cprint", a] => some [.observe [sl a]]
  | ["cevalf", a] => some [.observe [sl a]]
  | ["cevalr", a] => some [.observe [sl a]]
  | ["cevald", a] => some [.observe [sl a]]
  | ["cinfo", a] => some [.observe [sl a]]
  | ["cevnew", _, a] => some [.observe [sl a]]
  | ["cevuse", _] => some []
  | ["cevdel", _] => some []
  | _ => none

/-- compare an `obs` line with the model state; returns a list of differences -/
def compareObs (s : State) (ws : List String) : List String := Id.run do
  let mut diffs : List String := []
  match ws with
  | live :: "slots" :: rest =>
    if s.ub then diffs := "model-ub" :: diffs
    if s.liveCount != nat! live then
      diffs := s!"live model={s.liveCount} real={live}" :: diffs
    let slotToks := rest.takeWhile (· != "all")
    let allToks := (rest.dropWhile (· != "all")).drop 1
    let mut seen : List Nat := []
    for t in slotToks do
      let parts := t.splitOn ":"
      match parts with
      | [i, k, "null"] =>
        let i := nat! i
        seen := i :: seen
        let want := if k == "t" then Slot.tree none else Slot.raw none
        if s.slot i != want then diffs := s!"slot {i} model={repr (s.slot i)} real=null-{k}" :: diffs
      | [i, k, id, rc] =>
        let i := nat! i
        seen := i :: seen
        match id.toNat? with
        | none => diffs := s!"slot {i} points to an unregistered node" :: diffs
        | some id =>
          let want := if k == "t" then Slot.tree (some id) else Slot.raw (some id)
          if s.slot i != want then diffs := s!"slot {i} model={repr (s.slot i)} real={k}:{id}" :: diffs
          if s.rcOf id != some (nat! rc) then
            diffs := s!"rc node {id} (slot {i}) model={s.rcOf id} real={rc}" :: diffs
      | _ => diffs := s!"unparsable {t}" :: diffs
    for i in [NSTATIC:s.slots.size] do
      if s.slot i != Slot.dead && !seen.contains i then
        diffs := s!"slot {i} live in model, dead in real" :: diffs
    if !allToks.isEmpty || rest.contains "all" then
      if allToks.length != s.liveCount then
        diffs := s!"registry size real={allToks.length} model={s.liveCount}" :: diffs
      for t in allToks do
        match t.splitOn ":" with
        | [id, rc] =>
          if s.rcOf (nat! id) != some (nat! rc) then
            diffs := s!"rc node {id} model={s.rcOf (nat! id)} real={rc}" :: diffs
        | _ => diffs := s!"unparsable {t}" :: diffs
    return diffs.reverse
  | _ => return ["unparsable obs"]

def run (_args : List String) (lines : Array String) : Array String := Id.run do
  let mut out : Array String := #[]
  let mut s : State := init 0
  let mut seq := "?"
  let mut opno := 0
  let mut pend : Pending := {}
  for line in lines do
    let ws := words line
    match ws with
    | "seq" :: k :: n :: _ =>
      seq := k; opno := 0
      s := init (nat! n - NSTATIC)
      pend := {}
    | "op" :: toks =>
      pend := { toks := toks }
      opno := opno + 1
    | "built" :: rest =>
      match parseBuilt rest with
      | some b => pend := { pend with built := some b }
      | none => pend := { pend with bad := some "unparsable built line (unknown/null node reference)" }
    | "mbuilt" :: n :: _ => pend := { pend with mbuilt := some (nat! n) }
    | "nullres" :: _ => pend := { pend with isNull := true }
    | "exc" :: _ => pend := { pend with exc := true }
    | "unknown-op" :: _ => pend := { pend with bad := some "harness does not know this op" }
    | "obs" :: rest =>
      let tag := s!"seq {seq} op {opno} {String.intercalate " " pend.toks}"
      match pend.bad with
      | some b => out := out.push s!"MISMATCH {tag} :: {b}"
      | none =>
        let isMacro := match pend.toks with
          | t :: _ => t.startsWith "m"
          | [] => false
        let (s', accepted) :=
          if isMacro then runMacro s pend.toks
          else match modelOps pend with
            | some ops => runOps s ops
            | none => (s, false)
        s := s'
        if !accepted then
          out := out.push s!"MISMATCH {tag} :: model rejected the operation (client discipline / outcome not admissible)"
        else
          match compareObs s rest with
          | [] => out := out.push s!"ok {tag}"
          | ds => out := out.push s!"MISMATCH {tag} :: {String.intercalate "; " (ds.take 6)}"
    | "endseq" :: k :: "live" :: l :: "baseline" :: b :: _ =>
      if s.liveCount == nat! l && !s.ub then
        out := out.push s!"ok endseq {k} live {l} baseline {b} model {s.liveCount}"
      else
        out := out.push s!"MISMATCH endseq {k} live real={l} model={s.liveCount} ub={s.ub}"
    | _ => pure ()
  return out

end Driver.C13
