/- C13 driver: not written yet -/
import Driver.Parse

namespace Driver.C13

def run (_args : List String) (lines : Array String) : Array String :=
  #[s!"MISMATCH driver-not-implemented {lines.size}"]

end Driver.C13
