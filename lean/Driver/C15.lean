/-
  C15 driver: replays a history (harness/history.cpp output) through the bookkeeping of the
  evaluator-state model (LibfiveModel/EvalState.lean): `count_simd` after every value / batch /
  derivative / Jacobian / feature query, `clear_vars` and the X/Y/Z seeds restored after every query, the
  variable store and the `updateVars` report, well-formedness / closedness of every tape
  (hypothesis `TapeOK` of the frame theorems), and — from the real feature counts — which of the
  two hypotheses of `feature_walk_frame` fail for a feature query (`hyp …` lines).
-/
import Driver.Parse
import LibfiveModel.EvalState
import LibfiveModel.DerivFloat
open Libfive

namespace Driver.C15

def f32! (s : String) : Float32 := (F32.parseF32 s).getD (Float32.ofBits 0x7fc00000)

structure St where
  case : String := ""
  q : Nat := 0
  base : TapeM := { t := [], root := 0 }
  nvars : Nat := 0
  vars : List (Nat × Float32) := []      -- generator var index ↦ stored value
  csimd : Nat := 0
  known : Bool := false                  -- count_simd is indeterminate before the first query

/-- tokens after `deck`: N X Y Z consts k (id bits)* vars m (id idx bits)* -/
def parseVars (ws : List String) : List (Nat × Float32) :=
  match ws.dropWhile (· != "vars") with
  | "vars" :: m :: rest =>
    let ra := rest.toArray
    (List.range (nat! m)).map fun i => ((ra.getD (3*i+1) "").toInt?.getD 0 |>.toNat, f32! (ra.getD (3*i+2) ""))
  | _ => []

/-- executable `TapeOK`: well-formed, no oracle, operands are clauses of the tape or leaves of the deck -/
def tapeOKb (base T : TapeM) : Bool :=
  let ib := ids base.t
  let it := ids T.t
  wfb T.t && T.t.all (fun c => c.op != Op.oracle) && it.all (fun k => ib.contains k) &&
  T.t.all (fun c => (it.contains c.a || !ib.contains c.a) && (it.contains c.b || !ib.contains c.b)) &&
  (it.contains T.root || !ib.contains T.root)

def handle (st : St) (line : String) : St × List String :=
  let ws := words line
  match ws with
  | "case" :: k :: _ => ({ case := k }, [])
  | "deck" :: rest =>
    let vs := parseVars rest
    ({ st with vars := vs, nvars := vs.length }, [])
  | "base" :: "tape" :: rest =>
    match parseTape rest with
    | some T =>
      let o := if tapeOKb T T then s!"ok tape case {st.case} q 0" else s!"MISMATCH tape case {st.case} q 0 base"
      ({ st with base := T }, [o])
    | none => (st, [s!"MISMATCH parse case {st.case} q 0 base"])
  | "push" :: pk :: "depth" :: _ :: "tape" :: rest =>
    -- `valueAndPush` evaluates one point: count_simd becomes setCount(1); interval pushes do not
    -- touch the array evaluator
    let st := if pk == "ppush" then { st with csimd := simdRound 16 1, known := true } else st
    match parseTape rest with
    | some T =>
      if tapeOKb st.base T then (st, [s!"ok tape case {st.case} q {st.q}"])
      else (st, [s!"MISMATCH tape case {st.case} q {st.q} pushed tape violates TapeOK"])
    | none => (st, [s!"MISMATCH parse case {st.case} q {st.q} push"])
  | "setvar" :: idx :: newv :: "old" :: oldv :: "changed" :: ch :: _ =>
    let i := nat! idx
    let x := f32! newv
    -- `setVar` on a variable that is not in the deck does nothing and reports false
    let present := st.vars.any (·.1 == i)
    let stored := (st.vars.find? (·.1 == i)).map (·.2) |>.getD 0
    -- model: both copies hold the stored value; `changed` iff it differs from the new one
    let model := present && stored != x
    let okOld := !present || stored.toBits == (f32! oldv).toBits
    let vars := if present then (st.vars.filter (·.1 != i)) ++ [(i, x)] else st.vars
    let o := if !okOld then s!"MISMATCH setvar-store case {st.case} q {st.q} model-old {F32.toHex stored} real-old {oldv}"
      else if model == (ch == "1") then s!"ok setvar case {st.case} q {st.q}"
      else s!"MISMATCH setvar case {st.case} q {st.q} model {model} real {ch}"
    ({ st with vars := vars }, [o])
  | "q" :: kind :: "depth" :: _ :: "csimd" :: cs :: "clear" :: cl :: "seedsok" :: sok :: rest =>
    let q := st.q + 1
    let tag := s!"case {st.case} q {q}"
    let cs := nat! cs
    let o1 := if cl == "0" && sok == "1" then [] else
      [s!"MISMATCH epilogue {tag} clear {cl} leaf-derivative-rows-intact {sok}"]
    -- number of points of a batch: token after "L"?  use the program's count: answers hold n (or 4n) tokens
    let ans := (rest.dropWhile (· != "L")).drop 1 |>.takeWhile (· != "|")
    let expect : Option Nat :=
      if kind == "value" || kind == "deriv" || kind == "getbase" then some (simdRound 16 1)
      else if kind == "values" then some (simdRound 16 ans.length)
      else if kind == "derivs" then some (simdRound 16 (ans.length / 4))
      else if kind == "jac" then
        (if st.nvars = 0 then (if st.known then some st.csimd else none) else
          let L := jacLanes 256
          let last := if st.nvars % L = 0 then L else st.nvars % L
          some (simdRound 16 (jacColumns last)))
      else none
    let o2 := match expect with
      | some e => if e == cs then [] else [s!"MISMATCH count_simd {tag} {kind} model {e} real {cs}"]
      | none => if cs % 16 == 0 || !st.known then [] else [s!"MISMATCH count_simd {tag} {kind} real {cs} not a SIMD multiple"]
    let outs := o1 ++ o2
    ({ st with q := q, csimd := cs, known := st.known || expect.isSome || kind == "features" || kind == "isinside" },
     if outs.isEmpty then [s!"ok query {tag} {kind}"] else outs)
  | "fc" :: "tape" :: rest =>
    let tag := s!"case {st.case} q {st.q}"
    let tapeToks := rest.takeWhile (· != "counts")
    let cnt := ((rest.dropWhile (· != "counts")).drop 2).map nat! |>.toArray
    match parseTape tapeToks with
    | some T =>
      -- count_simd the feature walk leaves behind, from the operand feature counts
      let cs := featCountWalk 256 16 (fun k => cnt.getD k 0) T.t (simdRound 16 1)
      let o1 := if tapeOKb st.base T then [] else [s!"MISMATCH tape {tag} feature tape violates TapeOK"]
      let o2 := if cs == st.csimd then [] else [s!"MISMATCH count_simd {tag} feature-walk model {cs} real {st.csimd}"]
      (st, if (o1 ++ o2).isEmpty then [s!"ok feature-walk {tag} count_simd {cs}"] else o1 ++ o2)
    | none => (st, [s!"MISMATCH parse {tag} fc"])
  | _ => (st, [])

def run (_args : List String) (lines : Array String) : Array String := Id.run do
  let mut st : St := {}
  let mut out : Array String := #[]
  for l in lines do
    let (st', o) := handle st l
    st := st'
    for x in o do out := out.push x
  return out

end Driver.C15
