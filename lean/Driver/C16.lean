/-
  C16 driver: replays what the real library did (harness/oracle.cpp output) through the model of
  LibfiveModel/Oracle.lean:
    * the bind / push / unbind protocol: every context a wrapped oracle reported being bound to
      (`wev` lines, logged by the harness' own Oracle subclass) is predicted by `DeckM.eval` /
      `DeckM.push`; the contexts vector of every pushed tape (`tr tctx`) equals the model's; after
      every call the deck is `balanced` and the real oracles are unbound (`tr unbound`);
    * the Jacobian mapping of gradients (`jac` lines): `jmul` on the dumped coordinate gradients and
      inner gradient against what `TransformedOracle` returned.
  Output: `ok <what>` / `MISMATCH <what> ...` / `skip ...`, one line per observation.
-/
import Driver.Parse
import LibfiveModel.Oracle
open Libfive Libfive.OracleM

namespace Driver.C16

def Ctx.render : Ctx → String
  | .null => "-"
  | .user id => s!"c{id}"
  | .trans _ => "x"

def parseCtxName (s : String) : Ctx :=
  if s == "-" then .null
  else if s.startsWith "c" then .user (nat! (s.drop 1).toString)
  else .trans .null

structure Pending where
  op : String
  t : Nat
  term : Bool
  events : List (List String)
  newId : Nat := 0
  same : Bool := false
  tctx : List String := []

structure St where
  case : String := ""
  kinds : Array (Bool × Nat) := #[]          -- per oracle: (is TransformedOracle, main-path instance)
  deck : DeckM := { orcs := [], tapes := [] }
  tapes : List (Nat × TapeM) := []
  cur : Option Pending := none
  waiting : Option Pending := none           -- a finished push awaiting its `pushed tape` line
  lastTctx : List String := []
  step : Nat := 0

def St.tape (st : St) (id : Nat) : TapeM := ((st.tapes.find? (·.1 == id)).map (·.2)).getD default

/-- oracle indices of the ORACLE clauses of a tape, in storage order -/
def oracleKs (T : TapeM) : List Nat := (T.t.filter (·.op == Op.oracle)).map (·.a)

def St.instK (st : St) (inst : Nat) : Option Nat :=
  (List.range st.kinds.size).find? fun k => (st.kinds.getD k (false, 0)).2 == inst

/-- observed events of main-path instances with one of the given kinds: (k, words) -/
def St.observed (st : St) (evs : List (List String)) (kinds : List String) : List (Nat × List String) :=
  evs.filterMap fun w =>
    match w with
    | _ :: inst :: kind :: _ =>
      if kinds.contains kind then (st.instK (nat! inst)).map fun k => (k, w) else none
    | _ => none

def renderSeen (l : List (Nat × Ctx)) : String :=
  " ".intercalate (l.map fun (k, c) => s!"{k}:{Ctx.render c}")

def renderObs (l : List (Nat × List String)) : String :=
  " ".intercalate (l.map fun (k, w) => s!"{k}:{w.getD 3 "?"}")

def cmp (what tag : String) (model real : String) : String :=
  if model == real then s!"ok {what} {tag}" else s!"MISMATCH {what} {tag} model [{model}] real [{real}]"

def f32! (s : String) : Float32 := (F32.parseF32 s).getD (Float32.ofBits 0x7fc00000)

/-- evaluation-type call on tape `t`: compare what the oracles saw -/
def checkEval (st : St) (t : Nat) (isInterval : Bool) (evs : List (List String)) (kinds : List String)
    (tag : String) : St × List String :=
  let ks := (oracleKs (st.tape t)).reverse
  let r := st.deck.eval t ks isInterval
  let obs := st.observed evs kinds
  ({ st with deck := r.1 }, [cmp ("seen-" ++ (kinds.headD "?")) tag (renderSeen r.2) (renderObs obs)])

def finishPush (st : St) (p : Pending) (newTape : TapeM) : St × List String :=
  let tag := s!"case {st.case} step {st.step} {p.op} T{p.t}->T{p.newId}"
  let isInterval := p.op == "ipush"
  -- 1. the evaluation half
  let (st, o1) := checkEval st p.t isInterval p.events [if isInterval then "interval" else "array"] tag
  -- 2. the push half
  let pushObs := (st.observed p.events ["push"]).filter fun (_, w) => w.length ≥ 6
  if p.term then
    let o2 := if pushObs.isEmpty && p.same then s!"ok terminal-no-push {tag}" else
      s!"MISMATCH terminal-no-push {tag} pushes {pushObs.length} same {p.same}"
    (st, o1 ++ [o2])
  else
    let ks := if p.same then (pushObs.map (·.1)) else oracleKs newTape
    let ans : Nat → Ctx → Ctx := fun k _ =>
      match pushObs.find? (·.1 == k) with
      | some (_, w) => parseCtxName (w.getD 5 "-")
      | none => .null
    let r := st.deck.push p.t ks isInterval ans (!p.same)
    let seenM := renderSeen r.2.2
    let seenR := " ".intercalate (pushObs.map fun (k, w) => s!"{k}:{w.getD 4 "?"}")
    let o2 := cmp "seen-push" tag seenM seenR
    let ctxM := " ".intercalate (r.2.1.map Ctx.render)
    let ctxR := " ".intercalate p.tctx
    -- an unchanged tape is returned as is and keeps its own contexts
    let o3 := if p.same then
        cmp "tape-contexts-unchanged" tag (" ".intercalate ((st.deck.tapeCtx p.t).map Ctx.render)) ctxR
      else cmp "tape-contexts" tag ctxM ctxR
    let o4 := if r.1.balanced then s!"ok balanced {tag}" else s!"MISMATCH balanced {tag}"
    -- oracle clauses survive specialisation untouched
    let parentOr := (st.tape p.t).t.filter (·.op == Op.oracle)
    let o5 := if (newTape.t.filter (·.op == Op.oracle)).all (fun c => parentOr.contains c) && wfb newTape.t
      then s!"ok oracle-clauses-kept {tag}" else s!"MISMATCH oracle-clauses-kept {tag}"
    let st := { st with deck := r.1,
                        tapes := if p.same then st.tapes else st.tapes ++ [(p.newId, newTape)] }
    (st, o1 ++ [o2, o3, o4, o5])

def absF (x : Float) : Float := if x < 0 then -x else x

def jacCheck (st : St) (ws : List String) : List String := Id.run do
  let n := nat! (ws.getD 0 "0")
  let a := (ws.drop 1).toArray
  let mut out : List String := []
  for i in [0:n] do
    let g (j c : Nat) : Float32 := f32! (a.getD (21 * i + 4 * j + c) "7fc00000")
    let amb := a.getD (21 * i + 20) "0" == "1"
    let v (j : Nat) : V3 Float32 := ⟨g j 0, g j 1, g j 2⟩
    let m := jmul (v 0) (v 1) (v 2) (v 3)
    let real := v 4
    let tag := s!"case {st.case} jac {i}"
    let mag (c : Nat) : Float :=
      absF ((g 0 c).toFloat * (g 3 0).toFloat) + absF ((g 1 c).toFloat * (g 3 1).toFloat) +
        absF ((g 2 c).toFloat * (g 3 2).toFloat)
    let close (x y : Float32) (s : Float) : Bool :=
      x.toBits == y.toBits || (x.isNaN && y.isNaN) || absF (x.toFloat - y.toFloat) ≤ 1e-5 * s + 1e-30
    let exact := m.x.toBits == real.x.toBits && m.y.toBits == real.y.toBits && m.z.toBits == real.z.toBits
    let okG := close m.x real.x (mag 0) && close m.y real.y (mag 1) && close m.z real.z (mag 2)
    let anyNaN := m.x.isNaN || m.y.isNaN || m.z.isNaN || real.x.isNaN || real.y.isNaN || real.z.isNaN
    if amb then out := out ++ [s!"skip ambiguous {tag}"]
    else if anyNaN && !okG then out := out ++ [s!"skip nan {tag}"]
    else if okG then out := out ++ [s!"ok jacobian{if exact then "-exact" else ""} {tag}"]
    else out := out ++ [s!"MISMATCH jacobian {tag} model {F32.toHex m.x} {F32.toHex m.y} {F32.toHex m.z} real {F32.toHex real.x} {F32.toHex real.y} {F32.toHex real.z}"]
    -- the value the transformed oracle returns is the inner value at the transformed point
    let ve := g 3 3
    let vt := g 4 3
    if ve.toBits == vt.toBits || (ve.isNaN && vt.isNaN) then out := out ++ [s!"ok tvalue-exact {tag}"]
    else if absF (ve.toFloat - vt.toFloat) ≤ 1e-4 * (absF ve.toFloat + absF vt.toFloat) + 1e-30 then
      out := out ++ [s!"ok tvalue {tag}"]
    else out := out ++ [s!"skip tvalue-differs {tag} inner {F32.toHex ve} transformed {F32.toHex vt}"]
  return out

def handle (st : St) (line : String) : St × List String :=
  let ws := words line
  match ws with
  | "case" :: k :: _ => ({ case := k }, [])
  | "tr" :: "deck" :: _ :: rest =>
    let kinds := rest.toArray.map fun s =>
      match s.splitOn ":" with
      | [k, i] => (k == "trans", if i == "-1" then 1000000 else nat! i)
      | _ => (false, 1000000)
    let orcs := kinds.toList.map fun (tr, _) => if tr then Orc.trans .null (Orc.user .null) else Orc.user .null
    let d := DeckM.init orcs
    ({ st with kinds := kinds, deck := d },
     [if d.balanced then s!"ok balanced case {st.case} init" else s!"MISMATCH balanced case {st.case} init"])
  | "base" :: "tape" :: rest =>
    match parseTape rest with
    | some T => ({ st with tapes := [(0, T)] },
        [if wfb T.t then s!"ok wf case {st.case}" else s!"MISMATCH wf case {st.case}"])
    | none => (st, [s!"MISMATCH parse case {st.case} base"])
  | "tr" :: "tctx" :: tid :: nctx :: norc :: names =>
    let tag := s!"case {st.case} step {st.step} {tid}"
    let o := if nat! nctx == nat! norc && nat! norc == st.kinds.size then s!"ok one-context-per-oracle {tag}"
      else s!"MISMATCH one-context-per-oracle {tag} contexts {nctx} oracles {norc}"
    match st.waiting with
    | some p => ({ st with waiting := some { p with tctx := names } }, [o])
    | none =>
      -- base tape: all null
      let m := " ".intercalate ((st.deck.tapeCtx 0).map Ctx.render)
      (st, [o, cmp "tape-contexts" tag m (" ".intercalate names)])
  | "tr" :: "begin" :: op :: tid :: rest =>
    ({ st with cur := some { op := op, t := nat! (tid.drop 1).toString, term := rest.headD "0" == "1", events := [] },
               step := st.step + 1 }, [])
  | "wev" :: _ =>
    match st.cur with
    | some p => ({ st with cur := some { p with events := p.events ++ [ws] } }, [])
    | none => (st, [])
  | "tr" :: "end" :: op :: rest =>
    match st.cur with
    | none => (st, [s!"MISMATCH protocol case {st.case} end-without-begin"])
    | some p =>
      let tag := s!"case {st.case} step {st.step} {op} T{p.t}"
      let st := { st with cur := none }
      if op == "eval" then
        let (st, o1) := checkEval st p.t false p.events ["array"] tag
        let hasD := !(st.observed p.events ["derivs"]).isEmpty
        if hasD then
          let (st, o2) := checkEval st p.t false p.events ["derivs"] tag
          (st, o1 ++ o2)
        else (st, o1)
      else if op == "ieval" then checkEval st p.t true p.events ["interval"] tag
      else if op == "feat" then
        let (st, o1) := checkEval st p.t false p.events ["array"] tag
        -- features are evaluated on the tape returned by valueAndPush: the tape itself when it is
        -- terminal, otherwise every oracle still active got `push(SPECIALIZED)` -> a null context
        let obs := st.observed p.events ["features"]
        let exp : List (Nat × Ctx) := obs.map fun (k, _) =>
          if p.term then
            let c := (st.deck.tapeCtx p.t).getD k .null
            (k, if (st.kinds.getD k (false, 0)).1 then c.under else c)
          else (k, .null)
        (st, o1 ++ [cmp "seen-features" tag (renderSeen exp) (renderObs obs)])
      else
        -- ipush / ppush: wait for the dumped tape
        let same := rest.getD 1 "0" == "1"
        ({ st with waiting := some { p with newId := nat! ((rest.getD 0 "T0").drop 1).toString, same := same } }, [])
  | "tr" :: "unbound" :: _ :: nb :: top :: _ =>
    let tag := s!"case {st.case} step {st.step}"
    let o1 := if nb == "0" && top == "0" then s!"ok unbound {tag}" else s!"MISMATCH unbound {tag} wrapped-bound {nb} deck-bound {top}"
    let o2 := if st.waiting.isSome || st.deck.balanced then [] else [s!"MISMATCH balanced {tag}"]
    (st, o1 :: o2)
  | "pushed" :: "tape" :: rest =>
    match parseTape rest, st.waiting with
    | some T, some p => finishPush { st with waiting := none } p T
    | _, _ => (st, [s!"MISMATCH parse case {st.case} pushed"])
  | "jac" :: rest => (st, jacCheck st rest)
  | _ => (st, [])

def run (_args : List String) (lines : Array String) : Array String := Id.run do
  let mut st : St := {}
  let mut out : Array String := #[]
  for l in lines do
    let (st', o) := handle st l
    st := st'
    for x in o do out := out.push x
  return out

end Driver.C16
