/-
  C06 driver: replays what the real derivative / Jacobian / feature evaluators did
  (harness/deriv.cpp output) through the model of LibfiveModel/Deriv.lean.

  * `deriv`  : every clause's three derivative lanes are recomputed by the model kernel `dk`
               from the REAL operand values and REAL operand lanes (so each kernel is compared
               in isolation, no error accumulation), at Float32 and at binary64; the tolerance
               is derived from the f32/f64 gap and a perturbation of the operand values
               (multi-operation kernels are FMA-contracted in the C++, never bit-compared).
               Selection kernels (min max abs neg add sub mod const-var nanfill compare) are
               compared exactly.
  * `jac`    : `jacGradient` (slot packing, seeds, clear_vars) on the real slot values.
  * `feat`   : `featList` with the oracle answered from the table of real `Feature::push` answers
               (no scratch is read since the fixes aa9f57c / 3ea66fb); feature lists compared exactly
               (as multisets).
  Output: `ok …` / `MISMATCH …` / `skip …`.
-/
import Driver.Parse
import LibfiveModel.DerivFloat
open Libfive

namespace Driver.C06

structure Deck where
  n : Nat := 0
  x : Nat := 0
  y : Nat := 0
  z : Nat := 0
  consts : List (Nat × Float32) := []
  vars : List (Nat × Float32) := []     -- in deck->vars.left order

def f32! (s : String) : Float32 := (F32.parseF32 s).getD (Float32.ofBits 0x7fc00000)

def parseDeck (ws : List String) : Deck := Id.run do
  match ws with
  | n :: x :: y :: z :: "consts" :: k :: rest =>
    let k := nat! k
    let ra := rest.toArray
    let cs := (List.range k).map fun i => (nat! (ra.getD (2*i) ""), f32! (ra.getD (2*i+1) ""))
    let rest := rest.drop (2*k)
    match rest with
    | "vars" :: m :: rest =>
      let m := nat! m
      let ra := rest.toArray
      let vs := (List.range m).map fun i => (nat! (ra.getD (3*i) ""), f32! (ra.getD (3*i+2) ""))
      return { n := nat! n, x := nat! x, y := nat! y, z := nat! z, consts := cs, vars := vs }
    | _ => return { n := nat! n, x := nat! x, y := nat! y, z := nat! z, consts := cs }
  | _ => return {}

def arrGet (a : Array Float32) (i : Nat) : Float32 := a.getD i 0

/-- selection / single-operation kernels: compared exactly -/
def exactKernel : Op → Bool
  | .add | .sub | .neg | .min | .max | .abs | .mod | .constVar | .nanfill | .compare => true
  | _ => false

def fin (x : Float) : Bool := !x.isNaN && !x.isInf

/-- tolerance for one kernel evaluation (see header) -/
def kernelTol (cv : Bool) (op : Op) (av bv ov ad bd : Float32) : Float × Float × Float32 :=
  let m32 := dk dopsF32 cv op av bv ov ad bd
  let A := av.toFloat; let B := bv.toFloat; let V := ov.toFloat
  let da := ad.toFloat; let db := bd.toFloat
  let m64 := dk dopsF64 cv op A B V da db
  let e := 2e-6
  let p1 := dk dopsF64 cv op (A * (1 + e)) B V da db
  let p2 := dk dopsF64 cv op (A * (1 - e)) B V da db
  let p3 := dk dopsF64 cv op A (B * (1 + e)) V da db
  let p4 := dk dopsF64 cv op A (B * (1 - e)) V da db
  let p5 := dk dopsF64 cv op A B (V * (1 + e)) da db
  let pert := [p1, p2, p3, p4, p5].foldl (fun acc p => max acc (p - m64).abs) 0
  let tol := 8 * (m32.toFloat - m64).abs + 2e-5 * m64.abs + 2e-6 * (da.abs + db.abs) + 2 * pert + 1e-30
  (m64, tol, m32)

structure St where
  case : String := ""
  deck : Deck := {}
  base : TapeM := {t := [], root := 0}
  q : Nat := 0
  slots : Array Float32 := #[]
  qline : List String := []
  -- feature query state
  ftape : TapeM := {t := [], root := 0}
  csimd : Nat := 0
  stale : List (Nat × Array Float32) := []
  fraw : List String := []
  fraw2 : List String := []
  fslots : List String := []
  otable : List String := []
  flist : List String := []

/-! ### feature protocol parsing -/

def parseV3 (ws : List String) : V3 Float32 × List String :=
  match ws with
  | a :: b :: c :: rest => (⟨f32! a, f32! b, f32! c⟩, rest)
  | _ => (⟨0, 0, 0⟩, [])

def parseV3s : Nat → List String → List (V3 Float32) × List String
  | 0, ws => ([], ws)
  | k + 1, ws =>
    let (v, ws) := parseV3 ws
    let (vs, ws) := parseV3s k ws
    (v :: vs, ws)

/-- `F dx dy dz ne (e)*` -/
def parseFeat (ws : List String) : Option (Feat Float32 × List String) :=
  match ws with
  | "F" :: rest =>
    let (d, rest) := parseV3 rest
    match rest with
    | ne :: rest =>
      let (es, rest) := parseV3s (nat! ne) rest
      some ({ deriv := d, eps := es }, rest)
    | _ => none
  | _ => none

def parseFeats : Nat → List String → List (Feat Float32) × List String
  | 0, ws => ([], ws)
  | k + 1, ws =>
    match parseFeat ws with
    | some (f, ws) =>
      let (fs, ws) := parseFeats k ws
      (f :: fs, ws)
    | none => ([], ws)

/-- `S k n (F…)*` repeated -/
partial def parseFSlots (ws : List String) (acc : List (Nat × List (Feat Float32))) :
    List (Nat × List (Feat Float32)) :=
  match ws with
  | "S" :: k :: n :: rest =>
    let (fs, rest) := parseFeats (nat! n) rest
    parseFSlots rest ((nat! k, fs) :: acc)
  | _ => acc.reverse

/-- one logged query of the real `Feature::push`: (eps-in, e) ↦ (ok, eps-out) -/
structure PushQ where
  ein : List (V3 Float32)
  e : V3 Float32
  ok : Bool
  eout : List (V3 Float32)

partial def parseOTable (ws : List String) (acc : List PushQ) : List PushQ :=
  match ws with
  | "Z" :: _ :: _ :: _ :: rest => parseOTable rest acc
  | "NZ" :: _ :: _ :: _ :: rest => parseOTable rest acc
  | "P" :: n :: rest =>
    let (ein, rest) := parseV3s (nat! n) rest
    let (e, rest) := parseV3 rest
    match rest with
    | ok :: m :: rest =>
      let (eout, rest) := parseV3s (nat! m) rest
      parseOTable rest ({ ein := ein, e := e, ok := ok == "1", eout := eout } :: acc)
    | _ => acc.reverse
  | _ => acc.reverse

def v3bits (a b : V3 Float32) : Bool :=
  a.x.toBits == b.x.toBits && a.y.toBits == b.y.toBits && a.z.toBits == b.z.toBits

def epsBits : List (V3 Float32) → List (V3 Float32) → Bool
  | [], [] => true
  | a :: as, b :: bs => v3bits a b && epsBits as bs
  | _, _ => false

/-- `Feature::operator<` -/
def v3cmp (a b : V3 Float32) : Int :=
  if a.x < b.x then -1 else if a.x > b.x then 1
  else if a.y < b.y then -1 else if a.y > b.y then 1
  else if a.z < b.z then -1 else if a.z > b.z then 1 else 0

def featLt (f g : Feat Float32) : Bool :=
  let rec go : List (V3 Float32) → List (V3 Float32) → Bool
    | a :: as, b :: bs => let c := v3cmp a b; if c != 0 then c < 0 else go as bs
    | _ :: _, [] => false
    | [], _ :: _ => true
    | [], [] => v3cmp f.deriv g.deriv < 0
  go f.eps g.eps

def insertSorted (f : Feat Float32) : List (Feat Float32) → List (Feat Float32)
  | [] => [f]
  | g :: rest => if featLt f g then f :: g :: rest else g :: insertSorted f rest

def sortFeats (l : List (Feat Float32)) : List (Feat Float32) := l.foldr insertSorted []

def sameEps (f g : Feat Float32) : Bool :=
  f.eps.length == g.eps.length && (f.eps.zip g.eps).all fun (a, b) => v3eq a b

def dist2 (a b : V3 Float32) : Float32 :=
  let d := v3sub a b
  d.x * d.x + d.y * d.y + d.z * d.z

/-- `std::unique` with the predicate of eval_feature.cpp (compares with the last KEPT element) -/
def uniqueFeats : List (Feat Float32) → List (Feat Float32)
  | [] => []
  | f :: rest =>
    let rec go (last : Feat Float32) : List (Feat Float32) → List (Feat Float32)
      | [] => []
      | g :: rest =>
        if (dist2 last.deriv g.deriv).toFloat ≤ 1e-10 && sameEps last g then go last rest
        else g :: go g rest
    f :: go f rest

/-- the deduplication epilogue of `FeatureEvaluator::operator()` -/
def dedupFeats (l : List (Feat Float32)) : List (Feat Float32) :=
  if l.length ≤ 1 then l else
  let u := uniqueFeats (sortFeats l)
  match u with
  | [] => []
  | f :: _ =>
    if u.all (fun g => (dist2 g.deriv f.deriv).toFloat < 1e-10) then [{ deriv := f.deriv, eps := [] }]
    else u

def featKey (f : Feat Float32) : String :=
  let h (v : V3 Float32) := s!"{F32.toHex v.x}.{F32.toHex v.y}.{F32.toHex v.z}"
  -- +0 / -0 are `==` for Eigen: canonicalise the sign of zero
  let c (v : V3 Float32) : V3 Float32 := ⟨v.x + 0, v.y + 0, v.z + 0⟩
  h (c f.deriv) ++ "|" ++ String.intercalate "," (f.eps.map fun e => h (c e))

def sameMultiset (a b : List (Feat Float32)) : Bool :=
  let ka := (a.map featKey).toArray.qsort (· < ·)
  let kb := (b.map featKey).toArray.qsort (· < ·)
  ka == kb

def showFeats (l : List (Feat Float32)) : String :=
  String.intercalate " ; " (l.map featKey)

/-! ### queries -/

def leafSeed (d : Deck) (r : Nat) : Nat → Float32 := spatialSeed dopsF32 d.x d.y d.z r

def checkDeriv (st : St) (lanes : Array Float32) : List String := Id.run do
  let tag := s!"case {st.case} q {st.q}"
  let v : Nat → Float32 := arrGet st.slots
  let d (r : Nat) : Nat → Float32 := fun s => arrGet lanes (3 * s + r)
  let mut out : List String := []
  let mut nexact := 0
  let mut ntol := 0
  let mut nskip := 0
  -- leaves keep their seeds
  for r in [0, 1, 2] do
    for s in [st.deck.x, st.deck.y, st.deck.z] do
      if (d r s).toBits != (leafSeed st.deck r s).toBits then
        out := out ++ [s!"MISMATCH seed {tag} slot {s} row {r}"]
  for c in st.base.t.reverse do
    for r in [0, 1, 2] do
      let av := v c.a; let bv := v c.b; let ov := v c.id
      let ad := d r c.a; let bd := d r c.b
      let real := d r c.id
      let (m64, tol, m32) := kernelTol false c.op av bv ov ad bd
      if exactKernel c.op then
        if f32eq m32 real then nexact := nexact + 1
        else out := out ++ [s!"MISMATCH kernel-exact {tag} clause {c.id} {c.op.pname} row {r} model {F32.toHex m32} real {F32.toHex real}"]
      else if m64.isNaN && real.isNaN then ntol := ntol + 1
      else if !fin m64 || !fin real.toFloat || !fin tol then
        if m32.toBits == real.toBits || (m32.isNaN && real.isNaN) then ntol := ntol + 1 else nskip := nskip + 1
      else if (real.toFloat - m64).abs ≤ tol then ntol := ntol + 1
      else out := out ++ [s!"MISMATCH kernel {tag} clause {c.id} {c.op.pname} row {r} model {F32.toHex m32} real {F32.toHex real} tol {tol}"]
  -- whole-tape run of the model on the real values (decisions of every selection kernel)
  let root := st.base.root
  if out.isEmpty then
    return [s!"ok deriv {tag} clauses {st.base.t.length} exact {nexact} tol {ntol} nonfinite {nskip} root {root}"]
  else return out

def checkJac (st : St) (ws : List String) : List String := Id.run do
  -- ws: x y z nvars (clause idx hex)*
  let tag := s!"case {st.case} q {st.q}"
  match ws with
  | _ :: _ :: _ :: nv :: rest =>
    let nv := nat! nv
    let ra := rest.toArray
    let vars := ((List.range nv).map fun i => nat! (ra.getD (3 * i) "")).toArray
    let real := ((List.range nv).map fun i => f32! (ra.getD (3 * i + 2) "")).toArray
    let v : Nat → Float32 := arrGet st.slots
    let v64a : Array Float := st.slots.map (·.toFloat)
    let v64 : Nat → Float := fun s => v64a.getD s 0
    let n := st.slots.size
    let m32 := (jacGradientA dopsF32 256 vars v st.base.t st.base.root n).toArray
    let m64 := (jacGradientA dopsF64 256 vars v64 st.base.t st.base.root n).toArray
    -- a variable that IS the root: derivs() copies d(root) which the seeding wrote
    let mut bad : List String := []
    let mut nexact := 0
    let mut nskip := 0
    for i in List.range nv do
      let a := m32.getD i 0; let b := m64.getD i 0; let r := real.getD i 0
      if a.toBits == r.toBits || (a.isNaN && r.isNaN) then nexact := nexact + 1
      else if !fin b || !fin r.toFloat then nskip := nskip + 1
      else
        let tol := 64 * (a.toFloat - b).abs + 1e-4 * b.abs + 1e-7
        if (r.toFloat - b).abs ≤ tol then pure () else
          bad := bad ++ [s!"MISMATCH jac {tag} var {i} slot {vars.getD i 0} model {F32.toHex a} real {F32.toHex r}"]
    if bad.isEmpty then return [s!"ok jac {tag} vars {nv} bitexact {nexact} nonfinite {nskip}"]
    else return bad.take 3
  | _ => return [s!"MISMATCH parse {tag} jac"]

/-- the oracle answered from the table of real answers (bit-exact lookup) -/
def tablePush (tab : List PushQ) (es : List (V3 Float32)) (e : V3 Float32) : Option (Option (List (V3 Float32))) :=
  match tab.find? (fun q => epsBits q.ein es && v3bits q.e e) with
  | some q => some (if q.ok then some q.eout else none)
  | none => none

def checkFeat (st : St) : List String := Id.run do
  let tag := s!"case {st.case} q {st.q}"
  let v : Nat → Float32 := arrGet st.slots
  let tab := parseOTable st.otable []
  let realSlots := parseFSlots st.fslots []
  let realF : Nat → List (Feat Float32) := fun s => match realSlots.find? (·.1 == s) with
    | some (_, l) => l
    | none => []
  -- missing oracle answers are recorded through a sentinel epsilon list
  let sentinel : V3 Float32 := ⟨Float32.ofBits 0x7fc00001, 0, 0⟩
  let F : FeatOracle Float32 :=
    { push := fun es e => match tablePush tab es e with
        | some r => r
        | none => some [sentinel]
      normZero := v3normZero, veq := v3eq, sub := v3sub, negv := v3neg }
  -- clause by clause on the REAL operand feature lists
  let mut out : List String := []
  let mut cs := st.csimd
  let mut nties := 0
  let mut nclauses := 0
  for c in st.ftape.t.reverse do
    let fa := realF c.a; let fb := realF c.b
    let (raw, cs') := featClauseRaw dopsF32 F false 256 16 cs c v realF
    let model := dedupFeats raw
    let real := realF c.id
    nclauses := nclauses + 1
    let tied := (c.op == Op.min || c.op == Op.max) && c.a != c.b && !(v c.a < v c.b) && !(v c.b < v c.a)
    if tied then nties := nties + 1
    let isMinMax := c.op == Op.min || c.op == Op.max
    if raw.any (fun f => f.eps.any (fun e => e.x.toBits == sentinel.x.toBits)) then
      out := out ++ [s!"MISMATCH oracle-miss {tag} clause {c.id} {c.op.pname}"]
    else if isMinMax || exactKernel c.op then
      if !sameMultiset model real then
        out := out ++ [s!"MISMATCH feat {tag} clause {c.id} {c.op.pname} model {showFeats model} real {showFeats real}"]
    else
      -- inexact kernel: same count and epsilons, derivatives within tolerance (greedy matching)
      let ok := model.length == real.length &&
        model.all fun m => real.any fun r => sameEps m r &&
          ((dist2 m.deriv r.deriv).toFloat ≤ 1e-8 * (1 + (dist2 m.deriv ⟨0,0,0⟩).toFloat) || v3eqN m.deriv r.deriv)
      if !ok then
        out := out ++ [s!"MISMATCH feat-num {tag} clause {c.id} {c.op.pname} model {showFeats model} real {showFeats real}"]
    cs := cs'
  -- root: raw list and deduplicated list
  let (rawN, rest) := match st.fraw with | n :: r => (nat! n, r) | [] => (0, [])
  let (rawReal, _) := parseFeats rawN rest
  if !sameMultiset rawReal (realF st.ftape.root) then
    out := out ++ [s!"MISMATCH feat-root {tag}"]
  let (nl, restl) := match st.flist with | n :: r => (nat! n, r) | [] => (0, [])
  let (lst, _) := parseV3s nl restl
  let (raw2N, rest2) := match st.fraw2 with | n :: r => (nat! n, r) | [] => (0, [])
  let (raw2, _) := parseFeats raw2N rest2
  let modelList := uniqDerivs v3eq raw2
  if !(modelList.length == lst.length && (modelList.zip lst).all fun (a, b) => v3eqN a b) then
    out := out ++ [s!"MISMATCH flist {tag} model {modelList.length} real {lst.length}"]
  let bad := out.filter (·.startsWith "MISMATCH")
  if bad.isEmpty then
    return out ++ [s!"ok feat {tag} clauses {nclauses} ties {nties} rootfeatures {rawReal.length} oracle-queries {tab.length}"]
  else return out

def checkInside (st : St) (ws : List String) : List String :=
  -- ws: <inside> root <id> checks n (pos neg normpos)*
  let tag := s!"case {st.case} q {st.q}"
  match ws with
  | ins :: "root" :: root :: "checks" :: n :: rest =>
    let n := nat! n
    let ra := rest.toArray
    let value := arrGet st.slots (nat! root)
    let realSlots := parseFSlots st.fslots []
    let fs : List (Feat Float32) := match realSlots.find? (·.1 == nat! root) with
      | some (_, l) => l | none => []
    -- the `check` oracle answered positionally from the real answers
    let idxOf (f : Feat Float32) : Nat := (fs.findIdx? (fun g => featKey g == featKey f)).getD 0
    let check : Feat Float32 → V3 Float32 → Bool := fun f d =>
      let i := idxOf f
      if v3bits d f.deriv then ra.getD (3 * i) "" == "1" else ra.getD (3 * i + 1) "" == "1"
    let normPos : V3 Float32 → Bool := fun d =>
      let i := (fs.findIdx? (fun g => v3bits g.deriv d)).getD 0
      ra.getD (3 * i + 2) "" == "1"
    let model := isInsideM (fun a b => decide (a < b)) (0 : Float32) value normPos v3neg check fs
    if value != 0 && fs.length != n then
      -- unambiguous: features were not evaluated by isInside; the list is from features()
      if model == (ins == "1") then [s!"ok inside-sign {tag}"] else [s!"MISMATCH inside {tag} model {model} real {ins}"]
    else if model == (ins == "1") then [s!"ok inside {tag} value0 {value == 0} features {fs.length}"]
    else [s!"MISMATCH inside {tag} model {model} real {ins}"]
  | _ => [s!"MISMATCH parse {tag} inside"]

partial def parseStale (lanes : Nat) (ws : List String) (acc : List (Nat × Array Float32)) :
    List (Nat × Array Float32) :=
  match ws with
  | "C" :: id :: rest =>
    let vals := (rest.take (4 * lanes)).map f32!
    parseStale lanes (rest.drop (4 * lanes)) ((nat! id, vals.toArray) :: acc)
  | _ => acc

def handle (st : St) (line : String) : St × List String :=
  let ws := words line
  match ws with
  | "case" :: k :: _ => ({ case := k }, [])
  | "deck" :: rest => ({ st with deck := parseDeck rest }, [])
  | "base" :: "tape" :: rest =>
    match parseTape rest with
    | some T =>
      let o := if wfb T.t then s!"ok wf case {st.case}" else s!"MISMATCH wf case {st.case}"
      ({ st with base := T }, [o])
    | none => (st, [s!"MISMATCH parse case {st.case} base"])
  | "deriv" :: rest => ({ st with q := st.q + 1, qline := "deriv" :: rest }, [])
  | "jac" :: rest => ({ st with q := st.q + 1, qline := "jac" :: rest }, [])
  | "feat" :: _ :: _ :: _ :: "value" :: _ :: "csimd" :: cs :: _ =>
    ({ st with q := st.q + 1, qline := ["feat"], csimd := nat! cs }, [])
  | "ftape" :: "tape" :: rest =>
    match parseTape rest with
    | some T => ({ st with ftape := T }, [])
    | none => (st, [s!"MISMATCH parse case {st.case} ftape"])
  | "stale" :: lanes :: rest => ({ st with stale := parseStale (nat! lanes) rest [] }, [])
  | "fraw" :: rest => ({ st with fraw := rest }, [])
  | "fraw2" :: rest => ({ st with fraw2 := rest }, [])
  | "fslots" :: _ :: rest => ({ st with fslots := rest }, [])
  | "otable" :: _ :: rest => ({ st with otable := rest }, [])
  | "flist" :: rest =>
    let st := { st with flist := rest }
    (st, checkFeat st)
  | "inside" :: rest => (st, checkInside st rest)
  | "slots" :: _ :: rest =>
    let st := { st with slots := (rest.map f32!).toArray }
    match st.qline with
    | "jac" :: args => (st, checkJac st args)
    | _ => (st, [])
  | "dlanes" :: _ :: rest => (st, checkDeriv st (rest.map f32!).toArray)
  | "jacpost" :: "clear" :: c :: "seeds" :: a :: b :: d :: _ =>
    let one := "3f800000"
    if c == "0" && a == one && b == one && d == one then (st, [s!"ok jacpost case {st.case} q {st.q}"])
    else (st, [s!"MISMATCH jacpost case {st.case} q {st.q} clear {c} seeds {a} {b} {d}"])
  | _ => (st, [])

def run (_args : List String) (lines : Array String) : Array String := Id.run do
  let mut st : St := {}
  let mut out : Array String := #[]
  for l in lines do
    let (st', o) := handle st l
    st := st'
    for x in o do out := out.push x
  return out

end Driver.C06
