/-
  C17 driver: runs the model of `Solver::findRoot` (LibfiveModel/Solver.lean) at `Float32`, with the
  REAL evaluator's answers (harness/solver.cpp output) as the `value` / `grad` oracle, keyed by the
  evaluator's variable state, and compares
    * numbers: slope, first step, every trial point (`v - step*d`) re-derived in Float32 against the
      harness' replica (decides whether the compiler fused `a*b+c`; both variants are IEEE-exact);
    * decisions: for every budget `g` of the gas sweep the model's outcome (returned residual and
      variables bit for bit / certified hang) against what the real call returned / did not return.
  Output: `ok ...` / `MISMATCH ...` / `skip ...` / `info ...` lines.
-/
import Driver.Parse
import LibfiveModel.Solver
import Driver.C17B32
open Libfive Libfive.Solver

namespace Driver.C17

def f32! (s : String) : Float32 := (F32.parseF32 s).getD (Float32.ofBits 0x7fc00000)
def hx (f : Float32) : String := F32.toHex f

/-- correctly rounded single-precision fused multiply-add `a*b + c`, through double with
    round-to-odd (the product of two singles is exact in double) -/
def fma32 (a b c : Float32) : Float32 :=
  let p : Float := a.toFloat * b.toFloat
  let cf := c.toFloat
  let s := p + cf
  let bb := s - p
  let e := (p - (s - bb)) + (cf - bb)
  if e == 0 || s.isNaN || s.isInf || e.isNaN then s.toFloat32 else
    let bits := s.toBits
    if bits &&& 1 == 1 then s.toFloat32 else
      let up := (e > 0) == (s > 0)
      (Float.ofBits (if up then bits + 1 else bits - 1)).toFloat32

def f32Scalar (fusedSq fusedSub : Bool) : Scalar Float32 where
  zero := 0
  eps := Float32.ofBits 0x358637bd
  abs := Float32.abs
  sub := fun a b => a - b
  div := fun a b => a / b
  half := fun a => a / 2
  sqAdd := fun acc x => if fusedSq then fma32 x x acc else acc + x * x
  subMul := fun v s d => if fusedSub then fma32 (-s) d v else v - s * d
  lt := fun a b => decide (a < b)
  ge := fun a b => decide (a ≥ b)
  geHalf := fun q s => decide (q.toFloat ≥ s.toFloat * 0.5)
  isFinite := Float32.isFinite
  isZero := fun a => a == 0

abbrev Key := List UInt32
def keyOf (a : Assign Float32) : Key := a.map (·.2.toBits)

structure Ret where
  g : Nat
  res : Option (Float32 × Assign Float32)     -- none = timeout

structure Trial where
  k : Nat
  j : Nat
  step : Float32
  vars : Assign Float32
  r_ : Float32

structure Iter where
  k : Nat
  r : Float32
  grad : Assign Float32
  slope : Float32
  step : Float32

structure Case where
  id : String := ""
  init : Assign Float32 := []
  masked : List Var := []
  indeck : List Var := []
  rets : Array Ret := #[]
  iters : Array Iter := #[]
  trials : Array Trial := #[]
  userGas : Nat := 0
  user : Option (Option (Float32 × Assign Float32)) := none

def parsePairs (n : Nat) (ws : List String) : Assign Float32 × List String :=
  let rec go : Nat → List String → List (Var × Float32) → Assign Float32 × List String
    | 0, ws, acc => (acc.reverse, ws)
    | k + 1, i :: v :: ws, acc => go k ws ((nat! i, f32! v) :: acc)
    | _, ws, acc => (acc.reverse, ws)
  go n ws []

def parseSol (ws : List String) : Option (Float32 × Assign Float32) :=
  match ws with
  | "ok" :: "r" :: r :: "n" :: n :: rest => some (f32! r, (parsePairs (nat! n) rest).1)
  | _ => none

def addLine (c : Case) (ws : List String) : Case :=
  match ws with
  | "vars" :: m :: rest =>
    let m := nat! m
    Id.run do
      let mut init : Assign Float32 := []
      let mut masked : List Var := []
      let mut indeck : List Var := []
      for i in [0:m] do
        init := init ++ [(i, f32! (rest.getD (4*i+1) ""))]
        if rest.getD (4*i+2) "" == "1" then masked := masked ++ [i]
        if rest.getD (4*i+3) "" == "1" then indeck := indeck ++ [i]
      return { c with init := init, masked := masked, indeck := indeck }
  | "user" :: "gas" :: g :: rest => { c with userGas := nat! g, user := some (parseSol rest) }
  | "ret" :: g :: rest => { c with rets := c.rets.push ⟨nat! g, parseSol rest⟩ }
  | "it" :: k :: "r" :: r :: "grad" :: n :: rest =>
    let (grad, rest) := parsePairs (nat! n) rest
    match rest with
    | "slope" :: s :: "step" :: st :: _ =>
      { c with iters := c.iters.push ⟨nat! k, f32! r, grad, f32! s, f32! st⟩ }
    | _ => c
  | "tr" :: k :: j :: "step" :: st :: "n" :: n :: rest =>
    let (vars, rest) := parsePairs (nat! n) rest
    match rest with
    | "r_" :: r :: _ => { c with trials := c.trials.push ⟨nat! k, nat! j, f32! st, vars, f32! r⟩ }
    | _ => c
  | _ => c

def missBits : UInt32 := 0x7fc00000

structure Tables where
  vals : Array (Key × Float32) := #[]
  grads : Array (Key × Assign Float32) := #[]

def Tables.value (t : Tables) (ev : Assign Float32) : Float32 :=
  let k := keyOf ev
  match t.vals.find? (·.1 == k) with
  | some (_, v) => v
  | none => Float32.ofBits missBits
def Tables.grad (t : Tables) (ev : Assign Float32) : Assign Float32 :=
  let k := keyOf ev
  match t.grads.find? (·.1 == k) with
  | some (_, g) => g
  | none => []
def Tables.hasValue (t : Tables) (ev : Assign Float32) : Bool :=
  let k := keyOf ev
  t.vals.any (·.1 == k)

def sameF (a b : Float32) : Bool := a.toBits == b.toBits
def sameAssign (a b : Assign Float32) : Bool :=
  a.length == b.length && (a.zip b).all fun (p, q) => p.1 == q.1 && sameF p.2 q.2
def showAssign (a : Assign Float32) : String :=
  " ".intercalate (a.map fun p => s!"{p.1}:{hx p.2}")

/-- evaluator slots (deck variables) before the call: the constructor's default 0 -/
def ev0Of (c : Case) : Assign Float32 := c.indeck.map fun i => (i, (0 : Float32))

/-- the evaluator state when the unmasked variables hold `sol` -/
def evAt (c : Case) (sol : Assign Float32) : Assign Float32 := load (load (ev0Of c) c.init) sol

def buildTables (c : Case) : Tables := Id.run do
  let mut t : Tables := {}
  for it in c.iters do
    -- accepted point k is what the real call with gas k+1 returned
    match c.rets.find? (·.g == it.k + 1) with
    | some ⟨_, some (_, sol)⟩ =>
      let ev := evAt c sol
      t := { t with vals := t.vals.push (keyOf ev, it.r), grads := t.grads.push (keyOf ev, it.grad) }
    | _ => pure ()
  for tr in c.trials do
    t := { t with vals := t.vals.push (keyOf (evAt c tr.vars), tr.r_) }
  return t

/-- numbers: re-derive slope / step / trial points of every emitted iteration with scalar `S` -/
def arithCheck (S : Scalar Float32) (c : Case) : Option String := Id.run do
  let vars0 := c.init.filter fun p => !c.masked.contains p.1
  let mut ds : Assign Float32 := vars0.map fun p => (p.1, S.zero)
  for it in c.iters do
    match c.rets.find? (·.g == it.k + 1) with
    | some ⟨_, some (_, sol)⟩ =>
      ds := load ds it.grad
      let slope := slopeOf S ds
      if !sameF slope it.slope then return some s!"slope it {it.k} model {hx slope} real {hx it.slope}"
      let step0 := S.div it.r slope
      if !sameF step0 it.step then return some s!"step it {it.k} model {hx step0} real {hx it.step}"
      let mut step := step0
      let mut j := 0
      for tr in c.trials do
        if tr.k == it.k then
          if tr.j != j then return some s!"trial order it {it.k}"
          if !sameF step tr.step then return some s!"halving it {it.k} j {j} model {hx step} real {hx tr.step}"
          let tv := stepVars S sol ds step
          if !sameAssign tv tr.vars then
            return some s!"trialvars it {it.k} j {j} model {showAssign tv} real {showAssign tr.vars}"
          step := S.half step
          j := j + 1
    | _ => pure ()
  return none

def classifyHang (S : Scalar Float32) (st : St Float32) (step : Float32) : String :=
  let fixed := sameF (S.half step) step
  if !fixed then "not-fixed"
  else if step.isNaN then "nan-step"
  else if step.isInf then "inf-step"
  else if step == 0 then
    (if st.ds.any (fun p => !p.2.isFinite) then "zero-step-nonfinite-gradient" else "zero-step")
  else "other"

def runCase (c : Case) (onlyUnfused : Bool := false) : Array String := Id.run do
  let tag := s!"case {c.id}"
  let mut out : Array String := #[]
  if c.rets.isEmpty then return #[s!"skip nosweep {tag}"]
  -- choose the arithmetic variant that reproduces the numbers
  let variants := if onlyUnfused then [(false, false)] else [(true, true), (false, true), (true, false), (false, false)]
  let mut chosen : Option (Bool × Bool) := none
  let mut firstErr := ""
  for v in variants do
    if chosen.isNone then
      match arithCheck (f32Scalar v.1 v.2) c with
      | none => chosen := some v
      | some e => if firstErr == "" then firstErr := e
  match chosen with
  | none => return #[s!"skip arith {tag} {firstErr}"]
  | some v =>
    out := out.push s!"ok arith {tag} fusedSq {v.1} fusedSub {v.2} iters {c.iters.size} trials {c.trials.size}"
    let S := f32Scalar v.1 v.2
    let T := buildTables c
    let P : Problem Float32 := { value := T.value, grad := T.grad }
    let ev0 := ev0Of c
    let lastG := (c.rets.back?.map (·.g)).getD 0
    -- The tables hold the evaluator's answers for iterations 0 .. lastG-2 only.  Run the model for
    -- that many loop heads; if it is still going, let it take ONE more loop head with a poisoned
    -- evaluator (all gradients 1, so the `all gradients small` break cannot fire and any line search
    -- ends in `.outerFuel`/`.hung`): a `.returned` then comes from the loop test alone
    -- (converged / small residual / out of gas), which needs no evaluator answer.
    let poison : Problem Float32 :=
      { value := fun _ => Float32.ofBits missBits, grad := fun ev => ev.map fun p => (p.1, (1 : Float32)) }
    let run := fun (gas : Nat) =>
      match findRoot S P 450 (lastG - 1) ev0 c.init c.masked gas with
      | .outerFuel st =>
        (match outer S poison 1 1 st with
         | .returned st' => Outcome.returned st'
         | _ => Outcome.outerFuel st)
      | o => o
    let mut maxIters := 0
    let mut hang := "none"
    let mut nonfinite := false
    let mut gaveup := false
    let mut lastOk : Option (Float32 × Assign Float32) := none
    let mut stable := false
    let mut prev : Option (Float32 × Assign Float32) := none
    for r in c.rets do
      let o := run r.g
      match r.res, o with
      | some (rr, sol), .returned st =>
        if sameF st.r rr && sameAssign st.vars sol then
          out := out.push s!"ok ret {tag} g {r.g} iters {st.iters}"
        else
          out := out.push s!"MISMATCH ret {tag} g {r.g} model r {hx st.r} vars {showAssign st.vars} iters {st.iters} real r {hx rr} vars {showAssign sol}"
        if st.iters > maxIters then maxIters := st.iters
        if st.log.any (fun e => !e.step.isFinite) then nonfinite := true
        if st.gaveUp then gaveup := true
        match prev with
        | some (pr, ps) => if sameF pr rr && sameAssign ps sol then stable := true
        | none => pure ()
        prev := some (rr, sol)
        lastOk := some (rr, sol)
      | none, .hung st step n =>
        let kind := classifyHang S st step
        if kind == "not-fixed" then
          out := out.push s!"MISMATCH ret {tag} g {r.g} real timeout, model ran out of fuel without a fixed point (step {hx step} after {n} halvings)"
        else
          out := out.push s!"ok hang {tag} g {r.g} iteration {st.iters} kind {kind} step {hx step}"
          hang := s!"{st.iters}:{kind}"
      | some (rr, sol), .hung st step n =>
        out := out.push s!"MISMATCH ret {tag} g {r.g} model hangs in iteration {st.iters} (step {hx step}, {n} halvings, {classifyHang S st step}) real returned r {hx rr} vars {showAssign sol}"
      | none, .returned st =>
        out := out.push s!"MISMATCH ret {tag} g {r.g} real timeout, model returns r {hx st.r} vars {showAssign st.vars} after {st.iters} iterations"
      | _, .outerFuel _ =>
        out := out.push s!"MISMATCH ret {tag} g {r.g} model outer fuel"
    -- the user-level call
    match c.user with
    | none => pure ()
    | some u =>
      let G := c.userGas
      let eff := G - 1                          -- iterations the budget admits
      -- (a budget beyond the sweep on a trajectory that has not settled ends in `.outerFuel` below)
      if false then
        out := out.push s!"skip user {tag} gas {G} beyond sweep {lastG}"
      else
        let o := run G
        match u, o with
        | some (rr, sol), .returned st =>
          if sameF st.r rr && sameAssign st.vars sol then
            out := out.push s!"ok user {tag} gas {G} iters {st.iters}"
          else
            out := out.push s!"MISMATCH user {tag} gas {G} model r {hx st.r} vars {showAssign st.vars} real r {hx rr} vars {showAssign sol}"
          if st.iters > maxIters then maxIters := st.iters
          if st.log.any (fun e => !e.step.isFinite) then nonfinite := true
          out := out.push s!"info user {tag} gas {G} iters {st.iters} budget {if G = 0 then 0 else G - 1}"
        | none, .hung st step _ =>
          let kind := classifyHang S st step
          if kind == "not-fixed" then
            out := out.push s!"MISMATCH user {tag} gas {G} real timeout, model out of fuel without fixed point"
          else
            out := out.push s!"ok userhang {tag} gas {G} iteration {st.iters} kind {kind}"
            hang := s!"{st.iters}:{kind}"
        | some (rr, sol), .hung st step _ =>
          out := out.push s!"MISMATCH user {tag} gas {G} model hangs ({classifyHang S st step}) real returned r {hx rr} vars {showAssign sol}"
        | none, .returned st =>
          out := out.push s!"MISMATCH user {tag} gas {G} real timeout, model returns after {st.iters} iterations"
        | none, .outerFuel st =>
          -- only possible when the budget is (wrapped to) larger than the sweep
          out := out.push s!"ok userlong {tag} gas {G} model still iterating after {st.iters} iterations (budget {eff})"
        | some _, .outerFuel st =>
          out := out.push s!"skip user {tag} gas {G} beyond sweep: model still iterating after {st.iters} iterations (budget {eff})"
    out := out.push s!"info case {c.id} maxiters {maxIters} hang {hang} nonfinite_accepted {if nonfinite then 1 else 0} gaveup {if gaveup then 1 else 0} fused {v.1} {v.2}"
    return out

/-- IEEE facts the theorems assume of the scalar (`Laws` in LibfiveProofs/Solver.lean), tested at
    Float32 on a landmark set. Prints `ok law ...` / `LAWFAIL ...`. -/
def lawCheck : Array String := Id.run do
  let S := f32Scalar true true
  let bitsL : List UInt32 := [0x00000000, 0x80000000, 0x00000001, 0x80000001, 0x007fffff, 0x00800000,
    0x358637bd, 0x3f800000, 0xbf800000, 0x40490fdb, 0x7f7fffff, 0xff7fffff, 0x7f800000, 0xff800000,
    0x7fc00000, 0x3eaaaaab, 0xc2c80000, 0x4b800000]
  let L := bitsL.map Float32.ofBits
  let fin := L.filter Float32.isFinite
  let mut out : Array String := #[]
  let mut bad := 0
  let mut szero := 0
  let mut maxHalv := 0
  -- bit-strict; the only tolerated exception is the sign of a zero result (`-0 - (-0) = +0`):
  -- the model scalar has one zero, IEEE has two — counted and reported, see known finding
  -- C17:linesearch-hang-signed-zero-step
  for v in L do
    for s in fin do
      let x := S.subMul v s S.zero
      if !sameF x v then
        if x == 0 && v == 0 then szero := szero + 1
        else bad := bad + 1; out := out.push s!"LAWFAIL subMul_zero v {hx v} s {hx s}"
    for d in fin do
      for z in [Float32.ofBits 0, Float32.ofBits 0x80000000] do
        let x := S.subMul v z d
        if !sameF x v then
          if x == 0 && v == 0 then szero := szero + 1
          else bad := bad + 1; out := out.push s!"LAWFAIL subMul_zero_step v {hx v} d {hx d}"
  for s in fin do
    if !(S.half s).isFinite then bad := bad + 1; out := out.push s!"LAWFAIL half_finite {hx s}"
    let mut x := s
    let mut cnt := 0
    for _ in [0:300] do
      if !(x == 0) then
        x := S.half x
        cnt := cnt + 1
    if cnt > maxHalv then maxHalv := cnt
    if !(x == 0) then bad := bad + 1; out := out.push s!"LAWFAIL halves_to_zero {hx s}"
    if !(S.lt (S.abs (S.sub s s)) S.eps) then bad := bad + 1; out := out.push s!"LAWFAIL sub_self {hx s}"
  for a in L do
    for b in L do
      if (S.div a b).isFinite && !a.isFinite then bad := bad + 1; out := out.push s!"LAWFAIL div_finite {hx a} {hx b}"
  for x in [Float32.ofBits 0x7fc00000, Float32.ofBits 0x7f800000, Float32.ofBits 0xff800000] do
    if !sameF (S.half x) x then bad := bad + 1; out := out.push s!"LAWFAIL half_fixed {hx x}"
  if bad == 0 then out := out.push s!"ok laws {L.length} landmarks signed-zero-exceptions {szero} max-halvings-to-zero {maxHalv}"
  return out

def run (args : List String) (lines : Array String) : Array String := Id.run do
  if args.contains "laws" then return lawCheck
  let mut out : Array String := #[]
  let mut cur : Option Case := none
  for l in lines do
    let ws := words l
    match ws with
    | "case" :: k :: _ => cur := some { id := k }
    | "end" :: _ =>
      match cur with
      | some c => out := out ++ runCase c (args.contains "only-unfused"); cur := none
      | none => pure ()
    -- `b32selftest <seed> <n>`: model of binary32 (LibfiveModel/B32.lean) against native Float32
    | "b32selftest" :: seed :: n :: _ => out := out ++ Driver.C17B32.selftest (nat! seed) (nat! n)
    | _ => cur := cur.map (addLine · ws)
  return out

end Driver.C17
