/-
  C02 driver.  Reads the `r` lines of harness/interval.cpp (one per evaluated opcode case: operand
  intervals, libfive's result, raw results of the primitives the authored case splits combine) and
  re-derives libfive's FLAG and CASE SELECTION with the model `Libfive.Ivl.iop` instantiated at
  `K = Float` (every float32 is exactly a double; only comparisons are performed on `K`).
  Bounds that are the direct result of one Boost primitive are taken from the harness line as that
  primitive's result; bounds of the libfive-authored cases (division by a zero-crossing interval,
  atan of infinite bounds, min/max hull rule, nanfill, compare, atan2's 9 cases, mod's switch) are
  recomputed and compared.
  Output: `MISMATCH …` per disagreeing case, `stat <op> <cases> <flagged>` per opcode, one `summary` line.
-/
import Driver.Parse
import LibfiveModel.Interval
open Libfive Libfive.Ivl

namespace Driver.C02

def f32bits (s : String) : UInt32 := ((F32.parseHex s).getD 0x7fc00000).toUInt32

def toF (s : String) : Float := (Float32.ofBits (f32bits s)).toFloat

def fv (x : Float) : FVal Float :=
  if x.isNaN then FVal.nan
  else if x.isInf then (if x > 0 then FVal.pinf else FVal.ninf)
  else FVal.fin x

def fvS (s : String) : FVal Float := fv (toF s)

/-- numeric equality of model and real bounds: NaN = NaN, −0 = +0 -/
def sameV : FVal Float → FVal Float → Bool
  | .nan, .nan => true | .ninf, .ninf => true | .pinf, .pinf => true
  | .fin x, .fin y => x == y
  | _, _ => false

def bitsOf : FVal Float → UInt64
  | .nan => 1 | .ninf => 2 | .pinf => 3 | .fin x => x.toBits

/-- exact Boost `min` / `max` / `hull` on bounds (pure selection) -/
def selMin (a b : FVal Float) : FVal Float := if FVal.lt b a then b else a
def selMax (a b : FVal Float) : FVal Float := if FVal.lt a b then b else a

/-- Boost's `checking_base::is_empty`: `!(lo <= hi)` -/
def bad (a : Bnd Float) : Bool := !(FVal.le a.lo a.hi)

/-- C++ `int(x)` for the small exponent constants of the run (truncation) -/
def truncInt (v : FVal Float) : Int :=
  match v with
  | .fin x => if x < 0 then -((-x).floor.toUInt64.toNat : Int) else (x.floor.toUInt64.toNat : Int)
  | _ => -2147483648

structure Case where
  op : Op
  A : IVal Float
  B : IVal Float
  R : IVal Float
  aux : Array String
  -- operand bound bits for the atan2 corner table
  keys : Array UInt64

def auxV (c : Case) (i : Nat) : FVal Float := fvS (c.aux.getD i "7fc00000")

/-- the primitives as observed in this case -/
def boostOf (c : Case) (nanPrim : Bool := false) : BoostOps Float :=
  let R : Bnd Float := if nanPrim then ⟨FVal.nan, FVal.nan⟩ else ⟨c.R.lo, c.R.hi⟩
  let r1 : Bnd Float → Bnd Float := fun _ => R
  let r2 : Bnd Float → Bnd Float → Bnd Float := fun _ _ => R
  { add := r2, mul := r2,
    -- in `mod` the only subtraction is `a.i - b.i * float(q)`; otherwise it is the result itself
    sub := if c.op == Op.mod then (fun _ _ => ⟨auxV c 6, auxV c 7⟩) else r2,
    div := if c.op == Op.mod then (fun _ _ => ⟨auxV c 2, auxV c 3⟩) else r2,
    -- Boost: `test_input` (an operand with `!(lo <= hi)`, e.g. NaN bounds) makes min/max return
    -- `empty()`; `hull` returns the other operand
    min := fun a b => if bad a || bad b then ⟨FVal.nan, FVal.nan⟩ else ⟨selMin a.lo b.lo, selMin a.hi b.hi⟩,
    max := fun a b => if bad a || bad b then ⟨FVal.nan, FVal.nan⟩ else ⟨selMax a.lo b.lo, selMax a.hi b.hi⟩,
    hull := fun a b =>
      if bad a then (if bad b then ⟨FVal.nan, FVal.nan⟩ else b)
      else if bad b then a else ⟨selMin a.lo b.lo, selMax a.hi b.hi⟩,
    neg := r1, abs := if c.op == Op.mod then id else r1, square := r1, sqrt := r1, sin := r1, cos := r1,
    tan := r1, asin := r1, acos := r1, atan := r1, exp := r1, log := r1, oneDiv := r1,
    powi := fun _ _ => R, nthRoot := fun _ _ => R,
    mulNeg1 := id, mulF := fun b _ => b,
    empty := ⟨FVal.nan, FVal.nan⟩,
    atanWhole := ⟨auxV c 0, auxV c 1⟩,
    atan2f := fun y x =>
      -- corner table of the harness: (Alo,Blo) (Alo,Bhi) (Ahi,Blo) (Ahi,Bhi), matched by bit pattern
      let ky := bitsOf y
      let kx := bitsOf x
      let iy := if ky == c.keys.getD 0 0 then 0 else 2
      let ix := if kx == c.keys.getD 2 0 then 0 else 1
      -- degenerate operands: both rows / columns hold the same value
      auxV c (iy + ix),
    pi := auxV c 5, negPi := auxV c 4,
    toInt := truncInt,
    floorF := fun q =>
      -- `std::floor(q)` as the harness observed it for q.lo / q.hi
      if bitsOf q == bitsOf (auxV c 2) then auxV c 4 else auxV c 5,
    nanOnZeroToNeg := c.aux.getD 0 "" == "3f800000",
    powM1IsNan := fun _ => c.aux.getD 1 "" == "3f800000" }

def parseCase (ws : List String) : Option (String × Case) :=
  match ws with
  | "r" :: kind :: op :: alo :: ahi :: amn :: blo :: bhi :: bmn :: "res" :: lo :: hi :: fl :: "aux" :: n :: rest =>
    match Op.ofPName? op with
    | none => none
    | some o =>
      let n := nat! n
      let aux := (rest.take n).toArray
      let A : IVal Float := ⟨fvS alo, fvS ahi, amn == "1"⟩
      let B : IVal Float := ⟨fvS blo, fvS bhi, bmn == "1"⟩
      let R : IVal Float := ⟨fvS lo, fvS hi, fl == "1"⟩
      let key (s : String) : UInt64 := bitsOf (fvS s)
      some (kind, { op := o, A := A, B := B, R := R, aux := aux,
                    keys := #[key alo, key ahi, key blo, key bhi] })
  | _ => none

/-- Float32 −0/+0 distinction is lost by `toFloat`?  No: the sign bit is preserved, `bitsOf` sees it. -/
def showV : FVal Float → String
  | .nan => "nan" | .ninf => "-inf" | .pinf => "inf" | .fin x => toString x

def showI (I : IVal Float) : String := s!"[{showV I.lo},{showV I.hi}]{if I.mn then "?" else ""}"

/-- which authored decision the case exercised (for the coverage histogram) -/
def decision (c : Case) : String :=
  match c.op with
  | .atan2 => s!"atan2-case-{atan2Case c.A c.B}"
  | .mod => s!"mod-pos-{modPosition c.B}-{if c.A.hi.isFinite && c.A.lo.isFinite then "fin" else "inf"}"
  | .div => if hasZero c.B then "div-zero-crossing" else "div-boost"
  | .atan => if c.A.lo.isInf || c.A.hi.isInf then "atan-inf" else "atan-boost"
  | .min | .max | .nanfill => if c.A.mn || c.B.mn then "flagged-operand" else "plain"
  | .compare => s!"compare-{showV (icompare c.A c.B).lo}-{showV (icompare c.A c.B).hi}"
  | _ => "flag"

def run (_args : List String) (lines : Array String) : Array String := Id.run do
  let mut out : Array String := #[]
  let mut ok := 0
  let mut mism := 0
  let mut skip := 0
  let mut stats : Array (String × Nat × Nat) := #[]     -- (op:decision, cases, flagged)
  for l in lines do
    if !l.startsWith "r " then continue
    match parseCase (words l) with
    | none => skip := skip + 1
    | some (kind, c) =>
      let M0 := iop (boostOf c) c.op c.A c.B
      -- since /repo 0be5df1 the constructor REPLACES NaN-bounded Boost results by [-inf,+inf] flagged, so
      -- the primitive's own bounds are not observable in such a result: if libfive reports exactly
      -- [-inf,+inf] flagged where the authored flag alone is false, the primitive is taken to have
      -- returned NaN bounds (the only way the constructor produces that result)
      let replaced := c.R.mn && sameV c.R.lo FVal.ninf && sameV c.R.hi FVal.pinf && !M0.mn
      let M := if replaced then iop (boostOf c true) c.op c.A c.B else M0
      -- `Interval::state()` of the real result against the model's classification
      let ws := words l
      let stReal := (ws.dropWhile (· != "st")).getD 1 "?"
      let stModel := match istate c.R with
        | IState.empty => "E" | IState.filled => "F" | IState.ambiguous => "A"
      let good := sameV M.lo c.R.lo && sameV M.hi c.R.hi && M.mn == c.R.mn && stReal == stModel
      let key := s!"{c.op.pname}:{decision c}{if replaced then "+nan-bounds-replaced" else ""}"
      match stats.findIdx? (·.1 == key) with
      | some i =>
        let (k, n, f) := stats[i]!
        stats := stats.set! i (k, n + 1, if c.R.mn then f + 1 else f)
      | none => stats := stats.push (key, 1, if c.R.mn then 1 else 0)
      if good then ok := ok + 1
      else
        mism := mism + 1
        if mism ≤ 200 then
          out := out.push s!"MISMATCH {kind} {c.op.pname} A={showI c.A} B={showI c.B} model={showI M}/{stModel} real={showI c.R}/{stReal} :: {l}"
  for (k, n, f) in stats do
    out := out.push s!"stat {k} {n} {f}"
  out := out.push s!"summary ok {ok} mismatch {mism} skip {skip}"
  return out

end Driver.C02
