/-
  C05 driver: replays what the real evaluators did (harness/tapepush.cpp output) through the
  model: well-formedness of the base tape, `TapeM.push` with the keep function computed from
  the real slot values, keep-soundness on the real values, Float32 evaluation of exact tapes,
  and `getBase`.
  Output: one verdict line per observation: `ok <what>` / `MISMATCH <what> ...` / `skip ...`.
-/
import Driver.Parse
open Libfive

namespace Driver.C05

structure Deck where
  n : Nat := 0
  x : Nat := 0
  y : Nat := 0
  z : Nat := 0
  consts : List (Nat × Float32) := []
  vars : List (Nat × Float32) := []

structure St where
  case : String := ""
  deck : Deck := {}
  stack : List TapeM := []        -- innermost first; real tapes (adopted after each comparison)
  types : List TapeType := []     -- parallel to stack
  boxes : List ((Float32 × Float32 × Float32) × (Float32 × Float32 × Float32)) := []
  pending : Option (String × List String) := none   -- last ipush/ppush line awaiting slots+tape
  slots : List String := []
  step : Nat := 0

def f32! (s : String) : Float32 := (F32.parseF32 s).getD (Float32.ofBits 0x7fc00000)

def parseDeck (ws : List String) : Deck := Id.run do
  -- N X Y Z consts k (id bits)* vars m (id idx bits)*
  match ws with
  | n :: x :: y :: z :: "consts" :: k :: rest =>
    let k := nat! k
    let cs := (List.range k).map fun i => (nat! (rest.getD (2*i) ""), f32! (rest.getD (2*i+1) ""))
    let rest := rest.drop (2*k)
    match rest with
    | "vars" :: m :: rest =>
      let m := nat! m
      let vs := (List.range m).map fun i => (nat! (rest.getD (3*i) ""), f32! (rest.getD (3*i+2) ""))
      return { n := nat! n, x := nat! x, y := nat! y, z := nat! z, consts := cs, vars := vs }
    | _ => return { n := nat! n, x := nat! x, y := nat! y, z := nat! z, consts := cs }
  | _ => return {}

def leafEnv (d : Deck) (p : Float32 × Float32 × Float32) : Nat → Float32 :=
  fun s =>
    if s = d.x then p.1 else if s = d.y then p.2.1 else if s = d.z then p.2.2
    else match d.consts.find? (·.1 = s) with
      | some (_, v) => v
      | none => match d.vars.find? (·.1 = s) with
        | some (_, v) => v
        | none => 0

def tapeExact (T : TapeM) : Bool := T.t.all fun c => F32.exactOp c.op

def evalRoot (d : Deck) (T : TapeM) (p : Float32 × Float32 × Float32) : Float32 :=
  (evalListS F32.ev (fun _ => 0) T.t ⟨leafEnv d p⟩).get T.root

def arrGet (a : Array Float32) (i : Nat) : Float32 := a.getD i 0

def fle (a b : Float32) : Bool := a ≤ b

def handle (st : St) (line : String) : St × List String :=
  let ws := words line
  match ws with
  | "case" :: k :: _ => ({ case := k }, [])
  | "deck" :: rest => ({ st with deck := parseDeck rest }, [])
  | "base" :: "tape" :: rest =>
    match parseTape rest with
    | some T =>
      let v := if wfb T.t then s!"ok wf case {st.case}" else s!"MISMATCH wf case {st.case} {dumpTape T}"
      ({ st with stack := [T], types := [TapeType.base],
                 boxes := [((0,0,0),(0,0,0))] }, [v])
    | none => (st, [s!"MISMATCH parse case {st.case} base"])
  | "ipush" :: rest => ({ st with pending := some ("ipush", rest), step := st.step + 1 }, [])
  | "ppush" :: rest => ({ st with pending := some ("ppush", rest), step := st.step + 1 }, [])
  | "islots" :: _ :: rest => ({ st with slots := rest }, [])
  | "pslots" :: _ :: rest => ({ st with slots := rest }, [])
  | "pushed" :: "tape" :: rest =>
    match parseTape rest, st.stack, st.pending with
    | some real, cur :: _, some (kind, args) =>
      let tag := s!"case {st.case} step {st.step}"
      if kind == "ppush" then
        let vals : Array Float32 := (st.slots.map f32!).toArray
        let v : Nat → Float32 := arrGet vals
        let keep := pointKeep (fun a b => decide (a < b)) v
        let model := cur.push keep
        let okPush := model.t == real.t && model.root == real.root && model.terminal == real.terminal
        -- keep-soundness hypothesis of push_sound on the real values
        let sound := cur.t.all fun c =>
          match keep c with
          | Keep.a => (v c.id).toBits == (v c.a).toBits
          | Keep.b => (v c.id).toBits == (v c.b).toBits
          | _ => true
        let o1 := if okPush then s!"ok push point {tag}" else
          s!"MISMATCH push point {tag} model= {dumpTape model} real= {dumpTape real}"
        let o2 := if sound then s!"ok keepsound {tag}" else s!"MISMATCH keepsound {tag}"
        let o3 := if wfb real.t then s!"ok wf-pushed {tag}" else s!"MISMATCH wf-pushed {tag}"
        ({ st with stack := real :: st.stack, types := TapeType.specialized :: st.types,
                   boxes := ((0,0,0),(0,0,0)) :: st.boxes, pending := none }, [o1, o2, o3])
      else
        let vals : Array Float32 := (st.slots.map f32!).toArray
        let lo : Nat → Float32 := fun s => arrGet vals (3*s)
        let hi : Nat → Float32 := fun s => arrGet vals (3*s+1)
        -- third token per slot: 3f800000 (1.0) iff `i[s].isSafe()`
        let safe : Nat → Bool := fun s => (arrGet vals (3*s+2)).toBits == 0x3f800000
        let keep := intervalKeep (fun a b => decide (a < b)) lo hi safe
        let model := cur.push keep
        let okPush := model.t == real.t && model.root == real.root && model.terminal == real.terminal
        let o1 := if okPush then s!"ok push interval {tag}" else
          s!"MISMATCH push interval {tag} model= {dumpTape model} real= {dumpTape real}"
        let o3 := if wfb real.t then s!"ok wf-pushed {tag}" else s!"MISMATCH wf-pushed {tag}"
        let a := args.toArray.map f32!
        let box := ((arrGet a 0, arrGet a 1, arrGet a 2), (arrGet a 3, arrGet a 4, arrGet a 5))
        -- an unchanged tape is returned as is (same handle): it keeps its own type/region
        let same := okPush && model.t == cur.t && args.getD 12 "" == "1"
        if same then
          ({ st with stack := real :: st.stack, types := (st.types.headD TapeType.base) :: st.types,
                     boxes := (st.boxes.headD box) :: st.boxes, pending := none }, [o1, o3])
        else
          ({ st with stack := real :: st.stack, types := TapeType.interval :: st.types,
                     boxes := box :: st.boxes, pending := none }, [o1, o3])
    | _, _, _ => (st, [s!"MISMATCH parse case {st.case} pushed"])
  | "pop" :: _ =>
    if st.stack.length > 1 then
      ({ st with stack := st.stack.drop 1, types := st.types.drop 1, boxes := st.boxes.drop 1 }, [])
    else (st, [])
  | "val" :: x :: y :: z :: cur :: base :: _ =>
    let tag := s!"case {st.case} val {x} {y} {z}"
    let p := (f32! x, f32! y, f32! z)
    match st.stack, st.stack.getLast? with
    | T :: _, some B =>
      if tapeExact B then
        let mb := evalRoot st.deck B p
        let mc := evalRoot st.deck T p
        if mb.isNaN then (st, [s!"skip nan {tag}"]) else
        let o1 := if F32.toHex mb == base then s!"ok evalbase {tag}" else
          s!"MISMATCH evalbase {tag} model {F32.toHex mb} real {base}"
        let o2 := if F32.toHex mc == cur then s!"ok evalcur {tag}" else
          s!"MISMATCH evalcur {tag} model {F32.toHex mc} real {cur}"
        (st, [o1, o2])
      else (st, [s!"skip inexact {tag}"])
    | _, _ => (st, [])
  | "base-at" :: x :: y :: z :: "depth" :: d :: "of" :: n :: _ =>
    let tag := s!"case {st.case} getBase {x} {y} {z}"
    let p := (f32! x, f32! y, f32! z)
    -- build the model stack (innermost first) and run the model's getBase
    let entries : List (StackEntry Float32) :=
      (st.stack.zip (st.types.zip st.boxes)).map fun (T, ty, bx) =>
        { type := ty, lo := bx.1, hi := bx.2, tape := T }
    let res := getBase fle entries p p
    -- depth is counted from the base (0) in the harness; identical handles collapse to the
    -- lowest index, so compare tapes rather than indices
    let n := nat! n
    let d := nat! d
    let realTape := (st.stack.reverse).getD d default
    match res with
    | e :: _ =>
      if e.tape.t == realTape.t && e.tape.root == realTape.root then (st, [s!"ok {tag}"])
      else (st, [s!"MISMATCH {tag} model-depth {res.length - 1} real-depth {d} of {n}"])
    | [] => (st, [s!"MISMATCH {tag} empty"])
  | "base-region" :: x0 :: y0 :: z0 :: x1 :: y1 :: z1 :: "depth" :: d :: "of" :: n :: _ =>
    let tag := s!"case {st.case} getBaseRegion {x0} {y0} {z0} {x1} {y1} {z1}"
    let lo := (f32! x0, f32! y0, f32! z0)
    let hi := (f32! x1, f32! y1, f32! z1)
    let entries : List (StackEntry Float32) :=
      (st.stack.zip (st.types.zip st.boxes)).map fun (T, ty, bx) =>
        { type := ty, lo := bx.1, hi := bx.2, tape := T }
    let res := getBase fle entries lo hi
    let n := nat! n
    let d := nat! d
    let realTape := (st.stack.reverse).getD d default
    match res with
    | e :: _ =>
      if e.tape.t == realTape.t && e.tape.root == realTape.root then (st, [s!"ok {tag}"])
      else (st, [s!"MISMATCH {tag} model-depth {res.length - 1} real-depth {d} of {n}"])
    | [] => (st, [s!"MISMATCH {tag} empty"])
  | _ => (st, [])

def run (_args : List String) (lines : Array String) : Array String := Id.run do
  let mut st : St := {}
  let mut out : Array String := #[]
  for l in lines do
    let (st', o) := handle st l
    st := st'
    for x in o do out := out.push x
  return out

end Driver.C05
