/-
  C03 driver.  Input: what the real meshers did (harness/mesh.cpp via tools/checks/c03.py):
    render <id> <alg>
    t v0 v1 v2 v3 mask level          every tet marched (hook in simplex/hybrid_mesher.cpp)
    r a0 b0 s0 a1 b1 s1 a2 b2 s2      every triangle pushed: per corner the tet edge and the surface vertex
    q v0 v1 v2 v3 axisD choice        every DC quad (hook in dc_mesher.cpp)
    c e c1 c2 (level type)x4          `load` calls with a coarser cell among the four (for the finding classification)
    b i j k                           the real triangles (Mesh::branes)
    endrender
  Output per render: `ok <id> ...` or `MISMATCH <id> ...`, plus `H <id> ok|FAIL ...`, `V <id> ok|FAIL n`
  (TetSetsDistinct, the extra hypothesis of the edge-manifold clause) and
  `unmatched <id> a b c plus minus maxlevel touches-collapsed-cell` lines for faces violating hypothesis (H).
-/
import Std.Data.HashMap
import Driver.Parse
import LibfiveModel.Marching
open Libfive.Marching

namespace Driver.C03

abbrev T3 := Nat × Nat × Nat

def t3lt (a b : T3) : Bool :=
  a.1 < b.1 || (a.1 == b.1 && (a.2.1 < b.2.1 || (a.2.1 == b.2.1 && a.2.2 < b.2.2)))

/-- rotate a triangle so that its smallest index comes first (orientation preserved) -/
def rot3 (t : T3) : T3 :=
  let (a, b, c) := t
  if a ≤ b && a ≤ c then (a, b, c) else if b ≤ a && b ≤ c then (b, c, a) else (c, a, b)

def sortTris (a : Array T3) : Array T3 := (a.map rot3).qsort t3lt

structure Render where
  id : String := ""
  alg : String := ""
  tets : Array (Tet × Nat × Nat) := #[]        -- tet, mask, level
  tris : Array (Array Nat) := #[]               -- 9 numbers
  quads : Array (Array Nat) := #[]              -- 6 numbers
  coarse : Array (Array Nat) := #[]             -- 11 numbers: `load` calls with a cell of leaf level > 0
  branes : Array T3 := #[]

structure FaceInfo where
  plus : Nat := 0
  minus : Nat := 0
  level : Nat := 0

def checkSimplex (r : Render) : Array String := Id.run do
  let mut out : Array String := #[]
  let id := r.id
  -- 1. sign function on vertex ids, consistent over all tets
  let mut sign : Std.HashMap Nat Bool := {}
  let mut bad : Option String := none
  for (t, mask, _) in r.tets do
    let vs := [t.v0, t.v1, t.v2, t.v3]
    if t.v0 == t.v1 || t.v0 == t.v2 || t.v0 == t.v3 || t.v1 == t.v2 || t.v1 == t.v3 || t.v2 == t.v3 then
      bad := some s!"tet-repeats-vertex {t.v0} {t.v1} {t.v2} {t.v3}"
    let mut j := 0
    for v in vs do
      if v == 0 then bad := some s!"tet-uses-dummy-vertex {t.v0} {t.v1} {t.v2} {t.v3}"
      let b := (mask >>> j) % 2 == 1
      match sign.get? v with
      | some b' => if b != b' then bad := some s!"sign-inconsistent vertex {v}"
      | none => sign := sign.insert v b
      j := j + 1
    if mask ≥ 16 then bad := some s!"mask-out-of-range {mask}"
  if let some b := bad then
    return #[s!"MISMATCH {id} {b}"]
  let s : Nat → Bool := fun v => (sign.get? v).getD false
  -- 2. masks agree with the sign function (by construction) and the model's mask
  for (t, mask, _) in r.tets do
    if t.mask s != mask then return #[s!"MISMATCH {id} mask {mask} model {t.mask s}"]
  -- 3. edge -> surface vertex map from the triangle records: functional and injective
  let mut e2s : Std.HashMap (Nat × Nat) Nat := {}
  let mut s2e : Std.HashMap Nat (Nat × Nat) := {}
  let mut recTris : Array T3 := #[]
  for rec in r.tris do
    if rec.size != 9 then return #[s!"MISMATCH {id} tri-record-size"]
    for k in [0, 1, 2] do
      let a := rec[3 * k]!
      let b := rec[3 * k + 1]!
      let sv := rec[3 * k + 2]!
      if !(s a) || s b then return #[s!"MISMATCH {id} edge-first-not-inside {a} {b}"]
      match e2s.get? (a, b) with
      | some sv' => if sv != sv' then return #[s!"MISMATCH {id} edge-two-surface-vertices {a} {b} {sv} {sv'}"]
      | none => e2s := e2s.insert (a, b) sv
      match s2e.get? sv with
      | some e => if e != (a, b) then return #[s!"MISMATCH {id} surface-vertex-two-edges {sv}"]
      | none => s2e := s2e.insert sv (a, b)
    recTris := recTris.push (rec[2]!, rec[5]!, rec[8]!)
  -- 4. the model's triangles, mapped through the edge map, against the real branes
  let mut model : Array T3 := #[]
  let mut missing := 0
  for (t, mask, _) in r.tets do
    for tri in marchTetM mask t do
      match e2s.get? tri.1, e2s.get? tri.2.1, e2s.get? tri.2.2 with
      | some a, some b, some c => model := model.push (a, b, c)
      | _, _, _ => missing := missing + 1
  if missing != 0 then return #[s!"MISMATCH {id} model-triangle-uses-unsearched-edge {missing}"]
  let ms := sortTris model
  let bs := sortTris r.branes
  let rs := sortTris recTris
  if ms != bs then
    -- first difference
    let mut k := 0
    while k < ms.size && k < bs.size && ms[k]! == bs[k]! do k := k + 1
    return #[s!"MISMATCH {id} triangles model {ms.size} real {bs.size} first-diff {k} model {ms[k]?} real {bs[k]?}"]
  if rs != bs then return #[s!"MISMATCH {id} triangle-records-vs-branes {rs.size} {bs.size}"]
  -- 5. hypothesis (H) on the dumped complex
  let mut faces : Std.HashMap T3 FaceInfo := {}
  let mut nfaces := 0
  -- vertices of tets that lie in a coarser cell (leaf level > 0), and the edge / corner vertices
  -- of every `load` call one of whose four cells is coarser (whether it was marched or not)
  let mut collapsed : Std.HashMap Nat Unit := {}
  for c in r.coarse do
    for v in [c[0]!, c[1]!, c[2]!] do collapsed := collapsed.insert v ()
  for (t, _, level) in r.tets do
    if level > 0 then
      for v in [t.v0, t.v1, t.v2, t.v3] do collapsed := collapsed.insert v ()
  for (t, _, level) in r.tets do
    for f in t.faces do
      nfaces := nfaces + 1
      let (k, p) := canon f
      let fi := (faces.get? k).getD {}
      let fi := if p then { fi with plus := fi.plus + 1 } else { fi with minus := fi.minus + 1 }
      faces := faces.insert k { fi with level := max fi.level level }
  let mut unmatched : Array String := #[]
  let mut nun := 0
  let mut nuniform := 0
  for (k, fi) in faces do
    if faceUniform s k then nuniform := nuniform + 1
    else if fi.plus != 1 || fi.minus != 1 then
      nun := nun + 1
      if unmatched.size < 200 then
        let touch := if collapsed.contains k.1 || collapsed.contains k.2.1 || collapsed.contains k.2.2 then 1 else 0
        unmatched := unmatched.push s!"unmatched {id} {k.1} {k.2.1} {k.2.2} {fi.plus} {fi.minus} {fi.level} {touch}"
  -- cross-check the hash-map implementation against the quadratic reference on small complexes
  if nfaces ≤ 1500 then
    let F := allFaces (r.tets.toList.map (·.1))
    if hypHRef s F != (nun == 0) then return #[s!"MISMATCH {id} hypH-implementations-disagree"]
  -- extra hypothesis of the edge-manifold clause: no two tets with the same vertex set
  let mut tsets : Std.HashMap (Nat × Nat × Nat × Nat) Unit := {}
  let mut dupSets := 0
  for (t, _, _) in r.tets do
    let a := #[t.v0, t.v1, t.v2, t.v3].qsort (· < ·)
    let k := (a[0]!, a[1]!, a[2]!, a[3]!)
    if tsets.contains k then dupSets := dupSets + 1 else tsets := tsets.insert k ()
  out := out.push s!"ok {id} tets {r.tets.size} tris {bs.size} faces {faces.size} uniform {nuniform} edges {e2s.size}"
  out := out.push (if dupSets == 0 then s!"V {id} ok" else s!"V {id} FAIL {dupSets}")
  if nun == 0 then out := out.push s!"H {id} ok"
  else
    out := out.push s!"H {id} FAIL {nun}"
    out := out ++ unmatched
  return out

def checkDC (r : Render) : Array String := Id.run do
  let id := r.id
  let mut model : Array T3 := #[]
  for q in r.quads do
    if q.size != 6 then return #[s!"MISMATCH {id} quad-record-size"]
    let d := q[4]! % 2 == 1
    let alt := q[5]! == 1
    for tri in dcQuad q[0]! q[1]! q[2]! q[3]! d alt do
      model := model.push tri
  let ms := sortTris model
  let bs := sortTris r.branes
  if ms != bs then
    let mut k := 0
    while k < ms.size && k < bs.size && ms[k]! == bs[k]! do k := k + 1
    return #[s!"MISMATCH {id} dc-triangles model {ms.size} real {bs.size} first-diff {k} model {ms[k]?} real {bs[k]?}"]
  return #[s!"ok {id} quads {r.quads.size} tris {bs.size}"]

def finish (r : Render) : Array String :=
  if r.alg == "dc" then checkDC r else checkSimplex r

def run (_args : List String) (lines : Array String) : Array String := Id.run do
  let mut out : Array String := #[]
  let mut cur : Render := {}
  for line in lines do
    match words line with
    | ["render", id, alg] => cur := { id := id, alg := alg }
    | ["t", a, b, c, d, m, l] =>
      cur := { cur with tets := cur.tets.push (⟨nat! a, nat! b, nat! c, nat! d⟩, nat! m, nat! l) }
    | "r" :: rest => cur := { cur with tris := cur.tris.push (rest.map nat!).toArray }
    | "q" :: rest => cur := { cur with quads := cur.quads.push (rest.map nat!).toArray }
    | "c" :: rest =>
      let a := (rest.map nat!).toArray
      if a.size == 11 then cur := { cur with coarse := cur.coarse.push a }
    | ["b", i, j, k] => cur := { cur with branes := cur.branes.push (nat! i, nat! j, nat! k) }
    | ["endrender"] =>
      out := out ++ finish cur
      cur := {}
    | _ => pure ()
  return out

end Driver.C03
