/-
  C20 driver: replays what the real library did (harness/progress.cpp, digested by
  tools/checks/c20.py) through the model of LibfiveModel/Progress.lean.

  input (one token list per line):
    case <id> N <N> L <L> workers <w>
    shape <prefix tokens>        L | T | B <k> <children…>      build-time shape from the pool events
    ticks <n> {<count> <level> <kind>}*   kind: 0 collected branch, 1 terminal, 2 leaf
    build <total> <counter>
    final <prefix tokens>        c | s | b <k> <children…>      tree seen by the dual walk (may be empty)
    walk <nticks> <total> <counter>
    pools <n> {<clamped workers> <allocated> <fresh>}*
    reset <announced> <nticks> <total> <counter>
    snap <cur> {<weight> <total> <counter>}*     state samples in time order
    life <id> <ops…> | <observed finish flags…>
    pooltrace <tokens…>          controlled-mode build-phase trace (cooperative scheduler: the real total order),
                                 tokens as in Driver/C11.lean (l p u e c x) plus  t<w>:<payload>  = the real
                                 `progress_handler->tick(payload)` of worker w (hook SITE_POOL_TICK); replayed through
                                 `Pool.step` with `Pool.tickOf` (LibfiveModel/PoolTicks.lean) computed at every event
    end
-/
import Driver.Parse
import Driver.C11
import LibfiveModel.Progress
import LibfiveModel.PoolTicks
open Libfive.Progress

namespace Driver.C20

partial def parseShape : List String → Option (Shape × List String)
  | "L" :: r => some (.leaf, r)
  | "T" :: r => some (.terminal, r)
  | "B" :: k :: r =>
    let rec go (n : Nat) (r : List String) (acc : List Shape) : Option (List Shape × List String) :=
      match n with
      | 0 => some (acc.reverse, r)
      | n + 1 => match parseShape r with
        | some (s, r') => go n r' (s :: acc)
        | none => none
    match go (nat! k) r [] with
    | some (cs, r') => some (.branch cs, r')
    | none => none
  | _ => none

partial def parseFinal : List String → Option (Final × List String)
  | "c" :: r => some (.cell, r)
  | "s" :: r => some (.singleton, r)
  | "b" :: k :: r =>
    let rec go (n : Nat) (r : List String) (acc : List Final) : Option (List Final × List String) :=
      match n with
      | 0 => some (acc.reverse, r)
      | n + 1 => match parseFinal r with
        | some (s, r') => go n r' (s :: acc)
        | none => none
    match go (nat! k) r [] with
    | some (cs, r') => some (.branch cs, r')
    | none => none
  | _ => none

mutual
/-- strict twin of `tickEvents` of LibfiveProofs (kept here so that the driver stays Mathlib-free):
    multiset of tick counts the model expects, as (count, level, kind) -/
partial def expectTicks (N : Nat) (l : Nat) : Shape → List (Nat × Nat × Nat)
  | .leaf => [(1, l, 2)]
  | .terminal => [(announced N l, l, 1)]
  | .branch cs => (1, l, 0) :: expectTicksList N (l - 1) cs
partial def expectTicksList (N : Nat) (l : Nat) : List Shape → List (Nat × Nat × Nat)
  | [] => []
  | c :: cs => expectTicks N l c ++ expectTicksList N l cs
end

def tripleLt (a b : Nat × Nat × Nat) : Bool :=
  a.1 < b.1 || (a.1 == b.1 && (a.2.1 < b.2.1 || (a.2.1 == b.2.1 && a.2.2 < b.2.2)))

def sortTriples (l : List (Nat × Nat × Nat)) : Array (Nat × Nat × Nat) :=
  l.toArray.qsort tripleLt

def triples : List String → List (Nat × Nat × Nat)
  | a :: b :: c :: r => (nat! a, nat! b, nat! c) :: triples r
  | _ => []

instance : NatCast Float32 := ⟨Float32.ofNat⟩

structure Snap where
  cur : Nat
  ps : Array Phase

def Snap.fn (s : Snap) : Nat → Phase := fun i => s.ps.getD i ⟨0, 0, 0⟩

def Snap.frac (s : Snap) : Float32 := fraction (K := Float32) s.fn s.ps.size s.cur

structure St where
  id : String := "?"
  N : Nat := 3
  L : Nat := 0
  workers : Nat := 1
  shape : Option Shape := none
  prev : Option Snap := none
  snaps : Nat := 0
  snapBad : Option String := none
  walkModel : Option (Nat × Nat) := none          -- (ticks, announced)
  resetModel : Option (Nat × Nat × Bool) := none  -- (ticks, blocks, resetGood)
  out : Array String := #[]

def St.say (s : St) (ok : Bool) (what : String) (detail : String := "") : St :=
  { s with out := s.out.push (if ok then s!"ok case {s.id} {what}" else s!"MISMATCH case {s.id} {what} {detail}") }

/-- hypotheses of `progress_monotone` between consecutive samples, and its conclusion on Float32 -/
def checkSnap (p q : Snap) : Option String :=
  if q.cur < p.cur then some s!"current phase went back {p.cur}->{q.cur}"
  else
    let bad := (List.range (p.cur + 1)).find? fun i =>
      let a := p.fn i; let b := q.fn i
      !(a.weight == b.weight && (a.total == 0 || (a.total == b.total && a.counter ≤ b.counter)))
    match bad with
    | some i => some s!"phase {i} counter/total not monotone"
    | none =>
      match (List.range (q.cur + 1)).find? fun i => (q.fn i).total < (q.fn i).counter with
      | some i => some s!"phase {i} counter {(q.fn i).counter} exceeds total {(q.fn i).total}"
      | none =>
        let fp := p.frac; let fq := q.frac
        if fq < fp then some s!"model fraction decreased {fp} -> {fq}"
        else if fq < 0 || fq > 1 then some s!"model fraction {fq} outside [0,1]"
        else none

def lifeOp : String → Option Libfive.Progress.Handler → Option Libfive.Progress.Handler
  | _, none => none
  | op, some h =>
    if op.startsWith "next" then some (h.nextPhase.runnerStep false)
    else if op == "finish" then some h.finish
    else if op == "destroy" then some h.finish.finish
    else some h

/-! ### controlled-mode pool traces: the real tick payloads against `Pool.tickOf` / `Pool.tickCalls` -/

structure PoolTickRun where
  fin : Libfive.Pool.S
  evs : Array Libfive.Pool.Ev      -- the model events the tokens stand for
  calls : Array Nat                -- `tickOf` ≠ 0 along the replay, in event order (= `tickCalls`)
  real : Array Nat                 -- the real payloads, in log order
  issued : Nat

def natSort (a : Array Nat) : Array Nat := a.qsort (· < ·)

/-- Replay the tokens through `Pool.step`; every event's `tickOf` is what the model says the worker
    passes to `tick` in the segment that follows that hook point, so it must be the payload of the
    NEXT `t` token of the same worker, which must come before that worker's next pool event
    (other workers' segments may lie in between: the scheduler switches at hook points).
    Also checks `ticks issued ≤ announced` after every event (`pool_ticks_monotone_bounded`). -/
def replayTicks (N L : Nat) (s0 : Libfive.Pool.S) (toks : List String) (maxId maxW : Nat) :
    Except String PoolTickRun := do
  let total := announced N L
  let mut s := s0
  let mut owed : List (Nat × Nat) := []
  let mut evs : Array Libfive.Pool.Ev := #[]
  let mut calls : Array Nat := #[]
  let mut real : Array Nat := #[]
  let mut issued := 0
  let mut i := 0
  for t in toks do
    let f := Driver.C11.splitColon t
    if t.front == 't' then
      match f with
      | [w, k] =>
        let w := nat! w; let k := nat! k
        match owed.lookup w with
        | some k' =>
          if k' == k then
            owed := owed.filter (·.1 != w)
            real := real.push k
          else throw s!"worker {w} token {i}: model={k'} real={k}"
        | none => throw s!"worker {w} token {i}: model=none real={k}"
      | _ => throw s!"unparsable token {t} at {i}"
    else
      match f with
      | w :: _ =>
        if t.front != 'X' then
          match owed.lookup (nat! w) with
          | some k' => throw s!"worker {w} token {i} ({t}): model={k'} real=none"
          | none => pure ()
      | [] => pure ()
      match Driver.C11.expand s t with
      | none => throw s!"unparsable token {t} at {i}"
      | some es =>
        for e in es do
          let tk := Libfive.Pool.tickOf N s e
          match Libfive.Pool.step s e with
          | some s' =>
            s := s'
            evs := evs.push e
            if tk != 0 then
              calls := calls.push tk
              issued := issued + tk
              match e.worker with
              | some w => owed := (w, tk) :: owed
              | none => pure ()
              if issued > total then throw s!"token {i}: ticks issued model={issued} exceed announced {total} real=?"
          | none => throw s!"step rejected token {t} (event {repr e}) at {i} model=reject real=accepted"
    i := i + 1
    if i % 48 == 0 then s := Driver.C11.compact s maxId maxW
  match owed with
  | (w, k) :: _ => throw s!"worker {w} at end of trace: model={k} real=none"
  | [] => return { fin := s, evs := evs, calls := calls, real := real, issued := issued }

def handlePoolTrace (s : St) (toks : List String) : St :=
  let (maxId, maxW) := Driver.C11.maxIds toks
  let s0 := Libfive.Pool.S.init (2 ^ s.N) s.workers s.L
  match replayTicks s.N s.L s0 (Driver.C11.hoistFirstLoops toks) maxId maxW with
  | .error e => s.say false "poolticks" e
  | .ok r =>
    -- event by event (per worker) the payloads agreed
    let s := s.say true s!"poolticks {toks.length} ticks {r.real.size}"
    -- the calls as a multiset, and (short traces) against the definition used by the theorems
    let s := s.say (natSort r.calls == natSort r.real) "poolticks-multiset"
      s!"model={(natSort r.calls).toList.take 8} real={(natSort r.real).toList.take 8}"
    let s :=
      if r.evs.size ≤ 2500 then
        let m := Libfive.Pool.tickCalls s.N s0 r.evs.toList
        let mi := Libfive.Pool.ticksIssued s.N s0 r.evs.toList
        s.say (m == r.calls.toList && mi == r.issued) "poolticks-tickCalls"
          s!"model={m.take 8} (sum {mi}) real={r.calls.toList.take 8} (sum {r.issued})"
      else s
    -- instance of pool_ticks_complete: done, not cancelled ⇒ exactly the announced total
    let realSum := r.real.foldl (· + ·) 0
    if r.fin.done && !r.fin.cancel then
      s.say (r.issued == announced s.N s.L && realSum == announced s.N s.L) "poolticks-complete"
        s!"model={r.issued} real={realSum} announced {announced s.N s.L}"
    else s.say false "poolticks-complete" s!"model=done:{r.fin.done},cancel:{r.fin.cancel} real=returned"

def handle (s : St) (line : String) : St :=
  match words line with
  | "pooltrace" :: toks => handlePoolTrace s toks
  | ["case", id, "N", n, "L", l, "workers", w] =>
    { s with id := id, N := nat! n, L := nat! l, workers := nat! w, shape := none, prev := none,
             snaps := 0, snapBad := none, walkModel := none, resetModel := none }
  | "shape" :: toks =>
    match parseShape toks with
    | some (sh, []) =>
      let s := { s with shape := some sh }
      let s := s.say (wf s.N s.L sh) "shape-wf" s!"level {s.L}"
      s.say (ticks s.N s.L sh == announced s.N s.L) "model-ticks-eq-total"
    | _ => s.say false "shape-parse" (String.intercalate " " (toks.take 20))
  | "ticks" :: _ :: toks =>
    match s.shape with
    | none => s.say false "ticks-without-shape"
    | some sh =>
      let real := sortTriples (triples toks)
      let model := sortTriples (expectTicks s.N s.L sh)
      let s := s.say (real == model) "tick-events"
        s!"real {real.size} model {model.size} first-real {real.toList.take 3} first-model {model.toList.take 3}"
      let sum := (triples toks).foldl (fun a t => a + t.1) 0
      s.say (sum == announced s.N s.L) "tick-sum" s!"sum {sum} announced {announced s.N s.L}"
  | ["build", total, counter] =>
    let s := s.say (nat! total == announced s.N s.L) "build-total" s!"real {total} model {announced s.N s.L}"
    match s.shape with
    | some sh => s.say (nat! counter == ticks s.N s.L sh) "build-counter" s!"real {counter} model {ticks s.N s.L sh}"
    | none => s
  | "final" :: toks =>
    if toks.isEmpty then s else
    match parseFinal toks with
    | some (f, []) =>
      let s := s.say (walkable s.N f && !f.isSingleton) "final-walkable"
      { s with walkModel := some (walkTicks f, walkAnnounced f) }
    | _ => s.say false "final-parse"
  | ["walk", nt, total, counter] =>
    match s.walkModel with
    | none => s.say false "walk-without-final"
    | some (mticks, mann) =>
      let s := s.say (nat! total == mann) "walk-total" s!"real {total} model {mann}"
      let s := s.say (nat! nt == mticks) "walk-tick-events" s!"real {nt} model {mticks}"
      s.say (nat! counter == mticks) "walk-counter" s!"real {counter} model {mticks}"
  | "pools" :: _ :: toks =>
    let ts := triples toks
    let ps : List PoolBlocks := ts.map fun t => ⟨t.2.1, t.2.2⟩
    -- every level clamps the CALLER's worker count (the value is no longer passed down clamped)
    let okClamp := ts.all fun t => clamp s.workers ⟨t.2.1, t.2.2⟩ == t.1
    let s := s.say okClamp "reset-clamp" s!"{ts}"
    { s with resetModel := some (resetTicks s.workers ps, numBlocks ps, resetGood ps) }
  | ["reset", ann, nt, total, counter] =>
    match s.resetModel with
    | none => s.say false "reset-without-pools"
    | some (mticks, mblocks, good) =>
      let s := s.say (nat! ann == mblocks && nat! total == mblocks) "reset-total" s!"real {ann}/{total} model {mblocks}"
      let s := s.say (nat! nt == mticks) "reset-tick-events" s!"real {nt} model {mticks}"
      let s := s.say (nat! counter == mticks) "reset-counter" s!"real {counter} model {mticks}"
      -- instance of reset_ticks: always complete
      let _ := good
      s.say (mticks == mblocks) "reset-theorem-instance"
  | "snap" :: cur :: toks =>
    let q : Snap := ⟨nat! cur, (triples toks).toArray.map fun t => ⟨t.1, t.2.1, t.2.2⟩⟩
    let s := { s with snaps := s.snaps + 1 }
    match s.prev with
    | none => { s with prev := some q }
    | some p =>
      match s.snapBad, checkSnap p q with
      | none, some e => { s with prev := some q, snapBad := some e }
      | _, _ => { s with prev := some q }
  | ["end"] =>
    match s.snapBad with
    | some e => s.say false "snapshots" e
    | none => s.say true s!"snapshots {s.snaps}"
  | "life" :: id :: rest =>
    -- ops … | observed `future.valid()` at each finish, in order
    let ops := rest.takeWhile (· != "|")
    let obs := (rest.dropWhile (· != "|")).drop 1
    let rec go (h : Libfive.Progress.Handler) (ops : List String) (acc : List String) : List String × Libfive.Progress.Handler :=
      match ops with
      | [] => (acc.reverse, h)
      | op :: r =>
        -- `destroy` = the recording subclass's destructor calls finish(), then ~ProgressHandler does
        let fl := if h.futureValid then "1" else "0"
        let acc := if op == "finish" then fl :: acc else if op == "destroy" then fl :: fl :: acc else acc
        match lifeOp op (some h) with
        | some h' => go h' r acc
        | none => go h r acc
    -- a handler that is not destroyed explicitly is destroyed at scope exit
    let ops' := if ops.contains "destroy" then ops.takeWhile (· != "destroy") ++ ["destroy"] else ops ++ ["destroy"]
    let (pred, h) := go {} ops' []
    let s := { s with id := "life-" ++ id }
    let s := s.say (pred == obs) "finish-valid-flags" s!"model {pred} real {obs}"
    s.say (h.canReturn) "finish-can-return"
  | _ => s

def run (_args : List String) (lines : Array String) : Array String :=
  (lines.foldl handle {}).out

end Driver.C20
