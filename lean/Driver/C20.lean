/-
  C20 driver: replays what the real library did (harness/progress.cpp, digested by
  tools/checks/c20.py) through the model of LibfiveModel/Progress.lean.

  input (one token list per line):
    case <id> N <N> L <L> workers <w>
    shape <prefix tokens>        L | T | B <k> <children…>      build-time shape from the pool events
    ticks <n> {<count> <level> <kind>}*   kind: 0 collected branch, 1 terminal, 2 leaf
    build <total> <counter>
    final <prefix tokens>        c | s | b <k> <children…>      tree seen by the dual walk (may be empty)
    walk <nticks> <total> <counter>
    pools <n> {<clamped workers> <allocated> <fresh>}*
    reset <announced> <nticks> <total> <counter>
    snap <cur> {<weight> <total> <counter>}*     state samples in time order
    life <id> <ops…> | <observed finish flags…>
    end
-/
import Driver.Parse
import LibfiveModel.Progress
open Libfive.Progress

namespace Driver.C20

partial def parseShape : List String → Option (Shape × List String)
  | "L" :: r => some (.leaf, r)
  | "T" :: r => some (.terminal, r)
  | "B" :: k :: r =>
    let rec go (n : Nat) (r : List String) (acc : List Shape) : Option (List Shape × List String) :=
      match n with
      | 0 => some (acc.reverse, r)
      | n + 1 => match parseShape r with
        | some (s, r') => go n r' (s :: acc)
        | none => none
    match go (nat! k) r [] with
    | some (cs, r') => some (.branch cs, r')
    | none => none
  | _ => none

partial def parseFinal : List String → Option (Final × List String)
  | "c" :: r => some (.cell, r)
  | "s" :: r => some (.singleton, r)
  | "b" :: k :: r =>
    let rec go (n : Nat) (r : List String) (acc : List Final) : Option (List Final × List String) :=
      match n with
      | 0 => some (acc.reverse, r)
      | n + 1 => match parseFinal r with
        | some (s, r') => go n r' (s :: acc)
        | none => none
    match go (nat! k) r [] with
    | some (cs, r') => some (.branch cs, r')
    | none => none
  | _ => none

mutual
/-- strict twin of `tickEvents` of LibfiveProofs (kept here so that the driver stays Mathlib-free):
    multiset of tick counts the model expects, as (count, level, kind) -/
partial def expectTicks (N : Nat) (l : Nat) : Shape → List (Nat × Nat × Nat)
  | .leaf => [(1, l, 2)]
  | .terminal => [(announced N l, l, 1)]
  | .branch cs => (1, l, 0) :: expectTicksList N (l - 1) cs
partial def expectTicksList (N : Nat) (l : Nat) : List Shape → List (Nat × Nat × Nat)
  | [] => []
  | c :: cs => expectTicks N l c ++ expectTicksList N l cs
end

def tripleLt (a b : Nat × Nat × Nat) : Bool :=
  a.1 < b.1 || (a.1 == b.1 && (a.2.1 < b.2.1 || (a.2.1 == b.2.1 && a.2.2 < b.2.2)))

def sortTriples (l : List (Nat × Nat × Nat)) : Array (Nat × Nat × Nat) :=
  l.toArray.qsort tripleLt

def triples : List String → List (Nat × Nat × Nat)
  | a :: b :: c :: r => (nat! a, nat! b, nat! c) :: triples r
  | _ => []

instance : NatCast Float32 := ⟨Float32.ofNat⟩

structure Snap where
  cur : Nat
  ps : Array Phase

def Snap.fn (s : Snap) : Nat → Phase := fun i => s.ps.getD i ⟨0, 0, 0⟩

def Snap.frac (s : Snap) : Float32 := fraction (K := Float32) s.fn s.ps.size s.cur

structure St where
  id : String := "?"
  N : Nat := 3
  L : Nat := 0
  workers : Nat := 1
  shape : Option Shape := none
  prev : Option Snap := none
  snaps : Nat := 0
  snapBad : Option String := none
  walkModel : Option (Nat × Nat) := none          -- (ticks, announced)
  resetModel : Option (Nat × Nat × Bool) := none  -- (ticks, blocks, resetGood)
  out : Array String := #[]

def St.say (s : St) (ok : Bool) (what : String) (detail : String := "") : St :=
  { s with out := s.out.push (if ok then s!"ok case {s.id} {what}" else s!"MISMATCH case {s.id} {what} {detail}") }

/-- hypotheses of `progress_monotone` between consecutive samples, and its conclusion on Float32 -/
def checkSnap (p q : Snap) : Option String :=
  if q.cur < p.cur then some s!"current phase went back {p.cur}->{q.cur}"
  else
    let bad := (List.range (p.cur + 1)).find? fun i =>
      let a := p.fn i; let b := q.fn i
      !(a.weight == b.weight && (a.total == 0 || (a.total == b.total && a.counter ≤ b.counter)))
    match bad with
    | some i => some s!"phase {i} counter/total not monotone"
    | none =>
      match (List.range (q.cur + 1)).find? fun i => (q.fn i).total < (q.fn i).counter with
      | some i => some s!"phase {i} counter {(q.fn i).counter} exceeds total {(q.fn i).total}"
      | none =>
        let fp := p.frac; let fq := q.frac
        if fq < fp then some s!"model fraction decreased {fp} -> {fq}"
        else if fq < 0 || fq > 1 then some s!"model fraction {fq} outside [0,1]"
        else none

def lifeOp : String → Option Libfive.Progress.Handler → Option Libfive.Progress.Handler
  | _, none => none
  | op, some h =>
    if op.startsWith "next" then some (h.nextPhase.runnerStep false)
    else if op == "finish" then some h.finish
    else if op == "destroy" then some h.finish.finish
    else some h

def handle (s : St) (line : String) : St :=
  match words line with
  | ["case", id, "N", n, "L", l, "workers", w] =>
    { s with id := id, N := nat! n, L := nat! l, workers := nat! w, shape := none, prev := none,
             snaps := 0, snapBad := none, walkModel := none, resetModel := none }
  | "shape" :: toks =>
    match parseShape toks with
    | some (sh, []) =>
      let s := { s with shape := some sh }
      let s := s.say (wf s.N s.L sh) "shape-wf" s!"level {s.L}"
      s.say (ticks s.N s.L sh == announced s.N s.L) "model-ticks-eq-total"
    | _ => s.say false "shape-parse" (String.intercalate " " (toks.take 20))
  | "ticks" :: _ :: toks =>
    match s.shape with
    | none => s.say false "ticks-without-shape"
    | some sh =>
      let real := sortTriples (triples toks)
      let model := sortTriples (expectTicks s.N s.L sh)
      let s := s.say (real == model) "tick-events"
        s!"real {real.size} model {model.size} first-real {real.toList.take 3} first-model {model.toList.take 3}"
      let sum := (triples toks).foldl (fun a t => a + t.1) 0
      s.say (sum == announced s.N s.L) "tick-sum" s!"sum {sum} announced {announced s.N s.L}"
  | ["build", total, counter] =>
    let s := s.say (nat! total == announced s.N s.L) "build-total" s!"real {total} model {announced s.N s.L}"
    match s.shape with
    | some sh => s.say (nat! counter == ticks s.N s.L sh) "build-counter" s!"real {counter} model {ticks s.N s.L sh}"
    | none => s
  | "final" :: toks =>
    if toks.isEmpty then s else
    match parseFinal toks with
    | some (f, []) =>
      let s := s.say (walkable s.N f && !f.isSingleton) "final-walkable"
      { s with walkModel := some (walkTicks f, walkAnnounced f) }
    | _ => s.say false "final-parse"
  | ["walk", nt, total, counter] =>
    match s.walkModel with
    | none => s.say false "walk-without-final"
    | some (mticks, mann) =>
      let s := s.say (nat! total == mann) "walk-total" s!"real {total} model {mann}"
      let s := s.say (nat! nt == mticks) "walk-tick-events" s!"real {nt} model {mticks}"
      s.say (nat! counter == mticks) "walk-counter" s!"real {counter} model {mticks}"
  | "pools" :: _ :: toks =>
    let ts := triples toks
    let ps : List PoolBlocks := ts.map fun t => ⟨t.2.1, t.2.2⟩
    -- every level clamps the CALLER's worker count (the value is no longer passed down clamped)
    let okClamp := ts.all fun t => clamp s.workers ⟨t.2.1, t.2.2⟩ == t.1
    let s := s.say okClamp "reset-clamp" s!"{ts}"
    { s with resetModel := some (resetTicks s.workers ps, numBlocks ps, resetGood ps) }
  | ["reset", ann, nt, total, counter] =>
    match s.resetModel with
    | none => s.say false "reset-without-pools"
    | some (mticks, mblocks, good) =>
      let s := s.say (nat! ann == mblocks && nat! total == mblocks) "reset-total" s!"real {ann}/{total} model {mblocks}"
      let s := s.say (nat! nt == mticks) "reset-tick-events" s!"real {nt} model {mticks}"
      let s := s.say (nat! counter == mticks) "reset-counter" s!"real {counter} model {mticks}"
      -- instance of reset_ticks: always complete
      let _ := good
      s.say (mticks == mblocks) "reset-theorem-instance"
  | "snap" :: cur :: toks =>
    let q : Snap := ⟨nat! cur, (triples toks).toArray.map fun t => ⟨t.1, t.2.1, t.2.2⟩⟩
    let s := { s with snaps := s.snaps + 1 }
    match s.prev with
    | none => { s with prev := some q }
    | some p =>
      match s.snapBad, checkSnap p q with
      | none, some e => { s with prev := some q, snapBad := some e }
      | _, _ => { s with prev := some q }
  | ["end"] =>
    match s.snapBad with
    | some e => s.say false "snapshots" e
    | none => s.say true s!"snapshots {s.snaps}"
  | "life" :: id :: rest =>
    -- ops … | observed `future.valid()` at each finish, in order
    let ops := rest.takeWhile (· != "|")
    let obs := (rest.dropWhile (· != "|")).drop 1
    let rec go (h : Libfive.Progress.Handler) (ops : List String) (acc : List String) : List String × Libfive.Progress.Handler :=
      match ops with
      | [] => (acc.reverse, h)
      | op :: r =>
        -- `destroy` = the recording subclass's destructor calls finish(), then ~ProgressHandler does
        let fl := if h.futureValid then "1" else "0"
        let acc := if op == "finish" then fl :: acc else if op == "destroy" then fl :: fl :: acc else acc
        match lifeOp op (some h) with
        | some h' => go h' r acc
        | none => go h r acc
    -- a handler that is not destroyed explicitly is destroyed at scope exit
    let ops' := if ops.contains "destroy" then ops.takeWhile (· != "destroy") ++ ["destroy"] else ops ++ ["destroy"]
    let (pred, h) := go {} ops' []
    let s := { s with id := "life-" ++ id }
    let s := s.say (pred == obs) "finish-valid-flags" s!"model {pred} real {obs}"
    s.say (h.canReturn) "finish-can-return"
  | _ => s

def run (_args : List String) (lines : Array String) : Array String :=
  (lines.foldl handle {}).out

end Driver.C20
