/- C01 driver: the C07 engine (tree programs, tape decompilation, reference evaluation). -/
import Driver.C07

namespace Driver.C01
def run (args : List String) (lines : Array String) : Array String := Driver.C07.run args lines
end Driver.C01
