/-
  C10 driver: replays the segment lists the real `Contours::collect` was given
  (harness/contours.cpp, lines `collect <id> in <n> a b ... out <k> {<len> v ...}`) through the
  model `Libfive.Contours.collect` and compares the polylines:
    ok exact   — identical lists of polylines (same order, same starting points)
    ok cyclic  — equal as multisets of cyclic sequences (closed polylines up to rotation)
    MISMATCH   — anything else
  Lines `load <A> <m0> <m1> ...` (harness --loads) are compared with `Libfive.Marching2.load`.
  It also evaluates the hypotheses and the conclusion of `collect_closed` on the real data
  (`pre=` degree precondition, `closed=` all real polylines closed, `part=` real polylines use
  every input segment exactly once).
-/
import LibfiveModel.Contours
import Generated.Marching2
import Driver.Parse
open Libfive.Contours

namespace Driver.C10

def parsePairs : List Nat → List (Nat × Nat)
  | a :: b :: rest => (a, b) :: parsePairs rest
  | _ => []

def parsePolys : Nat → List Nat → List (List Nat)
  | 0, _ => []
  | _, [] => []
  | k + 1, len :: rest => rest.take len :: parsePolys k (rest.drop len)

def lexLe (a b : List Nat) : Bool := !lexLt b a

def segLe (a b : Nat × Nat) : Bool := a.1 < b.1 || (a.1 == b.1 && a.2 ≤ b.2)

def canonSet (ps : List (List Nat)) : List (List Nat) :=
  (ps.map canonCycle).mergeSort lexLe

def showPolys (ps : List (List Nat)) : String :=
  String.intercalate " | " (ps.map fun p => String.intercalate " " (p.map toString))

/-- the tables of the running library, as regenerated for this run -/
def T : Libfive.Marching2.Tables :=
  { v := Generated.Marching2.v, e := Generated.Marching2.e, p := Generated.Marching2.p,
    axisX := Generated.Marching2.axisX, axisY := Generated.Marching2.axisY }

def showLoad : Option ((Nat × Int) × (Nat × Int)) → String
  | none => "none"
  | some (s, d) => s!"{s.1} {s.2} {d.1} {d.2}"

/-- `degreeOK` by sorting (same predicate: sources distinct, targets distinct, same vertex set), for inputs on
    which the quadratic definition is too slow -/
def degreeOKSorted (segs : List (Nat × Nat)) : Bool :=
  let a := (segs.map (·.1)).mergeSort (· ≤ ·)
  let b := (segs.map (·.2)).mergeSort (· ≤ ·)
  let rec strict : List Nat → Bool
    | x :: y :: r => x < y && strict (y :: r)
    | _ => true
  strict a && strict b && a == b

def handle (line : String) : Option String :=
  match words line with
  | "load" :: a :: m0 :: m1 :: rest =>
    -- real DCContourer::load<A> on two level-0 leaves vs the model (index 0: equal levels)
    let model := Libfive.Marching2.load T (nat! a) 0 (nat! m0) (nat! m1)
    let cons := Libfive.Marching2.consistent T (nat! a) (nat! m0) (nat! m1)
    let real := String.intercalate " " (rest.take (if rest.head? == some "none" then 1 else 4))
    if !cons then some s!"MISMATCH load case {a}-{m0}-{m1} harness fed an inconsistent pair"
    else if showLoad model == real then some s!"ok load case {a}-{m0}-{m1} {real}"
    else some s!"MISMATCH load case {a}-{m0}-{m1} model= {showLoad model} real= {real}"
  | "collect" :: id :: "in" :: n :: rest =>
    let n := nat! n
    let nums := rest.map nat!
    let segs := parsePairs (nums.take (2 * n))
    match rest.drop (2 * n) with
    | "out" :: k :: orest =>
      let real := parsePolys (nat! k) (orest.map nat!)
      let pre := if n > 20000 then degreeOKSorted segs else degreeOK segs
      let cl := real.all closed
      let part := ((real.flatMap pairs).mergeSort segLe) == (segs.mergeSort segLe)
      let info := s!"case {id} n={n} k={real.length} pre={if pre then 1 else 0} closed={if cl then 1 else 0} part={if part then 1 else 0}"
      -- inputs beyond 2^16 segments (index-width cases): the list-based model is quadratic; only the hypotheses
      -- and the conclusion of `collect_closed` are evaluated on the real output there
      if n > 20000 then some s!"ok judged-only {info}" else
      let model := collect segs
      if model == real then some s!"ok exact {info}"
      else if canonSet model == canonSet real then some s!"ok cyclic {info}"
      else some s!"MISMATCH collect {info} model= {showPolys model} real= {showPolys real}"
    | _ => some s!"MISMATCH parse case {id}"
  | "collect" :: id :: _ => some s!"skip case {id} malformed"
  | _ => none

def run (_args : List String) (lines : Array String) : Array String :=
  lines.filterMap handle

end Driver.C10
