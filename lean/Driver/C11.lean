/-
  C11 driver: replays what the real library did under "raise cancel at the k-th visit of site s"
  (harness/cancel.cpp, digested by tools/checks/c11.py) through the models
  LibfiveModel/Pool.lean (worker-pool transition system, branch counter protocol) and
  LibfiveModel/Render.lean (control flow of Mesh::render).

  input:
    case <id> alg <dc|simplex|hybrid> n <children> workers <w> L <root level> mode <controlled|free>
    pool <tokens…>      build-phase trace, controlled mode only; tokens (space separated):
                          l<w>  loop      p<w>:<c>  pop     u<w>:<child>:<0|1>  push (1 = local)
                          e<w>:<a|t|f> eval (amb/term/leaf)   c<w>:<0|1> collect   x<w> exit   X cancel
    branch <phase> <controlled 0|1> <arrivals expected> <flags…>    pending protocol of one branch
    counts <amb cells> <collect events> <collect last=1> <pushed> <popped>   (build phase, any mode, uncancelled)
    render <bn> <in> <wn> <raise clock | none> <null|complete|partial>
    end
-/
import Driver.Parse
import LibfiveModel.Pool
import LibfiveModel.Render
open Libfive

namespace Driver.C11

structure St where
  id : String := "?"
  alg : Render.Alg := .dc
  n : Nat := 8
  workers : Nat := 1
  L : Nat := 0
  controlled : Bool := false
  out : Array String := #[]

def St.say (s : St) (ok : Bool) (what : String) (detail : String := "") : St :=
  { s with out := s.out.push (if ok then s!"ok case {s.id} {what}" else s!"MISMATCH case {s.id} {what} {detail}") }

def algOf : String → Render.Alg
  | "simplex" => .simplex
  | "hybrid" => .hybrid
  | _ => .dc

/-- rebuild the function fields from tables every so often: closures chained by `upd` would make
    every lookup linear in the number of steps (identity on the ids in use) -/
def compact (s : Pool.S) (maxId maxW : Nat) : Pool.S :=
  let lv := Array.ofFn (n := maxId + 1) fun i => s.level i.1
  let pa := Array.ofFn (n := maxId + 1) fun i => s.parent i.1
  let ki := Array.ofFn (n := maxId + 1) fun i => s.kids i.1
  let pe := Array.ofFn (n := maxId + 1) fun i => s.pending i.1
  let ac := Array.ofFn (n := maxW + 1) fun i => s.act i.1
  let lvd := s.level (maxId + 1); let pad := s.parent (maxId + 1); let kid := s.kids (maxId + 1)
  let ped := s.pending (maxId + 1); let acd := s.act (maxW + 1)
  { s with level := fun i => lv.getD i lvd, parent := fun i => pa.getD i pad, kids := fun i => ki.getD i kid,
           pending := fun i => pe.getD i ped, act := fun i => ac.getD i acd }

def splitColon (t : String) : List String := ((t.drop 1).toString.splitOn ":")

/-- one trace token → the model events it stands for, given the current state (the hooks do not
    report failed pops / which exit path was taken; both are determined by the worker's state) -/
def expand (s : Pool.S) (t : String) : Option (List Pool.Ev) :=
  let f := splitColon t
  match t.front, f with
  | 'X', _ => some [.cancel]
  | 'l', [w] =>
    let w := nat! w
    if s.act w = .inLoop then some [.noTask w, .loop w] else some [.loop w]
  | 'p', [w, c] => some [.pop (nat! w) (nat! c)]
  | 'u', [w, c, loc] => some [.push (nat! w) (nat! c) (loc == "1")]
  | 'e', [w, k] => some [.evalDone (nat! w) (if k == "a" then .amb else if k == "t" then .term else .leaf)]
  | 'c', [w, l] => some [.collect (nat! w) (l == "1")]
  | 'x', [w] =>
    let w := nat! w
    match s.act w with
    | .ascend _ => some [.exitRoot w]
    | .inLoop => some [.noTask w, .exitLoop w]
    | _ => some [.exitLoop w]
  | _, _ => none

def replay (s0 : Pool.S) (toks : List String) (maxId maxW : Nat) : Except String Pool.S := do
  let mut s := s0
  let mut i := 0
  for t in toks do
    match expand s t with
    | none => throw s!"unparsable token {t} at {i}"
    | some evs =>
      for e in evs do
        match Pool.step s e with
        | some s' => s := s'
        | none => throw s!"step rejected token {t} (event {repr e}) at {i}"
    i := i + 1
    if i % 48 == 0 then s := compact s maxId maxW
  return s

/-- A worker evaluates its first `while (!done && !cancel)` before it reaches its first hook point,
    i.e. at an unknown moment between thread creation and that point.  The flags only go from false
    to true, so a first check that passed would also have passed at the start of the phase: the
    first `loop` token of every worker is replayed at the front. -/
def hoistFirstLoops (toks : List String) : List String :=
  let (seen, firsts, rest) := toks.foldl (fun (acc : List String × List String × List String) t =>
    let (seen, firsts, rest) := acc
    match t.front, splitColon t with
    | 'l', [w] => if seen.contains w then (seen, firsts, t :: rest) else (w :: seen, t :: firsts, rest)
    | 'X', _ => (seen, firsts, t :: rest)
    | _, w :: _ => (if seen.contains w then seen else w :: seen, firsts, t :: rest)
    | _, _ => (seen, firsts, t :: rest)) ([], [], [])
  let _ := seen
  firsts.reverse ++ rest.reverse

def maxIds (toks : List String) : Nat × Nat :=
  toks.foldl (fun (a : Nat × Nat) t =>
    match splitColon t with
    | [w] => (a.1, max a.2 (nat! w))
    | w :: c :: _ => (if t.front == 'p' || t.front == 'u' then max a.1 (nat! c) else a.1, max a.2 (nat! w))
    | _ => a) (0, 0)

def handle (s : St) (line : String) : St :=
  match words line with
  | ["case", id, "alg", a, "n", n, "workers", w, "L", l, "mode", m] =>
    { s with id := id, alg := algOf a, n := nat! n, workers := nat! w, L := nat! l, controlled := m == "controlled" }
  | "branch" :: phase :: ctl :: exp :: flags =>
    let exp := nat! exp
    let ones := (flags.filter (· == "1")).length
    let okCount := flags.length == exp && ones == 1
    -- the model: `exp` children arrive at a counter initialised to exp-1, in this order
    let tr : List Pool.BEv := (List.range exp).flatMap fun i => [.install i, .dec i]
    let model := match Pool.brun (Pool.BState.init exp) tr with
      | some b => b.collectors == [exp - 1]
      | none => false
    let okLast := ctl != "1" || flags.getLast? == some "1"
    s.say (okCount && model && okLast) s!"branch-{phase}" s!"expected {exp} arrivals, flags {flags}"
  | ["counts", amb, coll, last, pushed, popped] =>
    let s := s.say (nat! coll == s.n * nat! amb && nat! last == nat! amb) "collect-counts" s!"amb {amb} collect {coll} last {last}"
    s.say (nat! pushed == nat! popped && nat! pushed == s.n * nat! amb + 1) "pushed-eq-popped" s!"pushed {pushed} popped {popped}"
  | ["render", bn, ixn, wn, raise, real] =>
    let obs := Render.raisedAt (if raise == "none" then none else some (nat! raise))
    let sz : Render.Sizes := ⟨nat! bn, nat! ixn, nat! wn⟩
    let m := Render.render s.alg sz obs
    let mo := Render.renderOld s.alg sz obs
    let show_ (r : Render.Result) : String := match r with
      | none => "null" | some true => "complete" | some false => "partial"
    let s := s.say (show_ m == real) "render-flow" s!"model {show_ m} real {real} (pre-fix flow: {show_ mo}) sizes {bn} {ixn} {wn} raise {raise}"
    -- instance of render_all_or_nothing
    s.say (m == none || m == some true) "render-all-or-nothing"
  | kind :: toks =>
    -- "pool": build phase (WorkerPool::run).  "walkpool": the dual walk of a tree without singletons
    -- (simplex / hybrid) is the same loop: a branch is a cell that "evaluates" to ambiguous and pushes its
    -- (already existing) children, any other cell completes at once, `pending--` walks up.
    if kind != "pool" && kind != "walkpool" then s else
    let (maxId, maxW) := maxIds toks
    match replay (Pool.S.init s.n s.workers s.L) (hoistFirstLoops toks) maxId maxW with
    | .error e => s.say false s!"{kind}-trace" e
    | .ok fin =>
      let s := s.say true s!"{kind}-trace {toks.length}"
      -- consequences of the theorems on the final state
      let queued := fin.bag ++ fin.loc.map (·.2)
      let conserved := (fin.pushed.length == fin.popped.length + queued.length) &&
        fin.pushed.all (fun c => fin.popped.contains c || queued.contains c)
      let s := s.say conserved "no-lost-task" s!"pushed {fin.pushed.length} popped {fin.popped.length} queued {queued.length}"
      let allExited := (List.range (maxW + 1)).all fun w => fin.act w == .exited || fin.act w == .idle
      let s := s.say (fin.done && allExited) "workers-left-loop"
      if fin.cancel then s
      else s.say (queued.isEmpty && fin.popped.length == fin.pushed.length) "uncancelled-all-popped"
  | _ => s

def run (_args : List String) (lines : Array String) : Array String :=
  (lines.foldl handle {}).out

end Driver.C11
