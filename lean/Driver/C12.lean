/-
  C12 driver: every observation of the real library (harness/fenv.cpp) is compared with what the
  model predicts from the regenerated call table.
-/
import Driver.Parse
import LibfiveModel.FEnv
import Generated.FEnvTable
open Libfive.FEnv

namespace Driver.C12

def modeOf (s : String) : Option RMode :=
  match s with
  | "nearest" => some .nearest | "down" => some .down | "up" => some .up | "zero" => some .zero
  | _ => none

/-- run the model's segments for the interval operation behind opcode `op` -/
def predict (op : String) (e : Env) : Env :=
  match Generated.FEnv.libfiveOps.find? (·.1 == intervalOpOf op) with
  | some o => runSegs (opSegs Generated.FEnv.boostEntries o) e
  | none => e       -- opcode without interval arithmetic (const-var, compare, ...)

def handle (line : String) : Option String :=
  match words line with
  | ["obs", kind, op, cls, init, before, after, cb, ca] =>
    match modeOf before, modeOf after with
    | some b, some a =>
      let e : Env := ⟨b, 0⟩
      let p := predict op e
      let tag := s!"{kind} {op} {cls} {init}"
      if cb != ca then some s!"MISMATCH ctl {tag} {cb} {ca}"
      else if a == b then
        -- the model may over-approximate (a raw segment need not fire on this input)
        some s!"ok {tag}"
      else if p.round == b then some s!"MISMATCH round {tag} model-preserves real {before}->{after}"
      else some s!"agree-leak {tag} {before}->{after}"
    | _, _ => some s!"MISMATCH parse {line}"
  | _ => none

def run (_args : List String) (lines : Array String) : Array String := lines.filterMap handle

end Driver.C12
