/-
  C18 driver.  Reads what harness/stdlib.cpp printed (the trees the REAL C entry points of
  libfive_stdlib.h built when their parameters are free variables), rebuilds every call with
  the transcription in LibfiveModel/Stdlib.lean from the same arguments, and compares the two
  trees up to commutativity of + * min max and sharing (DAGs are unfolded to trees).

  Constants are compared as float bits.  Constant folding of the IEEE-exact opcodes is replayed
  with `Float32`; results of inexact kernels (Eigen's `cos`, `sin`, `sqrt`… on constants, libm
  `cos` in double) are computed with libm here and then *snapped* to the nearest constant that
  occurs in the real tree if one lies within 4 ulp(max(|v|,1)); downstream exact folds then use
  the snapped value.

    ok case <k> <id> <fn> size <n>      |   MISMATCH case <k> <id> <fn> <why>   |   skip …
-/
import Driver.Parse
import LibfiveModel.Stdlib

namespace Driver.C18
open Libfive Libfive.Stdlib Libfive.Stdlib.SExpr

/-! ### parsing DAG dumps -/

def parseDag (ws : List String) : Option (SExpr × Array Nat) := do
  -- ws = root :: count :: node tokens, nodes terminated by ";"
  let (root, rest) ← match ws with
    | r :: _ :: rest => some (nat! r, rest)
    | _ => none
  let mut nodes : Array SExpr := #[]
  let mut consts : Array Nat := #[]
  let mut cur : List String := []
  for t in rest do
    if t == ";" then
      let toks := cur.reverse
      let get := fun (s : String) => nodes.getD (nat! s) SExpr.x
      let e ← match toks with
        | [_, "var-x"] => some SExpr.x
        | [_, "var-y"] => some SExpr.y
        | [_, "var-z"] => some SExpr.z
        | [_, "var", n] => some (SExpr.var (nat! n))
        | [_, "const", h] => (F32.parseHex h).map SExpr.const
        | [_, "un", op, a] => (Op.ofPName? op).map fun o => SExpr.un o (get a)
        | [_, "bin", op, a, b] => (Op.ofPName? op).map fun o => SExpr.bin o (get a) (get b)
        | [_, "remap", t, tx, ty, tz] => some (SExpr.remap (get t) (get tx) (get ty) (get tz))
        | _ => none
      if let SExpr.const c := e then consts := consts.push c
      nodes := nodes.push e
      cur := []
    else
      cur := t :: cur
  let r ← nodes[root]?
  return (r, consts)

/-! ### canonical form: commutative operands ordered -/

def rank : SExpr → Nat
  | const _ => 0 | SExpr.x => 1 | SExpr.y => 2 | SExpr.z => 3 | var _ => 4
  | un .. => 5 | bin .. => 6 | remap .. => 7

partial def cmp (a b : SExpr) : Ordering :=
  match a, b with
  | const c, const d => compare c d
  | var i, var j => compare i j
  | un o a1, un p b1 => (compare o.code p.code).then (cmp a1 b1)
  | bin o a1 a2, bin p b1 b2 => ((compare o.code p.code).then (cmp a1 b1)).then (cmp a2 b2)
  | remap t1 x1 y1 z1, remap t2 x2 y2 z2 =>
    (((cmp t1 t2).then (cmp x1 x2)).then (cmp y1 y2)).then (cmp z1 z2)
  | _, _ => compare (rank a) (rank b)

partial def canon : SExpr → SExpr
  | un op a => un op (canon a)
  | bin op a b =>
    let a' := canon a
    let b' := canon b
    if op.isCommutative && cmp b' a' == .lt then bin op b' a' else bin op a' b'
  | remap t X Y Z => remap (canon t) (canon X) (canon Y) (canon Z)
  | e => e

partial def render : SExpr → String
  | const c => "#" ++ F32.toHex (Float32.ofBits c.toUInt32)
  | SExpr.x => "x" | SExpr.y => "y" | SExpr.z => "z"
  | var i => s!"v{i}"
  | un op a => s!"({op.pname} {render a})"
  | bin op a b => s!"({op.pname} {render a} {render b})"
  | remap t X Y Z => s!"(remap {render t} {render X} {render Y} {render Z})"

/-- first place where two canonical trees differ -/
partial def firstDiff (a b : SExpr) : Option (SExpr × SExpr) :=
  match a, b with
  | un o a1, un p b1 => if o = p then firstDiff a1 b1 else some (a, b)
  | bin o a1 a2, bin p b1 b2 =>
    if o = p then (firstDiff a1 b1).orElse fun _ => firstDiff a2 b2 else some (a, b)
  | remap t1 x1 y1 z1, remap t2 x2 y2 z2 =>
    (firstDiff t1 t2).orElse fun _ => (firstDiff x1 x2).orElse fun _ =>
      (firstDiff y1 y2).orElse fun _ => firstDiff z1 z2
  | _, _ => if a = b then none else some (a, b)

/-! ### the constant folder (single precision, as `ArrayEvaluator` in `Tree::unary/binary`) -/

def f32 (c : Nat) : Float32 := Float32.ofBits c.toUInt32

def snap (reals : Array Nat) (c : Nat) : Nat :=
  let v := f32 c
  if v.isNaN then c else
  let tol : Float32 := 4.8e-7 * (if v.abs > 1 then v.abs else 1)
  let best := reals.foldl (fun (acc : Option (Nat × Float32)) r =>
    let d := (f32 r - v).abs
    if d ≤ tol then
      match acc with
      | some (_, bd) => if d < bd then some (r, d) else acc
      | none => some (r, d)
    else acc) none
  match best with
  | some (r, _) => r
  | none => c

def mkFolder (reals : Array Nat) : Folder where
  un := fun op c =>
    let v := (F32.ev op (f32 c) 0).toBits.toNat
    if F32.exactOp op then v else snap reals v
  bin := fun op a b =>
    let v := (F32.ev op (f32 a) (f32 b)).toBits.toNat
    if F32.exactOp op then v else snap reals v
  lit := snap reals

/-! ### the table of covered functions: (shapes, floats, ints) and the transcription -/

def sigOf : String → Option (Nat × Nat × Nat)
  | "_union" | "intersection" | "difference" => some (2, 0, 0)
  | "inverse" => some (1, 0, 0)
  | "offset" | "shell" => some (1, 1, 0)
  | "clearance" | "blend_expt" | "blend_expt_unit" | "blend_rough" | "morph" => some (2, 1, 0)
  | "blend_difference" | "loft" => some (2, 2, 0)
  | "loft_between" => some (2, 6, 0)
  | "circle" => some (0, 3, 0)
  | "ring" => some (0, 4, 0)
  | "polygon" => some (0, 3, 1)
  | "rectangle" | "rectangle_exact" | "rectangle_centered_exact" => some (0, 4, 0)
  | "rounded_rectangle" => some (0, 5, 0)
  | "triangle" => some (0, 6, 0)
  | "box_mitered" | "box_mitered_centered" | "box_exact_centered" | "box_exact"
  | "half_space" => some (0, 6, 0)
  | "rounded_box" => some (0, 7, 0)
  | "sphere" => some (0, 4, 0)
  | "cylinder_z" | "cone_ang_z" | "cone_z" | "torus_z" => some (0, 5, 0)
  | "pyramid_z" => some (0, 6, 0)
  | "gyroid" => some (0, 4, 0)
  | "emptiness" => some (0, 0, 0)
  | "array_x" => some (1, 1, 1)
  | "array_xy" => some (1, 2, 2)
  | "array_xyz" => some (1, 3, 3)
  | "array_polar_z" => some (1, 2, 1)
  | "extrude_z" => some (1, 2, 0)
  | "move" => some (1, 3, 0)
  | "reflect_x" | "reflect_y" | "reflect_z" | "revolve_y" => some (1, 1, 0)
  | "reflect_xy" | "reflect_yz" | "reflect_xz" | "symmetric_x" | "symmetric_y"
  | "symmetric_z" => some (1, 0, 0)
  | "scale_x" | "scale_y" | "scale_z" => some (1, 2, 0)
  | "scale_xyz" => some (1, 6, 0)
  | "rotate_x" | "rotate_y" | "rotate_z" => some (1, 4, 0)
  | "taper_x_y" | "shear_x_y" => some (1, 5, 0)
  | "taper_xy_z" => some (1, 6, 0)
  | "repel" | "repel_x" | "repel_y" | "repel_z" | "repel_xy" | "repel_yz" | "repel_xz"
  | "attract" | "attract_x" | "attract_y" | "attract_z" | "attract_xy" | "attract_yz"
  | "attract_xz" => some (1, 5, 0)
  | "twirl_x" | "twirl_axis_x" | "twirl_y" | "twirl_axis_y" | "twirl_z" | "twirl_axis_z" =>
    some (1, 5, 0)
  | _ => none

def build (F : Folder) (fn : String) (s f : Array SExpr) (n : Array Nat) : SExpr :=
  let S := fun (i : Nat) => s.getD i SExpr.x
  let P := fun (i : Nat) => f.getD i SExpr.x
  let N := fun (i : Nat) => n.getD i 0
  let v2 := fun (i : Nat) => (⟨P i, P (i + 1)⟩ : V2)
  let v3 := fun (i : Nat) => (⟨P i, P (i + 1), P (i + 2)⟩ : V3)
  match fn with
  | "_union" => union F (S 0) (S 1)
  | "intersection" => intersection F (S 0) (S 1)
  | "inverse" => inverse F (S 0)
  | "difference" => difference F (S 0) (S 1)
  | "offset" => offset F (S 0) (P 0)
  | "clearance" => clearance F (S 0) (S 1) (P 0)
  | "shell" => shell F (S 0) (P 0)
  | "blend_expt" => blend_expt F (S 0) (S 1) (P 0)
  | "blend_expt_unit" => blend_expt_unit F (S 0) (S 1) (P 0)
  | "blend_rough" => blend_rough F (S 0) (S 1) (P 0)
  | "blend_difference" => blend_difference F (S 0) (S 1) (P 0) (P 1)
  | "morph" => morph F (S 0) (S 1) (P 0)
  | "loft" => loft F (S 0) (S 1) (P 0) (P 1)
  | "loft_between" => loft_between F (S 0) (S 1) (v3 0) (v3 3)
  | "circle" => circle F (P 0) (v2 1)
  | "ring" => ring F (P 0) (P 1) (v2 2)
  | "polygon" => polygon F (P 0) (N 0) (v2 1)
  | "rectangle" => rectangle F (v2 0) (v2 2)
  | "rounded_rectangle" => rounded_rectangle F (v2 0) (v2 2) (P 4)
  | "rectangle_exact" => rectangle_exact F (v2 0) (v2 2)
  | "rectangle_centered_exact" => rectangle_centered_exact F (v2 0) (v2 2)
  | "triangle" => triangle F (v2 0) (v2 2) (v2 4)
  | "box_mitered" => box_mitered F (v3 0) (v3 3)
  | "box_mitered_centered" => box_mitered_centered F (v3 0) (v3 3)
  | "box_exact_centered" => box_exact_centered F (v3 0) (v3 3)
  | "box_exact" => box_exact F (v3 0) (v3 3)
  | "rounded_box" => rounded_box F (v3 0) (v3 3) (P 6)
  | "sphere" => sphere F (P 0) (v3 1)
  | "half_space" => half_space F (v3 0) (v3 3)
  | "cylinder_z" => cylinder_z F (P 0) (P 1) (v3 2)
  | "cone_ang_z" => cone_ang_z F (P 0) (P 1) (v3 2)
  | "cone_z" => cone_z F (P 0) (P 1) (v3 2)
  | "pyramid_z" => pyramid_z F (v2 0) (v2 2) (P 4) (P 5)
  | "torus_z" => torus_z F (P 0) (P 1) (v3 2)
  | "gyroid" => gyroid F (v3 0) (P 3)
  | "emptiness" => emptiness
  | "array_x" => array_x F (S 0) (N 0) (P 0)
  | "array_xy" => array_xy F (S 0) (N 0) (N 1) (v2 0)
  | "array_xyz" => array_xyz F (S 0) (N 0) (N 1) (N 2) (v3 0)
  | "array_polar_z" => array_polar_z F (S 0) (N 0) (v2 0)
  | "extrude_z" => extrude_z F (S 0) (P 0) (P 1)
  | "move" => move F (S 0) (v3 0)
  | "reflect_x" => reflect_x F (S 0) (P 0)
  | "reflect_y" => reflect_y F (S 0) (P 0)
  | "reflect_z" => reflect_z F (S 0) (P 0)
  | "reflect_xy" => reflect_xy (S 0)
  | "reflect_yz" => reflect_yz (S 0)
  | "reflect_xz" => reflect_xz (S 0)
  | "symmetric_x" => symmetric_x F (S 0)
  | "symmetric_y" => symmetric_y F (S 0)
  | "symmetric_z" => symmetric_z F (S 0)
  | "scale_x" => scale_x F (S 0) (P 0) (P 1)
  | "scale_y" => scale_y F (S 0) (P 0) (P 1)
  | "scale_z" => scale_z F (S 0) (P 0) (P 1)
  | "scale_xyz" => scale_xyz F (S 0) (v3 0) (v3 3)
  | "rotate_x" => rotate_x F (S 0) (P 0) (v3 1)
  | "rotate_y" => rotate_y F (S 0) (P 0) (v3 1)
  | "rotate_z" => rotate_z F (S 0) (P 0) (v3 1)
  | "taper_x_y" => taper_x_y F (S 0) (v2 0) (P 2) (P 3) (P 4)
  | "taper_xy_z" => taper_xy_z F (S 0) (v3 0) (P 3) (P 4) (P 5)
  | "shear_x_y" => shear_x_y F (S 0) (v2 0) (P 2) (P 3) (P 4)
  | "repel" => repel F (S 0) (v3 0) (P 3) (P 4)
  | "repel_x" => repel_x F (S 0) (v3 0) (P 3) (P 4)
  | "repel_y" => repel_y F (S 0) (v3 0) (P 3) (P 4)
  | "repel_z" => repel_z F (S 0) (v3 0) (P 3) (P 4)
  | "repel_xy" => repel_xy F (S 0) (v3 0) (P 3) (P 4)
  | "repel_yz" => repel_yz F (S 0) (v3 0) (P 3) (P 4)
  | "repel_xz" => repel_xz F (S 0) (v3 0) (P 3) (P 4)
  | "attract" => attract F (S 0) (v3 0) (P 3) (P 4)
  | "attract_x" => attract_x F (S 0) (v3 0) (P 3) (P 4)
  | "attract_y" => attract_y F (S 0) (v3 0) (P 3) (P 4)
  | "attract_z" => attract_z F (S 0) (v3 0) (P 3) (P 4)
  | "attract_xy" => attract_xy F (S 0) (v3 0) (P 3) (P 4)
  | "attract_yz" => attract_yz F (S 0) (v3 0) (P 3) (P 4)
  | "attract_xz" => attract_xz F (S 0) (v3 0) (P 3) (P 4)
  | "revolve_y" => revolve_y F (S 0) (P 0)
  | "twirl_x" => twirl_x F (S 0) (P 0) (P 1) (v3 2)
  | "twirl_axis_x" => twirl_axis_x F (S 0) (P 0) (P 1) (v3 2)
  | "twirl_y" => twirl_y F (S 0) (P 0) (P 1) (v3 2)
  | "twirl_axis_y" => twirl_axis_y F (S 0) (P 0) (P 1) (v3 2)
  | "twirl_z" => twirl_z F (S 0) (P 0) (P 1) (v3 2)
  | "twirl_axis_z" => twirl_axis_z F (S 0) (P 0) (P 1) (v3 2)
  | _ => SExpr.const 0x7fc00000

/-! ### line protocol -/

structure CallRec where
  fn : String
  first : Nat
  count : Nat
  ints : Array Nat
  shapes : Array Nat
  sym : Bool

structure St where
  case : String := "?"
  trees : List (Nat × SExpr) := []
  calls : List (Nat × CallRec) := []
  out : Array String := #[]

def lookup {β} (k : Nat) : List (Nat × β) → Option β
  | [] => none
  | (j, v) :: r => if j = k then some v else lookup k r

def clip (s : String) (n : Nat := 600) : String := if s.length > n then (s.take n).toString ++ "…" else s

/-- parse `call <id> <fn> <mode> vars <first> <count> ints <n> … shapes <m> …` -/
def parseCall (ws : List String) : Option (Nat × CallRec) :=
  match ws with
  | id :: fn :: mode :: "vars" :: first :: count :: "ints" :: ni :: rest =>
    let ni := nat! ni
    let ints := (rest.take ni).map nat!
    match rest.drop ni with
    | "shapes" :: _ :: ids =>
      some (nat! id, { fn := fn, first := nat! first, count := nat! count, ints := ints.toArray,
                       shapes := (ids.map nat!).toArray, sym := mode == "sym" })
    | _ => none
  | _ => none

def selfTest : Array String :=
  let chk (name : String) (c : SExpr) (v : Float32) : Option String :=
    match c with
    | SExpr.const b => if f32 b == v then none else some s!"MISMATCH literal {name} is not {v}"
    | _ => some s!"MISMATCH literal {name}"
  #[chk "c0" c0 0, chk "c1" c1 1, chk "c2" c2 2, chk "c4" c4 4, chk "cNeg1" cNeg1 (-1),
    chk "c2_75" c2_75 2.75, chk "cInf" cInf (1 / 0)].filterMap id

def step (st : St) (line : String) : St :=
  match words line with
  | "case" :: k :: _ => { st with case := k, trees := [], calls := [] }
  | "call" :: rest =>
    match parseCall rest with
    | some (id, c) => { st with calls := (id, c) :: st.calls }
    | none => { st with out := st.out.push s!"MISMATCH case {st.case} unparsable call line: {clip line 200}" }
  | "error" :: rest =>
    { st with out := st.out.push s!"MISMATCH case {st.case} harness error: {clip (" ".intercalate rest) 200}" }
  | "dump" :: id :: "dag" :: rest =>
    let id := nat! id
    match parseDag rest with
    | none => { st with out := st.out.push s!"MISMATCH case {st.case} {id} unparsable dag (apply/oracle/invalid node?)" }
    | some (real, consts) =>
      let st := { st with trees := (id, real) :: st.trees }
      match lookup id st.calls with
      | none => st
      | some c =>
        if !c.sym then st else
        match sigOf c.fn with
        | none => { st with out := st.out.push s!"skip case {st.case} {id} {c.fn} not-transcribed" }
        | some (ns, nf, ni) =>
          if ns != c.shapes.size || nf != c.count || ni != c.ints.size then
            let msg := s!"MISMATCH case {st.case} {id} {c.fn} signature: model ({ns},{nf},{ni}) real ({c.shapes.size},{c.count},{c.ints.size})"
            { st with out := st.out.push msg }
          else
            let shapes := c.shapes.map fun sid => lookup sid st.trees
            if shapes.any Option.isNone then
              { st with out := st.out.push s!"skip case {st.case} {id} {c.fn} shape-argument-not-dumped" }
            else
              let shapes := shapes.map fun o => o.getD SExpr.x
              let params := (Array.range c.count).map fun j => SExpr.var (c.first + j)
              let F := mkFolder consts
              let model := canon (build F c.fn shapes params c.ints)
              let realc := canon real
              if model = realc then
                { st with out := st.out.push s!"ok case {st.case} {id} {c.fn} size {real.size}" }
              else
                let d := match firstDiff model realc with
                  | some (m, r) => s!"model {clip (render m) 300} real {clip (render r) 300}"
                  | none => "?"
                { st with out := st.out.push s!"MISMATCH case {st.case} {id} {c.fn} first-difference {d}" }
  | _ => st

def run (_args : List String) (lines : Array String) : Array String :=
  selfTest ++ (lines.foldl step {}).out

end Driver.C18
