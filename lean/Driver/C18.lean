/- C18 driver: not written yet -/
import Driver.Parse

namespace Driver.C18

def run (_args : List String) (lines : Array String) : Array String :=
  #[s!"MISMATCH driver-not-implemented {lines.size}"]

end Driver.C18
