/-
  Shared by the C07 and C01 drivers: running tree programs on the model, parsing the real DAG /
  deck / tape dumps of harness/treeprog.cpp, reference evaluation.
-/
import Driver.Parse
import LibfiveModel.Expr
import LibfiveModel.ExprF32
open Libfive

namespace Driver.ExprIO

abbrev Nodes := Array (Option E32)

def setNode (ns : Nodes) (i : Nat) (e : E32) : Nodes :=
  let ns := if ns.size ≤ i then ns ++ Array.replicate (i + 1 - ns.size) none else ns
  ns.set! i (some e)

def getNode (ns : Nodes) (s : String) : E32 := ((ns.getD (nat! s) none).getD .invalid)

def hexBits (s : String) : UInt32 := ((F32.parseHex s).getD 0).toUInt32

/-- variable index of a node that is a free variable -/
def varOf : E32 → Option Nat
  | .var v => some v
  | _ => none

/-- run one `n <id> …` program line on the model; `nvars` = number of variables created so far.
    `opt` is the model of `optimized()` supplied by the caller. -/
def execNode (opt flat : E32 → E32) (ns : Nodes) (nvars : Nat) (ws : List String) : Nodes × Nat :=
  match ws with
  | "n" :: id :: "const" :: h :: _ => (setNode ns (nat! id) (.const (hexBits h)), nvars)
  | "n" :: id :: "x" :: _ => (setNode ns (nat! id) .x, nvars)
  | "n" :: id :: "y" :: _ => (setNode ns (nat! id) .y, nvars)
  | "n" :: id :: "z" :: _ => (setNode ns (nat! id) .z, nvars)
  | "n" :: id :: "var" :: _ => (setNode ns (nat! id) (.var nvars), nvars + 1)
  | "n" :: id :: "un" :: op :: a :: _ =>
    let o := (Op.ofPName? op).getD Op.invalid
    (setNode ns (nat! id) (Expr.mkUnary F32K o (getNode ns a)), nvars)
  | "n" :: id :: "bin" :: op :: a :: b :: _ =>
    let o := (Op.ofPName? op).getD Op.invalid
    (setNode ns (nat! id) (Expr.mkBinary F32K o (getNode ns a) (getNode ns b)), nvars)
  | "n" :: id :: "remap" :: t :: a :: b :: c :: _ =>
    (setNode ns (nat! id) (Expr.mkRemap (getNode ns t) (getNode ns a) (getNode ns b) (getNode ns c)), nvars)
  | "n" :: id :: "apply" :: t :: v :: value :: _ =>
    match varOf (getNode ns v) with
    | some vi => (setNode ns (nat! id) (Expr.mkApply (getNode ns t) vi (getNode ns value)), nvars)
    | none => (setNode ns (nat! id) .invalid, nvars)
  | "n" :: id :: "opt" :: a :: _ =>
    let t := getNode ns a
    (setNode ns (nat! id) (opt t), nvars)
  | "n" :: id :: "flat" :: a :: _ =>
    let t := getNode ns a
    (setNode ns (nat! id) (flat t), nvars)
  | "n" :: id :: "cvars" :: a :: _ =>
    (setNode ns (nat! id) (Expr.mkUnary F32K Op.constVar (getNode ns a)), nvars)
  | _ => (ns, nvars)

/-- parse `dag <root> <count> (<id> <kind> … ;)*` (tokens after the word `dag`) -/
def parseDag (ws : List String) : Option E32 :=
  match ws with
  | root :: _count :: rest =>
    let rec go (fuel : Nat) (ws : List String) (ns : Nodes) : Nodes :=
      match fuel with
      | 0 => ns
      | fuel + 1 =>
        match ws with
        | id :: "const" :: h :: ";" :: r => go fuel r (setNode ns (nat! id) (.const (hexBits h)))
        | id :: "var-x" :: ";" :: r => go fuel r (setNode ns (nat! id) .x)
        | id :: "var-y" :: ";" :: r => go fuel r (setNode ns (nat! id) .y)
        | id :: "var-z" :: ";" :: r => go fuel r (setNode ns (nat! id) .z)
        | id :: "var" :: v :: ";" :: r => go fuel r (setNode ns (nat! id) (.var (nat! v)))
        | id :: "un" :: op :: a :: ";" :: r =>
          go fuel r (setNode ns (nat! id) (.un ((Op.ofPName? op).getD Op.invalid) (getNode ns a)))
        | id :: "bin" :: op :: a :: b :: ";" :: r =>
          go fuel r (setNode ns (nat! id)
            (.bin ((Op.ofPName? op).getD Op.invalid) (getNode ns a) (getNode ns b)))
        | id :: "remap" :: t :: a :: b :: c :: ";" :: r =>
          go fuel r (setNode ns (nat! id) (.remap (getNode ns t) (getNode ns a) (getNode ns b) (getNode ns c)))
        | id :: "apply" :: t :: tg :: v :: ";" :: r =>
          match varOf (getNode ns tg) with
          | some vi => go fuel r (setNode ns (nat! id) (.apply (getNode ns t) vi (getNode ns v)))
          | none => go fuel r (setNode ns (nat! id) .invalid)
        | id :: "oracle" :: ";" :: r => go fuel r (setNode ns (nat! id) (.oracle 0))
        | id :: "invalid" :: ";" :: r => go fuel r (setNode ns (nat! id) .invalid)
        | _ => ns
    let ns := go ws.length rest #[]
    (ns.getD (nat! root) none)
  | _ => none

/-- parse `N X Y Z consts k (id bits)* vars m (id idx bits)*` -/
def parseDeckInfo (ws : List String) : DeckInfo :=
  match ws with
  | _n :: x :: y :: z :: "consts" :: k :: rest =>
    let k := nat! k
    let cs := (List.range k).map fun i => (nat! (rest.getD (2*i) ""), hexBits (rest.getD (2*i+1) ""))
    let rest := rest.drop (2*k)
    match rest with
    | "vars" :: m :: rest =>
      let m := nat! m
      let vs := (List.range m).map fun i => (nat! (rest.getD (3*i) ""), nat! (rest.getD (3*i+1) ""))
      { x := nat! x, y := nat! y, z := nat! z, consts := cs, vars := vs }
    | _ => { x := nat! x, y := nat! y, z := nat! z, consts := cs, vars := [] }
  | _ => { x := 0, y := 0, z := 0, consts := [], vars := [] }

def f64Hex (f : Float) : String :=
  let n := f.toBits.toNat
  let digs := (List.range 16).map fun i =>
    let d := (n >>> (4 * (15 - i))) % 16
    if d < 10 then Char.ofNat (d + '0'.toNat) else Char.ofNat (d - 10 + 'a'.toNat)
  String.ofList digs

/-- reference value (double, with single-precision error bound) of `t` at a point -/
def refAt (t : E32) (vars : Nat → Float32) (p : Float32 × Float32 × Float32) : RefVal :=
  Expr.denote RefVal.interp t
    { x := RefVal.ofF32 p.1, y := RefVal.ofF32 p.2.1, z := RefVal.ofF32 p.2.2,
      vars := fun v => RefVal.ofF32 (vars v) }

end Driver.ExprIO
