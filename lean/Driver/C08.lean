/-
  C08 driver: replays what the real Serializer / Deserializer did (harness/serial.cpp output)
  through the model of LibfiveModel/Serialize.lean:
    * `Tree::walk` order of every (flattened) shape tree          -> `walk`
    * bytes written by `Archive::serialize`                        -> `bytes`
    * archive, cerr classes and exception of `Archive::deserialize` on the real bytes -> `load`
    * hypotheses of the round-trip theorems on the real data       -> `hyp`
  Output: one verdict line per observation: `ok …` / `MISMATCH …` / `skip …`.
-/
import Driver.Parse
import LibfiveModel.Serialize
open Libfive Libfive.Serial

namespace Driver.C08

def hexVal (c : Char) : Nat := (F32.hexDigit c).getD 0

def unhexBytes (s : String) : List UInt8 :=
  if s == "-" then [] else
  let rec go : List Char → List UInt8
    | a :: b :: r => UInt8.ofNat (hexVal a * 16 + hexVal b) :: go r
    | _ => []
  go s.toList

def hexDigitOf (d : Nat) : Char := if d < 10 then Char.ofNat (d + 48) else Char.ofNat (d - 10 + 97)

def hexBytes (bs : List UInt8) : String :=
  if bs.isEmpty then "-" else
  String.ofList (bs.flatMap fun b => [hexDigitOf (b.toNat / 16), hexDigitOf (b.toNat % 16)])

def hex32 (v : UInt32) : String :=
  String.ofList ((List.range 8).map fun i => hexDigitOf ((v.toNat >>> (4 * (7 - i))) % 16))

def u32! (s : String) : UInt32 := UInt32.ofNat ((F32.parseHex s).getD 0)

/-- split a token list on ";" -/
def segments (ws : List String) : List (List String) :=
  let (segs, cur) := ws.foldl (fun (acc : List (List String) × List String) w =>
    if w == ";" then (acc.2.reverse :: acc.1, []) else (acc.1, w :: acc.2)) ([], [])
  (if cur.isEmpty then segs else cur.reverse :: segs).reverse

def parseNode (seg : List String) : Node :=
  match seg with
  | _ :: "const" :: h :: _ => { op := .constant, value := u32! h }
  | _ :: "var" :: _ => { op := .varFree }
  | _ :: "un" :: op :: a :: _ => { op := (Op.ofPName? op).getD .invalid, lhs := nat! a }
  | _ :: "bin" :: op :: a :: b :: _ => { op := (Op.ofPName? op).getD .invalid, lhs := nat! a, rhs := nat! b }
  | _ :: k :: _ => { op := (Op.ofPName? k).getD .invalid }
  | _ => { op := .invalid }

def parseVars : Nat → List String → List (Nat × List UInt8)
  | 0, _ => []
  | k + 1, id :: h :: rest => (nat! id, unhexBytes h) :: parseVars k rest
  | _, _ => []

structure St where
  case : String := ""
  active : Bool := false
  heap : Array Node := #[]
  shapes : Array Shape := #[]
  remap : Array Bool := #[]
  walks : Array (List Nat) := #[]
  haveSer : Bool := false
  serlog : List String := []
  serexc : String := "none"
  bytes : List UInt8 := []
  haveBytes : Bool := false
  log : Option (List String) := none
  exc : String := "none"
  lheap : Option (List String) := none
  lshapes : Array (List String) := #[]
  crashed : Bool := false

/-! ### constant folding for the run: exact opcodes through Float32, others are wildcards -/

def wildcard : UInt32 := 0x7fc0f01d

def folder : Folder where
  f1 := fun op v =>
    if F32.exactOp op && v != wildcard then (F32.ev op (Float32.ofBits v) 0).toBits else wildcard
  f2 := fun op a b =>
    if F32.exactOp op && a != wildcard && b != wildcard then
      (F32.ev op (Float32.ofBits a) (Float32.ofBits b)).toBits
    else wildcard

def isNaNBits (v : UInt32) : Bool := (v.toNat / 8388608) % 256 == 255 && v.toNat % 8388608 != 0

/-! ### DagDumper of harness/common.hpp on the model's heap -/

structure Dump where
  ids : List (Nat × Nat) := []
  out : Array String := #[]
  count : Nat := 0

partial def visit (heap : List Node) (d : Dump) (n : Nat) : Dump × Nat :=
  match d.ids.find? (·.1 == n) with
  | some (_, i) => (d, i)
  | none =>
    let nd := hget heap n
    let fresh (d : Dump) (ws : List String) : Dump × Nat :=
      let id := d.count
      ({ ids := (n, id) :: d.ids, out := d.out ++ (toString id :: ws ++ [";"]).toArray, count := id + 1 }, id)
    if nd.op == Op.constant then
      fresh d ["const", if nd.value == wildcard then "any" else if isNaNBits nd.value then "nan" else hex32 nd.value]
    else if nd.op == Op.varFree then fresh d ["var", "-1"]
    else match nd.op.args with
      | some 1 =>
        let (d, a) := visit heap d nd.lhs
        fresh d ["un", nd.op.pname, toString a]
      | some 2 =>
        let (d, a) := visit heap d nd.lhs
        let (d, b) := visit heap d nd.rhs
        fresh d ["bin", nd.op.pname, toString a, toString b]
      | _ => fresh d [nd.op.pname]

def insertSorted (x : Nat × String) : List (Nat × String) → List (Nat × String)
  | [] => [x]
  | y :: r => if x.1 < y.1 then x :: y :: r else y :: insertSorted x r

/-- the `lheap` / `lshape` lines the harness would print for this loaded archive -/
def dumpLoaded (heap : List Node) (shapes : List LShape) : List String × List (List String) :=
  let (d, roots) := shapes.foldl (fun (acc : Dump × List Nat) s =>
    let (d, r) := visit heap acc.1 s.tree; (d, acc.2 ++ [r])) ({}, [])
  let lheap := toString d.count :: d.out.toList
  let lshapes := (shapes.zip roots).zipIdx.map fun ((s, r), i) =>
    let known := s.vars.filterMap fun (v, nm) =>
      (d.ids.find? (·.1 == v)).map fun p => (p.2, hexBytes nm)
    let unreach := s.vars.length - known.length
    let sorted := known.foldl (fun acc x => insertSorted x acc) []
    [toString i, "root", toString r, "name", hexBytes s.name, "doc", hexBytes s.doc,
     "unreach", toString unreach, "vars", toString sorted.length] ++
      sorted.flatMap fun (i, h) => [toString i, h]
  (lheap, lshapes)

/-- word-wise comparison: model word `any` matches everything; NaN constants match each other -/
def wordsMatch : List String → List String → Bool
  | [], [] => true
  | "const" :: m :: ms, "const" :: r :: rs =>
    (m == "any" || m == r || (m == "nan" && isNaNBits (u32! r))) && wordsMatch ms rs
  | m :: ms, r :: rs => m == r && wordsMatch ms rs
  | _, _ => false

def errName : Err → String
  | .eof => "eof" | .tag => "tag" | .opLow => "opLow" | .opHigh => "opHigh" | .strEof => "strEof"
  | .strOpen => "strOpen" | .varIdx => "varIdx" | .varDup => "varDup" | .oracle => "oracle"

def isPrefix : List String → List String → Bool
  | [], _ => true
  | a :: as, b :: bs => a == b && isPrefix as bs
  | _, [] => false

def finish (st : St) : List String :=
  if !st.active then [] else
  let tag := s!"case {st.case}"
  if st.crashed && !st.haveBytes then [s!"skip crashed-before-bytes {tag}"] else
  if st.heap.size > 1500 then [s!"skip big {tag} nodes {st.heap.size}"] else
  let heapFn : NodeId → Node := fun i => st.heap.getD i { op := .invalid }
  let fuel := st.heap.size + 2
  let out : List String := []
  -- walk + bytes (archive cases only)
  let out := if !st.haveSer then out else
    let out := out ++ (st.walks.toList.zipIdx.map fun (real, i) =>
      let root := (st.shapes.getD i default).tree
      let model := walk heapFn fuel root
      if model == real then s!"ok walk {tag} shape {i}" else
        s!"MISMATCH walk {tag} shape {i} model= {model} real= {real}")
    let anyRemap := st.remap.any id
    let rm := if anyRemap then " remap" else ""
    let out := out ++ [match serialize heapFn fuel st.shapes.toList with
      | .ok b =>
        if st.serexc != "none" then s!"MISMATCH bytes {tag}{rm} model=ok real-exception={st.serexc}"
        else if b == st.bytes then s!"ok bytes {tag}{rm}"
        else s!"MISMATCH bytes {tag}{rm} model= {hexBytes b} real= {hexBytes st.bytes}"
      | .error e =>
        if e == SErr.outOfRange && st.serexc == "out_of_range" then s!"ok bytes {tag}{rm} both-throw"
        else s!"MISMATCH bytes {tag}{rm} model-error real= {hexBytes st.bytes}"]
    -- messages of the serializer: one `varMissing` per named variable that is not in the tree
    -- (looked up in the id table as it is when that shape is written)
    let missing := (st.shapes.toList.foldl (fun (acc : List NodeId × Nat) s =>
      match serShape heapFn fuel acc.1 s with
      | .ok (_, ids) => (ids, acc.2 + (s.vars.filter fun v => (posOf ids v.1).isNone).length)
      | .error _ => acc) ([], 0)).2
    let out := out ++ [if st.serlog.length == missing then s!"ok serlog {tag}"
      else s!"MISMATCH serlog {tag} model= {missing} real= {st.serlog}"]
    -- hypotheses of archive_roundtrip on the real data
    let bare := st.shapes.toList.map fun s => { s with vars := [] }
    let axesAll := axesUnique heapFn (List.range st.heap.size)
    let out := out ++ [s!"hyp {tag}{rm} canon {archiveCanon heapFn fuel st.shapes.toList && axesAll} canonTrees {archiveCanon heapFn fuel bare && axesAll} novars {st.shapes.all fun s => s.vars.isEmpty}"]
    out
  -- load: model deserializer on the real bytes
  let out := out ++ (match st.log with
    | none => [s!"skip load {tag} no-log-line"]
    | some rlog =>
      match deserialize folder st.bytes with
      | .ok (shapes, dst) =>
        let mlog := dst.log.map errName
        if st.crashed then [s!"MISMATCH load {tag} model=ok real=crashed"]
        else if st.exc != "none" then [s!"MISMATCH load {tag} model=ok real-exception={st.exc}"]
        else
          let (lheap, lshapes) := dumpLoaded dst.heap shapes
          let okHeap := match st.lheap with | some r => wordsMatch lheap r | none => false
          let okShapes := lshapes.length == st.lshapes.size &&
            (lshapes.zip st.lshapes.toList).all fun (m, r) => wordsMatch m r
          let okLog := mlog == rlog
          -- a constant folded through an inexact kernel decides later rewrites (x + 0, x * 1 ...):
          -- structure is then not determined by the model; only messages and shape count are compared
          let inexact := dst.heap.any fun n => n.op == Op.constant && n.value == wildcard
          if inexact then
            (if okLog && lshapes.length == st.lshapes.size then [s!"skip load {tag} inexact-fold log-ok {mlog.length}"]
             else [s!"MISMATCH load {tag} inexact-fold log model= {mlog} real= {rlog}"])
          else if okHeap && okShapes && okLog then [s!"ok load {tag} shapes {shapes.length} nodes {lheap.headD "0"} log {mlog.length}"]
          else [s!"MISMATCH load {tag} heap {okHeap} shapes {okShapes} log {okLog} model= {lheap} {lshapes} {mlog} real= {st.lheap} {st.lshapes.toList} {rlog}"]
      | .error (Stop.outOfRange, mlogE) =>
        let mlog := mlogE.map errName
        if st.exc == "out_of_range" && mlog == rlog then [s!"ok load {tag} both-throw log {mlog.length}"]
        else [s!"MISMATCH load {tag} model=out_of_range {mlog} real= exc {st.exc} crashed {st.crashed} {rlog}"]
      | .error (Stop.indeterminate, mlogE) =>
        let mlog := mlogE.map errName
        -- the C++ continues on an uninitialised object: only what was said before is determined
        if isPrefix mlog rlog then [s!"skip load {tag} indeterminate log-prefix-ok {mlog.length}"]
        else [s!"MISMATCH load {tag} indeterminate log-prefix model= {mlog} real= {rlog}"]
      | .error (Stop.fuel, _) => [s!"MISMATCH load {tag} model-out-of-fuel"])
  out

def handle (st : St) (line : String) : St × List String :=
  let ws := words line
  match ws with
  | "case" :: k :: _ => ({ case := k, active := true }, [])
  | "heap" :: _ :: rest => ({ st with heap := ((segments rest).map parseNode).toArray }, [])
  | "shape" :: _ :: "root" :: r :: "remap" :: rm :: "name" :: n :: "doc" :: d :: "vars" :: k :: rest =>
    ({ st with shapes := st.shapes.push { tree := nat! r, name := unhexBytes n, doc := unhexBytes d,
                                          vars := parseVars (nat! k) rest },
               remap := st.remap.push (rm == "1") }, [])
  | "walk" :: _ :: _ :: rest => ({ st with walks := st.walks.push (rest.map nat!) }, [])
  | "serlog" :: _ :: rest => ({ st with serlog := rest, haveSer := true }, [])
  | "serexc" :: e :: _ => ({ st with serexc := e }, [])
  | "bytes" :: h :: _ => ({ st with bytes := unhexBytes h, haveBytes := true }, [])
  | "log" :: _ :: rest => ({ st with log := some rest }, [])
  | "exc" :: e :: _ => ({ st with exc := e }, [])
  | "lheap" :: rest => ({ st with lheap := some rest }, [])
  | "lshape" :: rest => ({ st with lshapes := st.lshapes.push rest }, [])
  | "crash" :: _ => ({ st with crashed := true }, [])
  | "end" :: _ => ({}, finish st)
  | _ => (st, [])

def run (_args : List String) (lines : Array String) : Array String := Id.run do
  let mut st : St := {}
  let mut out : Array String := #[]
  for l in lines do
    let (st', vs) := handle st l
    st := st'
    out := out ++ vs.toArray
  return out

end Driver.C08
