/-
  C10 on uniform grids — the premise of `collect_closed` holds for what the contourer emits.
  Property theorems only; the model is LibfiveModel/ContourGrid.lean, helper lemmas are in
  LibfiveProofs/ContourGrid.lean.

  Setting: a uniform w×h grid of level-0 DC leaf cells (no merged cells), corner states
  `s x y` (true = FILLED) for the grid corners 0 ≤ x ≤ w, 0 ≤ y ≤ h, the outer ring of corners
  uniform (`BoundaryUniform`; `BoundaryOutside` — the solid lies strictly inside the region — is
  the special case of interest).  `gridSegs` are the branes pushed by `DCContourer::load` over all
  calls the dual walk makes (every pair of edge-adjacent cells, once), with `T` the marching table
  dumped from the running library (`Generated.Marching2`).
-/
import LibfiveProofs.ContourGrid
import LibfiveTheorems.C10

namespace Libfive.C10
open Libfive.Contours Libfive.Marching2 Libfive.ContourGrid

/-- "the outer ring of corners is outside" is a special case of "the outer ring is uniform" -/
theorem boundaryOutside_uniform {w h : Nat} {s : Nat → Nat → Bool} (hb : BoundaryOutside w h s) :
    BoundaryUniform w h s := fun x y hx hy hxy =>
  (hb x y hx hy hxy).trans (hb 0 0 (Nat.zero_le _) (Nat.zero_le _) (Or.inl rfl)).symm

/-- **grid_degree_one.** For EVERY grid size w×h and EVERY assignment of corner states whose outer
    ring is uniform: every vertex of the uniform grid (cell (i,j) with i < w, j < h, patch index
    below the cell's `vertex_count`) is the start of exactly one emitted segment and the end of
    exactly one; and every emitted segment joins two such vertices.  I.e. in-degree = out-degree
    = 1 at every vertex — the premise of `collect_closed`. -/
theorem grid_degree_one (w h : Nat) (s : Nat → Nat → Bool) (hb : BoundaryUniform w h s) :
    (∀ v, isVertex T w h s v →
      ((gridSegs T w h s).map Prod.fst).count v = 1 ∧
      ((gridSegs T w h s).map Prod.snd).count v = 1) ∧
    (∀ e ∈ gridSegs T w h s, isVertex T w h s e.1 ∧ isVertex T w h s e.2) :=
  degree_one_of_calls (cs := calls GT w h) hb (nodup_calls w h) (fun _ => Iff.rfl)

/-- **grid_contours_closed.** Composition with `collect_closed`: on every uniform grid with a
    uniform outer ring, every polyline that `Contours::collect` returns for the emitted segments
    (vertices numbered injectively by `vid`) is closed (`front == back`, ≥ 2 points) and a simple
    cycle, and the polylines use every emitted segment exactly once.  No end point dangles. -/
theorem grid_contours_closed (w h : Nat) (s : Nat → Nat → Bool) (hb : BoundaryUniform w h s) :
    (∀ p ∈ collect (natSegs T w h s), closed p = true ∧ p.dropLast.Nodup) ∧
    ((collect (natSegs T w h s)).flatMap pairs).Perm (natSegs T w h s) := by
  obtain ⟨h1, h2, h3⟩ :=
    collect_hyps_of_calls (cs := calls GT w h) hb (nodup_calls w h) (fun _ => Iff.rfl)
  exact collect_closed _ h1 h2 h3

/-- **dual_walk_calls.** The recursive `Dual<2>::work` / `edge2` walk over the complete quadtree
    of depth `d` makes exactly the calls of the uniform 2^d × 2^d grid: every pair of cells
    sharing a grid edge, exactly once (a permutation of `calls`). -/
theorem dual_walk_calls (d : Nat) : (dualCalls T d 0 0).Perm (calls T (2 ^ d) (2 ^ d)) :=
  dualCalls_perm d

/-- **walk_degree_one.** `grid_degree_one` for the segments in the order in which the recursive
    dual walk of the complete quadtree of depth `d` pushes them. -/
theorem walk_degree_one (d : Nat) (s : Nat → Nat → Bool) (hb : BoundaryUniform (2 ^ d) (2 ^ d) s) :
    (∀ v, isVertex T (2 ^ d) (2 ^ d) s v →
      ((segsOf T s (dualCalls T d 0 0)).map Prod.fst).count v = 1 ∧
      ((segsOf T s (dualCalls T d 0 0)).map Prod.snd).count v = 1) ∧
    (∀ e ∈ segsOf T s (dualCalls T d 0 0),
      isVertex T (2 ^ d) (2 ^ d) s e.1 ∧ isVertex T (2 ^ d) (2 ^ d) s e.2) :=
  degree_one_of_calls (cs := dualCalls GT d 0 0) hb nodup_dualCalls (fun _ => mem_dualCalls_root)

/-- **walk_contours_closed.** `grid_contours_closed` for the brane order of the recursive walk. -/
theorem walk_contours_closed (d : Nat) (s : Nat → Nat → Bool)
    (hb : BoundaryUniform (2 ^ d) (2 ^ d) s) :
    (∀ p ∈ collect (toNatSegs (2 ^ d) (segsOf T s (dualCalls T d 0 0))),
      closed p = true ∧ p.dropLast.Nodup) ∧
    ((collect (toNatSegs (2 ^ d) (segsOf T s (dualCalls T d 0 0)))).flatMap pairs).Perm
      (toNatSegs (2 ^ d) (segsOf T s (dualCalls T d 0 0))) := by
  obtain ⟨h1, h2, h3⟩ :=
    collect_hyps_of_calls (cs := dualCalls GT d 0 0) hb nodup_dualCalls (fun _ => mem_dualCalls_root)
  exact collect_closed _ h1 h2 h3

/-! ### the hypotheses are satisfiable / the statements are not vacuous -/

/-- a 3×3 grid (4×4 corners): corners (1,1) and (2,2) filled, everything else — in particular the
    whole outer ring — empty.  The centre cell is the saddle mask 9 with two patches. -/
def exS : Nat → Nat → Bool := fun x y => (x == 1 && y == 1) || (x == 2 && y == 2)

example : BoundaryOutside 3 3 exS := by
  have h : ∀ x, x ≤ 3 → ∀ y, y ≤ 3 → (x = 0 ∨ x = 3 ∨ y = 0 ∨ y = 3) → exS x y = false := by decide
  exact fun x y hx hy => h x hx y hy
example : BoundaryUniform 3 3 exS := by
  have h : ∀ x, x ≤ 3 → ∀ y, y ≤ 3 → (x = 0 ∨ x = 3 ∨ y = 0 ∨ y = 3) → exS x y = exS 0 0 := by decide
  exact fun x y hx hy => h x hx y hy
-- the corner masks, row by row (bottom row first): seven ambiguous cells, the saddle in the middle
example : ((List.range 3).map fun j => (List.range 3).map fun i => cellMask T exS i j) =
    [[8, 4, 0], [2, 9, 4], [0, 2, 1]] := by decide +kernel
-- vertices exist, including the second patch of the saddle cell
example : isVertex T 3 3 exS ((1, 1), 1) ∧ isVertex T 3 3 exS ((0, 0), 0) ∧
    ¬ isVertex T 3 3 exS ((2, 0), 0) := by decide +kernel
-- 12 calls, 8 of them push a segment
example : (calls T 3 3).length = 12 := by decide +kernel
example : gridSegs T 3 3 exS =
    [(((0, 0), 0), ((1, 0), 0)), (((1, 1), 0), ((0, 1), 0)), (((1, 1), 1), ((2, 1), 0)),
     (((2, 2), 0), ((1, 2), 0)), (((0, 1), 0), ((0, 0), 0)), (((1, 0), 0), ((1, 1), 0)),
     (((1, 2), 0), ((1, 1), 1)), (((2, 1), 0), ((2, 2), 0))] := by decide +kernel
-- and `collect` welds them into two closed loops (one around each filled corner)
example : collect (natSegs T 3 3 exS) = [[0, 2, 8, 6, 0], [9, 10, 16, 14, 9]] := by decide +kernel
-- the recursive walk on the depth-1 quadtree: the four calls of `Dual<2>::work`
example : dualCalls T 1 0 0 =
    [⟨T.axisY, (0, 0), (1, 0)⟩, ⟨T.axisY, (0, 1), (1, 1)⟩,
     ⟨T.axisX, (0, 0), (0, 1)⟩, ⟨T.axisX, (1, 0), (1, 1)⟩] := by decide +kernel
-- a 4×4 grid walked recursively (depth 2): one filled corner in the middle gives one closed loop
example : collect (toNatSegs 4 (segsOf T (fun x y => x == 2 && y == 2) (dualCalls T 2 0 0))) =
    [[10, 12, 20, 18, 10]] := by decide +kernel
-- without the boundary hypothesis the statement fails: a filled corner ON the ring leaves an
-- open chain (the segment set has a vertex of out-degree 0)
example : collect (natSegs T 2 2 fun x y => x == 0 && y == 1) = [[0, 4]] := by decide +kernel

end Libfive.C10
