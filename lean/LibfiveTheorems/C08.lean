/-
  C08 — Saved shapes load back as the same shapes; the opcode numbering is pinned.
  Property theorems only; helper lemmas live in LibfiveProofs/Serialize.lean.
-/
import LibfiveModel.Op
import LibfiveModel.Serialize
import LibfiveProofs.Serialize
import LibfiveProofs.SerializeTree
import LibfiveProofs.SerializeArchive
import LibfiveProofs.SerializeDenote
import Generated.Opcodes

namespace Libfive.C08
open Libfive Libfive.Serial

/-! ## (T) the opcode table regenerated from /repo, against the pinned numbering -/

/-- entry for entry: every regenerated `(enumerator, code)` names a pinned opcode with that code,
    and every pinned opcode occurs (the order of the X-macro lines is free) -/
def tableMatches (t : List (String × Nat)) : Bool :=
  t.length == Op.all.length &&
  t.all (fun e => match Op.ofCName? e.1 with | some o => o.code == e.2 | none => false) &&
  Op.all.all (fun o => t.any (fun e => e.1 == o.cname && e.2 == o.code))

/-- **opcodes_pinned (T).** The `OPCODES` table of the current source equals the pinned on-disk
    numbering `Op.code` / `Op.cname`. -/
theorem opcodes_pinned : tableMatches Generated.Opcodes.table = true := by decide

/-- the enum as compiled is the table plus `LAST_OP` -/
theorem enum_is_table :
    Generated.Opcodes.enumerators = Generated.Opcodes.table ++ [("LAST_OP", Generated.Opcodes.lastOp)] := by
  decide

/-- **numbering_injective.** No two opcodes (pinned, hence regenerated) share a code or a name. -/
theorem numbering_injective :
    (Generated.Opcodes.table.map (·.2)).Nodup ∧ (Generated.Opcodes.table.map (·.1)).Nodup ∧
    (Op.all.map Op.code).Nodup := by decide

/-- every pinned opcode is found again from its code: `Op.code` is injective on the whole type -/
theorem ofCode_code (o : Op) : Op.ofCode? o.code = some o := by cases o <;> rfl

theorem code_injective (a b : Op) (h : a.code = b.code) : a = b := by
  have := ofCode_code a
  rw [h, ofCode_code b] at this
  exact (Option.some.inj this).symm

/-- **codes_below_reserved.** Every code is `< LAST_OP ≤ 254`, the `static_assert` of
    `Serializer::run` is still there with a bound below `END_OF_ITEM = 0xFF` (the only byte value
    the clause stream reserves), and the constants of the model are those of the source. -/
theorem codes_below_reserved :
    (Generated.Opcodes.table.all (fun e => e.2 < Generated.Opcodes.lastOp)) = true ∧
    Generated.Opcodes.lastOp ≤ 254 ∧
    Generated.Opcodes.lastOp ≤ Generated.Opcodes.staticAssertBound ∧
    Generated.Opcodes.staticAssertBound < Generated.Opcodes.endOfItem ∧
    Generated.Opcodes.endOfItem = END_OF_ITEM.toNat ∧
    Generated.Opcodes.lastOp = LAST_OP ∧
    Generated.Opcodes.tagFull = TAG_FULL.toNat ∧ Generated.Opcodes.tagRef = TAG_REF.toNat := by decide

/-- so the opcode byte of a clause can never be mistaken for `END_OF_ITEM` -/
theorem code_ne_end_of_item (o : Op) : UInt8.ofNat o.code ≠ END_OF_ITEM := by cases o <;> decide

def intArgs (o : Op) : Int := match o.args with | some k => k | none => -1

/-- `Opcode::args`, `isCommutative`, `isIdempotent` of the source agree with the model's tables on
    every case label, and every opcode has a case label -/
def switchMatches {β : Type} [BEq β] (t : List (String × β)) (f : Op → β) (lastOpVal : β) : Bool :=
  t.all (fun e => if e.1 == "LAST_OP" then e.2 == lastOpVal else
    match Op.ofCName? e.1 with | some o => f o == e.2 | none => false) &&
  Op.all.all (fun o => t.any (fun e => e.1 == o.cname))

/-- **args_pinned (T).** -/
theorem args_pinned : switchMatches Generated.Opcodes.args intArgs (-1) = true := by decide

theorem commutative_pinned : switchMatches Generated.Opcodes.commutative Op.isCommutative false = true := by
  decide

theorem idempotent_pinned : switchMatches Generated.Opcodes.idempotent Op.isIdempotent false = true := by
  decide

/-- **args_layout.** What the byte layout assumes about `Opcode::args`: `CONSTANT` and `ORACLE`
    carry no tree operands (their payload is the value / the oracle's own record), every other
    valid opcode has 0, 1 or 2 operands, and the operand-free ones are exactly the four variables. -/
theorem args_layout :
    Op.constant.args = some 0 ∧ Op.oracle.args = some 0 ∧
    (∀ o : Op, o ≠ Op.invalid → o.args = some 0 ∨ o.args = some 1 ∨ o.args = some 2) ∧
    (∀ o : Op, o.args = some 0 → o = .constant ∨ o = .oracle ∨ o = .varX ∨ o = .varY ∨ o = .varZ ∨ o = .varFree) := by
  refine ⟨rfl, rfl, ?_, ?_⟩
  · intro o h; cases o <;> simp_all [Op.args]
  · intro o h; cases o <;> simp_all [Op.args]

/-! ## strings -/

/-- **string_roundtrip.** For every byte string `s` (quotes, backslashes, empty, 0xFF, anything)
    and every continuation `rest`, reading back what `serializeString` wrote returns `s`, leaves the
    stream exactly at `rest` in good state, and prints nothing. -/
theorem string_roundtrip (s rest : List Byte) :
    readString { data := writeString s ++ rest, eof := false }
      = (s, { data := rest, eof := false }, []) :=
  readString_write s rest

example : readString { data := writeString [QUOTE, BACKSLASH, 0xFF, 0] ++ [7], eof := false }
    = ([QUOTE, BACKSLASH, 0xFF, 0], { data := [7], eof := false }, []) := by decide

/-- **word_roundtrip.** raw little-endian `uint32` / float bit patterns -/
theorem word_roundtrip (v : UInt32) (rest : List Byte) :
    IStream.readU32 { data := u32le v ++ rest, eof := false } = (some v, { data := rest, eof := false }) :=
  readU32_u32le v rest

/-! ## trees -/

/-- **tree_roundtrip.** For every heap of nodes, every order `w` in which nodes are offered to the
    serializer (in the code: `Tree::walk()`), every id table `ids` already filled by earlier shapes
    and every loader state whose table is an isomorphic copy of it (`Inv`): if the serializer gets
    through without `ids.at` throwing, and every offered node is a fixed point of the loader's
    `Tree::unary/binary` (`nodePlain`), then the loader's clause loop reads exactly the bytes written
    plus the `END_OF_ITEM`, prints nothing, only *appends* to its table and heap, and the enlarged
    table is again an isomorphic copy of the enlarged id table: position by position the same opcode,
    the same constant bits, operands at the same positions (`NodeMatch`), and two positions hold the
    same loaded node only if they are the same position (`Inv.inj`: sharing is preserved exactly).

    Load-time simplification is excluded by hypothesis rather than modelled in the theorem: trees
    built through libfive's API are already fixed points (checked on every generated archive by the
    driver, `hyp … canon`). -/
theorem tree_roundtrip (F : Folder) (heap : NodeId → Node) (hax : AxesUnique heap)
    (w ids ids' : List NodeId) (bytes rest : List Byte)
    (trees : List NodeId) (lheap : List Node) (log : List Err) (fuel : Nat)
    (hser : serNodes heap ids w = .ok (bytes, ids'))
    (hplain : ∀ n ∈ w, nodePlain heap n = true) (hsize : ids'.length < 4294967296)
    (hinv : Inv heap ids lheap trees) (hfuel : bytes.length + 1 ≤ fuel) :
    ∃ (te : List NodeId) (le : List Node),
      clauseLoop F fuel ⟨⟨bytes ++ END_OF_ITEM :: rest, false⟩, trees, lheap, log⟩
        = .ok (false, ⟨⟨rest, false⟩, trees ++ te, lheap ++ le, log⟩) ∧
      Inv heap ids' (lheap ++ le) (trees ++ te) :=
  clauseLoop_serNodes F heap hax w ids ids' bytes rest trees lheap log fuel hser hplain hsize hinv hfuel

theorem nodup_of_check : ∀ (l : List NodeId), nodupB l = true → l.Nodup
  | [], _ => List.nodup_nil
  | a :: r, h => by
    simp only [nodupB, Bool.and_eq_true, Bool.not_eq_true', List.contains_eq_mem, decide_eq_false_iff_not] at h
    exact List.nodup_cons.mpr ⟨h.1, nodup_of_check r h.2⟩

/-- the executable hypothesis check implies the hypothesis -/
theorem shapeOK_of_check (heap : NodeId → Node) (fuel : Nat) (s : Shape) (h : shapeOKb heap fuel s = true) :
    ShapeOK heap fuel s := by
  simp only [shapeOKb, Bool.and_eq_true, List.all_eq_true, rootLastB, beq_iff_eq,
    Bool.not_eq_true', List.contains_eq_mem, decide_eq_false_iff_not] at h
  obtain ⟨⟨h1, h2⟩, h3, h4⟩ := h
  refine ⟨nodup_of_check _ h1, h2, (walk heap fuel s.tree).dropLast, ?_, h4⟩
  exact eq_dropLast_append _ _ h3

/-! ## archives -/

/-- **archive_roundtrip.** For every archive — any number of shapes, any names, docs and variable
    names (any bytes), roots that repeat or are sub-expressions of earlier shapes (`'t'` references),
    any sharing, any subset of variables named (keys of the `std::map` distinct) — whose nodes are
    fixed points of the loader's constructors, whose walks end in their root, and which has fewer
    than 2^32 nodes: `Archive::deserialize (Archive::serialize a)` succeeds, prints nothing, consumes
    the stream to the end, and returns as many shapes in the same order (`AllMatch … ShapeMatch`):
    same name, same doc, root = the loader's copy of the original root (same stream position), and
    variable map = `varsOf`: every named variable that is in the id table when the shape is written
    (in particular every one that occurs in the shape's tree), bound under its name to the loader's
    copy of that variable; in a heap that is an isomorphic copy (`Inv`) of the stored DAG, hence with
    the same denotation (`roundtrip_same_denotation`).

    Still by hypothesis rather than modelled in the theorem: load-time simplification (`nodePlain`;
    trees built through the API are fixed points — checked on every generated archive), the order
    property of `Tree::walk` (`RootLast`, operands before parents = `serShapes` succeeds; both
    checked on every run).  ORACLE clauses are outside the model. -/
theorem archive_roundtrip (F : Folder) (heap : NodeId → Node) (hax : AxesUnique heap) (fuelW : Nat)
    (shapes : List Shape) (bytes : List Byte) (ids' : List NodeId)
    (hser : serShapes heap fuelW [] shapes = .ok (bytes, ids'))
    (hok : ∀ s ∈ shapes, ShapeOK heap fuelW s) (hsize : ids'.length < 4294967296) :
    ∃ (lshapes : List LShape) (st : DState),
      deserialize F bytes = .ok (lshapes, st) ∧ st.log = [] ∧ st.inp = ⟨[], true⟩ ∧
      Inv heap ids' st.heap st.trees ∧ AllMatch (ShapeMatch ids' st.trees) shapes lshapes := by
  obtain ⟨ie, te, le, lshapes, _, hread, hinv, hm⟩ :=
    readShapes_serShapes F heap hax fuelW shapes [] ids' bytes [] heap0 [] (bytes.length + 1)
      hser hok hsize (Inv.init heap) (Nat.le_refl _)
  exact ⟨lshapes, _, hread, rfl, rfl, by simpa using hinv, by simpa using hm⟩

/-- **archive_roundtrip_flat.** The same for shapes whose trees may still contain remap/apply:
    the (fixed) serializer stores `flat s.tree` = `s.tree.flatten()`, so the archive loads back as
    the archive of the flattened shapes.  That flattening preserves the function is C07
    (`Libfive.flatten_sound`); nothing about `flat` is assumed here. -/
theorem archive_roundtrip_flat (F : Folder) (heap : NodeId → Node) (flat : NodeId → NodeId)
    (hax : AxesUnique heap) (fuelW : Nat) (shapes : List Shape) (bytes : List Byte)
    (hser : serializeFlat heap flat fuelW shapes = .ok bytes)
    (hok : ∀ s ∈ shapes, ShapeOK heap fuelW { s with tree := flat s.tree })
    (hsize : ∀ b ids', serShapes heap fuelW [] (shapes.map fun s => { s with tree := flat s.tree }) = .ok (b, ids') →
      ids'.length < 4294967296) :
    ∃ (ids' : List NodeId) (lshapes : List LShape) (st : DState),
      deserialize F bytes = .ok (lshapes, st) ∧ st.log = [] ∧ st.inp = ⟨[], true⟩ ∧
      Inv heap ids' st.heap st.trees ∧
      AllMatch (ShapeMatch ids' st.trees) (shapes.map fun s => { s with tree := flat s.tree }) lshapes := by
  simp only [serializeFlat, serialize] at hser
  cases h : serShapes heap fuelW [] (shapes.map fun s => { s with tree := flat s.tree }) with
  | error e => simp [h] at hser
  | ok r =>
    obtain ⟨b, ids'⟩ := r
    simp only [h] at hser
    injection hser with hb
    subst hb
    obtain ⟨ls, st, h1, h2, h3, h4, h5⟩ := archive_roundtrip F heap hax fuelW _ b ids' h
      (by intro s hs; obtain ⟨s0, hs0, rfl⟩ := List.mem_map.mp hs; exact hok s0 hs0) (hsize b ids' h)
    exact ⟨ids', ls, st, h1, h2, h3, h4, h5⟩

/-! ### the hypotheses are satisfiable: min(x*y, x+1) saved twice (second time by reference), its
    sub-expression x+1, and min(..) - v with v named `"\xff\\` plus a named variable that is not in
    the tree, with adversarial names -/

def exHeap : NodeId → Node := fun i =>
  match i with
  | 0 => { op := .varX } | 1 => { op := .varY } | 2 => { op := .constant, value := 0x3f800000 }
  | 3 => { op := .mul, lhs := 0, rhs := 1 } | 4 => { op := .add, lhs := 0, rhs := 2 }
  | 5 => { op := .min, lhs := 3, rhs := 4 }
  | 6 => { op := .varFree } | 7 => { op := .sub, lhs := 5, rhs := 6 }
  | _ => { op := .invalid }

def exShapes : List Shape :=
  [{ tree := 5, name := [QUOTE, BACKSLASH, 0xFF], doc := [], vars := [] },
   { tree := 5, name := [0x61], doc := [BACKSLASH], vars := [] },
   { tree := 4, name := [], doc := [QUOTE], vars := [] },
   { tree := 7, name := [0x62], doc := [], vars := [(6, [QUOTE, 0xFF, BACKSLASH]), (99, [0x7a])] }]

theorem exAxes : AxesUnique exHeap := by
  intro a b h hx
  have key : ∀ i, ((exHeap i).op = Op.varX ↔ i = 0) ∧ ((exHeap i).op = Op.varY ↔ i = 1) ∧ (exHeap i).op ≠ Op.varZ := by
    intro i
    match i with
    | 0 | 1 | 2 | 3 | 4 | 5 | 6 | 7 => simp [exHeap]
    | k + 8 => simp [exHeap]
  rcases hx with e | e | e
  · have h1 := (key a).1.mp e; have h2 := (key b).1.mp (h ▸ e); rw [h1, h2]
  · have h1 := (key a).2.1.mp e; have h2 := (key b).2.1.mp (h ▸ e); rw [h1, h2]
  · exact absurd e (key a).2.2

example : ∃ bytes ids', serShapes exHeap 8 [] exShapes = .ok (bytes, ids') ∧
    (∀ s ∈ exShapes, ShapeOK exHeap 8 s) ∧ ids'.length < 4294967296 ∧ AxesUnique exHeap := by
  refine ⟨_, _, rfl, ?_, by decide, exAxes⟩
  intro s hs
  apply shapeOK_of_check
  simp only [exShapes, List.mem_cons, List.not_mem_nil, or_false] at hs
  rcases hs with rfl | rfl | rfl | rfl <;> decide

/-- **roundtrip_same_denotation.** What the isomorphism of `tree_roundtrip` /
    `archive_roundtrip_partial` means for functions: under *every* interpretation of the opcodes
    (constants by bit pattern, x/y/z and free variables by stream position — the only identity a
    free variable has in a file), the original node stored at position `p` and the loader's node at
    position `p` unfold to the same value, to every depth. -/
theorem roundtrip_same_denotation {α : Type} (I : Interp α) (heap : NodeId → Node)
    (ids trees : List NodeId) (lheap : List Node) (hinv : Inv heap ids lheap trees)
    (depth p : Nat) (n m : NodeId) (hn : ids[p]? = some n) (hm : trees[p]? = some m) :
    evalAt I heap (posOf ids) depth n = evalAt I (hget lheap) (posOf trees) depth m :=
  evalAt_copy I hinv depth p n m hn hm

example : Inv exHeap [] heap0 [] := Inv.init exHeap

/-! ### the archive that did not load before fix 38f63f2 -/

def witnessHeap : NodeId → Node := fun i =>
  match i with
  | 0 => { op := .varX } | 1 => { op := .varFree } | 2 => { op := .add, lhs := 0, rhs := 1 }
  | _ => { op := .invalid }

/-- `x + v` with `v` named "r" -/
def witnessShapes : List Shape := [{ tree := 2, name := [0x6e], doc := [0x64], vars := [(1, [0x72])] }]

def witnessBytes : List Byte :=
  [0x54, 0x22, 0x6e, 0x22, 0x22, 0x64, 0x22, 0x02, 0x05, 0x11, 1, 0, 0, 0, 0, 0, 0, 0, 0xff,
   0x22, 0x72, 0x22, 1, 0, 0, 0, 0xff]

/-- **archive_roundtrip_failed_before_fix.** With the variable loop as it was before 38f63f2
    (`varLoopOld`: the END_OF_ITEM test consumed a byte) the archive `x + v`, `v` named "r" — which
    satisfies every hypothesis of `archive_roundtrip` — did not load back: for every folder the
    reader took the opening quote for the test byte, complained twice and went on by dereferencing
    `trees.end()`.  (Corpus case `w-var` replays it on the real code, where it must now pass.) -/
theorem archive_roundtrip_failed_before_fix :
    serialize witnessHeap 8 witnessShapes = .ok witnessBytes ∧
    ∀ F : Folder, deserializeOld F witnessBytes = .error (Stop.indeterminate, [Err.strOpen, Err.varIdx]) := by
  refine ⟨rfl, ?_⟩
  intro F
  rfl

/-- … and with the reader as it is now it does: `v` comes back as node 5 of the loader's heap
    (`heap0` has 4 singletons, `x` is one of them, then `v`, then `x + v`), named "r" -/
example : ∀ F : Folder, ∃ st, deserialize F witnessBytes
    = .ok ([{ tree := 5, name := [0x6e], doc := [0x64], vars := [(4, [0x72])] }], st) ∧ st.log = [] := by
  intro F
  exact ⟨_, rfl, rfl⟩

end Libfive.C08
