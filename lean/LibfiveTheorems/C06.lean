/-
  C06 — Gradients are the derivatives of the evaluated function.
  Property theorems only; helper lemmas live in LibfiveProofs/Deriv.lean and
  LibfiveProofs/Feature.lean.  Model: LibfiveModel/Deriv.lean (the kernels of
  eval_deriv_array.cpp, the packing of eval_jacobian.cpp, the feature walk of eval_feature.cpp).
-/
import LibfiveProofs.Deriv
import LibfiveProofs.Feature

namespace Libfive.C06
open Libfive Libfive.DerivR

/-- Domain side condition of each opcode's chain rule: the clause is differentiable there and the
    kernel of eval_deriv_array.cpp is meant to be its derivative.  Leaves, ORACLE and INVALID have
    no kernel (`False`).  `pow`, `nth-root` and `mod` need a position-independent second operand
    (the kernels drop `bd`). -/
def Dom (op : Op) (a b : ℝ → ℝ) (t : ℝ) : Prop :=
  match op with
  | .add | .sub | .mul | .neg | .square | .sin | .cos | .atan | .exp | .nanfill | .constVar => True
  | .div => b t ≠ 0
  | .recip => a t ≠ 0
  | .min | .max | .compare => a t ≠ b t
  | .abs => a t ≠ 0
  | .sqrt => 0 < a t
  | .log => 0 < a t
  | .tan => Real.cos (a t) ≠ 0
  | .asin | .acos => -1 < a t ∧ a t < 1
  | .pow => ∃ n : ℤ, (∀ s, b s = n) ∧ (a t ≠ 0 ∨ 0 ≤ n)
  -- positive base, or negative base with an odd natural root index (kernel fixed in 426a6f0)
  | .nthRoot => ∃ c : ℝ, c ≠ 0 ∧ (∀ s, b s = c) ∧ (0 < a t ∨ (a t < 0 ∧ ∃ k : ℕ, c = 2 * (k : ℝ) + 1))
  | .mod => ∃ c : ℝ, c ≠ 0 ∧ (∀ s, b s = c) ∧ ∀ k : ℤ, a t / c ≠ k
  | .atan2 => 0 < b t ∨ a t ≠ 0
  | _ => False

/-- **kernel_hasDerivAt.** For every opcode: if the operands have derivatives `a'`, `b'` at `t`
    and the opcode's side condition holds, then `s ↦ op (a s) (b s)` has at `t` exactly the
    derivative the model kernel `dk` computes from the operand values, the clause's own value and
    `a'`, `b'`.  (`cv` is the `clear_vars` flag; it only matters for CONST_VAR.) -/
theorem kernel_hasDerivAt (cv : Bool) (op : Op) (a b : ℝ → ℝ) (a' b' t : ℝ)
    (ha : HasDerivAt a a' t) (hb : HasDerivAt b b' t) (hd : Dom op a b t)
    (hcv : op = Op.constVar → cv = false) :
    HasDerivAt (fun s => evR op (a s) (b s))
      (dk RO cv op (a t) (b t) (evR op (a t) (b t)) a' b') t := by
  cases op with
  | add => exact k_add cv _ ha hb
  | sub => exact k_sub cv _ ha hb
  | mul => exact k_mul cv _ ha hb
  | div => exact k_div cv _ ha hb hd
  | neg => exact k_neg cv _ ha
  | square => exact k_square cv _ ha
  | recip => exact k_recip cv _ ha hd
  | min => exact k_min cv _ ha hb hd
  | max => exact k_max cv _ ha hb hd
  | compare => exact k_compare cv _ ha hb hd
  | abs => exact k_abs cv _ ha hd
  | nanfill => exact k_nanfill cv _ ha
  | constVar => rw [hcv rfl]; exact k_constVar _ ha
  | sqrt => exact k_sqrt cv ha (ne_of_gt hd)
  | sin => exact k_sin cv _ ha
  | cos => exact k_cos cv _ ha
  | exp => exact k_exp cv _ ha
  | log => exact k_log cv _ ha hd
  | tan => exact k_tan cv _ ha hd
  | asin => exact k_asin cv _ ha hd.1 hd.2
  | acos => exact k_acos cv _ ha hd.1 hd.2
  | atan => exact k_atan cv _ ha
  | pow => obtain ⟨n, h1, h2⟩ := hd; exact k_pow cv _ ha n h1 h2
  | nthRoot => obtain ⟨c, h1, h2, h3⟩ := hd; exact k_nthRoot cv _ ha c h1 h2 h3
  | mod => obtain ⟨c, h1, h2, h3⟩ := hd; exact k_mod cv _ ha c h1 h2 h3
  | atan2 => exact k_atan2 cv _ ha hb hd
  | invalid => exact hd.elim
  | constant => exact hd.elim
  | varX => exact hd.elim
  | varY => exact hd.elim
  | varZ => exact hd.elim
  | varFree => exact hd.elim
  | oracle => exact hd.elim

/-- **tape_gradient.** For a well-formed tape and a one-parameter family of leaf environments
    `env s` whose leaf slots have derivatives `denv` at `s0`: if every clause satisfies its side
    condition at `s0`, then every slot's value, as a function of `s`, has at `s0` the derivative that
    `DerivArrayEvaluator::derivs` computes in the lane seeded with `denv` (`clear_vars = false`). -/
theorem tape_gradient (orc : Nat → ℝ) (t : List Clause) (env : ℝ → Nat → ℝ) (denv : Nat → ℝ) (s0 : ℝ)
    (hwf : WF t) (hno : ∀ c ∈ t, c.op ≠ Op.oracle)
    (hleaf : ∀ k, k ∉ ids t → HasDerivAt (fun s => env s k) (denv k) s0)
    (hdom : ∀ c ∈ t, Dom c.op (fun s => evalList evR orc t (env s) c.a)
                              (fun s => evalList evR orc t (env s) c.b) s0) :
    ∀ k, HasDerivAt (fun s => evalList evR orc t (env s) k)
      (derivRow RO false (evalList evR orc t (env s0)) t denv k) s0 := by
  intro k
  have hE : ∀ v, evalList evR orc t v = evalListG (fun c => evR c.op) t v :=
    fun v => (evalListG_eq_evalList evR orc t hno v).symm
  simp only [hE] at hdom ⊢
  refine tape_gradient_aux (fun c => evR c.op) false env denv s0 _ t (fun _ => False) hwf hno
    (fun j hj _ => hleaf j hj) (fun _ _ => ⟨id, id⟩) (fun _ _ => ⟨rfl, rfl, rfl⟩) ?_ k id
  intro c hc A' B' hA hB
  exact kernel_hasDerivAt false c.op _ _ A' B' s0 hA hB (hdom c hc) (fun _ => rfl)

/-- moving one leaf slot: `p` with slot `slot` replaced by `p slot + s` -/
def shift (p : Nat → ℝ) (slot : Nat) (s : ℝ) : Nat → ℝ := upd p slot (p slot + s)

theorem shift_hasDerivAt (p : Nat → ℝ) (slot k : Nat) :
    HasDerivAt (fun s => shift p slot s k) (if k = slot then 1 else 0) 0 := by
  by_cases h : k = slot
  · subst h
    simp only [shift, upd_same, if_true]
    exact (hasDerivAt_id (0 : ℝ)).const_add (p k)
  · simp only [shift, upd_other _ _ _ _ h, if_neg h]
    exact hasDerivAt_const _ _

theorem shift_zero (p : Nat → ℝ) (slot : Nat) : shift p slot 0 = p := by
  funext k
  by_cases h : k = slot
  · subst h; simp [shift]
  · simp [shift, upd_other _ _ _ _ h]

/-- the constructor's seed rows are the unit vectors of the three coordinate slots -/
theorem spatialSeed_axis (X Y Z : Nat) (hXY : X ≠ Y) (hYZ : Y ≠ Z) (hXZ : X ≠ Z) :
    spatialSeed RO X Y Z 0 = (fun k => if k = X then 1 else 0) ∧
    spatialSeed RO X Y Z 1 = (fun k => if k = Y then 1 else 0) ∧
    spatialSeed RO X Y Z 2 = (fun k => if k = Z then 1 else 0) := by
  refine ⟨?_, ?_, ?_⟩ <;> funext k <;> simp [spatialSeed, RO]

/-- **tape_gradient, spatial form.** The three rows `d(root).row(r)` returned by `deriv(p)` are the
    partial derivatives of the tape's value w.r.t. x, y, z (slots X, Y, Z) at `p`. -/
theorem spatial_gradient (orc : Nat → ℝ) (t : List Clause) (p : Nat → ℝ) (X Y Z root : Nat)
    (hXY : X ≠ Y) (hYZ : Y ≠ Z) (hXZ : X ≠ Z)
    (hwf : WF t) (hno : ∀ c ∈ t, c.op ≠ Op.oracle)
    (hdom : ∀ slot, ∀ c ∈ t, Dom c.op (fun s => evalList evR orc t (shift p slot s) c.a)
                              (fun s => evalList evR orc t (shift p slot s) c.b) 0) :
    HasDerivAt (fun s => evalList evR orc t (shift p X s) root)
      (derivRow RO false (evalList evR orc t p) t (spatialSeed RO X Y Z 0) root) 0 ∧
    HasDerivAt (fun s => evalList evR orc t (shift p Y s) root)
      (derivRow RO false (evalList evR orc t p) t (spatialSeed RO X Y Z 1) root) 0 ∧
    HasDerivAt (fun s => evalList evR orc t (shift p Z s) root)
      (derivRow RO false (evalList evR orc t p) t (spatialSeed RO X Y Z 2) root) 0 := by
  obtain ⟨e0, e1, e2⟩ := spatialSeed_axis X Y Z hXY hYZ hXZ
  rw [e0, e1, e2]
  refine ⟨?_, ?_, ?_⟩
  · have := tape_gradient orc t (shift p X) _ 0 hwf hno (fun k _ => shift_hasDerivAt p X k) (hdom X) root
    rwa [shift_zero] at this
  · have := tape_gradient orc t (shift p Y) _ 0 hwf hno (fun k _ => shift_hasDerivAt p Y k) (hdom Y) root
    rwa [shift_zero] at this
  · have := tape_gradient orc t (shift p Z) _ 0 hwf hno (fun k _ => shift_hasDerivAt p Z k) (hdom Z) root
    rwa [shift_zero] at this

/-! ### Jacobian evaluator -/

/-- **jacobian_packing (bijection).** `i ↦ (i / 3N, (i mod 3N) mod 3, (i mod 3N) / 3)` maps variable
    numbers onto (pass, row < 3, column < N) lanes and `jacIndex` is its two-sided inverse; in
    particular within one pass `[0, 3N)` it is a bijection onto the 3 × N seed slots. -/
theorem jacobian_packing_bijection (N : Nat) (hN : 0 < N) :
    (∀ i, (jacSlot N i).2.1 < 3 ∧ (jacSlot N i).2.2 < N ∧ jacIndex N (jacSlot N i) = i) ∧
    (∀ p r c, r < 3 → c < N → jacSlot N (jacIndex N (p, r, c)) = (p, r, c)) ∧
    (∀ i, i < 3 * N → (jacSlot N i).1 = 0) := by
  have hL : 0 < 3 * N := by omega
  refine ⟨?_, ?_, ?_⟩
  · intro i
    simp only [jacSlot, jacIndex, jacLanes]
    have h1 : i % (3 * N) < 3 * N := Nat.mod_lt _ hL
    refine ⟨Nat.mod_lt _ (by omega), ?_, ?_⟩
    · omega
    · have h2 := Nat.div_add_mod i (3 * N)
      have h3 := Nat.div_add_mod (i % (3 * N)) 3
      rw [Nat.mul_comm (i / (3 * N))]
      omega
  · intro p r c hr hc
    simp only [jacSlot, jacIndex, jacLanes]
    have hm : 3 * c + r < 3 * N := by omega
    have e1 : (p * (3 * N) + (3 * c + r)) / (3 * N) = p := by
      rw [Nat.mul_comm p, Nat.mul_add_div hL, Nat.div_eq_of_lt hm, Nat.add_zero]
    have e2 : (p * (3 * N) + (3 * c + r)) % (3 * N) = 3 * c + r := by
      rw [Nat.mul_comm p, Nat.mul_add_mod, Nat.mod_eq_of_lt hm]
    rw [e1, e2]
    have e3 : (3 * c + r) % 3 = r := by omega
    have e4 : (3 * c + r) / 3 = c := by omega
    rw [e3, e4]
  · intro i hi
    simp only [jacSlot, jacLanes]
    exact Nat.div_eq_of_lt hi

/-- **jacobian_packing (seeding).** The lane that holds variable `i` is seeded with the unit
    derivative of that variable's slot and zero everywhere else — including the X, Y, Z slots,
    which `run()` clears. -/
theorem jacobian_seed_unit (N : Nat) (hN : 0 < N) (vars : Array Nat) (i : Nat) (hi : i < vars.size) :
    jacSeed RO N vars (jacSlot N i) = fun slot => if slot = vars[i] then 1 else 0 := by
  obtain ⟨h1, h2, h3⟩ := (jacobian_packing_bijection N hN).1 i
  funext slot
  simp only [jacSeed, h1, h2, h3, true_and, RO]
  rw [Array.getElem?_eq_getElem hi]
  by_cases h : slot = vars[i]
  · simp [h]
  · have : ¬ (some vars[i] = some slot) := fun e => h (Option.some.inj e).symm
    simp [h, this]

/-- value semantics seen by d/dvar: CONST_VAR clauses are barriers held at their value -/
noncomputable def evalBarrier (frozen : Nat → ℝ) (t : List Clause) (v : Nat → ℝ) : Nat → ℝ :=
  evalListG (gCV evR frozen) t v

/-- the barrier semantics is the ordinary one at the point where it was frozen -/
theorem evalBarrier_self (orc : Nat → ℝ) (v : Nat → ℝ) :
    ∀ (t : List Clause) (frozen : Nat → ℝ), WF t → (∀ c ∈ t, c.op ≠ Op.oracle) →
      (∀ c ∈ t, c.op = Op.constVar → frozen c.id = evalList evR orc t v c.id) →
      evalBarrier frozen t v = evalList evR orc t v := by
  intro t
  induction t with
  | nil => intro _ _ _ _; rfl
  | cons c rest ih =>
    intro frozen hwf hno hfr
    obtain ⟨_, hnotin, _, _, hwf'⟩ := hwf
    have hc := hno c (List.mem_cons_self ..)
    have ih' := ih frozen hwf' (fun d hd => hno d (List.mem_cons_of_mem _ hd)) (by
      intro d hd hop
      have hne : d.id ≠ c.id := by
        intro h; apply hnotin; rw [← h]; exact List.mem_map_of_mem hd
      rw [hfr d (List.mem_cons_of_mem _ hd) hop]
      simp only [evalList]
      exact upd_other _ _ _ _ hne)
    unfold evalBarrier at ih' ⊢
    simp only [evalListG, evalList, evalClause, hc, if_false, ih']
    by_cases hop : c.op = Op.constVar
    · have := hfr c (List.mem_cons_self ..) hop
      simp only [evalList, upd_same, evalClause, hc, if_false] at this
      simp only [gCV, hop, if_true, this]
    · simp only [gCV, hop, if_false]

/-- **jacobian_packing (result).** Entry `i` of `JacobianEvaluator::gradient` is the partial
    derivative, w.r.t. the variable stored in slot `vars[i]`, of the tape's value with every
    CONST_VAR clause acting as a barrier: `clear_vars` zeroes exactly the derivatives that flow
    through CONST_VAR, X/Y/Z seeds are cleared, and all other clauses obey the chain rule. -/
theorem jacobian_gradient (N : Nat) (hN : 0 < N) (vars : Array Nat) (t : List Clause) (p : Nat → ℝ)
    (frozen : Nat → ℝ) (root i : Nat) (hi : i < vars.size)
    (hwf : WF t) (hno : ∀ c ∈ t, c.op ≠ Op.oracle)
    (hdom : ∀ c ∈ t, c.op ≠ Op.constVar →
      Dom c.op (fun s => evalBarrier frozen t (shift p vars[i] s) c.a)
               (fun s => evalBarrier frozen t (shift p vars[i] s) c.b) 0) :
    (jacGradient RO N vars (evalBarrier frozen t p) t root)[i]? =
      some (derivRow RO true (evalBarrier frozen t p) t (fun slot => if slot = vars[i] then 1 else 0) root) ∧
    HasDerivAt (fun s => evalBarrier frozen t (shift p vars[i] s) root)
      (derivRow RO true (evalBarrier frozen t p) t (fun slot => if slot = vars[i] then 1 else 0) root) 0 := by
  constructor
  · simp only [jacGradient, List.getElem?_map, List.getElem?_range hi, Option.map_some,
      jacobian_seed_unit N hN vars i hi]
  · have := tape_gradient_aux (gCV evR frozen) true (shift p vars[i]) (fun slot => if slot = vars[i] then 1 else 0)
      0 (evalBarrier frozen t (shift p vars[i] 0)) t (fun _ => False) hwf hno
      (fun k _ _ => shift_hasDerivAt p vars[i] k) (fun _ _ => ⟨id, id⟩) (fun _ _ => ⟨rfl, rfl, rfl⟩) (by
        intro c hc A' B' hA hB
        by_cases hop : c.op = Op.constVar
        · simp only [gCV, hop, if_true, dk]
          exact hasDerivAt_const _ _
        · have h := kernel_hasDerivAt true c.op _ _ A' B' 0 hA hB (hdom c hc hop) (fun h => absurd h hop)
          simpa only [gCV, hop, if_false] using h) root id
    rw [shift_zero] at this
    exact this

/-- CONST_VAR in the Jacobian evaluator: the clause's derivative lane is exactly zero whatever its
    operand's derivative is; outside (`clear_vars = false`) it passes the operand's lane unchanged. -/
theorem constVar_kernel (av bv ov ad bd : ℝ) :
    dk RO true Op.constVar av bv ov ad bd = 0 ∧ dk RO false Op.constVar av bv ov ad bd = ad := by
  simp [dk, RO]

/-! ### features -/

variable {α : Type}

/-- **feature_is_branch_gradient.** For EVERY compatibility oracle `F` (the geometry of
    `Feature::push` is arbitrary) and every `dedup` that only keeps derivatives of existing elements,
    every feature at every slot has a derivative that is a *branch gradient*: the result of the
    kernels along the tape with one operand chosen at every tied min/max occurrence and the
    smaller/larger operand elsewhere (`BranchSet`).  No hypothesis on scratch remains: since
    aa9f57c / 3ea66fb both array-wise paths call `setCount(count)` and replicate the clause's own
    value row, so the model (`featUnary`, `featBinary`) reads no lane it did not compute.

    The selection is per occurrence (tree unfolding): the per-clause-consistent statement is false
    for the model and the code — the binary path merges epsilons without `Feature::check`
    (recorded finding C06:feature-binary-incompatible-merge). -/
theorem feature_is_branch_gradient (O : DOps α) (F : FeatOracle α) (dedup : List (Feat α) → List (Feat α))
    (hdedup : ∀ l, ∀ g ∈ dedup l, ∃ f ∈ l, g.deriv = f.deriv)
    (cv : Bool) (N simd : Nat) (v : Nat → α) (seed : Nat → V3 α) (t : List Clause) (st : FeatState α)
    (hinit : ∀ k, ∀ f ∈ st.f k, f.deriv = seed k) :
    ∀ k, ∀ f ∈ (featList O F dedup cv N simd v t st).f k, BranchSet O cv v seed t k f.deriv :=
  Libfive.FeatureProofs.featList_branch O F dedup hdedup cv N simd v seed t st hinit

/-- every lane the array-wise paths read back (`lane < count`) lies below the `count_simd` that
    `setCount(count)` establishes, i.e. was computed by the kernel call of the same `run()` -/
theorem used_lanes_computed (simd count lane : Nat) (h : lane < count) : lane < simdRound simd count := by
  unfold simdRound
  by_cases hs : simd = 0
  · simp [hs, h]
  · simp only [hs, if_false]
    have hpos : 0 < simd := Nat.pos_of_ne_zero hs
    have h1 := Nat.div_add_mod (count + simd - 1) simd
    have h2 := Nat.mod_lt (count + simd - 1) hpos
    rw [Nat.mul_comm] at h1
    omega

/-- `FeatureEvaluator::features` only reports derivatives of raw features -/
theorem features_subset (veq : V3 α → V3 α → Bool) (fs : List (Feat α)) :
    ∀ d ∈ uniqDerivs veq fs, ∃ f ∈ fs, d = f.deriv :=
  Libfive.FeatureProofs.uniqDerivs_subset veq fs

/-- **isInside_sign.** Whatever the features and the compatibility oracle are: if the value is
    strictly negative the point is inside, if strictly positive it is outside. -/
theorem isInside_sign (lt : α → α → Bool) (zero value : α) (normPos : V3 α → Bool)
    (negv : V3 α → V3 α) (check : Feat α → V3 α → Bool) (fs : List (Feat α))
    (hasym : lt value zero = true → lt zero value = false) :
    (lt value zero = true → isInsideM lt zero value normPos negv check fs = true) ∧
    (lt zero value = true → isInsideM lt zero value normPos negv check fs = false) := by
  constructor
  · intro h; simp [isInsideM, insideBySign, h]
  · intro h
    have : lt value zero = false := by
      cases h' : lt value zero with
      | false => rfl
      | true => rw [hasym h'] at h; exact absurd h (by simp)
    simp [isInsideM, insideBySign, h, this]

/-! ### the hypotheses are satisfiable -/

/-- `x * y` with slots x = 2, y = 3, clause 1 -/
def exTape : List Clause := [⟨Op.mul, 1, 2, 3⟩]

example : WF exTape := by
  refine ⟨by decide, by simp [ids], fun _ => ⟨by decide, by decide⟩, by simp, trivial⟩
example : ∀ c ∈ exTape, c.op ≠ Op.oracle := by simp [exTape]
example : ∀ c ∈ exTape, Dom c.op (fun _ => (0 : ℝ)) (fun _ => (0 : ℝ)) 0 := by simp [exTape, Dom]
-- d(x*y)/dx at (x, y) = (5, 7) is 7
example : derivRow RO false (fun k => if k = 2 then 5 else if k = 3 then 7 else 35) exTape
    (fun k => if k = 2 then 1 else 0) 1 = 7 := by
  simp [derivRow, exTape, dk, RO, upd]
example : jacSlot 256 770 = (1, 2, 0) := by decide
example : jacIndex 256 (1, 2, 0) = 770 := by decide
example : Dom Op.pow (fun s => s) (fun _ => ((3 : ℤ) : ℝ)) 0 := ⟨3, fun _ => rfl, Or.inr (by decide)⟩
example : Dom Op.nthRoot (fun s => s - 8) (fun _ => 3) 0 :=
  ⟨3, by norm_num, fun _ => rfl, Or.inr ⟨by norm_num, 1, by norm_num⟩⟩
example : Dom Op.mod (fun s => s + 1 / 2) (fun _ => 1) 0 := by
  refine ⟨1, one_ne_zero, fun _ => rfl, ?_⟩
  intro k h
  have h2 : ((1 : ℝ) / 2) = (k : ℝ) := by simpa using h
  have h3 : (2 : ℝ) * k = 1 := by linarith
  have h4 : (2 : ℤ) * k = 1 := by exact_mod_cast h3
  omega

end Libfive.C06
