/-
  C06 (extension) — Gradients at EXPRESSION level.
  Chain: expression `t` --(C07: flatten_sound / optimize_sound)--> optimised expression `o`
         --(C01: Deck.build, build_eval)--> tape --(C06: kernel_hasDerivAt along the tape)-->
         derivative lanes of `DerivArrayEvaluator::derivs` / `JacobianEvaluator::gradient`.
  Property theorems only; helper lemmas live in LibfiveProofs/DeckDeriv.lean.
-/
import LibfiveTheorems.C06
import LibfiveProofs.DeckDeriv

namespace Libfive.C06
open Libfive Expr Libfive.Deck Libfive.DerivR Libfive.Optimize Libfive.DeckDeriv

variable {C : Type} [DecidableEq C]

/-- The clause-level side condition `Dom` of `kernel_hasDerivAt` for the clause the deck emits for
    node `m`, read on the denotations of `m`'s operands along the curve of environments `γ`
    (leaves have no clause, hence no condition). -/
def NodeDom (cst : C → ℝ) (γ : ℝ → Env ℝ) (s0 : ℝ) (m : Expr C) : Prop := nodeDom Dom cst γ s0 m

omit [DecidableEq C] in
/-- **real_interp_is_evR.** The interpretation `IR` the expression-level theorems speak about is the
    one C06's value kernels implement: the point evaluator's reading of a clause under `IR` is `evR`. -/
theorem real_interp_is_evR (cst : C → ℝ) : evTape (IR cst) = evR := evTape_IR cst

/-- **real_interp_lawful.** The algebraic hypotheses of `optimize_sound` / `flatten_sound` are met by
    `IR` with exact real constants. -/
theorem real_interp_lawful : LawfulOpt KR (IR (fun c : ℝ => c)) := IR_lawful

/-- **deck_node_gradient (tape → every node, any curve).**  Let `flat` meet `walk()`'s
    specification, without oracle nodes.  For a curve of environments `γ` with velocity `d` at `s0`
    (coordinates and free variables may all move), if the side condition of every emitted clause
    holds, then the derivative pass over the deck's tape, seeded with the velocities of the leaves,
    leaves in the slot of EVERY node `m` the derivative of `s ↦ ⟦m⟧(γ s)`.  (`cv` = `clear_vars`; it
    must be off if the deck has CONST_VAR nodes.) -/
theorem deck_node_gradient (cst : C → ℝ) (cv : Bool) (flat : List (Expr C)) (root : Expr C)
    (hT : TopoFlat flat) (hA : ∀ m ∈ flat, nodeArity m) (hno : ∀ m ∈ flat, isOracle m = false)
    (hcv : ∀ a, un Op.constVar a ∈ flat → cv = false)
    (γ : ℝ → Env ℝ) (d : Env ℝ) (s0 : ℝ) (orc : Nat → ℝ) (hγ : CurveDeriv γ d s0)
    (hdom : ∀ m ∈ flat, NodeDom cst γ s0 m) (m : Expr C) (hm : m ∈ flat) :
    HasDerivAt (fun s => denote (IR cst) m (γ s))
      (derivRow RO cv (evalList evR orc (build flat root).t (slots0 (IR cst) (γ s0) flat))
        (build flat root).t (seed0 d flat) (idOf flat m)) s0 :=
  deck_gradient_aux Dom cv (fun op a b a' b' t ha hb hd hc => kernel_hasDerivAt cv op a b a' b' t ha hb hd hc)
    cst flat root hT hA hno hcv γ (seed0 d flat) s0 orc
    (fun k _ => slots0_hasDerivAt cst flat γ d s0 hγ k) hdom m hm

/-- the function the optimised expression denotes is the function of the original expression -/
theorem optimized_denote_eq {K : ConstOps C} (cst : C → ℝ) (L : LawfulOpt K (IR cst))
    (le : Expr C → Expr C → Bool) (t : Expr C) (hw : wellArity t) :
    denote (IR cst) (optimize K le (flatten K t)) = denote (IR cst) t := by
  funext e
  rw [Libfive.Optimize.optimize_sound L le _ e (wellArity_flatten K t hw),
    Libfive.flatten_sound L.toLawful t e hw]

/-- **deck_gradient_curve (expression → deck, any curve).**  For a tree `t` built through the API,
    `o = optimize (flatten t)` and `flat` a node list of `o`: along every differentiable curve of
    environments, the root lane of the derivative pass over `Deck.build flat o` is the derivative of
    the function of the ORIGINAL expression `t`. -/
theorem deck_gradient_curve {K : ConstOps C} (cst : C → ℝ) (L : LawfulOpt K (IR cst))
    (le : Expr C → Expr C → Bool) (t : Expr C) (hw : wellArity t)
    (flat : List (Expr C)) (hT : TopoFlat flat) (hA : ∀ m ∈ flat, nodeArity m)
    (hno : ∀ m ∈ flat, isOracle m = false) (hroot : optimize K le (flatten K t) ∈ flat)
    (γ : ℝ → Env ℝ) (d : Env ℝ) (s0 : ℝ) (orc : Nat → ℝ) (hγ : CurveDeriv γ d s0)
    (hdom : ∀ m ∈ flat, NodeDom cst γ s0 m) :
    let T := build flat (optimize K le (flatten K t))
    HasDerivAt (fun s => denote (IR cst) t (γ s))
      (derivRow RO false (evalList evR orc T.t (slots0 (IR cst) (γ s0) flat)) T.t (seed0 d flat) T.root) s0 := by
  intro T
  have h := deck_node_gradient cst false flat (optimize K le (flatten K t)) hT hA hno (fun _ _ => rfl)
    γ d s0 orc hγ hdom _ hroot
  rw [optimized_denote_eq cst L le t hw] at h
  exact h

/-- **deck_gradient_correct.**  For an expression `t` built through the tree API (`wellArity`),
    `o = optimize (flatten t)` (= `Tree::optimized()`), `flat` any node list of `o` meeting `walk()`'s
    specification and without oracles, `X Y Z` the deck's axis slots, and a point `e`
    (coordinates and values of the free variables): if the side condition of every emitted clause
    holds at `e` (along the three axis curves — this only matters for `pow / nth-root / mod`, whose
    second operand must not move), then
      * the value pass leaves `⟦t⟧ e` in the root slot, and
      * the three rows `d(root).row(0..2)` that `DerivArrayEvaluator::derivs` computes from the
        constructor's seeds `d(X).row(0) = d(Y).row(1) = d(Z).row(2) = 1` are the partial
        derivatives ∂/∂x, ∂/∂y, ∂/∂z of `⟦t⟧` — the function of the ORIGINAL expression — at `e`. -/
theorem deck_gradient_correct {K : ConstOps C} (cst : C → ℝ) (L : LawfulOpt K (IR cst))
    (le : Expr C → Expr C → Bool) (t : Expr C) (hw : wellArity t)
    (flat : List (Expr C)) (hT : TopoFlat flat) (hA : ∀ m ∈ flat, nodeArity m)
    (hno : ∀ m ∈ flat, isOracle m = false) (hroot : optimize K le (flatten K t) ∈ flat)
    (X Y Z : Nat) (hX : AxisSlot flat Expr.x X) (hY : AxisSlot flat Expr.y Y)
    (hZ : AxisSlot flat Expr.z Z) (e : Env ℝ) (orc : Nat → ℝ)
    (hdx : ∀ m ∈ flat, NodeDom cst (shiftX e) 0 m) (hdy : ∀ m ∈ flat, NodeDom cst (shiftY e) 0 m)
    (hdz : ∀ m ∈ flat, NodeDom cst (shiftZ e) 0 m) :
    let T := build flat (optimize K le (flatten K t))
    let V := evalList evR orc T.t (slots0 (IR cst) e flat)
    V T.root = denote (IR cst) t e ∧
    HasDerivAt (fun s => denote (IR cst) t (shiftX e s))
      (derivRow RO false V T.t (spatialSeed RO X Y Z 0) T.root) 0 ∧
    HasDerivAt (fun s => denote (IR cst) t (shiftY e s))
      (derivRow RO false V T.t (spatialSeed RO X Y Z 1) T.root) 0 ∧
    HasDerivAt (fun s => denote (IR cst) t (shiftZ e s))
      (derivRow RO false V T.t (spatialSeed RO X Y Z 2) T.root) 0 := by
  intro T V
  have hK := fun op a b a' b' t ha hb hd hc => kernel_hasDerivAt false op a b a' b' t ha hb hd hc
  have hseed := spatialSeed_eq_seed0 flat hT.1 X Y Z hX hY hZ
  have hden := optimized_denote_eq cst L le t hw
  refine ⟨?_, ?_, ?_, ?_⟩
  · have h := build_evalG cst e flat (optimize K le (flatten K t)) hT hA hno _ hroot
    rw [hden] at h
    rw [← h]
    exact congrFun (evalListG_eq_evalList evR orc _
      (build_no_oracle flat _ hT hA hno) _).symm _
  · have h := deck_gradient_aux Dom false hK cst flat (optimize K le (flatten K t)) hT hA hno
      (fun _ _ => rfl) (shiftX e) (spatialSeed RO X Y Z 0) 0 orc
      (fun k hk => by
        rw [(hseed k hk).1]; exact slots0_hasDerivAt cst flat _ _ 0 (curve_shiftX e) k)
      hdx _ hroot
    rw [hden, shiftX_zero] at h
    exact h
  · have h := deck_gradient_aux Dom false hK cst flat (optimize K le (flatten K t)) hT hA hno
      (fun _ _ => rfl) (shiftY e) (spatialSeed RO X Y Z 1) 0 orc
      (fun k hk => by
        rw [(hseed k hk).2.1]; exact slots0_hasDerivAt cst flat _ _ 0 (curve_shiftY e) k)
      hdy _ hroot
    rw [hden, shiftY_zero] at h
    exact h
  · have h := deck_gradient_aux Dom false hK cst flat (optimize K le (flatten K t)) hT hA hno
      (fun _ _ => rfl) (shiftZ e) (spatialSeed RO X Y Z 2) 0 orc
      (fun k hk => by
        rw [(hseed k hk).2.2]; exact slots0_hasDerivAt cst flat _ _ 0 (curve_shiftZ e) k)
      hdz _ hroot
    rw [hden, shiftZ_zero] at h
    exact h

/-- **deck_axes.** The slots `deck->X, deck->Y, deck->Z` as `Deck::Deck` assigns them (the axis
    node's slot, or a fresh slot past the deck if the tree does not mention the axis) satisfy the
    hypotheses `hX hY hZ` of `deck_gradient_correct`. -/
theorem deck_axes (flat : List (Expr C)) :
    AxisSlot flat Expr.x (deckAxes flat).1 ∧ AxisSlot flat Expr.y (deckAxes flat).2.1 ∧
    AxisSlot flat Expr.z (deckAxes flat).2.2 := deckAxes_spec flat

/-- **deck_gradient_correct, post-order form.**  With the node list produced by the post-order
    traversal (one list meeting `walk()`'s specification, C01 `walk_spec_satisfiable`) the hypotheses
    on `flat` reduce to: the optimised tree has no remap / apply / invalid node. -/
theorem deck_gradient_correct_postorder {K : ConstOps C} (cst : C → ℝ) (L : LawfulOpt K (IR cst))
    (le : Expr C → Expr C → Bool) (t : Expr C) (hw : wellArity t)
    (hp : plainDeep (optimize K le (flatten K t)))
    (hA : ∀ m ∈ postorder (optimize K le (flatten K t)), nodeArity m)
    (hno : ∀ m ∈ postorder (optimize K le (flatten K t)), isOracle m = false)
    (e : Env ℝ) (orc : Nat → ℝ)
    (hdx : ∀ m ∈ postorder (optimize K le (flatten K t)), NodeDom cst (shiftX e) 0 m)
    (hdy : ∀ m ∈ postorder (optimize K le (flatten K t)), NodeDom cst (shiftY e) 0 m)
    (hdz : ∀ m ∈ postorder (optimize K le (flatten K t)), NodeDom cst (shiftZ e) 0 m) :
    let flat := postorder (optimize K le (flatten K t))
    let T := build flat (optimize K le (flatten K t))
    let V := evalList evR orc T.t (slots0 (IR cst) e flat)
    V T.root = denote (IR cst) t e ∧
    HasDerivAt (fun s => denote (IR cst) t (shiftX e s))
      (derivRow RO false V T.t (spatialSeed RO (deckAxes flat).1 (deckAxes flat).2.1 (deckAxes flat).2.2 0)
        T.root) 0 ∧
    HasDerivAt (fun s => denote (IR cst) t (shiftY e s))
      (derivRow RO false V T.t (spatialSeed RO (deckAxes flat).1 (deckAxes flat).2.1 (deckAxes flat).2.2 1)
        T.root) 0 ∧
    HasDerivAt (fun s => denote (IR cst) t (shiftZ e s))
      (derivRow RO false V T.t (spatialSeed RO (deckAxes flat).1 (deckAxes flat).2.1 (deckAxes flat).2.2 2)
        T.root) 0 := by
  intro flat
  have hs := postorder_spec (optimize K le (flatten K t)) hp
  have hax := deck_axes flat
  exact deck_gradient_correct cst L le t hw flat hs.1 hA hno hs.2 _ _ _ hax.1 hax.2.1 hax.2.2 e orc
    hdx hdy hdz

/-- **deck_gradient_var (free variables, `JacobianEvaluator::gradient`).**  If the deck has no
    CONST_VAR node, entry `i` of the Jacobian evaluator's result (`clear_vars = true`, unit seed in
    the slot of the `i`-th variable, X/Y/Z seeds cleared) is the partial derivative of `⟦t⟧` with
    respect to the free variable `v` stored in that slot. -/
theorem deck_gradient_var {K : ConstOps C} (cst : C → ℝ) (L : LawfulOpt K (IR cst))
    (le : Expr C → Expr C → Bool) (t : Expr C) (hw : wellArity t)
    (flat : List (Expr C)) (hT : TopoFlat flat) (hA : ∀ m ∈ flat, nodeArity m)
    (hno : ∀ m ∈ flat, isOracle m = false) (hroot : optimize K le (flatten K t) ∈ flat)
    (hncv : ∀ a, un Op.constVar a ∉ flat)
    (N : Nat) (hN : 0 < N) (vars : Array Nat) (i : Nat) (hi : i < vars.size)
    (v : Nat) (hv : Expr.var v ∈ flat) (hslot : vars[i] = idOf flat (Expr.var v))
    (e : Env ℝ) (orc : Nat → ℝ) (hdom : ∀ m ∈ flat, NodeDom cst (shiftVar e v) 0 m) :
    let T := build flat (optimize K le (flatten K t))
    let V := evalList evR orc T.t (slots0 (IR cst) e flat)
    ∃ g, (jacGradient RO N vars V T.t T.root)[i]? = some g ∧
      HasDerivAt (fun s => denote (IR cst) t (shiftVar e v s)) g 0 := by
  intro T V
  refine ⟨derivRow RO true V T.t (fun slot => if slot = vars[i] then 1 else 0) T.root, ?_, ?_⟩
  · simp only [jacGradient, List.getElem?_map, List.getElem?_range hi, Option.map_some,
      jacobian_seed_unit N hN vars i hi]
  · have hK := fun op a b a' b' t ha hb hd hc => kernel_hasDerivAt true op a b a' b' t ha hb hd hc
    have h := deck_gradient_aux Dom true hK cst flat (optimize K le (flatten K t)) hT hA hno
      (fun a ha => absurd ha (hncv a)) (shiftVar e v) (fun slot => if slot = vars[i] then 1 else 0) 0 orc
      (fun k hk => by
        rw [hslot, varSeed_eq_seed0 flat hT.1 v hv k hk]
        exact slots0_hasDerivAt cst flat _ _ 0 (curve_shiftVar e v) k)
      hdom _ hroot
    rw [optimized_denote_eq cst L le t hw, shiftVar_zero] at h
    exact h

/-! ### the hypotheses are satisfiable -/

section examples
open Libfive.DeckDeriv.Ex

/-- the clause side conditions of `sqrt(x*x + y*y) - 1` hold along every curve through a point
    off the axis `x = y = 0` (the only non-trivial one is `0 < square x + square y` for OP_SQRT) -/
theorem ex_dom (γ : ℝ → Env ℝ) (h : 0 < (γ 0).x * (γ 0).x + (γ 0).y * (γ 0).y) :
    ∀ m ∈ exFlat, NodeDom (fun c : ℝ => c) γ 0 m := by
  simp [exFlat, exT, NodeDom, nodeDom, Dom, denote, IR, evR]
  exact h

/-- `deck_gradient_correct` on `t = sqrt(x*x + y*y) - 1`, exact real constants, at any point off the
    z-axis: `Tree::optimized()` returns `t` itself (`optimize_exT`), the deck has 8 slots and 5
    clauses (`exFlat_tape`), `X Y Z = 8 6 9`; every hypothesis is discharged, and the three rows the
    derivative pass computes evaluate to the analytic gradient `(x/r, y/r, 0)`, `r = sqrt(x² + y²)`. -/
example (e : Env ℝ) (h : 0 < e.x * e.x + e.y * e.y) (orc : Nat → ℝ) :
    HasDerivAt (fun s => Real.sqrt ((e.x + s) * (e.x + s) + e.y * e.y) - 1)
      (e.x / Real.sqrt (e.x * e.x + e.y * e.y)) 0 ∧
    HasDerivAt (fun s => Real.sqrt (e.x * e.x + (e.y + s) * (e.y + s)) - 1)
      (e.y / Real.sqrt (e.x * e.x + e.y * e.y)) 0 ∧
    HasDerivAt (fun _ : ℝ => Real.sqrt (e.x * e.x + e.y * e.y) - 1) 0 0 := by
  have hax := deck_axes exFlat
  rw [exFlat_axes] at hax
  have key := deck_gradient_correct (fun c : ℝ => c) real_interp_lawful leT exT exT_wellArity exFlat
    exFlat_topo exFlat_arity exFlat_noOracle exFlat_root 8 6 9 hax.1 hax.2.1 hax.2.2 e orc
    (ex_dom _ (by simpa [shiftX] using h)) (ex_dom _ (by simpa [shiftY] using h))
    (ex_dom _ (by simpa [shiftZ] using h))
  rw [optimize_exT] at key
  simp only [exFlat_tape.1, exFlat_tape.2] at key
  obtain ⟨_, hx, hy, hz⟩ := key
  have hn : ¬ (e.x * e.x + e.y * e.y < 0) := not_lt.mpr h.le
  simp [derivRow, dk, RO, upd, spatialSeed, evalList, evalClause, slots0, exFlat, leafVal, IR, evR,
    exT, denote, shiftX, hn] at hx
  simp [derivRow, dk, RO, upd, spatialSeed, evalList, evalClause, slots0, exFlat, leafVal, IR, evR,
    exT, denote, shiftY, hn] at hy
  simp [derivRow, dk, RO, upd, spatialSeed, evalList, evalClause, slots0, exFlat, leafVal, IR, evR,
    exT, denote, shiftZ, hn] at hz
  refine ⟨?_, ?_, hz.sub_const 1⟩
  · refine (hx.sub_const 1).congr_deriv ?_
    by_cases h0 : e.x = 0
    · simp [h0]
    · rw [if_neg h0, mul_comm e.x 2, mul_div_mul_left _ _ (two_ne_zero)]
  · refine (hy.sub_const 1).congr_deriv ?_
    by_cases h0 : e.y = 0
    · simp [h0]
    · rw [if_neg h0, mul_comm e.y 2, mul_div_mul_left _ _ (two_ne_zero)]

/-- `deck_gradient_var` on `t = sin(v₀)`: the deck is `[var 0, sin(var 0)]`, variable 0 sits in
    slot 2; the Jacobian evaluator's entry 0 is `cos(v₀)`. -/
example (e : Env ℝ) (orc : Nat → ℝ) :
    HasDerivAt (fun s => Real.sin (e.vars 0 + s)) (Real.cos (e.vars 0)) 0 := by
  have hid : idOf exVFlat (Expr.var 0) = 2 := by simp [idOf, exVFlat, exV]
  obtain ⟨g, hg, hd⟩ := deck_gradient_var (fun c : ℝ => c) real_interp_lawful leT exV
    (by simp [exV, wellArity, Op.args]) exVFlat exVFlat_topo
    (by simp [exVFlat, exV, nodeArity, Op.args]) (by simp [exVFlat, exV, isOracle])
    (by rw [optimize_exV]; simp [exVFlat]) (by simp [exVFlat, exV])
    256 (by decide) #[2] 0 (by decide) 0 (by simp [exVFlat]) (by rw [hid]; rfl) e orc
    (by simp [exVFlat, exV, NodeDom, nodeDom, Dom])
  rw [optimize_exV] at hg
  have ht : (build exVFlat exV).t = [⟨Op.sin, 1, 2, 0⟩] ∧ (build exVFlat exV).root = 1 := by
    have hl : exVFlat.length = 2 := rfl
    simp only [build, hl, tapeK]
    simp [exVFlat, exV, clauseAt, idOf]
  simp only [ht.1, ht.2] at hg
  simp [jacGradient, jacSeed, jacSlot, jacIndex, jacLanes, derivRow, dk, RO, upd, evalList, evalClause,
    slots0, exVFlat, leafVal, IR, evR] at hg
  subst hg
  simpa [exV, denote, IR, evR, shiftVar] using hd

end examples

end Libfive.C06
