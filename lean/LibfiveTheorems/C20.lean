/-
  C20 — Progress reports are monotone and complete.
  Property theorems only; the model is LibfiveModel/Progress.lean, helper lemmas are in
  LibfiveProofs/Progress.lean.
-/
import LibfiveProofs.Progress

namespace Libfive.C20
open Libfive.Progress

/-- **total_formula.** What `WorkerPool::build` announces (`ticks + 1` after the loop
    `ticks = (ticks + 1) * (1 << N)` run `level` times) is `T(0) = 1`, `T(l+1) = 1 + 2^N · T(l)`. -/
theorem total_formula (N : Nat) :
    announced N 0 = 1 ∧ ∀ l, announced N (l + 1) = 1 + 2 ^ N * announced N l :=
  ⟨announced_zero N, announced_succ N⟩

/-- closed form: `(2^N − 1) · T(l) + 1 = (2^N)^(l+1)` -/
theorem total_closed_form (N l : Nat) : (2 ^ N - 1) * announced N l + 1 = (2 ^ N) ^ (l + 1) := by
  have h1 : 1 ≤ 2 ^ N := Nat.one_le_two_pow
  induction l with
  | zero => simp [announced_zero]; omega
  | succ l ih =>
    rw [announced_succ, pow_succ, ← ih]
    obtain ⟨k, hk⟩ : ∃ k, 2 ^ N = k + 1 := ⟨2 ^ N - 1, by omega⟩
    rw [hk]; simp only [Nat.add_sub_cancel]; ring

/-- **ticks_eq_total.** For EVERY well-formed build-time octree shape with root level `L` (cells
    pruned at any depth, leaves at level 0, branches with `2^N` children) and EVERY order in which
    the workers deliver the `tick(i)` calls (`sched` is any permutation of the calls the shape
    gives rise to), the counter ends at exactly the announced total. -/
theorem ticks_eq_total (N L : Nat) (s : Shape) (h : wf N L s = true) (sched : List Nat)
    (hp : sched.Perm (tickEvents N L s)) : counterAfter sched = announced N L := by
  rw [counterAfter_perm hp, counterAfter_eq_sum, tickEvents_sum, ticks_eq N L s h]

/-- the sum form (no schedule) -/
theorem ticks_eq_total_sum (N L : Nat) (s : Shape) (h : wf N L s = true) :
    ticks N L s = announced N L := ticks_eq N L s h

/-- **walk_ticks.** If the root is not a singleton and every branch has at least one non-singleton
    child, the walk phase ticks exactly `t.size() + 1` times. -/
theorem walk_ticks (N : Nat) (root : Final) (hw : walkable N root = true)
    (hr : root.isSingleton = false) : walkTicks root = walkAnnounced root := by
  rw [walk_eq N root hw]
  unfold walkAnnounced
  cases root with
  | cell => rfl
  | singleton => simp [Final.isSingleton] at hr
  | branch cs => simp only [liveCells]; omega

/-- the walk's pending protocol: after `resetPending` a walkable branch's counter is one less than
    the number of arrivals, which is the hypothesis of C11 `last_arriver` -/
theorem walk_pending (N : Nat) (cs : List Final) (hlen : cs.length = 2 ^ N) (ha : 0 < arrivals cs) :
    pendingInit N cs + 1 = arrivals cs := by
  have := arrivals_le cs
  unfold pendingInit; omega

/-- a branch all of whose children are singletons is never ticked (and the walk never leaves it):
    the hypothesis of `walk_ticks` is necessary -/
theorem walk_ticks_needs_walkable :
    walkTicks (.branch [.singleton, .singleton, .singleton, .singleton]) ≠
      walkAnnounced (.branch [.singleton, .singleton, .singleton, .singleton]) := by decide

/-- **reset_ticks.** With `workers ≥ 1`, for EVERY pool chain the pool-reset phase delivers exactly
    the announced `num_blocks()` ticks (the clamp is applied to a local copy; every level is reset
    with the caller's worker count). -/
theorem reset_ticks (w : Nat) (hw : 1 ≤ w) (ps : List PoolBlocks) :
    resetTicks w ps = numBlocks ps := by
  induction ps with
  | nil => rfl
  | cons p ps ih =>
    simp only [resetTicks, numBlocks, ih]
    by_cases hb : p.blocks = 0
    · rw [(clamp_eq_zero_iff w p hw).2 hb, poolTicks_zero, hb]
    · have : 1 ≤ clamp w p := by
        have := (clamp_eq_zero_iff w p hw).not.2 hb
        omega
      rw [poolTicks_pos _ _ this]

/-- **reset_ticks_old_iff** (about the PRE-FIX formula `resetTicksOld`, kept as the record of the
    defect): passing the clamped `workers` down made the phase complete **iff** no empty pool level
    preceded a non-empty one. -/
theorem reset_ticks_old_iff (w : Nat) (hw : 1 ≤ w) (ps : List PoolBlocks) :
    resetTicksOld w ps = numBlocks ps ↔ resetGood ps = true := by
  induction ps generalizing w with
  | nil => simp [resetTicksOld, numBlocks, resetGood]
  | cons p ps ih =>
    simp only [resetTicksOld, numBlocks, resetGood]
    by_cases hb : p.blocks = 0
    · have hc := (clamp_eq_zero_iff w p hw).2 hb
      simp only [hc, poolTicks_zero, resetTicksOld_zero, hb, if_true, beq_iff_eq]
      omega
    · have hc : 1 ≤ clamp w p := by
        have := (clamp_eq_zero_iff w p hw).not.2 hb
        omega
      simp only [poolTicks_pos _ _ hc, hb, if_false]
      rw [← ih (clamp w p) hc]
      omega

/-- the pre-fix formula lost ticks: tree pool empty (single-cell root: the root is `new T`), leaf
    pools non-empty, 8 workers; the current one does not -/
theorem reset_ticks_defect :
    resetTicksOld 8 [⟨0, 0⟩, ⟨0, 1⟩, ⟨0, 1⟩] = 0 ∧ numBlocks [⟨0, 0⟩, ⟨0, 1⟩, ⟨0, 1⟩] = 2 ∧
    resetTicks 8 [⟨0, 0⟩, ⟨0, 1⟩, ⟨0, 1⟩] = 2 := by decide

section field
variable {K : Type} [Field K] [LinearOrder K] [IsStrictOrderedRing K]

/-- **progress_monotone.** Handler started with `n` phases; `ps`/`cur` is an earlier state and
    `qs`/`cur'` a later one: same weights, the current phase only moves forward, and for every
    phase up to `cur` either it had no total yet (`nextPhase` has moved `current_phase` but not yet
    stored `total`) or its total is unchanged and its counter has not decreased.  Then the
    fraction reported later is not smaller; and whenever the counters do not exceed their totals
    the fraction lies in `[0, 1]`. -/
theorem progress_monotone (ps qs : Nat → Phase) (n cur cur' : Nat)
    (hcur : cur ≤ cur') (hn : cur' < n)
    (hw : ∀ i, i < n → (ps i).weight = (qs i).weight)
    (hstep : ∀ i, i ≤ cur → (ps i).total = 0 ∨
        ((ps i).total = (qs i).total ∧ (ps i).counter ≤ (qs i).counter))
    (hle : ∀ i, i ≤ cur' → (qs i).counter ≤ (qs i).total) :
    (fraction ps n cur : K) ≤ fraction qs n cur' ∧
    (0 : K) ≤ fraction qs n cur' ∧ (fraction qs n cur' : K) ≤ 1 := by
  have hW : totalWeight ps n = totalWeight qs n := totalWeight_congr ps qs n hw
  unfold fraction
  rw [hW]
  by_cases h0 : totalWeight qs n = 0
  · simp [h0]
  · simp only [h0, if_false]
    have hpos : (0 : K) < (totalWeight qs n : Nat) := by exact_mod_cast Nat.pos_of_ne_zero h0
    have h1 : (accum ps cur : K) ≤ accum qs cur :=
      accum_mono ps qs cur fun i hi => contrib_mono _ _ (hw i (by omega)) (hstep i hi)
    have h2 : (accum qs cur : K) ≤ accum qs cur' := accum_le_of_le qs hcur
    have h3 : (accum qs cur' : K) ≤ (totalWeight qs (cur' + 1) : Nat) := accum_le_weight qs cur' hle
    have h4 : ((totalWeight qs (cur' + 1) : Nat) : K) ≤ (totalWeight qs n : Nat) := by
      exact_mod_cast totalWeight_mono qs (by omega : cur' + 1 ≤ n)
    refine ⟨div_le_div_of_nonneg_right (h1.trans h2) hpos.le, div_nonneg (accum_nonneg _ _) hpos.le, ?_⟩
    rw [div_le_one hpos]
    exact h3.trans h4

end field

/-! ### start / nextPhase / finish / destructor -/

/-- what a client (and the render) can do to a handler, plus iterations of its own thread -/
inductive Op
  | nextPhase
  | finish
  | runner (acquired : Bool)
deriving Repr, DecidableEq

def apply (h : Handler) : Op → Handler
  | .nextPhase => h.nextPhase
  | .finish => h.finish
  | .runner a => h.runnerStep a

/-- invariant: the future is valid exactly when the thread was launched -/
def Inv (h : Handler) : Prop := (h.futureValid = true ↔ h.thread ≠ .notStarted)

theorem inv_init : Inv {} := by simp [Inv]

theorem inv_apply (h : Handler) (op : Op) (hi : Inv h) : Inv (apply h op) := by
  obtain ⟨fv, th, dn, tm, fu, jn⟩ := h
  unfold Inv at *
  cases op with
  | nextPhase => cases fv <;> cases th <;> simp_all [apply, Handler.nextPhase]
  | finish =>
    cases fv <;> cases th <;> cases dn <;>
      simp_all [apply, Handler.finish, Handler.finishSignal, Handler.runnerStep]
  | runner a =>
    cases fv <;> cases th <;> cases dn <;> cases a <;> cases tm <;>
      simp_all [apply, Handler.runnerStep]

theorem inv_reach (ops : List Op) : Inv (ops.foldl apply {}) := by
  suffices ∀ h, Inv h → Inv (ops.foldl apply h) from this _ inv_init
  induction ops with
  | nil => intro h hi; exact hi
  | cons op ops ih => intro h hi; exact ih _ (inv_apply h op hi)

theorem finish_props (h : Handler) (hi : Inv h) :
    (h.finish).canReturn = true ∧
    (h.finish.finish).observable = (h.finish).observable ∧
    (h.futureValid = false → h.finish = h) ∧
    (h.futureValid = true → (h.finish).thread = .exited ∧ (h.finish).joined = true) := by
  obtain ⟨fv, th, dn, tm, fu, jn⟩ := h
  unfold Inv at hi
  cases fv <;> cases th <;> cases dn <;>
    simp_all [Handler.finish, Handler.finishSignal, Handler.runnerStep, Handler.canReturn,
      Handler.observable]

/-- **finish_idempotent.** After ANY history of `nextPhase` / `finish` / thread iterations
    (`start` and `tick` do not touch this part of the state), `finish()` — which is also the
    destructor — can return (its `future.wait()` is not blocked: the thread has exited), and a
    second `finish()` changes nothing observable.  Early destruction (no phase started yet) is a
    no-op; after a phase was started it joins the thread. -/
theorem finish_idempotent (ops : List Op) :
    ((ops.foldl apply {}).finish).canReturn = true ∧
    ((ops.foldl apply {}).finish.finish).observable = ((ops.foldl apply {}).finish).observable ∧
    ((ops.foldl apply {}).futureValid = false → (ops.foldl apply {}).finish = ops.foldl apply {}) ∧
    ((ops.foldl apply {}).futureValid = true →
      ((ops.foldl apply {}).finish).thread = .exited ∧ ((ops.foldl apply {}).finish).joined = true) :=
  finish_props _ (inv_reach ops)

/-- the thread leaves its loop at the first iteration after `finish` has signalled, whatever
    `try_lock_for` returns: `future.wait()` is bounded by one 50 ms period -/
theorem runner_exits_after_signal (h : Handler) (acq : Bool) (hf : h.futureValid = true)
    (ht : h.thread = .running) : (h.finishSignal.runnerStep acq).thread = .exited := by
  obtain ⟨fv, th, dn, tm, fu, jn⟩ := h
  simp_all [Handler.finishSignal, Handler.runnerStep]

/-- Recorded weakness of the implementation (not a crash or deadlock on this platform): because
    `future.valid()` stays true after `wait()`, every second `finish()` — in particular the one in
    the destructor after `Mesh::render` has already finished the handler — calls
    `timed_mut.unlock()` on a mutex the caller does not own. -/
theorem second_finish_unlocks_foreign (h : Handler) (hf : h.futureValid = true) :
    (h.finish.finish).foreignUnlocks = (h.finish).foreignUnlocks + 1 := by
  obtain ⟨fv, th, dn, tm, fu, jn⟩ := h
  cases th <;> cases dn <;> simp_all [Handler.finish, Handler.finishSignal, Handler.runnerStep]

/-! ### the hypotheses are satisfiable -/

-- a 2D shape with cells pruned / terminal at different depths
example : wf 2 2 (.branch [.terminal, .branch [.leaf, .leaf, .leaf, .leaf], .terminal,
    .branch [.leaf, .leaf, .leaf, .leaf]]) = true := by decide
example : announced 3 3 = 585 := by decide
example : walkable 2 (.branch [.cell, .singleton, .singleton, .branch [.cell, .cell, .singleton, .cell]])
    = true := by decide
example : numBlocks [⟨3, 1⟩, ⟨0, 1⟩, ⟨0, 0⟩] = 5 := by decide
example : (1 : Nat) ≤ 8 := by decide
-- progress_monotone: a tick in phase 1 of 3
example : ∃ (ps qs : Nat → Phase), (∀ i, i < 3 → (ps i).weight = (qs i).weight) ∧
    (∀ i, i ≤ 1 → (ps i).total = 0 ∨ ((ps i).total = (qs i).total ∧ (ps i).counter ≤ (qs i).counter)) ∧
    (∀ i, i ≤ 1 → (qs i).counter ≤ (qs i).total) :=
  ⟨fun _ => ⟨1, 10, 3⟩, fun _ => ⟨1, 10, 4⟩, by simp, by simp, by simp⟩
example : (([Op.nextPhase, .runner true, .finish] : List Op).foldl apply {}).futureValid = true := by
  decide

end Libfive.C20
