/-
  C03, simplex (and hybrid) mesher: the uniform-grid theorems of LibfiveTheorems/C03Grid.lean tied
  to the RECURSIVE walk the real mesher runs.

  On the complete octree of depth `d` the mesher receives the `load` calls `walkCalls d`
  (LibfiveModel/SimplexWalk.lean):
    * the interior calls of `Dual<3>::work` — `dualW d (0,0,0)` of LibfiveModel/DCGrid.lean, the
      literal recursion of dual.hpp:127-204, characterised by `dual_walk_calls`
      (LibfiveTheorems/C03Walk.lean) — with all four cells real, followed by
    * the calls of `Dual<3>::handleTopEdges` (dual.hpp:206-229; run because
      `SimplexMesher::needsTopEdges()` / `HybridMesher::needsTopEdges()` return true), modelled
      LITERALLY (`topEdgesO`): four rounds `ts = {e,e,e,e}; ts[i] = t; edge3<X>, edge3<Y>, edge3<Z>`
      and two rounds `ts = {e,e}; ts[i] = t; face3<X>, face3<Y>, face3<Z>`, through the same
      `edge3` / `face3` recursion with the `empty()` singleton as `none` (its own child).

  `simplex_walk_calls`: for EVERY depth this list is a permutation of `edgeCalls` — one call per
  lattice edge of the `2^d × 2^d × 2^d` grid, interior and boundary, with the cells outside the
  grid as the singleton — which is exactly what the per-edge loop `gridTetsByEdge` is built from
  (`grid_by_edge_calls`).  Hence the tets marched in the walk's own order (`walkTets`) are a
  permutation of `gridTets`, and the closed / edge-manifold theorem holds for the triangle list in
  the order the real mesher emits it (`grid_marching_closed_manifold_walk`).

  Property theorems only; helper lemmas in LibfiveProofs/SimplexWalk.lean.

  Modelling assumptions (all inherited, none new for `handleTopEdges`, which is literal):
    * the octree is COMPLETE (every leaf at depth `d`, all leaves ambiguous, nothing collapsed),
      as in LibfiveModel/SimplexGrid.lean;
    * `work(t)` runs children-first in the fixed child order (`dualW`); the real pool may run the
      `work` calls of different branches in another order / on several threads — only a further
      permutation of the same calls, which the permutation-invariant conclusion does not see;
    * the recursion index of `edge3O` / `face3O` is the depth of the real trees (at least one tree
      of every `handleTopEdges` call is real, so `any_of isBranch` is the depth test).
-/
import LibfiveTheorems.C03Grid
import LibfiveProofs.SimplexWalk

namespace Libfive.C03
open Libfive.Marching Libfive.SimplexGrid Libfive.SimplexWalk Generated.MeshTables

/-! ## what the per-edge loop is built from -/

/-- **grid_by_edge_calls.**  `gridTetsByEdge` is `SimplexMesher::load` (`callTets`) run over
    `edgeCalls`: one call per lattice edge `(A, a, q, r)` of the grid, `ts[c]` the cell at `Q`
    offset `c & 1`, `R` offset `c >> 1`, or the singleton outside the grid. -/
theorem grid_by_edge_calls (n1 n2 n3 : Nat) :
    gridTetsByEdge n1 n2 n3 =
      ((edgeCalls n1 n2 n3).flatMap (callTets simplexCellVertices simplexTetVertices)).map
        (encTet (vid n1 n2)) := by
  rw [gridTetsByEdge, gridLByEdge_eq]

/-! ## the recursion with the `empty()` singleton -/

/-- with four real trees `edge3` is the interior recursion `edge3W` (so one definition serves
    `work` and `handleTopEdges`) -/
theorem edge3_real_trees (A d : Nat) (t0 t1 t2 t3 : Pt) :
    edge3O A d (some t0) (some t1) (some t2) (some t3) =
      (DCGrid.edge3W A d t0 t1 t2 t3).map liftCall :=
  edge3O_some A d t0 t1 t2 t3

/-- with two real trees `face3` is the interior recursion `face3W` -/
theorem face3_real_trees (A d : Nat) (t0 t1 : Pt) :
    face3O A d (some t0) (some t1) = (DCGrid.face3W A d t0 t1).map liftCall :=
  face3O_some A d t0 t1

/-- **top_edges_translate.**  `handleTopEdges` commutes with translating the root: the calls on
    the octree at `s` are the calls on the octree at the origin with every real cell moved by `s`
    (the singleton stays the singleton). -/
theorem top_edges_translate (d : Nat) (s : Pt) :
    topEdgesO d (some s) = (topEdgesO d (some (0, 0, 0))).map (shiftCallO s) := by
  have e : (some s : OT) = shO s (some (0, 0, 0)) := by simp [shO, DCGrid.addPt]
  rw [e, topEdgesO_shift]

/-- **top_edges_calls.**  `handleTopEdges` on the octree of depth `d` at `root d = (2^d, 2^d, 2^d)`:
    its calls are, in order, `callTuple (B, c)` for the keys `topL d` — `c = ts[0]`, possibly a
    virtual cell just outside the cube — with every cell outside the root cube replaced by the
    singleton (`gm`); the keys are pairwise different and different from the interior keys, and
    together with them are exactly the keys of ALL lattice edges of the cube (`edgeKeyP`). -/
theorem top_edges_calls (d : Nat) :
    topEdgesO d (some (root d)) = (topL d).map (gm (2 ^ d) ∘ DCGrid.callTuple) ∧
    (keysAt d).Nodup ∧ keysAt d = DCGrid.Walk.dualL d (root d) ++ topL d ∧
    ∀ x, x ∈ keysAt d ↔ edgeKeyP (2 ^ d) x :=
  ⟨topEdgesO_root d, nodup_keysAt d, rfl, mem_keysAt d⟩

/-! ## the full statement -/

/-- **simplex_walk_calls.**  For EVERY depth `d`: the `load` calls the simplex / hybrid mesher
    receives from the recursive walk (`work` for every branch, then `handleTopEdges`) are a
    permutation of `edgeCalls (2^d) (2^d) (2^d)`: every lattice edge of the grid — interior and
    boundary — exactly once, with the four cells around it where `load` expects them and the cells
    outside the grid as the `empty()` singleton. -/
theorem simplex_walk_calls (d : Nat) : (walkCalls d).Perm (edgeCalls (2 ^ d) (2 ^ d) (2 ^ d)) :=
  walkCalls_perm d

/-- **simplex_walk_tets_by_edge.**  The tets marched in the walk's own order are a permutation of
    the per-edge loop order ... -/
theorem simplex_walk_tets_by_edge (d : Nat) :
    (walkTets d).Perm (gridTetsByEdge (2 ^ d) (2 ^ d) (2 ^ d)) :=
  walkTets_perm_byEdge d

/-- **simplex_walk_tets.**  ... hence of the per-cell complex `gridTets` of the grid theorems. -/
theorem simplex_walk_tets (d : Nat) : (walkTets d).Perm (gridTets (2 ^ d) (2 ^ d) (2 ^ d)) :=
  walkTets_perm d

/-- the triangle list in the walk's order is a permutation of the one in the model's order -/
theorem simplex_walk_tris (d : Nat) (s : Vid → Bool) :
    (marchTets s (walkTets d)).Perm (marchTets s (gridTets (2 ^ d) (2 ^ d) (2 ^ d))) :=
  (simplex_walk_tets d).flatMap_right _

/-- (H) for the complex in the order the recursive walk marches it -/
theorem grid_walk_hypH (d : Nat) (s : Vid → Bool) (hb : BoundaryUniform (2 ^ d) (2 ^ d) (2 ^ d) s) :
    HypH s (allFaces (walkTets d)) :=
  hypH_perm s (allFaces_perm (simplex_walk_tets d)) (grid_hypH _ _ _ s hb)

theorem grid_walk_distinct (d : Nat) : ∀ t ∈ walkTets d, t.distinct :=
  fun t ht => grid_distinct _ _ _ t ((simplex_walk_tets d).mem_iff.mp ht)

theorem grid_walk_tetsets_distinct (d : Nat) : TetSetsDistinct (walkTets d) :=
  tetSetsDistinct_perm (simplex_walk_tets d) (grid_tetsets_distinct _ _ _)

/-- **grid_marching_closed_manifold_walk.**  For EVERY depth `d` and every sign assignment that is
    uniform on the outer boundary of the `2^d × 2^d × 2^d` grid, the triangle list the simplex
    mesher emits IN THE ORDER OF THE RECURSIVE WALK (interior `work` calls, then `handleTopEdges`)
    is closed, consistently oriented and edge-manifold: every directed edge is used exactly as
    often as its reverse, and at most once. -/
theorem grid_marching_closed_manifold_walk (d : Nat) (s : Vid → Bool)
    (hb : BoundaryUniform (2 ^ d) (2 ^ d) (2 ^ d) s) (e : Edge (SV Vid)) :
    (dirEdges (marchTets s (walkTets d))).count e =
        (dirEdges (marchTets s (walkTets d))).count (rev e) ∧
      (dirEdges (marchTets s (walkTets d))).count e ≤ 1 :=
  ⟨marching_closed s _ (grid_walk_hypH d s hb) e,
   marching_manifold s _ (grid_walk_hypH d s hb) (grid_walk_distinct d)
     (grid_walk_tetsets_distinct d) e⟩

/-- the same statement obtained by transporting `grid_marching_closed_manifold` along the
    permutation of the triangle lists (`count` of directed edges is permutation-invariant) -/
theorem grid_marching_closed_manifold_walk' (d : Nat) (s : Vid → Bool)
    (hb : BoundaryUniform (2 ^ d) (2 ^ d) (2 ^ d) s) (e : Edge (SV Vid)) :
    (dirEdges (marchTets s (walkTets d))).count e =
        (dirEdges (marchTets s (walkTets d))).count (rev e) ∧
      (dirEdges (marchTets s (walkTets d))).count e ≤ 1 := by
  have hp : (dirEdges (marchTets s (walkTets d))).Perm
      (dirEdges (marchTets s (gridTets (2 ^ d) (2 ^ d) (2 ^ d)))) :=
    (simplex_walk_tris d s).flatMap_right _
  rw [hp.count_eq, hp.count_eq]
  exact grid_marching_closed_manifold _ _ _ s hb e

/-- no emitted triangle repeats a surface vertex -/
theorem grid_walk_no_repeated_vertex (d : Nat) (s : Vid → Bool) (tri : Tri (SV Vid))
    (h : tri ∈ marchTets s (walkTets d)) : triDegenerate tri = false :=
  marching_no_repeated_vertex s _ (grid_walk_distinct d) tri h

/-! ## instances, satisfiability of the hypotheses, non-vacuity -/

set_option synthInstance.maxSize 2048 in
/-- depth 0 (the root is a leaf): no `work` call; `handleTopEdges` makes the 12 calls for the 12
    edges of the cell — round `i` puts the cell into slot `i`, axes X, Y, Z — and `face3` nothing -/
example : walkCalls 0 =
    [(0, some (0, 0, 0), none, none, none), (1, some (0, 0, 0), none, none, none),
     (2, some (0, 0, 0), none, none, none),
     (0, none, some (0, 0, 0), none, none), (1, none, some (0, 0, 0), none, none),
     (2, none, some (0, 0, 0), none, none),
     (0, none, none, some (0, 0, 0), none), (1, none, none, some (0, 0, 0), none),
     (2, none, none, some (0, 0, 0), none),
     (0, none, none, none, some (0, 0, 0)), (1, none, none, none, some (0, 0, 0)),
     (2, none, none, none, some (0, 0, 0))] := by decide
example : (walkCalls 0).Perm (edgeCalls 1 1 1) := by rw [← List.isPerm_iff]; decide

set_option synthInstance.maxSize 2048 in
/-- depth 1: `edge3<X>` of round 0 (`ts[0] = t`): the two unit edges of the root's high-Y, high-Z
    X-edge, low to high, each with only `ts[0]` real -/
example : edge3O 0 1 (some (0, 0, 0)) none none none =
    [(0, some (0, 1, 1), none, none, none), (0, some (1, 1, 1), none, none, none)] := by decide
set_option synthInstance.maxSize 2048 in
/-- depth 1: `face3<X>({t, e})`: the four lattice edges inside the root's high-X face; along
    `Q(X) = Y` the slots 0, 1 are real, along `R(X) = Z` the slots 0, 2 -/
example : face3O 0 1 (some (0, 0, 0)) none =
    [(1, some (1, 0, 0), some (1, 0, 1), none, none), (1, some (1, 1, 0), some (1, 1, 1), none, none),
     (2, some (1, 0, 0), none, some (1, 1, 0), none), (2, some (1, 0, 1), none, some (1, 1, 1), none)] := by
  decide
/-- depth 1: 6 interior + 24 + 24 top-edge calls = 54 = 3 · 2 · 3 · 3 lattice edges; a genuine
    permutation of the loop order -/
example : (walkCalls 1).length = 54 ∧ (edgeCalls 2 2 2).length = 54 := by decide
example : (walkCalls 1).Perm (edgeCalls (2 ^ 1) (2 ^ 1) (2 ^ 1)) := by
  rw [← List.isPerm_iff]; decide
set_option synthInstance.maxSize 2048 in
example : walkCalls 1 ≠ edgeCalls 2 2 2 := by decide
/-- depth 2: 300 = 3 · 4 · 5 · 5 calls -/
example : (walkCalls 2).length = 300 ∧ (walkCalls 2).isPerm (edgeCalls 4 4 4) = true := by
  decide +kernel

/-- the hypothesis of `grid_marching_closed_manifold_walk` is satisfiable at depth 1 ... -/
example : BoundaryUniform (2 ^ 1) (2 ^ 1) (2 ^ 1) centreInside := by
  refine ⟨false, ?_⟩
  rintro ⟨x, y, z⟩ hg hb
  simp only [inGrid, onBoundary] at hg hb
  simp only [centreInside, vid, vidW, beq_eq_false_iff_ne, ne_eq, Nat.reduceMul, Nat.reduceAdd,
    Nat.reducePow] at hg hb ⊢
  show ¬ (x + 5 * (y + 5 * z) : Nat) = 62
  omega
/-- ... and the conclusion is not trivial: the walk marches 384 tets and emits 48 triangles -/
example : (walkTets 1).length = 384 ∧ (marchTets centreInside (walkTets 1)).length = 48 := by
  decide +kernel
/-- (H) of that instance re-checked by the reference implementation, in the walk's order -/
example : hypHRef centreInside (allFaces (walkTets 1)) = true := by decide +kernel

end Libfive.C03
