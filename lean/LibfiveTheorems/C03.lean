/-
  C03 — Rendered meshes are closed, consistently oriented surfaces.
  Property theorems only; helper lemmas live in LibfiveProofs/Marching.lean and the Boolean
  specifications of the table theorems in LibfiveProofs/MarchingTables.lean.

  (T) theorems are `decide`d over the COMPLETE tables regenerated from /repo on every run
  (Generated/MeshTables.lean); the lifting theorem `marching_closed` is a ∀-theorem over all
  finite oriented tet complexes and sign functions.
-/
import LibfiveProofs.Marching
import LibfiveProofs.MarchingManifold
import LibfiveProofs.MarchingTables
import LibfiveProofs.Pool

namespace Libfive.C03
open Libfive.Marching Generated.MeshTables

/-! ## (a) table theorems -/

/-- **tet_tables_equal (T).**  The simplex and the hybrid mesher carry the same `tet_table`,
    `cell_vertices` and `tet_vertices` (so one model serves both). -/
theorem tet_tables_equal :
    hybridTetTable = simplexTetTable ∧ hybridCellVertices = simplexCellVertices ∧
    hybridTetVertices = simplexTetVertices := by decide

/-- **tet_inside_first (T).**  In every row every triangle corner is a tet edge `(first, second)`
    with `first` inside and `second` outside (the `assert(va.inside != vb.inside)` of `load`). -/
theorem tet_inside_first : ∀ m, m < 16 → insideFirst m = true := by decide

/-- **tet_face_local (T).**  For all 16 masks and all 4 faces: the directed sides the tet emits
    on a face are exactly `seg` of that face's three (vertex, sign) pairs in the induced
    orientation (at most one segment, see `seg_at_most_one`); every side lies on exactly one face
    or is interior to the tet; interior sides cancel pairwise. -/
theorem tet_face_local : ∀ b0 b1 b2 b3 : Bool, faceLocal b0 b1 b2 b3 = true := by decide

/-- reversing the orientation of a face reverses its segment -/
theorem seg_reverse {α : Type} (sa sb sc : Bool) (a b c : α) :
    seg sb sa sc b a c = (seg sa sb sc a b c).map rev := seg_swap_list sa sb sc a b c

/-- rotating a face does not change its segment -/
theorem seg_rotate {α : Type} (sa sb sc : Bool) (a b c : α) :
    seg sb sc sa b c a = seg sa sb sc a b c := by
  cases sa <;> cases sb <;> cases sc <;> rfl

theorem seg_at_most_one {α : Type} (sa sb sc : Bool) (a b c : α) :
    (seg sa sb sc a b c).length ≤ 1 := seg_length_le_one sa sb sc a b c

/-- a face whose three vertices have the same sign carries no segment -/
theorem seg_uniform (s : Vid → Bool) (f : Face) (h : faceUniform s f = true) : faceSeg s f = [] :=
  faceSeg_uniform s f h

/-- **tets_per_cell_orientation (T).**  The 16 tets generated from `cell_vertices × tet_vertices`
    around a cell edge are all positively oriented in the reference geometry of `load<A>`
    (each has 6·volume = 1 on the lattice), and they form a consistently oriented star of the
    edge vertex: every face through the edge vertex is shared by exactly two tets with
    opposite induced orientation, every other face occurs once. -/
theorem tets_per_cell_orientation :
    ((cellTets simplexCellVertices simplexTetVertices).all fun t => tetVolume6 t == 1) = true ∧
    (cellTets simplexCellVertices simplexTetVertices).length = 16 ∧
    starConsistent (cellTets simplexCellVertices simplexTetVertices) = true := by decide

/-- **marching_table_partition (T).**  MarchingTable<3>, as dumped from the running library:
    for each of the 256 corner masks the patches list only sign-changing cube edges, oriented
    inside → outside; every sign-changing edge is in exactly one patch exactly once; `p` maps the
    edge id of each listed edge to the patch containing it and every other edge id to -1; the
    edge-id table `e` numbers the 24 directed cube edges injectively. -/
theorem marching_table_partition :
    ((List.range 256).all fun m => maskOK marchV3 marchE3 marchP3 m) = true ∧
    edgeTableOK marchE3 = true ∧ marchV3.length = 256 ∧ marchP3.length = 256 := by
  decide +kernel

/-! ## (b) the lifting theorem -/

/-- **marching_closed (lifting theorem).**  For every sign function on vertex ids and every finite
    list of oriented tets such that (H) every face triple that is not sign-uniform occurs exactly
    once with each orientation among the induced faces of the tets (i.e. in exactly two tets,
    with opposite induced orientation; uniform faces may occur any number of times), the emitted
    triangle list uses every directed edge exactly as often as its reverse: the surface is closed
    and consistently oriented.  (Proved from the balanced form `HypBal`, see
    `marching_closed_balanced`; by double counting over canonical faces.) -/
theorem marching_closed (s : Vid → Bool) (ts : List Tet) (H : HypH s (allFaces ts))
    (e : Edge (SV Vid)) :
    (dirEdges (marchTets s ts)).count e = (dirEdges (marchTets s ts)).count (rev e) :=
  count_eq_of_wsum_zero (fun w hw => marchTets_boundary_zero s ts (hypH_bal s _ H) w hw) e

/-- the same conclusion from the weaker hypothesis that every non-uniform face triple occurs
    equally often with both orientations (pseudo-manifolds of any even face degree) -/
theorem marching_closed_balanced (s : Vid → Bool) (ts : List Tet) (H : HypBal s (allFaces ts))
    (e : Edge (SV Vid)) :
    (dirEdges (marchTets s ts)).count e = (dirEdges (marchTets s ts)).count (rev e) :=
  count_eq_of_wsum_zero (fun w hw => marchTets_boundary_zero s ts H w hw) e

/-- **marching_manifold_per_tet (proved part of the edge-manifold clause).**  A tet with four
    distinct vertices emits every directed side at most once (complete table: no row repeats a
    directed side; the embedding of tet edges is injective). -/
theorem marching_manifold_per_tet (s : Vid → Bool) (t : Tet) (h : t.distinct) (e : Edge (SV Vid)) :
    (dirEdges (marchTet s t)).count e ≤ 1 :=
  List.nodup_iff_count_le_one.mp (marchTet_edges_nodup s t h) e

/-- **marching_manifold (edge-manifold clause for the simplex / hybrid meshers).**  Under (H), if
    every tet has four distinct vertices (`hd`) and no two tets have the same vertex set (`hv`),
    every directed side is emitted AT MOST ONCE over the whole complex — together with
    `marching_closed`, each undirected edge is used exactly once per direction or not at all.
    The two hypotheses beyond (H) are exactly what is needed:
    * `hd`: otherwise a tet edge `(a, a)` or two equal surface vertices make self-loops, which
      every count sees twice;
    * `hv`: (H) alone allows two tets glued along all four faces (the two-tet triangulation of
      S³); for a 2-2 mask both emit a quad split by a diagonal, and the diagonal (an interior
      side, spanning all four vertices) can then occur twice in the same direction.
    Proof (LibfiveProofs/MarchingManifold.lean): a side spanning four vertex ids is interior to
    the tet with exactly that vertex set (unique by `hv`, and a tet emits it at most once by the
    complete-table lemma); a side spanning three ids lies on the face with that canonical key,
    which by (H) has exactly two incidences of opposite parity emitting `seg` and its reverse.
    All three hypotheses are CHECKED on every dumped complex by the driver (`H`, tet-repeats-vertex,
    `V <id> ok|FAIL`), and the conclusion is checked on every real simplex / hybrid mesh by the
    oracle of tools/checks/c03.py. -/
theorem marching_manifold (s : Vid → Bool) (ts : List Tet) (H : HypH s (allFaces ts))
    (hd : ∀ t ∈ ts, t.distinct) (hv : TetSetsDistinct ts) (e : Edge (SV Vid)) :
    (dirEdges (marchTets s ts)).count e ≤ 1 :=
  manifold_count s ts H hd hv e

/-- **per-tet stage.**  The boundary of the triangles of ONE tet is the sum of the segments of its
    four oriented faces (for any vertex ids, distinct or not, and any antisymmetric weight). -/
theorem tet_boundary_is_face_segments (s : Vid → Bool) (t : Tet) (w : Edge (SV Vid) → ℤ)
    (hw : Antisym w) :
    wsum w (dirEdges (marchTet s t)) = ((t.faces).map fun f => wsum w (faceSeg s f)).sum :=
  marchTet_boundary s t w hw

/-- **marching_no_repeated_vertex.**  If every tet has four distinct vertices, no emitted triangle
    repeats a (surface) vertex. -/
theorem marching_no_repeated_vertex (s : Vid → Bool) (ts : List Tet) (hd : ∀ t ∈ ts, t.distinct)
    (tri : Tri (SV Vid)) (h : tri ∈ marchTets s ts) : triDegenerate tri = false := by
  simp only [marchTets, List.mem_flatMap] at h
  obtain ⟨t, ht, h⟩ := h
  simp only [marchTet, marchTetM, List.mem_map] at h
  obtain ⟨lt, hlt, rfl⟩ := h
  have hwf := tet_table_wf (t.mask s) (maskOf_lt _ _ _ _)
  rw [List.all_eq_true] at hwf
  have h1 := hwf lt hlt
  obtain ⟨p, q, r⟩ := lt
  have inj := vtx_inj t (hd t ht)
  simp only [wfLocalTri, Bool.and_eq_true, decide_eq_true_eq, bne_iff_ne, ne_eq] at h1
  obtain ⟨⟨⟨⟨⟨⟨⟨⟨⟨⟨⟨⟨⟨⟨a1, a2⟩, a3⟩, a4⟩, a5⟩, a6⟩, _⟩, _⟩, _⟩, hpq⟩, hqr⟩, hpr⟩, _⟩, _⟩, _⟩ := h1
  have key : ∀ x y : SV Nat, x.1 < 4 → x.2 < 4 → y.1 < 4 → y.2 < 4 → x ≠ y →
      mapSV t.vtx x ≠ mapSV t.vtx y := by
    intro x y h1 h2 h3 h4 hne heq
    apply hne
    simp only [mapSV, Prod.mk.injEq] at heq
    exact Prod.ext (inj _ _ h1 h3 heq.1) (inj _ _ h2 h4 heq.2)
  simp only [triDegenerate, mapTri, Bool.or_eq_false_iff, beq_eq_false_iff_ne, ne_eq]
  exact ⟨⟨key p q a1 a2 a3 a4 hpq, key q r a3 a4 a5 a6 hqr⟩, key p r a1 a2 a5 a6 hpr⟩

/-- the Boolean reference check of (H) used by the driver is sound -/
theorem hypHRef_sound (s : Vid → Bool) (F : List Face) (h : hypHRef s F = true) : HypH s F := by
  intro k hu hk
  obtain ⟨f, hf, rfl⟩ := List.mem_map.mp hk
  simp only [hypHRef, List.all_eq_true] at h
  have := h f hf
  simp only [hu, Bool.false_or, Bool.and_eq_true, beq_iff_eq] at this
  exact this

/-! ## (b') the pending-counter protocol (imported from the pool model, LibfiveProofs/Pool.lean) -/

/-- **collect_children_once.**  C03 consequence of `Libfive.Pool.last_arriver` for a branch of the
    octree with `2^N` children (`pending` initialised to `2^N - 1`): for ANY interleaving of the
    children's `install` / `pending--` steps admitted by the protocol, `collectChildren` (run by
    the children whose `pending--` observed 0) runs at most once; not before all `2^N` children have
    arrived; and once all have arrived it has run exactly once, by the LAST arriver, at a moment
    when every child pointer is installed.  So cell merging / `collectChildren` sees a complete
    set of children exactly once per branch, whatever the schedule. -/
theorem collect_children_once (N : Nat) (tr : List Libfive.Pool.BEv)
    (hev : ∀ e ∈ tr, e.child < 2 ^ N) (st : Libfive.Pool.BState)
    (hr : Libfive.Pool.brun (Libfive.Pool.BState.init (2 ^ N)) tr = some st) :
    st.collectors.length ≤ 1 ∧
    (st.arrived.length < 2 ^ N → st.collectors = []) ∧
    (st.arrived.length = 2 ^ N → ∃ i rest, st.arrived = i :: rest ∧ st.collectors = [i] ∧
        ∀ j, j < 2 ^ N → j ∈ st.installed) :=
  Libfive.Pool.last_arriver (2 ^ N) (Nat.two_pow_pos N) tr hev st hr

/-! ## (c) dual contouring -/

/-- **dc_quad_boundary.**  For every assignment of four vertex ids (any equalities), either
    direction `d` and either triangulation `alt`, the triangles `DCMesher::load` pushes
    (degenerate ones dropped) have, at every directed edge that is not a self-loop, the same
    signed count as the quad cycle `v0 → w1 → v3 → w2 → v0` (`w1, w2 = v1, v2` swapped iff `!d`):
    the net boundary of the pushed triangles is the quad cycle with self-loops removed, and it
    flips with `d`. -/
theorem dc_quad_boundary (v0 v1 v2 v3 : Vid) (d alt : Bool) (e : Edge Vid) :
    cnt (dirEdges (dcQuad v0 v1 v2 v3 d alt)) e = cnt (quadCycle v0 v1 v2 v3 d) e :=
  cnt_eq_of_wsum (fun w hw => dcQuad_wsum w hw v0 v1 v2 v3 d alt) e

/-- a self-loop has signed count 0 in any list, so `cnt` ignores self-loops of the quad cycle -/
theorem cnt_self_loop (l : List (Edge Vid)) (a : Vid) : cnt l (a, a) = 0 := by
  simp [cnt, rev]

/-- reversing the direction reverses the cycle -/
theorem quadCycle_flip (v0 v1 v2 v3 : Vid) (e : Edge Vid) :
    cnt (quadCycle v0 v1 v2 v3 false) e = - cnt (quadCycle v0 v1 v2 v3 true) e := by
  have h : ∀ w : Edge Vid → ℤ, Antisym w →
      wsum w (quadCycle v0 v1 v2 v3 false) = wsum (fun x => - w x) (quadCycle v0 v1 v2 v3 true) := by
    intro w hw
    have e1 := antisym_swap w hw v0 v1
    have e2 := antisym_swap w hw v1 v3
    have e3 := antisym_swap w hw v3 v2
    have e4 := antisym_swap w hw v2 v0
    simp only [quadCycle, wsum_cons, wsum_nil, if_true, Bool.false_eq_true, if_false]
    linarith
  rw [← wsum_indic, ← wsum_indic, h _ (indic_antisym e)]
  simp [wsum, List.sum_neg, Function.comp_def, List.map_map]

/-! ## satisfiability of the hypotheses -/

/-- boundary of the 4-simplex on vertices 1..5: five consistently oriented tets, closed -/
def sphereComplex : List Tet := [⟨2, 3, 4, 5⟩, ⟨3, 1, 4, 5⟩, ⟨1, 2, 4, 5⟩, ⟨2, 1, 3, 5⟩, ⟨1, 2, 3, 4⟩]

def oneInside : Vid → Bool := fun v => v == 1
def twoInside : Vid → Bool := fun v => v == 1 || v == 2

example : HypH oneInside (allFaces sphereComplex) := hypHRef_sound _ _ (by decide)
example : HypH twoInside (allFaces sphereComplex) := hypHRef_sound _ _ (by decide)
example : (marchTets oneInside sphereComplex).length = 4 := by decide
example : (marchTets twoInside sphereComplex).length = 8 := by decide
example : ∀ t ∈ sphereComplex, t.distinct := by decide
/-- (H) is not vacuous: a single tet with a sign change violates it, and its triangle is open -/
example : hypHRef oneInside (allFaces [⟨1, 2, 3, 4⟩]) = false := by decide
example : (dirEdges (marchTets oneInside [⟨1, 2, 3, 4⟩])).count ((1, 2), (1, 3)) ≠
    (dirEdges (marchTets oneInside [⟨1, 2, 3, 4⟩])).count (rev ((1, 2), (1, 3))) := by decide
example : dcQuad 1 2 3 4 true false = [(1, 2, 3), (3, 2, 4)] := by decide
example : dcQuad 1 2 2 4 true false = [(2, 2, 4)].filter (fun _ => false) ++ [] := by decide
example : dcQuad 1 1 3 4 false true = [(1, 3, 4), (1, 4, 1)].filter (fun t => t.1 != t.2.2) := by decide
example : Antisym (indic ((1, 2) : Edge Vid)) := indic_antisym _
/-- an admitted interleaving of a quadtree branch (N = 2): all install, then all decrement -/
example : (Libfive.Pool.brun (Libfive.Pool.BState.init (2 ^ 2))
    [.install 0, .install 1, .dec 1, .install 2, .install 3, .dec 0, .dec 3, .dec 2]).map (·.collectors) = some [2] := by
  decide
example : TetSetsDistinct sphereComplex := by
  unfold TetSetsDistinct sphereComplex; decide

end Libfive.C03
