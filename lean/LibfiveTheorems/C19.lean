/-
  C19 — Bounded QEF solutions stay in their cell and report their true error.
  Property theorems only; helper lemmas live in LibfiveProofs/QEFSelect.lean (control logic,
  no order axioms) and LibfiveProofs/QEFAlgebra.lean (matrix algebra over a field).

  The model is LibfiveModel/QEF.lean (`QEF<N>` of qef.hpp).  In every theorem the dense inner
  solver (`Solver α`, Eigen's eigen-decomposition pseudo-inverse in the C++) and, for the
  control-logic theorems, the comparison semantics (`QOrd α`) are ARBITRARY.
-/
import LibfiveProofs.QEFSelect
import LibfiveProofs.QEFAlgebra

namespace Libfive.C19
open Libfive.QEF

/-! ## Control logic of `solveBounded` (any comparison semantics, any candidates) -/

section select
variable {α : Type} [QOrd α] {n : Nat}

/-- **solveBounded_in_box** (selection logic).  Whatever the candidates are: if the corner
    (dimension-0) candidates are contained in the region and at least one of them has an error
    that compares `< +inf` (i.e. is not NaN and not `+inf`), the selected position satisfies
    `region.contains`.  No assumption on `<`, `<=`, `==` themselves. -/
theorem solveBounded_in_box (zero : α) (full : Solution n α) (cand : Nat → Solution n α)
    (r : Region n α)
    (hc : ∀ nb, nb < 3 ^ n → nbDim n nb = 0 → r.contains (cand nb).position = true)
    (he : ∃ nb, nb < 3 ^ n ∧ nbDim n nb = 0 ∧ QOrd.lt (cand nb).error QOrd.inf = true) :
    r.contains (selectBounded zero full cand r).position = true := by
  unfold selectBounded
  by_cases hf : r.contains full.position = true
  · simp [hf]
  · simp only [hf, Bool.false_eq_true, if_false]
    cases n with
    | zero => exact absurd (contains_zero r full.position) hf
    | succ m => exact unrollDimension_contains cand r hc he m (dummy (m + 1) zero) rfl

/-- **unconstrained_kept.** A full-dimension candidate that lies in the region is returned
    unchanged (position, value, rank, error, flags), whatever the other candidates are. -/
theorem unconstrained_kept (zero : α) (full : Solution n α) (cand : Nat → Solution n α)
    (r : Region n α) (h : r.contains full.position = true) :
    selectBounded zero full cand r = full := by
  simp [selectBounded, h]

/-- **result_is_candidate.** If every candidate error compares `< +inf` (and every dimension
    below `n` has a subspace, true for `n ≤ 3`: `subspaces_exist`), the result is the full
    candidate or one of the per-subspace candidates, and it is contained — never the dummy
    "empty solution", never a solution whose error field was overwritten with `+inf`. -/
theorem result_is_candidate (zero : α) (full : Solution n α) (cand : Nat → Solution n α)
    (r : Region n α)
    (hc : ∀ nb, nb < 3 ^ n → nbDim n nb = 0 → r.contains (cand nb).position = true)
    (hall : ∀ nb, nb < 3 ^ n → QOrd.lt (cand nb).error QOrd.inf = true)
    (hsub : ∀ d, d < n → ∃ nb, nb < 3 ^ n ∧ nbDim n nb = d) :
    (selectBounded zero full cand r = full ∧ r.contains full.position = true) ∨
    ∃ nb, nb < 3 ^ n ∧ selectBounded zero full cand r = cand nb ∧
      r.contains (cand nb).position = true := by
  unfold selectBounded
  by_cases hf : r.contains full.position = true
  · left; simp [hf]
  · right
    simp only [hf, Bool.false_eq_true, if_false]
    cases n with
    | zero => exact absurd (contains_zero r full.position) hf
    | succ m =>
      obtain ⟨nb, h1, _, h3, h4⟩ := unrollDimension_candidate cand r hc m (dummy (m + 1) zero) rfl
        (fun d hd => by
          obtain ⟨nb, h1, h2⟩ := hsub d (by omega)
          exact ⟨nb, h1, h2, hall nb h1⟩)
      exact ⟨nb, h1, h3, h4⟩

/-- every dimension `d < n` has a subspace, for the dimensions libfive instantiates -/
theorem subspaces_exist : ∀ n, n ≤ 3 → ∀ d, d < n → ∃ nb, nb < 3 ^ n ∧ nbDim n nb = d := by
  decide

end select

/-! ## `QEF<N>::solveBounded` with an arbitrary inner solver -/

section qef
set_option linter.unusedSectionVars false
variable {α : Type} [Add α] [Sub α] [Mul α] [Div α] [Neg α] [OfNat α 0] [OfNat α 1] [OfNat α 2]
  [QOrd α] {n : Nat}

/-- **solveBounded_in_box** (`QEF<N>::solveBounded`).  For EVERY inner solver: if the shrunk
    region is well-formed (bounds comparable, `lower ≤ upper`) and at least one corner candidate
    has an error comparing `< +inf`, the returned position satisfies `region_.contains`. -/
theorem qef_solveBounded_in_box (solver : Solver α) (q : QEF n α) (region : Region n α) (shrink : α)
    (tpos : Fin n → α) (tval : α) (hwf : (region.shrink shrink).WF)
    (he : ∃ nb, nb < 3 ^ n ∧ nbDim n nb = 0 ∧
      QOrd.lt (q.solveConstrained solver (region.shrink shrink) nb tpos tval).error QOrd.inf = true) :
    (region.shrink shrink).contains (q.solveBounded solver region shrink tpos tval).position = true :=
  solveBounded_in_box 0 _ _ _
    (fun nb _ h => corner_contained solver q _ hwf tpos tval nb h) he

/-- **solveBounded_in_box without the comparability hypothesis.**  `F` is any notion of
    "finite scalar" preserved by `+ − *` and comparing `< +inf` (for doubles: `isfinite`, absent
    overflow).  If the accumulated matrices and the shrunk region's bounds are finite, the region
    is well-formed, and the inner solver returns a finite distance value for at least one
    corner's 1×1 system, then the returned position is contained — for every solver, every target.
    Conversely the hypothesis of `qef_solveBounded_in_box` can only fail through a non-finite
    matrix entry (non-finite sample position/value — normals are sanitised by `insert` — or
    overflow), a non-finite box bound, or a non-finite solver output (e.g. a NaN `target_value`
    passed to the 4-argument overload). -/
theorem qef_solveBounded_in_box_finite (F : FinArith α) (solver : Solver α) (q : QEF n α)
    (region : Region n α) (shrink : α) (tpos : Fin n → α) (tval : α)
    (hwf : (region.shrink shrink).WF) (hq : q.Finite F)
    (hr : ∀ i, F.fin ((region.shrink shrink).lower i) ∧ F.fin ((region.shrink shrink).upper i))
    (hs : ∃ nb, nb < 3 ^ n ∧ nbDim n nb = 0 ∧
      F.fin ((solver (freeAxes n nb).length (q.reducedAtA nb) (q.reducedAtB (region.shrink shrink) nb)
        (reducedTarget nb tpos tval)).value (Fin.last _))) :
    (region.shrink shrink).contains (q.solveBounded solver region shrink tpos tval).position = true := by
  obtain ⟨nb, h1, h2, h3⟩ := hs
  exact qef_solveBounded_in_box solver q region shrink tpos tval hwf
    ⟨nb, h1, h2, corner_error_lt_inf F solver q _ tpos tval nb h2 hq hr h3⟩

/-- **candidate_on_face.** Every `solveConstrained<nb>` candidate, for every solver: on each axis
    the neighbour fixes, the position is *exactly* the face coordinate
    (`pos & (1<<i) ? upper(i) : lower(i)`) and the `constrained` flags are exactly the fixed axes. -/
theorem candidate_on_face (solver : Solver α) (q : QEF n α) (region : Region n α) (nb : Nat)
    (tpos : Fin n → α) (tval : α) (i : Fin n) :
    (q.solveConstrained solver region nb tpos tval).constrained i = nbFixed nb i.val ∧
    (nbFixed nb i.val = true →
      (q.solveConstrained solver region nb tpos tval).position i = region.face nb i) :=
  ⟨rfl, fun h => (solveConstrained_fixed solver q region nb tpos tval i h).1⟩

/-- **constrained_on_face.** The solution `solveBounded` returns (all candidate errors
    comparing `< +inf`, `n ≤ 3`): either it is the unconstrained solve with no axis flagged, or
    there is a subspace `nb` such that the flagged axes are exactly the axes `nb` fixes and each
    of them sits exactly on the corresponding face of the shrunk region. -/
theorem constrained_on_face (solver : Solver α) (q : QEF n α) (region : Region n α) (shrink : α)
    (tpos : Fin n → α) (tval : α) (hn : n ≤ 3) (hwf : (region.shrink shrink).WF)
    (hall : ∀ nb, nb < 3 ^ n →
      QOrd.lt (q.solveConstrained solver (region.shrink shrink) nb tpos tval).error QOrd.inf = true) :
    let res := q.solveBounded solver region shrink tpos tval
    (res = q.solve solver tpos tval ∧ ∀ i, res.constrained i = false) ∨
    ∃ nb, nb < 3 ^ n ∧ ∀ i, res.constrained i = nbFixed nb i.val ∧
      (res.constrained i = true → res.position i = (region.shrink shrink).face nb i) := by
  intro res
  rcases result_is_candidate (0 : α) (q.solve solver tpos tval)
      (fun nb => q.solveConstrained solver (region.shrink shrink) nb tpos tval) (region.shrink shrink)
      (fun nb _ h => corner_contained solver q _ hwf tpos tval nb h) hall
      (subspaces_exist n hn) with ⟨h, _⟩ | ⟨nb, h1, h2, _⟩
  · left
    have hres : res = q.solve solver tpos tval := h
    exact ⟨hres, fun i => by rw [hres]; rfl⟩
  · right
    have hres : res = q.solveConstrained solver (region.shrink shrink) nb tpos tval := h2
    refine ⟨nb, h1, fun i => ?_⟩
    rw [hres]
    exact ⟨rfl, fun hc => (solveConstrained_fixed solver q _ nb tpos tval i hc).1⟩

/-- **reported_error_is_qef.** The error `solveBounded` reports is the QEF expression
    `vᵀ·AtA·v − 2·vᵀ·AtB + BtB` evaluated at the returned `(position, value)` (same hypotheses). -/
theorem reported_error_is_qef (solver : Solver α) (q : QEF n α) (region : Region n α) (shrink : α)
    (tpos : Fin n → α) (tval : α) (hn : n ≤ 3) (hwf : (region.shrink shrink).WF)
    (hall : ∀ nb, nb < 3 ^ n →
      QOrd.lt (q.solveConstrained solver (region.shrink shrink) nb tpos tval).error QOrd.inf = true) :
    let res := q.solveBounded solver region shrink tpos tval
    res.error = q.error res.position res.value := by
  intro res
  rcases result_is_candidate (0 : α) (q.solve solver tpos tval)
      (fun nb => q.solveConstrained solver (region.shrink shrink) nb tpos tval) (region.shrink shrink)
      (fun nb _ h => corner_contained solver q _ hwf tpos tval nb h) hall
      (subspaces_exist n hn) with ⟨h, _⟩ | ⟨nb, _, h2, _⟩
  · have hres : res = q.solve solver tpos tval := h
    rw [hres]
    simp only [QEF.solve, QEF.error, snoc_headN]
  · have hres : res = q.solveConstrained solver (region.shrink shrink) nb tpos tval := h2
    rw [hres]
    rfl

/-- **qef_unconstrained_kept.** If the unconstrained solve lands in the shrunk region,
    `solveBounded` returns exactly that solution. -/
theorem qef_unconstrained_kept (solver : Solver α) (q : QEF n α) (region : Region n α) (shrink : α)
    (tpos : Fin n → α) (tval : α)
    (h : (region.shrink shrink).contains (q.solve solver tpos tval).position = true) :
    q.solveBounded solver region shrink tpos tval = q.solve solver tpos tval :=
  unconstrained_kept 0 _ _ _ h

end qef

/-! ## The accumulated matrices over a field -/

section field
variable {K : Type} [Field K] {n : Nat}

/-- **error_sum_of_squares** (identity).  For a QEF built from empty QEFs by `insert` and `+=`
    out of the samples `l`, for every position `x` and value `w`:
    `vᵀ·AtA·v − 2·vᵀ·AtB + BtB = Σ_s (n_s·(x − p_s) − (w − d_s))²`, `v = (x, w)`, where `n_s`
    is the sample's normal, or 0 if it had a non-finite component. -/
theorem error_sum_of_squares (fin : K → Bool) {q : QEF n K} {l : List (Sample n K)}
    (h : Built fin q l) (x : Fin n → K) (w : K) :
    q.error x w =
      (l.map (fun s => ((∑ k, effNormal fin s.nrm k * (x k - s.pos k)) - (w - s.val)) ^ 2)).sum := by
  unfold QEF.error
  rw [h.errorV_eq]
  simp only [residual_spec]

/-- in particular for `insert`ing the samples of a list one after the other -/
theorem error_sum_of_squares_ofSamples (fin : K → Bool) (l : List (Sample n K)) (x : Fin n → K) (w : K) :
    (QEF.ofSamples fin l).error x w =
      (l.map (fun s => ((∑ k, effNormal fin s.nrm k * (x k - s.pos k)) - (w - s.val)) ^ 2)).sum := by
  rw [error_sum_of_squares fin (ofSamples_built fin l), List.map_reverse, List.sum_reverse]

/-- **accumulate_comm_assoc.** `+=` is commutative and associative with the empty QEF as unit;
    inserting samples one by one equals `+=` of separately built parts; and the result does not
    depend on the order in which samples are inserted. -/
theorem accumulate_comm_assoc (fin : K → Bool) :
    (∀ a b : QEF n K, a.add b = b.add a) ∧
    (∀ a b c : QEF n K, (a.add b).add c = a.add (b.add c)) ∧
    (∀ a : QEF n K, a.add (QEF.empty n) = a) ∧
    (∀ l₁ l₂ : List (Sample n K),
      QEF.ofSamples fin (l₁ ++ l₂) = (QEF.ofSamples fin l₁).add (QEF.ofSamples fin l₂)) ∧
    (∀ l₁ l₂ : List (Sample n K), l₁.Perm l₂ → QEF.ofSamples fin l₁ = QEF.ofSamples fin l₂) :=
  ⟨add_comm', add_assoc', add_empty, ofSamples_append fin, fun _ _ h => ofSamples_perm fin h⟩

/-- **reduced_system.** `solveConstrained`'s elimination: dropping the rows/columns of the fixed
    axes and subtracting `AtA(row, col)·face(col)` from the right-hand side gives, row by row,
    the normal equations `AtA·v − AtB` of the full problem at any `v` that sits on the face. -/
theorem reduced_system (q : QEF n K) (region : Region n K) (nb : Nat) (v : Fin (n + 1) → K)
    (hv : ∀ i : Fin n, nbFixed nb i.val = true → v i.castSucc = region.face nb i)
    (r : Fin ((freeAxes n nb).length + 1)) :
    (∑ c, q.reducedAtA nb r c * v (liftIdx (freeAxes n nb) c)) - q.reducedAtB region nb r =
      (∑ j, q.AtA (liftIdx (freeAxes n nb) r) j * v j) - q.AtB (liftIdx (freeAxes n nb) r) :=
  reduced_row q region nb v hv r

/-- `sub<mask>` commutes with `+=` (the call sites accumulate `sub`s of leaf QEFs) -/
theorem sub_accumulate (a b : QEF n K) (mask : Nat) :
    (a.add b).sub mask = (a.sub mask).add (b.sub mask) := sub_add a b mask

end field

section ordered
variable {K : Type} [Field K] [LinearOrder K] [IsStrictOrderedRing K] {n : Nat}

/-- **error_nonneg.** The error of a QEF built by `insert`/`+=` is non-negative everywhere. -/
theorem error_nonneg (fin : K → Bool) {q : QEF n K} {l : List (Sample n K)} (h : Built fin q l)
    (x : Fin n → K) (w : K) : 0 ≤ q.error x w :=
  h.errorV_nonneg _

/-- **reduced_system_optimal.** For a QEF built by `insert`/`+=`: a vector on the face of `nb`
    whose free components (floating axes and value) solve the reduced system minimises the error
    among all vectors on that face — the reduced system is the normal equation of the
    restricted least-squares problem. -/
theorem reduced_system_optimal (fin : K → Bool) {q : QEF n K} {l : List (Sample n K)}
    (h : Built fin q l) (region : Region n K) (nb : Nat) (v v' : Fin (n + 1) → K)
    (hv : ∀ i : Fin n, nbFixed nb i.val = true → v i.castSucc = region.face nb i)
    (hv' : ∀ i : Fin n, nbFixed nb i.val = true → v' i.castSucc = region.face nb i)
    (hsol : ∀ r, (∑ c, q.reducedAtA nb r c * v (liftIdx (freeAxes n nb) c)) = q.reducedAtB region nb r) :
    q.errorV v ≤ q.errorV v' :=
  h.reduced_optimal region nb v v' hv hv' hsol

/-- **candidate_minimises_on_face.** For a QEF built by `insert`/`+=` and ANY inner solver: if the
    solver's output solves the reduced system of subspace `nb` exactly, the candidate returned by
    `solveConstrained<nb>` (face coordinates on the fixed axes, the solver's components placed
    by the unpacking loop on the floating axes, its last component as value) has the smallest
    error among all `(x', w')` whose fixed axes lie on that face. -/
theorem candidate_minimises_on_face (fin : K → Bool) {q : QEF n K} {l : List (Sample n K)}
    (h : Built fin q l) (solver : Solver K) (region : Region n K) (nb : Nat) (tpos : Fin n → K)
    (tval : K)
    (hexact : ∀ r, (∑ c, q.reducedAtA nb r c *
        (solver (freeAxes n nb).length (q.reducedAtA nb) (q.reducedAtB region nb)
          (reducedTarget nb tpos tval)).value c) = q.reducedAtB region nb r)
    (x' : Fin n → K) (w' : K) (hx' : ∀ i : Fin n, nbFixed nb i.val = true → x' i = region.face nb i) :
    (q.solveConstrained solver region nb tpos tval).error ≤ q.error x' w' :=
  h.candidate_optimal solver region nb tpos tval hexact x' w' hx'

/-- **shrink_inside.** For `0 ≤ shrink ≤ 1` the shrunk region of a well-formed box is a
    well-formed sub-box, so a position contained in it is contained in the cell. -/
theorem shrink_inside (r : Region n K) (p : K) (hb : ∀ i, r.lower i ≤ r.upper i) (hp0 : 0 ≤ p)
    (hp1 : p ≤ 1) (i : Fin n) :
    r.lower i ≤ (r.shrink p).lower i ∧ (r.shrink p).lower i ≤ (r.shrink p).upper i ∧
      (r.shrink p).upper i ≤ r.upper i :=
  shrink_bounds (r.lower i) (r.upper i) p (hb i) hp0 hp1

end ordered

/-! ## Satisfiability of the hypotheses (concrete instances, checked by the kernel) -/

section examples

/-- 1-D region `[0, 10]` over the miniature extended numbers -/
def exRegion : Region 1 Ext := { lower := fun _ => 0, upper := fun _ => 10 }

def exSol (p : Ext) (c : Bool) (e : Ext) : Solution 1 Ext :=
  { position := fun _ => p, constrained := fun _ => c, value := 0, rank := 0, error := e }

/-- candidates: lower corner (error 5), upper corner (error 3), the floating "edge" escapes to 20 -/
def exCand : Nat → Solution 1 Ext
  | 0 => exSol 0 true 5
  | 1 => exSol 10 true 3
  | _ => exSol 20 false 1

-- hypotheses of `solveBounded_in_box` / `result_is_candidate` hold, and the search picks the
-- upper corner
example : ∀ nb, nb < 3 ^ 1 → nbDim 1 nb = 0 → exRegion.contains (exCand nb).position = true := by decide
example : ∃ nb, nb < 3 ^ 1 ∧ nbDim 1 nb = 0 ∧ QOrd.lt (exCand nb).error (QOrd.inf : Ext) = true :=
  ⟨0, by decide⟩
example : ∀ nb, nb < 3 ^ 1 → QOrd.lt (exCand nb).error (QOrd.inf : Ext) = true := by decide
example : (selectBounded 0 (exSol 20 false 1) exCand exRegion).position 0 = 10 := by decide
-- a NaN corner error is tolerated as long as one corner is comparable
example : ∃ nb, nb < 3 ^ 1 ∧ nbDim 1 nb = 0 ∧
    QOrd.lt ((fun nb => if nb = 0 then exSol 0 true .nan else exCand nb) nb).error (QOrd.inf : Ext) = true :=
  ⟨1, by decide⟩
-- `unconstrained_kept`: an in-box full candidate
example : exRegion.contains (exSol 4 false 1).position = true := by decide

/-- a QEF with one sample `x = 20` (normal 1, value 0 at position 20) and a solver that simply
    returns its target -/
def exQ : QEF 1 Ext := QEF.ofSamples (fun _ => true) [{ pos := fun _ => 20, nrm := fun _ => 1, val := 0 }]
def exSolver : Solver Ext := fun _ _ _ t => ⟨t, 1⟩

-- hypotheses of the `QEF`-level theorems: shrink = 1 keeps `[0,10]`, which is well-formed, and all
-- three candidate errors are finite
example : (exRegion.shrink 1).WF := by unfold Region.WF; decide
example : ∀ nb, nb < 3 ^ 1 →
    QOrd.lt (exQ.solveConstrained exSolver (exRegion.shrink 1) nb (fun _ => 20) 0).error QOrd.inf = true := by
  decide
example : (exQ.solveBounded exSolver exRegion 1 (fun _ => 20) 0).position 0 = 10 := by decide
-- hypotheses of `qef_solveBounded_in_box_finite` with `F = extFinArith`
example : exQ.Finite extFinArith := by
  have h : ∀ i j : Fin 2, (exQ.AtA i j).isFin = true ∧ (exQ.AtBp i j).isFin = true ∧
      (exQ.BptBp i j).isFin = true := by decide
  exact fun i j => ⟨extFin_of_isFin (h i j).1, extFin_of_isFin (h i j).2.1, extFin_of_isFin (h i j).2.2⟩
example : ∀ i, extFinArith.fin ((exRegion.shrink 1).lower i) ∧ extFinArith.fin ((exRegion.shrink 1).upper i) := by
  have h : ∀ i : Fin 1, ((exRegion.shrink 1).lower i).isFin = true ∧ ((exRegion.shrink 1).upper i).isFin = true := by
    decide
  exact fun i => ⟨extFin_of_isFin (h i).1, extFin_of_isFin (h i).2⟩
example : ∃ nb, nb < 3 ^ 1 ∧ nbDim 1 nb = 0 ∧
    extFinArith.fin ((exSolver (freeAxes 1 nb).length (exQ.reducedAtA nb) (exQ.reducedAtB (exRegion.shrink 1) nb)
      (reducedTarget nb (fun _ => 20) 0)).value (Fin.last _)) :=
  ⟨0, by decide, by decide, extFin_of_isFin (by decide)⟩

-- `error_sum_of_squares`: `Built` is inhabited beyond the empty QEF
example : Built (fun _ : ℚ => true) ((QEF.empty 1).insert (fun _ => true)
    { pos := fun _ => 2, nrm := fun _ => 1, val := 0 }) [{ pos := fun _ => 2, nrm := fun _ => 1, val := 0 }] :=
  Built.insert _ Built.empty
-- `reduced_system` / `reduced_system_optimal`: in 1-D with the axis fixed at the upper face
-- (`nb = 1`) of `[0,1]`, the vector `v = (1, w)` sits on the face for every `w`
example : ∃ (region : Region 1 ℚ) (v : Fin 2 → ℚ),
    ∀ i : Fin 1, nbFixed 1 i.val = true → v i.castSucc = region.face 1 i :=
  ⟨{ lower := fun _ => 0, upper := fun _ => 1 }, fun _ => 1, fun i _ => by simp [Region.face, nbUpper, nbDigit]⟩
-- `candidate_minimises_on_face`: the exactness hypothesis is satisfiable (trivially so for the empty
-- QEF, whose reduced systems are `0·x = 0`, with any solver, in any dimension)
example (solver : Solver ℚ) (region : Region 2 ℚ) (nb : Nat) (t : Fin 2 → ℚ) :
    ∀ r, (∑ c, (QEF.empty 2 : QEF 2 ℚ).reducedAtA nb r c *
        (solver (freeAxes 2 nb).length ((QEF.empty 2 : QEF 2 ℚ).reducedAtA nb)
          ((QEF.empty 2 : QEF 2 ℚ).reducedAtB region nb) (reducedTarget nb t 0)).value c) =
      (QEF.empty 2 : QEF 2 ℚ).reducedAtB region nb r := by
  intro r
  simp [QEF.reducedAtA, QEF.reducedAtB, QEF.empty, QEF.AtB, sumFin_eq_sum]
-- `shrink_inside`
example : ∃ (r : Region 1 ℚ) (p : ℚ), (∀ i, r.lower i ≤ r.upper i) ∧ 0 ≤ p ∧ p ≤ 1 :=
  ⟨{ lower := fun _ => 0, upper := fun _ => 1 }, 1 / 2, by intro i; norm_num, by norm_num, by norm_num⟩

end examples

end Libfive.C19
