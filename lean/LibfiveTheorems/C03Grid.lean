/-
  C03 on the uniform simplex grid — hypothesis (H) of the lifting theorem `marching_closed` and
  the two side hypotheses of `marching_manifold` are THEOREMS for the tet complex the simplex
  mesher marches on an `n1 × n2 × n3` grid of equally sized cells (all leaves ambiguous, same
  level, nothing collapsed), for every sign assignment that is uniform on the outer boundary.
  Property theorems only; the model is LibfiveModel/SimplexGrid.lean (built from the regenerated
  `cell_vertices` / `tet_vertices`), the helper lemmas are in LibfiveProofs/SimplexGrid.lean.
-/
import LibfiveTheorems.C03
import LibfiveProofs.SimplexGrid

namespace Libfive.C03
open Libfive.Marching Libfive.SimplexGrid Generated.MeshTables

/-- **grid_reference_cell (T).**  Decided over the regenerated `cell_vertices` / `tet_vertices`:
    every triangular face of the 48 tets of one cell either contains the cell vertex and is then
    shared by exactly two tets of the cell with opposite induced orientation, or lies in one of
    the six squares of the cell, occurs once in the cell, and its translate by one cell across
    that square occurs exactly once in the cell with the OPPOSITE orientation. -/
theorem grid_reference_cell : refFaces.all faceOK = true ∧ refCell.length = 48 :=
  ⟨refFacts, by decide⟩

/-- **grid_hypH.**  Hypothesis (H) holds on every uniform grid: for all `n1 n2 n3` and every sign
    function that is constant on the subspace vertices of the outer boundary, every face triple of
    the marched complex that is not sign-uniform occurs exactly once with each orientation. -/
theorem grid_hypH (n1 n2 n3 : Nat) (s : Vid → Bool) (hb : BoundaryUniform n1 n2 n3 s) :
    HypH s (allFaces (gridTets n1 n2 n3)) :=
  gridTets_hypH n1 n2 n3 s hb

/-- **grid_distinct.**  Every tet of the grid complex has four distinct vertex ids. -/
theorem grid_distinct (n1 n2 n3 : Nat) : ∀ t ∈ gridTets n1 n2 n3, t.distinct :=
  gridTets_distinct n1 n2 n3

/-- **grid_tetsets_distinct.**  No two tets of the grid complex have the same vertex set. -/
theorem grid_tetsets_distinct (n1 n2 n3 : Nat) : TetSetsDistinct (gridTets n1 n2 n3) :=
  gridTets_setsDistinct n1 n2 n3

/-- the numbering of the lattice points is injective on the grid (so `vid` is a faithful stand-in
    for the unique `index` `assignIndices` gives to each shared subspace object) -/
theorem grid_vid_injective (n1 n2 n3 : Nat) (p q : Pt) (hp : inGrid n1 n2 n3 p)
    (hq : inGrid n1 n2 n3 q) (h : vid n1 n2 p = vid n1 n2 q) : p = q :=
  vid_inj n1 n2 p q ⟨hp.1, hp.2.1⟩ ⟨hq.1, hq.2.1⟩ h

/-- **grid_marching_closed_manifold.**  On every uniform grid and for every boundary-uniform sign
    assignment the triangles the simplex mesher emits form a closed, consistently oriented,
    edge-manifold surface: every directed edge is used exactly as often as its reverse, and at
    most once. -/
theorem grid_marching_closed_manifold (n1 n2 n3 : Nat) (s : Vid → Bool)
    (hb : BoundaryUniform n1 n2 n3 s) (e : Edge (SV Vid)) :
    (dirEdges (marchTets s (gridTets n1 n2 n3))).count e =
        (dirEdges (marchTets s (gridTets n1 n2 n3))).count (rev e) ∧
      (dirEdges (marchTets s (gridTets n1 n2 n3))).count e ≤ 1 :=
  ⟨marching_closed s _ (grid_hypH n1 n2 n3 s hb) e,
   marching_manifold s _ (grid_hypH n1 n2 n3 s hb) (grid_distinct n1 n2 n3)
     (grid_tetsets_distinct n1 n2 n3) e⟩

/-- no emitted triangle repeats a surface vertex -/
theorem grid_marching_no_repeated_vertex (n1 n2 n3 : Nat) (s : Vid → Bool) (tri : Tri (SV Vid))
    (h : tri ∈ marchTets s (gridTets n1 n2 n3)) : triDegenerate tri = false :=
  marching_no_repeated_vertex s _ (grid_distinct n1 n2 n3) tri h

/-! ## the literal loop order of `Dual<3>` / `SimplexMesher::load`

`gridTetsByEdge` enumerates the tets exactly as the code does: for every axis `A`, every lattice
edge along `A` (including the edges on the outer faces / outer edges of the grid, which
`handleTopEdges` supplies), the cells `ts[0], ts[1], ts[3], ts[2]` around it that exist, the rows
of `tet_vertices` through `cell_vertices[i]`.  It is a permutation of the per-cell list. -/

/-- **grid_by_edge_perm.**  The per-edge enumeration of the code and the per-cell enumeration of
    the model list the same tets with the same multiplicities. -/
theorem grid_by_edge_perm (n1 n2 n3 : Nat) : (gridTetsByEdge n1 n2 n3).Perm (gridTets n1 n2 n3) :=
  gridTetsByEdge_perm n1 n2 n3

/-- (H) for the complex in the order the mesher marches it -/
theorem grid_by_edge_hypH (n1 n2 n3 : Nat) (s : Vid → Bool) (hb : BoundaryUniform n1 n2 n3 s) :
    HypH s (allFaces (gridTetsByEdge n1 n2 n3)) :=
  hypH_perm s (allFaces_perm (grid_by_edge_perm n1 n2 n3)) (grid_hypH n1 n2 n3 s hb)

theorem grid_by_edge_distinct (n1 n2 n3 : Nat) : ∀ t ∈ gridTetsByEdge n1 n2 n3, t.distinct :=
  fun t ht => grid_distinct n1 n2 n3 t ((grid_by_edge_perm n1 n2 n3).mem_iff.mp ht)

theorem grid_by_edge_tetsets_distinct (n1 n2 n3 : Nat) : TetSetsDistinct (gridTetsByEdge n1 n2 n3) :=
  tetSetsDistinct_perm (grid_by_edge_perm n1 n2 n3) (grid_tetsets_distinct n1 n2 n3)

/-- **grid_by_edge_marching_closed_manifold.**  The statement of `grid_marching_closed_manifold`
    for the triangle list in the order `SimplexMesher::load` emits it. -/
theorem grid_by_edge_marching_closed_manifold (n1 n2 n3 : Nat) (s : Vid → Bool)
    (hb : BoundaryUniform n1 n2 n3 s) (e : Edge (SV Vid)) :
    (dirEdges (marchTets s (gridTetsByEdge n1 n2 n3))).count e =
        (dirEdges (marchTets s (gridTetsByEdge n1 n2 n3))).count (rev e) ∧
      (dirEdges (marchTets s (gridTetsByEdge n1 n2 n3))).count e ≤ 1 :=
  ⟨marching_closed s _ (grid_by_edge_hypH n1 n2 n3 s hb) e,
   marching_manifold s _ (grid_by_edge_hypH n1 n2 n3 s hb) (grid_by_edge_distinct n1 n2 n3)
     (grid_by_edge_tetsets_distinct n1 n2 n3) e⟩

/-! ## satisfiability of the hypotheses -/

/-- the 2 × 2 × 2 grid with only the centre corner (lattice point (2,2,2)) inside -/
def centreInside : Vid → Bool := fun v => v == vid 2 2 (2, 2, 2)

example : BoundaryUniform 2 2 2 centreInside := by
  refine ⟨false, ?_⟩
  rintro ⟨x, y, z⟩ hg hb
  simp only [inGrid, onBoundary] at hg hb
  simp only [centreInside, vid, vidW, beq_eq_false_iff_ne, ne_eq, Nat.reduceMul, Nat.reduceAdd] at hg hb ⊢
  show ¬ (x + 5 * (y + 5 * z) : Nat) = 62
  omega

/-- the hypothesis is not vacuous and the conclusion not trivial: 48 triangles are emitted
    (6 tets in each of the 8 cells contain the centre corner) -/
example : (marchTets centreInside (gridTets 2 2 2)).length = 48 := by decide +kernel
example : (marchTets centreInside (gridTetsByEdge 2 2 2)).length = 48 := by decide +kernel
example : (gridTets 2 2 2).length = 384 := by decide +kernel
example : (gridTetsByEdge 2 2 2).length = 384 := by decide +kernel
/-- 1 × 1 × 2 grid with the vertex of the square between the two cells inside -/
example : BoundaryUniform 1 1 2 (fun v => v == vid 1 1 (1, 1, 2)) := by
  refine ⟨false, ?_⟩
  rintro ⟨x, y, z⟩ hg hb
  simp only [inGrid, onBoundary] at hg hb
  simp only [vid, vidW, beq_eq_false_iff_ne, ne_eq, Nat.reduceMul, Nat.reduceAdd] at hg hb ⊢
  show ¬ (x + 3 * (y + 3 * z) : Nat) = 22
  omega
/-- ... and (H) of that instance re-checked by the driver's reference implementation -/
example : hypHRef (fun v => v == vid 1 1 (1, 1, 2)) (allFaces (gridTetsByEdge 1 1 2)) = true := by
  decide +kernel
/-- without boundary uniformity (H) fails: a corner of the grid inside -/
example : hypHRef (fun v => v == vid 1 1 (0, 0, 0)) (allFaces (gridTets 1 1 1)) = false := by
  decide +kernel
/-- `gridCells` is not empty for positive sizes -/
example : (1, 1, 1) ∈ gridCells 2 2 2 := by decide

end Libfive.C03
