/-
  C14 — Trees are immutable values that may be shared across threads.
  Property theorems only (helpers: LibfiveProofs/RefCountConc.lean).

  The object is the atomic-step acceptor `cstep` / `crun` of LibfiveModel/RefCountConc.lean: a trace
  is *accepted* iff every event is consistent with one sequentially consistent atomic counter per
  node and with the protocol of `Tree::~Tree`.  Driver/C14.lean runs exactly this function on the
  thread-tagged event log of the instrumented library, so every theorem below applies to every
  schedule the stress harness produces — and to every other accepted interleaving.

  The second half (helpers: LibfiveProofs/RefCountProg.lean) is about per-thread PROGRAMS of copy /
  destroy operations over a shared immutable DAG (LibfiveModel/RefCountProg.lean): the decrements
  that reach zero spawn the child decrements dynamically, in whichever thread happened to be last.
  `interleaving_confluent` is the full confluence statement for all schedules, thread counts,
  programs and DAGs.
-/
import LibfiveProofs.RefCountConc
import LibfiveProofs.RefCountProg
import Generated.Statics

namespace Libfive.C14
open Libfive.RCC

theorem crun_cons {s s' : CState} {e : Ev} {es : List Ev} (h : crun s (e :: es) = some s') :
    ∃ s1, cstep s e = some s1 ∧ crun s1 es = some s' := by
  simp only [crun] at h
  split at h
  · rename_i s1 h1; exact ⟨s1, h1, h⟩
  · cases h

theorem crun_account : ∀ (tr : List Ev) (s s' : CState), crun s tr = some s' → ∀ n,
    cl s'[n]? + total (isSub n) tr = cl s[n]? + total (isAdd n) tr ∧
    zphase s'[n]? = zphase s[n]? + total (isZero n) tr ∧
    dphase s'[n]? = dphase s[n]? + total (isDel n) tr := by
  intro tr
  induction tr with
  | nil => intro s s' h n; simp only [crun, Option.some.injEq] at h; subst h; simp [total]
  | cons e es ih =>
    intro s s' h n
    obtain ⟨s1, h1, h2⟩ := crun_cons h
    obtain ⟨a1, a2, a3⟩ := cstep_account h1 n
    obtain ⟨b1, b2, b3⟩ := ih s1 s' h2 n
    simp only [total]
    refine ⟨by omega, by omega, by omega⟩

/-- **interleaving_confluent_partial.**  Two accepted interleavings that contain, for every node,
    the same number of increments and of decrements (whatever thread performs them, in whatever
    order, whatever values were observed on the way) end with the same count on every node —
    freed / dying / never allocated counting as 0.  In particular every accepted interleaving of the
    per-thread step sequences ends in the counter state of their sequential composition: the final
    count is `initial + #fetch_add − #fetch_sub`, a function of the multiset of steps only.

    Full statement: for per-thread *programs* of copy / destroy operations (decrements that reach
    zero spawn the child decrements dynamically, in whichever thread happened to be last) every
    interleaving reaches the same final heap — same set of freed nodes, same counts — as running
    the programs one after the other.  This lemma does not cover the dynamic cascade (the
    hypothesis "same number of steps per node" stands in for it); the full statement is proved
    below as `interleaving_confluent` / `interleaving_confluent_seq` on the program-level model
    LibfiveModel/RefCountProg.lean.  (move / assign / release are compositions of copy and destroy
    on the counters — see `RC.step` of C13 — and are not separate program ops there.) -/
theorem interleaving_confluent_partial (s s1 s2 : CState) (tr1 tr2 : List Ev)
    (h1 : crun s tr1 = some s1) (h2 : crun s tr2 = some s2)
    (hc : ∀ n, total (isAdd n) tr1 = total (isAdd n) tr2 ∧ total (isSub n) tr1 = total (isSub n) tr2) :
    ∀ n : Nat, cl s1[n]? = cl s2[n]? := by
  intro n
  have a := (crun_account tr1 s s1 h1 n).1
  have b := (crun_account tr2 s s2 h2 n).1
  have := hc n
  omega

/-- the final count of a node that is still live is `initial + adds − subs` -/
theorem final_count (s s' : CState) (tr : List Ev) (h : crun s tr = some s') (n r r' : Nat)
    (h0 : s[n]? = some (.live r)) (h1 : s'[n]? = some (.live r')) :
    r' + total (isSub n) tr = r + total (isAdd n) tr := by
  have := (crun_account tr s s' h n).1
  simpa [h0, h1, cl] using this

/-- **unique_deleter.**  In every accepted trace, for every node that was not already dying or freed
    at the start: at most one step observes the 1 → 0 transition and at most one step deletes it;
    if the node ends up freed, exactly one step observed 1 → 0 and exactly one step deleted it. -/
theorem unique_deleter (s s' : CState) (tr : List Ev) (h : crun s tr = some s') (n : Nat)
    (h0 : zphase s[n]? = 0) :
    total (isZero n) tr ≤ 1 ∧ total (isDel n) tr ≤ 1 ∧
    (s'[n]? = some .freed → total (isZero n) tr = 1 ∧ total (isDel n) tr = 1) := by
  obtain ⟨_, hz, hd⟩ := crun_account tr s s' h n
  have hz1 : zphase s'[n]? ≤ 1 := by
    cases hh : s'[n]? with
    | none => simp [zphase]
    | some c => cases c <;> simp [zphase]
  have hd1 : dphase s'[n]? ≤ 1 := by
    cases hh : s'[n]? with
    | none => simp [dphase]
    | some c => cases c <;> simp [dphase]
  have hd0 : dphase s[n]? = 0 := by
    cases hh : s[n]? with
    | none => simp [dphase]
    | some c =>
      cases c with
      | live r => simp [dphase]
      | dying t => simp [hh, zphase] at h0
      | freed => simp [hh, zphase] at h0
  rw [h0] at hz
  rw [hd0] at hd
  refine ⟨by omega, by omega, fun hf => ?_⟩
  simp only [hf, zphase, dphase] at hz hd
  omega

theorem dying_origin : ∀ (tr : List Ev) (s s' : CState), crun s tr = some s' → ∀ n t,
    s'[n]? = some (.dying t) → s[n]? = some (.dying t) ∨ Ev.sub t n 1 ∈ tr := by
  intro tr
  induction tr with
  | nil => intro s s' h n t hd; simp only [crun, Option.some.injEq] at h; subst h; exact Or.inl hd
  | cons e es ih =>
    intro s s' h n t hd
    obtain ⟨s1, h1, h2⟩ := crun_cons h
    rcases ih s1 s' h2 n t hd with h3 | h3
    · by_cases hn : e.node = n
      · rcases cstep_self h1 with ⟨t', m, rfl, _, h5⟩ | ⟨t', m, r, rfl, _, h5⟩ | ⟨t', m, r, rfl, _, h5⟩ |
          ⟨t', m, rfl, _, h5⟩ | ⟨t', m, rfl, _, h5⟩ <;> simp only [Ev.node] at hn <;> subst hn <;>
          rw [h5] at h3 <;> simp at h3
        subst h3
        exact Or.inr (by simp)
      · rw [cstep_frame h1 n hn] at h3; exact Or.inl h3
    · exact Or.inr (List.mem_cons_of_mem _ h3)

/-- **deleter_is_observer.**  A node freed during an accepted trace was deleted by the very thread
    whose decrement observed 1 → 0. -/
theorem deleter_is_observer : ∀ (tr : List Ev) (s s' : CState), crun s tr = some s' → ∀ n,
    s'[n]? = some .freed → s[n]? = some .freed ∨
      ∃ t, (s[n]? = some (.dying t) ∨ Ev.sub t n 1 ∈ tr) ∧ Ev.del t n ∈ tr := by
  intro tr
  induction tr with
  | nil => intro s s' h n hf; simp only [crun, Option.some.injEq] at h; subst h; exact Or.inl hf
  | cons e es ih =>
    intro s s' h n hf
    obtain ⟨s1, h1, h2⟩ := crun_cons h
    rcases ih s1 s' h2 n hf with h3 | ⟨t, h3, h4⟩
    · by_cases hn : e.node = n
      · rcases cstep_self h1 with ⟨t', m, rfl, _, h5⟩ | ⟨t', m, r, rfl, _, h5⟩ | ⟨t', m, r, rfl, _, h5⟩ |
          ⟨t', m, rfl, _, h5⟩ | ⟨t', m, rfl, h6, h5⟩ <;> simp only [Ev.node] at hn <;> subst hn <;>
          rw [h5] at h3 <;> simp at h3
        exact Or.inr ⟨t', Or.inl h6, by simp⟩
      · rw [cstep_frame h1 n hn] at h3; exact Or.inl h3
    · refine Or.inr ⟨t, ?_, List.mem_cons_of_mem _ h4⟩
      rcases h3 with h3 | h3
      · rcases dying_origin [e] s s1 (by simp [crun, h1]) n t h3 with h5 | h5
        · exact Or.inl h5
        · have h6 : Ev.sub t n 1 = e := by simpa using h5
          exact Or.inr (by simp [h6])
      · exact Or.inr (List.mem_cons_of_mem _ h3)

theorem freed_untouched : ∀ (post : List Ev) (s s' : CState), crun s post = some s' → ∀ n,
    s[n]? = some .freed → ∀ e ∈ post, e.node ≠ n := by
  intro post
  induction post with
  | nil => intro s s' _ n _ e he; cases he
  | cons e0 es ih =>
    intro s s' h n hf e he
    obtain ⟨s1, h1, h2⟩ := crun_cons h
    have hne : e0.node ≠ n := by
      intro hn
      rcases cstep_self h1 with ⟨t', m, rfl, h5, _⟩ | ⟨t', m, r, rfl, h5, _⟩ | ⟨t', m, r, rfl, h5, _⟩ |
        ⟨t', m, rfl, h5, _⟩ | ⟨t', m, rfl, h5, _⟩ <;> simp only [Ev.node] at hn <;> subst hn <;>
        rw [h5] at hf <;> simp at hf
    cases he with
    | head => exact hne
    | tail _ he' =>
      exact ih s1 s' h2 n (by rw [cstep_frame h1 n hne]; exact hf) e he'

theorem crun_append : ∀ (a b : List Ev) (s s' : CState), crun s (a ++ b) = some s' →
    ∃ s1, crun s a = some s1 ∧ crun s1 b = some s' := by
  intro a
  induction a with
  | nil => intro b s s' h; exact ⟨s, rfl, h⟩
  | cons e es ih =>
    intro b s s' h
    obtain ⟨s1, h1, h2⟩ := crun_cons (by simpa using h)
    obtain ⟨s2, h3, h4⟩ := ih b s1 s' h2
    exact ⟨s2, by simp [crun, h1, h3], h4⟩

/-- **no_use_after_free_conc.**  In an accepted trace no step — by any thread — touches a node
    after the step that deleted it (node ids name allocations: an address that is reused is a new id). -/
theorem no_use_after_free_conc (s s' : CState) (pre post : List Ev) (t n : Nat)
    (h : crun s (pre ++ Ev.del t n :: post) = some s') : ∀ e ∈ post, e.node ≠ n := by
  obtain ⟨s1, _, h2⟩ := crun_append pre _ s s' h
  obtain ⟨s2, h3, h4⟩ := crun_cons h2
  have hf : s2[n]? = some .freed := by
    rcases cstep_self h3 with ⟨t', m, he, _, _⟩ | ⟨t', m, r, he, _, _⟩ | ⟨t', m, r, he, _, _⟩ |
      ⟨t', m, he, _, _⟩ | ⟨t', m, he, _, h5⟩ <;> cases he
    exact h5
  exact freed_untouched post s2 s' h4 n hf

/-! ## Full confluence: per-thread programs, dynamic cascade, all interleavings

  Model: LibfiveModel/RefCountProg.lean.  `RCP.run G s sched` executes the schedule `sched` (a list
  of thread ids, one atomic micro-step each: `fetch_add`, `fetch_sub`, `delete` + stealing the
  children onto the thread's own work stack, starting the next program op) and returns `none` on a
  fault.  `RCP.Inv G s` is the ownership invariant
      live node : rc n = pins n + handles n + pending decrements of n + members of live nodes pointing to n
      freed node: none of these exist, and nobody deletes it again
      a node being deleted (counter 0, one thread responsible) is neither
  together with "each thread's program only copies / destroys handles it owns (or copies a pin)".
  It is the only hypothesis on the start state (`init_inv`: it follows from the checkable `RCP.Init`). -/

section Prog
open Libfive.RCP

/-- **interleaving_confluent** (full statement of C14's "for all interleavings").  For every DAG,
    every number of threads, all programs and every start state satisfying the ownership invariant:
    ANY two schedules that run all threads to completion (all programs consumed, all work stacks
    empty, no delete in flight) end in the SAME state — same counters, same freed set, same handle
    tables — whichever thread happened to observe the last decrement of each node and therefore did
    the cascade of child decrements and the delete. -/
theorem interleaving_confluent (G : Graph) (hG : G.acyclic) (s0 s1 s2 : State) (tr1 tr2 : List Nat)
    (h0 : Inv G s0) (h1 : run G s0 tr1 = some s1) (h2 : run G s0 tr2 = some s2)
    (d1 : s1.done) (d2 : s2.done) : s1 = s2 :=
  final_unique hG (run_inv tr1 s0 s1 h0 h1) (run_inv tr2 s0 s2 h0 h2)
    (run_rel tr1 s0 s1 h0 (rel_refl s0) h1) (run_rel tr2 s0 s2 h0 (rel_refl s0) h2) d1 d2

/-- the two observable components, as stated in the property -/
theorem interleaving_confluent_heap (G : Graph) (hG : G.acyclic) (s0 s1 s2 : State)
    (tr1 tr2 : List Nat) (h0 : Inv G s0) (h1 : run G s0 tr1 = some s1) (h2 : run G s0 tr2 = some s2)
    (d1 : s1.done) (d2 : s2.done) : (∀ n, s1.rc n = s2.rc n) ∧ (∀ n, s1.freed n = s2.freed n) := by
  have := interleaving_confluent G hG s0 s1 s2 tr1 tr2 h0 h1 h2 d1 d2
  subst this
  exact ⟨fun _ => rfl, fun _ => rfl⟩

/-- **interleaving_confluent_seq.**  The sequential schedule (thread 0 alone until it has finished,
    then thread 1, …) is fault-free and complete from every such start state, and every complete
    interleaving ends in exactly its final state: each thread's effect on the heap is what it would
    have been running alone in turn.  (So complete schedules exist: the theorem above is not vacuous.) -/
theorem interleaving_confluent_seq (G : Graph) (hG : G.acyclic) (s0 : State) (h0 : Inv G s0) :
    ∃ sf, run G s0 (seqSched G s0) = some sf ∧ sf.done ∧
      ∀ tr s', run G s0 tr = some s' → s'.done → s' = sf := by
  obtain ⟨sf, r, d⟩ := seq_complete h0
  exact ⟨sf, r, d, fun tr s' h d' => interleaving_confluent G hG s0 s' sf tr _ h0 h r d' d⟩

/-- **no_use_after_free_prog.**  In every state reachable by any schedule, the node whose counter /
    memory a thread's next micro-step accesses (`fetch_add` of a copy, `fetch_sub` of a pending
    decrement, reading the children and `delete`) has not been deleted. -/
theorem no_use_after_free_prog (G : Graph) (s0 s : State) (tr : List Nat) (t n : Nat)
    (h0 : Inv G s0) (h : run G s0 tr = some s) (ht : touch s t = some n) : s.freed n = false :=
  touch_live (run_inv tr s0 s h0 h) ht

/-- **fault_free_prog.**  No schedule faults: `run` never returns `none`, i.e. no micro-step touches
    a freed node, decrements a zero counter, deletes twice or uses a handle its thread does not own;
    and the ownership invariant holds in every reachable state. -/
theorem fault_free_prog (G : Graph) (s0 : State) (tr : List Nat) (h0 : Inv G s0) :
    ∃ s, run G s0 tr = some s ∧ Inv G s := by
  obtain ⟨s, h⟩ := run_ok tr s0 h0
  exact ⟨s, h, run_inv tr s0 s h0 h⟩

/-- **quiescent_heap.**  What the common final state is: a node that survives has
    `rc = pins + handles + members of surviving nodes pointing to it ≥ 1` (nothing leaks: every
    surviving node has an owner), and nothing refers to a deleted node. -/
theorem quiescent_heap (G : Graph) (s0 s : State) (tr : List Nat) (h0 : Inv G s0)
    (h : run G s0 tr = some s) (d : s.done) (n : Nat) :
    (s.freed n = false → s.rc n = G.pin n + H s.thr n + E G s.freed n ∧ 1 ≤ s.rc n) ∧
    (s.freed n = true → G.pin n + H s.thr n + E G s.freed n = 0) := by
  have I := run_inv tr s0 s h0 h
  have pd := done_PD d n
  constructor
  · intro hn
    have := I.live n hn; have := I.pos n hn pd.2
    simp only [R] at *; omega
  · intro hn
    have := (I.dead n hn).1
    simp only [R] at *; omega

/-- **prog_refines_acceptor.**  Every execution of the program model is an accepted trace of the
    atomic-step acceptor `crun` — the function Driver/C14 replays the instrumented library's event
    log through.  `emit G s0 tr` is the log the run produces (copy ↦ `add t n old`, decrement ↦
    `sub t n old` with the value the atomic observed, delete ↦ `del t n`; starting a destroy and
    no-ops are thread-local and silent), `RCP.abs G s` the acceptor state of `s`: exactly `G.size`
    cells, `freed` / `dying t` (t = the thread that observed 1 → 0 and has not deleted yet) /
    `live rc`.  No corner is lost: the acceptor's demands (observed value = the counter, delete only
    by the observer of 1 → 0, nothing touches a dying or freed cell) all hold of every model step.
    Hence `unique_deleter`, `deleter_is_observer`, `no_use_after_free_conc`, `final_count` apply to
    every interleaving of every program. -/
theorem prog_refines_acceptor (G : Graph) (s0 s : State) (tr : List Nat) (h0 : Inv G s0)
    (h : run G s0 tr = some s) :
    crun (RCP.abs G s0) (emit G s0 tr) = some (RCP.abs G s) :=
  run_refines tr s0 s h0 h

/-- **prog_unique_deleter** (the acceptor's `unique_deleter` transported to programs): in the event
    log of any interleaving, a node that was not already dying / freed at the start sees at most one
    1 → 0 observation and at most one delete, and exactly one of each if it ends up freed. -/
theorem prog_unique_deleter (G : Graph) (s0 s : State) (tr : List Nat) (n : Nat) (h0 : Inv G s0)
    (h : run G s0 tr = some s) (hn : zphase (RCP.abs G s0)[n]? = 0) :
    total (isZero n) (emit G s0 tr) ≤ 1 ∧ total (isDel n) (emit G s0 tr) ≤ 1 ∧
    ((RCP.abs G s)[n]? = some .freed →
      total (isZero n) (emit G s0 tr) = 1 ∧ total (isDel n) (emit G s0 tr) = 1) :=
  unique_deleter _ _ _ (prog_refines_acceptor G s0 s tr h0 h) n hn

/-- the checkable well-formedness of a start state implies the invariant -/
theorem init_wellformed (G : Graph) (s : State) (h : Init G s) : Inv G s := init_inv h

/-! ### the hypotheses are satisfiable: node 2 = binary(0, 1), leaf 0 also pinned (a static);
    both threads own one handle to node 2; thread 0 copies it and destroys both, thread 1 destroys its own -/

def pG : Graph := ⟨3, fun p => if p = 2 then [0, 1] else [], [0]⟩
def pS : State :=
  ⟨fun n => if n = 2 then 2 else if n = 1 then 1 else if n = 0 then 2 else 0,
   fun n => decide (3 ≤ n),
   [⟨[.copy 2, .destroy 2, .destroy 2], [], none, [2]⟩, ⟨[.destroy 2], [], none, [2]⟩]⟩

/-- what can be compared by `decide`: counters and tombstones of nodes 0..2, and the threads -/
def view (s : State) : List Nat × List Bool × List Thread :=
  ((List.range 3).map s.rc, (List.range 3).map s.freed, s.thr)

example : pG.acyclic := by decide
example : Init pG pS := ⟨fun _ h => decide_eq_true h, by decide, by decide, by decide⟩
example : Inv pG pS := init_inv ⟨fun _ h => decide_eq_true h, by decide, by decide, by decide⟩

-- schedule A: thread 0 runs alone first (copy, 2 × (destroy, dec)), then thread 1: ITS decrement
-- observes 1, so thread 1 does the delete and the child decrements
def schedA : List Nat := [0, 0, 0, 0, 0, 1, 1, 1, 1, 1, 1, 1]
-- schedule B: thread 1 first, then thread 0, whose last decrement observes 1: thread 0 deletes
def schedB : List Nat := [1, 1, 0, 0, 0, 0, 0, 0, 0, 0, 0, 0]
-- schedule C: finely interleaved
def schedC : List Nat := [0, 1, 0, 1, 0, 0, 0, 1, 0, 1, 0, 1, 0, 1, 0, 1]

-- the deleter differs: after 7 steps of A thread 1 is deleting node 2, after 7 steps of B thread 0 is
example : ((run pG pS (schedA.take 7)).map fun s => s.thr.map (·.dying)) = some [none, some 2] := by decide
example : ((run pG pS (schedB.take 7)).map fun s => s.thr.map (·.dying)) = some [some 2, none] := by decide
-- … but all complete schedules end in the same heap: nodes 2 and 1 deleted, pinned leaf 0 back to count 1
example : (run pG pS schedA).map view =
    some ([1, 0, 0], [false, true, true], [⟨[], [], none, []⟩, ⟨[], [], none, []⟩]) := by decide
example : (run pG pS schedB).map view = (run pG pS schedA).map view := by decide
example : (run pG pS schedC).map view = (run pG pS schedA).map view := by decide
example : (run pG pS (seqSched pG pS)).map view = (run pG pS schedA).map view := by decide
example : ((run pG pS schedA).map fun s => decide s.done) = some true := by decide
example : ((run pG pS schedB).map fun s => decide s.done) = some true := by decide
-- the event logs of schedules A and B (different observed values, different deleter) and their replay
example : emit pG pS schedA =
    [.add 0 2 2, .sub 0 2 3, .sub 0 2 2, .sub 1 2 1, .del 1 2, .sub 1 1 1, .del 1 1, .sub 1 0 2] := by decide
example : (emit pG pS schedB).take 4 = [.sub 1 2 2, .add 0 2 1, .sub 0 2 2, .sub 0 2 1] := by decide
example : RCP.abs pG pS = #[.live 2, .live 1, .live 2] := by decide
example : crun (RCP.abs pG pS) (emit pG pS schedA) = some #[.live 1, .freed, .freed] := by decide
example : crun (RCP.abs pG pS) (emit pG pS schedB) = some #[.live 1, .freed, .freed] := by decide
-- `done` is not vacuous: after 7 steps the run is not complete
example : ((run pG pS (schedA.take 7)).map fun s => decide s.done) = some false := by decide
-- the fault detection is not vacuous: a second destroy through the only handle, and a decrement of a
-- node that is already freed, are rejected
example : (run pG ⟨pS.rc, pS.freed, [⟨[.destroy 2, .destroy 2], [], none, [2]⟩]⟩ [0, 0, 0]).isNone = true := by
  decide
example : (run pG ⟨pS.rc, fun n => decide (2 ≤ n), [⟨[], [2], none, []⟩]⟩ [0]).isNone = true := by decide

end Prog

/-- **statics_all_classified** (footprint audit).  Every mutable static / global found in libfive's
    sources by tools/translate_statics.py (regenerated on every run) is on the allow-list with a
    reason: thread-safe one-time initialisation, atomic, verification hook, or a *listed* race. -/
theorem statics_all_classified :
    Generated.statics.all (fun v => decide (v.cls ≠ Generated.StaticClass.unlisted)) = true := by decide

/-! ### the hypotheses are satisfiable: two threads dropping the last two handles of one node -/

def exA : List Ev := [.alloc 0 0, .add 0 0 0, .add 1 0 1, .sub 0 0 2, .sub 1 0 1, .del 1 0]
def exB : List Ev := [.alloc 0 0, .add 0 0 0, .add 1 0 1, .sub 1 0 2, .sub 0 0 1, .del 0 0]

example : (crun #[] exA).isSome = true := by decide
example : (crun #[] exB).isSome = true := by decide
-- same number of steps per node in both interleavings, different observed values, different deleter
example : total (isAdd 0) exA = total (isAdd 0) exB ∧ total (isSub 0) exA = total (isSub 0) exB := by decide
example : crun #[] exA = some #[.freed] ∧ crun #[] exB = some #[.freed] := by decide
-- the acceptor is not vacuous: a second observer of 1 → 0, a resurrection and a foreign delete are rejected
example : crun #[] [.alloc 0 0, .add 0 0 0, .sub 0 0 1, .sub 1 0 1] = none := by decide
example : crun #[] [.alloc 0 0, .add 0 0 0, .sub 0 0 1, .add 1 0 0] = none := by decide
example : crun #[] [.alloc 0 0, .add 0 0 0, .sub 0 0 1, .del 1 0] = none := by decide
example : crun #[] [.alloc 0 0, .add 0 0 0, .sub 0 0 1, .del 0 0, .add 1 0 0] = none := by decide

end Libfive.C14
