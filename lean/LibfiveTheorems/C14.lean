/-
  C14 — Trees are immutable values that may be shared across threads.
  Property theorems only (helpers: LibfiveProofs/RefCountConc.lean).

  The object is the atomic-step acceptor `cstep` / `crun` of LibfiveModel/RefCountConc.lean: a trace
  is *accepted* iff every event is consistent with one sequentially consistent atomic counter per
  node and with the protocol of `Tree::~Tree`.  Driver/C14.lean runs exactly this function on the
  thread-tagged event log of the instrumented library, so every theorem below applies to every
  schedule the stress harness produces — and to every other accepted interleaving.
-/
import LibfiveProofs.RefCountConc
import Generated.Statics

namespace Libfive.C14
open Libfive.RCC

theorem crun_cons {s s' : CState} {e : Ev} {es : List Ev} (h : crun s (e :: es) = some s') :
    ∃ s1, cstep s e = some s1 ∧ crun s1 es = some s' := by
  simp only [crun] at h
  split at h
  · rename_i s1 h1; exact ⟨s1, h1, h⟩
  · cases h

theorem crun_account : ∀ (tr : List Ev) (s s' : CState), crun s tr = some s' → ∀ n,
    cl s'[n]? + total (isSub n) tr = cl s[n]? + total (isAdd n) tr ∧
    zphase s'[n]? = zphase s[n]? + total (isZero n) tr ∧
    dphase s'[n]? = dphase s[n]? + total (isDel n) tr := by
  intro tr
  induction tr with
  | nil => intro s s' h n; simp only [crun, Option.some.injEq] at h; subst h; simp [total]
  | cons e es ih =>
    intro s s' h n
    obtain ⟨s1, h1, h2⟩ := crun_cons h
    obtain ⟨a1, a2, a3⟩ := cstep_account h1 n
    obtain ⟨b1, b2, b3⟩ := ih s1 s' h2 n
    simp only [total]
    refine ⟨by omega, by omega, by omega⟩

/-- **interleaving_confluent_partial.**  Two accepted interleavings that contain, for every node,
    the same number of increments and of decrements (whatever thread performs them, in whatever
    order, whatever values were observed on the way) end with the same count on every node —
    freed / dying / never allocated counting as 0.  In particular every accepted interleaving of the
    per-thread step sequences ends in the counter state of their sequential composition: the final
    count is `initial + #fetch_add − #fetch_sub`, a function of the multiset of steps only.

    Full statement (NOT proved here): for per-thread *programs* of copy / move / assign / destroy
    operations (decrements that reach zero spawn the child decrements dynamically, in whichever
    thread happened to be last) every interleaving reaches the same final heap — same set of freed
    nodes, same counts — as running the programs one after the other.  The dynamic cascade is
    covered by the sequential theorems of C13 (`rc_invariant`, `leak_free`: the final heap is
    determined by the final handle table) but their lifting to interleaved micro-steps is not
    mechanised; the hypothesis "same number of steps per node" stands in for it. -/
theorem interleaving_confluent_partial (s s1 s2 : CState) (tr1 tr2 : List Ev)
    (h1 : crun s tr1 = some s1) (h2 : crun s tr2 = some s2)
    (hc : ∀ n, total (isAdd n) tr1 = total (isAdd n) tr2 ∧ total (isSub n) tr1 = total (isSub n) tr2) :
    ∀ n : Nat, cl s1[n]? = cl s2[n]? := by
  intro n
  have a := (crun_account tr1 s s1 h1 n).1
  have b := (crun_account tr2 s s2 h2 n).1
  have := hc n
  omega

/-- the final count of a node that is still live is `initial + adds − subs` -/
theorem final_count (s s' : CState) (tr : List Ev) (h : crun s tr = some s') (n r r' : Nat)
    (h0 : s[n]? = some (.live r)) (h1 : s'[n]? = some (.live r')) :
    r' + total (isSub n) tr = r + total (isAdd n) tr := by
  have := (crun_account tr s s' h n).1
  simpa [h0, h1, cl] using this

/-- **unique_deleter.**  In every accepted trace, for every node that was not already dying or freed
    at the start: at most one step observes the 1 → 0 transition and at most one step deletes it;
    if the node ends up freed, exactly one step observed 1 → 0 and exactly one step deleted it. -/
theorem unique_deleter (s s' : CState) (tr : List Ev) (h : crun s tr = some s') (n : Nat)
    (h0 : zphase s[n]? = 0) :
    total (isZero n) tr ≤ 1 ∧ total (isDel n) tr ≤ 1 ∧
    (s'[n]? = some .freed → total (isZero n) tr = 1 ∧ total (isDel n) tr = 1) := by
  obtain ⟨_, hz, hd⟩ := crun_account tr s s' h n
  have hz1 : zphase s'[n]? ≤ 1 := by
    cases hh : s'[n]? with
    | none => simp [zphase]
    | some c => cases c <;> simp [zphase]
  have hd1 : dphase s'[n]? ≤ 1 := by
    cases hh : s'[n]? with
    | none => simp [dphase]
    | some c => cases c <;> simp [dphase]
  have hd0 : dphase s[n]? = 0 := by
    cases hh : s[n]? with
    | none => simp [dphase]
    | some c =>
      cases c with
      | live r => simp [dphase]
      | dying t => simp [hh, zphase] at h0
      | freed => simp [hh, zphase] at h0
  rw [h0] at hz
  rw [hd0] at hd
  refine ⟨by omega, by omega, fun hf => ?_⟩
  simp only [hf, zphase, dphase] at hz hd
  omega

theorem dying_origin : ∀ (tr : List Ev) (s s' : CState), crun s tr = some s' → ∀ n t,
    s'[n]? = some (.dying t) → s[n]? = some (.dying t) ∨ Ev.sub t n 1 ∈ tr := by
  intro tr
  induction tr with
  | nil => intro s s' h n t hd; simp only [crun, Option.some.injEq] at h; subst h; exact Or.inl hd
  | cons e es ih =>
    intro s s' h n t hd
    obtain ⟨s1, h1, h2⟩ := crun_cons h
    rcases ih s1 s' h2 n t hd with h3 | h3
    · by_cases hn : e.node = n
      · rcases cstep_self h1 with ⟨t', m, rfl, _, h5⟩ | ⟨t', m, r, rfl, _, h5⟩ | ⟨t', m, r, rfl, _, h5⟩ |
          ⟨t', m, rfl, _, h5⟩ | ⟨t', m, rfl, _, h5⟩ <;> simp only [Ev.node] at hn <;> subst hn <;>
          rw [h5] at h3 <;> simp at h3
        subst h3
        exact Or.inr (by simp)
      · rw [cstep_frame h1 n hn] at h3; exact Or.inl h3
    · exact Or.inr (List.mem_cons_of_mem _ h3)

/-- **deleter_is_observer.**  A node freed during an accepted trace was deleted by the very thread
    whose decrement observed 1 → 0. -/
theorem deleter_is_observer : ∀ (tr : List Ev) (s s' : CState), crun s tr = some s' → ∀ n,
    s'[n]? = some .freed → s[n]? = some .freed ∨
      ∃ t, (s[n]? = some (.dying t) ∨ Ev.sub t n 1 ∈ tr) ∧ Ev.del t n ∈ tr := by
  intro tr
  induction tr with
  | nil => intro s s' h n hf; simp only [crun, Option.some.injEq] at h; subst h; exact Or.inl hf
  | cons e es ih =>
    intro s s' h n hf
    obtain ⟨s1, h1, h2⟩ := crun_cons h
    rcases ih s1 s' h2 n hf with h3 | ⟨t, h3, h4⟩
    · by_cases hn : e.node = n
      · rcases cstep_self h1 with ⟨t', m, rfl, _, h5⟩ | ⟨t', m, r, rfl, _, h5⟩ | ⟨t', m, r, rfl, _, h5⟩ |
          ⟨t', m, rfl, _, h5⟩ | ⟨t', m, rfl, h6, h5⟩ <;> simp only [Ev.node] at hn <;> subst hn <;>
          rw [h5] at h3 <;> simp at h3
        exact Or.inr ⟨t', Or.inl h6, by simp⟩
      · rw [cstep_frame h1 n hn] at h3; exact Or.inl h3
    · refine Or.inr ⟨t, ?_, List.mem_cons_of_mem _ h4⟩
      rcases h3 with h3 | h3
      · rcases dying_origin [e] s s1 (by simp [crun, h1]) n t h3 with h5 | h5
        · exact Or.inl h5
        · have h6 : Ev.sub t n 1 = e := by simpa using h5
          exact Or.inr (by simp [h6])
      · exact Or.inr (List.mem_cons_of_mem _ h3)

theorem freed_untouched : ∀ (post : List Ev) (s s' : CState), crun s post = some s' → ∀ n,
    s[n]? = some .freed → ∀ e ∈ post, e.node ≠ n := by
  intro post
  induction post with
  | nil => intro s s' _ n _ e he; cases he
  | cons e0 es ih =>
    intro s s' h n hf e he
    obtain ⟨s1, h1, h2⟩ := crun_cons h
    have hne : e0.node ≠ n := by
      intro hn
      rcases cstep_self h1 with ⟨t', m, rfl, h5, _⟩ | ⟨t', m, r, rfl, h5, _⟩ | ⟨t', m, r, rfl, h5, _⟩ |
        ⟨t', m, rfl, h5, _⟩ | ⟨t', m, rfl, h5, _⟩ <;> simp only [Ev.node] at hn <;> subst hn <;>
        rw [h5] at hf <;> simp at hf
    cases he with
    | head => exact hne
    | tail _ he' =>
      exact ih s1 s' h2 n (by rw [cstep_frame h1 n hne]; exact hf) e he'

theorem crun_append : ∀ (a b : List Ev) (s s' : CState), crun s (a ++ b) = some s' →
    ∃ s1, crun s a = some s1 ∧ crun s1 b = some s' := by
  intro a
  induction a with
  | nil => intro b s s' h; exact ⟨s, rfl, h⟩
  | cons e es ih =>
    intro b s s' h
    obtain ⟨s1, h1, h2⟩ := crun_cons (by simpa using h)
    obtain ⟨s2, h3, h4⟩ := ih b s1 s' h2
    exact ⟨s2, by simp [crun, h1, h3], h4⟩

/-- **no_use_after_free_conc.**  In an accepted trace no step — by any thread — touches a node
    after the step that deleted it (node ids name allocations: an address that is reused is a new id). -/
theorem no_use_after_free_conc (s s' : CState) (pre post : List Ev) (t n : Nat)
    (h : crun s (pre ++ Ev.del t n :: post) = some s') : ∀ e ∈ post, e.node ≠ n := by
  obtain ⟨s1, _, h2⟩ := crun_append pre _ s s' h
  obtain ⟨s2, h3, h4⟩ := crun_cons h2
  have hf : s2[n]? = some .freed := by
    rcases cstep_self h3 with ⟨t', m, he, _, _⟩ | ⟨t', m, r, he, _, _⟩ | ⟨t', m, r, he, _, _⟩ |
      ⟨t', m, he, _, _⟩ | ⟨t', m, he, _, h5⟩ <;> cases he
    exact h5
  exact freed_untouched post s2 s' h4 n hf

/-- **statics_all_classified** (footprint audit).  Every mutable static / global found in libfive's
    sources by tools/translate_statics.py (regenerated on every run) is on the allow-list with a
    reason: thread-safe one-time initialisation, atomic, verification hook, or a *listed* race. -/
theorem statics_all_classified :
    Generated.statics.all (fun v => decide (v.cls ≠ Generated.StaticClass.unlisted)) = true := by decide

/-! ### the hypotheses are satisfiable: two threads dropping the last two handles of one node -/

def exA : List Ev := [.alloc 0 0, .add 0 0 0, .add 1 0 1, .sub 0 0 2, .sub 1 0 1, .del 1 0]
def exB : List Ev := [.alloc 0 0, .add 0 0 0, .add 1 0 1, .sub 1 0 2, .sub 0 0 1, .del 0 0]

example : (crun #[] exA).isSome = true := by decide
example : (crun #[] exB).isSome = true := by decide
-- same number of steps per node in both interleavings, different observed values, different deleter
example : total (isAdd 0) exA = total (isAdd 0) exB ∧ total (isSub 0) exA = total (isSub 0) exB := by decide
example : crun #[] exA = some #[.freed] ∧ crun #[] exB = some #[.freed] := by decide
-- the acceptor is not vacuous: a second observer of 1 → 0, a resurrection and a foreign delete are rejected
example : crun #[] [.alloc 0 0, .add 0 0 0, .sub 0 0 1, .sub 1 0 1] = none := by decide
example : crun #[] [.alloc 0 0, .add 0 0 0, .sub 0 0 1, .add 1 0 0] = none := by decide
example : crun #[] [.alloc 0 0, .add 0 0 0, .sub 0 0 1, .del 1 0] = none := by decide
example : crun #[] [.alloc 0 0, .add 0 0 0, .sub 0 0 1, .del 0 0, .add 1 0 0] = none := by decide

end Libfive.C14
