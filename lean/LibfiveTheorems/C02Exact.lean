/-
  C02 (exact instance) — the Boost contracts assumed by every C02 theorem are met by GENUINE exact
  interval arithmetic, so the enclosure theorems hold without any Boost hypothesis.

  Property theorems only; definitions and helper lemmas in LibfiveProofs/IntervalExact.lean.

  * `exactOps P : BoostOps K` (any linear ordered field `K` with floor): true interval arithmetic on
    `±∞`-ended bounds.  Algebraic primitives from the endpoints alone; transcendental primitives as
    monotone images / constant ranges of the abstract point functions `P`.
  * `exactOps_sound / exactOps_atan2 / exactOps_mod`: `BoostSound`, `Atan2Sound`, `ModSound` hold for
    it.  What remains as hypotheses is ONLY about the real functions behind `P` (`PointHyps`:
    monotonicity and ranges of sqrt sin cos asin acos atan exp log root, `powi x k = x^k`;
    `Atan2Hyps`: range and quadrant monotonicity of atan2; `FloorHyps`: `floor`/`ofInt` mean what they
    say) — nothing about Boost.  `tan` is the one primitive answered by the whole line.
  * `exact_tape_enclosure`: `tape_enclosure` with those three discharged.
  * `exact_alg_tape_enclosure`: for tapes over `+ − * / min max neg abs square recip nanfill compare`
    and leaves NO hypothesis at all is left (arbitrary `P`).
  * worked example over `ℚ`: `max(x·x + y² − 1, −z)` on `[1/2,1]×[0,1/2]×[−1,1]`.
-/
import LibfiveProofs.IntervalExact
import LibfiveTheorems.C02

set_option linter.unusedSectionVars false
set_option linter.unusedVariables false

namespace Libfive.C02

open Libfive Libfive.Ivl FVal

variable {K : Type} [Field K] [LinearOrder K] [IsStrictOrderedRing K] [FloorRing K]
variable {P : PointFns K}

/-- **exactOps_sound.**  Exact interval arithmetic meets every Boost.Interval contract. -/
theorem exactOps_sound (hP : PointHyps P) : BoostSound (exactOps P) P := exactOps_boostSound hP

/-- **exactOps_atan2.**  The endpoint `atan2` of the exact instance is the point function itself, `π` is
    `2·halfPi`; the remaining fields of `Atan2Sound` are statements about `P.atan2` alone. -/
theorem exactOps_atan2 (hA : Atan2Hyps P) : Atan2Sound (exactOps P) P := exactOps_atan2Sound hA

/-- **exactOps_mod.**  `usedA *= -1`, `b.i * float` and `std::floor` of the exact instance meet
    `ModSound`; the remaining fields say that `P.floor` / `P.ofInt` are floor and the embedding. -/
theorem exactOps_mod (hF : FloorHyps P) : ModSound (exactOps P) P := exactOps_modSound hF

/-- the algebraic contracts (`add sub mul div min max neg abs square oneDiv`) hold for `exactOps P`
    whatever `P` is -/
theorem exactOps_algebraic_sound (P : PointFns K) :
    (∀ X Y a b, inBb X a → inBb Y b → FVal.add a b ≠ nan → inBb ((exactOps P).add X Y) (FVal.add a b)) ∧
    (∀ X Y a b, inBb X a → inBb Y b → FVal.sub a b ≠ nan → inBb ((exactOps P).sub X Y) (FVal.sub a b)) ∧
    (∀ X Y a b, inBb X a → inBb Y b → FVal.mul a b ≠ nan → inBb ((exactOps P).mul X Y) (FVal.mul a b)) ∧
    (∀ X Y a b, inBb X a → inBb Y b → b ≠ fin 0 → FVal.div a b ≠ nan →
      inBb ((exactOps P).div X Y) (FVal.div a b)) ∧
    (∀ X Y a b, inBb X a → inBb Y b → inBb ((exactOps P).min X Y) (pmin a b)) ∧
    (∀ X Y a b, inBb X a → inBb Y b → inBb ((exactOps P).max X Y) (pmax a b)) ∧
    (∀ X a, inBb X a → inBb ((exactOps P).neg X) (FVal.neg a)) ∧
    (∀ X a, inBb X a → inBb ((exactOps P).abs X) (FVal.abs a)) ∧
    (∀ X a, inBb X a → inBb ((exactOps P).square X) (FVal.mul a a)) ∧
    (∀ X a, inBb X a → a ≠ fin 0 → inBb ((exactOps P).oneDiv X) (precip a)) :=
  exactOps_algebraic P

/-- **exactOps_point_exact.**  No over-approximation where none is needed: on finite point intervals
    every algebraic primitive of `exactOps` returns exactly the point interval of the IEEE-exact value
    (so `exactOps` is as far from the degenerate whole-line instance as an instance can be). -/
theorem exactOps_point_exact (P : PointFns K) (x y : K) :
    (exactOps P).add (ptB (fin x)) (ptB (fin y)) = ptB (FVal.add (fin x) (fin y)) ∧
    (exactOps P).sub (ptB (fin x)) (ptB (fin y)) = ptB (FVal.sub (fin x) (fin y)) ∧
    (exactOps P).mul (ptB (fin x)) (ptB (fin y)) = ptB (FVal.mul (fin x) (fin y)) ∧
    (y ≠ 0 → (exactOps P).div (ptB (fin x)) (ptB (fin y)) = ptB (FVal.div (fin x) (fin y))) ∧
    (exactOps P).min (ptB (fin x)) (ptB (fin y)) = ptB (pmin (fin x) (fin y)) ∧
    (exactOps P).max (ptB (fin x)) (ptB (fin y)) = ptB (pmax (fin x) (fin y)) ∧
    (exactOps P).neg (ptB (fin x)) = ptB (FVal.neg (fin x)) ∧
    (exactOps P).abs (ptB (fin x)) = ptB (FVal.abs (fin x)) ∧
    (exactOps P).square (ptB (fin x)) = ptB (FVal.mul (fin x) (fin x)) ∧
    (x ≠ 0 → (exactOps P).oneDiv (ptB (fin x)) = ptB (precip (fin x))) :=
  ⟨addB_point x y, subB_point x y, mulB_point x y, fun h => divB_point x h, minB_point x y,
   maxB_point x y, negB_point x, absB_point x, squareB_point x, fun h => recipB_point h⟩

/-- **exact_op_enclosure.**  `op_enclosure` for the exact instance: no Boost hypothesis. -/
theorem exact_op_enclosure (hP : PointHyps P) (hA : Atan2Hyps P) (hF : FloorHyps P)
    (op : Op) {A B : IVal K} {a b r : FVal K}
    (hsafe : SafeArgs (exactOps P) P op A B) (ha : enclS A a) (hb : enclS B b)
    (hr : PointRel P op a b r) : enclS (iop (exactOps P) op A B) r :=
  op_enclosure (exactOps_sound hP) (exactOps_atan2 hA) (exactOps_mod hF) op hsafe ha hb hr

/-- **exact_tape_enclosure.**  For every tape without `pow` / `nth_root` clauses, every box / point
    leaf assignment with the point inside the box, every resolution `pev` of the point kernel's
    choices and every oracle pair: libfive's interval rules (`iop`) run on EXACT interval arithmetic
    enclose the point evaluation at the root.  No Boost hypothesis. -/
theorem exact_tape_enclosure (hP : PointHyps P) (hA : Atan2Hyps P) (hF : FloorHyps P)
    (pev : Op → FVal K → FVal K → FVal K) (hpev : ∀ op a b, PointRel P op a b (pev op a b))
    (iorc : Nat → IVal K) (porc : Nat → FVal K) (horc : ∀ k, enclS (iorc k) (porc k))
    (T : TapeM) (I0 : Nat → IVal K) (v0 : Nat → FVal K)
    (hleaf : ∀ s, enclS (I0 s) (v0 s))
    (hops : ∀ c ∈ T.t, c.op = Op.oracle ∨ soundOp c.op = true) :
    encl (ievalList (exactOps P) iorc T.t I0 T.root) (evalList pev porc T.t v0 T.root) :=
  tape_enclosure (exactOps_sound hP) (exactOps_atan2 hA) (exactOps_mod hF) pev hpev iorc porc horc
    T I0 v0 hleaf hops

/-- the same including `pow` / `nth_root` clauses that meet their side condition (`SafeTape`) -/
theorem exact_tape_enclosure_partial (hP : PointHyps P) (hA : Atan2Hyps P) (hF : FloorHyps P)
    (pev : Op → FVal K → FVal K → FVal K) (hpev : ∀ op a b, PointRel P op a b (pev op a b))
    (iorc : Nat → IVal K) (porc : Nat → FVal K) (horc : ∀ k, enclS (iorc k) (porc k))
    (T : TapeM) (I0 : Nat → IVal K) (v0 : Nat → FVal K)
    (hleaf : ∀ s, enclS (I0 s) (v0 s)) (hsafe : SafeTape (exactOps P) P iorc T.t I0) :
    encl (ievalList (exactOps P) iorc T.t I0 T.root) (evalList pev porc T.t v0 T.root) :=
  tape_enclosure_partial (exactOps_sound hP) (exactOps_atan2 hA) (exactOps_mod hF) pev hpev iorc porc
    horc T I0 v0 hleaf hsafe

/-- **exact_alg_tape_enclosure.**  For tapes over the algebraic opcodes
    `+ − * / min max neg abs square recip nanfill compare` (and leaves, oracles) NOTHING is assumed:
    arbitrary point functions `P`, no Boost / libm hypothesis. -/
theorem exact_alg_tape_enclosure (P : PointFns K)
    (pev : Op → FVal K → FVal K → FVal K) (hpev : ∀ op a b, PointRel P op a b (pev op a b))
    (iorc : Nat → IVal K) (porc : Nat → FVal K) (horc : ∀ k, enclS (iorc k) (porc k))
    (T : TapeM) (I0 : Nat → IVal K) (v0 : Nat → FVal K)
    (hleaf : ∀ s, enclS (I0 s) (v0 s))
    (hops : ∀ c ∈ T.t, c.op = Op.oracle ∨ algOp c.op = true) :
    encl (ievalList (exactOps P) iorc T.t I0 T.root) (evalList pev porc T.t v0 T.root) :=
  (alg_tape_enclS P pev hpev iorc porc horc T.t I0 v0 hleaf hops T.root).encl

/-- **exact_alg_state_sound.**  Region classification on exact arithmetic, algebraic tapes: a box
    classified FILLED has only points with a negative (non-NaN) value, EMPTY only positive ones. -/
theorem exact_alg_state_sound (P : PointFns K)
    (pev : Op → FVal K → FVal K → FVal K) (hpev : ∀ op a b, PointRel P op a b (pev op a b))
    (iorc : Nat → IVal K) (porc : Nat → FVal K) (horc : ∀ k, enclS (iorc k) (porc k))
    (T : TapeM) (I0 : Nat → IVal K) (v0 : Nat → FVal K)
    (hleaf : ∀ s, enclS (I0 s) (v0 s))
    (hops : ∀ c ∈ T.t, c.op = Op.oracle ∨ algOp c.op = true) :
    (istate (ievalList (exactOps P) iorc T.t I0 T.root) = IState.filled →
      evalList pev porc T.t v0 T.root ≠ nan ∧
      FVal.lt (evalList pev porc T.t v0 T.root) zeroV = true) ∧
    (istate (ievalList (exactOps P) iorc T.t I0 T.root) = IState.empty →
      evalList pev porc T.t v0 T.root ≠ nan ∧
      FVal.gt (evalList pev porc T.t v0 T.root) zeroV = true) :=
  state_sound (exact_alg_tape_enclosure P pev hpev iorc porc horc T I0 v0 hleaf hops)

/-! ### Satisfiability and a worked example over `ℚ` -/

section examples

/-- Point functions over `ℚ`.  `powi`, `floor`, `ofInt`, `toInt?` are the real things; `ℚ` has no
    transcendental functions, so those slots hold placeholder functions that satisfy the monotonicity /
    range hypotheses (a consistency witness — the algebraic opcodes never look at them). -/
def ratFns : PointFns ℚ :=
  { sqrt := id, sin := fun _ => 0, cos := fun _ => 1, tan := fun _ => 0, asin := id,
    acos := fun x => -x, atan := fun _ => 0, exp := fun _ => 1, log := fun _ => 0,
    atan2 := fun _ _ => 0, halfPi := 2,
    powi := fun x k => x ^ k, root := fun x _ => x, floor := fun x => ⌊x⌋, ofInt := fun k => (k : ℚ),
    toInt? := fun y => if (⌊y⌋ : ℚ) = y then some ⌊y⌋ else none }

theorem ratFns_hyps : PointHyps ratFns where
  sqrt_mono := fun _ _ _ h => h
  sin_range := fun _ => by norm_num [ratFns]
  cos_range := fun _ => by norm_num [ratFns]
  asin_mono := fun _ _ _ h _ => h
  acos_anti := fun _ _ _ h _ => by simpa [ratFns] using h
  atan_mono := fun _ _ _ => le_refl _
  atan_range := fun _ => by norm_num [ratFns]
  exp_mono := fun _ _ _ => le_refl _
  exp_nonneg := fun _ => by norm_num [ratFns]
  log_mono := fun _ _ _ _ => le_refl _
  powi_eq := fun _ _ => rfl
  root_mono := fun _ _ _ _ _ h => h
  root_nonneg := fun _ _ _ h => h

theorem ratFns_atan2 : Atan2Hyps ratFns where
  range := fun _ _ _ _ => by norm_num [ratFns]
  monoY_right := fun _ _ _ _ _ => le_refl _
  monoX_nonneg_right := fun _ _ _ _ _ _ => le_refl _
  monoX_nonpos_right := fun _ _ _ _ _ _ => le_refl _
  monoX_pos := fun _ _ _ _ _ => le_refl _
  monoX_neg := fun _ _ _ _ _ => le_refl _
  monoY_nonneg_pos := fun _ _ _ _ _ _ => le_refl _
  monoY_nonpos_pos := fun _ _ _ _ _ _ => le_refl _
  monoY_nonpos_neg := fun _ _ _ _ _ _ => le_refl _
  monoY_nonneg_neg := fun _ _ _ _ _ _ => le_refl _

theorem ratFns_floor : FloorHyps ratFns where
  floor := fun _ => rfl
  ofInt := fun _ => rfl

/-- the three contracts, with no hypothesis left, for a non-degenerate instance -/
theorem ratOps_sound : BoostSound (exactOps ratFns) ratFns := exactOps_sound ratFns_hyps
theorem ratOps_atan2 : Atan2Sound (exactOps ratFns) ratFns := exactOps_atan2 ratFns_atan2
theorem ratOps_mod : ModSound (exactOps ratFns) ratFns := exactOps_mod ratFns_floor

/-- the tape of `max(x·x + y² − 1, −z)`; slots: x=10 y=11 z=12, constant 1 = 13
    (root first: the evaluators run the list from the back) -/
def sphTape : TapeM :=
  { t := [⟨Op.max, 1, 2, 3⟩, ⟨Op.neg, 3, 12, 12⟩, ⟨Op.sub, 2, 4, 13⟩, ⟨Op.add, 4, 5, 6⟩,
          ⟨Op.square, 6, 11, 11⟩, ⟨Op.mul, 5, 10, 10⟩],
    root := 1 }

/-- the box `[1/2,1] × [0,1/2] × [−1,1]` (and the constant `1`) -/
def sphBox : Nat → IVal ℚ := fun s =>
  if s = 10 then ileaf (fin (1/2)) (fin 1) else if s = 11 then ileaf (fin 0) (fin (1/2))
  else if s = 12 then ileaf (fin (-1)) (fin 1) else ileaf (fin 1) (fin 1)

/-- the point `(3/4, 1/4, 1/2)` of the box -/
def sphPt : Nat → FVal ℚ := fun s =>
  if s = 10 then fin (3/4) else if s = 11 then fin (1/4) else if s = 12 then fin (1/2) else fin 1

theorem sphLeaf : ∀ s, enclS (sphBox s) (sphPt s) := by
  intro s
  unfold sphBox sphPt
  split_ifs <;> exact leaf_enclosure (by decide +kernel) (by decide +kernel)

theorem sphAlg : ∀ c ∈ sphTape.t, c.op = Op.oracle ∨ algOp c.op = true := by decide

/-- the interval result on the box, computed by exact interval arithmetic: `[−3/4, 1]`, not flagged —
    a non-trivial bound (`x·x ∈ [1/4,1]`, `y² ∈ [0,1/4]`, sum `−1 ∈ [−3/4,1/4]`, `−z ∈ [−1,1]`) -/
theorem sph_interval :
    ievalList (exactOps ratFns) (fun _ => ileaf nan nan) sphTape.t sphBox sphTape.root
      = ⟨fin (-3/4), fin 1, false⟩ := by decide +kernel

/-- … in particular not the whole line -/
example : (ievalList (exactOps ratFns) (fun _ => ileaf nan nan) sphTape.t sphBox sphTape.root).b
    ≠ (wholeB : Bnd ℚ) := by decide +kernel

/-- the point value at `(3/4, 1/4, 1/2)`: `max(9/16 + 1/16 − 1, −1/2) = −3/8` -/
theorem sph_point :
    evalList (pointOp ratFns) (fun _ => nan) sphTape.t sphPt sphTape.root = fin (-3/8) := by
  decide +kernel

/-- the enclosure theorem applied (no hypotheses left) … -/
theorem sph_enclosed :
    encl (ievalList (exactOps ratFns) (fun _ => ileaf nan nan) sphTape.t sphBox sphTape.root)
      (evalList (pointOp ratFns) (fun _ => nan) sphTape.t sphPt sphTape.root) :=
  exact_alg_tape_enclosure ratFns (pointOp ratFns) (fun _ _ _ => Or.inl rfl)
    (fun _ => ileaf nan nan) (fun _ => nan) (fun _ => const_enclosure nan) sphTape sphBox sphPt
    sphLeaf sphAlg

/-- … and what it says in numbers: `−3/4 ≤ −3/8 ≤ 1` -/
example : encl (⟨fin (-3/4), fin 1, false⟩ : IVal ℚ) (fin (-3/8)) := by
  have h := sph_enclosed
  rwa [sph_interval, sph_point] at h
example : FVal.le (fin (-3/4 : ℚ)) (fin (-3/8)) = true ∧ FVal.le (fin (-3/8 : ℚ)) (fin 1) = true := by
  decide +kernel

/-- the same through `exact_tape_enclosure` (all opcodes but pow / nth_root; hypotheses on `ratFns`
    discharged) -/
example :
    encl (ievalList (exactOps ratFns) (fun _ => ileaf nan nan) sphTape.t sphBox sphTape.root)
      (evalList (pointOp ratFns) (fun _ => nan) sphTape.t sphPt sphTape.root) :=
  exact_tape_enclosure ratFns_hyps ratFns_atan2 ratFns_floor (pointOp ratFns)
    (fun _ _ _ => Or.inl rfl) (fun _ => ileaf nan nan) (fun _ => nan) (fun _ => const_enclosure nan)
    sphTape sphBox sphPt sphLeaf (by decide)

/-- a box away from the surface: `[2,3] × [0,1/2] × [−1,1]` evaluates to `[3, 33/4]`, classified EMPTY,
    so EVERY point of that box (any leaf values inside the leaf intervals) has a positive value -/
def farBox : Nat → IVal ℚ := fun s =>
  if s = 10 then ileaf (fin 2) (fin 3) else if s = 11 then ileaf (fin 0) (fin (1/2))
  else if s = 12 then ileaf (fin (-1)) (fin 1) else ileaf (fin 1) (fin 1)

theorem far_interval :
    ievalList (exactOps ratFns) (fun _ => ileaf nan nan) sphTape.t farBox sphTape.root
      = ⟨fin 3, fin (33/4), false⟩ := by decide +kernel

example (v0 : Nat → FVal ℚ) (hleaf : ∀ s, enclS (farBox s) (v0 s)) :
    evalList (pointOp ratFns) (fun _ => nan) sphTape.t v0 sphTape.root ≠ nan ∧
    FVal.gt (evalList (pointOp ratFns) (fun _ => nan) sphTape.t v0 sphTape.root) zeroV = true :=
  (exact_alg_state_sound ratFns (pointOp ratFns) (fun _ _ _ => Or.inl rfl)
    (fun _ => ileaf nan nan) (fun _ => nan) (fun _ => const_enclosure nan) sphTape farBox v0
    hleaf sphAlg).2 (by rw [far_interval]; decide +kernel)

/-! single primitives of `exactOps` on concrete bounds (infinite endpoints, zero conventions) -/

-- `[−∞,−1] · [2,3] = [−∞,−2]`;  `[0,1] · [2,+∞] = [0,+∞]` (endpoint convention `0·∞ = 0`)
example : (exactOps ratFns).mul ⟨ninf, fin (-1)⟩ ⟨fin 2, fin 3⟩ = ⟨ninf, fin (-2)⟩ := by decide +kernel
example : (exactOps ratFns).mul ⟨fin 0, fin 1⟩ ⟨fin 2, pinf⟩ = ⟨fin 0, pinf⟩ := by decide +kernel
-- `[−2,3] · [−5,7] = [−15,21]`
example : (exactOps ratFns).mul ⟨fin (-2), fin 3⟩ ⟨fin (-5), fin 7⟩ = ⟨fin (-15), fin 21⟩ := by
  decide +kernel
-- `[1,2] / [4,+∞] = [0,1/2]`;  `[1,2] / [−1,1]` = whole line;  `[−6,3] / [−3,−2] = [−3/2,3]`
example : (exactOps ratFns).div ⟨fin 1, fin 2⟩ ⟨fin 4, pinf⟩ = ⟨fin 0, fin (1/2)⟩ := by decide +kernel
example : (exactOps ratFns).div ⟨fin 1, fin 2⟩ ⟨fin (-1), fin 1⟩ = wholeB := by decide +kernel
example : (exactOps ratFns).div ⟨fin (-6), fin 3⟩ ⟨fin (-3), fin (-2)⟩ = ⟨fin (-3/2), fin 3⟩ := by
  decide +kernel
-- `[1,+∞] + [−∞,5] = [−∞,+∞]`;  `[1,2] − [1/2,3] = [−2,3/2]`
example : (exactOps ratFns).add ⟨fin 1, pinf⟩ ⟨ninf, fin 5⟩ = wholeB := by decide +kernel
example : (exactOps ratFns).sub ⟨fin 1, fin 2⟩ ⟨fin (1/2), fin 3⟩ = ⟨fin (-2), fin (3/2)⟩ := by
  decide +kernel
-- `|[−3,2]| = [0,3]`;  `[−3,2]² = [0,9]`;  `1/[−4,−2] = [−1/2,−1/4]`
example : (exactOps ratFns).abs ⟨fin (-3), fin 2⟩ = ⟨fin 0, fin 3⟩ := by decide +kernel
example : (exactOps ratFns).square ⟨fin (-3), fin 2⟩ = ⟨fin 0, fin 9⟩ := by decide +kernel
example : (exactOps ratFns).oneDiv ⟨fin (-4), fin (-2)⟩ = ⟨fin (-1/2), fin (-1/4)⟩ := by
  decide +kernel
-- `[−2,3]^2 = [0,9]`, `[−2,3]^3 = [−8,27]`, `[2,4]^(−2) = [1/16,1/4]`, `[−2,3]^0 = [1,1]`
example : (exactOps ratFns).powi ⟨fin (-2), fin 3⟩ 2 = ⟨fin 0, fin 9⟩ := by decide +kernel
example : (exactOps ratFns).powi ⟨fin (-2), fin 3⟩ 3 = ⟨fin (-8), fin 27⟩ := by decide +kernel
example : (exactOps ratFns).powi ⟨fin 2, fin 4⟩ (-2) = ⟨fin (1/16), fin (1/4)⟩ := by decide +kernel
example : (exactOps ratFns).powi ⟨fin (-2), fin 3⟩ 0 = ⟨fin 1, fin 1⟩ := by decide +kernel

/-- libfive's `operator/` on exact arithmetic: `[1,2] / [0,1]` is the flag-free whole line, and
    `[0,2] / [0,1]` is flagged maybe-NaN (`0/0`) -/
example : iop (exactOps ratFns) Op.div ⟨fin 1, fin 2, false⟩ ⟨fin 0, fin 1, false⟩
    = ⟨ninf, pinf, false⟩ := by decide +kernel
example : iop (exactOps ratFns) Op.div ⟨fin 0, fin 2, false⟩ ⟨fin 0, fin 1, false⟩
    = ⟨ninf, pinf, true⟩ := by decide +kernel

/-- every opcode lemma instantiated with the exact instance (hypotheses satisfiable) -/
example : enclS (iop (exactOps ratFns) Op.mod iA iB) (pointOp ratFns Op.mod (fin (3/2)) (fin 4)) :=
  exact_op_enclosure ratFns_hyps ratFns_atan2 ratFns_floor Op.mod trivial hA hB (Or.inl rfl)
example : enclS (iop (exactOps ratFns) Op.atan2 iA iB) (patan2 ratFns (fin (3/2)) (fin 4)) :=
  exact_op_enclosure ratFns_hyps ratFns_atan2 ratFns_floor Op.atan2 trivial hA hB (Or.inl rfl)
example : enclS (iop (exactOps ratFns) Op.sqrt iA iA) (psqrt ratFns (fin (3/2))) :=
  exact_op_enclosure ratFns_hyps ratFns_atan2 ratFns_floor Op.sqrt trivial hA hA (Or.inl rfl)

/-- `pow` with the constant exponent `3` on exact arithmetic: `[1,2]^3 = [1,8]` -/
theorem k3e : (exactOps ratFns).toInt (fin (3 : ℚ)) = 3 := by decide +kernel
theorem k3r : ratFns.toInt? (3 : ℚ) = some 3 := by decide +kernel
example : enclS (iop (exactOps ratFns) Op.pow iA iK) (pointOp ratFns Op.pow (fin (3/2)) (fin 3)) :=
  exact_op_enclosure ratFns_hyps ratFns_atan2 ratFns_floor Op.pow
    ⟨3, 3, rfl, k3r, k3e, by norm_num⟩ hA hK (Or.inl rfl)
example : iop (exactOps ratFns) Op.pow iA iK = ⟨fin 1, fin 8, false⟩ := by decide +kernel
example : pointOp ratFns Op.pow (fin (3/2)) (fin 3) = fin (27/8) := by decide +kernel

end examples

end Libfive.C02
