/-
  C04 — metric clause for the simplex (and hybrid) algorithm: "every mesh vertex lies ... on the
  zero level set, to search precision".  Property theorems only; helper lemmas in
  LibfiveProofs/MarchingSearchMetric.lean.

  Setting.  `E` is any real normed space (ℝ³ with the Euclidean norm for the meshers), the searched
  tet edge goes from the subspace vertex `a` (classified inside) to `b` (classified outside), and
  `simplexVertex outside a b` is the model of `SimplexMesher::searchEdge` run on POINTS exactly as the
  source does: `simplexSearchCount = 4` rounds of `simplexPointsPerSearch = 16` samples
  `inside (1 - j/15) + outside (j/15)` (both constants regenerated from the sources on every run),
  keep the first sample pair `(j-1, j)` whose upper end is classified outside (the last pair
  unconditionally), and return `(inside + outside) / 2` — the MIDPOINT of the final bracket.

  What is proved, for a field `f` that is `K`-Lipschitz on the edge (hence continuous there):
  (i) the vertex is on the edge; (ii) `f` has a zero on the edge within `‖b - a‖ / 15^4` of the vertex
  (sharp form: half of that); (iii) `|f vertex| ≤ K ‖b - a‖ / 15^4`; (iv) the vertex is in every
  convex set (cell, region) containing `a` and `b`.  Real arithmetic: float rounding of the
  interpolation and of `f` is NOT modelled here (the oracle of tools/checks/c04.py measures it).
-/
import LibfiveProofs.MarchingSearchMetric
import LibfiveTheorems.C04

namespace Libfive.C04
open Libfive.Marching Generated.MeshTables Set

variable {E : Type} [NormedAddCommGroup E] [NormedSpace ℝ E]

/-- **simplex_vertex_near_levelset_sharp.**  The strongest form, for ANY classifier that is
    consistent with the sign of `f` on the edge (classified inside ⇒ `f ≤ 0`, classified outside ⇒
    `0 ≤ f`; its answer where `f = 0` is free — this covers the sources' tie-break
    `out[j] == 0 && !eval->isInside(...)`) and calls `a` inside, `b` outside.  `f` is only assumed
    continuous on the edge for (i), (ii), (iv); `K`-Lipschitz on the edge for (iii).
    The distance bound is HALF the final bracket, `‖b - a‖ / 15^4 / 2`. -/
theorem simplex_vertex_near_levelset_sharp (f : E → ℝ) (outside : E → Bool) (a b : E)
    (hf : ContinuousOn f (segment ℝ a b))
    (hin : ∀ p ∈ segment ℝ a b, outside p = false → f p ≤ 0)
    (hout : ∀ p ∈ segment ℝ a b, outside p = true → 0 ≤ f p)
    (ha : outside a = false) (hb : outside b = true) :
    let v := simplexVertex outside a b
    v ∈ segment ℝ a b ∧
    (∃ z ∈ segment ℝ a b, f z = 0 ∧ dist v z ≤ ‖b - a‖ / 15 ^ 4 / 2) ∧
    (∀ K : NNReal, LipschitzOnWith K f (segment ℝ a b) → |f v| ≤ K * (‖b - a‖ / 15 ^ 4 / 2)) ∧
    (∀ s : Set E, Convex ℝ s → a ∈ s → b ∈ s → v ∈ s) := by
  intro v
  obtain ⟨hv, z, hz, hz0, hd⟩ :=
    searchVertex_metric f outside a b simplexPointsPerSearch simplexSearchCount (by decide) hf hin hout ha hb
  change v ∈ segment ℝ a b at hv
  change dist v z ≤ _ at hd
  have e : ((simplexPointsPerSearch : ℝ) - 1) ^ simplexSearchCount = 15 ^ 4 := by
    simp only [simplexPointsPerSearch, simplexSearchCount]; norm_num
  rw [e] at hd
  exact ⟨hv, ⟨z, hz, hz0, hd⟩, fun K hK => abs_le_of_lipschitzOn_of_zero hK hv hz hz0 hd,
    fun s hs has hbs => hs.segment_subset has hbs hv⟩

/-- **simplex_vertex_near_levelset.**  The metric clause of C04 for the simplex algorithm.
    `f` is `K`-Lipschitz on the searched edge `[a, b]` (so continuous there), `f a ≤ 0 < f b`
    (inside / outside ends as the mesher requires; `f a < 0` is a special case), the classifier is
    the sign test `out[j] > 0` of the sources.  Then the vertex `v` returned by `searchEdge`
    (i) lies on the segment `[a, b]`;
    (ii) is within `‖b - a‖ / 15^4` of a zero of `f` lying on the segment;
    (iii) has `|f v| ≤ K ‖b - a‖ / 15^4`;
    (iv) lies in every convex set (cell, region) that contains `a` and `b`. -/
theorem simplex_vertex_near_levelset (f : E → ℝ) (K : NNReal) (a b : E)
    (hK : LipschitzOnWith K f (segment ℝ a b)) (ha : f a ≤ 0) (hb : 0 < f b) :
    let v := simplexVertex (signOutside f) a b
    v ∈ segment ℝ a b ∧
    (∃ z ∈ segment ℝ a b, f z = 0 ∧ dist v z ≤ ‖b - a‖ / 15 ^ 4) ∧
    |f v| ≤ K * ‖b - a‖ / 15 ^ 4 ∧
    (∀ s : Set E, Convex ℝ s → a ∈ s → b ∈ s → v ∈ s) := by
  intro v
  obtain ⟨h1, ⟨z, hz, hz0, hd⟩, h3, h4⟩ :=
    simplex_vertex_near_levelset_sharp f (signOutside f) a b hK.continuousOn
      (fun p _ h => signOutside_inside f p h) (fun p _ h => signOutside_outside f p h)
      (by simpa [signOutside] using ha) (by simpa [signOutside] using hb)
  change v ∈ segment ℝ a b at h1
  change dist v z ≤ _ at hd
  have hn : 0 ≤ ‖b - a‖ / 15 ^ 4 := by positivity
  refine ⟨h1, ⟨z, hz, hz0, by linarith⟩, ?_, h4⟩
  have := h3 K hK
  change |f v| ≤ _ at this
  have hK0 : (0 : ℝ) ≤ K := K.coe_nonneg
  calc |f v| ≤ K * (‖b - a‖ / 15 ^ 4 / 2) := this
    _ ≤ K * (‖b - a‖ / 15 ^ 4) := mul_le_mul_of_nonneg_left (by linarith) hK0
    _ = K * ‖b - a‖ / 15 ^ 4 := by ring

/-- **simplex_vertex_sdf_cell.**  Corollary for a distance-like field (`1`-Lipschitz on the edge)
    and an edge no longer than the diagonal `√3 h` of a cubic cell of side `h`:
    `|f v| ≤ √3 h / 50625`. -/
theorem simplex_vertex_sdf_cell (f : E → ℝ) (a b : E) (h : ℝ)
    (hK : LipschitzOnWith 1 f (segment ℝ a b)) (ha : f a ≤ 0) (hb : 0 < f b)
    (hlen : ‖b - a‖ ≤ Real.sqrt 3 * h) :
    |f (simplexVertex (signOutside f) a b)| ≤ Real.sqrt 3 * h / 50625 := by
  have := (simplex_vertex_near_levelset f 1 a b hK ha hb).2.2.1
  simp only [NNReal.coe_one, one_mul] at this
  refine this.trans ?_
  have e : (15 : ℝ) ^ 4 = 50625 := by norm_num
  rw [e]
  exact div_le_div_of_nonneg_right hlen (by norm_num)

/-- **simplex_vertex_sdf_cube.**  The same in Euclidean 3-space with the edge inside a cubic cell of
    side `h` (coordinates of the two ends differ by at most `h`): the diagonal bound is derived. -/
theorem simplex_vertex_sdf_cube (f : EuclideanSpace ℝ (Fin 3) → ℝ) (a b : EuclideanSpace ℝ (Fin 3))
    (h : ℝ) (hK : LipschitzOnWith 1 f (segment ℝ a b)) (ha : f a ≤ 0) (hb : 0 < f b)
    (hcell : ∀ i, |b i - a i| ≤ h) :
    |f (simplexVertex (signOutside f) a b)| ≤ Real.sqrt 3 * h / 50625 :=
  simplex_vertex_sdf_cell f a b h hK ha hb (norm_sub_le_cell_diagonal a b h hcell)

/-- **simplex_vertex_in_box.**  (iv) per coordinate, through `vertex_in_region`: for every linear
    coordinate `φ` (e.g. `x`, `y`, `z`), if both edge ends have their `φ`-coordinate in `[lo, hi]`
    then so has the vertex — the vertex is inside every axis-aligned box (cell, region) that
    contains the edge ends.  No hypothesis on the classifier at all. -/
theorem simplex_vertex_in_box (outside : E → Bool) (a b : E) (φ : E →ₗ[ℝ] ℝ) (lo hi : ℝ)
    (ha : lo ≤ φ a ∧ φ a ≤ hi) (hb : lo ≤ φ b ∧ φ b ≤ hi)
    (hoa : outside a = false) (hob : outside b = true) :
    lo ≤ φ (simplexVertex outside a b) ∧ φ (simplexVertex outside a b) ≤ hi := by
  obtain ⟨t, _, t0, t1, _, _, hv, _, _⟩ :=
    searchVertex_spec (fun _ => (0 : ℝ)) outside a b simplexPointsPerSearch simplexSearchCount (by decide)
      continuousOn_const (fun _ _ _ => le_refl _) (fun _ _ _ => le_refl _) hoa hob
  have e : φ (simplexVertex outside a b) = φ a + t * (φ b - φ a) := by
    unfold simplexVertex
    rw [hv]
    simp [edgePt]
  rw [e]
  exact vertex_in_region lo hi (φ a) (φ b) t ha hb ⟨t0, t1⟩

/-- **hybrid_vertex_eq_simplex.**  The hybrid mesher's `searchEdge` has the same constants, hence
    returns the same vertex: every theorem above holds verbatim for `hybridVertex`. -/
theorem hybrid_vertex_eq_simplex (outside : E → Bool) (a b : E) :
    hybridVertex outside a b = simplexVertex outside a b := rfl

/-! ## satisfiability -/

/-- a concrete linear field on the line: `f x = x - 1/3` on the edge from `0` to `1` -/
example : let f : ℝ → ℝ := fun x => x - 1 / 3
    LipschitzOnWith 1 f (segment ℝ (0 : ℝ) 1) ∧ f 0 ≤ 0 ∧ 0 < f 1 ∧
      ‖(1 : ℝ) - 0‖ ≤ Real.sqrt 3 * 1 := by
  refine ⟨(LipschitzWith.id.sub (LipschitzWith.const (1 / 3 : ℝ)) |>.lipschitzOnWith).weaken ?_,
    by norm_num, by norm_num, ?_⟩
  · simp
  · have : (1 : ℝ) ≤ Real.sqrt 3 := by
      rw [show (1 : ℝ) = Real.sqrt 1 by simp]
      exact Real.sqrt_le_sqrt (by norm_num)
    simp [this]

/-- and the conclusion for it: the vertex is within `1 / 50625` of the level set -/
example : |(fun x : ℝ => x - 1 / 3) (simplexVertex (signOutside fun x : ℝ => x - 1 / 3) 0 1)|
    ≤ 1 * ‖(1 : ℝ) - 0‖ / 15 ^ 4 := by
  have h : LipschitzOnWith 1 (fun x : ℝ => x - 1 / 3) (segment ℝ (0 : ℝ) 1) :=
    (LipschitzWith.id.sub (LipschitzWith.const (1 / 3 : ℝ)) |>.lipschitzOnWith).weaken (by simp)
  simpa using (simplex_vertex_near_levelset (fun x : ℝ => x - 1 / 3) 1 0 1 h (by norm_num) (by norm_num)).2.2.1

/-- a concrete linear field in Euclidean 3-space: `f p = x - 1/3` along the diagonal of the unit cube -/
example : let f : EuclideanSpace ℝ (Fin 3) → ℝ := fun p => p 0 - 1 / 3
    LipschitzOnWith 1 f (segment ℝ (!₂[0, 0, 0] : EuclideanSpace ℝ (Fin 3)) !₂[1, 1, 1]) ∧
      f !₂[0, 0, 0] ≤ 0 ∧ 0 < f !₂[1, 1, 1] ∧
      ∀ i, |(!₂[1, 1, 1] : EuclideanSpace ℝ (Fin 3)) i - (!₂[0, 0, 0] : EuclideanSpace ℝ (Fin 3)) i| ≤ 1 := by
  refine ⟨LipschitzWith.lipschitzOnWith (LipschitzWith.of_dist_le_mul fun p q => ?_), by norm_num,
    by norm_num, ?_⟩
  · rw [Real.dist_eq, NNReal.coe_one, one_mul, dist_eq_norm]
    have : p 0 - 1 / 3 - (q 0 - 1 / 3) = (p - q) 0 := by simp
    rw [this, ← Real.norm_eq_abs]
    exact PiLp.norm_apply_le (p - q) 0
  · intro i; fin_cases i <;> simp

end Libfive.C04
