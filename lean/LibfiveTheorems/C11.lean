/-
  C11 — Cancellation yields nothing or a complete result, and always terminates.
  Property theorems only.  Models: LibfiveModel/Render.lean (control flow of Mesh::render),
  LibfiveModel/Pool.lean (worker pool, branch counter).  Lemmas: LibfiveProofs/{Render,Pool}.lean.
-/
import LibfiveProofs.Render
import LibfiveProofs.Pool

namespace Libfive.C11
open Libfive.Render Libfive.Pool

/-! ## (a) `Mesh::render`: all or nothing -/

/-- **render_all_or_nothing.**  For the control flow of `Mesh::render` as it stands (a read of the
    flag after the build, after `assignIndices` and after the dual walk): for every algorithm,
    all phase sizes and EVERY assignment of "cancel observed / not observed" to every
    cancellation point of every phase that is consistent with a flag that is only ever raised
    (`Mono obs`), the result is `nullptr` or was produced by phases that all ran to completion. -/
theorem render_all_or_nothing (alg : Alg) (sz : Sizes) (obs : Nat → Bool) (hm : Mono obs) :
    render alg sz obs = none ∨ render alg sz obs = some true := by
  unfold render
  simp only
  by_cases h1 : obs (runPhase obs sz.build 0).2 = true
  · simp [h1]
  · by_cases h2 : obs ((runPhase obs sz.build 0).2 + 1) = true
    · simp [h2]
    · have hb : (runPhase obs sz.build 0).1 = true := by
        cases hb : (runPhase obs sz.build 0).1 with
        | true => rfl
        | false => exact absurd (runPhase_interrupted obs hm _ _ hb _ (Nat.le_refl _)) h1
      simp only [h1, h2, Bool.or_self, Bool.false_eq_true, if_false]
      have walk : ∀ c, (obs (runPhase obs sz.walk c).2 = true) ∨
          (obs (runPhase obs sz.walk c).2 = false ∧ (runPhase obs sz.walk c).1 = true) := by
        intro c
        by_cases h4 : obs (runPhase obs sz.walk c).2 = true
        · exact Or.inl h4
        · refine Or.inr ⟨by simpa using h4, ?_⟩
          cases hw : (runPhase obs sz.walk c).1 with
          | true => rfl
          | false => exact absurd (runPhase_interrupted obs hm _ _ hw _ (Nat.le_refl _)) h4
      cases alg with
      | dc =>
        simp only
        rcases walk ((runPhase obs sz.build 0).2 + 2) with h | ⟨h, hw⟩
        · simp [h]
        · simp [h, hb, hw]
      | simplex =>
        simp only
        by_cases h3 : obs (indexPhase .simplex obs sz ((runPhase obs sz.build 0).2 + 2)).2 = true
        · simp [h3]
        · have hi : (indexPhase .simplex obs sz ((runPhase obs sz.build 0).2 + 2)).1 = true := by
            cases hi : (indexPhase .simplex obs sz ((runPhase obs sz.build 0).2 + 2)).1 with
            | true => rfl
            | false => exact absurd (indexPhase_interrupted _ obs hm sz _ hi _ (Nat.le_refl _)) h3
          simp only [h3, Bool.false_eq_true, if_false]
          rcases walk ((indexPhase .simplex obs sz ((runPhase obs sz.build 0).2 + 2)).2 + 1) with h | ⟨h, hw⟩
          · simp [h]
          · simp [h, hb, hi, hw]
      | hybrid =>
        simp only
        by_cases h3 : obs (indexPhase .hybrid obs sz ((runPhase obs sz.build 0).2 + 2)).2 = true
        · simp [h3]
        · have hi : (indexPhase .hybrid obs sz ((runPhase obs sz.build 0).2 + 2)).1 = true := by
            simp [indexPhase]
          simp only [h3, Bool.false_eq_true, if_false]
          rcases walk ((indexPhase .hybrid obs sz ((runPhase obs sz.build 0).2 + 2)).2 + 1) with h | ⟨h, hw⟩
          · simp [h]
          · simp [h, hb, hi, hw]

/-- **render_uncancelled.** If no read ever observes the flag, a complete mesh is returned. -/
theorem render_uncancelled (alg : Alg) (sz : Sizes) :
    render alg sz (fun _ => false) = some true := by
  have hq : ∀ n c, runPhase (fun _ => false) n c = (true, c + n) :=
    fun n c => runPhase_quiet _ n c (fun _ _ _ => rfl)
  unfold render; cases alg <;> simp [hq, indexPhase]

/-- Record of the defect repaired by f00be3c: in the PRE-FIX flow `renderOld` (no read after
    `assignIndices` / `Dual::walk`) the statement was false — DUAL_CONTOURING, one build read, two
    walk reads, flag raised just before clock 3 (the first read of the walk loop): a mesh the walk
    did not complete was returned.  The current flow returns `nullptr` on the same input. -/
theorem renderOld_counterexample :
    Mono (raisedAt (some 3)) ∧ renderOld .dc ⟨1, 0, 2⟩ (raisedAt (some 3)) = some false ∧
    render .dc ⟨1, 0, 2⟩ (raisedAt (some 3)) = none :=
  ⟨raisedAt_mono _, by decide, by decide⟩

/-- the same for ISO_SIMPLEX with the flag raised during `assignIndices` -/
theorem renderOld_counterexample_index :
    renderOld .simplex ⟨1, 2, 2⟩ (raisedAt (some 4)) = some false ∧
    render .simplex ⟨1, 2, 2⟩ (raisedAt (some 4)) = none := by decide

/-- hence all-or-nothing did not hold for the pre-fix flow -/
theorem renderOld_not_all_or_nothing :
    ¬ ∀ (alg : Alg) (sz : Sizes) (obs : Nat → Bool), Mono obs →
        renderOld alg sz obs = none ∨ renderOld alg sz obs = some true := by
  intro h
  have := h .dc ⟨1, 0, 2⟩ _ (raisedAt_mono (some 3))
  revert this
  decide

/-! ## (b) the worker pool -/

/-- **last_arriver** (proved in LibfiveProofs/Pool.lean, restated): for a counter initialised to
    `n − 1` (`(1 << N) − 1`) and ANY admissible interleaving of the `n` children's install /
    `pending--` steps, nobody observes 0 before all have arrived, exactly one observes it, it is
    the last arriver, and all `n` children are installed when it does. -/
theorem last_arriver (n : Nat) (hn : 0 < n) (tr : List BEv) (hev : ∀ e ∈ tr, e.child < n)
    (s : BState) (hr : brun (BState.init n) tr = some s) :
    s.collectors.length ≤ 1 ∧
    (s.arrived.length < n → s.collectors = []) ∧
    (s.arrived.length = n → ∃ i rest, s.arrived = i :: rest ∧ s.collectors = [i] ∧
        ∀ j, j < n → j ∈ s.installed) :=
  Libfive.Pool.last_arriver n hn tr hev s hr

/-- **no_lost_task.** In every state the pool can reach from its initial state (root pushed), by
    ANY sequence of worker steps and cancellations: tasks are pairwise distinct; a task is popped
    at most once; every task ever pushed is either popped or still queued (global stack or a local
    stack) — the "bounded push, else local" rule never drops one; and when the queues are empty
    the popped tasks are exactly the pushed ones. -/
theorem no_lost_task (n cap L : Nat) (tr : List Ev) (s : S) (h : run (S.init n cap L) tr = some s) :
    s.pushed.Nodup ∧ s.popped.Nodup ∧
    (∀ c ∈ s.pushed, (c ∈ s.popped ∧ c ∉ s.queued) ∨ (c ∉ s.popped ∧ c ∈ s.queued)) ∧
    (∀ c ∈ s.popped, c ∈ s.pushed) ∧
    (s.queued = [] → s.popped.Perm s.pushed) := by
  have q := run_q tr _ s (q_init n cap L) h
  have hnd : (s.popped ++ s.queued).Nodup := q.perm.nodup_iff.1 q.nodup
  have hdis := List.nodup_append.1 hnd
  refine ⟨q.nodup, hdis.1, ?_, ?_, ?_⟩
  · intro c hc
    have := q.perm.mem_iff.1 hc
    rcases List.mem_append.1 this with hp | hq
    · exact Or.inl ⟨hp, fun hq => hdis.2.2 c hp c hq rfl⟩
    · exact Or.inr ⟨fun hp => hdis.2.2 c hp c hq rfl, hq⟩
  · intro c hc
    exact q.perm.mem_iff.2 (List.mem_append_left _ hc)
  · intro he
    have := q.perm
    rw [he, List.append_nil] at this
    exact this.symm

/- FULL STATEMENT of worker_progress (NOT proved in full):
     in every reachable non-final state some worker has an enabled non-spinning step, and every
     non-spinning step decreases the lexicographic measure (unfinished cells, queued tasks), hence
     without cancel the pool reaches `root collected`.
   What is proved (`worker_progress_partial`): the cancel/done half in full, and deadlock-freedom of
   the loop head, the task pick and the walk up the tree; the global measure and the enabledness
   of the `eval`/`split` states (which need the cell-ownership invariant) are left to the trace
   replay and the termination oracle. -/

/-- **worker_progress_partial.**  In ANY state (reachable or not):
    * once `cancel` (or `done`) is set, a worker at its loop head cannot start another iteration —
      `loop` is rejected — and its exit step is enabled: every worker leaves at its next check;
    * a worker at the loop head, picking a task, or walking up the tree always has an enabled
      step (it never waits for another worker: no lock, no blocking pop);
    * an exited worker takes no further steps. -/
theorem worker_progress_partial (s : S) (w : Nat) :
    (s.cancel = true ∨ s.done = true → step s (.loop w) = none ∧
        (s.act w = .idle → (step s (.exitLoop w)).isSome = true)) ∧
    (s.act w = .idle → (step s (.loop w)).isSome = true ∨ (step s (.exitLoop w)).isSome = true) ∧
    (s.act w = .inLoop → (step s (.noTask w)).isSome = true ∨ ∃ c, (step s (.pop w c)).isSome = true) ∧
    (∀ c, s.act w = .ascend c →
        (step s (.exitRoot w)).isSome = true ∨ ∃ l, (step s (.collect w l)).isSome = true) ∧
    (s.act w = .exited → ∀ e, e.worker = some w → step s e = none) := by
  refine ⟨?_, idle_enabled s w, inLoop_enabled s w, fun c => ascend_enabled s w c,
    fun hx e he => exited_final s w hx e he⟩
  intro h
  refine ⟨?_, fun hi => exit_enabled_of_cancel s w hi h⟩
  rcases h with h | h
  · exact loop_rejected_of_cancel s w h
  · exact loop_rejected_of_done s w h

/-- the pool's own `collect` step is the branch protocol of `last_arriver`: the flag it reports is
    "the fetch_sub returned 0" -/
theorem collect_reports_zero (s s' : S) (w : Nat) (l : Bool) (h : step s (.collect w l) = some s') :
    ∃ c p, s.act w = .ascend c ∧ s.parent c = some p ∧ (l = true ↔ s.pending p = 0) := by
  simp only [step] at h
  split at h
  · rename_i c hc
    split at h
    · rename_i p hp
      split at h
      · rename_i hl
        exact ⟨c, p, hc, hp, by simp [hl, fetchSub]⟩
      · simp at h
    · simp at h
  · simp at h

-- hypotheses are satisfiable: two children arriving in the order 1, 0
example : brun (BState.init 2) [.install 1, .install 0, .dec 1, .dec 0] =
    some ⟨2 ^ 32 - 1, [0, 1], [0, 1], [0]⟩ := by decide
example : Mono (raisedAt (some 3)) := raisedAt_mono _
example : render .simplex ⟨3, 2, 4⟩ (raisedAt none) = some true := by decide
example : render .hybrid ⟨2, 0, 3⟩ (raisedAt (some 9)) = some true := by decide
-- a pool run: one worker pops the root of a one-level 1-ary tree, splits it, evaluates the child, collects
example : (run (S.init 1 1 1) [.loop 0, .pop 0 0, .evalDone 0 .amb, .push 0 1 false, .loop 0, .pop 0 1,
    .evalDone 0 .leaf, .collect 0 true, .exitRoot 0]).isSome = true := by decide

end Libfive.C11
