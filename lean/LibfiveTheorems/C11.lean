/-
  C11 — Cancellation yields nothing or a complete result, and always terminates.
  Property theorems only.  Models: LibfiveModel/Render.lean (control flow of Mesh::render),
  LibfiveModel/Pool.lean (worker pool, branch counter).  Lemmas: LibfiveProofs/{Render,Pool,PoolProgress}.lean.
-/
import LibfiveProofs.Render
import LibfiveProofs.Pool
import LibfiveProofs.PoolProgress

namespace Libfive.C11
open Libfive.Render Libfive.Pool

/-! ## (a) `Mesh::render`: all or nothing -/

/-- **render_all_or_nothing.**  For the control flow of `Mesh::render` as it stands (a read of the
    flag after the build, after `assignIndices` and after the dual walk): for every algorithm,
    all phase sizes and EVERY assignment of "cancel observed / not observed" to every
    cancellation point of every phase that is consistent with a flag that is only ever raised
    (`Mono obs`), the result is `nullptr` or was produced by phases that all ran to completion. -/
theorem render_all_or_nothing (alg : Alg) (sz : Sizes) (obs : Nat → Bool) (hm : Mono obs) :
    render alg sz obs = none ∨ render alg sz obs = some true := by
  unfold render
  simp only
  by_cases h1 : obs (runPhase obs sz.build 0).2 = true
  · simp [h1]
  · by_cases h2 : obs ((runPhase obs sz.build 0).2 + 1) = true
    · simp [h2]
    · have hb : (runPhase obs sz.build 0).1 = true := by
        cases hb : (runPhase obs sz.build 0).1 with
        | true => rfl
        | false => exact absurd (runPhase_interrupted obs hm _ _ hb _ (Nat.le_refl _)) h1
      simp only [h1, h2, Bool.or_self, Bool.false_eq_true, if_false]
      have walk : ∀ c, (obs (runPhase obs sz.walk c).2 = true) ∨
          (obs (runPhase obs sz.walk c).2 = false ∧ (runPhase obs sz.walk c).1 = true) := by
        intro c
        by_cases h4 : obs (runPhase obs sz.walk c).2 = true
        · exact Or.inl h4
        · refine Or.inr ⟨by simpa using h4, ?_⟩
          cases hw : (runPhase obs sz.walk c).1 with
          | true => rfl
          | false => exact absurd (runPhase_interrupted obs hm _ _ hw _ (Nat.le_refl _)) h4
      cases alg with
      | dc =>
        simp only
        rcases walk ((runPhase obs sz.build 0).2 + 2) with h | ⟨h, hw⟩
        · simp [h]
        · simp [h, hb, hw]
      | simplex =>
        simp only
        by_cases h3 : obs (indexPhase .simplex obs sz ((runPhase obs sz.build 0).2 + 2)).2 = true
        · simp [h3]
        · have hi : (indexPhase .simplex obs sz ((runPhase obs sz.build 0).2 + 2)).1 = true := by
            cases hi : (indexPhase .simplex obs sz ((runPhase obs sz.build 0).2 + 2)).1 with
            | true => rfl
            | false => exact absurd (indexPhase_interrupted _ obs hm sz _ hi _ (Nat.le_refl _)) h3
          simp only [h3, Bool.false_eq_true, if_false]
          rcases walk ((indexPhase .simplex obs sz ((runPhase obs sz.build 0).2 + 2)).2 + 1) with h | ⟨h, hw⟩
          · simp [h]
          · simp [h, hb, hi, hw]
      | hybrid =>
        simp only
        by_cases h3 : obs (indexPhase .hybrid obs sz ((runPhase obs sz.build 0).2 + 2)).2 = true
        · simp [h3]
        · have hi : (indexPhase .hybrid obs sz ((runPhase obs sz.build 0).2 + 2)).1 = true := by
            simp [indexPhase]
          simp only [h3, Bool.false_eq_true, if_false]
          rcases walk ((indexPhase .hybrid obs sz ((runPhase obs sz.build 0).2 + 2)).2 + 1) with h | ⟨h, hw⟩
          · simp [h]
          · simp [h, hb, hi, hw]

/-- **render_uncancelled.** If no read ever observes the flag, a complete mesh is returned. -/
theorem render_uncancelled (alg : Alg) (sz : Sizes) :
    render alg sz (fun _ => false) = some true := by
  have hq : ∀ n c, runPhase (fun _ => false) n c = (true, c + n) :=
    fun n c => runPhase_quiet _ n c (fun _ _ _ => rfl)
  unfold render; cases alg <;> simp [hq, indexPhase]

/-- Record of the defect repaired by f00be3c: in the PRE-FIX flow `renderOld` (no read after
    `assignIndices` / `Dual::walk`) the statement was false — DUAL_CONTOURING, one build read, two
    walk reads, flag raised just before clock 3 (the first read of the walk loop): a mesh the walk
    did not complete was returned.  The current flow returns `nullptr` on the same input. -/
theorem renderOld_counterexample :
    Mono (raisedAt (some 3)) ∧ renderOld .dc ⟨1, 0, 2⟩ (raisedAt (some 3)) = some false ∧
    render .dc ⟨1, 0, 2⟩ (raisedAt (some 3)) = none :=
  ⟨raisedAt_mono _, by decide, by decide⟩

/-- the same for ISO_SIMPLEX with the flag raised during `assignIndices` -/
theorem renderOld_counterexample_index :
    renderOld .simplex ⟨1, 2, 2⟩ (raisedAt (some 4)) = some false ∧
    render .simplex ⟨1, 2, 2⟩ (raisedAt (some 4)) = none := by decide

/-- hence all-or-nothing did not hold for the pre-fix flow -/
theorem renderOld_not_all_or_nothing :
    ¬ ∀ (alg : Alg) (sz : Sizes) (obs : Nat → Bool), Mono obs →
        renderOld alg sz obs = none ∨ renderOld alg sz obs = some true := by
  intro h
  have := h .dc ⟨1, 0, 2⟩ _ (raisedAt_mono (some 3))
  revert this
  decide

/-! ## (b) the worker pool -/

/-- **last_arriver** (proved in LibfiveProofs/Pool.lean, restated): for a counter initialised to
    `n − 1` (`(1 << N) − 1`) and ANY admissible interleaving of the `n` children's install /
    `pending--` steps, nobody observes 0 before all have arrived, exactly one observes it, it is
    the last arriver, and all `n` children are installed when it does. -/
theorem last_arriver (n : Nat) (hn : 0 < n) (tr : List BEv) (hev : ∀ e ∈ tr, e.child < n)
    (s : BState) (hr : brun (BState.init n) tr = some s) :
    s.collectors.length ≤ 1 ∧
    (s.arrived.length < n → s.collectors = []) ∧
    (s.arrived.length = n → ∃ i rest, s.arrived = i :: rest ∧ s.collectors = [i] ∧
        ∀ j, j < n → j ∈ s.installed) :=
  Libfive.Pool.last_arriver n hn tr hev s hr

/-- **no_lost_task.** In every state the pool can reach from its initial state (root pushed), by
    ANY sequence of worker steps and cancellations: tasks are pairwise distinct; a task is popped
    at most once; every task ever pushed is either popped or still queued (global stack or a local
    stack) — the "bounded push, else local" rule never drops one; and when the queues are empty
    the popped tasks are exactly the pushed ones. -/
theorem no_lost_task (n cap L : Nat) (tr : List Ev) (s : S) (h : run (S.init n cap L) tr = some s) :
    s.pushed.Nodup ∧ s.popped.Nodup ∧
    (∀ c ∈ s.pushed, (c ∈ s.popped ∧ c ∉ s.queued) ∨ (c ∉ s.popped ∧ c ∈ s.queued)) ∧
    (∀ c ∈ s.popped, c ∈ s.pushed) ∧
    (s.queued = [] → s.popped.Perm s.pushed) := by
  have q := run_q tr _ s (q_init n cap L) h
  have hnd : (s.popped ++ s.queued).Nodup := q.perm.nodup_iff.1 q.nodup
  have hdis := List.nodup_append.1 hnd
  refine ⟨q.nodup, hdis.1, ?_, ?_, ?_⟩
  · intro c hc
    have := q.perm.mem_iff.1 hc
    rcases List.mem_append.1 this with hp | hq
    · exact Or.inl ⟨hp, fun hq => hdis.2.2 c hp c hq rfl⟩
    · exact Or.inr ⟨fun hp => hdis.2.2 c hp c hq rfl, hq⟩
  · intro c hc
    exact q.perm.mem_iff.2 (List.mem_append_left _ hc)
  · intro he
    have := q.perm
    rw [he, List.append_nil] at this
    exact this.symm

/- worker_progress: in every reachable non-final state some worker has an enabled non-spinning step, and
   every non-spinning step decreases a measure, hence without cancel the pool reaches `root collected`.
   This is now proved in full below (`cell_ownership`, `worker_measure_decreases`, `worker_steps_bounded`,
   `worker_deadlock_free`, `worker_progress`, `worker_can_finish`; lemmas in LibfiveProofs/PoolProgress.lean).
   `worker_progress_partial` (state-independent enabledness facts, the cancel/done half) is kept as it was
   and is reused by `worker_progress`. -/

/-- **worker_progress_partial.**  In ANY state (reachable or not):
    * once `cancel` (or `done`) is set, a worker at its loop head cannot start another iteration —
      `loop` is rejected — and its exit step is enabled: every worker leaves at its next check;
    * a worker at the loop head, picking a task, or walking up the tree always has an enabled
      step (it never waits for another worker: no lock, no blocking pop);
    * an exited worker takes no further steps. -/
theorem worker_progress_partial (s : S) (w : Nat) :
    (s.cancel = true ∨ s.done = true → step s (.loop w) = none ∧
        (s.act w = .idle → (step s (.exitLoop w)).isSome = true)) ∧
    (s.act w = .idle → (step s (.loop w)).isSome = true ∨ (step s (.exitLoop w)).isSome = true) ∧
    (s.act w = .inLoop → (step s (.noTask w)).isSome = true ∨ ∃ c, (step s (.pop w c)).isSome = true) ∧
    (∀ c, s.act w = .ascend c →
        (step s (.exitRoot w)).isSome = true ∨ ∃ l, (step s (.collect w l)).isSome = true) ∧
    (s.act w = .exited → ∀ e, e.worker = some w → step s e = none) := by
  refine ⟨?_, idle_enabled s w, inLoop_enabled s w, fun c => ascend_enabled s w c,
    fun hx e he => exited_final s w hx e he⟩
  intro h
  refine ⟨?_, fun hi => exit_enabled_of_cancel s w hi h⟩
  rcases h with h | h
  · exact loop_rejected_of_cancel s w h
  · exact loop_rejected_of_done s w h

/-- the pool's own `collect` step is the branch protocol of `last_arriver`: the flag it reports is
    "the fetch_sub returned 0" -/
theorem collect_reports_zero (s s' : S) (w : Nat) (l : Bool) (h : step s (.collect w l) = some s') :
    ∃ c p, s.act w = .ascend c ∧ s.parent c = some p ∧ (l = true ↔ s.pending p = 0) := by
  simp only [step] at h
  split at h
  · rename_i c hc
    split at h
    · rename_i p hp
      split at h
      · rename_i hl
        exact ⟨c, p, hc, hp, by simp [hl, fetchSub]⟩
      · simp at h
    · simp at h
  · simp at h

/-! ## (c) termination of the worker pool

  The model has one `act` per natural number; a trace is a run of `W` workers when all its worker
  events carry an index below `W` (`workersBelow W tr`, decidable).  The shape of the octree is not
  part of the state: every `evalDone` event chooses it (ambiguous cells only above level 0, children
  one level down), so all statements below hold for every shape of depth at most `L`. -/

/-- **cell_ownership.**  In every state reachable from the initial state by a run of `W` workers there
    is an assignment `own` of a *place* to every cell (`free` = not created, `queued`, `eval w`,
    `split w`, `asc w` = held by worker `w` in that phase, `waiting` on its children, `finished` = its
    `pending--` on the parent / the exit at the root has executed) that the state agrees with — a
    function, so every cell is in exactly one place:
    * created ⇔ not `free`; in a queue (lock-free stack or a local stack) ⇔ `queued`, and the queues
      hold no cell twice;
    * worker `w` evaluates / splits / walks up from `c` ⇔ `own c` says so; hence no two workers ever
      hold the same cell and a held cell is not queued;
    * a `waiting` branch has pushed all `n` children and its counter is exactly the number of its
      unfinished children minus one (so the `pending--` that observes 0 is the last child's);
    * the parent of an unfinished cell is a branch that is still splitting or waiting (it was not
      collected early).
    `Own` (LibfiveProofs/PoolProgress.lean) is the full inductive invariant. -/
theorem cell_ownership (n cap L W : Nat) (tr : List Ev) (hw : workersBelow W tr) (s : S)
    (h : run (S.init n cap L) tr = some s) :
    ∃ own : Nat → Place, Own W L s own ∧
      (∀ c, c ∈ s.created ↔ own c ≠ .free) ∧
      (∀ c, c ∈ s.queued ↔ own c = .queued) ∧ s.queued.Nodup ∧
      (∀ w c, s.act w = .eval c ↔ own c = .eval w) ∧
      (∀ w c, s.act w = .split c ↔ own c = .split w) ∧
      (∀ w c, s.act w = .ascend c ↔ own c = .asc w) ∧
      (∀ w w' c, (s.act w = .eval c ∨ s.act w = .split c ∨ s.act w = .ascend c) →
        (s.act w' = .eval c ∨ s.act w' = .split c ∨ s.act w' = .ascend c) → w = w') ∧
      (∀ p, own p = .waiting →
        s.kids p = s.n ∧ s.pending p + 1 = unfin s.created s.parent own p) ∧
      (∀ c ∈ s.created, ∀ p, s.parent c = some p → own c ≠ .finished →
        own p = .waiting ∨ ∃ w, own p = .split w) := by
  obtain ⟨own, hi⟩ : ∃ own, Own W L s own := ⟨_, own_run tr _ s own0 (own_init W n cap L) hw h⟩
  refine ⟨own, hi, ?_, ?_, ?_, fun w c => (hi.f_eval w c).symm, fun w c => (hi.f_split w c).symm,
    fun w c => (hi.f_asc w c).symm, ?_, ?_, ?_⟩
  · intro c
    have := hi.f_free c
    constructor
    · intro hc hf; exact (this.1 hf) hc
    · intro hne; exact hi.mem_created hne
  · intro c
    refine ⟨hi.queued_place, fun hq => ?_⟩
    obtain ⟨hc, hp⟩ := (hi.f_queued c).1 hq
    have := hi.q.perm.mem_iff.1 (hi.cr_eq ▸ hc)
    rcases List.mem_append.1 this with h | h
    · exact absurd h hp
    · exact h
  · have hnd : (s.popped ++ s.queued).Nodup := hi.q.perm.nodup_iff.1 hi.q.nodup
    exact (List.nodup_append.1 hnd).2.1
  · intro w w' c h1 h2
    have e1 := hi.f_eval w c; have e2 := hi.f_split w c; have e3 := hi.f_asc w c
    have e4 := hi.f_eval w' c; have e5 := hi.f_split w' c; have e6 := hi.f_asc w' c
    grind
  · intro p hp
    have hk := hi.k_wait p hp
    have := hi.pend p (by simp [hp])
    exact ⟨hk.1, by omega⟩
  · intro c hc p hp hf
    have := hi.child_par c hc p hp hf
    cases hop : own p <;> simp [hop] at this ⊢

/-- **worker_measure_decreases.**  `poolMeasure W L` (queued cells weighted by `cellPot`, the work a
    cell of that level can still cause, plus what every worker below `W` still has to do in its
    current phase, including its exit) is a natural number that, in every reachable state, EVERY
    accepted non-spinning step (`pop`, `evalDone`, `push`, `collect`, `exitLoop`, `exitRoot`) strictly
    decreases and no spinning step (`loop`, `noTask`, `cancel`) increases. -/
theorem worker_measure_decreases (n cap L W : Nat) (tr : List Ev) (hw : workersBelow W tr) (s : S)
    (h : run (S.init n cap L) tr = some s) (e : Ev) (he : e.below W = true) (s' : S)
    (hs : step s e = some s') :
    (e.isSpin = true → poolMeasure W L s' ≤ poolMeasure W L s) ∧
    (e.isSpin = false → poolMeasure W L s' < poolMeasure W L s) := by
  have hi := own_run tr _ s own0 (own_init W n cap L) hw h
  have := measure_step hi e s' hs (Ev.below_spec he)
  constructor
  · intro hsp; simpa [hsp] using this
  · intro hsp; simpa [hsp] using this

/-- **worker_steps_bounded.**  Every accepted trace of `W` workers from the initial state (root of
    level `L`, `n = 2^N` children per branch), whatever the interleaving, the shape of the octree and
    the number of spinning steps, contains
    * at most `cellPot n L L + W` non-spinning steps (the initial value of the measure; what is
      left of it in the state reached is subtracted),
    * hence at most `(L + 4) · (1 + n + … + n^L) + W`  — a bound that depends only on `n`, `L`, `W`,
    * and at most `4 · (cells actually created) + W − 1` — one push, pop, evaluation and `pending--`
      (or root exit) per cell of the octree that was really built, one exit per worker. -/
theorem worker_steps_bounded (n cap L W : Nat) (tr : List Ev) (hw : workersBelow W tr) (s : S)
    (h : run (S.init n cap L) tr = some s) :
    nonSpin tr + poolMeasure W L s ≤ cellPot n L L + W ∧
    nonSpin tr ≤ (L + 4) * fullCells n L + W ∧
    nonSpin tr + 1 ≤ 4 * s.created.length + W := by
  have h1 := measure_run tr _ s own0 (own_init W n cap L) hw h
  rw [poolMeasure_init] at h1
  have h2 := cellPot_le n L L
  have h3 := credit_run tr _ s own0 (own_init W n cap L) hw h
  have h4 := credit_le W s (grun (S.init n cap L) own0 tr)
  have h5 : 1 ≤ credit W (S.init n cap L) own0 := by
    simp [credit, S.init, own0, Place.stage]
  exact ⟨h1, by omega, by omega⟩

/-- **worker_deadlock_free.**  In every reachable state in which the render is neither finished
    (`done` unset) nor cancelled, some worker below `W` can take a non-spinning step, at most after
    its own loop-head check (`canProgress`): a worker that holds a cell can always continue with it,
    and if no worker holds a cell some task is queued where an idle worker can pop it. -/
theorem worker_deadlock_free (n cap L W : Nat) (hW : 0 < W) (tr : List Ev) (hw : workersBelow W tr)
    (s : S) (h : run (S.init n cap L) tr = some s) (hd : s.done = false) (hc : s.cancel = false) :
    ∃ w, w < W ∧ canProgress s w :=
  progress_exists (own_run tr _ s own0 (own_init W n cap L) hw h) hW hd hc

/-- **worker_progress.**  For every state `s` reachable by a run `tr` of `W ≥ 1` workers:
    1. `tr` has at most `(L + 4) · fullCells n L + W` non-spinning steps — no execution makes
       progress forever;
    2. while `done` and `cancel` are unset some worker below `W` can progress (deadlock freedom);
    3. once `done` or `cancel` is set no worker starts another iteration (`loop` is rejected) and every
       worker that has not left can progress — towards its exit: it leaves at its next loop-head check;
    4. the states in which the non-spinning steps are exhausted (no worker below `W` can progress)
       are exactly those in which every worker has left its loop, and then `done` is set;
    5. if `done` is set and `cancel` is not, the render is complete: nothing is queued, every task
       pushed was popped, every cell that pushed children was collected — in particular the root.
    So without cancellation every execution that runs until no non-spinning step is left (every
    fair maximal execution) ends after a bounded number of such steps with the root collected,
    `done = true` and all workers out of their loops. -/
theorem worker_progress (n cap L W : Nat) (hW : 0 < W) (tr : List Ev) (hw : workersBelow W tr)
    (s : S) (h : run (S.init n cap L) tr = some s) :
    nonSpin tr ≤ (L + 4) * fullCells n L + W ∧
    (s.done = false → s.cancel = false → ∃ w, w < W ∧ canProgress s w) ∧
    (s.done = true ∨ s.cancel = true →
      ∀ w, step s (.loop w) = none ∧ (s.act w ≠ .exited → canProgress s w)) ∧
    ((∀ w, w < W → ¬ canProgress s w) ↔ (∀ w, w < W → s.act w = .exited)) ∧
    ((∀ w, w < W → s.act w = .exited) → s.done = true) ∧
    (s.done = true → s.cancel = false →
      s.queued = [] ∧ s.popped.Perm s.pushed ∧ (∀ c ∈ s.created, s.kids c = 0 ∨ c ∈ s.collected) ∧
      (s.kids 0 = 0 ∨ 0 ∈ s.collected)) := by
  have hi := own_run tr _ s own0 (own_init W n cap L) hw h
  refine ⟨(worker_steps_bounded n cap L W tr hw s h).2.1, progress_exists hi hW, ?_, ?_, ?_, ?_⟩
  · intro hf w
    refine ⟨?_, flagged_progress hi w hf⟩
    rcases hf with hf | hf
    · exact loop_rejected_of_done s w hf
    · exact loop_rejected_of_cancel s w hf
  · exact ⟨fun hst => (stuck_final hi hW hst).1, fun hex w hw' => exited_stuck s w (hex w hw')⟩
  · intro hex
    exact hi.exited_done 0 (hex 0 hW)
  · intro hd hc
    obtain ⟨hfin, hq, hp, h0⟩ := complete_of_done hi hd hc
    refine ⟨hq, hp, ?_, h0⟩
    intro c hcc
    exact hi.coll c (by simp [hfin c hcc])

/-- **worker_can_finish.**  From every reachable uncancelled state the workers below `W` alone can
    finish the render: some continuation of the run reaches `done = true` without cancellation
    (so the hypotheses of `worker_progress` are met by runs that do terminate). -/
theorem worker_can_finish (n cap L W : Nat) (hW : 0 < W) (tr : List Ev) (hw : workersBelow W tr)
    (s : S) (h : run (S.init n cap L) tr = some s) (hc : s.cancel = false) :
    ∃ tr' s', workersBelow W tr' ∧ run (S.init n cap L) (tr ++ tr') = some s' ∧
      s'.cancel = false ∧ s'.done = true := by
  have hi := own_run tr _ s own0 (own_init W n cap L) hw h
  obtain ⟨tr', s', h1, h2, h3, h4⟩ := can_finish hW _ s _ hi hc (Nat.le_refl _)
  exact ⟨tr', s', h1, by rw [run_append _ _ _ _ h]; exact h2, h3, h4⟩

-- hypotheses are satisfiable: two children arriving in the order 1, 0
example : brun (BState.init 2) [.install 1, .install 0, .dec 1, .dec 0] =
    some ⟨2 ^ 32 - 1, [0, 1], [0, 1], [0]⟩ := by decide
example : Mono (raisedAt (some 3)) := raisedAt_mono _
example : render .simplex ⟨3, 2, 4⟩ (raisedAt none) = some true := by decide
example : render .hybrid ⟨2, 0, 3⟩ (raisedAt (some 9)) = some true := by decide
-- a pool run: one worker pops the root of a one-level 1-ary tree, splits it, evaluates the child, collects
example : (run (S.init 1 1 1) [.loop 0, .pop 0 0, .evalDone 0 .amb, .push 0 1 false, .loop 0, .pop 0 1,
    .evalDone 0 .leaf, .collect 0 true, .exitRoot 0]).isSome = true := by decide

-- the termination theorems on concrete runs.  One worker, unary tree of depth 1, run to the end:
def demoTrace : List Ev := [.loop 0, .pop 0 0, .evalDone 0 .amb, .push 0 1 false, .loop 0, .pop 0 1,
    .evalDone 0 .leaf, .collect 0 true, .exitRoot 0]
example : workersBelow 1 demoTrace := by decide
example : (run (S.init 1 1 1) demoTrace).isSome = true := by decide
example : nonSpin demoTrace = 7 ∧ cellPot 1 1 1 + 1 = 8 ∧ (1 + 4) * fullCells 1 1 + 1 = 11 := by decide
-- the final state: done, not cancelled, the worker has left (so no worker below 1 can progress),
-- two cells created (bound 4·2 + 1 − 1 = 8 ≥ 7), the root collected
example : (run (S.init 1 1 1) demoTrace).map (fun s => (s.done, s.cancel, s.act 0, s.created.length, s.collected)) =
    some (true, false, .exited, 2, [0]) := by decide
-- a non-final state (root split, child queued, worker back at the loop head): done and cancel unset
example : (run (S.init 1 1 1) (demoTrace.take 4)).map (fun s => (s.done, s.cancel, s.act 0, s.bag)) =
    some (false, false, .idle, [1]) := by decide
-- two workers, binary tree, the second child goes to the local stack of worker 0 (capacity 1)
example : workersBelow 2 [.loop 0, .loop 1, .pop 0 0, .evalDone 0 .amb, .push 0 1 false, .push 0 2 true,
    .pop 1 1, .evalDone 1 .leaf, .collect 1 false] := by decide
example : (run (S.init 2 1 1) [.loop 0, .loop 1, .pop 0 0, .evalDone 0 .amb, .push 0 1 false, .push 0 2 true,
    .pop 1 1, .evalDone 1 .leaf, .collect 1 false, .loop 0, .pop 0 2, .evalDone 0 .leaf, .collect 0 true,
    .exitRoot 0, .exitLoop 1]).map (fun s => (s.done, s.act 0, s.act 1, s.collected)) =
    some (true, .exited, .exited, [0]) := by decide
-- a cancelled run: the flag is raised while the root is being evaluated; the worker leaves at its next check
example : (run (S.init 2 1 1) [.loop 0, .pop 0 0, .cancel, .evalDone 0 .term, .exitRoot 0]).map
    (fun s => (s.done, s.cancel, s.act 0)) = some (true, true, .exited) := by decide

end Libfive.C11
