/-
  C09 — The height-map equals a brute-force scan of the voxel grid.
  Property theorems only; model in LibfiveModel/Heightmap.lean, helper lemmas in
  LibfiveProofs/Heightmap.lean.

  Reading guide.  `f i j k` = "the expression is negative at the centre of global voxel (i,j,k)";
  `zr k` = height of voxel layer k (any weakly increasing table, `Mono`); `I` = what `recurse` makes of
  the interval result of a view; `Sound f I` = filled ⇒ every voxel centre of the view is inside,
  empty ⇒ none is.  Depth pixels live in the same ordered type as the heights.
-/
import LibfiveProofs.Heightmap

namespace Libfive.C09

open Libfive.Heightmap

/-! ## 1. View::split partitions voxels exactly -/

/-- **split_partitions.** For every mask and every view: each voxel of the parent lies in exactly one
    half, the voxel counts add up, and if the chosen axis had ≥ 2 voxels (and the parent is non-empty)
    both halves are non-empty. -/
theorem split_partitions (ax ay az : Bool) (v : View) :
    (∀ i j k, v.mem i j k ↔ ((v.split ax ay az).1.mem i j k ∨ (v.split ax ay az).2.mem i j k)) ∧
    (∀ i j k, ¬ ((v.split ax ay az).1.mem i j k ∧ (v.split ax ay az).2.mem i j k)) ∧
    (v.split ax ay az).1.voxels + (v.split ax ay az).2.voxels = v.voxels ∧
    (2 ≤ v.size (pickAxis ax ay az v) → 1 ≤ v.sx → 1 ≤ v.sy → 1 ≤ v.sz →
      0 < (v.split ax ay az).1.voxels ∧ 0 < (v.split ax ay az).2.voxels) := by
  refine ⟨fun i j k => (split_mem ax ay az v i j k).1, fun i j k => (split_mem ax ay az v i j k).2,
    split_voxels ax ay az v, ?_⟩
  unfold View.split
  cases pickAxis ax ay az v <;> simp only [View.size, View.voxels] <;> intro h2 hx hy hz <;>
    exact ⟨Nat.mul_pos (Nat.mul_pos (by omega) (by omega)) (by omega),
           Nat.mul_pos (Nat.mul_pos (by omega) (by omega)) (by omega)⟩

/-- **split_axis_largest.** The split axis is a largest one among the allowed axes. -/
theorem split_axis_largest (ax ay az : Bool) (v : View) :
    (ax = true → v.sx ≤ v.size (pickAxis ax ay az v)) ∧ (ay = true → v.sy ≤ v.size (pickAxis ax ay az v)) ∧
    (az = true → v.sz ≤ v.size (pickAxis ax ay az v)) :=
  pickAxis_largest ax ay az v

/-- **split_enumerates.** Splitting down to unit views visits every voxel of the view exactly once
    (and nothing else). -/
theorem split_enumerates (v : View) (i j k : Nat) :
    (enumerate (v.sx + v.sy + v.sz) v).count (i, j, k) = if v.mem i j k then 1 else 0 :=
  enumerate_count _ v (Nat.le_refl _) i j k

/-! ## 2. Voxels: number of voxels per axis -/

/-- **voxels_cover_partial.** With `p = num/den = res·(upper−lower)` (the single-precision product the
    constructor takes the ceiling of): the size is ≥ 1, `size` voxels of width `1/res` cover the extent
    (`p ≤ size`), and no fewer would do unless the size is the minimum 1.

    Full statement (DESIGN §5 C09 `voxels_cover`), not proved here because it is about float arithmetic:
    `size = max 1 ⌈res·(u−l)⌉` *and* the expanded bounds `[l − e/2, u + e/2]`, `e = size/res − (u−l)`,
    contain the requested `[l, u]`, *and* the voxel centres are `lower·(1−t) + upper·t`, `t = (k+½)/size`,
    strictly increasing.  The float part is observed on every generated grid by the check
    (tools/checks/c09.py `voxel_facts`, tolerance 8 ulp of the largest bound) and `pts` monotonicity is
    checked exactly by the driver (it is the hypothesis `Mono` of the rendering theorems). -/
theorem voxels_cover_partial (num den : Nat) (hd : 0 < den) :
    1 ≤ voxSize num den ∧ num ≤ voxSize num den * den ∧
    (voxSize num den = 1 ∨ (voxSize num den - 1) * den < num) :=
  voxSize_spec num den hd

/-! ## 3. recurse / render = brute-force column scan -/

-- `IsBrute f zr i j cz sz old new` (LibfiveProofs/Heightmap.lean) is the brute-force characterisation of one pixel:
--   no voxel of the column range [cz, cz+sz) is inside            ⇒ new = old
--   k is the topmost inside voxel of the column range (any such k)  ⇒ new = max old (zr k)

/-- **recurse_eq_bruteforce.** For every classifier, every monotone height table, every interval oracle
    that is sound for the classifier, every view and every initial depth image, `recurse` leaves every
    pixel outside the view's block untouched and puts in every pixel of the block the brute-force value
    of its column. (`N ≥ 1` is `ArrayEvaluator::N`; fuel `sx+sy+sz` is always enough.) -/
theorem recurse_eq_bruteforce (N : Nat) (f : Nat → Nat → Nat → Bool) (zr : Nat → Int) (I : View → IState)
    (hN : 1 ≤ N) (hz : Mono zr) (hI : Sound f I) (fuel : Nat) (v : View) (m : Img)
    (hfuel : v.sx + v.sy + v.sz ≤ fuel) (hin : ∀ i j, v.memXY i j → m.inb i j) (i j : Nat) :
    (¬ v.memXY i j → (recurse N f zr I fuel v m).get i j = m.get i j) ∧
    (v.memXY i j → IsBrute f zr i j v.cz v.sz (m.get i j) ((recurse N f zr I fuel v m).get i j)) := by
  obtain ⟨_, h⟩ := recurse_spec N f zr I hN hz hI fuel v m hfuel hin
  constructor
  · intro hm; rw [h, if_neg hm]
  · intro hm; rw [h, if_pos hm]; exact colSpec_isBrute f zr i j v.cz v.sz _

/-- **recurse_local.** A call of `recurse` on a view writes only the view's pixel block, and what it
    writes depends only on that block of the input image: calls on views with disjoint blocks commute and
    may run concurrently (this is what makes the per-thread regions of `render` independent). -/
theorem recurse_local (N : Nat) (f : Nat → Nat → Nat → Bool) (zr : Nat → Int) (I : View → IState)
    (hN : 1 ≤ N) (hz : Mono zr) (hI : Sound f I) (v : View) (m m' : Img)
    (hin : ∀ i j, v.memXY i j → m.inb i j) (hin' : ∀ i j, v.memXY i j → m'.inb i j)
    (hagree : ∀ i j, v.memXY i j → m.get i j = m'.get i j) :
    (∀ i j, ¬ v.memXY i j → (recurse N f zr I (v.sx + v.sy + v.sz) v m).get i j = m.get i j) ∧
    (∀ i j, v.memXY i j → (recurse N f zr I (v.sx + v.sy + v.sz) v m).get i j =
                           (recurse N f zr I (v.sx + v.sy + v.sz) v m').get i j) := by
  obtain ⟨_, h⟩ := recurse_spec N f zr I hN hz hI _ v m (Nat.le_refl _) hin
  obtain ⟨_, h'⟩ := recurse_spec N f zr I hN hz hI _ v m' (Nat.le_refl _) hin'
  constructor
  · intro i j hm; rw [h, if_neg hm]
  · intro i j hm; rw [h, h', if_pos hm, if_pos hm, hagree i j hm]

/-- **regions_partition.** The regions handed to the worker threads tile the image of the root view
    (every pixel in exactly one region), all span the full Z range, there are at most
    `max 1 workers` of them, and none is empty when the root is not. -/
theorem regions_partition (workers : Nat) (v : View) :
    XYPart (regions workers v) v ∧ (regions workers v).length ≤ max 1 workers ∧
    (1 ≤ v.sx ∧ 1 ≤ v.sy ∧ 1 ≤ v.sz → ∀ r, r ∈ regions workers v → 1 ≤ r.sx ∧ 1 ≤ r.sy ∧ 1 ≤ r.sz) := by
  refine ⟨regions_part workers v, ?_, ?_⟩
  · unfold regions
    apply regionsLoop_length
    simp only [List.length_cons, List.length_nil]; omega
  · intro hv
    unfold regions
    apply regionsLoop_nonempty
    intro r hr; simp at hr; subst hr; exact hv

/-- **render_eq_bruteforce.** The whole `Heightmap::render` (top-level XY split into at most `workers`
    regions, then `recurse` on each): every pixel of the root view's block holds the brute-force value
    of its column, for every worker count. -/
theorem render_eq_bruteforce (N : Nat) (f : Nat → Nat → Nat → Bool) (zr : Nat → Int) (I : View → IState)
    (hN : 1 ≤ N) (hz : Mono zr) (hI : Sound f I) (workers : Nat) (v : View) (m : Img)
    (hin : ∀ i j, v.memXY i j → m.inb i j) (i j : Nat) :
    (¬ v.memXY i j → (render N f zr I workers v m).get i j = m.get i j) ∧
    (v.memXY i j → IsBrute f zr i j v.cz v.sz (m.get i j) ((render N f zr I workers v m).get i j)) := by
  obtain ⟨_, h⟩ := render_spec N f zr I hN hz hI workers v m hin
  constructor
  · intro hm; rw [h, if_neg hm]
  · intro hm; rw [h, if_pos hm]; exact colSpec_isBrute f zr i j v.cz v.sz _

/-- **render_workers_independent.** The image does not depend on the number of workers (nor on which
    sound interval oracle each run happened to see). -/
theorem render_workers_independent (N : Nat) (f : Nat → Nat → Nat → Bool) (zr : Nat → Int)
    (I₁ I₂ : View → IState) (hN : 1 ≤ N) (hz : Mono zr) (h₁ : Sound f I₁) (h₂ : Sound f I₂)
    (w₁ w₂ : Nat) (v : View) (m : Img) (hin : ∀ i j, v.memXY i j → m.inb i j) (i j : Nat) :
    (render N f zr I₁ w₁ v m).get i j = (render N f zr I₂ w₂ v m).get i j := by
  rw [(render_spec N f zr I₁ hN hz h₁ w₁ v m hin).2, (render_spec N f zr I₂ hN hz h₂ w₂ v m hin).2]

/-- **render_fresh.** The property as stated: starting from an image filled with a value `ninf` below
    every height, each pixel ends as the height of the topmost inside voxel of its column, or `ninf` if
    the column has none. -/
theorem render_fresh (N : Nat) (f : Nat → Nat → Nat → Bool) (zr : Nat → Int) (I : View → IState)
    (hN : 1 ≤ N) (hz : Mono zr) (hI : Sound f I) (workers sx sy sz : Nat) (ninf : Int)
    (hninf : ∀ k, ninf ≤ zr k) (i j : Nat) (hi : i < sx) (hj : j < sy) :
    ((∀ k, k < sz → f i j k = false) →
        (render N f zr I workers ⟨0, 0, 0, sx, sy, sz⟩ (Img.const sx sy ninf)).get i j = ninf) ∧
    (∀ k, k < sz → f i j k = true → (∀ k', k < k' → k' < sz → f i j k' = false) →
        (render N f zr I workers ⟨0, 0, 0, sx, sy, sz⟩ (Img.const sx sy ninf)).get i j = zr k) := by
  have hin : ∀ i j, View.memXY ⟨0, 0, 0, sx, sy, sz⟩ i j → (Img.const sx sy ninf).inb i j := by
    intro i j h
    unfold View.memXY at h; dsimp only at h
    unfold Img.inb Img.const
    refine ⟨Array.replicate sx ninf, ?_, by simp; omega⟩
    simp [Array.getElem?_replicate]; omega
  have hget : (Img.const sx sy ninf).get i j = ninf := by
    unfold Img.get Img.const
    simp [hi, hj]
  have hm : View.memXY ⟨0, 0, 0, sx, sy, sz⟩ i j := by unfold View.memXY; dsimp only; omega
  obtain ⟨b1, b2⟩ := (render_eq_bruteforce N f zr I hN hz hI workers ⟨0, 0, 0, sx, sy, sz⟩ _ hin i j).2 hm
  dsimp only at b1 b2
  rw [hget] at b1 b2
  constructor
  · intro h; exact b1 (fun k _ h2 => h k (by omega))
  · intro k hk hf hall
    rw [b2 k (by omega) (by omega) hf (fun k' a b => hall k' a (by omega))]
    have := hninf k
    simp only [Int.max_def]; split <;> omega

/-! ## the hypotheses are satisfiable (and necessary) -/

/-- a solid slab: inside below layer 2 -/
def exF : Nat → Nat → Nat → Bool := fun _ _ k => decide (k < 2)
/-- an exact interval oracle for the slab -/
def exI : View → IState := fun v =>
  if v.cz + v.sz ≤ 2 then IState.filled else if 2 ≤ v.cz then IState.empty else IState.ambiguous
def exZ : Nat → Int := fun k => (k : Int) * 10

example : Mono exZ := by intro a b h; unfold exZ; omega
example : Sound exF exI := by
  intro v
  unfold exF exI View.mem
  constructor
  · intro h i j k hm
    by_cases c : v.cz + v.sz ≤ 2
    · simp; omega
    · rw [if_neg c] at h; split at h <;> cases h
  · intro h i j k hm
    by_cases c : v.cz + v.sz ≤ 2
    · rw [if_pos c] at h; cases h
    · rw [if_neg c] at h
      by_cases c2 : 2 ≤ v.cz
      · simp; omega
      · rw [if_neg c2] at h; cases h
-- the trivial oracle (always ambiguous) is sound for every classifier
example (f : Nat → Nat → Nat → Bool) : Sound f (fun _ => IState.ambiguous) := by
  intro v; constructor <;> intro h <;> cases h
-- a 2×2×4 grid, N = 1 (so that interval answers are used), 3 workers: pixel (1,1) ends at layer 1
example : (render 1 exF exZ exI 3 ⟨0, 0, 0, 2, 2, 4⟩ (Img.const 2 2 (-1000))).get 1 1 = 10 := by decide
example : regions 3 ⟨0, 0, 0, 4, 2, 4⟩ = [⟨2, 0, 0, 2, 2, 4⟩, ⟨0, 0, 0, 1, 2, 4⟩, ⟨1, 0, 0, 1, 2, 4⟩] := by decide
-- a single-voxel axis stops the top-level splitting early
example : regions 16 ⟨0, 0, 0, 2, 2, 4⟩ = [⟨0, 0, 0, 1, 2, 4⟩, ⟨1, 0, 0, 1, 2, 4⟩] := by decide
example : (⟨0, 0, 0, 5, 3, 5⟩ : View).split true true true = (⟨0, 0, 0, 3, 3, 5⟩, ⟨3, 0, 0, 2, 3, 5⟩) := by decide
example : (⟨0, 0, 0, 3, 3, 5⟩ : View).split true true false = (⟨0, 0, 0, 2, 3, 5⟩, ⟨2, 0, 0, 1, 3, 5⟩) := by decide
example : (enumerate 7 ⟨0, 0, 0, 2, 2, 3⟩).length = 12 := by decide
example : voxSize 7 2 = 4 ∧ voxSize 8 2 = 4 ∧ voxSize 0 1 = 1 := by decide

/-- `Sound` cannot be dropped: an oracle that answers *filled* where the classifier is false
    (what the renderer did before fix 3984e95 on a maybe-NaN interval such as that of `√x − 10`, whose
    value is NaN — not negative — for x < 0) makes `recurse` fill pixels whose columns have no inside voxel. -/
example : (recurse 1 (fun _ _ _ => false) exZ (fun _ => IState.filled) 9 ⟨0, 0, 0, 2, 2, 4⟩
            (Img.const 2 2 (-1000))).get 0 0 = 30 := by decide

end Libfive.C09
