/-
  C01 — Point evaluation computes the function the expression denotes.
  Chain: expression --(C07: flatten_sound / optimize_sound)--> optimised expression
         --(deck_tape_correct: model of Deck::Deck's emission loop, for every node list meeting
            walk()'s specification)--> tape
         --(tape_denotes)--> slot values --(batch_slotwise)--> every slot of every batch.
  `deck_eval_correct` composes the first three arrows.  The tie still checks per run that the real
  Deck's tape decompiles to the real optimised tree.
-/
import LibfiveProofs.TapeExpr
import LibfiveProofs.ExprSound
import LibfiveProofs.Deck
import LibfiveProofs.OptimizeSound
import LibfiveProofs.WellArity

namespace Libfive.C01
open Libfive Expr

variable {C α : Type}

/-- **tape_denotes.** Evaluating a tape yields, in every slot, the value of the expression the
    tape decompiles to (any interpretation of the opcodes, any leaf assignment, any oracles). -/
theorem tape_denotes (I : Interp C α) (leaf : Nat → Expr C) (e : Env α) (t : List Clause) (s : Nat) :
    evalList (evTape I) (fun k => I.orc k e.x e.y e.z) t (fun s => denote I (leaf s) e) s =
      denote I (decompileF leaf t s) e :=
  (decompile_sound I leaf e t s).symm

/-- **batch_slotwise.** Every slot of a batched evaluation equals the single-point evaluation of
    that slot's inputs; other slots (stale or not) do not influence it. -/
theorem batch_slotwise (ev : Op → α → α → α) (orc : Nat → Nat → α) (t : List Clause)
    (V : Nat → Nat → α) (j s : Nat) :
    evalListB ev orc t V s j = evalList ev (fun k => orc k j) t (fun s => V s j) s :=
  Libfive.batch_slotwise ev orc t V j s

/-- **batch_independent_of_other_slots.** Two batches that agree in column `j` agree in slot `j`
    of the result. -/
theorem batch_independent_of_other_slots (ev : Op → α → α → α) (orc : Nat → Nat → α)
    (t : List Clause) (V W : Nat → Nat → α) (j : Nat) (h : ∀ s, V s j = W s j) (s : Nat) :
    evalListB ev orc t V s j = evalListB ev orc t W s j := by
  rw [Libfive.batch_slotwise, Libfive.batch_slotwise]
  congr 1
  funext s'
  exact h s'

/-- **constant_fold_sound** (from C07): the construction-time folding of an all-constant node
    denotes the operation applied to the constants, when folding is exact. -/
theorem constant_fold_sound [Field α] [DecidableEq C] {K : ConstOps C} {I : Interp C α}
    (L : Lawful K I) (op : Op) (a b : C) (e : Env α) (h : op.args = some 2) :
    denote I (mkBinary K op (const a) (const b)) e = I.bin op (I.const a) (I.const b) := by
  rw [mkBinary_sound L op _ _ e h]; rfl

/-! ### Deck::Deck -/

section deck
open Libfive.Deck Libfive.Optimize
variable [DecidableEq C]

/-- **deck_tape_correct.**  For every node list `flat` meeting the specification of `walk()` (no
    node twice, operands before users, no remap/apply/invalid nodes) whose unary / binary nodes carry
    opcodes of that arity, and every node `m` of it: running the tape `Deck::Deck` emits, on slots
    holding the constants, variable values and point coordinates, leaves `m`'s value in `m`'s slot
    (any interpretation of the opcodes, any oracles). -/
theorem deck_tape_correct (I : Interp C α) (e : Env α) (flat : List (Expr C)) (root : Expr C)
    (hT : TopoFlat flat) (hA : ∀ m ∈ flat, nodeArity m) (m : Expr C) (hm : m ∈ flat) :
    evalList (evTape I) (orcTable I e flat) (build flat root).t (slots0 I e flat) (idOf flat m)
      = denote I m e :=
  build_eval I e flat root hT hA m hm

/-- **deck_wf.**  The emitted base tape is well-formed in the sense every `Tape::push` theorem of
    C05 assumes (ids non-zero and distinct, operands refer to later clauses or leaf slots). -/
theorem deck_wf (flat : List (Expr C)) (root : Expr C) (hT : TopoFlat flat) : WF (build flat root).t :=
  build_wf flat root hT

/-- **deck_eval_correct (expression → optimised expression → tape → value).**  For a well-formed
    tree `t` (any sharing, nested remap / apply), with `o = optimize (flatten t)` what
    `Tree::optimized()` returns and `flat` any node list of `o` meeting `walk()`'s specification:
    the root slot of the evaluated deck holds the mathematical value of `t`, over any field with a
    lawful interpretation of the opcodes (all non-arithmetic opcodes uninterpreted). -/
theorem deck_eval_correct [Field α] {K : ConstOps C} {I : Interp C α} (L : LawfulOpt K I)
    (le : Expr C → Expr C → Bool) (t : Expr C) (hw : wellArity t) (e : Env α)
    (flat : List (Expr C)) (hT : TopoFlat flat) (hA : ∀ m ∈ flat, nodeArity m)
    (hroot : optimize K le (flatten K t) ∈ flat) :
    let o := optimize K le (flatten K t)
    evalList (evTape I) (orcTable I e flat) (build flat o).t (slots0 I e flat) (build flat o).root
      = denote I t e := by
  intro o
  have h1 := build_eval I e flat o hT hA o hroot
  have h2 : denote I o e = denote I t e := by
    show denote I (optimize K le (flatten K t)) e = denote I t e
    rw [Libfive.Optimize.optimize_sound L le _ e (wellArity_flatten K t hw),
      Libfive.flatten_sound L.toLawful t e hw]
  rw [← h2]; exact h1

/-- **walk_spec_satisfiable.**  The specification assumed of `walk()` is met by the post-order
    traversal (with structural de-duplication) of EVERY flattened expression, and the root is in
    the list — so `deck_tape_correct` / `deck_eval_correct` are not vacuous for any tree. -/
theorem walk_spec_satisfiable (o : Expr C) (hp : plainDeep o) :
    TopoFlat (postorder o) ∧ o ∈ postorder o :=
  postorder_spec o hp

/-- **walk_spec_test_sound.**  The executable test the correspondence driver runs on the node list
    recovered from every real deck implies the specification. -/
theorem walk_spec_test_sound (flat : List (Expr C)) (h : topoFlatB flat = true) : TopoFlat flat :=
  topoFlatB_sound flat h

-- the specification is satisfiable and the model computes: `max(min(x,y)+c, min(x,y))` (shared
-- sub-term) in post-order is 5 nodes; the tape has 3 clauses, root id 1, and is well-formed
def exDag : Expr Nat := .bin .max (.bin .add (.bin .min .x .y) (.const 7)) (.bin .min .x .y)
example : postorder exDag = [.x, .y, .bin .min .x .y, .const 7, .bin .add (.bin .min .x .y) (.const 7), exDag] := by
  decide
example : (build (postorder exDag) exDag).t = [⟨.max, 1, 2, 4⟩, ⟨.add, 2, 4, 3⟩, ⟨.min, 4, 6, 5⟩] := by decide
example : (build (postorder exDag) exDag).root = 1 := by decide
example : wfb (build (postorder exDag) exDag).t = true := by decide
example : (postorder exDag).Nodup ∧ (∀ m ∈ postorder exDag, plainNode m = true) := by decide
example : ∀ i, i < (postorder exDag).length →
    ∀ c ∈ children ((postorder exDag).getD i .invalid), (postorder exDag).idxOf c < i := by decide

end deck

-- satisfiability: the tape of `max(min(x,y), z)` (slots x=4 y=5 z=6) decompiles to that expression
example : decompileF (C := Nat) (fun s => if s = 4 then Expr.x else if s = 5 then Expr.y else Expr.z)
    [⟨Op.max, 1, 2, 6⟩, ⟨Op.min, 2, 4, 5⟩] 1 = Expr.bin Op.max (Expr.bin Op.min Expr.x Expr.y) Expr.z := by
  decide

end Libfive.C01
