/-
  C01 — Point evaluation computes the function the expression denotes.
  Chain: expression --(C07: flatten_sound / the optimiser)--> optimised expression
         --(Deck: checked per run: the real tape decompiles to the real optimised tree)--> tape
         --(decompile_sound)--> slot values --(batch_slotwise)--> every slot of every batch.
-/
import LibfiveProofs.TapeExpr
import LibfiveProofs.ExprSound

namespace Libfive.C01
open Libfive Expr

variable {C α : Type}

/-- **tape_denotes.** Evaluating a tape yields, in every slot, the value of the expression the
    tape decompiles to (any interpretation of the opcodes, any leaf assignment, any oracles). -/
theorem tape_denotes (I : Interp C α) (leaf : Nat → Expr C) (e : Env α) (t : List Clause) (s : Nat) :
    evalList (evTape I) (fun k => I.orc k e.x e.y e.z) t (fun s => denote I (leaf s) e) s =
      denote I (decompileF leaf t s) e :=
  (decompile_sound I leaf e t s).symm

/-- **batch_slotwise.** Every slot of a batched evaluation equals the single-point evaluation of
    that slot's inputs; other slots (stale or not) do not influence it. -/
theorem batch_slotwise (ev : Op → α → α → α) (orc : Nat → Nat → α) (t : List Clause)
    (V : Nat → Nat → α) (j s : Nat) :
    evalListB ev orc t V s j = evalList ev (fun k => orc k j) t (fun s => V s j) s :=
  Libfive.batch_slotwise ev orc t V j s

/-- **batch_independent_of_other_slots.** Two batches that agree in column `j` agree in slot `j`
    of the result. -/
theorem batch_independent_of_other_slots (ev : Op → α → α → α) (orc : Nat → Nat → α)
    (t : List Clause) (V W : Nat → Nat → α) (j : Nat) (h : ∀ s, V s j = W s j) (s : Nat) :
    evalListB ev orc t V s j = evalListB ev orc t W s j := by
  rw [Libfive.batch_slotwise, Libfive.batch_slotwise]
  congr 1
  funext s'
  exact h s'

/-- **constant_fold_sound** (from C07): the construction-time folding of an all-constant node
    denotes the operation applied to the constants, when folding is exact. -/
theorem constant_fold_sound [Field α] [DecidableEq C] {K : ConstOps C} {I : Interp C α}
    (L : Lawful K I) (op : Op) (a b : C) (e : Env α) (h : op.args = some 2) :
    denote I (mkBinary K op (const a) (const b)) e = I.bin op (I.const a) (I.const b) := by
  rw [mkBinary_sound L op _ _ e h]; rfl

-- satisfiability: the tape of `max(min(x,y), z)` (slots x=4 y=5 z=6) decompiles to that expression
example : decompileF (C := Nat) (fun s => if s = 4 then Expr.x else if s = 5 then Expr.y else Expr.z)
    [⟨Op.max, 1, 2, 6⟩, ⟨Op.min, 2, 4, 5⟩] 1 = Expr.bin Op.max (Expr.bin Op.min Expr.x Expr.y) Expr.z := by
  decide

end Libfive.C01
