/-
  C03 for dual contouring on uniform grids — the triangle list `DCMesher` emits is CLOSED and
  CONSISTENTLY ORIENTED.  Property theorems only; the model is LibfiveModel/DCGrid.lean (built on
  `MarchingTable<3>::e / p` as dumped from the running library, `Generated.MeshTables.marchE3 /
  marchP3`), the helper lemmas are in LibfiveProofs/DCGrid.lean.

  Setting: an `n1 × n2 × n3` grid of level-0 DC leaf cells (all leaves at the same level, nothing
  merged), corner states `s p` (true = FILLED) at the lattice points, the outer boundary of the
  grid uniform (`BoundaryUniform`).  `gridTris n1 n2 n3 s alt` is the list of triangles pushed by
  `DCMesher::load<A, D>` over all calls of the dual walk (one per interior lattice edge), for an
  arbitrary choice `alt` of the triangulation of each quad (the code decides it from vertex
  positions, dc_mesher.cpp:170); vertex ids are the injective numbering `vid` of (cell, patch).

  Outcome of the executable experiment that preceded the proof: the per-face cancellation
  `cancelOK` holds for ALL 3 · 4096 = 12288 pairs of corner masks that agree on a shared face —
  including the ambiguous faces (diagonal sign pattern): Nielson's dual-marching-cubes patches
  (marching.cpp:99-367) never resolve an ambiguous face differently on its two sides in a way
  that leaves a dual edge unmatched.  So no extra hypothesis ("no ambiguous face") is needed for
  closedness.  What ambiguous faces DO break is edge-manifoldness: `dc_not_edge_manifold` below.
-/
import LibfiveTheorems.C03
import LibfiveProofs.DCGrid

namespace Libfive.C03
open Libfive.Marching Libfive.DCGrid Generated.MeshTables

/-! ## (T) the finite table fact -/

/-- **dc_face_cancel (T).**  Decided over the regenerated `MarchingTable<3>::e / p`.
    Let two cells A and B = A + one step along axis `N` have corner masks `mA`, `mB` that agree
    on the shared face (`compat`).  Each of the four lattice edges of the face that has a sign
    change contributes, through the quad `DCMesher::load` builds around it, one directed dual edge
    across the face between (patch of A owning the edge) and (patch of B owning the edge); its
    direction is fixed by the edge's axis, its position on the face and which end is inside
    (`faceList`).  Then for every pair (patch of A, patch of B) exactly as many of these dual
    edges run A → B as B → A (`cancelOK`: the two lists of patch pairs are permutations of each
    other).  All 3 axes × 2^12 compatible mask pairs, ambiguous faces included. -/
theorem dc_face_cancel (N mA mB : Nat) (hN : N < 3) (hA : mA < 256) (hB : mB < 256)
    (h : compat N mA mB = true) : cancelOK N mA mB = true :=
  cancelOK_of_compat N mA mB hN hA hB h

/-- the same fact for weights: whatever weight `g a b` the dual edge (patch `a` of A) → (patch `b`
    of B) carries, the signed sum over the four edges of the face is zero -/
theorem dc_face_cancel_weights (N mA mB : Nat) (hN : N < 3) (hA : mA < 256) (hB : mB < 256)
    (h : compat N mA mB = true) (g : Nat → Nat → ℤ) : Fexpr N mA mB g = 0 :=
  Fexpr_zero N mA mB g (dc_face_cancel N mA mB hN hA hB h)

/-- every patch index stored in `MarchingTable<3>::p` is below 4 (`Leaf::index` has 4 slots), so
    `vid` below numbers the (cell, patch) pairs that occur injectively -/
theorem dc_patch_index_lt_four : ∀ m, m < 256 → ∀ e, e < 24 → pId m (Int.ofNat e) < 4 := pId_lt

/-! ## the lifting -/

/-- **dc_call_face_terms.**  One call `load<A>(ts)` (`ts[0] = c`), under any antisymmetric weight:
    the two pushed triangles weigh as much as four FACE terms — the dual edges across the faces
    `ts[0]|ts[1]` (normal `Q`), `ts[1]|ts[3]` (normal `R`), `ts[2]|ts[3]` (normal `Q`, reversed) and
    `ts[0]|ts[2]` (normal `R`, reversed), each read off the two masks on either side of the face
    alone (`fT`). -/
theorem dc_call_face_terms (n1 n2 : Nat) (s : Pt → Bool) (alt : Nat → Pt → Bool) (w : Edge Vid → ℤ)
    (hw : Antisym w) (A : Nat) (hA : A < 3) (c : Pt) :
    wsum w (dirEdges (emit n1 n2 s alt A c)) =
      fT n1 n2 s w (axQ A) c A 1 + fT n1 n2 s w (axR A) (addPt c (unit (axQ A))) A 0 -
      fT n1 n2 s w (axQ A) (addPt c (unit (axR A))) A 0 - fT n1 n2 s w (axR A) c A 1 :=
  emit_wsum n1 n2 s alt w hw A hA c

/-- **grid_dc_closed.**  For EVERY grid size `n1 × n2 × n3`, EVERY assignment of corner states
    that is uniform on the outer boundary of the grid, and EVERY choice of the triangulation of
    the quads: in the triangle list the DC mesher emits, every directed edge (ordered pair of
    vertex ids) occurs exactly as often as its reverse.  The mesh is closed (no boundary edge)
    and consistently oriented. -/
theorem grid_dc_closed (n1 n2 n3 : Nat) (s : Pt → Bool) (alt : Nat → Pt → Bool)
    (hb : BoundaryUniform n1 n2 n3 s) (e : Edge Vid) :
    (dirEdges (gridTris n1 n2 n3 s alt)).count e =
      (dirEdges (gridTris n1 n2 n3 s alt)).count (rev e) :=
  gridTris_closed n1 n2 n3 s alt hb e

/-- the signed form: under every antisymmetric weight the boundary of the mesh weighs zero
    (for corner states constant on the boundary and outside the grid) -/
theorem grid_dc_boundary_zero (n1 n2 n3 : Nat) (s : Pt → Bool) (b : Bool) (alt : Nat → Pt → Bool)
    (h : Ext n1 n2 n3 s b) (w : Edge Vid → ℤ) (hw : Antisym w) :
    wsum w (dirEdges (gridTris n1 n2 n3 s alt)) = 0 :=
  gridTris_wsum_zero h alt w hw

/-- the triangle list only depends on the corner states at the lattice points of the grid -/
theorem grid_dc_only_grid_points (n1 n2 n3 : Nat) (s s' : Pt → Bool) (alt : Nat → Pt → Bool)
    (h : ∀ p : Pt, p.1 ≤ n1 → p.2.1 ≤ n2 → p.2.2 ≤ n3 → s p = s' p) :
    gridTris n1 n2 n3 s alt = gridTris n1 n2 n3 s' alt :=
  gridTris_congr h alt

/-- **grid_dc_vid_injective.**  The numbering of the (cell, patch) pairs is injective on the grid
    (patch indices are below 4 by `dc_patch_index_lt_four`), so `vid` is a faithful stand-in for
    the index `pushVertex` hands out the first time `leaf->index[vi]` is needed. -/
theorem grid_dc_vid_injective (n1 n2 : Nat) (v v' : Vtx) (h1 : v.1.1 < n1) (h1' : v'.1.1 < n1)
    (h2 : v.1.2.1 < n2) (h2' : v'.1.2.1 < n2) (hp : v.2 < 4) (hp' : v'.2 < 4)
    (h : vid n1 n2 v = vid n1 n2 v') : v = v' :=
  vid_inj n1 n2 v v' h1 h1' h2 h2' hp hp' h

/-- **grid_dc_vertices_exist.**  Every vertex id used by an emitted triangle is `vid (c, k)` for a
    cell `c` of the grid and a patch index `k` below that cell's `vertex_count` (the number of
    patches of `MarchingTable<3>::v(corner_mask)`): the `assert(vi != -1)` of dc_mesher.cpp:110
    and the `assert(i < vertex_count)` of `DCTree::vert` hold. -/
theorem grid_dc_vertices_exist (n1 n2 n3 : Nat) (s : Pt → Bool) (alt : Nat → Pt → Bool)
    (t : Tri Vid) (ht : t ∈ gridTris n1 n2 n3 s alt) (v : Vid) (hv : v = t.1 ∨ v = t.2.1 ∨ v = t.2.2) :
    ∃ c k, inGrid n1 n2 n3 c = true ∧ k < vertexCount (cellMask s c) ∧ v = vid n1 n2 (c, k) :=
  gridTris_vertices n1 n2 n3 s alt t ht v hv

/-! ## the literal recursion of `Dual<3>::work / face3 / edge3`

`calls n1 n2 n3` is the closed-form enumeration "every interior lattice edge once, by axis and
`ts[0]`".  `dualW d o` (LibfiveModel/DCGrid.lean) is the recursion of dual.hpp:127-204 on the
complete octree of depth `d`, recording all four cells of every `load` call.

FULL STATEMENT (not proved; the 3D analogue of `dual_walk_calls` of C10Grid):
  `∀ d, (dualW d (0, 0, 0)).Perm ((calls (2 ^ d) (2 ^ d) (2 ^ d)).map callTuple)`.
What is missing is the induction over the depth (closed forms for the call sets of `edge3W` /
`face3W` and their disjointness).  Proved below: depths 1 and 2 by kernel evaluation (depth 3,
1176 calls, also evaluates to `true` but takes minutes in the kernel). -/

/-- **dual_walk_calls_partial.**  For the complete octrees of depth 1 and 2 the recursive dual walk
    makes exactly the calls of `calls` on the 2×2×2 resp. 4×4×4 grid, each once, with the four
    cells `ts[0..3]` where `tsCell` puts them. -/
theorem dual_walk_calls_partial :
    (dualW 1 (0, 0, 0)).Perm ((calls 2 2 2).map callTuple) ∧
    (dualW 2 (0, 0, 0)).Perm ((calls 4 4 4).map callTuple) := by
  constructor <;> rw [← List.isPerm_iff] <;> decide +kernel

/-! ## satisfiability of the hypotheses, non-vacuity, and what does NOT hold -/

/-- corner states given by a finite list of FILLED lattice points -/
def filled (pts : List Pt) : Pt → Bool := fun p => pts.contains p

/-- the 2 × 2 × 2 grid with only the centre lattice point inside -/
example : BoundaryUniform 2 2 2 (filled [(1, 1, 1)]) :=
  boundaryUniform_of_B (b := false) (by decide +kernel)

/-- six interior edges meet the centre: six quads, twelve triangles — an octahedron -/
example : gridTris 2 2 2 (filled [(1, 1, 1)]) (fun _ _ => false) =
    [(0, 16, 8), (8, 16, 24), (4, 12, 20), (20, 12, 28), (0, 4, 16), (16, 4, 20),
     (8, 24, 12), (12, 24, 28), (0, 8, 4), (4, 8, 12), (16, 20, 24), (24, 20, 28)] := by
  decide +kernel
example : closedB (gridTris 2 2 2 (filled [(1, 1, 1)]) (fun _ _ => false)) = true := by
  decide +kernel
example : (calls 2 2 2).length = 6 ∧ (calls 3 3 4).length = 2 * 2 * 4 + 2 * 3 * 3 + 2 * 3 * 3 := by
  decide +kernel

/-- a 3 × 3 × 2 grid with two inside points that are diagonal on a cell face (an AMBIGUOUS face:
    the cells on both sides have two patches each): hypotheses hold, the mesh is closed -/
example : BoundaryUniform 3 3 2 (filled [(1, 1, 1), (2, 2, 1)]) :=
  boundaryUniform_of_B (b := false) (by decide +kernel)
example : vertexCount (cellMask (filled [(1, 1, 1), (2, 2, 1)]) (1, 1, 0)) = 2 ∧
    vertexCount (cellMask (filled [(1, 1, 1), (2, 2, 1)]) (1, 1, 1)) = 2 := by decide +kernel
example : (gridTris 3 3 2 (filled [(1, 1, 1), (2, 2, 1)]) (fun _ _ => true)).length = 24 ∧
    closedB (gridTris 3 3 2 (filled [(1, 1, 1), (2, 2, 1)]) (fun _ _ => true)) = true := by
  decide +kernel

/-- the boundary hypothesis is needed: an inside point ON the boundary leaves the mesh open -/
example : closedB (gridTris 2 2 2 (filled [(1, 1, 1), (0, 1, 1)]) (fun _ _ => false)) = false := by
  decide +kernel

/-- the eight inside points of the non-manifold witness: cells (1,1,1) and (1,1,2) share an
    ambiguous face, and each of them has ONE patch owning all four edges of that face -/
def nmPts : List Pt :=
  [(1, 1, 1), (2, 1, 1), (2, 2, 1), (1, 1, 2), (2, 2, 2), (1, 1, 3), (2, 1, 3), (2, 2, 3)]

example : BoundaryUniform 3 3 4 (filled nmPts) :=
  boundaryUniform_of_B (b := false) (by decide +kernel)

/-- **dc_not_edge_manifold (witness).**  Closedness is all that holds in general: on this
    3 × 3 × 4 grid (boundary uniform) the mesh is closed, yet the directed dual edge between the
    single vertices of the cells (1,1,1) and (1,1,2) is used TWICE (by the quads of two opposite
    edges of their shared ambiguous face) — and so is its reverse.  Dual contouring is closed and
    consistently oriented, but not edge-manifold, at ambiguous faces. -/
theorem dc_not_edge_manifold :
    closedB (gridTris 3 3 4 (filled nmPts) (fun _ _ => false)) = true ∧
    (dirEdges (gridTris 3 3 4 (filled nmPts) (fun _ _ => false))).count
      (vid 3 3 ((1, 1, 1), 0), vid 3 3 ((1, 1, 2), 0)) = 2 ∧
    (dirEdges (gridTris 3 3 4 (filled nmPts) (fun _ _ => false))).count
      (vid 3 3 ((1, 1, 2), 0), vid 3 3 ((1, 1, 1), 0)) = 2 := by
  decide +kernel

/-- an antisymmetric weight exists -/
example : Antisym (indic ((1, 2) : Edge Vid)) := indic_antisym _
/-- compatible masks exist, e.g. the pair of the witness's ambiguous face -/
example : compat 2 155 185 = true ∧ cancelOK 2 155 185 = true ∧
    faceList 2 155 185 = [(false, 0, 0), (false, 0, 0), (true, 0, 0), (true, 0, 0)] := by
  decide +kernel

end Libfive.C03
