/-
  C09 ⨝ C02 ⨝ C05 — the height-map of a TAPE equals the brute-force scan of the tape's point values.
  Property theorems only; definitions and helper lemmas in LibfiveProofs/HeightmapInterval.lean.

  C09's `render_eq_bruteforce` holds "for every classifier and every SOUND interval oracle".  Here the
  interval oracle is no longer a hypothesis: it IS the interval evaluation (`ievalList`, C02) of the
  expression's tape over the view's box, read the way `Heightmap::recurse` reads it (`hmState`), and the
  classifier IS the point evaluation (`evalList`) of the same tape at the voxel centre, tested `< 0`
  (`insideAt`; false for NaN).  `Sound` is derived from C02's tape invariant.

  Reading guide (all in `Libfive.HmIvl`):
    `Frame K`        the adapter between C09's index-only model and C02's scalar model: voxel centre
                     coordinates `px py pz`, view boxes `lo hi`, the slots of X Y Z, the other leaf
                     slots' contents, oracle answers.
    `F.Contains v`   every voxel centre of view `v` lies in `v`'s box  (proved for `exactFrame`).
    `F.OrcSound v`   interval-oracle answers on `v`'s box enclose the point-oracle answers in `v`
                     (vacuous for tapes without ORACLE clauses).
    `SafeTape`       C02's side condition of `pow` / `nth_root` clauses (`True` for all other opcodes);
                     `NoPowRoot t` = no such clause.
    `valAt / insideAt / slotsOf / stateOf / keepOf / pushOf`   the instantiations.
    `recurseT / renderT`   C09's `recurse` / `render` with the TAPE threaded through the recursion
                     (children get the tape specialised by `intervalAndPush`).

  About the push.  C09's model (LibfiveModel/Heightmap.lean) does NOT model the tape push: it has one
  fixed classifier.  §1 proves the requested statement for the model as it is.  §2 adds the push:
  `renderT` evaluates voxels through the specialised tapes and takes the interval results of the
  specialised tapes, and is proved equal to the brute-force scan of the FULL tape (using C05's
  `interval_push_sound` / `push_wf`); hence (§3) to the un-pushed render.
-/
import LibfiveProofs.HeightmapInterval
import LibfiveTheorems.C02
import LibfiveTheorems.C05
import LibfiveTheorems.C09

set_option autoImplicit false
set_option linter.unusedSectionVars false
set_option linter.unusedVariables false

namespace Libfive.C09

open Libfive Libfive.Ivl Libfive.HmIvl
open Libfive.Heightmap (View Img Axis Mono Sound IsBrute render)

variable {K : Type} [Field K] [LinearOrder K] [IsStrictOrderedRing K] [FloorRing K]
variable {Bo : BoostOps K} {P : PointFns K}

/-! ## 1. The model as it is (no push): the interval oracle is the tape's interval evaluation -/

/-- **tape_oracle_sound.**  The oracle-soundness hypothesis of `render_eq_bruteforce`, derived: the
    interval evaluation of the tape over a view's box, read by `recurse`, is `Sound` for the point
    evaluation of the same tape at the voxel centres. -/
theorem tape_oracle_sound (hS : BoostSound Bo P) (hA2 : Atan2Sound Bo P) (hM : ModSound Bo P)
    (pev : Op → FVal K → FVal K → FVal K) (hpev : ∀ op a b, PointRel P op a b (pev op a b))
    (F : Frame K) (T : TapeM)
    (hbox : ∀ v, F.Contains v) (horc : ∀ v, F.OrcSound v)
    (hsafe : ∀ v, SafeTape Bo P (F.iorc v) T.t (F.ibox v)) :
    Sound (insideAt pev F T) (stateOf Bo F T) :=
  fun v => stateOf_sound_at hS hA2 hM pev hpev F T v (hbox v) (horc v) (hsafe v)

/-- **tape_istate_sound.**  The same for the reading `Interval::state()` (C02's `istate`), literally
    from C02's `tape_enclosure_partial` and `state_sound`: FILLED ⇒ every voxel centre of the view is
    inside, EMPTY ⇒ none is. -/
theorem tape_istate_sound (hS : BoostSound Bo P) (hA2 : Atan2Sound Bo P) (hM : ModSound Bo P)
    (pev : Op → FVal K → FVal K → FVal K) (hpev : ∀ op a b, PointRel P op a b (pev op a b))
    (F : Frame K) (T : TapeM) (v : View) (hbox : F.Contains v) (horc : F.OrcSound v)
    (hsafe : SafeTape Bo P (F.iorc v) T.t (F.ibox v)) (i j k : Nat) (hm : v.mem i j k) :
    (istate (slotsOf Bo F T v T.root) = Ivl.IState.filled → insideAt pev F T i j k = true) ∧
    (istate (slotsOf Bo F T v T.root) = Ivl.IState.empty → insideAt pev F T i j k = false) := by
  have h : encl (ievalList Bo (F.iorc v) T.t (F.ibox v) T.root)
      (evalList pev (F.porc i j k) T.t (F.env i j k) T.root) :=
    C02.tape_enclosure_partial hS hA2 hM pev hpev (F.iorc v) (F.porc i j k) (horc i j k hm) T
      (F.ibox v) (F.env i j k) (leaves_enclS F v hbox i j k hm) hsafe
  obtain ⟨s1, s2⟩ := C02.state_sound h
  exact ⟨fun hs => (s1 hs).2, fun hs => flt_asymm (s2 hs).2⟩

/-- **heightmap_of_tape_eq_bruteforce.**  For every tape, every frame (grid geometry, slots, oracles),
    every view, depth image and worker count: C09's `render`, run with the tape's point evaluation as
    classifier and the tape's interval evaluation as interval oracle, leaves every pixel outside the
    view's block untouched and puts in every pixel of the block the brute-force value of its column
    under the tape's point evaluation.  (No well-formedness of the tape is needed without the push.) -/
theorem heightmap_of_tape_eq_bruteforce (hS : BoostSound Bo P) (hA2 : Atan2Sound Bo P) (hM : ModSound Bo P)
    (pev : Op → FVal K → FVal K → FVal K) (hpev : ∀ op a b, PointRel P op a b (pev op a b))
    (F : Frame K) (T : TapeM)
    (hbox : ∀ v, F.Contains v) (horc : ∀ v, F.OrcSound v)
    (hsafe : ∀ v, SafeTape Bo P (F.iorc v) T.t (F.ibox v))
    (N : Nat) (hN : 1 ≤ N) (zr : Nat → Int) (hz : Mono zr)
    (workers : Nat) (v : View) (m : Img) (hin : ∀ i j, v.memXY i j → m.inb i j) (i j : Nat) :
    (¬ v.memXY i j →
      (render N (insideAt pev F T) zr (stateOf Bo F T) workers v m).get i j = m.get i j) ∧
    (v.memXY i j → IsBrute (insideAt pev F T) zr i j v.cz v.sz (m.get i j)
      ((render N (insideAt pev F T) zr (stateOf Bo F T) workers v m).get i j)) :=
  render_eq_bruteforce N (insideAt pev F T) zr (stateOf Bo F T) hN hz
    (tape_oracle_sound hS hA2 hM pev hpev F T hbox horc hsafe) workers v m hin i j

/-- **heightmap_of_tape_fresh.**  The property as stated, for a tape: from a fresh image (filled with a
    value below every height) each pixel ends as the height of the topmost voxel of its column whose
    tape value is non-NaN and negative, or stays at `ninf` if the column has none. -/
theorem heightmap_of_tape_fresh (hS : BoostSound Bo P) (hA2 : Atan2Sound Bo P) (hM : ModSound Bo P)
    (pev : Op → FVal K → FVal K → FVal K) (hpev : ∀ op a b, PointRel P op a b (pev op a b))
    (F : Frame K) (T : TapeM)
    (hbox : ∀ v, F.Contains v) (horc : ∀ v, F.OrcSound v)
    (hsafe : ∀ v, SafeTape Bo P (F.iorc v) T.t (F.ibox v))
    (N : Nat) (hN : 1 ≤ N) (zr : Nat → Int) (hz : Mono zr)
    (workers sx sy sz : Nat) (ninf : Int) (hninf : ∀ k, ninf ≤ zr k)
    (i j : Nat) (hi : i < sx) (hj : j < sy) :
    ((∀ k, k < sz → ¬ (valAt pev F T i j k ≠ FVal.nan ∧ FVal.lt (valAt pev F T i j k) zeroV = true)) →
      (render N (insideAt pev F T) zr (stateOf Bo F T) workers ⟨0, 0, 0, sx, sy, sz⟩
        (Img.const sx sy ninf)).get i j = ninf) ∧
    (∀ k, k < sz → (valAt pev F T i j k ≠ FVal.nan ∧ FVal.lt (valAt pev F T i j k) zeroV = true) →
      (∀ k', k < k' → k' < sz →
        ¬ (valAt pev F T i j k' ≠ FVal.nan ∧ FVal.lt (valAt pev F T i j k') zeroV = true)) →
      (render N (insideAt pev F T) zr (stateOf Bo F T) workers ⟨0, 0, 0, sx, sy, sz⟩
        (Img.const sx sy ninf)).get i j = zr k) := by
  obtain ⟨r1, r2⟩ := render_fresh N (insideAt pev F T) zr (stateOf Bo F T) hN hz
    (tape_oracle_sound hS hA2 hM pev hpev F T hbox horc hsafe) workers sx sy sz ninf hninf i j hi hj
  have hno : ∀ k, ¬ (valAt pev F T i j k ≠ FVal.nan ∧ FVal.lt (valAt pev F T i j k) zeroV = true) →
      insideAt pev F T i j k = false := by
    intro k h
    cases hc : insideAt pev F T i j k with
    | false => rfl
    | true => exact absurd ((insideAt_iff pev F T i j k).1 hc) h
  constructor
  · intro h; exact r1 (fun k hk => hno k (h k hk))
  · intro k hk hin hall
    exact r2 k hk ((insideAt_iff pev F T i j k).2 hin) (fun k' a b => hno k' (hall k' a b))

/-! ## 2. With the push: voxels are evaluated through the specialised tapes -/

/-- **pushed_tape_agrees** (C05 ⨝ C02 at a view).  The tape `intervalAndPush` hands to the children of a
    view evaluates, at every voxel centre of the view, to the value of the tape it was pushed from. -/
theorem pushed_tape_agrees (hS : BoostSound Bo P) (hA2 : Atan2Sound Bo P) (hM : ModSound Bo P)
    (pev : Op → FVal K → FVal K → FVal K) (hpev : ∀ op a b, PointRel P op a b (pev op a b))
    (F : Frame K) (T : TapeM) (hwf : WF T.t) (v : View) (hbox : F.Contains v) (horc : F.OrcSound v)
    (hsafe : SafeTape Bo P (F.iorc v) T.t (F.ibox v)) (i j k : Nat) (hm : v.mem i j k) :
    valAt pev F (pushOf Bo F T v) i j k = valAt pev F T i j k :=
  C05.interval_push_sound hS hA2 hM pev hpev (F.iorc v) (F.porc i j k) (horc i j k hm) T hwf
    (F.ibox v) hsafe (F.env i j k) (leaves_enclS F v hbox i j k hm)

/-- **pushed_tape_wf.**  … and is again well-formed (so the children can push again), provided the view
    has a voxel. -/
theorem pushed_tape_wf (hS : BoostSound Bo P) (hA2 : Atan2Sound Bo P) (hM : ModSound Bo P)
    (pev : Op → FVal K → FVal K → FVal K) (hpev : ∀ op a b, PointRel P op a b (pev op a b))
    (F : Frame K) (T : TapeM) (hwf : WF T.t) (v : View) (hbox : F.Contains v) (horc : F.OrcSound v)
    (hsafe : SafeTape Bo P (F.iorc v) T.t (F.ibox v)) (i j k : Nat) (hm : v.mem i j k) :
    WF (pushOf Bo F T v).t := by
  have hmin : ∀ a b, pev Op.min a b = pmin a b := by
    intro a b
    rcases hpev Op.min a b with h | ⟨h, _⟩ | ⟨h, _⟩ | ⟨h, _⟩
    · simpa [pointOp] using h
    all_goals cases h
  have hmax : ∀ a b, pev Op.max a b = pmax a b := by
    intro a b
    rcases hpev Op.max a b with h | ⟨h, _⟩ | ⟨h, _⟩ | ⟨h, _⟩
    · simpa [pointOp] using h
    all_goals cases h
  exact C05.push_wf pev (F.porc i j k) T (keepOf Bo F T v) (F.env i j k) hwf
    (C05.intervalKeep_sound pev hmin hmax (F.porc i j k) T.t (F.env i j k) hwf (slotsOf Bo F T v)
      (slots_enclS hS hA2 hM pev hpev F T v hbox horc hsafe i j k hm))

/-- **heightmap_pushed_tape_eq_bruteforce** (end to end, with the push).  For every well-formed tape
    without `pow` / `nth_root` clauses, every frame whose sub-views of the root view contain their voxel
    centres and have sound oracle answers, every depth image and worker count: the render that hands the
    SPECIALISED tape down the recursion (interval results and voxel values both taken from the
    specialised tapes) leaves pixels outside the root's block untouched and puts in every pixel of the
    block the brute-force value of its column under the point evaluation of the FULL tape. -/
theorem heightmap_pushed_tape_eq_bruteforce
    (hS : BoostSound Bo P) (hA2 : Atan2Sound Bo P) (hM : ModSound Bo P)
    (pev : Op → FVal K → FVal K → FVal K) (hpev : ∀ op a b, PointRel P op a b (pev op a b))
    (F : Frame K) (T0 : TapeM) (hwf : WF T0.t) (hops : NoPowRoot T0.t) (root : View)
    (hbox : ∀ v, Sub v root → F.Contains v) (horc : ∀ v, Sub v root → F.OrcSound v)
    (N : Nat) (hN : 1 ≤ N) (zr : Nat → Int) (hz : Mono zr)
    (workers : Nat) (m : Img) (hin : ∀ i j, root.memXY i j → m.inb i j) (i j : Nat) :
    (¬ root.memXY i j → (renderT Bo pev F N zr T0 workers root m).get i j = m.get i j) ∧
    (root.memXY i j → IsBrute (insideAt pev F T0) zr i j root.cz root.sz (m.get i j)
      ((renderT Bo pev F N zr T0 workers root m).get i j)) := by
  -- the invariant: the tape in hand is well-formed, pow/root-free, and agrees with the full tape on
  -- every voxel centre of the view in hand (a sub-view of the root)
  let Inv : TapeM → View → Prop := fun T v =>
    Sub v root ∧ WF T.t ∧ NoPowRoot T.t ∧
      ∀ i j k, v.mem i j k → valAt pev F T i j k = valAt pev F T0 i j k
  have hsafe : ∀ (T : TapeM) (v : View), NoPowRoot T.t → SafeTape Bo P (F.iorc v) T.t (F.ibox v) :=
    fun T v h => safeTape_of_noPowRoot (F.iorc v) (F.ibox v) T.t h
  have hcls : ∀ T v, Inv T v → ∀ i j k, v.mem i j k → insideAt pev F T i j k = insideAt pev F T0 i j k := by
    intro T v hI i j k hm
    unfold insideAt
    rw [hI.2.2.2 i j k hm]
  have hsnd : ∀ T v, Inv T v →
      (stateOf Bo F T v = Heightmap.IState.filled → ∀ i j k, v.mem i j k → insideAt pev F T0 i j k = true) ∧
      (stateOf Bo F T v = Heightmap.IState.empty → ∀ i j k, v.mem i j k → insideAt pev F T0 i j k = false) := by
    intro T v hI
    obtain ⟨a, b⟩ := stateOf_sound_at hS hA2 hM pev hpev F T v (hbox v hI.1) (horc v hI.1)
      (hsafe T v hI.2.2.1)
    exact ⟨fun hs i j k hm => (hcls T v hI i j k hm) ▸ a hs i j k hm,
           fun hs i j k hm => (hcls T v hI i j k hm) ▸ b hs i j k hm⟩
  have hnext : ∀ T v, Inv T v → N < v.voxels → stateOf Bo F T v = Heightmap.IState.ambiguous →
      Inv (pushOf Bo F T v) (v.split true true true).1 ∧ Inv (pushOf Bo F T v) (v.split true true true).2 := by
    intro T v hI hvox _
    obtain ⟨hsub, hw, hnp, hag⟩ := hI
    have hpos := Heightmap.voxels_pos v (by omega)
    have hw' : WF (pushOf Bo F T v).t :=
      pushed_tape_wf hS hA2 hM pev hpev F T hw v (hbox v hsub) (horc v hsub) (hsafe T v hnp)
        v.cx v.cy v.cz (mem_corner v hpos)
    have hnp' : NoPowRoot (pushOf Bo F T v).t := push_noPowRoot T _ hnp
    have hag' : ∀ i j k, v.mem i j k → valAt pev F (pushOf Bo F T v) i j k = valAt pev F T0 i j k := by
      intro i j k hm
      rw [pushed_tape_agrees hS hA2 hM pev hpev F T hw v (hbox v hsub) (horc v hsub) (hsafe T v hnp)
        i j k hm]
      exact hag i j k hm
    obtain ⟨s1, s2⟩ := split_sub true true true v
    exact ⟨⟨s1.trans hsub, hw', hnp', fun i j k hm =>
              hag' i j k (((Heightmap.split_mem true true true v i j k).1).2 (Or.inl hm))⟩,
           ⟨s2.trans hsub, hw', hnp', fun i j k hm =>
              hag' i j k (((Heightmap.split_mem true true true v i j k).1).2 (Or.inr hm))⟩⟩
  obtain ⟨_, h⟩ := renderG_spec N (insideAt pev F T0) zr (insideAt pev F) (stateOf Bo F) (pushOf Bo F)
    Inv hN hz hcls (fun T v hI => (hsnd T v hI).1) (fun T v hI => (hsnd T v hI).2) hnext
    T0 workers root (fun r hr => ⟨hr, hwf, hops, fun _ _ _ _ => rfl⟩) m hin
  constructor
  · intro hm
    show (renderG N (insideAt pev F) zr (stateOf Bo F) (pushOf Bo F) T0 workers root m).get i j = _
    rw [h, if_neg hm]
  · intro hm
    show IsBrute _ _ _ _ _ _ _
      ((renderG N (insideAt pev F) zr (stateOf Bo F) (pushOf Bo F) T0 workers root m).get i j)
    rw [h, if_pos hm]
    exact Heightmap.colSpec_isBrute _ zr i j root.cz root.sz _

/-! ## 3. Consequences -/

/-- **heightmap_of_tape_eq_bruteforce_on.**  §1's theorem with the hypotheses restricted to the
    sub-views of the rendered view (the only views `render` ever evaluates an interval on). -/
theorem heightmap_of_tape_eq_bruteforce_on
    (hS : BoostSound Bo P) (hA2 : Atan2Sound Bo P) (hM : ModSound Bo P)
    (pev : Op → FVal K → FVal K → FVal K) (hpev : ∀ op a b, PointRel P op a b (pev op a b))
    (F : Frame K) (T : TapeM) (root : View)
    (hbox : ∀ v, Sub v root → F.Contains v) (horc : ∀ v, Sub v root → F.OrcSound v)
    (hsafe : ∀ v, Sub v root → SafeTape Bo P (F.iorc v) T.t (F.ibox v))
    (N : Nat) (hN : 1 ≤ N) (zr : Nat → Int) (hz : Mono zr)
    (workers : Nat) (m : Img) (hin : ∀ i j, root.memXY i j → m.inb i j) (i j : Nat) :
    (¬ root.memXY i j →
      (render N (insideAt pev F T) zr (stateOf Bo F T) workers root m).get i j = m.get i j) ∧
    (root.memXY i j → IsBrute (insideAt pev F T) zr i j root.cz root.sz (m.get i j)
      ((render N (insideAt pev F T) zr (stateOf Bo F T) workers root m).get i j)) := by
  obtain ⟨_, h⟩ := renderG_spec (σ := Unit) N (insideAt pev F T) zr (fun _ => insideAt pev F T)
    (fun _ => stateOf Bo F T) (fun s _ => s) (fun _ v => Sub v root) hN hz
    (fun _ _ _ _ _ _ _ => rfl)
    (fun _ v hs => (stateOf_sound_at hS hA2 hM pev hpev F T v (hbox v hs) (horc v hs) (hsafe v hs)).1)
    (fun _ v hs => (stateOf_sound_at hS hA2 hM pev hpev F T v (hbox v hs) (horc v hs) (hsafe v hs)).2)
    (fun _ v hs _ _ => ⟨(split_sub true true true v).1.trans hs, (split_sub true true true v).2.trans hs⟩)
    () workers root (fun r hr => hr) m hin
  rw [renderG_const] at h
  constructor
  · intro hm; rw [h, if_neg hm]
  · intro hm; rw [h, if_pos hm]; exact Heightmap.colSpec_isBrute _ zr i j root.cz root.sz _

/-- **push_unobservable.**  Handing the specialised tapes down the recursion does not change a single
    pixel: the render with the push equals C09's render (one fixed tape). -/
theorem push_unobservable (hS : BoostSound Bo P) (hA2 : Atan2Sound Bo P) (hM : ModSound Bo P)
    (pev : Op → FVal K → FVal K → FVal K) (hpev : ∀ op a b, PointRel P op a b (pev op a b))
    (F : Frame K) (T0 : TapeM) (hwf : WF T0.t) (hops : NoPowRoot T0.t) (root : View)
    (hbox : ∀ v, Sub v root → F.Contains v) (horc : ∀ v, Sub v root → F.OrcSound v)
    (N : Nat) (hN : 1 ≤ N) (zr : Nat → Int) (hz : Mono zr)
    (workers workers' : Nat) (m : Img) (hin : ∀ i j, root.memXY i j → m.inb i j) (i j : Nat) :
    (renderT Bo pev F N zr T0 workers root m).get i j =
      (render N (insideAt pev F T0) zr (stateOf Bo F T0) workers' root m).get i j := by
  have a := heightmap_pushed_tape_eq_bruteforce hS hA2 hM pev hpev F T0 hwf hops root hbox horc N hN zr hz
    workers m hin i j
  have b := heightmap_of_tape_eq_bruteforce_on hS hA2 hM pev hpev F T0 root hbox horc
    (fun v _ => safeTape_of_noPowRoot (F.iorc v) (F.ibox v) T0.t hops) N hN zr hz workers' m hin i j
  by_cases hm : root.memXY i j
  · obtain ⟨a1, a2⟩ := a.2 hm
    obtain ⟨b1, b2⟩ := b.2 hm
    by_cases hnone : ∀ k, root.cz ≤ k → k < root.cz + root.sz → insideAt pev F T0 i j k = false
    · rw [a1 hnone, b1 hnone]
    · -- a topmost inside voxel exists
      have hex : ∃ k, Heightmap.scanCol (insideAt pev F T0) i j root.cz root.sz = some k := by
        cases hs : Heightmap.scanCol (insideAt pev F T0) i j root.cz root.sz with
        | none => exact absurd ((Heightmap.scanCol_none _ i j root.cz root.sz).1 hs) hnone
        | some k => exact ⟨k, rfl⟩
      obtain ⟨k, hk⟩ := hex
      obtain ⟨k1, k2, k3, k4⟩ := (Heightmap.scanCol_some _ i j root.cz root.sz k).1 hk
      rw [a2 k k1 k2 k3 k4, b2 k k1 k2 k3 k4]
  · rw [a.1 hm, b.1 hm]

/-! ## the hypotheses are jointly satisfiable: `max(compare(z, 0), −5)` on a 2×2×4 grid over ℚ -/

section examples

/-- slots: x=4 y=5 z=6, constants 0 (slot 7) and −5 (slot 8); clause 2 = `compare(z, 0)` (−1 below the
    plane z = 0, +1 above), clause 1 = `max(clause 2, −5)` -/
def exTape : TapeM := { t := [⟨Op.max, 1, 2, 8⟩, ⟨Op.compare, 2, 6, 7⟩], root := 1 }

/-- the exact grid: origin (−1,−1,−2), unit voxels; voxel centres z = −1.5, −0.5, 0.5, 1.5 -/
def exFrame : Frame ℚ :=
  exactFrame (-1) (-1) (-2) 1 1 1 4 5 6 (fun s => if s = 8 then FVal.fin (-5) else FVal.fin 0)
    (fun _ _ => ileaf (FVal.fin 0) (FVal.fin 0)) (fun _ _ _ _ => FVal.fin 0)

/-- heights of the voxel layers as depth keys -/
def exZr : Nat → Int := fun k => (k : Int) * 10

theorem exTape_wf : WF exTape.t := wfb_sound _ (by decide)
theorem exTape_ops : NoPowRoot exTape.t := by
  intro c hc
  simp [exTape] at hc
  rcases hc with rfl | rfl <;> exact ⟨by decide, by decide⟩
theorem exFrame_contains (v : View) : exFrame.Contains v :=
  exactFrame_contains _ _ _ _ _ _ (by norm_num) (by norm_num) (by norm_num) _ _ _ _ _ _ v
theorem exFrame_orc (v : View) : exFrame.OrcSound v := fun _ _ _ _ _ => const_enclS _
theorem exZr_mono : Mono exZr := by intro a b h; unfold exZr; omega
theorem exPev : ∀ op a b, PointRel C02.exFns op a b (pointOp C02.exFns op a b) := fun _ _ _ => Or.inl rfl

/-- all hypotheses of §1 at once (Boost model `C02.wholeOps`, point functions `C02.exFns`) -/
example (workers : Nat) (i j : Nat) :
    (¬ (⟨0, 0, 0, 2, 2, 4⟩ : View).memXY i j →
      (render 1 (insideAt (pointOp C02.exFns) exFrame exTape) exZr (stateOf C02.wholeOps exFrame exTape)
        workers ⟨0, 0, 0, 2, 2, 4⟩ (Img.const 2 2 (-1000))).get i j = (Img.const 2 2 (-1000)).get i j) ∧
    ((⟨0, 0, 0, 2, 2, 4⟩ : View).memXY i j →
      IsBrute (insideAt (pointOp C02.exFns) exFrame exTape) exZr i j 0 4 ((Img.const 2 2 (-1000)).get i j)
        ((render 1 (insideAt (pointOp C02.exFns) exFrame exTape) exZr (stateOf C02.wholeOps exFrame exTape)
          workers ⟨0, 0, 0, 2, 2, 4⟩ (Img.const 2 2 (-1000))).get i j)) :=
  heightmap_of_tape_eq_bruteforce C02.wholeOps_sound C02.wholeOps_atan2 C02.wholeOps_mod
    (pointOp C02.exFns) exPev exFrame exTape exFrame_contains exFrame_orc
    (fun v => safeTape_of_noPowRoot _ _ _ exTape_ops) 1 (Nat.le_refl _) exZr exZr_mono workers
    ⟨0, 0, 0, 2, 2, 4⟩ (Img.const 2 2 (-1000))
    (by
      intro i j h
      unfold View.memXY at h; dsimp only at h
      exact ⟨Array.replicate 2 (-1000), by simp [Img.const, Array.getElem?_replicate]; omega,
        by simp; omega⟩) i j

/-- all hypotheses of §2 at once -/
example (workers : Nat) (m : Img) (hin : ∀ i j, (⟨0, 0, 0, 2, 2, 4⟩ : View).memXY i j → m.inb i j)
    (i j : Nat) (hm : (⟨0, 0, 0, 2, 2, 4⟩ : View).memXY i j) :
    IsBrute (insideAt (pointOp C02.exFns) exFrame exTape) exZr i j 0 4 (m.get i j)
      ((renderT C02.wholeOps (pointOp C02.exFns) exFrame 1 exZr exTape workers ⟨0, 0, 0, 2, 2, 4⟩ m).get i j) :=
  (heightmap_pushed_tape_eq_bruteforce C02.wholeOps_sound C02.wholeOps_atan2 C02.wholeOps_mod
    (pointOp C02.exFns) exPev exFrame exTape exTape_wf exTape_ops ⟨0, 0, 0, 2, 2, 4⟩
    (fun v _ => exFrame_contains v) (fun v _ => exFrame_orc v) 1 (Nat.le_refl _) exZr exZr_mono
    workers m hin i j).2 hm

/-! the example is not degenerate: on the FULL tape Boost's `max` (here the coarsest model, whole line)
    makes every interval result ambiguous; the root view's push drops the `max` clause (`−5 < −1`:
    KEEP_A), and the specialised tape decides the bottom layer FILLED and the top layer EMPTY -/
example : insideAt (pointOp C02.exFns) exFrame exTape 0 0 1 = true ∧
    insideAt (pointOp C02.exFns) exFrame exTape 0 0 2 = false := by decide +kernel
example : stateOf C02.wholeOps exFrame exTape ⟨0, 0, 0, 2, 2, 4⟩ = Heightmap.IState.ambiguous := by
  decide +kernel
example : stateOf C02.wholeOps exFrame exTape ⟨0, 0, 0, 2, 2, 1⟩ = Heightmap.IState.ambiguous := by
  decide +kernel
example : (pushOf C02.wholeOps exFrame exTape ⟨0, 0, 0, 2, 2, 4⟩).t = [⟨Op.compare, 2, 6, 7⟩] := by
  decide +kernel
example : (pushOf C02.wholeOps exFrame exTape ⟨0, 0, 0, 2, 2, 4⟩).root = 2 := by decide +kernel
example : stateOf C02.wholeOps exFrame (pushOf C02.wholeOps exFrame exTape ⟨0, 0, 0, 2, 2, 4⟩)
    ⟨0, 0, 0, 2, 2, 1⟩ = Heightmap.IState.filled := by decide +kernel
example : stateOf C02.wholeOps exFrame (pushOf C02.wholeOps exFrame exTape ⟨0, 0, 0, 2, 2, 4⟩)
    ⟨0, 0, 3, 2, 2, 1⟩ = Heightmap.IState.empty := by decide +kernel
-- both renders put pixel (1,1) at layer 1 (z = −0.5, the topmost voxel centre below the plane)
example : (renderT C02.wholeOps (pointOp C02.exFns) exFrame 1 exZr exTape 3 ⟨0, 0, 0, 2, 2, 4⟩
    (Img.const 2 2 (-1000))).get 1 1 = 10 := by decide +kernel
example : (render 1 (insideAt (pointOp C02.exFns) exFrame exTape) exZr (stateOf C02.wholeOps exFrame exTape)
    3 ⟨0, 0, 0, 2, 2, 4⟩ (Img.const 2 2 (-1000))).get 1 1 = 10 := by decide +kernel

end examples

end Libfive.C09
