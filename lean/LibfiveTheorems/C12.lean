/-
  C12 — library calls leave the caller's floating-point environment intact.
  The theorem is thin by nature (bracket discipline); the content is that the table it is
  applied to is regenerated from Boost's and libfive's headers on every run.
-/
import LibfiveModel.FEnv
import Generated.FEnvTable

namespace Libfive.C12
open Libfive.FEnv

/-- a guarded segment restores the environment, whatever its body does -/
theorem guarded_preserves (body : RMode → RMode) (e : Env) : (Seg.guarded body).run e = e := by
  cases e; rfl

/-- **balanced_history.** Any sequence of segments all of which are guarded returns the
    environment it started with. -/
theorem balanced_history (segs : List Seg) (h : ∀ s ∈ segs, s.isGuarded = true) (e : Env) :
    runSegs segs e = e := by
  induction segs generalizing e with
  | nil => rfl
  | cons s rest ih =>
    have hs := h s (by simp)
    have : s.run e = e := by
      cases s with
      | guarded b => exact guarded_preserves b e
      | raw b => simp [Seg.isGuarded] at hs
    simp only [runSegs, List.foldl_cons, this]
    exact ih (fun s' hs' => h s' (by simp [hs'])) e

/-- the bracket is necessary: a raw segment leaks -/
theorem raw_leaks : (Seg.raw (fun _ => RMode.up)).run ⟨RMode.nearest, 0⟩ ≠ ⟨RMode.nearest, 0⟩ := by
  decide

/-- if the table says an operation is guarded, all its segments are guarded -/
theorem opSegs_guarded (boost : List BoostEntry) (op : LibOp) (h : opGuarded boost op = true) :
    ∀ s ∈ opSegs boost op, s.isGuarded = true := by
  intro s hs
  simp only [opSegs, List.mem_map] at hs
  obtain ⟨call, hc, rfl⟩ := hs
  simp only [opGuarded, Bool.or_eq_true, List.all_eq_true] at h
  rcases h with h | h
  · simp [h, Seg.isGuarded]
  · simp [h call hc, Seg.isGuarded]

/-- **history_preserves.** For any table in which every operation is guarded, every finite
    history of interval operations drawn from the table preserves the environment. -/
theorem history_preserves (boost : List BoostEntry) (ops : List LibOp) (hall : allGuarded boost ops = true)
    (hist : List LibOp) (hin : ∀ o ∈ hist, o ∈ ops) (e : Env) :
    runSegs (hist.flatMap (opSegs boost)) e = e := by
  apply balanced_history
  intro s hs
  simp only [List.mem_flatMap] at hs
  obtain ⟨o, ho, hso⟩ := hs
  have : opGuarded boost o = true := by
    simp only [allGuarded, List.all_eq_true] at hall
    exact hall o (hin o ho)
  exact opSegs_guarded boost o this s hso

/-- **all_rounding_calls_guarded (T).** In the table regenerated from the current sources, every
    rounding-changing Boost entry point reachable from a libfive interval operation is guarded by
    Boost or by libfive. -/
theorem all_rounding_calls_guarded :
    allGuarded Generated.FEnv.boostEntries Generated.FEnv.libfiveOps = true := by decide

/-- hence: every history of libfive interval operations of the *current tree* preserves the
    caller's environment (in the model) -/
theorem current_tree_preserves (hist : List LibOp) (hin : ∀ o ∈ hist, o ∈ Generated.FEnv.libfiveOps)
    (e : Env) : runSegs (hist.flatMap (opSegs Generated.FEnv.boostEntries)) e = e :=
  history_preserves _ _ all_rounding_calls_guarded hist hin e

-- the table is not empty / the hypotheses are satisfiable
example : Generated.FEnv.libfiveOps.length ≥ 20 := by decide
example : (Generated.FEnv.boostEntries.filter (·.2.1)).length ≥ 10 := by decide

end Libfive.C12
