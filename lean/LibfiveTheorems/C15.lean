/-
  C15 — Evaluator answers do not depend on what was asked before.
  Property theorems only; helper lemmas live in LibfiveProofs/EvalState.lean.
  Model: LibfiveModel/EvalState.lean (scratch state of the evaluators, every query as
  `State → State × Answer`).
-/
import LibfiveProofs.EvalState

namespace Libfive.C15
open Libfive Libfive.EvalStateProofs

variable {α β : Type}

/-- What two evaluator states must share: the rows of constants / variables / the dummy slot
    (all columns), the derivative rows of every non-clause slot (the X/Y/Z seeds and the zero rows of
    constants and variables), the leaf feature lists, the interval copies of constants / variables,
    and the `clear_vars` flag.  EVERYTHING ELSE — clause rows, X/Y/Z rows, derivative rows of clauses,
    `count_simd`, `count_actual`, `filled`, clause feature lists, interval slots of clauses, `j` — is
    arbitrary. -/
structure Core (C : ECfg α β) (base : List Clause) (s₁ s₂ : EState α β) : Prop where
  v : ∀ k, k ∉ ids base → k ≠ C.X → k ≠ C.Y → k ≠ C.Z → ∀ col, s₁.v k col = s₂.v k col
  d : ∀ k, k ∉ ids base → ∀ row col, s₁.d k row col = s₂.d k row col
  f : ∀ k, k ∉ ids base → s₁.f k = s₂.f k
  i : ∀ k, k ∉ ids base → k ≠ C.X → k ≠ C.Y → k ≠ C.Z → s₁.ivl k = s₂.ivl k
  c : s₁.clearVars = s₂.clearVars

/-- a tape of this deck (the base tape or any specialisation of it) -/
structure TapeOK (C : ECfg α β) (base : List Clause) (T : TapeM) : Prop where
  wf : WF T.t
  noOracle : ∀ c ∈ T.t, c.op ≠ Op.oracle
  sub : ∀ k, k ∈ ids T.t → k ∈ ids base
  closed : ∀ c ∈ T.t, (c.a ∈ ids T.t ∨ c.a ∉ ids base) ∧ (c.b ∈ ids T.t ∨ c.b ∉ ids base)
  root : T.root ∈ ids T.t ∨ T.root ∉ ids base
  x : C.X ∉ ids base
  y : C.Y ∉ ids base
  z : C.Z ∉ ids base

/-- slots of the deck that the tape `T` neither produces nor may read -/
def Banned (base : List Clause) (T : TapeM) (k : Nat) : Prop := k ∈ ids base ∧ k ∉ ids T.t

theorem not_banned_operands {C : ECfg α β} {base : List Clause} {T : TapeM} (h : TapeOK C base T) :
    ∀ c ∈ T.t, ¬ Banned base T c.a ∧ ¬ Banned base T c.b := by
  intro c hc
  obtain ⟨h1, h2⟩ := h.closed c hc
  exact ⟨fun ⟨p, q⟩ => h1.elim q (fun r => r p), fun ⟨p, q⟩ => h2.elim q (fun r => r p)⟩

theorem not_banned_root {C : ECfg α β} {base : List Clause} {T : TapeM} (h : TapeOK C base T) :
    ¬ Banned base T T.root := fun ⟨p, q⟩ => h.root.elim q (fun r => r p)

/-- frame lemma for value walks: environments that agree on the deck's leaves give equal values
    on every slot the tape may legitimately read or produce -/
theorem eval_frame {γ : Type} (ev : Op → γ → γ → γ) (orc : Nat → γ) (C : ECfg α β) (base : List Clause)
    (T : TapeM) (h : TapeOK C base T) (e₁ e₂ : Nat → γ) (he : ∀ k, k ∉ ids base → e₁ k = e₂ k) :
    ∀ k, ¬ Banned base T k → evalList ev orc T.t e₁ k = evalList ev orc T.t e₂ k := by
  refine evalList_congr ev orc T.t (Banned base T) h.wf (fun c hc _ => not_banned_operands h c hc) e₁ e₂ ?_
  intro k hk hB
  apply he
  intro hb
  exact hB ⟨hb, hk⟩

theorem setPts_leaf (C : ECfg α β) (base : List Clause) (s₁ s₂ : EState α β) (hc : Core C base s₁ s₂)
    (pts : List (Pt α)) (col k : Nat) (hk : k ∉ ids base)
    (hcol : col < pts.length ∨ (k ≠ C.X ∧ k ≠ C.Y ∧ k ≠ C.Z)) :
    setPts C s₁ pts k col = setPts C s₂ pts k col := by
  unfold setPts
  by_cases hx : k = C.X
  · rcases hcol with h | h
    · simp [List.getElem?_eq_getElem h, hx]
    · exact absurd hx h.1
  · by_cases hy : k = C.Y
    · rcases hcol with h | h
      · simp [List.getElem?_eq_getElem h, hx, hy]
      · exact absurd hy h.2.1
    · by_cases hz : k = C.Z
      · rcases hcol with h | h
        · simp [List.getElem?_eq_getElem h, hx, hy, hz]
        · exact absurd hz h.2.2
      · have := hc.v k hk hx hy hz col
        cases pts[col]? <;> simp [hx, hy, hz, this]

/-- **values frame.** `value` / `values(n)` on any tape of the deck: equal answers from states
    that agree on the core, and the core is preserved. -/
theorem values_frame (C : ECfg α β) (base : List Clause) (T : TapeM) (hT : TapeOK C base T)
    (pts : List (Pt α)) (s₁ s₂ : EState α β) (hc : Core C base s₁ s₂) :
    (qValues C T pts s₁).2 = (qValues C T pts s₂).2 ∧
    Core C base (qValues C T pts s₁).1 (qValues C T pts s₂).1 := by
  have hval : ∀ col, col < pts.length → ∀ k, ¬ Banned base T k →
      evalList C.ev C.orc T.t (fun k' => setPts C s₁ pts k' col) k =
      evalList C.ev C.orc T.t (fun k' => setPts C s₂ pts k' col) k := fun col hcol =>
    eval_frame C.ev C.orc C base T hT _ _ (fun k hk => setPts_leaf C base s₁ s₂ hc pts col k hk (Or.inl hcol))
  constructor
  · simp only [qValues]
    apply List.map_congr_left
    intro col hcol
    have hlt : col < pts.length := by simpa using hcol
    have hcs : col < simdRound C.simd pts.length := Nat.lt_of_lt_of_le hlt (le_simdRound _ _)
    simp only [valuePass, hcs, if_true]
    exact hval col hlt _ (not_banned_root hT)
  · refine ⟨?_, hc.d, hc.f, hc.i, hc.c⟩
    intro k hk hx hy hz col
    have hkT : k ∉ ids T.t := fun h => hk (hT.sub k h)
    simp only [qValues, valuePass]
    have := setPts_leaf C base s₁ s₂ hc pts col k hk (Or.inr ⟨hx, hy, hz⟩)
    split
    · rw [evalList_notin _ _ _ _ _ hkT, evalList_notin _ _ _ _ _ hkT]; exact this
    · exact this

/-- **derivs frame.** `deriv` / `derivs(n)`: the seeds are read from leaf rows only (core), the
    value rows were written by this call's own value pass. -/
theorem derivs_frame (C : ECfg α β) (base : List Clause) (T : TapeM) (hT : TapeOK C base T)
    (pts : List (Pt α)) (s₁ s₂ : EState α β) (hc : Core C base s₁ s₂) :
    (qDerivs C T pts s₁).2 = (qDerivs C T pts s₂).2 ∧
    Core C base (qDerivs C T pts s₁).1 (qDerivs C T pts s₂).1 := by
  have hval : ∀ col, col < pts.length → ∀ k, ¬ Banned base T k →
      evalList C.ev C.orc T.t (fun k' => setPts C s₁ pts k' col) k =
      evalList C.ev C.orc T.t (fun k' => setPts C s₂ pts k' col) k := fun col hcol =>
    eval_frame C.ev C.orc C base T hT _ _ (fun k hk => setPts_leaf C base s₁ s₂ hc pts col k hk (Or.inl hcol))
  have hnb := not_banned_operands hT
  have hder : ∀ col, col < pts.length → ∀ row k, ¬ Banned base T k →
      derivRow C.O s₁.clearVars (fun k' => valuePass C T.t (setPts C s₁ pts) (simdRound C.simd pts.length) k' col)
        T.t (fun k' => s₁.d k' row col) k =
      derivRow C.O s₂.clearVars (fun k' => valuePass C T.t (setPts C s₂ pts) (simdRound C.simd pts.length) k' col)
        T.t (fun k' => s₂.d k' row col) k := by
    intro col hcol row k hk
    have hcs : col < simdRound C.simd pts.length := Nat.lt_of_lt_of_le hcol (le_simdRound _ _)
    rw [hc.c]
    refine derivRow_congr C.O s₂.clearVars T.t (Banned base T) hT.wf hT.noOracle hnb _ _ _ _ ?_ ?_ k hk
    · intro c hcm
      obtain ⟨b1, b2⟩ := hnb c hcm
      have b3 : ¬ Banned base T c.id := fun ⟨_, q⟩ => q (mem_ids hcm)
      simp only [valuePass, hcs, if_true]
      exact ⟨hval col hcol _ b1, hval col hcol _ b2, hval col hcol _ b3⟩
    · intro j hj hB
      have : j ∉ ids base := fun h => hB ⟨h, hj⟩
      exact hc.d j this row col
  constructor
  · simp only [qDerivs]
    apply List.map_congr_left
    intro col hcol
    have hlt : col < pts.length := by simpa using hcol
    have hcs : col < simdRound C.simd pts.length := Nat.lt_of_lt_of_le hlt (le_simdRound _ _)
    have hr := not_banned_root hT
    simp only [hcs, if_true, hder col hlt _ _ hr]
    simp only [valuePass, hcs, if_true, hval col hlt _ hr]
  · refine ⟨?_, ?_, hc.f, hc.i, hc.c⟩
    · intro k hk hx hy hz col
      have hkT : k ∉ ids T.t := fun h => hk (hT.sub k h)
      simp only [qDerivs, valuePass]
      have := setPts_leaf C base s₁ s₂ hc pts col k hk (Or.inr ⟨hx, hy, hz⟩)
      split
      · rw [evalList_notin _ _ _ _ _ hkT, evalList_notin _ _ _ _ _ hkT]; exact this
      · exact this
    · intro k hk row col
      have hkT : k ∉ ids T.t := fun h => hk (hT.sub k h)
      simp only [qDerivs]
      split
      · rw [derivRow_notin _ _ _ _ _ _ hkT, derivRow_notin _ _ _ _ _ _ hkT]; exact hc.d k hk row col
      · exact hc.d k hk row col

/-- **interval frame.** -/
theorem interval_frame (C : ECfg α β) (base : List Clause) (T : TapeM) (hT : TapeOK C base T)
    (lo hi : Pt α) (s₁ s₂ : EState α β) (hc : Core C base s₁ s₂) :
    (qInterval C T lo hi s₁).2 = (qInterval C T lo hi s₂).2 ∧
    Core C base (qInterval C T lo hi s₁).1 (qInterval C T lo hi s₂).1 := by
  have henv : ∀ k, k ∉ ids base →
      (if k = C.X then C.mkI lo.1 hi.1 else if k = C.Y then C.mkI lo.2.1 hi.2.1
        else if k = C.Z then C.mkI lo.2.2 hi.2.2 else s₁.ivl k) =
      (if k = C.X then C.mkI lo.1 hi.1 else if k = C.Y then C.mkI lo.2.1 hi.2.1
        else if k = C.Z then C.mkI lo.2.2 hi.2.2 else s₂.ivl k) := by
    intro k hk
    by_cases hx : k = C.X
    · simp [hx]
    · by_cases hy : k = C.Y
      · simp [hx, hy]
      · by_cases hz : k = C.Z
        · simp [hx, hy, hz]
        · simp [hx, hy, hz, hc.i k hk hx hy hz]
  constructor
  · simp only [qInterval]
    exact eval_frame C.iev C.iorc C base T hT _ _ henv _ (not_banned_root hT)
  · refine ⟨hc.v, hc.d, hc.f, ?_, hc.c⟩
    intro k hk hx hy hz
    have hkT : k ∉ ids T.t := fun h => hk (hT.sub k h)
    simp only [qInterval]
    rw [evalList_notin _ _ _ _ _ hkT, evalList_notin _ _ _ _ _ hkT]
    simp [hx, hy, hz, hc.i k hk hx hy hz]

/-- **gradient frame.** `JacobianEvaluator::gradient`: whole X/Y/Z rows are loaded, every `d` row
    is cleared and re-seeded, `clear_vars` is set and reset inside the call. -/
theorem gradient_frame (C : ECfg α β) (base : List Clause) (T : TapeM) (hT : TapeOK C base T)
    (p : Pt α) (s₁ s₂ : EState α β) (hc : Core C base s₁ s₂) :
    (qGradient C T p s₁).2 = (qGradient C T p s₂).2 ∧
    Core C base (qGradient C T p s₁).1 (qGradient C T p s₂).1 := by
  have henv : ∀ col k, k ∉ ids base →
      (if k = C.X then p.1 else if k = C.Y then p.2.1 else if k = C.Z then p.2.2 else s₁.v k col) =
      (if k = C.X then p.1 else if k = C.Y then p.2.1 else if k = C.Z then p.2.2 else s₂.v k col) := by
    intro col k hk
    by_cases hx : k = C.X
    · simp [hx]
    · by_cases hy : k = C.Y
      · simp [hx, hy]
      · by_cases hz : k = C.Z
        · simp [hx, hy, hz]
        · simp [hx, hy, hz, hc.v k hk hx hy hz col]
  have hnb := not_banned_operands hT
  have hans : (qGradient C T p s₁).2 = (qGradient C T p s₂).2 := by
    simp only [qGradient]
    apply List.map_congr_left
    intro i _
    refine derivRow_congr C.O true T.t (Banned base T) hT.wf hT.noOracle hnb _ _ _ _ ?_ (fun _ _ _ => rfl)
      _ (not_banned_root hT)
    intro c hcm
    obtain ⟨b1, b2⟩ := hnb c hcm
    have b3 : ¬ Banned base T c.id := fun ⟨_, q⟩ => q (mem_ids hcm)
    have e := eval_frame C.ev C.orc C base T hT _ _ (henv (jacSlot C.N i).2.2)
    exact ⟨e _ b1, e _ b2, e _ b3⟩
  refine ⟨hans, ?_, ?_, hc.f, hc.i, rfl⟩
  · intro k hk hx hy hz col
    have hkT : k ∉ ids T.t := fun h => hk (hT.sub k h)
    simp only [qGradient]
    split
    · simp [hx, hy, hz, hc.v k hk hx hy hz col]
    · simp only [valuePass]
      split
      · rw [evalList_notin _ _ _ _ _ hkT, evalList_notin _ _ _ _ _ hkT]
        simp [hx, hy, hz, hc.v k hk hx hy hz col]
      · simp [hx, hy, hz, hc.v k hk hx hy hz col]
  · intro k _ row col
    simp only [qGradient]

/-- **updateVars_effect.** `updateVars` on a variable slot: (1) it reports `true` iff one of the
    two stored copies differed from the new value; (2) states that agree on the core agree on the
    report and still agree afterwards; (3) the new state agrees on the core with ANY state whose
    variable row / interval copy hold the new value and which agrees elsewhere — in particular with a
    freshly built evaluator for the new value — so by the frame theorems every later answer is that
    of a rebuild. -/
theorem updateVars_effect (C : ECfg α β) (base : List Clause) (slot : Nat) (x : α)
    (hslot : slot ∉ ids base ∧ slot ≠ C.X ∧ slot ≠ C.Y ∧ slot ≠ C.Z)
    (s₁ s₂ : EState α β) (hc : Core C base s₁ s₂) :
    ((qSetVar C slot x s₁).2 = true ↔ (C.ne (s₁.v slot 0) x = true ∨ C.ine (s₁.ivl slot) x = true)) ∧
    (qSetVar C slot x s₁).2 = (qSetVar C slot x s₂).2 ∧
    Core C base (qSetVar C slot x s₁).1 (qSetVar C slot x s₂).1 ∧
    (∀ sNew : EState α β, (∀ col, sNew.v slot col = x) → sNew.ivl slot = C.mkI x x →
      (∀ k, k ≠ slot → k ∉ ids base → k ≠ C.X → k ≠ C.Y → k ≠ C.Z →
        (∀ col, sNew.v k col = s₁.v k col) ∧ sNew.ivl k = s₁.ivl k) →
      (∀ k, k ∉ ids base → ∀ row col, sNew.d k row col = s₁.d k row col) →
      (∀ k, k ∉ ids base → sNew.f k = s₁.f k) → sNew.clearVars = s₁.clearVars →
      Core C base (qSetVar C slot x s₁).1 sNew) := by
  obtain ⟨h0, hx, hy, hz⟩ := hslot
  refine ⟨by simp [qSetVar], ?_, ?_, ?_⟩
  · simp only [qSetVar, hc.v slot h0 hx hy hz 0, hc.i slot h0 hx hy hz]
  · refine ⟨?_, hc.d, hc.f, ?_, hc.c⟩
    · intro k hk kx ky kz col
      simp only [qSetVar]
      split
      · rfl
      · exact hc.v k hk kx ky kz col
    · intro k hk kx ky kz
      simp only [qSetVar]
      split
      · rfl
      · exact hc.i k hk kx ky kz
  · intro sNew hv hi hrest hd hf hcl
    refine ⟨?_, fun k hk row col => (hd k hk row col).symm, fun k hk => (hf k hk).symm, ?_, hcl.symm⟩
    · intro k hk kx ky kz col
      simp only [qSetVar]
      by_cases hks : k = slot
      · simp [hks, hv col]
      · simp [hks, (hrest k hks hk kx ky kz).1 col]
    · intro k hk kx ky kz
      simp only [qSetVar]
      by_cases hks : k = slot
      · simp [hks, hi]
      · simp [hks, (hrest k hks hk kx ky kz).2]

/-- column 0 of the value pass of a one-point query does not depend on the scratch -/
theorem value0_frame (C : ECfg α β) (base : List Clause) (T : TapeM) (hT : TapeOK C base T)
    (p : Pt α) (s₁ s₂ : EState α β) (hc : Core C base s₁ s₂) :
    ∀ k, ¬ Banned base T k →
      valuePass C T.t (setPts C s₁ [p]) (simdRound C.simd 1) k 0 =
      valuePass C T.t (setPts C s₂ [p]) (simdRound C.simd 1) k 0 := by
  intro k hk
  have hcs : 0 < simdRound C.simd 1 := Nat.lt_of_lt_of_le Nat.zero_lt_one (le_simdRound _ _)
  simp only [valuePass, hcs, if_true]
  exact eval_frame C.ev C.orc C base T hT _ _
    (fun j hj => setPts_leaf C base s₁ s₂ hc [p] 0 j hj (Or.inl (by simp))) k hk

/-- `valueAndPush` returns the same specialised tape from core-agreeing states -/
theorem pushedTape_frame (C : ECfg α β) (base : List Clause) (T : TapeM) (hT : TapeOK C base T)
    (p : Pt α) (s₁ s₂ : EState α β) (hc : Core C base s₁ s₂) :
    pushedTape C T p s₁ = pushedTape C T p s₂ := by
  unfold pushedTape
  apply push_congr
  intro c hcm
  obtain ⟨b1, b2⟩ := not_banned_operands hT c hcm
  simp only [pointKeep, value0_frame C base T hT p s₁ s₂ hc _ b1, value0_frame C base T hT p s₁ s₂ hc _ b2]

/-- **features frame.** `features_(p, tape)`: same specialised tape, same raw feature list at the
    root, core preserved — with NO hypothesis on scratch (the hypotheses H1 / H2 of the pre-fix
    `feature_walk_frame` are established by the fixed code: aa9f57c, 3ea66fb).  `hT'` says that the
    specialised tape is again a tape of the deck (checked by the driver on every real tape). -/
theorem features_frame (C : ECfg α β) (base : List Clause) (T : TapeM) (hT : TapeOK C base T)
    (p : Pt α) (s₁ s₂ : EState α β) (hc : Core C base s₁ s₂)
    (hT' : TapeOK C base (pushedTape C T p s₁)) :
    (qFeatures C T p s₁).2 = (qFeatures C T p s₂).2 ∧
    Core C base (qFeatures C T p s₁).1 (qFeatures C T p s₂).1 := by
  have hpush := pushedTape_frame C base T hT p s₁ s₂ hc
  have hv0 := value0_frame C base T hT p s₁ s₂ hc
  have hidsT : ∀ k, k ∈ ids (pushedTape C T p s₁).t → k ∈ ids T.t := push_ids T _
  have hnbT : ∀ k, k ∈ ids (pushedTape C T p s₁).t ∨ k ∉ ids base → ¬ Banned base T k := by
    intro k hk ⟨h1, h2⟩
    rcases hk with h | h
    · exact h2 (hidsT k h)
    · exact h h1
  have hcong := FeatureProofs.featList_congr C.O C.F C.dedup s₁.clearVars C.N C.simd
    (pushedTape C T p s₁).t (Banned base (pushedTape C T p s₁)) hT'.wf hT'.noOracle
    (not_banned_operands hT')
    (fun k => valuePass C T.t (setPts C s₁ [p]) (simdRound C.simd 1) k 0)
    (fun k => valuePass C T.t (setPts C s₂ [p]) (simdRound C.simd 1) k 0)
    ⟨s₁.f, simdRound C.simd 1⟩ ⟨s₂.f, simdRound C.simd 1⟩
    (by
      intro c hcm
      obtain ⟨c1, c2⟩ := hT'.closed c hcm
      exact ⟨hv0 _ (hnbT _ c1), hv0 _ (hnbT _ c2), hv0 _ (hnbT _ (Or.inl (mem_ids hcm)))⟩)
    (by
      intro k hk hB
      exact hc.f k (fun h => hB ⟨h, hk⟩))
    rfl
  constructor
  · simp only [qFeatures, ← hpush, ← hc.c]
    exact hcong.1 _ (not_banned_root hT')
  · refine ⟨?_, hc.d, ?_, hc.i, hc.c⟩
    · intro k hk hx hy hz col
      have hkT : k ∉ ids T.t := fun h => hk (hT.sub k h)
      simp only [qFeatures, valuePass]
      have := setPts_leaf C base s₁ s₂ hc [p] col k hk (Or.inr ⟨hx, hy, hz⟩)
      split
      · rw [evalList_notin _ _ _ _ _ hkT, evalList_notin _ _ _ _ _ hkT]; exact this
      · exact this
    · intro k hk
      have hk' : k ∉ ids (pushedTape C T p s₁).t := fun h => hk (hT'.sub k h)
      simp only [qFeatures, ← hpush]
      rw [featList_notin _ _ _ _ _ _ _ _ _ _ hk', featList_notin _ _ _ _ _ _ _ _ _ _ hk']
      exact hc.f k hk

/-- **isInside frame.** -/
theorem isInside_frame (C : ECfg α β) (base : List Clause) (T : TapeM) (hT : TapeOK C base T)
    (p : Pt α) (s₁ s₂ : EState α β) (hc : Core C base s₁ s₂)
    (hT' : TapeOK C base (pushedTape C T p s₁)) :
    (qIsInside C T p s₁).2 = (qIsInside C T p s₂).2 ∧
    Core C base (qIsInside C T p s₁).1 (qIsInside C T p s₂).1 := by
  obtain ⟨hans, hcore⟩ := features_frame C base T hT p s₁ s₂ hc hT'
  have hval : (qFeatures C T p s₁).1.v T.root 0 = (qFeatures C T p s₂).1.v T.root 0 := by
    simp only [qFeatures]
    exact value0_frame C base T hT p s₁ s₂ hc _ (not_banned_root hT)
  simp only [qIsInside, hval, hans]
  cases insideBySign C.O.lt C.O.zero ((qFeatures C T p s₂).1.v T.root 0) with
  | some b =>
    refine ⟨rfl, hcore.v, hc.d, hc.f, hc.i, hc.c⟩
  | none => exact ⟨rfl, hcore⟩

/-! ### histories -/

inductive Query (α : Type)
  | values (T : TapeM) (pts : List (Pt α))
  | derivs (T : TapeM) (pts : List (Pt α))
  | interval (T : TapeM) (lo hi : Pt α)
  | gradient (T : TapeM) (p : Pt α)
  | setVar (slot : Nat) (x : α)
  | features (T : TapeM) (p : Pt α)
  | isInside (T : TapeM) (p : Pt α)

inductive Answer (α β : Type)
  | vals (l : List α)
  | ders (l : List (V3 α × α))
  | ivl (i : β)
  | grad (l : List α)
  | changed (b : Bool)
  | feats (l : List (Feat α))
  | inside (b : Bool)

def step (C : ECfg α β) : Query α → EState α β → EState α β × Answer α β
  | .values T pts, s => let r := qValues C T pts s; (r.1, .vals r.2)
  | .derivs T pts, s => let r := qDerivs C T pts s; (r.1, .ders r.2)
  | .interval T lo hi, s => let r := qInterval C T lo hi s; (r.1, .ivl r.2)
  | .gradient T p, s => let r := qGradient C T p s; (r.1, .grad r.2)
  | .setVar slot x, s => let r := qSetVar C slot x s; (r.1, .changed r.2)
  | .features T p, s => let r := qFeatures C T p s; (r.1, .feats r.2)
  | .isInside T p, s => let r := qIsInside C T p s; (r.1, .inside r.2)

/-- a query this deck admits in state `s`: its tape is a tape of the deck (and so is the
    specialised tape a feature query walks) / its slot is a variable slot -/
def QueryOK (C : ECfg α β) (base : List Clause) : Query α → EState α β → Prop
  | .values T _, _ | .derivs T _, _ | .interval T _ _, _ | .gradient T _, _ => TapeOK C base T
  | .setVar slot _, _ => slot ∉ ids base ∧ slot ≠ C.X ∧ slot ≠ C.Y ∧ slot ≠ C.Z
  | .features T p, s | .isInside T p, s => TapeOK C base T ∧ TapeOK C base (pushedTape C T p s)

/-- run a history, collecting the answers -/
def runAll (C : ECfg α β) : List (Query α) → EState α β → EState α β × List (Answer α β)
  | [], s => (s, [])
  | q :: rest, s =>
    let r := step C q s
    let r' := runAll C rest r.1
    (r'.1, r.2 :: r'.2)

/-- every query of the history is admissible in the state it is asked in -/
def HistOK (C : ECfg α β) (base : List Clause) : List (Query α) → EState α β → Prop
  | [], _ => True
  | q :: rest, s => QueryOK C base q s ∧ HistOK C base rest (step C q s).1

theorem step_frame (C : ECfg α β) (base : List Clause) (q : Query α) (s₁ s₂ : EState α β)
    (hq : QueryOK C base q s₁) (hc : Core C base s₁ s₂) :
    (step C q s₁).2 = (step C q s₂).2 ∧ Core C base (step C q s₁).1 (step C q s₂).1 := by
  cases q with
  | values T pts => obtain ⟨h1, h2⟩ := values_frame C base T hq pts s₁ s₂ hc; exact ⟨by simp [step, h1], h2⟩
  | derivs T pts => obtain ⟨h1, h2⟩ := derivs_frame C base T hq pts s₁ s₂ hc; exact ⟨by simp [step, h1], h2⟩
  | interval T lo hi => obtain ⟨h1, h2⟩ := interval_frame C base T hq lo hi s₁ s₂ hc; exact ⟨by simp [step, h1], h2⟩
  | gradient T p => obtain ⟨h1, h2⟩ := gradient_frame C base T hq p s₁ s₂ hc; exact ⟨by simp [step, h1], h2⟩
  | setVar slot x =>
    obtain ⟨_, h1, h2, _⟩ := updateVars_effect C base slot x hq s₁ s₂ hc
    exact ⟨by simp [step, h1], h2⟩
  | features T p => obtain ⟨h1, h2⟩ := features_frame C base T hq.1 p s₁ s₂ hc hq.2; exact ⟨by simp [step, h1], h2⟩
  | isInside T p => obtain ⟨h1, h2⟩ := isInside_frame C base T hq.1 p s₁ s₂ hc hq.2; exact ⟨by simp [step, h1], h2⟩

/-- **history_independent.** For all states `s₁ s₂` that agree on the core (constants, variable
    values, leaf seeds, leaf features, `clear_vars`) — everything else arbitrary — and every finite
    history of value / batch / derivative / feature / inside / interval / Jacobian queries on any
    tapes of the deck and variable updates: the two evaluators give the same answer to every query
    of the history (and still agree afterwards).  With `s₁` the state a long-lived evaluator is in
    and `s₂` a freshly constructed one this is the property. -/
theorem history_independent (C : ECfg α β) (base : List Clause) (h : List (Query α))
    (s₁ s₂ : EState α β) (hq : HistOK C base h s₁) (hc : Core C base s₁ s₂) :
    (runAll C h s₁).2 = (runAll C h s₂).2 ∧ Core C base (runAll C h s₁).1 (runAll C h s₂).1 := by
  induction h generalizing s₁ s₂ with
  | nil => exact ⟨rfl, hc⟩
  | cons q rest ih =>
    obtain ⟨hq1, hq2⟩ := hq
    obtain ⟨h1, h2⟩ := step_frame C base q s₁ s₂ hq1 hc
    obtain ⟨h3, h4⟩ := ih _ _ hq2 h2
    exact ⟨by simp only [runAll, h1, h3], h4⟩

/-- a long-lived evaluator stays in core-agreement with the state it started from as long as no
    variable is updated: queries only write non-core locations -/
theorem core_preserved (C : ECfg α β) (base : List Clause) (q : Query α) (s : EState α β)
    (hq : QueryOK C base q s) (hns : ∀ slot x, q ≠ Query.setVar slot x) (hcv : s.clearVars = false)
    (hseed : ∀ k, k ∉ ids base → ∀ row col, s.d k row col = spatialSeed C.O C.X C.Y C.Z row k) :
    Core C base (step C q s).1 s := by
  have hrefl : Core C base s s := ⟨fun _ _ _ _ _ _ => rfl, fun _ _ _ _ => rfl, fun _ _ => rfl, fun _ _ _ _ _ => rfl, rfl⟩
  cases q with
  | values T pts =>
    have hT : TapeOK C base T := hq
    refine ⟨?_, fun _ _ _ _ => rfl, fun _ _ => rfl, fun _ _ _ _ _ => rfl, rfl⟩
    intro k hk hx hy hz col
    have hkT : k ∉ ids T.t := fun h => hk (hT.sub k h)
    simp only [step, qValues, valuePass]
    have e : setPts C s pts k col = s.v k col := by
      unfold setPts; cases pts[col]? <;> simp [hx, hy, hz]
    split
    · rw [evalList_notin _ _ _ _ _ hkT]; exact e
    · exact e
  | derivs T pts =>
    have hT : TapeOK C base T := hq
    refine ⟨?_, ?_, fun _ _ => rfl, fun _ _ _ _ _ => rfl, rfl⟩
    · intro k hk hx hy hz col
      have hkT : k ∉ ids T.t := fun h => hk (hT.sub k h)
      simp only [step, qDerivs, valuePass]
      have e : setPts C s pts k col = s.v k col := by
        unfold setPts; cases pts[col]? <;> simp [hx, hy, hz]
      split
      · rw [evalList_notin _ _ _ _ _ hkT]; exact e
      · exact e
    · intro k hk row col
      have hkT : k ∉ ids T.t := fun h => hk (hT.sub k h)
      simp only [step, qDerivs]
      split
      · rw [derivRow_notin _ _ _ _ _ _ hkT]
      · rfl
  | interval T lo hi =>
    have hT : TapeOK C base T := hq
    refine ⟨fun _ _ _ _ _ _ => rfl, fun _ _ _ _ => rfl, fun _ _ => rfl, ?_, rfl⟩
    intro k hk hx hy hz
    have hkT : k ∉ ids T.t := fun h => hk (hT.sub k h)
    simp only [step, qInterval]
    rw [evalList_notin _ _ _ _ _ hkT]
    simp [hx, hy, hz]
  | gradient T p =>
    have hT : TapeOK C base T := hq
    refine ⟨?_, ?_, fun _ _ => rfl, fun _ _ _ _ _ => rfl, ?_⟩
    · intro k hk hx hy hz col
      have hkT : k ∉ ids T.t := fun h => hk (hT.sub k h)
      simp only [step, qGradient]
      split
      · simp [hx, hy, hz]
      · simp only [valuePass]
        split
        · rw [evalList_notin _ _ _ _ _ hkT]; simp [hx, hy, hz]
        · simp [hx, hy, hz]
    · intro k hk row col
      simp only [step, qGradient]
      exact (hseed k hk row col).symm
    · simp only [step, qGradient]; exact hcv.symm
  | setVar slot x => exact absurd rfl (hns slot x)
  | features T p =>
    obtain ⟨hT, hT'⟩ : TapeOK C base T ∧ TapeOK C base (pushedTape C T p s) := hq
    refine ⟨?_, fun _ _ _ _ => rfl, ?_, fun _ _ _ _ _ => rfl, rfl⟩
    · intro k hk hx hy hz col
      have hkT : k ∉ ids T.t := fun h => hk (hT.sub k h)
      simp only [step, qFeatures, valuePass]
      have e : setPts C s [p] k col = s.v k col := by
        unfold setPts; cases [p][col]? <;> simp [hx, hy, hz]
      split
      · rw [evalList_notin _ _ _ _ _ hkT]; exact e
      · exact e
    · intro k hk
      have hk' : k ∉ ids (pushedTape C T p s).t := fun h => hk (hT'.sub k h)
      simp only [step, qFeatures]
      exact featList_notin _ _ _ _ _ _ _ _ _ _ hk'
  | isInside T p =>
    obtain ⟨hT, hT'⟩ : TapeOK C base T ∧ TapeOK C base (pushedTape C T p s) := hq
    have hv : ∀ k, k ∉ ids base → k ≠ C.X → k ≠ C.Y → k ≠ C.Z → ∀ col,
        (qFeatures C T p s).1.v k col = s.v k col := by
      intro k hk hx hy hz col
      have hkT : k ∉ ids T.t := fun h => hk (hT.sub k h)
      simp only [qFeatures, valuePass]
      have e : setPts C s [p] k col = s.v k col := by
        unfold setPts; cases [p][col]? <;> simp [hx, hy, hz]
      split
      · rw [evalList_notin _ _ _ _ _ hkT]; exact e
      · exact e
    simp only [step, qIsInside]
    cases insideBySign C.O.lt C.O.zero ((qFeatures C T p s).1.v T.root 0) with
    | some b => exact ⟨hv, fun _ _ _ _ => rfl, fun _ _ => rfl, fun _ _ _ _ _ => rfl, rfl⟩
    | none =>
      refine ⟨hv, fun _ _ _ _ => rfl, ?_, fun _ _ _ _ _ => rfl, rfl⟩
      intro k hk
      have hk' : k ∉ ids (pushedTape C T p s).t := fun h => hk (hT'.sub k h)
      simp only [qFeatures]
      exact featList_notin _ _ _ _ _ _ _ _ _ _ hk'

/-! ### the hypotheses are satisfiable: `x + y`, slots x = 2, y = 3, z = 4, clause 1 -/

def exBase : TapeM := { t := [⟨Op.add, 1, 2, 3⟩], root := 1 }
def exCfg : ECfg Int Int :=
  { X := 2, Y := 3, Z := 4, ev := fun _ a b => a + b, orc := fun _ => 0,
    O := { zero := 0, one := 1, two := 2, add := (· + ·), sub := (· - ·), mul := (· * ·), div := (· / ·),
           neg := fun a => -a, sqrt := id, sin := id, cos := id, exp := id, pow := fun a _ => a,
           lt := fun a b => decide (a < b), isZero := fun a => decide (a = 0), isNaN := fun _ => false,
           oddInt := fun a => a % 2 == 1 },
    iev := fun _ a b => a + b, iorc := fun _ => 0, mkI := fun a _ => a, simd := 16, N := 256, vars := #[],
    F := { push := fun es e => some (es ++ [e]), normZero := fun _ => false, veq := fun a b => a == b,
           sub := fun a _ => a, negv := id },
    dedup := id, normPos := fun _ => true, check := fun _ _ => true, ne := fun a b => a != b, ine := fun a b => a != b }

example : TapeOK exCfg exBase.t exBase :=
  { wf := wfb_sound _ (by decide), noOracle := by simp [exBase], sub := fun _ h => h,
    closed := by simp [exBase, ids], root := Or.inl (by simp [exBase, ids]),
    x := by simp [exBase, ids, exCfg], y := by simp [exBase, ids, exCfg], z := by simp [exBase, ids, exCfg] }
-- two states that differ in all scratch give the same batch answer
example : (qValues exCfg exBase [(1, 2, 3), (10, 20, 30)]
            { v := fun _ _ => 7, d := fun _ _ _ => 9, f := fun _ => [], ivl := fun _ => 0, countSimd := 0,
              countActual := 5, clearVars := false, filled := fun _ => 3, j := fun _ => 1 }).2 = [3, 30] := by
  decide

end Libfive.C15
