/-
  C13 — Tree handles are memory-safe and leak-free under any call sequence.
  Property theorems only; the invariant machinery lives in LibfiveProofs/RefCount.lean.

  All theorems quantify over *every* state reachable from the initial state (only the five
  static singletons exist) by *any* finite sequence of operations of the model
  (LibfiveModel/RefCount.lean: `Op`, `step`), for any size of the client's handle pool and any
  admissible outcome of the tree-building calls.
-/
import LibfiveProofs.RefCount

namespace Libfive.C13
open Libfive.RC List

/-- reachable by some operation sequence from the initial state with `k` client slots -/
def Reachable (s : State) : Prop := ∃ (k : Nat) (ops : List RC.Op), s = run (init k) ops

theorem replicate_dead_own (k : Nat) : (List.replicate k Slot.dead).flatMap Slot.own = [] := by
  induction k with
  | zero => rfl
  | succ k ih => simp [List.replicate_succ, List.flatMap_cons, Slot.own, ih]

theorem init_node? (k n : Nat) : (init k).node? n =
    if n < 5 then some ⟨n, [], 1⟩ else none := by
  unfold State.node? init
  match n with
  | 0 | 1 | 2 | 3 | 4 => rfl
  | n + 5 => simp

theorem Inv_init (k : Nat) : Inv (init k) := by
  have hso : (init k).slotOwn = [0, 1, 2, 3, 4] := by
    simp [State.slotOwn, init, Slot.own, List.flatMap_append, List.flatMap_cons, replicate_dead_own]
  have hf : (init k).fields = [] := by
    simp [State.fields, init, fieldsOf, List.flatMap_cons]
  refine ⟨rfl, ?_, ?_, ?_, ?_, ?_⟩
  · intro n nd h
    rw [init_node?] at h
    simp only [cnt, hso, hf]
    by_cases h5 : n < 5
    · simp only [h5, if_true, Option.some.injEq] at h
      subst h
      match n, h5 with
      | 0, _ | 1, _ | 2, _ | 3, _ | 4, _ => decide
    · simp [h5] at h
  · intro n h
    rw [init_node?]
    simp only [cnt, hso, hf] at h
    by_cases h5 : n < 5
    · simp [h5]
    · exfalso
      have : count n [0, 1, 2, 3, 4] = 0 := by
        rw [List.count_eq_zero]; simp; omega
      simp [this] at h
  · intro n nd h
    rw [init_node?] at h
    by_cases h5 : n < 5
    · simp only [h5, if_true, Option.some.injEq] at h; subst h; simp
    · simp [h5] at h
  · intro n nd h
    rw [init_node?] at h
    by_cases h5 : n < 5
    · simp only [h5, if_true, Option.some.injEq] at h; subst h; simp
    · simp [h5] at h
  · intro h hh
    unfold init NSTATIC at *
    match h, hh with
    | 0, _ | 1, _ | 2, _ | 3, _ | 4, _ => simp [Array.getElem?_append]

theorem reachable_inv {s : State} (h : Reachable s) : Inv s := by
  obtain ⟨k, ops, rfl⟩ := h
  exact Inv_run ops (Inv_init k)

/-! ### split of the handle owners into `Tree` objects and released raw pointers -/

def treeOwn : Slot → List Nat
  | .tree (some n) => [n]
  | _ => []
def rawOwn : Slot → List Nat
  | .raw (some n) => [n]
  | _ => []
/-- targets of the live `Tree` handles (statics included) -/
def handleTargets (s : State) : List Nat := s.slots.toList.flatMap treeOwn
/-- released raw pointers (`libfive_tree` values the client holds) -/
def releasedPointers (s : State) : List Nat := s.slots.toList.flatMap rawOwn

theorem count_own_split (n : Nat) : ∀ (l : List Slot),
    count n (l.flatMap Slot.own) = count n (l.flatMap treeOwn) + count n (l.flatMap rawOwn) := by
  intro l
  induction l with
  | nil => rfl
  | cons sl rest ih =>
    simp only [List.flatMap_cons, List.count_append, ih]
    cases sl with
    | dead => simp [Slot.own, treeOwn, rawOwn]
    | tree p => cases p <;> simp [Slot.own, treeOwn, rawOwn] <;> omega
    | raw p => cases p <;> simp [Slot.own, treeOwn, rawOwn] <;> omega

/-- **rc_invariant.** In every reachable state the stored reference count of every allocated node
    equals the number of `Tree` handles pointing to it, plus the number of parent fields holding
    it, plus the number of released raw pointers to it. -/
theorem rc_invariant {s : State} (h : Reachable s) (n : Nat) (nd : Node) (hn : s.node? n = some nd) :
    nd.rc = count n (handleTargets s) + count n s.fields + count n (releasedPointers s) := by
  have := (reachable_inv h).rc n nd hn
  simp only [cnt, State.slotOwn, count_own_split, List.count_nil] at this
  simp only [handleTargets, releasedPointers]
  omega

/-- nodes reachable from a live handle or released pointer through parent fields -/
inductive Reach (s : State) : Nat → Prop where
  | handle (h n : Nat) : h < s.slots.size → (s.slot h).ptr = some n → Reach s n
  | field (p n : Nat) (nd : Node) : Reach s p → s.node? p = some nd → n ∈ nd.kids → Reach s n

/-- **no_dangling.** Every node reachable from a live handle (or a released pointer) is allocated:
    no handle and no parent field ever points to a freed node. -/
theorem no_dangling {s : State} (h : Reachable s) (n : Nat) (hr : Reach s n) :
    ∃ nd, s.node? n = some nd := by
  have i := reachable_inv h
  induction hr with
  | handle hd n hlt hp => exact Option.isSome_iff_exists.mp (i.ptr_alive hlt hp)
  | field p n nd _ hnd hk _ =>
    apply Option.isSome_iff_exists.mp
    apply i.alive
    have : 0 < count n s.fields := by
      rw [List.count_pos_iff]
      unfold State.fields
      rw [List.mem_flatMap]
      obtain ⟨hlt, hv⟩ := node?_heap hnd
      exact ⟨some nd, by rw [← hv]; exact Array.getElem_mem_toList hlt, hk⟩
    simp only [cnt]; omega

/-- **no_undefined_behaviour.** No reachable state has performed an access to a freed node, a
    decrement of a zero refcount (double free) or run out of destructor fuel. -/
theorem no_undefined_behaviour {s : State} (h : Reachable s) : s.ub = false := (reachable_inv h).ub

/-- the slots an operation writes; every other handle is an argument or a bystander -/
def written : RC.Op → List Nat
  | .copy d _ => [d]
  | .move d x => [d, x]
  | .copyAssign d _ => [d]
  | .moveAssign d x => [d, x]
  | .destroy d => [d]
  | .release d x => [d, x]
  | .reclaim d x => [d, x]
  | .build d _ _ _ _ _ => [d]
  | .observe _ => []
  | .null d => [d]

theorem step_frame (s : State) (op : RC.Op) (a : Nat) (ha : a ∉ written op) (hlt : a < s.slots.size) :
    (step s op).1.slot a = s.slot a := by
  have set1 : ∀ (s0 s1 : State) (d : Nat) (v : Slot), s1.slots = s0.slots → a ≠ d →
      (setSlot d v s1).slot a = s0.slot a := by
    intro s0 s1 d v hs hne
    by_cases hd : d < s1.slots.size
    · rw [slot_setSlot v hd]; simp [hne, slot_congr hs]
    · simp only [State.slot, RC.setSlot, Array.getD_eq_getD_getElem?, Array.getElem?_setIfInBounds]
      have : ¬ d = a := fun e => hne e.symm
      simp [this, hs]
  cases op with
  | copy d x =>
    rw [step_copy]; split
    · exact set1 s _ d _ (incrOpt_slots _ _) (by simpa [written] using ha)
    · rfl
  | move d x =>
    simp only [written, List.mem_cons, List.not_mem_nil, or_false, not_or] at ha
    rw [step_move]; split
    · rw [set1 (setSlot x (.tree none) s) _ d _ rfl ha.1]; exact set1 s s x _ rfl ha.2
    · rfl
  | copyAssign d x =>
    rw [step_copyAssign]; split
    · rw [slot_congr (dtorOpt_slots _ _)]
      exact set1 s _ d _ (incrOpt_slots _ _) (by simpa [written] using ha)
    · rfl
  | moveAssign d x =>
    simp only [written, List.mem_cons, List.not_mem_nil, or_false, not_or] at ha
    rw [step_moveAssign]; split
    · split
      · rfl
      · rw [set1 (setSlot d (.tree (s.slot x).ptr) s) _ x _ rfl ha.2]; exact set1 s s d _ rfl ha.1
    · rfl
  | destroy d =>
    rw [step_destroy]; split
    · rw [slot_congr (dtorOpt_slots _ _)]; exact set1 s s d _ rfl (by simpa [written] using ha)
    · rfl
  | release d x =>
    simp only [written, List.mem_cons, List.not_mem_nil, or_false, not_or] at ha
    rw [step_release]; split
    · rw [set1 (setSlot x (.tree none) s) _ d _ rfl ha.1]; exact set1 s s x _ rfl ha.2
    · rfl
  | reclaim d x =>
    simp only [written, List.mem_cons, List.not_mem_nil, or_false, not_or] at ha
    rw [step_reclaim]; split
    · rw [set1 (setSlot x .dead s) _ d _ rfl ha.1]; exact set1 s s x _ rfl ha.2
    · rfl
  | build d args temps news root asRaw =>
    rw [step_build]; split
    · split
      · simp only [State.slot, State.setUb, mkAll_slots, incrAll_slots]
      · rw [slot_congr (dtorAll_slots _ _)]
        refine set1 s _ d _ ?_ (by simpa [written] using ha)
        rw [incr_slots, mkAll_slots, incrAll_slots]
    · rfl
  | observe args =>
    rw [step_observe]; split
    · rw [slot_congr (dtorAll_slots _ _), slot_congr (incrAll_slots _ _)]
    · rfl
  | null d =>
    rw [step_null]; split
    · exact set1 s s d _ rfl (by simpa [written] using ha)
    · rfl

/-- **api_preserves_args.** No operation consumes or invalidates a handle it does not explicitly
    write (its destination; the source of a move / release / reclaim): after the call every other
    handle — in particular every argument of a building, printing, evaluating call, with any
    aliasing — still holds the same pointer, and that node is still allocated and still has a
    positive reference count. -/
theorem api_preserves_args {s : State} (h : Reachable s) (op : RC.Op) (a : Nat)
    (ha : a ∉ written op) (hlt : a < s.slots.size) :
    (step s op).1.slot a = s.slot a ∧
    ∀ n, (s.slot a).ptr = some n → ∃ nd, (step s op).1.node? n = some nd ∧ 1 ≤ nd.rc := by
  have hf := step_frame s op a ha hlt
  refine ⟨hf, fun n hn => ?_⟩
  have i' : Inv (step s op).1 := Inv_step (reachable_inv h) op
  have hsz : (step s op).1.slots.size = s.slots.size := by
    have h0 : ∀ (s0 : State) d v, (setSlot d v s0).slots.size = s0.slots.size := fun _ _ _ => by simp
    cases op with
    | copy d x => rw [step_copy]; split <;> simp [incrOpt_slots]
    | move d x => rw [step_move]; split <;> simp
    | copyAssign d x => rw [step_copyAssign]; split <;> simp [dtorOpt_slots, incrOpt_slots]
    | moveAssign d x =>
      rw [step_moveAssign]; split
      · split <;> simp
      · rfl
    | destroy d => rw [step_destroy]; split <;> simp [dtorOpt_slots]
    | release d x => rw [step_release]; split <;> simp
    | reclaim d x => rw [step_reclaim]; split <;> simp
    | build d args temps news root asRaw =>
      rw [step_build]; split
      · split <;> simp [State.setUb, dtorAll_slots, incr_slots, mkAll_slots, incrAll_slots]
      · rfl
    | observe args => rw [step_observe]; split <;> simp [dtorAll_slots, incrAll_slots]
    | null d => rw [step_null]; split <;> simp
  have hal := i'.ptr_alive (h := a) (n := n) (by rw [hsz]; exact hlt) (by rw [hf]; exact hn)
  obtain ⟨nd, hnd⟩ := Option.isSome_iff_exists.mp hal
  exact ⟨nd, hnd, i'.pos n nd hnd⟩

/-- **leak_free.** Once every client handle has been deleted (every non-static slot is dead or
    holds a null pointer), only the five static singletons X, Y, Z, invalid, one remain
    allocated: all expression nodes have been freed. -/
theorem leak_free {s : State} (h : Reachable s)
    (hall : ∀ k, NSTATIC ≤ k → (s.slot k).own = []) :
    ∀ n nd, s.node? n = some nd → n < NSTATIC := by
  have i := reachable_inv h
  have hso : ∀ n, NSTATIC ≤ n → count n s.slotOwn = 0 := by
    intro n hn
    rw [List.count_eq_zero]
    intro hmem
    unfold State.slotOwn at hmem
    rw [List.mem_flatMap] at hmem
    obtain ⟨sl, hsl, hns⟩ := hmem
    obtain ⟨k, hk, hv⟩ := List.mem_iff_getElem.mp hsl
    have hk' : k < s.slots.size := by simpa using hk
    have hslot : s.slot k = sl := by rw [slot_eq hk']; simpa using hv
    by_cases h5 : k < NSTATIC
    · have := i.stat k h5
      rw [Array.getElem?_eq_getElem hk'] at this
      have e : s.slots[k] = Slot.tree (some k) := by simpa using this
      rw [slot_eq hk', e] at hslot
      subst hslot
      simp [Slot.own] at hns
      omega
    · have := hall k (by omega)
      rw [hslot] at this
      rw [this] at hns
      cases hns
  have core : ∀ (m n : Nat), s.heap.size ≤ n + m → NSTATIC ≤ n → s.node? n = none := by
    intro m
    induction m with
    | zero =>
      intro n hsz _
      cases hnd : s.node? n with
      | none => rfl
      | some nd => have := node?_lt hnd; omega
    | succ m ih =>
      intro n hsz hn
      cases hnd : s.node? n with
      | none => rfl
      | some nd =>
        exfalso
        have hrc := i.rc n nd hnd
        have hpos := i.pos n nd hnd
        simp only [cnt, hso n hn, List.count_nil] at hrc
        have hf : 0 < count n s.fields := by omega
        rw [List.count_pos_iff] at hf
        unfold State.fields at hf
        rw [List.mem_flatMap] at hf
        obtain ⟨o, ho, hno⟩ := hf
        cases o with
        | none => simp [fieldsOf] at hno
        | some pd =>
          obtain ⟨p, hp, hv⟩ := List.mem_iff_getElem.mp ho
          have hp' : p < s.heap.size := by simpa using hp
          have hpn : s.node? p = some pd := by
            unfold State.node?
            rw [Array.getElem?_eq_getElem hp']
            have : s.heap[p] = some pd := by simpa using hv
            simp [this]
          have hlt := (i.shape p pd hpn).2 n (by simpa [fieldsOf] using hno)
          have := ih p (by omega) (by omega)
          rw [this] at hpn
          cases hpn
  intro n nd hnd
  by_cases h5 : n < NSTATIC
  · exact h5
  · have := core s.heap.size n (by omega) (by omega)
    rw [this] at hnd
    cases hnd

/-- bounded iteration of the (non-recursive) loop body -/
def iterStep : Nat → List Nat × State → List Nat × State
  | 0, p => p
  | f + 1, p => iterStep f (loopStep p.1 p.2)

theorem iterStep_nil (f : Nat) (s : State) : iterStep f ([], s) = ([], s) := by
  induction f with
  | zero => rfl
  | succ f ih => simp [iterStep, loopStep, ih]

/-- **destructor_iterative.** The destructor is a bounded iteration of a loop body that is not
    recursive (`loopStep` pops one work-list entry and pushes at most the children of one node):
    its native recursion depth does not depend on the depth or width of the expression; the work
    list is data (the heap-allocated `std::stack`).  `loop` — the destructor of the model — is
    literally this iteration, flagging exhaustion of the fuel. -/
theorem destructor_iterative (f : Nat) (todo : List Nat) (s : State) :
    loop f todo s =
      if (iterStep f (todo, s)).1 = [] then (iterStep f (todo, s)).2
      else (iterStep f (todo, s)).2.setUb := by
  induction f generalizing todo s with
  | zero =>
    cases todo with
    | nil => simp [RC.loop, iterStep]
    | cons t rest => simp [RC.loop, iterStep]
  | succ f ih =>
    cases todo with
    | nil => simp [RC.loop, iterStep, loopStep, iterStep_nil]
    | cons t rest =>
      rw [loop_succ_cons, ih]
      rfl

/-- **destructor_fuel_suffices.** In every reachable state, destroying any handle terminates within
    the fuel `4·|heap| + 1` with an empty work list: the number of loop iterations is bounded by the
    number of parent fields (every node has at most four `Tree` members) plus one. -/
theorem destructor_fuel_suffices {s : State} (h : Reachable s) (d n : Nat) (hd : NSTATIC ≤ d)
    (hlt : d < s.slots.size) (hp : (s.slot d).ptr = some n) :
    (iterStep (fuel (setSlot d .dead s)) ([n], setSlot d .dead s)).1 = [] := by
  have i := reachable_inv h
  have i1 := InvX.setSlot (h := d) (e := []) Slot.dead hlt hd (by simpa [Slot.own] using i)
  rw [own_eq_ptr, hp] at i1
  have i2 : InvX (dtor n (setSlot d .dead s)) [] := InvX.dtor (by simpa using i1)
  have hub := i2.ub
  unfold dtor at hub
  rw [destructor_iterative] at hub
  by_cases he : (iterStep (fuel (setSlot d .dead s)) ([n], setSlot d .dead s)).1 = []
  · exact he
  · simp [he, State.setUb] at hub

/-! ### the hypotheses are satisfiable: a concrete history
    `a = Tree(2.0); b = a; c = libfive_tree_binary(add, a, a); ~a; ~b; libfive_tree_delete(c)` -/

def exOps : List RC.Op :=
  [ .build 5 [] false [⟨3, []⟩] (.new 0) false,
    .copy 6 5,
    .build 7 [5, 6] true [⟨2, [.old 5, .old 5]⟩] (.new 0) true,
    .observe [7, 7, 5],
    .destroy 5, .destroy 6, .destroy 7 ]

example : Reachable (run (init 4) exOps) := ⟨4, exOps, rfl⟩
-- every operation of the history is accepted, the shared constant reaches refcount 4 …
example : ((exOps.take 3).foldl (fun (p : State × Bool) o => ((step p.1 o).1, p.2 && (step p.1 o).2 == .ok))
    (init 4, true)).2 = true := by decide
example : (run (init 4) (exOps.take 3)).rcOf 5 = some 4 := by decide
example : (run (init 4) (exOps.take 3)).slot 7 = .raw (some 6) := by decide
-- … the argument handles survive the C-API call (api_preserves_args is not vacuous) …
example : 5 ∉ written (exOps[2]) ∧ (run (init 4) (exOps.take 3)).slot 5 = .tree (some 5) := by decide
-- … and after the three deletes only the statics remain (hypothesis of leak_free holds)
example : ∀ k, k < 9 → NSTATIC ≤ k → ((run (init 4) exOps).slot k).own = [] := by decide
example : (run (init 4) exOps).liveCount = 5 := by decide
example : (run (init 4) exOps).ub = false := by decide
-- Reach is inhabited: the constant under the `add` node is reachable from the raw handle
example : Reach (run (init 4) (exOps.take 3)) 5 :=
  .field 6 5 ⟨2, [5, 5], 1⟩ (.handle 7 6 (by decide) (by decide)) (by decide) (by decide)
-- the fuel bound is met with room to spare on a real destruction
example : (iterStep 3 ([6], setSlot 7 .dead (run (init 4) (exOps.take 6)))).1 = [] := by decide

end Libfive.C13
