/-
  C17 — The root finder reports what it actually reached.
  Property theorems only (model: LibfiveModel/Solver.lean, helper lemmas: LibfiveProofs/Solver.lean).

  The model mirrors solver.cpp AFTER /repo commits 4e85339 (the line search stops on a non-finite
  or zero step) and 3fa47ee (`gas && --gas`).  All theorems quantify over every scalar
  interpretation `S`, every evaluator `P` (arbitrary `value` / `grad` functions), every initial slot
  state `ev0`, initial assignment `init`, mask, budget `gas` and every amount of model fuel.
  `FVal` (nan | ninf | fin n | pinf) is used for the concrete examples.  The last section keeps the
  refuted claims about the PRE-FIX line search (`lineSearchOld`) as checked theorems.
-/
import LibfiveProofs.Solver

namespace Libfive.C17

open Libfive.Solver

variable {V : Type}

/-- the variables `findRoot` iterates on: the initial assignment minus the mask -/
def unmasked (init : Assign V) (mask : List Var) : Assign V :=
  init.filter fun p => !mask.contains p.1

theorem mem_keys_filter (a : Assign V) (q : Var → Bool) (x : Var)
    (h : x ∈ keys (a.filter fun p => q p.1)) : q x = true := by
  simp only [keys, List.mem_map, List.mem_filter] at h
  obtain ⟨p, ⟨_, hq⟩, rfl⟩ := h
  exact hq

/-- **residual_is_value.** On every exit path (converged / small residual / out of gas / all
    gradients small / line search gave up) the returned residual is the evaluator's value with its
    variable slots holding the initial values overwritten by the returned assignment — i.e. an
    independent evaluation at the returned assignment (masked variables at their initial values)
    reproduces it.  The returned variables are exactly the unmasked ones.  Unless the last line
    search gave up, the evaluator is left in exactly that state (after a give-up its slots hold the
    last rejected trial point; slots of variables that are not iterated on are never written). -/
theorem residual_is_value (S : Scalar V) (P : Problem V) (innerFuel outerFuel : Nat)
    (ev0 init : Assign V) (mask : List Var) (gas : Nat) (st : St V)
    (h : findRoot S P innerFuel outerFuel ev0 init mask gas = .returned st) :
    st.r = P.value (load (load ev0 init) st.vars) ∧
    keys st.vars = keys (unmasked init mask) ∧
    (st.gaveUp = false → st.ev = load (load ev0 init) st.vars) ∧
    (∀ x, x ∉ keys (unmasked init mask) → st.ev.lookup x = (load ev0 init).lookup x) := by
  let E := load ev0 init
  let K := keys (unmasked init mask)
  let I : St V → Prop := fun s =>
    s.r = P.value (load E s.vars) ∧ keys s.vars = K ∧ (s.gaveUp = false → s.ev = load E s.vars) ∧
    (s.gaveUp = true → s.converged = true) ∧ (∀ x, x ∉ K → s.ev.lookup x = E.lookup x)
  have key := outer_ind S P innerFuel I I (fun _ h => h) (fun _ h => h) (fun _ h => h)
    (by
      intro s s' n cur hI _ _ hls
      obtain ⟨i1, i2, _, _, i5⟩ := hI
      refine ⟨i1, i2, fun hf => (by cases hf), fun _ => rfl, ?_⟩
      intro x hx
      show cur.lookup x = E.lookup x
      rcases lineSearch_gaveUp S P _ _ _ _ _ _ _ _ _ _ _ _ hls with hc | ⟨s'', hc⟩
      · rw [hc]; exact i5 x hx
      · rw [hc, lookup_load, lookup_eq_none_of_not_mem_keys _ x (by rw [keys_stepVars, i2]; exact hx)]
        rw [← i5 x hx]
        cases s.ev.lookup x <;> rfl)
    (by
      intro s a hI hconv _ hls
      obtain ⟨h1, h2, h3, _⟩ := lineSearch_accepted S P _ _ _ _ _ _ _ _ _ a hls
      obtain ⟨_, i2, i3, i4, i5⟩ := hI
      have hg : s.gaveUp = false := by
        cases hgu : s.gaveUp with
        | false => rfl
        | true => rw [i4 hgu] at hconv; cases hconv
      have hk : keys a.vars = keys s.vars := by rw [h1, keys_stepVars]
      have hev : a.ev = load E a.vars := by
        rw [h2, i3 hg, load_load]
        intro x hx
        rw [hk]; exact hx
      refine ⟨by rw [h3, hev], by rw [hk]; exact i2, fun _ => hev, fun hf => (by cases hf), ?_⟩
      intro x hx
      show a.ev.lookup x = E.lookup x
      rw [hev, lookup_load, lookup_eq_none_of_not_mem_keys a.vars x (by rw [hk, i2]; exact hx)]
      cases E.lookup x <;> rfl)
    outerFuel (initSt S P ev0 init mask gas)
    (by
      have hE : load E (init.filter fun p => !mask.contains p.1) = E :=
        load_filter_self ev0 init (fun k => !mask.contains k)
      refine ⟨?_, rfl, fun _ => ?_, fun hf => (by cases hf), fun _ _ => rfl⟩
      · show P.value (load ev0 init) = P.value (load E (init.filter fun p => !mask.contains p.1))
        rw [hE]
      · show load ev0 init = load E (init.filter fun p => !mask.contains p.1)
        rw [hE])
  obtain ⟨i1, i2, i3, _, i5⟩ := key.1 st h
  exact ⟨i1, i2, i3, i5⟩

/-- **mask_untouched.** A masked variable is not in the returned solution, and the evaluator's
    slot for it still holds its initial value (it was loaded once and never written again). -/
theorem mask_untouched (S : Scalar V) (P : Problem V) (innerFuel outerFuel : Nat)
    (ev0 init : Assign V) (mask : List Var) (gas : Nat) (st : St V)
    (h : findRoot S P innerFuel outerFuel ev0 init mask gas = .returned st)
    (x : Var) (hx : x ∈ mask) :
    x ∉ keys st.vars ∧ st.ev.lookup x = (load ev0 init).lookup x := by
  obtain ⟨_, h2, _, h4⟩ := residual_is_value S P innerFuel outerFuel ev0 init mask gas st h
  have hnot : x ∉ keys (unmasked init mask) := by
    intro hm
    have := mem_keys_filter init (fun k => !mask.contains k) x hm
    simp at this
    exact this hx
  exact ⟨by rw [h2]; exact hnot, h4 x hnot⟩

/-- **outer_bounded.** For EVERY budget, `gas = 0` included, at most `gas - 1` (natural
    subtraction: 0 for `gas ≤ 1`) loop bodies are executed — on returned and on hung outcomes. -/
theorem outer_bounded (S : Scalar V) (P : Problem V) (innerFuel outerFuel : Nat)
    (ev0 init : Assign V) (mask : List Var) (gas : Nat) :
    (∀ st, findRoot S P innerFuel outerFuel ev0 init mask gas = .returned st → st.iters ≤ gas - 1) ∧
    (∀ st s n, findRoot S P innerFuel outerFuel ev0 init mask gas = .hung st s n → st.iters ≤ gas - 1) := by
  let I : St V → Prop := fun s => s.iters + s.gas = gas ∧ (s.iters = 0 ∨ 1 ≤ s.gas)
  let Q : St V → Prop := fun s => s.iters ≤ gas - 1
  have hQ : ∀ s, I s → Q s := by
    intro s ⟨h1, h2⟩
    show s.iters ≤ gas - 1
    omega
  have key := outer_ind S P innerFuel I Q hQ (fun s hI => hQ s hI) (fun s hI => hQ s hI)
    (by
      intro s _ _ _ ⟨h1, h2⟩ _ hg _
      show s.iters + 1 + (s.gas - 1) = gas ∧ (s.iters + 1 = 0 ∨ 1 ≤ s.gas - 1)
      omega)
    (by
      intro s a ⟨h1, h2⟩ _ hg _
      show s.iters + 1 + (s.gas - 1) = gas ∧ (s.iters + 1 = 0 ∨ 1 ≤ s.gas - 1)
      omega)
    outerFuel (initSt S P ev0 init mask gas) ⟨by show 0 + gas = gas; omega, Or.inl rfl⟩
  exact ⟨key.1, fun st s n h => (key.2 st s n h).1⟩

/-- A zero budget performs no iteration and returns the initial assignment. -/
theorem gas_zero_no_iteration (S : Scalar V) (P : Problem V) (innerFuel outerFuel : Nat)
    (ev0 init : Assign V) (mask : List Var) (st : St V)
    (h : findRoot S P innerFuel outerFuel ev0 init mask 0 = .returned st) : st.iters = 0 := by
  have := (outer_bounded S P innerFuel outerFuel ev0 init mask 0).1 st h
  omega

/-- **accepted_steps_finite.** Every step the fixed line search accepts is finite and non-zero. -/
theorem accepted_steps_finite (S : Scalar V) (P : Problem V) (innerFuel outerFuel : Nat)
    (ev0 init : Assign V) (mask : List Var) (gas : Nat) (st : St V)
    (h : findRoot S P innerFuel outerFuel ev0 init mask gas = .returned st) :
    ∀ e ∈ st.log, S.isFinite e.step = true ∧ S.isZero e.step = false := by
  let I : St V → Prop := fun s => ∀ e ∈ s.log, S.isFinite e.step = true ∧ S.isZero e.step = false
  have key := outer_ind S P innerFuel I I (fun _ h => h) (fun _ h => h) (fun _ h => h)
    (fun _ _ _ _ h _ _ _ => h)
    (by
      intro s a hI _ _ hls
      obtain ⟨_, _, _, _, _, _, _, h8, h9⟩ := lineSearch_accepted S P _ _ _ _ _ _ _ _ _ a hls
      intro e he
      rcases List.mem_cons.mp he with rfl | he
      · exact ⟨h8, h9⟩
      · exact hI e he)
    outerFuel (initSt S P ev0 init mask gas) (fun _ he => by cases he)
  exact key.1 st h

/-- **absent_untouched.** A variable whose gradient component is never non-zero (it does not occur
    in the expression — `grad` has no entry for it — or only behind const-vars — the entry is
    zero) keeps its initial value, unconditionally: the update is `v - step*0` and the guard makes
    every accepted `step` finite (law `subMul_zero`; on IEEE singles `-0 - (-0)` is `+0`, i.e. the
    value is kept up to the sign of a zero). -/
theorem absent_untouched (S : Scalar V) (bound : V → Nat) (L : Laws S bound)
    (P : Problem V) (innerFuel outerFuel : Nat)
    (ev0 init : Assign V) (mask : List Var) (gas : Nat) (st : St V)
    (h : findRoot S P innerFuel outerFuel ev0 init mask gas = .returned st)
    (x : Var)
    (hgrad : ∀ ev, (P.grad ev).lookup x = none ∨ (P.grad ev).lookup x = some S.zero) :
    st.vars.lookup x = (unmasked init mask).lookup x := by
  let v0 := (unmasked init mask).lookup x
  let I : St V → Prop := fun s => dsAt S s.ds x = S.zero ∧ s.vars.lookup x = v0
  have key := outer_ind S P innerFuel I I (fun _ h => h) (fun _ h => ⟨h.1, h.2⟩)
    (fun s h => ⟨dsAt_load S s.ds _ x h.1 (hgrad s.ev), h.2⟩)
    (fun s _ _ _ h _ _ _ => ⟨dsAt_load S s.ds _ x h.1 (hgrad s.ev), h.2⟩)
    (by
      intro s a hI _ _ hls
      obtain ⟨h1, _, _, _, _, _, _, h8, _⟩ := lineSearch_accepted S P _ _ _ _ _ _ _ _ _ a hls
      have hds := dsAt_load S s.ds _ x hI.1 (hgrad s.ev)
      refine ⟨hds, ?_⟩
      show a.vars.lookup x = v0
      rw [h1, lookup_stepVars, hds, ← hI.2]
      cases s.vars.lookup x with
      | none => rfl
      | some v => simp [L.subMul_zero v a.step h8])
    outerFuel (initSt S P ev0 init mask gas)
    ⟨dsAt_init S _ x, rfl⟩
  exact (key.1 st h).2

/-- **inner_terminates.** For EVERY first step, evaluator, gradient and state, the line search is
    over (accepted or gave up) within `bound step + 1` trials if the step is finite (for `FVal`:
    its bit length; for IEEE single ≤ 278) and within one trial otherwise. Uses only the laws
    `half_finite` and `halves_to_zero`. -/
theorem inner_terminates (S : Scalar V) (bound : V → Nat) (L : Laws S bound) (P : Problem V)
    (r slope : V) (ds vars ev cur : Assign V) (step : V) (fuel : Nat)
    (hfuel : (if S.isFinite step then bound step else 0) + 1 ≤ fuel) :
    (lineSearch S P r slope ds vars ev fuel 0 step cur).isOutOfFuel = false :=
  lineSearch_done S bound L P r slope ds vars ev fuel 0 step cur hfuel

/-- **findRoot_never_hangs.** A `.hung` outcome is an artefact of too little model fuel: it can
    only happen if the inner fuel is at most the halving bound of that iteration's first step. -/
theorem findRoot_never_hangs (S : Scalar V) (bound : V → Nat) (L : Laws S bound) (P : Problem V)
    (innerFuel outerFuel : Nat) (ev0 init : Assign V) (mask : List Var) (gas : Nat)
    (st : St V) (s : V) (n : Nat)
    (h : findRoot S P innerFuel outerFuel ev0 init mask gas = .hung st s n) :
    innerFuel ≤ (if S.isFinite (S.div st.r (slopeOf S st.ds)) then bound (S.div st.r (slopeOf S st.ds)) else 0) := by
  have key := outer_ind S P innerFuel (fun _ => True) (fun _ => True) (fun _ _ => trivial)
    (fun _ _ => trivial) (fun _ _ => trivial) (fun _ _ _ _ _ _ _ _ => trivial)
    (fun _ _ _ _ _ _ => trivial) outerFuel (initSt S P ev0 init mask gas) trivial
  have hls := (key.2 st s n h).2
  by_cases hle : innerFuel ≤ (if S.isFinite (S.div st.r (slopeOf S st.ds)) then bound (S.div st.r (slopeOf S st.ds)) else 0)
  · exact hle
  · have := lineSearch_done S bound L P st.r (slopeOf S st.ds) st.ds st.vars st.ev innerFuel 0
      (S.div st.r (slopeOf S st.ds)) st.ev (by omega)
    rw [hls] at this
    cases this

/-- **findRoot_terminates.** With inner fuel above the scalar's halving bound (278 suffices for
    IEEE single) and outer fuel `≥ max gas 1`, every call RETURNS — for every expression, initial
    assignment (NaN, ±∞, -0 included), mask and budget; by `outer_bounded` after at most `gas - 1`
    loop bodies, each (by `inner_terminates`) with at most `innerFuel` evaluations. -/
theorem findRoot_terminates (S : Scalar V) (bound : V → Nat) (L : Laws S bound) (P : Problem V)
    (innerFuel outerFuel : Nat) (ev0 init : Assign V) (mask : List Var) (gas : Nat)
    (hin : ∀ s, bound s < innerFuel) (hout : gas ≤ outerFuel) (hout1 : 1 ≤ outerFuel) :
    ∃ st, findRoot S P innerFuel outerFuel ev0 init mask gas = .returned st := by
  cases hres : findRoot S P innerFuel outerFuel ev0 init mask gas with
  | returned st => exact ⟨st, rfl⟩
  | hung st s n =>
    have h1 := findRoot_never_hangs S bound L P innerFuel outerFuel ev0 init mask gas st s n hres
    have h2 := hin (S.div st.r (slopeOf S st.ds))
    split at h1 <;> omega
  | outerFuel st =>
    exact absurd hres (outer_no_outerFuel S P innerFuel outerFuel (initSt S P ev0 init mask gas) hout hout1 st)

/-! ### the former witnesses, on the fixed model (FVal) -/

/-- the value of variable 0 in the evaluator's slots -/
def v0 (ev : Assign FVal) : FVal := (ev.lookup 0).getD FVal.nan

/-- `1 / v` : the probe target of DESIGN §7 -/
def recipP : Problem FVal where
  value := fun ev => FVal.div (FVal.ofInt 1) (v0 ev)
  grad := fun ev => [(0, FVal.neg (FVal.div (FVal.ofInt 1) (FVal.mul (v0 ev) (v0 ev))))]

/-- `sqrt(v) + 1` at `v = 0` abstracted: value 1 at 0, NaN at NaN, gradient +∞ at 0. -/
def infGradP : Problem FVal where
  value := fun ev => match v0 ev with
    | FVal.fin 0 => FVal.ofInt 1
    | _ => FVal.nan
  grad := fun ev => match v0 ev with
    | FVal.fin 0 => [(0, FVal.pinf)]
    | _ => [(0, FVal.nan)]

/-- `∞ + 2^-12 · v` with a second variable (1) that does not occur -/
def infResP : Problem FVal where
  value := fun ev => FVal.add FVal.pinf (FVal.mul (FVal.fin 268435456) (v0 ev))
  grad := fun _ => [(0, FVal.fin 268435456)]

/-- `-1 - v²`: no root, negative residual -/
def noRootP : Problem FVal where
  value := fun ev => FVal.sub (FVal.ofInt (-1)) (FVal.mul (v0 ev) (v0 ev))
  grad := fun ev => [(0, FVal.mul (FVal.ofInt (-2)) (v0 ev))]

/-- `findRoot(1/v, v = 0, gas = 100)` now returns after one loop body: step = NaN, give-up,
    residual +∞ and `v = 0` reported unchanged. -/
theorem recip_pole_returns :
    (findRoot FVal.scalar recipP 5 5 [(0, FVal.fin 0)] [(0, FVal.fin 0)] [] 100).st?.map
        (fun st => (st.vars, st.r, st.iters, st.gaveUp)) = some ([(0, FVal.fin 0)], FVal.pinf, 1, true) := by
  decide

/-- zero step with infinite gradient: gives up, nothing changed -/
theorem inf_gradient_returns :
    (findRoot FVal.scalar infGradP 5 5 [(0, FVal.fin 0)] [(0, FVal.fin 0)] [] 100).st?.map
        (fun st => (st.vars, st.r, st.iters, st.gaveUp)) = some ([(0, FVal.fin 0)], FVal.ofInt 1, 1, true) := by
  decide

/-- infinite residual, small finite gradient (formerly: step ∞ accepted, absent variable → NaN):
    gives up, both variables keep their values -/
theorem inf_residual_returns :
    (findRoot FVal.scalar infResP 5 5 [(0, FVal.fin 0)] [(0, FVal.fin 0), (1, FVal.ofInt 1)] [] 10).st?.map
        (fun st => (st.vars, st.r, st.log.length)) = some ([(0, FVal.fin 0), (1, FVal.ofInt 1)], FVal.pinf, 0) := by
  decide

/-- budget 0: no iteration -/
theorem gas_zero_returns_initial :
    (findRoot FVal.scalar noRootP 5 5 [(0, FVal.fin 0)] [(0, FVal.ofInt 1)] [] 0).st?.map
        (fun st => (st.iters, st.vars)) = some (0, [(0, FVal.ofInt 1)]) := by
  decide

/-! ### pre-fix: the refuted claims about `lineSearchOld` (solver.cpp before 4e85339) -/

/-- **old_inner_diverges.** In the PRE-FIX line search a step that halving does not change (NaN,
    ±∞, 0) at which the exit test fails is never left. -/
theorem old_inner_diverges (S : Scalar V) (P : Problem V) (r slope : V) (ds vars ev : Assign V) (step : V)
    (hfix : S.half step = step)
    (hno : exitTest S r slope step (P.value (load ev (stepVars S vars ds step))) = false) :
    ∀ fuel, ∃ m, lineSearchOld S P r slope ds vars ev fuel 0 step = .outOfFuel step m :=
  fun fuel => ⟨_, lineSearchOld_fixed_point S P r slope ds vars ev step hfix hno fuel 0⟩

/-- For `FVal`: a non-finite step whose trial residual is NaN could only be left through
    `slope < EPSILON`. -/
theorem old_inner_diverges_nonfinite (P : Problem FVal) (r slope : FVal) (ds vars ev : Assign FVal)
    (step : FVal) (hstep : FVal.isFinite step = false)
    (hnan : P.value (load ev (stepVars FVal.scalar vars ds step)) = FVal.nan)
    (hslope : FVal.lt slope FVal.eps = false) :
    ∀ fuel, ∃ m, lineSearchOld FVal.scalar P r slope ds vars ev fuel 0 step = .outOfFuel step m := by
  apply old_inner_diverges
  · cases step <;> simp [FVal.isFinite] at hstep <;> rfl
  · rw [hnan]
    have h1 : FVal.sub r FVal.nan = FVal.nan := by cases r <;> rfl
    have h2 : ∀ s, FVal.div FVal.nan s = FVal.nan := by intro s; cases s <;> rfl
    have h3 : ∀ s, FVal.geHalf FVal.nan s = false := by intro s; cases s <;> rfl
    show (FVal.geHalf (FVal.div (FVal.sub r FVal.nan) step) slope ||
      FVal.lt (FVal.abs (FVal.sub r FVal.nan)) FVal.eps || FVal.lt slope FVal.eps ||
      FVal.lt FVal.nan FVal.eps) = false
    rw [h1, h2, h3, hslope]
    rfl

/-- **old_inner_not_total.** The pre-fix line search did not always end (`1/v` at `v = 0`). -/
theorem old_inner_not_total :
    ¬ ∀ (P : Problem FVal) (r slope : FVal) (ds vars ev : Assign FVal) (step : FVal),
        ∃ fuel a, lineSearchOld FVal.scalar P r slope ds vars ev fuel 0 step = .accepted a := by
  intro hall
  obtain ⟨fuel, a, h⟩ := hall recipP FVal.pinf FVal.pinf [(0, FVal.ninf)] [(0, FVal.fin 0)]
    [(0, FVal.fin 0)] FVal.nan
  obtain ⟨m, hm⟩ := old_inner_diverges_nonfinite recipP FVal.pinf FVal.pinf [(0, FVal.ninf)] [(0, FVal.fin 0)]
    [(0, FVal.fin 0)] FVal.nan rfl (by decide) (by decide) fuel
  rw [hm] at h
  cases h

/-- **old_zero_step_hang**: pre-fix, finite zero step with infinite gradient (`0·∞ = NaN`). -/
theorem old_zero_step_hang : ∀ fuel, ∃ m,
    lineSearchOld FVal.scalar infGradP (FVal.ofInt 1) FVal.pinf [(0, FVal.pinf)] [(0, FVal.fin 0)]
      [(0, FVal.fin 0)] fuel 0 (FVal.div (FVal.ofInt 1) FVal.pinf) = .outOfFuel (FVal.fin 0) m := by
  have : FVal.div (FVal.ofInt 1) FVal.pinf = FVal.fin 0 := by decide
  rw [this]
  exact old_inner_diverges FVal.scalar infGradP _ _ _ _ _ (FVal.fin 0) (by decide) (by decide)

/-! ### the hypotheses are satisfiable -/

/-- `v² - 4` from `v = 3`: a run with finite steps that returns -/
def quadP : Problem FVal where
  value := fun ev => FVal.sub (FVal.mul (v0 ev) (v0 ev)) (FVal.ofInt 4)
  grad := fun ev => [(0, FVal.mul (FVal.ofInt 2) (v0 ev))]

def quadRun : Outcome FVal :=
  findRoot FVal.scalar quadP 60 10 [(0, FVal.fin 0), (2, FVal.fin 0)]
    [(0, FVal.ofInt 3), (1, FVal.ofInt 7), (2, FVal.ofInt 5)] [2] 3

-- the run returns (hypothesis `h` of residual_is_value / mask_untouched / outer_bounded / absent_untouched) …
example : (quadRun.st?).isSome = true := by decide
-- … after 2 = gas - 1 iterations (outer_bounded is tight), without a give-up …
example : ((quadRun.st?).map fun st => (st.iters, st.gaveUp)) = some (2, false) := by decide
-- … variable 1 (no gradient entry: hypothesis `hgrad`) kept its value 7, masked variable 2 is not returned
example : ∀ ev, (quadP.grad ev).lookup 1 = none ∨ (quadP.grad ev).lookup 1 = some FVal.scalar.zero :=
  fun _ => Or.inl rfl
example : ((quadRun.st?).map fun st => st.vars.lookup 1) = some (some (FVal.ofInt 7)) := by decide
example : ((quadRun.st?).map fun st => keys st.vars) = some [0, 1] := by decide
-- the scalar laws have a model with NaN and ±∞ …
example : Laws FVal.scalar FVal.bound := FVal.laws
-- … and the uniform halving bound of findRoot_terminates (`hin`) is consistent with the laws (it
-- holds for IEEE single with 278; FVal has unbounded magnitudes, so the example is the one-point scalar)
def unitScalar : Scalar Unit where
  zero := (); eps := (); abs := id; sub := fun _ _ => (); div := fun _ _ => (); half := id
  sqAdd := fun _ _ => (); subMul := fun _ _ _ => (); lt := fun _ _ => true; ge := fun _ _ => false
  geHalf := fun _ _ => false; isFinite := fun _ => true; isZero := fun _ => true
example : Laws unitScalar (fun _ => 0) :=
  ⟨fun _ _ _ => rfl, fun _ _ _ _ _ => rfl, fun _ _ => rfl, fun _ _ => rfl, fun _ _ => rfl, fun _ _ _ => rfl⟩
example : ∀ s : Unit, (fun _ => 0) s < 1 := fun _ => Nat.zero_lt_one
-- hypothesis of inner_terminates for the first step of quadRun (r = 5, slope = 36): 38 trials suffice
example : (if FVal.isFinite (FVal.div (FVal.ofInt 5) (FVal.ofInt 36))
    then FVal.bound (FVal.div (FVal.ofInt 5) (FVal.ofInt 36)) else 0) + 1 ≤ 60 := by decide
-- hypotheses of old_inner_diverges: NaN is a fixed point of halving and fails the exit test for 1/v at 0
example : FVal.scalar.half FVal.nan = FVal.nan := rfl
example : exitTest FVal.scalar FVal.pinf FVal.pinf FVal.nan
    (recipP.value (load [(0, FVal.fin 0)] (stepVars FVal.scalar [(0, FVal.fin 0)] [(0, FVal.ninf)] FVal.nan))) = false := by
  decide

end Libfive.C17
