/-
  C17 — The root finder reports what it actually reached.
  Property theorems only (model: LibfiveModel/Solver.lean, helper lemmas: LibfiveProofs/Solver.lean).

  All theorems quantify over every scalar interpretation `S`, every evaluator `P` (arbitrary
  `value` / `grad` functions), every initial slot state `ev0`, initial assignment `init`, mask,
  budget `gas` and every amount of model fuel.  `FVal` (nan | ninf | fin n | pinf) is used for the
  concrete witnesses, so the negative results speak about NaN and ±∞.
-/
import LibfiveProofs.Solver

namespace Libfive.C17

open Libfive.Solver

variable {V : Type}

/-- the variables `findRoot` iterates on: the initial assignment minus the mask -/
def unmasked (init : Assign V) (mask : List Var) : Assign V :=
  init.filter fun p => !mask.contains p.1

/-- **residual_is_value.** On every exit path (converged / small residual / out of gas / all
    gradients small) the returned residual is the evaluator's value with its variable slots holding
    the initial values overwritten by the returned assignment — i.e. an independent evaluation at
    the returned assignment (masked variables at their initial values) reproduces it — and the
    evaluator is left in exactly that state. -/
theorem residual_is_value (S : Scalar V) (P : Problem V) (innerFuel outerFuel : Nat)
    (ev0 init : Assign V) (mask : List Var) (gas : Nat) (st : St V)
    (h : findRoot S P innerFuel outerFuel ev0 init mask gas = .returned st) :
    st.r = P.value (load (load ev0 init) st.vars) ∧
    st.ev = load (load ev0 init) st.vars ∧
    keys st.vars = keys (unmasked init mask) := by
  let E := load ev0 init
  let K := keys (unmasked init mask)
  let I : St V → Prop := fun s => s.ev = load E s.vars ∧ s.r = P.value s.ev ∧ keys s.vars = K
  have key := outer_ind S P innerFuel I I (fun _ h => h) (fun _ h _ => h) (fun _ h _ => h)
    (by
      intro s a hI _ _ hls
      obtain ⟨h1, h2, h3, _, _, _, _⟩ := lineSearch_accepted S P _ _ _ _ _ _ _ _ a hls
      obtain ⟨i1, _, i3⟩ := hI
      have hk : keys a.vars = keys s.vars := by rw [h1, keys_stepVars]
      refine ⟨?_, h3, by rw [hk]; exact i3⟩
      show a.ev = load E a.vars
      rw [h2, i1, load_load]
      intro x hx
      rw [hk]; exact hx)
    outerFuel (initSt S P ev0 init mask gas)
    (by
      refine ⟨?_, rfl, rfl⟩
      show load ev0 init = load (load ev0 init) (init.filter fun p => !mask.contains p.1)
      exact (load_filter_self ev0 init (fun k => !mask.contains k)).symm)
  obtain ⟨i1, i2, i3⟩ := key.1 st h
  exact ⟨by rw [i2, i1], i1, i3⟩

theorem mem_keys_filter (a : Assign V) (q : Var → Bool) (x : Var)
    (h : x ∈ keys (a.filter fun p => q p.1)) : q x = true := by
  simp only [keys, List.mem_map, List.mem_filter] at h
  obtain ⟨p, ⟨_, hq⟩, rfl⟩ := h
  exact hq

/-- **mask_untouched.** A masked variable is not in the returned solution, and the evaluator's
    slot for it still holds its initial value (it was loaded once and never written again). -/
theorem mask_untouched (S : Scalar V) (P : Problem V) (innerFuel outerFuel : Nat)
    (ev0 init : Assign V) (mask : List Var) (gas : Nat) (st : St V)
    (h : findRoot S P innerFuel outerFuel ev0 init mask gas = .returned st)
    (x : Var) (hx : x ∈ mask) :
    x ∉ keys st.vars ∧ st.ev.lookup x = (load ev0 init).lookup x := by
  obtain ⟨_, h2, h3⟩ := residual_is_value S P innerFuel outerFuel ev0 init mask gas st h
  have hnot : x ∉ keys st.vars := by
    rw [h3]
    intro hm
    have := mem_keys_filter init (fun k => !mask.contains k) x hm
    simp at this
    exact this hx
  refine ⟨hnot, ?_⟩
  rw [h2, lookup_load, lookup_eq_none_of_not_mem_keys st.vars x hnot]
  cases (load ev0 init).lookup x <;> rfl

/-- **outer_bounded.** Whatever happens inside, the outer loop performs at most `decGas gas`
    iterations: `gas - 1` for `gas ≥ 1` — and `2^32 - 1` for `gas = 0`, because `--gas` wraps
    (see `gas_zero_iterates`). Holds for returned and for hung outcomes. -/
theorem outer_bounded (S : Scalar V) (P : Problem V) (innerFuel outerFuel : Nat)
    (ev0 init : Assign V) (mask : List Var) (gas : Nat) :
    (∀ st, findRoot S P innerFuel outerFuel ev0 init mask gas = .returned st → st.iters ≤ decGas gas) ∧
    (∀ st s n, findRoot S P innerFuel outerFuel ev0 init mask gas = .hung st s n → st.iters ≤ decGas gas) := by
  let I : St V → Prop := fun s =>
    (s.iters = 0 ∧ s.gas = gas) ∨ (1 ≤ s.gas ∧ s.iters + s.gas = decGas gas + 1)
  let Q : St V → Prop := fun s => s.iters ≤ decGas gas
  have hQ : ∀ s, I s → Q s := by
    intro s hI
    show s.iters ≤ decGas gas
    rcases hI with ⟨h0, _⟩ | ⟨h1, h2⟩ <;> omega
  exact outer_ind S P innerFuel I Q hQ (fun s hI _ => hQ s hI) (fun s hI _ => hQ s hI)
    (by
      intro s a hI _ hg _
      show (s.iters + 1 = 0 ∧ decGas s.gas = gas) ∨
        (1 ≤ decGas s.gas ∧ s.iters + 1 + decGas s.gas = decGas gas + 1)
      right
      rcases hI with ⟨h0, h1⟩ | ⟨h1, h2⟩
      · rw [h1] at hg ⊢; omega
      · have : decGas s.gas = s.gas - 1 := by unfold decGas; split <;> omega
        rw [this] at hg ⊢; omega)
    outerFuel (initSt S P ev0 init mask gas) (Or.inl ⟨rfl, rfl⟩)

/-- For a positive budget: at most `gas - 1` iterations. -/
theorem outer_bounded_pos (S : Scalar V) (P : Problem V) (innerFuel outerFuel : Nat)
    (ev0 init : Assign V) (mask : List Var) (gas : Nat) (hg : 1 ≤ gas) (st : St V)
    (h : findRoot S P innerFuel outerFuel ev0 init mask gas = .returned st) : st.iters + 1 ≤ gas := by
  have := (outer_bounded S P innerFuel outerFuel ev0 init mask gas).1 st h
  unfold decGas at this
  split at this <;> omega

/-- **absent_untouched_partial.** A variable whose gradient component is never non-zero (it does
    not occur in the expression — `grad` has no entry for it — or only behind const-vars — the
    entry is zero) keeps its initial value, PROVIDED every accepted step was finite: the update is
    `v - step*0`, which is `v` only for finite `step` (law `subMul_zero`).
    Full statement (false on this tree, see `absent_touched_nonfinite`): the same without the
    finiteness hypothesis. -/
theorem absent_untouched_partial (S : Scalar V) (bound : V → Nat) (L : Laws S bound)
    (P : Problem V) (innerFuel outerFuel : Nat)
    (ev0 init : Assign V) (mask : List Var) (gas : Nat) (st : St V)
    (h : findRoot S P innerFuel outerFuel ev0 init mask gas = .returned st)
    (x : Var)
    (hgrad : ∀ ev, (P.grad ev).lookup x = none ∨ (P.grad ev).lookup x = some S.zero)
    (hfin : ∀ e ∈ st.log, S.isFinite e.step = true) :
    st.vars.lookup x = (unmasked init mask).lookup x := by
  let v0 := (unmasked init mask).lookup x
  let I : St V → Prop := fun s =>
    dsAt S s.ds x = S.zero ∧ ((∀ e ∈ s.log, S.isFinite e.step = true) → s.vars.lookup x = v0)
  have key := outer_ind S P innerFuel I I (fun _ h => h) (fun _ h _ => ⟨h.1, h.2⟩)
    (fun s h _ => ⟨dsAt_load S s.ds _ x h.1 (hgrad s.ev), h.2⟩)
    (by
      intro s a hI _ _ hls
      obtain ⟨h1, _, _, _, _, _, _⟩ := lineSearch_accepted S P _ _ _ _ _ _ _ _ a hls
      have hds := dsAt_load S s.ds _ x hI.1 (hgrad s.ev)
      refine ⟨hds, ?_⟩
      intro hall
      show a.vars.lookup x = v0
      have hstep : S.isFinite a.step = true := hall _ (List.mem_cons_self ..)
      have hrest : ∀ e ∈ s.log, S.isFinite e.step = true := fun e he => hall e (List.mem_cons_of_mem _ he)
      rw [h1, lookup_stepVars, hds, ← hI.2 hrest]
      cases s.vars.lookup x with
      | none => rfl
      | some v => simp [L.subMul_zero v a.step hstep])
    outerFuel (initSt S P ev0 init mask gas)
    ⟨dsAt_init S _ x, fun _ => rfl⟩
  exact (key.1 st h).2 hfin

/-- **inner_terminates_partial.** If the first step `r / slope` is finite and every gradient
    component in use is finite, the line search started from a consistent state (`r` is the value
    at the evaluator's slots, which hold `vars`) ends after at most `bound (r/slope)` halvings
    (for `FVal`: the bit length of the step; for IEEE single: ≤ 278): the step underflows to zero,
    the trial point is then the current point, `diff = 0` and `fabs(diff) < EPSILON` fires.
    Full statement (false on this tree, see `inner_not_total`): the same for every step. -/
theorem inner_terminates_partial (S : Scalar V) (bound : V → Nat) (L : Laws S bound) (P : Problem V)
    (r slope : V) (ds vars ev : Assign V)
    (hstep : S.isFinite (S.div r slope) = true)
    (hd : ∀ p ∈ vars, S.isFinite (dsAt S ds p.1) = true)
    (hrv : r = P.value ev) (hev : load ev vars = ev) :
    ∃ a, lineSearch S P r slope ds vars ev (bound (S.div r slope) + 1) 0 (S.div r slope) = .accepted a ∧
      a.halvings ≤ bound (S.div r slope) := by
  have hr := L.div_finite r slope hstep
  obtain ⟨a, h1, h2⟩ := lineSearch_terminates_aux S bound L P r slope ds vars ev hr hrv hev hd
    (bound (S.div r slope)) 0 (S.div r slope) (L.halves_to_zero _ hstep)
  exact ⟨a, h1, by omega⟩

/-- The consistency hypotheses of `inner_terminates_partial` hold at every loop head of
    `findRoot` (this is the invariant behind `residual_is_value`). -/
theorem loop_state_consistent (S : Scalar V) (P : Problem V) (innerFuel outerFuel : Nat)
    (ev0 init : Assign V) (mask : List Var) (gas : Nat) :
    (∀ st, findRoot S P innerFuel outerFuel ev0 init mask gas = .returned st →
      st.r = P.value st.ev ∧ load st.ev st.vars = st.ev) ∧
    (∀ st s n, findRoot S P innerFuel outerFuel ev0 init mask gas = .hung st s n →
      st.r = P.value st.ev ∧ load st.ev st.vars = st.ev) := by
  let E := load ev0 init
  let I : St V → Prop := fun s => s.ev = load E s.vars ∧ s.r = P.value s.ev
  have hQ : ∀ s : St V, I s → s.r = P.value s.ev ∧ load s.ev s.vars = s.ev := by
    intro s ⟨h1, h2⟩
    refine ⟨h2, ?_⟩
    rw [h1, load_load]
    exact fun _ hx => hx
  exact outer_ind S P innerFuel I (fun s => s.r = P.value s.ev ∧ load s.ev s.vars = s.ev)
    hQ (fun s hI _ => hQ _ hI) (fun s hI _ => hQ _ hI)
    (by
      intro s a hI _ _ hls
      obtain ⟨h1, h2, h3, _, _, _, _⟩ := lineSearch_accepted S P _ _ _ _ _ _ _ _ a hls
      have hk : keys a.vars = keys s.vars := by rw [h1, keys_stepVars]
      refine ⟨?_, h3⟩
      show a.ev = load E a.vars
      rw [h2, hI.1, load_load]
      intro x hx
      rw [hk]; exact hx)
    outerFuel (initSt S P ev0 init mask gas)
    ⟨(load_filter_self ev0 init (fun k => !mask.contains k)).symm, rfl⟩

/-- **inner_diverges.** A step that halving does not change (NaN, ±∞ — and 0) at which the exit
    test fails is never left: the line search does not end for any amount of fuel. -/
theorem inner_diverges (S : Scalar V) (P : Problem V) (r slope : V) (ds vars ev : Assign V) (step : V)
    (hfix : S.half step = step)
    (hno : exitTest S r slope step (P.value (load ev (stepVars S vars ds step))) = false) :
    ∀ fuel, ∃ m, lineSearch S P r slope ds vars ev fuel 0 step = .outOfFuel step m :=
  fun fuel => ⟨_, lineSearch_fixed_point S P r slope ds vars ev step hfix hno fuel 0⟩

/-- For `FVal`: a non-finite step whose trial residual is NaN can only be left through
    `slope < EPSILON` — none of the other three exit conditions can fire. -/
theorem inner_diverges_nonfinite (P : Problem FVal) (r slope : FVal) (ds vars ev : Assign FVal)
    (step : FVal) (hstep : FVal.isFinite step = false)
    (hnan : P.value (load ev (stepVars FVal.scalar vars ds step)) = FVal.nan)
    (hslope : FVal.lt slope FVal.eps = false) :
    ∀ fuel, ∃ m, lineSearch FVal.scalar P r slope ds vars ev fuel 0 step = .outOfFuel step m := by
  apply inner_diverges
  · cases step <;> simp [FVal.isFinite] at hstep <;> rfl
  · rw [hnan]
    have h1 : FVal.sub r FVal.nan = FVal.nan := by cases r <;> rfl
    have h2 : ∀ s, FVal.div FVal.nan s = FVal.nan := by intro s; cases s <;> rfl
    have h3 : ∀ s, FVal.geHalf FVal.nan s = false := by intro s; cases s <;> rfl
    show (FVal.geHalf (FVal.div (FVal.sub r FVal.nan) step) slope ||
      FVal.lt (FVal.abs (FVal.sub r FVal.nan)) FVal.eps || FVal.lt slope FVal.eps ||
      FVal.lt FVal.nan FVal.eps) = false
    rw [h1, h2, h3, hslope]
    rfl

/-! ### concrete witnesses (FVal) -/

/-- the value of variable 0 in the evaluator's slots -/
def v0 (ev : Assign FVal) : FVal := (ev.lookup 0).getD FVal.nan

/-- `1 / v` : the probe target of DESIGN §7 -/
def recipP : Problem FVal where
  value := fun ev => FVal.div (FVal.ofInt 1) (v0 ev)
  grad := fun ev => [(0, FVal.neg (FVal.div (FVal.ofInt 1) (FVal.mul (v0 ev) (v0 ev))))]

/-- **findRoot_not_total** (the defect): `findRoot(1/v, v = 0, gas = 100)` never returns — for
    every amount of fuel given to the line search the model is stuck in outer iteration 0 with
    step = NaN (∞/∞), all four exit comparisons false. -/
theorem findRoot_not_total : ∀ innerFuel outerFuel,
    (findRoot FVal.scalar recipP innerFuel (outerFuel + 1) [(0, FVal.fin 0)] [(0, FVal.fin 0)] [] 100).hungAt
      = some 0 := by
  intro innerFuel outerFuel
  obtain ⟨m, hm⟩ := inner_diverges_nonfinite recipP FVal.pinf FVal.pinf [(0, FVal.ninf)] [(0, FVal.fin 0)]
    [(0, FVal.fin 0)] FVal.nan rfl (by decide) (by decide) innerFuel
  exact outer_hung FVal.scalar recipP innerFuel outerFuel
    (initSt FVal.scalar recipP [(0, FVal.fin 0)] [(0, FVal.fin 0)] [] 100) FVal.nan m
    rfl (by decide) (by decide) (by decide) hm

/-- **inner_not_total.** The unrestricted termination claim is false: not every line search ends. -/
theorem inner_not_total :
    ¬ ∀ (P : Problem FVal) (r slope : FVal) (ds vars ev : Assign FVal) (step : FVal),
        ∃ fuel a, lineSearch FVal.scalar P r slope ds vars ev fuel 0 step = .accepted a := by
  intro hall
  obtain ⟨fuel, a, h⟩ := hall recipP FVal.pinf FVal.pinf [(0, FVal.ninf)] [(0, FVal.fin 0)]
    [(0, FVal.fin 0)] FVal.nan
  obtain ⟨m, hm⟩ := inner_diverges_nonfinite recipP FVal.pinf FVal.pinf [(0, FVal.ninf)] [(0, FVal.fin 0)]
    [(0, FVal.fin 0)] FVal.nan rfl (by decide) (by decide) fuel
  rw [hm] at h
  cases h

/-- `sqrt(v) + 1` at `v = 0` abstracted: value 1 at 0, NaN at NaN, gradient +∞ at 0.
    Finite residual, infinite gradient: slope = ∞, step = 1/∞ = 0, trial point `0 - 0·∞ = NaN`. -/
def infGradP : Problem FVal where
  value := fun ev => match v0 ev with
    | FVal.fin 0 => FVal.ofInt 1
    | _ => FVal.nan
  grad := fun ev => match v0 ev with
    | FVal.fin 0 => [(0, FVal.pinf)]
    | _ => [(0, FVal.nan)]

/-- **zero_step_hang**: the same non-termination with a *zero* step: the step is finite, but the
    gradient is not (hypothesis `hd` of `inner_terminates_partial` fails), `0·∞ = NaN`. -/
theorem zero_step_hang : ∀ fuel, ∃ m,
    lineSearch FVal.scalar infGradP (FVal.ofInt 1) FVal.pinf [(0, FVal.pinf)] [(0, FVal.fin 0)]
      [(0, FVal.fin 0)] fuel 0 (FVal.div (FVal.ofInt 1) FVal.pinf) = .outOfFuel (FVal.fin 0) m := by
  have : FVal.div (FVal.ofInt 1) FVal.pinf = FVal.fin 0 := by decide
  rw [this]
  exact inner_diverges FVal.scalar infGradP _ _ _ _ _ (FVal.fin 0) (by decide) (by decide)

/-- `∞ + 2^-12 · v` with a second variable (1) that does not occur: infinite residual, small
    finite gradient. -/
def infResP : Problem FVal where
  value := fun ev => FVal.add FVal.pinf (FVal.mul (FVal.fin 268435456) (v0 ev))
  grad := fun _ => [(0, FVal.fin 268435456)]

/-- **absent_touched_nonfinite** (the finiteness hypothesis of `absent_untouched_partial` is
    needed): residual ∞, gradient 2^-12 ⇒ slope 2^-24 < EPSILON, step = ∞ is accepted at once
    (`slope < EPSILON`), the call RETURNS, and the absent variable 1 has become NaN (`w - ∞·0`). -/
theorem absent_touched_nonfinite :
    (findRoot FVal.scalar infResP 5 5 [(0, FVal.fin 0)] [(0, FVal.fin 0), (1, FVal.ofInt 1)] [] 10).st?.map
        (fun st => (st.vars, st.r, st.iters, st.log.map (·.step)))
      = some ([(0, FVal.ninf), (1, FVal.nan)], FVal.nan, 1, [FVal.pinf]) := by
  decide

/-- `-1 - v²`: no root, negative residual -/
def noRootP : Problem FVal where
  value := fun ev => FVal.sub (FVal.ofInt (-1)) (FVal.mul (v0 ev) (v0 ev))
  grad := fun ev => [(0, FVal.mul (FVal.ofInt (-2)) (v0 ev))]

/-- **gas_zero_iterates** (second defect): with budget `gas = 0` the loop test `--gas` wraps to
    2^32 - 1 and iterations are performed: from `v = 1` one step to `v = 0` is taken (where the
    gradient vanishes and the loop breaks). `outer_bounded` only gives `2^32 - 1` here. -/
theorem gas_zero_iterates :
    (findRoot FVal.scalar noRootP 5 5 [(0, FVal.fin 0)] [(0, FVal.ofInt 1)] [] 0).st?.map
        (fun st => (st.iters, st.vars)) = some (1, [(0, FVal.fin 0)]) := by
  decide

/-! ### the proposed repair (proposed_fixes/C17-linesearch-nonfinite-step.patch) -/

/-- The line search with the proposed guard at the top of its body:
    `if (!std::isfinite(step) || step == 0) { converged = true; break; }` — `none` = gave up
    (variables and residual unchanged). -/
def lineSearchFixed (S : Scalar V) (P : Problem V) (r slope : V) (ds vars ev : Assign V) :
    Nat → Nat → V → Option (LS V)
  | 0, n, step => some (.outOfFuel step n)
  | fuel + 1, n, step =>
    if !S.isFinite step || S.isZero step then none else
    let ev' := load ev (stepVars S vars ds step)
    let r_ := P.value ev'
    if exitTest S r slope step r_ then
      some (.accepted { converged := S.lt (S.abs (S.sub r r_)) S.eps, r := r_,
                        vars := stepVars S vars ds step, ev := ev', step := step, halvings := n })
    else lineSearchFixed S P r slope ds vars ev fuel (n + 1) (S.half step)

/-- **fixed_inner_terminates.** With the guard, the line search ends for EVERY step, evaluator
    and gradient (no finiteness or consistency hypothesis): within `bound step` halvings for a
    finite step, at once otherwise; and a step it accepts is finite and non-zero. Needs only
    `half_finite` and `halves_to_zero` of the laws. -/
theorem fixed_inner_terminates (S : Scalar V) (bound : V → Nat) (L : Laws S bound) (P : Problem V)
    (r slope : V) (ds vars ev : Assign V) (step : V) :
    ∃ fuel, fuel ≤ bound step + 1 ∧
      (lineSearchFixed S P r slope ds vars ev fuel 0 step = none ∨
       ∃ a, lineSearchFixed S P r slope ds vars ev fuel 0 step = some (.accepted a) ∧
         S.isFinite a.step = true ∧ S.isZero a.step = false) := by
  have aux : ∀ (k n : Nat) (s : V), S.isFinite s = true → S.isZero (iter S.half k s) = true →
      (lineSearchFixed S P r slope ds vars ev (k + 1) n s = none ∨
       ∃ a, lineSearchFixed S P r slope ds vars ev (k + 1) n s = some (.accepted a) ∧
         S.isFinite a.step = true ∧ S.isZero a.step = false) := by
    intro k
    induction k with
    | zero =>
      intro n s _ hz
      left
      simp only [iter] at hz
      simp [lineSearchFixed, hz]
    | succ k ih =>
      intro n s hf hz
      simp only [iter] at hz
      cases hzero : S.isZero s with
      | true => left; simp [lineSearchFixed, hzero]
      | false =>
        cases hexit : exitTest S r slope s (P.value (load ev (stepVars S vars ds s))) with
        | true =>
          right
          refine ⟨{ converged := S.lt (S.abs (S.sub r (P.value (load ev (stepVars S vars ds s))))) S.eps,
                    r := P.value (load ev (stepVars S vars ds s)), vars := stepVars S vars ds s,
                    ev := load ev (stepVars S vars ds s), step := s, halvings := n }, ?_, hf, hzero⟩
          simp [lineSearchFixed, hf, hzero, hexit]
        | false =>
          have := ih (n + 1) (S.half s) (L.half_finite s hf) hz
          simpa [lineSearchFixed, hf, hzero, hexit] using this
  cases hf : S.isFinite step with
  | false => exact ⟨1, by omega, Or.inl (by simp [lineSearchFixed, hf])⟩
  | true => exact ⟨bound step + 1, Nat.le_refl _, aux (bound step) 0 step hf (L.halves_to_zero step hf)⟩

-- the repaired search gives up on the witness of `findRoot_not_total` instead of looping
example : lineSearchFixed FVal.scalar recipP FVal.pinf FVal.pinf [(0, FVal.ninf)] [(0, FVal.fin 0)]
    [(0, FVal.fin 0)] 1 0 FVal.nan = none := by decide

/-! ### the hypotheses are satisfiable -/

/-- `v² - 4` from `v = 3`: a run with finite steps that returns -/
def quadP : Problem FVal where
  value := fun ev => FVal.sub (FVal.mul (v0 ev) (v0 ev)) (FVal.ofInt 4)
  grad := fun ev => [(0, FVal.mul (FVal.ofInt 2) (v0 ev))]

def quadRun : Outcome FVal :=
  findRoot FVal.scalar quadP 60 10 [(0, FVal.fin 0), (2, FVal.fin 0)]
    [(0, FVal.ofInt 3), (1, FVal.ofInt 7), (2, FVal.ofInt 5)] [2] 3

-- the run returns (hypothesis `h` of residual_is_value / mask_untouched / outer_bounded) …
example : (quadRun.st?).isSome = true := by decide
-- … after 2 = gas - 1 iterations (outer_bounded is tight) …
example : ((quadRun.st?).map (·.iters)) = some 2 := by decide
-- … every accepted step was finite (hypothesis `hfin` of absent_untouched_partial) and variable 1
-- (no gradient entry: hypothesis `hgrad`) kept its value 7, masked variable 2 is not returned
example : ((quadRun.st?).map fun st => st.log.all fun e => FVal.isFinite e.step) = some true := by decide
example : ∀ ev, (quadP.grad ev).lookup 1 = none ∨ (quadP.grad ev).lookup 1 = some FVal.scalar.zero :=
  fun _ => Or.inl rfl
example : ((quadRun.st?).map fun st => st.vars.lookup 1) = some (some (FVal.ofInt 7)) := by decide
example : ((quadRun.st?).map fun st => keys st.vars) = some [0, 1] := by decide
-- the scalar laws have a model
example : Laws FVal.scalar FVal.bound := FVal.laws
-- hypotheses of inner_terminates_partial at the first iteration of that run: r = 5, slope = 36
example : FVal.isFinite (FVal.div (FVal.ofInt 5) (FVal.ofInt 36)) = true := by decide
example : (lineSearch FVal.scalar quadP (FVal.ofInt 5) (FVal.ofInt 36) [(0, FVal.ofInt 6), (1, FVal.fin 0)]
    [(0, FVal.ofInt 3), (1, FVal.ofInt 7)] [(0, FVal.ofInt 3), (2, FVal.ofInt 5)] 60 0
    (FVal.div (FVal.ofInt 5) (FVal.ofInt 36))) matches .accepted _ := by decide
-- hypotheses of inner_diverges: NaN is a fixed point of halving and fails the exit test for 1/v at 0
example : FVal.scalar.half FVal.nan = FVal.nan := rfl
example : exitTest FVal.scalar FVal.pinf FVal.pinf FVal.nan
    (recipP.value (load [(0, FVal.fin 0)] (stepVars FVal.scalar [(0, FVal.fin 0)] [(0, FVal.ninf)] FVal.nan))) = false := by
  decide

end Libfive.C17
