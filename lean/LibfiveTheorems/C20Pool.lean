/-
  C20 (extension) — the build phase's ticks are complete, monotone and bounded **for the worker
  pool itself**: the join of the pool transition system of C11 (LibfiveModel/Pool.lean) with the
  tick accounting of C20 (LibfiveModel/Progress.lean).
  Property theorems only.  Tick rule: LibfiveModel/PoolTicks.lean (`tickOf`, `tickCalls`,
  `ticksIssued`, mirroring worker_pool.inl l.209–228 and l.240–252); lemmas:
  LibfiveProofs/PoolTicks.lean (`due`, `due_step`, `due_run`), on top of the cell-ownership
  invariant `Own` of LibfiveProofs/PoolProgress.lean.

  The octree shape is not an input: every `evalDone` event of the run chooses it (ambiguous only
  above level 0), every `push` hands a child to the lock-free stack or the local stack, every
  interleaving of the workers' steps is allowed.  `N` is the dimension; the pool is started with
  `n = 2^N` children per branch and a root of level `L`.
-/
import LibfiveProofs.PoolTicks

namespace Libfive.C20
open Libfive.Progress Libfive.Pool

/-- **pool_ticks_accounting** (the inductive invariant).  In every state reachable by a run of
    workers below `W` there is a cell-ownership assignment `own` (the invariant `Own` of C11) such
    that the ticks issued so far plus the ticks still owed by the created cells — `announced N l`
    for a cell of level `l` not yet evaluated, `1 + (n − kids) · announced N (l − 1)` for a branch
    that is pushing its children, `1` for a branch waiting for its children, `0` for a complete
    cell — is exactly the total `WorkerPool::build` announced. -/
theorem pool_ticks_accounting (N cap L W : Nat) (tr : List Ev) (hw : workersBelow W tr) (s : S)
    (h : run (S.init (2 ^ N) cap L) tr = some s) :
    ∃ own : Nat → Place, Own W L s own ∧
      ticksIssued N (S.init (2 ^ N) cap L) tr + due N s own = announced N L := by
  have hi := own_init W (2 ^ N) cap L
  refine ⟨_, own_run tr _ s own0 hi hw h, ?_⟩
  have := due_run (N := N) tr _ s own0 hi rfl hw h
  rw [due_init] at this
  exact this

/-- **pool_ticks_complete.**  Every run of the pool from its initial state (root of level `L`
    pushed, `2^N` children per branch) by workers below `W` that reaches `done = true` without
    cancellation has issued ticks that sum to exactly `announced N L` — the total of `total_formula`,
    what `build` passed to `nextPhase` — whatever octree shape the run chose (cells pruned at any
    level, leaves at level 0), whatever went to the local stacks, whatever the interleaving.
    The same holds for the counter after the `tick(i)` calls of the run delivered in ANY order
    (`counter += i` is atomic), so the `assert(counter == total)` of the next `nextPhase` holds. -/
theorem pool_ticks_complete (N cap L W : Nat) (tr : List Ev) (hw : workersBelow W tr) (s : S)
    (h : run (S.init (2 ^ N) cap L) tr = some s) (hd : s.done = true) (hc : s.cancel = false) :
    ticksIssued N (S.init (2 ^ N) cap L) tr = announced N L ∧
    ∀ sched : List Nat, sched.Perm (tickCalls N (S.init (2 ^ N) cap L) tr) →
      counterAfter sched = announced N L := by
  obtain ⟨own, hi, hacc⟩ := pool_ticks_accounting N cap L W tr hw s h
  have hfin := (complete_of_done hi hd hc).1
  rw [due_of_all_finished N s own hfin] at hacc
  refine ⟨by omega, ?_⟩
  intro sched hp
  rw [counterAfter_perm hp, counterAfter_eq_sum, tickCalls_sum]
  omega

/-- **pool_ticks_monotone_bounded.**  In every reachable state (finished or not, cancelled or not)
    the ticks issued so far — equally the counter after the `tick(i)` calls so far — do not exceed
    the announced total; every call has a positive argument; and the count never decreases when
    the run is continued by ANY accepted steps.  So `counter ≤ total` throughout the build phase:
    the hypotheses `hle`, `hstep` of `progress_monotone` hold for it. -/
theorem pool_ticks_monotone_bounded (N cap L W : Nat) (tr : List Ev) (hw : workersBelow W tr) (s : S)
    (h : run (S.init (2 ^ N) cap L) tr = some s) :
    ticksIssued N (S.init (2 ^ N) cap L) tr ≤ announced N L ∧
    counterAfter (tickCalls N (S.init (2 ^ N) cap L) tr) = ticksIssued N (S.init (2 ^ N) cap L) tr ∧
    (∀ i ∈ tickCalls N (S.init (2 ^ N) cap L) tr, 0 < i) ∧
    (∀ tr' s', run (S.init (2 ^ N) cap L) (tr ++ tr') = some s' →
      ticksIssued N (S.init (2 ^ N) cap L) tr ≤ ticksIssued N (S.init (2 ^ N) cap L) (tr ++ tr')) := by
  obtain ⟨own, hi, hacc⟩ := pool_ticks_accounting N cap L W tr hw s h
  refine ⟨by omega, ?_, tickCalls_pos N _ tr, ?_⟩
  · rw [counterAfter_eq_sum, tickCalls_sum]
  · intro tr' s' _
    rw [ticksIssued_append N _ tr tr' s h]
    omega

section field
variable {K : Type} [Field K] [LinearOrder K] [IsStrictOrderedRing K]

/-- **pool_fraction_bounded.**  The build phase's contribution to the reported fraction
    (`weight * counter / total`, progress.cpp l.52–54) with `total = announced N L` and the counter
    of a reachable pool state lies in `[0, weight]`, and does not decrease along the run. -/
theorem pool_fraction_bounded (N cap L W weight : Nat) (tr : List Ev) (hw : workersBelow W tr) (s : S)
    (h : run (S.init (2 ^ N) cap L) tr = some s) :
    (0 : K) ≤ contrib ⟨weight, announced N L, ticksIssued N (S.init (2 ^ N) cap L) tr⟩ ∧
    (contrib ⟨weight, announced N L, ticksIssued N (S.init (2 ^ N) cap L) tr⟩ : K) ≤ weight ∧
    (∀ tr' s', run (S.init (2 ^ N) cap L) (tr ++ tr') = some s' →
      (contrib ⟨weight, announced N L, ticksIssued N (S.init (2 ^ N) cap L) tr⟩ : K) ≤
        contrib ⟨weight, announced N L, ticksIssued N (S.init (2 ^ N) cap L) (tr ++ tr')⟩) := by
  obtain ⟨hle, _, _, hmono⟩ := pool_ticks_monotone_bounded N cap L W tr hw s h
  refine ⟨contrib_nonneg _, contrib_le_weight _ hle, ?_⟩
  intro tr' s' h'
  exact contrib_mono _ _ rfl (Or.inr ⟨rfl, hmono tr' s' h'⟩)

end field

/-! ### concrete runs -/

/-- one worker, `N = 1` (two children per branch), root of level 1: the root is ambiguous, both
    children are leaves -/
def oneWorker : List Ev :=
  [.loop 0, .pop 0 0, .evalDone 0 .amb, .push 0 1 false, .push 0 2 true,
   .loop 0, .pop 0 2, .evalDone 0 .leaf, .collect 0 false,
   .loop 0, .pop 0 1, .evalDone 0 .leaf, .collect 0 true, .exitRoot 0]

example : workersBelow 1 oneWorker := by decide
example : (run (S.init (2 ^ 1) 1 1) oneWorker).map (fun s => (s.done, s.cancel, s.collected)) =
    some (true, false, [0]) := by decide
-- tick(1) per leaf, tick() for the collected root: 3 = announced 1 1
example : tickCalls 1 (S.init (2 ^ 1) 1 1) oneWorker = [1, 1, 1] := by decide
example : ticksIssued 1 (S.init (2 ^ 1) 1 1) oneWorker = 3 ∧ announced 1 1 = 3 := by decide
-- half way (the first leaf evaluated): 1 of 3
example : ticksIssued 1 (S.init (2 ^ 1) 1 1) (oneWorker.take 8) = 1 := by decide

/-- two workers, `N = 1`, root of level 2: the root is ambiguous; its first child (level 1) is
    pruned by worker 1 — EMPTY / FILLED, credited with the 3 cells of the sub-tree it stands for —
    while worker 0 splits the second child into two leaves; worker 1 evaluates one of them, worker 0
    the other, collects the second child and then the root -/
def twoWorkers : List Ev :=
  [.loop 0, .loop 1, .pop 0 0, .evalDone 0 .amb, .push 0 1 false, .push 0 2 false,
   .pop 1 1, .evalDone 1 .term,
   .loop 0, .pop 0 2, .evalDone 0 .amb, .push 0 3 false, .push 0 4 false,
   .collect 1 false,
   .loop 1, .pop 1 3, .evalDone 1 .leaf, .collect 1 false,
   .loop 0, .pop 0 4, .evalDone 0 .leaf, .collect 0 true, .collect 0 true, .exitRoot 0,
   .exitLoop 1]

example : workersBelow 2 twoWorkers := by decide
example : (run (S.init (2 ^ 1) 2 2) twoWorkers).map
    (fun s => (s.done, s.cancel, s.act 0, s.act 1)) = some (true, false, .exited, .exited) := by decide
example : (run (S.init (2 ^ 1) 2 2) twoWorkers).map (fun s => (s.collected, s.created.length)) =
    some ([0, 2], 5) := by decide
-- tick(3) for the pruned level-1 cell, tick(1) per leaf, tick() per collected branch:
-- 3 + 1 + 1 + 1 + 1 = 7 = announced 1 2, although only 5 of the 7 cells were created
example : tickCalls 1 (S.init (2 ^ 1) 2 2) twoWorkers = [3, 1, 1, 1, 1] := by decide
example : ticksIssued 1 (S.init (2 ^ 1) 2 2) twoWorkers = 7 ∧ announced 1 2 = 7 := by decide
-- the counter along the run: after the prune 3, after both leaves 5, after the inner collect 6
example : (ticksIssued 1 (S.init (2 ^ 1) 2 2) (twoWorkers.take 8),
           ticksIssued 1 (S.init (2 ^ 1) 2 2) (twoWorkers.take 21),
           ticksIssued 1 (S.init (2 ^ 1) 2 2) (twoWorkers.take 22)) = (3, 5, 6) := by decide
-- a cancelled run stops short of the total (so `cancel = false` is needed in `pool_ticks_complete`)
example : (run (S.init (2 ^ 1) 2 2) (twoWorkers.take 8 ++ [.cancel, .exitLoop 0])).map
    (fun s => (s.done, s.cancel)) = some (true, true) ∧
    ticksIssued 1 (S.init (2 ^ 1) 2 2) (twoWorkers.take 8 ++ [.cancel, .exitLoop 0]) = 3 := by decide

end Libfive.C20
