/-
  C10 — 2D contours are closed loops that bound the slice.
  Property theorems only; helper lemmas live in LibfiveProofs/Contours.lean.
-/
import LibfiveProofs.Contours
import Generated.Marching2

namespace Libfive.C10
open Libfive.Contours Libfive.Marching2

/-! ## `Contours::collect` -/

/-- **collect_partition.** For EVERY finite list of directed segments (no precondition — branching,
    dangling ends, duplicates, self loops allowed) the polylines returned by the model of
    `Contours::collect` have at least two points each and their consecutive pairs are exactly the
    input segments, each used exactly once (a permutation of the input list).  Since a polyline's
    consecutive pairs share end points by construction, the output is a partition of the segments
    into chains (open chains allowed). -/
theorem collect_partition (segs : List Seg) :
    ((collect segs).flatMap pairs).Perm segs ∧ ∀ p ∈ collect segs, 2 ≤ p.length := by
  have inv := chainAll_inv segs
  have ctx : Ctx (chainAll segs).chains (chainAll segs).heads := ⟨inv.len, inv.hv⟩
  obtain ⟨h1, h2⟩ := weld_perm _ _ ctx
  exact ⟨h1.trans (inv.perm.trans (List.reverse_perm _)), h2⟩

/-- `collect_closed` with the balance hypothesis in the only direction the proof uses. -/
theorem collect_closed_onesided (segs : List Seg)
    (hout : (segs.map Prod.fst).Nodup) (hin : (segs.map Prod.snd).Nodup)
    (hbal : ∀ v, v ∈ segs.map Prod.snd → v ∈ segs.map Prod.fst) :
    (∀ p ∈ collect segs, closed p = true ∧ p.dropLast.Nodup) ∧
    ((collect segs).flatMap pairs).Perm segs := by
  obtain ⟨hperm, hlen⟩ := collect_partition segs
  have hcl := weld_closed _ _ (chainAll_pctx segs hout hin hbal)
  refine ⟨fun p hp => ⟨?_, ?_⟩, hperm⟩
  · have h1 := hlen p hp
    have h2 := hcl p hp
    simp [closed, h1, h2]
  · have : ((collect segs).flatMap List.dropLast).Nodup := by
      rw [← firsts_eq]; exact (List.Perm.nodup_iff (hperm.map Prod.fst)).2 hout
    exact nodup_of_nodup_flatMap (f := List.dropLast) this hp

/-- **collect_closed.** For every finite segment list in which every vertex that occurs has
    out-degree 1 (`hout`: no vertex starts two segments), in-degree 1 (`hin`) and occurs as a start
    iff it occurs as an end (`hbal`) — self loops `(v,v)` are allowed — every polyline returned by
    the model of `Contours::collect` is closed (`front == back`, at least 2 points) and is a simple
    cycle, and the polylines use every input segment exactly once.  Hence no end point dangles:
    every vertex is entered once and left once inside one closed polyline. -/
theorem collect_closed (segs : List Seg)
    (hout : (segs.map Prod.fst).Nodup) (hin : (segs.map Prod.snd).Nodup)
    (hbal : ∀ v, v ∈ segs.map Prod.fst ↔ v ∈ segs.map Prod.snd) :
    (∀ p ∈ collect segs, closed p = true ∧ p.dropLast.Nodup) ∧
    ((collect segs).flatMap pairs).Perm segs :=
  collect_closed_onesided segs hout hin (fun v hv => (hbal v).2 hv)

/-- **weld_fuel_irrelevant.** The recursion bound of the model's inner welding loop (the number of
    chains, see `weldStep`) is never reached: started on an unprocessed chain, any two bounds that
    are at least the number of unprocessed chains give the same result. -/
theorem weld_fuel_irrelevant (cs : List (List Nat)) (heads : Map) (f1 f2 t : Nat) (pr : List Bool)
    (acc : List Nat) (ht : pr.getD t true = false) (h1 : pr.count false ≤ f1) (h2 : pr.count false ≤ f2) :
    weldLoop cs heads f1 t pr acc = weldLoop cs heads f2 t pr acc :=
  weldLoop_fuel cs heads f1 f2 t pr acc ht h1 h2

/-! ### the hypotheses are satisfiable / the statements are not vacuous -/

/-- two loops, given in scrambled order so that chains are created, prepended, appended and welded -/
def exSegs : List Seg := [(3, 1), (5, 6), (1, 2), (6, 4), (2, 3), (4, 5), (7, 7)]

example : ((exSegs.map Prod.fst).Nodup ∧ (exSegs.map Prod.snd).Nodup) ∧
    ∀ v, v ∈ exSegs.map Prod.fst ↔ v ∈ exSegs.map Prod.snd := by
  refine ⟨by decide, fun v => ?_⟩
  simp [exSegs]; omega
example : collect exSegs = [[3, 1, 2, 3], [5, 6, 4, 5], [7, 7]] := by decide
-- without the precondition the output is still a partition, but open chains appear
example : collect [(1, 2), (3, 2), (2, 4)] = [[1, 2], [3, 2, 4]] := by decide
-- the welding phase is needed: chains [2,3] and [1,2] are created separately and joined afterwards
example : (chainAll [(2, 3), (1, 2), (3, 1)]).chains = [[1, 2, 3, 1]] := by decide
example : (chainAll [(1, 2), (3, 4), (2, 3), (4, 1)]).chains = [[1, 2, 3], [3, 4, 1]] := by decide
example : collect [(1, 2), (3, 4), (2, 3), (4, 1)] = [[1, 2, 3, 4, 1]] := by decide

/-! ## `MarchingTable<2>` and the contourer's orientation rule -/

/-- the tables of the running library (regenerated on every run) -/
def T : Tables :=
  { v := Generated.Marching2.v, e := Generated.Marching2.e, p := Generated.Marching2.p,
    axisX := Generated.Marching2.axisX, axisY := Generated.Marching2.axisY }

def masks : List Nat := List.range 16
/-- the 8 directed cell edges (a, b): corners differing in exactly one coordinate -/
def cellEdges : List (Nat × Nat) := [(0,1),(1,0),(0,2),(2,0),(1,3),(3,1),(2,3),(3,2)]

/-- **marching2_partition (T).** In the table of the running library, for each of the 16 corner
    masks: every patch has exactly two edges, each a cell edge directed filled → empty; every
    sign-changing cell edge belongs to exactly one patch; and the `e`/`p` tables used by the
    contourer send that edge to the index of that patch (and every other edge to -1). -/
theorem marching2_partition :
    masks.all (fun m =>
      (T.patches m).all (fun q => q.length == 2 &&
        q.all (fun ed => cellEdges.contains ed && filled m ed.1 && !filled m ed.2)) &&
      cellEdges.all (fun ed =>
        if filled m ed.1 && !filled m ed.2 then
          ((T.patches m).filter (·.contains ed)).length == 1 &&
          (T.pAt m (T.eAt ed.1 ed.2) ≥ 0) &&
          ((T.patches m).getD (T.pAt m (T.eAt ed.1 ed.2)).toNat []).contains ed
        else T.pAt m (T.eAt ed.1 ed.2) == -1)) = true := by
  decide +kernel

/-- the `e` table numbers the 8 directed cell edges injectively with 0..7 and nothing else -/
theorem marching2_edge_index :
    ((List.range 8).all fun k =>
      (cellEdges.filter fun ed => T.eAt ed.1 ed.2 == (k : Int)).length == 1) = true ∧
    ((List.range 4).all fun a => (List.range 4).all fun b =>
      cellEdges.contains (a, b) || T.eAt a b == -1) = true := by
  decide +kernel

/-- counter-clockwise successor of a corner in libfive's numbering (0 1 / 2 3 = bottom / top row) -/
def ccwNext : Nat → Nat
  | 0 => 1
  | 1 => 3
  | 3 => 2
  | _ => 0

/-- the edge two adjacent cells share, directed filled → empty, in the numbering of cell `cell`
    (0 = the cell with the smaller coordinate: its corners `perp`, `perp|A`; 1: corners `0`, `A`) -/
def sharedEdge (A cell m : Nat) : Nat × Nat :=
  let perp := (T.axisX ||| T.axisY) ^^^ A
  let c := if cell = 0 then perp else 0
  if filled m c then (c, c ||| A) else (c ||| A, c)

def patchOf (m : Nat) (k : Int) : List (Nat × Nat) :=
  if k < 0 then [] else (T.patches m).getD k.toNat []

/-- **contour_winding_rule.** For both axes, all 16×16 pairs of corner masks that agree on the two
    shared corners, and either choice of the cell whose corners are read: `DCContourer::load`
    pushes no segment iff the shared edge has no sign change; otherwise the segment goes from one
    cell to the *other*, both patch indices are valid, the source patch contains the shared edge as a
    clockwise-directed (filled → empty) edge of its cell and the target patch contains it as a
    counter-clockwise-directed one.  I.e. the filled side is always on the left of the segment,
    a patch vertex is *left* through its cw edge and *entered* through its ccw edge. -/
theorem contour_winding_rule :
    ([T.axisX, T.axisY].all fun A => masks.all fun m0 => masks.all fun m1 => [0, 1].all fun index =>
      !consistent T A m0 m1 ||
      (match load T A index m0 m1 with
       | none => filled m0 (sharedEdge A 0 m0).1 == filled m0 (sharedEdge A 0 m0).2
       | some (src, dst) =>
         let es := sharedEdge A src.1 (if src.1 = 0 then m0 else m1)
         let ed := sharedEdge A dst.1 (if dst.1 = 0 then m0 else m1)
         filled m0 (sharedEdge A 0 m0).1 != filled m0 (sharedEdge A 0 m0).2 &&
         src.1 + dst.1 == 1 &&
         (patchOf (if src.1 = 0 then m0 else m1) src.2).contains es && ccwNext es.2 == es.1 &&
         (patchOf (if dst.1 = 0 then m0 else m1) dst.2).contains ed && ccwNext ed.1 == ed.2)) = true := by
  decide +kernel

/-- a neighbour mask that agrees with `m` on the shared corners (the first one) -/
def canonNb (side : Nat × Nat) (m : Nat) : Nat :=
  (masks.find? fun nb => consistentSide T side m nb).getD 0

/-- **side_emit_independent.** What `load` does to a cell on one of its sides depends only on the
    cell's own mask: not on the (consistent) neighbour mask, nor on which of the two cells'
    corner states are read. -/
theorem side_emit_independent :
    ((sides T).all fun side => masks.all fun m => masks.all fun nb => [0, 1].all fun index =>
      !consistentSide T side m nb ||
      sideEmit T side index m nb == sideEmit T side 0 m (canonNb side m)) = true := by
  decide +kernel

/-- **patch_vertex_in_out.** For every corner mask and every patch of it: over the four sides of
    the cell, the patch's vertex is the source of exactly one pushed segment and the target of
    exactly one — the precondition `in-degree = out-degree = 1` of `collect_closed` for every
    vertex of a level-0 cell all of whose sign-changing edges are shared with another ambiguous
    level-0 cell (slice strictly inside the region, uniform leaves). -/
theorem patch_vertex_in_out :
    (masks.all fun m => (List.range (T.patches m).length).all fun k =>
      let nbs := (sides T).map fun side => canonNb side m
      roleCount T m k true nbs [0, 0, 0, 0] == 1 && roleCount T m k false nbs [0, 0, 0, 0] == 1) = true := by
  decide +kernel

-- the tables are not empty: 14 masks have patches, two of them (the saddles 6 and 9) have two
example : (masks.map fun m => (T.patches m).length) = [0,1,1,1,1,1,2,1,1,2,1,1,1,1,1,0] := by decide +kernel
-- a concrete instance of the rule: cells side by side (dual edge along Y), lower corners filled
example : load T T.axisY 0 3 3 = some ((1, 0), (0, 0)) := by decide +kernel
example : load T T.axisY 0 5 5 = none := by decide +kernel
example : consistent T T.axisY 3 3 = true := by decide +kernel

end Libfive.C10
