/-
  C06 (closed form) — `deck_gradient_correct` without hypotheses about the node list.
  `C06.deck_gradient_correct_postorder` still assumes of `o = optimize (flatten t)` and of
  `flat = postorder o` that `o` has no remap / apply / invalid node (`plainDeep o`), that the operator
  nodes of `flat` carry opcodes of the right arity (`nodeArity`) and that `flat` holds no oracle node.
  Here these are PROVED from hypotheses on the input tree `t` alone:
    * `wellArity t`          every operator node carries an opcode of that arity;
    * `hasOracle t = false`  no oracle anywhere (C06's kernels do not cover ORACLE clauses; it also
                             makes C01Closed's `oracleUnremapped t` trivial).
  `noInvalid t` is needed only for the route that reuses C06Ext's theorems literally (the `_plain`
  forms of section (4): `TopoFlat` excludes `invalid` nodes); the main theorems of section (5)
  (`deck_gradient_correct_closed`, `deck_gradient_curve_closed`, `deck_gradient_var_closed`) do
  without it: an `invalid` node gets a slot holding `(IR cst).bad` and no clause.
  What remains besides the two hypotheses on `t` are the lawful-interpretation hypothesis `L` (met by
  exact real constants: `real_interp_lawful`) and the clause-level domain conditions `NodeDom` along
  the axis curves (differentiability of each emitted clause — only `pow / nth-root / mod`, `sqrt`,
  `log`, … have non-trivial ones; they are in the nature of the property, not of the node list).
  Property theorems only; helper lemmas live in LibfiveProofs/DeckDerivClosed.lean.
-/
import LibfiveTheorems.C06Ext
import LibfiveTheorems.C01Closed
import LibfiveProofs.DeckDerivClosed

namespace Libfive.C06
open Libfive Expr Libfive.Deck Libfive.DerivR Libfive.Optimize Libfive.DeckDeriv Libfive.Shape
  Libfive.DeckDerivClosed

variable {C : Type} [DecidableEq C]

/-! ### (1)–(3) "no oracle anywhere" through flatten, the optimiser and the traversal -/

/-- **hasOracle_flatten.**  `Tree::flatten` introduces no oracle (every tree; no arity hypothesis). -/
theorem hasOracle_flatten (K : ConstOps C) (t : Expr C) (ho : hasOracle t = false) :
    hasOracle (flatten K t) = false :=
  Libfive.DeckDerivClosed.hasOracle_flatten K t ho

/-- **hasOracle_optimize.**  The optimiser introduces no oracle (`wellArity` trees, every fuel, every
    sorting order) — the generic induction `Shape.shapeAt` with
    `P := wellArity ∧ hasOracle = false`. -/
theorem hasOracle_optimize (K : ConstOps C) (le : Expr C → Expr C → Bool) (t : Expr C)
    (hw : wellArity t) (ho : hasOracle t = false) : hasOracle (optimize K le t) = false :=
  Libfive.DeckDerivClosed.hasOracle_optimize K le t hw ho

/-- **postorder_no_oracle.**  The post-order list of an oracle-free tree holds no oracle node (the
    nodes are sub-terms). -/
theorem postorder_no_oracle (o : Expr C) (ho : hasOracle o = false) :
    ∀ m ∈ postorder o, isOracle m = false :=
  postorder_noOracle o ho

omit [DecidableEq C] in
/-- an oracle-free tree meets C01Closed's hypothesis `oracleUnremapped` -/
theorem oracleUnremapped_of_no_oracle (t : Expr C) (ho : hasOracle t = false) :
    oracleUnremapped t :=
  oracleUnremapped_of_noOrcDeep t ((noOrcDeep_iff t).mpr ho)

/-- **walk_spec_gradient_closed.**  All hypotheses `deck_gradient_correct` makes about `flat` hold
    for the post-order list of `Tree::optimized()` of a `wellArity`, `invalid`-free, oracle-free
    tree: `C01.walk_spec_closed` plus "no oracle node". -/
theorem walk_spec_gradient_closed (K : ConstOps C) (le : Expr C → Expr C → Bool) (t : Expr C)
    (hw : wellArity t) (hn : noInvalid t) (ho : hasOracle t = false) :
    let o := optimize K le (flatten K t)
    TopoFlat (postorder o) ∧ (∀ m ∈ postorder o, nodeArity m) ∧
      (∀ m ∈ postorder o, isOracle m = false) ∧ o ∈ postorder o := by
  intro o
  obtain ⟨hT, hA, hroot⟩ :=
    C01.walk_spec_closed K le t hw hn (oracleUnremapped_of_no_oracle t ho)
  exact ⟨hT, hA,
    postorder_no_oracle o
      (hasOracle_optimize K le _ (wellArity_flatten K t hw) (hasOracle_flatten K t ho)),
    hroot⟩

/-! ### (4) the closed chain, obtained literally from C06Ext's theorems
    (this route needs `noInvalid`, because `TopoFlat` excludes `invalid` nodes; section (5) removes it) -/

/-- **deck_gradient_curve_closed_plain (expression → deck, any curve).**  For every `wellArity`,
    `invalid`-free, oracle-free tree `t`, `o = optimize (flatten t)`, `flat = postorder o`: along
    every differentiable curve of environments `γ` (coordinates and free variables may all move),
    if the side condition of every emitted clause holds, the root lane of the derivative pass over
    `Deck.build flat o`, seeded with the velocities of the leaves, is the derivative of
    `s ↦ ⟦t⟧ (γ s)` — the function of the ORIGINAL expression. -/
theorem deck_gradient_curve_closed_plain {K : ConstOps C} (cst : C → ℝ) (L : LawfulOpt K (IR cst))
    (le : Expr C → Expr C → Bool) (t : Expr C) (hw : wellArity t) (hn : noInvalid t)
    (ho : hasOracle t = false)
    (γ : ℝ → Env ℝ) (d : Env ℝ) (s0 : ℝ) (orc : Nat → ℝ) (hγ : CurveDeriv γ d s0)
    (hdom : ∀ m ∈ postorder (optimize K le (flatten K t)), NodeDom cst γ s0 m) :
    let o := optimize K le (flatten K t)
    let flat := postorder o
    let T := build flat o
    HasDerivAt (fun s => denote (IR cst) t (γ s))
      (derivRow RO false (evalList evR orc T.t (slots0 (IR cst) (γ s0) flat)) T.t (seed0 d flat)
        T.root) s0 := by
  intro o flat T
  obtain ⟨hT, hA, hno, hroot⟩ := walk_spec_gradient_closed K le t hw hn ho
  exact deck_gradient_curve cst L le t hw flat hT hA hno hroot γ d s0 orc hγ hdom

/-- **deck_gradient_correct_closed_plain (expression → optimised expression → tape → value and
    gradient).**  For every tree `t` built through the API (`wellArity`) without `invalid` sub-terms
    and without oracles (any sharing, nested remap / apply), with `o = optimize (flatten t)` what
    `Tree::optimized()` returns, `flat = postorder o`, `X Y Z = deckAxes flat` the deck's axis slots,
    at every point `e` (coordinates and values of the free variables), for every sorting order:
    if the side condition of every emitted clause holds at `e` along the three axis curves, then
      * the value pass leaves `⟦t⟧ e` in the root slot, and
      * the three rows `d(root).row(0..2)` that `DerivArrayEvaluator::derivs` computes from the
        constructor's seeds `d(X).row(0) = d(Y).row(1) = d(Z).row(2) = 1` are the partial
        derivatives ∂/∂x, ∂/∂y, ∂/∂z of `⟦t⟧` — the function of the ORIGINAL expression — at `e`.
    No hypothesis about `o` or `flat` is left: the remaining ones are `L` (lawful interpretation of
    the constants) and `NodeDom` (differentiability of each clause). -/
theorem deck_gradient_correct_closed_plain {K : ConstOps C} (cst : C → ℝ) (L : LawfulOpt K (IR cst))
    (le : Expr C → Expr C → Bool) (t : Expr C) (hw : wellArity t) (hn : noInvalid t)
    (ho : hasOracle t = false) (e : Env ℝ) (orc : Nat → ℝ)
    (hdx : ∀ m ∈ postorder (optimize K le (flatten K t)), NodeDom cst (shiftX e) 0 m)
    (hdy : ∀ m ∈ postorder (optimize K le (flatten K t)), NodeDom cst (shiftY e) 0 m)
    (hdz : ∀ m ∈ postorder (optimize K le (flatten K t)), NodeDom cst (shiftZ e) 0 m) :
    let o := optimize K le (flatten K t)
    let flat := postorder o
    let T := build flat o
    let V := evalList evR orc T.t (slots0 (IR cst) e flat)
    V T.root = denote (IR cst) t e ∧
    HasDerivAt (fun s => denote (IR cst) t (shiftX e s))
      (derivRow RO false V T.t (spatialSeed RO (deckAxes flat).1 (deckAxes flat).2.1 (deckAxes flat).2.2 0)
        T.root) 0 ∧
    HasDerivAt (fun s => denote (IR cst) t (shiftY e s))
      (derivRow RO false V T.t (spatialSeed RO (deckAxes flat).1 (deckAxes flat).2.1 (deckAxes flat).2.2 1)
        T.root) 0 ∧
    HasDerivAt (fun s => denote (IR cst) t (shiftZ e s))
      (derivRow RO false V T.t (spatialSeed RO (deckAxes flat).1 (deckAxes flat).2.1 (deckAxes flat).2.2 2)
        T.root) 0 := by
  intro o flat
  obtain ⟨hT, hA, hno, hroot⟩ := walk_spec_gradient_closed K le t hw hn ho
  have hax := deck_axes flat
  exact deck_gradient_correct cst L le t hw flat hT hA hno hroot _ _ _ hax.1 hax.2.1 hax.2.2 e orc
    hdx hdy hdz

/-- **deck_gradient_var_closed_plain (free variables, `JacobianEvaluator::gradient`).**  Same closed form
    for the Jacobian evaluator: for a `wellArity`, `invalid`-free, oracle-free tree `t`, if the deck
    (of `flat = postorder (optimize (flatten t))`) has no CONST_VAR node and holds the free variable
    `v` in the slot `vars[i]`, entry `i` of the Jacobian evaluator's result (`clear_vars = true`, unit
    seed in that slot, X/Y/Z seeds cleared) is the partial derivative of `⟦t⟧` with respect to `v`.
    (`hncv`, `hv`, `hslot` describe which deck and which slot the statement is about; the shape
    hypotheses `TopoFlat / nodeArity / no oracle / root ∈ flat` are discharged.) -/
theorem deck_gradient_var_closed_plain {K : ConstOps C} (cst : C → ℝ) (L : LawfulOpt K (IR cst))
    (le : Expr C → Expr C → Bool) (t : Expr C) (hw : wellArity t) (hn : noInvalid t)
    (ho : hasOracle t = false)
    (hncv : ∀ a, un Op.constVar a ∉ postorder (optimize K le (flatten K t)))
    (N : Nat) (hN : 0 < N) (vars : Array Nat) (i : Nat) (hi : i < vars.size)
    (v : Nat) (hv : Expr.var v ∈ postorder (optimize K le (flatten K t)))
    (hslot : vars[i] = idOf (postorder (optimize K le (flatten K t))) (Expr.var v))
    (e : Env ℝ) (orc : Nat → ℝ)
    (hdom : ∀ m ∈ postorder (optimize K le (flatten K t)), NodeDom cst (shiftVar e v) 0 m) :
    let o := optimize K le (flatten K t)
    let flat := postorder o
    let T := build flat o
    let V := evalList evR orc T.t (slots0 (IR cst) e flat)
    ∃ g, (jacGradient RO N vars V T.t T.root)[i]? = some g ∧
      HasDerivAt (fun s => denote (IR cst) t (shiftVar e v s)) g 0 := by
  intro o flat
  obtain ⟨hT, hA, hno, hroot⟩ := walk_spec_gradient_closed K le t hw hn ho
  exact deck_gradient_var cst L le t hw flat hT hA hno hroot hncv N hN vars i hi v hv hslot e orc hdom

/-! ### (5) the closed chain without `noInvalid`
    The deck model gives an `invalid` node a slot and no clause; the slot holds `(IR cst).bad`, which
    is what `invalid` denotes, a constant along every curve.  The chain rule along the deck
    (`deck_gradient_auxI`) therefore holds for node lists with `invalid` leaves (`TopoFlatI`), and
    `noInvalid t` is not needed: only `wellArity t` and `hasOracle t = false` remain. -/

/-- **walk_spec_gradient_closedI.**  `walk_spec_gradient_closed` without `noInvalid`, for the
    specification of `walk()` that admits `invalid` as a leaf. -/
theorem walk_spec_gradient_closedI (K : ConstOps C) (le : Expr C → Expr C → Bool) (t : Expr C)
    (hw : wellArity t) (ho : hasOracle t = false) :
    let o := optimize K le (flatten K t)
    TopoFlatI (postorder o) ∧ (∀ m ∈ postorder o, nodeArity m) ∧
      (∀ m ∈ postorder o, isOracle m = false) ∧ o ∈ postorder o :=
  gradient_spec_closedI K le t hw ho

/-- **deck_node_gradientI (tape → every node, any curve, `invalid` leaves admitted).**  The
    generalisation of `deck_node_gradient` from `TopoFlat` to `TopoFlatI` node lists. -/
theorem deck_node_gradientI (cst : C → ℝ) (cv : Bool) (flat : List (Expr C)) (root : Expr C)
    (hT : TopoFlatI flat) (hA : ∀ m ∈ flat, nodeArity m) (hno : ∀ m ∈ flat, isOracle m = false)
    (hcv : ∀ a, un Op.constVar a ∈ flat → cv = false)
    (γ : ℝ → Env ℝ) (d : Env ℝ) (s0 : ℝ) (orc : Nat → ℝ) (hγ : CurveDeriv γ d s0)
    (hdom : ∀ m ∈ flat, NodeDom cst γ s0 m) (m : Expr C) (hm : m ∈ flat) :
    HasDerivAt (fun s => denote (IR cst) m (γ s))
      (derivRow RO cv (evalList evR orc (build flat root).t (slots0 (IR cst) (γ s0) flat))
        (build flat root).t (seed0 d flat) (idOf flat m)) s0 :=
  deck_gradient_auxI Dom cv (fun op a b a' b' t ha hb hd hc => kernel_hasDerivAt cv op a b a' b' t ha hb hd hc)
    cst flat root hT hA hno hcv γ (seed0 d flat) s0 orc
    (fun k _ => slots0_hasDerivAt cst flat γ d s0 hγ k) hdom m hm

/-- **deck_gradient_correctI.**  `deck_gradient_correct` for node lists with `invalid` leaves
    (`TopoFlatI` instead of `TopoFlat`; every `TopoFlat` list is `TopoFlatI`). -/
theorem deck_gradient_correctI {K : ConstOps C} (cst : C → ℝ) (L : LawfulOpt K (IR cst))
    (le : Expr C → Expr C → Bool) (t : Expr C) (hw : wellArity t)
    (flat : List (Expr C)) (hT : TopoFlatI flat) (hA : ∀ m ∈ flat, nodeArity m)
    (hno : ∀ m ∈ flat, isOracle m = false) (hroot : optimize K le (flatten K t) ∈ flat)
    (X Y Z : Nat) (hX : AxisSlot flat Expr.x X) (hY : AxisSlot flat Expr.y Y)
    (hZ : AxisSlot flat Expr.z Z) (e : Env ℝ) (orc : Nat → ℝ)
    (hdx : ∀ m ∈ flat, NodeDom cst (shiftX e) 0 m) (hdy : ∀ m ∈ flat, NodeDom cst (shiftY e) 0 m)
    (hdz : ∀ m ∈ flat, NodeDom cst (shiftZ e) 0 m) :
    let T := build flat (optimize K le (flatten K t))
    let V := evalList evR orc T.t (slots0 (IR cst) e flat)
    V T.root = denote (IR cst) t e ∧
    HasDerivAt (fun s => denote (IR cst) t (shiftX e s))
      (derivRow RO false V T.t (spatialSeed RO X Y Z 0) T.root) 0 ∧
    HasDerivAt (fun s => denote (IR cst) t (shiftY e s))
      (derivRow RO false V T.t (spatialSeed RO X Y Z 1) T.root) 0 ∧
    HasDerivAt (fun s => denote (IR cst) t (shiftZ e s))
      (derivRow RO false V T.t (spatialSeed RO X Y Z 2) T.root) 0 := by
  intro T V
  have hK := fun op a b a' b' t ha hb hd hc => kernel_hasDerivAt false op a b a' b' t ha hb hd hc
  have hseed := spatialSeed_eq_seed0 flat hT.1 X Y Z hX hY hZ
  have hden := optimized_denote_eq cst L le t hw
  refine ⟨?_, ?_, ?_, ?_⟩
  · have h := build_evalGI cst e flat (optimize K le (flatten K t)) hT hA hno _ hroot
    rw [hden] at h
    rw [← h]
    exact congrFun (evalListG_eq_evalList evR orc _
      (build_no_oracleI flat _ hT hA hno) _).symm _
  · have h := deck_gradient_auxI Dom false hK cst flat (optimize K le (flatten K t)) hT hA hno
      (fun _ _ => rfl) (shiftX e) (spatialSeed RO X Y Z 0) 0 orc
      (fun k hk => by
        rw [(hseed k hk).1]; exact slots0_hasDerivAt cst flat _ _ 0 (curve_shiftX e) k)
      hdx _ hroot
    rw [hden, shiftX_zero] at h
    exact h
  · have h := deck_gradient_auxI Dom false hK cst flat (optimize K le (flatten K t)) hT hA hno
      (fun _ _ => rfl) (shiftY e) (spatialSeed RO X Y Z 1) 0 orc
      (fun k hk => by
        rw [(hseed k hk).2.1]; exact slots0_hasDerivAt cst flat _ _ 0 (curve_shiftY e) k)
      hdy _ hroot
    rw [hden, shiftY_zero] at h
    exact h
  · have h := deck_gradient_auxI Dom false hK cst flat (optimize K le (flatten K t)) hT hA hno
      (fun _ _ => rfl) (shiftZ e) (spatialSeed RO X Y Z 2) 0 orc
      (fun k hk => by
        rw [(hseed k hk).2.2]; exact slots0_hasDerivAt cst flat _ _ 0 (curve_shiftZ e) k)
      hdz _ hroot
    rw [hden, shiftZ_zero] at h
    exact h

/-- **deck_gradient_varI.**  `deck_gradient_var` for node lists with `invalid` leaves. -/
theorem deck_gradient_varI {K : ConstOps C} (cst : C → ℝ) (L : LawfulOpt K (IR cst))
    (le : Expr C → Expr C → Bool) (t : Expr C) (hw : wellArity t)
    (flat : List (Expr C)) (hT : TopoFlatI flat) (hA : ∀ m ∈ flat, nodeArity m)
    (hno : ∀ m ∈ flat, isOracle m = false) (hroot : optimize K le (flatten K t) ∈ flat)
    (hncv : ∀ a, un Op.constVar a ∉ flat)
    (N : Nat) (hN : 0 < N) (vars : Array Nat) (i : Nat) (hi : i < vars.size)
    (v : Nat) (hv : Expr.var v ∈ flat) (hslot : vars[i] = idOf flat (Expr.var v))
    (e : Env ℝ) (orc : Nat → ℝ) (hdom : ∀ m ∈ flat, NodeDom cst (shiftVar e v) 0 m) :
    let T := build flat (optimize K le (flatten K t))
    let V := evalList evR orc T.t (slots0 (IR cst) e flat)
    ∃ g, (jacGradient RO N vars V T.t T.root)[i]? = some g ∧
      HasDerivAt (fun s => denote (IR cst) t (shiftVar e v s)) g 0 := by
  intro T V
  refine ⟨derivRow RO true V T.t (fun slot => if slot = vars[i] then 1 else 0) T.root, ?_, ?_⟩
  · simp only [jacGradient, List.getElem?_map, List.getElem?_range hi, Option.map_some,
      jacobian_seed_unit N hN vars i hi]
  · have hK := fun op a b a' b' t ha hb hd hc => kernel_hasDerivAt true op a b a' b' t ha hb hd hc
    have h := deck_gradient_auxI Dom true hK cst flat (optimize K le (flatten K t)) hT hA hno
      (fun a ha => absurd ha (hncv a)) (shiftVar e v) (fun slot => if slot = vars[i] then 1 else 0) 0 orc
      (fun k hk => by
        rw [hslot, varSeed_eq_seed0 flat hT.1 v hv k hk]
        exact slots0_hasDerivAt cst flat _ _ 0 (curve_shiftVar e v) k)
      hdom _ hroot
    rw [optimized_denote_eq cst L le t hw, shiftVar_zero] at h
    exact h

/-- **deck_gradient_curve_closed (expression → deck, any curve).**  For every `wellArity`,
    oracle-free tree `t` (any sharing, nested remap / apply, `invalid` sub-terms allowed),
    `o = optimize (flatten t)`, `flat = postorder o`: along every differentiable curve of environments
    `γ` (coordinates and free variables may all move), if the side condition of every emitted clause
    holds, the root lane of the derivative pass over `Deck.build flat o`, seeded with the velocities
    of the leaves, is the derivative of `s ↦ ⟦t⟧ (γ s)` — the function of the ORIGINAL expression. -/
theorem deck_gradient_curve_closed {K : ConstOps C} (cst : C → ℝ) (L : LawfulOpt K (IR cst))
    (le : Expr C → Expr C → Bool) (t : Expr C) (hw : wellArity t) (ho : hasOracle t = false)
    (γ : ℝ → Env ℝ) (d : Env ℝ) (s0 : ℝ) (orc : Nat → ℝ) (hγ : CurveDeriv γ d s0)
    (hdom : ∀ m ∈ postorder (optimize K le (flatten K t)), NodeDom cst γ s0 m) :
    let o := optimize K le (flatten K t)
    let flat := postorder o
    let T := build flat o
    HasDerivAt (fun s => denote (IR cst) t (γ s))
      (derivRow RO false (evalList evR orc T.t (slots0 (IR cst) (γ s0) flat)) T.t (seed0 d flat)
        T.root) s0 := by
  intro o flat T
  obtain ⟨hT, hA, hno, hroot⟩ := walk_spec_gradient_closedI K le t hw ho
  have h := deck_node_gradientI cst false flat o hT hA hno (fun _ _ => rfl) γ d s0 orc hγ hdom _ hroot
  rw [show denote (IR cst) o = denote (IR cst) t from optimized_denote_eq cst L le t hw] at h
  exact h

/-- **deck_gradient_correct_closed (expression → optimised expression → tape → value and
    gradient).**  For every tree `t` built through the API (`wellArity`) without oracles (any
    sharing, nested remap / apply, `invalid` sub-terms allowed), with `o = optimize (flatten t)` what
    `Tree::optimized()` returns, `flat = postorder o`, `X Y Z = deckAxes flat` the deck's axis slots,
    at every point `e` (coordinates and values of the free variables), for every sorting order:
    if the side condition of every emitted clause holds at `e` along the three axis curves, then
      * the value pass leaves `⟦t⟧ e` in the root slot, and
      * the three rows `d(root).row(0..2)` that `DerivArrayEvaluator::derivs` computes from the
        constructor's seeds `d(X).row(0) = d(Y).row(1) = d(Z).row(2) = 1` are the partial
        derivatives ∂/∂x, ∂/∂y, ∂/∂z of `⟦t⟧` — the function of the ORIGINAL expression — at `e`.
    No hypothesis about `o` or `flat` is left: besides `wellArity t` and `hasOracle t = false` the
    remaining ones are `L` (lawful interpretation of the constants) and `NodeDom` (differentiability
    of each emitted clause). -/
theorem deck_gradient_correct_closed {K : ConstOps C} (cst : C → ℝ) (L : LawfulOpt K (IR cst))
    (le : Expr C → Expr C → Bool) (t : Expr C) (hw : wellArity t) (ho : hasOracle t = false)
    (e : Env ℝ) (orc : Nat → ℝ)
    (hdx : ∀ m ∈ postorder (optimize K le (flatten K t)), NodeDom cst (shiftX e) 0 m)
    (hdy : ∀ m ∈ postorder (optimize K le (flatten K t)), NodeDom cst (shiftY e) 0 m)
    (hdz : ∀ m ∈ postorder (optimize K le (flatten K t)), NodeDom cst (shiftZ e) 0 m) :
    let o := optimize K le (flatten K t)
    let flat := postorder o
    let T := build flat o
    let V := evalList evR orc T.t (slots0 (IR cst) e flat)
    V T.root = denote (IR cst) t e ∧
    HasDerivAt (fun s => denote (IR cst) t (shiftX e s))
      (derivRow RO false V T.t (spatialSeed RO (deckAxes flat).1 (deckAxes flat).2.1 (deckAxes flat).2.2 0)
        T.root) 0 ∧
    HasDerivAt (fun s => denote (IR cst) t (shiftY e s))
      (derivRow RO false V T.t (spatialSeed RO (deckAxes flat).1 (deckAxes flat).2.1 (deckAxes flat).2.2 1)
        T.root) 0 ∧
    HasDerivAt (fun s => denote (IR cst) t (shiftZ e s))
      (derivRow RO false V T.t (spatialSeed RO (deckAxes flat).1 (deckAxes flat).2.1 (deckAxes flat).2.2 2)
        T.root) 0 := by
  intro o flat
  obtain ⟨hT, hA, hno, hroot⟩ := walk_spec_gradient_closedI K le t hw ho
  have hax := deck_axes flat
  exact deck_gradient_correctI cst L le t hw flat hT hA hno hroot _ _ _ hax.1 hax.2.1 hax.2.2 e orc
    hdx hdy hdz

/-- **deck_gradient_var_closed (free variables, `JacobianEvaluator::gradient`).**  Same closed form
    for the Jacobian evaluator: for a `wellArity`, oracle-free tree `t`, if the deck (of
    `flat = postorder (optimize (flatten t))`) has no CONST_VAR node and holds the free variable
    `v` in the slot `vars[i]`, entry `i` of the Jacobian evaluator's result (`clear_vars = true`, unit
    seed in that slot, X/Y/Z seeds cleared) is the partial derivative of `⟦t⟧` with respect to `v`.
    (`hncv`, `hv`, `hslot` say which deck and which slot the statement is about; the shape
    hypotheses `TopoFlat / nodeArity / no oracle / root ∈ flat` are discharged.) -/
theorem deck_gradient_var_closed {K : ConstOps C} (cst : C → ℝ) (L : LawfulOpt K (IR cst))
    (le : Expr C → Expr C → Bool) (t : Expr C) (hw : wellArity t) (ho : hasOracle t = false)
    (hncv : ∀ a, un Op.constVar a ∉ postorder (optimize K le (flatten K t)))
    (N : Nat) (hN : 0 < N) (vars : Array Nat) (i : Nat) (hi : i < vars.size)
    (v : Nat) (hv : Expr.var v ∈ postorder (optimize K le (flatten K t)))
    (hslot : vars[i] = idOf (postorder (optimize K le (flatten K t))) (Expr.var v))
    (e : Env ℝ) (orc : Nat → ℝ)
    (hdom : ∀ m ∈ postorder (optimize K le (flatten K t)), NodeDom cst (shiftVar e v) 0 m) :
    let o := optimize K le (flatten K t)
    let flat := postorder o
    let T := build flat o
    let V := evalList evR orc T.t (slots0 (IR cst) e flat)
    ∃ g, (jacGradient RO N vars V T.t T.root)[i]? = some g ∧
      HasDerivAt (fun s => denote (IR cst) t (shiftVar e v s)) g 0 := by
  intro o flat
  obtain ⟨hT, hA, hno, hroot⟩ := walk_spec_gradient_closedI K le t hw ho
  exact deck_gradient_varI cst L le t hw flat hT hA hno hroot hncv N hN vars i hi v hv hslot e orc hdom

/-! ### the hypotheses are satisfiable -/

section examples
open Libfive.DeckDeriv.Ex

/-- `deck_gradient_correct_closed` on `t = sqrt(x*x + y*y) - 1`, exact real constants, at any point
    off the z-axis.  The hypotheses on `t` are `exT_wellArity`, `exT_noOracle`; the
    node list is no longer supplied but computed (`postorder_exT`: the post-order list of
    `Tree::optimized()` is the 8-slot deck `exFlat`, 5 clauses, `X Y Z = 8 6 9`); the only side
    condition is `0 < x² + y²` for OP_SQRT (`ex_dom`); the three rows the derivative pass computes
    evaluate to the analytic gradient `(x/r, y/r, 0)`, `r = sqrt(x² + y²)`. -/
example (e : Env ℝ) (h : 0 < e.x * e.x + e.y * e.y) (orc : Nat → ℝ) :
    HasDerivAt (fun s => Real.sqrt ((e.x + s) * (e.x + s) + e.y * e.y) - 1)
      (e.x / Real.sqrt (e.x * e.x + e.y * e.y)) 0 ∧
    HasDerivAt (fun s => Real.sqrt (e.x * e.x + (e.y + s) * (e.y + s)) - 1)
      (e.y / Real.sqrt (e.x * e.x + e.y * e.y)) 0 ∧
    HasDerivAt (fun _ : ℝ => Real.sqrt (e.x * e.x + e.y * e.y) - 1) 0 0 := by
  have hfl : postorder (optimize KR leT (flatten KR exT)) = exFlat := by
    rw [optimize_exT]; exact postorder_exT
  have key := deck_gradient_correct_closed (fun c : ℝ => c) real_interp_lawful leT exT exT_wellArity
    exT_noOracle e orc
    (by rw [hfl]; exact ex_dom _ (by simpa [shiftX] using h))
    (by rw [hfl]; exact ex_dom _ (by simpa [shiftY] using h))
    (by rw [hfl]; exact ex_dom _ (by simpa [shiftZ] using h))
  simp only [] at key
  rw [hfl, optimize_exT, exFlat_axes] at key
  simp only [exFlat_tape.1, exFlat_tape.2] at key
  obtain ⟨_, hx, hy, hz⟩ := key
  have hn : ¬ (e.x * e.x + e.y * e.y < 0) := not_lt.mpr h.le
  simp [derivRow, dk, RO, upd, spatialSeed, evalList, evalClause, slots0, exFlat, leafVal, IR, evR,
    exT, denote, shiftX, hn] at hx
  simp [derivRow, dk, RO, upd, spatialSeed, evalList, evalClause, slots0, exFlat, leafVal, IR, evR,
    exT, denote, shiftY, hn] at hy
  simp [derivRow, dk, RO, upd, spatialSeed, evalList, evalClause, slots0, exFlat, leafVal, IR, evR,
    exT, denote, shiftZ, hn] at hz
  refine ⟨?_, ?_, hz.sub_const 1⟩
  · refine (hx.sub_const 1).congr_deriv ?_
    by_cases h0 : e.x = 0
    · simp [h0]
    · rw [if_neg h0, mul_comm e.x 2, mul_div_mul_left _ _ (two_ne_zero)]
  · refine (hy.sub_const 1).congr_deriv ?_
    by_cases h0 : e.y = 0
    · simp [h0]
    · rw [if_neg h0, mul_comm e.y 2, mul_div_mul_left _ _ (two_ne_zero)]

/-- `deck_gradient_var_closed` on `t = sin(v₀)`: the post-order list of `Tree::optimized()` is
    `[var 0, sin(var 0)]` (`postorder_exV`), variable 0 sits in slot 2; the Jacobian evaluator's
    entry 0 is `cos(v₀)`. -/
example (e : Env ℝ) (orc : Nat → ℝ) :
    HasDerivAt (fun s => Real.sin (e.vars 0 + s)) (Real.cos (e.vars 0)) 0 := by
  have hfl : postorder (optimize KR leT (flatten KR exV)) = exVFlat := by
    rw [optimize_exV]; exact postorder_exV
  have hid : idOf exVFlat (Expr.var 0) = 2 := by simp [idOf, exVFlat, exV]
  obtain ⟨g, hg, hd⟩ := deck_gradient_var_closed (fun c : ℝ => c) real_interp_lawful leT exV
    (by simp [exV, wellArity, Op.args]) (by simp [exV, hasOracle])
    (by rw [hfl]; simp [exVFlat, exV])
    256 (by decide) #[2] 0 (by decide) 0 (by rw [hfl]; simp [exVFlat]) (by rw [hfl, hid]; rfl) e orc
    (by rw [hfl]; simp [exVFlat, exV, NodeDom, nodeDom, Dom])
  rw [hfl, optimize_exV] at hg
  have ht : (build exVFlat exV).t = [⟨Op.sin, 1, 2, 0⟩] ∧ (build exVFlat exV).root = 1 := by
    have hl : exVFlat.length = 2 := rfl
    simp only [build, hl, tapeK]
    simp [exVFlat, exV, clauseAt, idOf]
  simp only [ht.1, ht.2] at hg
  simp [jacGradient, jacSeed, jacSlot, jacIndex, jacLanes, derivRow, dk, RO, upd, evalList, evalClause,
    slots0, exVFlat, leafVal, IR, evR] at hg
  subst hg
  simpa [exV, denote, IR, evR, shiftVar] using hd

/-- a tree with nested remap / apply and sharing meets the hypotheses on `t` of both forms (they are
    decidable by `simp`) — the closed theorems apply to it with any lawful `K`, any sorting order -/
example : wellArity (C01.exT) ∧ noInvalid (C01.exT) ∧ hasOracle (C01.exT) = false := by
  simp [C01.exT, wellArity, noInvalid, hasOracle, Op.args]

/-- a tree with an `invalid` sub-term meets the hypotheses of `deck_gradient_correct_closed` (not of
    the `_plain` form) -/
example : wellArity (remap (bin Op.add x invalid) (un Op.cos y) y z : Expr C) ∧
    hasOracle (remap (bin Op.add x invalid) (un Op.cos y) y z : Expr C) = false ∧
    ¬ noInvalid (remap (bin Op.add x invalid) (un Op.cos y) y z : Expr C) := by
  simp [wellArity, noInvalid, hasOracle, Op.args]

end examples

end Libfive.C06
