/-
  C08 in the semantics of C01/C06/C07: "deserialising yields shapes that denote the same functions",
  with "denote" = `Expr.denote` of `LibfiveModel/Expr.lean`.
  Property theorems only; definitions (`toExpr`, `interpOf`, `EnvTransport`, `Ranked`, …) and helper
  lemmas live in `LibfiveProofs/SerializeExpr.lean`.

  Scope.  The archive model's heap expresses constants (bit patterns), X/Y/Z, free variables, unary
  and binary operations.  remap / apply are not expressible in it (`Tree::walk` flattens before the
  serializer runs) and ORACLE nodes are refused by the serializer model; so `toExpr` produces only
  remap-free, oracle-free trees for stored shapes (`toExpr_wellformed`, `serShapes_noOracle`).
-/
import LibfiveTheorems.C08
import LibfiveProofs.SerializeExpr

namespace Libfive.C08
open Libfive Libfive.Serial

/-! ## (1) the heap DAG as an expression tree -/

/-- **toExpr_wellformed.** Whatever the heap, the node and the fuel: the tree has the operand counts
    `Opcode::args` prescribes (C07's `wellArity`), contains no remap/apply, and is its own flattening
    (C07's `Expr.flatten`, for every constant folder `K`). -/
theorem toExpr_wellformed (K : ConstOps UInt32) (heap : NodeId → Node) (nm : NodeId → Nat) (d : Nat) (n : NodeId) :
    wellArity (toExpr heap nm d n) ∧ Expr.hasRemap (toExpr heap nm d n) = false ∧
    Expr.flatten K (toExpr heap nm d n) = toExpr heap nm d n :=
  ⟨wellArity_toExpr heap nm d n, hasRemap_toExpr heap nm d n, flatten_toExpr K heap nm d n⟩

/-- **toExpr_enough_fuel.** If operands have strictly smaller rank than their parents on a set of
    nodes closed under operands (`Ranked`), every fuel above a node's rank gives the same tree: the
    complete unfolding, in which no `invalid` means "out of fuel". -/
theorem toExpr_enough_fuel (heap : NodeId → Node) (rk : NodeId → Nat) (S : NodeId → Prop)
    (hr : Ranked heap rk S) (nm : NodeId → Nat) (d d' : Nat) (n : NodeId) (hs : S n)
    (h1 : rk n < d) (h2 : rk n < d') : toExpr heap nm d n = toExpr heap nm d' n :=
  toExpr_stable hr nm d d' n hs h1 h2

/-- instance: children have smaller ids than their parents — fuel `n + 1` is enough for node `n` -/
theorem toExpr_enough_fuel_ids (heap : NodeId → Node) (h : ChildrenSmaller heap) (nm : NodeId → Nat)
    (d n : Nat) (hd : n < d) : toExpr heap nm d n = toExpr heap nm (n + 1) n :=
  toExpr_stable h.ranked nm d (n + 1) n trivial hd (Nat.lt_succ_self n)

/-- instance: the walk order of `serShapes` — in the id table a successful serialisation leaves
    behind, operands sit at smaller stream positions than their parents, so `ids'.length` is enough
    fuel for every stored node -/
theorem toExpr_enough_fuel_stored (heap : NodeId → Node) (fuelW : Nat) (shapes : List Shape) (bytes : List Byte)
    (ids' : List NodeId) (hser : serShapes heap fuelW [] shapes = .ok (bytes, ids'))
    (hok : ∀ s ∈ shapes, ShapeOK heap fuelW s) (nm : NodeId → Nat) (d : Nat) (n : NodeId)
    (hn : n ∈ ids') (hd : ids'.length ≤ d) :
    toExpr heap nm d n = toExpr heap nm ids'.length n :=
  toExpr_stable (serShapes_ordered shapes hser hok (StoredOrdered.nil heap)).ranked nm d ids'.length n hn
    (Nat.lt_of_lt_of_le (posRank_lt hn) hd) (posRank_lt hn)

/-! ## (2) the heap model's evaluation is `Expr.denote` of that tree -/

/-- **evalAt_eq_denote.** For every interpretation `I` of expressions and every environment `env`,
    the heap model's own evaluation under the induced interpretation `interpOf I env` (constants,
    unary and binary opcodes as in `I`, all still uninterpreted; X/Y/Z from `env`; the free variable
    at stream position `q` is `env.vars (optCode q)`) is `Expr.denote I` of the tree `toExpr` reads off
    the heap — for every heap, position map, depth and node. -/
theorem evalAt_eq_denote {α : Type} (I : Libfive.Interp UInt32 α) (env : Env α) (heap : NodeId → Node)
    (pos : NodeId → Option Nat) (d : Nat) (n : NodeId) :
    evalAt (interpOf I env) heap pos d n = Expr.denote I (toExpr heap (posName pos) d n) env :=
  evalAt_toExpr I env heap pos d n

/-- **roundtrip_same_denotation_denote.** C08's `roundtrip_same_denotation`, read through
    `evalAt_eq_denote`: it *is* a statement about `Expr.denote` — the original node at stream
    position `p` and the loader's node at position `p` denote the same value under every
    interpretation of expressions and every environment (variables named by stream position). -/
theorem roundtrip_same_denotation_denote {α : Type} (I : Libfive.Interp UInt32 α) (env : Env α)
    (heap : NodeId → Node) (ids trees : List NodeId) (lheap : List Node) (hinv : Inv heap ids lheap trees)
    (depth p : Nat) (n m : NodeId) (hn : ids[p]? = some n) (hm : trees[p]? = some m) :
    Expr.denote I (toExpr heap (posName (posOf ids)) depth n) env
      = Expr.denote I (toExpr (hget lheap) (posName (posOf trees)) depth m) env := by
  rw [← evalAt_eq_denote, ← evalAt_eq_denote]
  exact roundtrip_same_denotation (interpOf I env) heap ids trees lheap hinv depth p n m hn hm

/-! ## (3) the round trip in the semantics of `Expr.denote` -/

/-- variables named by stream position: the stored and the loaded shape are the *same expression* -/
def SameTree (heap : NodeId → Node) (ids : List NodeId) (lheap : List Node) (trees : List NodeId)
    (s : Shape) (ls : LShape) : Prop :=
  ∀ d : Nat, toExpr heap (posName (posOf ids)) d s.tree = toExpr (hget lheap) (posName (posOf trees)) d ls.tree

/-- variables named by node id (pointer), each side in its own heap: the stored shape under `env`
    and the loaded shape under any `env'` that is `env` transported along the bijection of the round
    trip (`EnvTransport`: X/Y/Z unchanged, the copy of a variable stands for what the variable stood
    for) denote the same value — every value type, interpretation, depth, environment -/
def SameDenotation (heap : NodeId → Node) (ids : List NodeId) (lheap : List Node) (trees : List NodeId)
    (s : Shape) (ls : LShape) : Prop :=
  ∀ (α : Type) (I : Libfive.Interp UInt32 α) (d : Nat) (env env' : Env α), EnvTransport ids trees env env' →
    Expr.denote I (toExpr heap idName d s.tree) env = Expr.denote I (toExpr (hget lheap) idName d ls.tree) env'

/-- fuel `ids.length` already gives the complete trees on both sides -/
def FullyUnfolded (heap : NodeId → Node) (ids : List NodeId) (lheap : List Node)
    (s : Shape) (ls : LShape) : Prop :=
  ∀ (nm : NodeId → Nat) (d : Nat), ids.length ≤ d →
    toExpr heap nm d s.tree = toExpr heap nm ids.length s.tree ∧
    toExpr (hget lheap) nm d ls.tree = toExpr (hget lheap) nm ids.length ls.tree

/-- the loaded variable-name map is the stored one along the same bijection -/
def SameNames (ids trees : List NodeId) (s : Shape) (ls : LShape) : Prop :=
  ∀ (m : NodeId) (name : List Byte), (m, name) ∈ ls.vars →
    ∃ (n : NodeId) (p : Nat), (n, name) ∈ s.vars ∧ ids[p]? = some n ∧ trees[p]? = some m

/-- **archive_roundtrip_denote.** Under the hypotheses of `archive_roundtrip`:
    `Archive::deserialize (Archive::serialize a)` succeeds silently, consumes the stream, and returns
    as many shapes in the same order such that for every stored shape `s` and its reloaded `ls`
    * `SameTree`: named by stream position, `s.tree` in the original heap and `ls.tree` in the
      loader's heap are the same `Expr UInt32`, to every depth;
    * `SameDenotation`: named by node id, they denote the same function in `Expr.denote` — for every
      value type, every interpretation of the opcodes, every depth and every environment, the loaded
      side read under the environment transported along the bijection "same stream position";
    * `FullyUnfolded`: from fuel `ids'.length` on, both trees are complete (the depth quantifier above
      is not vacuous truncation);
    * `SameNames`: the names in the loaded variable map are those of the stored map along the same
      bijection (with `ShapeMatch`: same shape name and doc);
    and a transported environment exists for every environment (`transportEnv`).
    Same remaining hypotheses as `archive_roundtrip` (no load-time rewrite fires: `nodePlain`; the
    walk ends in its root; < 2^32 nodes; X/Y/Z singletons); ORACLE outside the model. -/
theorem archive_roundtrip_denote (F : Folder) (heap : NodeId → Node) (hax : AxesUnique heap) (fuelW : Nat)
    (shapes : List Shape) (bytes : List Byte) (ids' : List NodeId)
    (hser : serShapes heap fuelW [] shapes = .ok (bytes, ids'))
    (hok : ∀ s ∈ shapes, ShapeOK heap fuelW s) (hsize : ids'.length < 4294967296) :
    ∃ (lshapes : List LShape) (st : DState),
      deserialize F bytes = .ok (lshapes, st) ∧ st.log = [] ∧ st.inp = ⟨[], true⟩ ∧
      AllMatch (fun s ls => ShapeMatch ids' st.trees s ls ∧ SameTree heap ids' st.heap st.trees s ls ∧
        SameDenotation heap ids' st.heap st.trees s ls ∧ FullyUnfolded heap ids' st.heap s ls ∧
        SameNames ids' st.trees s ls) shapes lshapes ∧
      (∀ (α : Type) (env : Env α), EnvTransport ids' st.trees env (transportEnv ids' st.trees env)) := by
  obtain ⟨lshapes, st, h1, h2, h3, hinv, hm⟩ := archive_roundtrip F heap hax fuelW shapes bytes ids' hser hok hsize
  have hno : ∀ k ∈ ids', (heap k).op ≠ Op.oracle := serShapes_noOracle shapes hser (by simp)
  have hord : StoredOrdered heap ids' := serShapes_ordered shapes hser hok (StoredOrdered.nil heap)
  refine ⟨lshapes, st, h1, h2, h3, ?_, fun α env => transportEnv_spec hinv env⟩
  apply AllMatch.imp hm
  intro s _ ls hsm
  obtain ⟨p, hp1, hp2⟩ := hsm.final_pos
  have m1 : s.tree ∈ ids' := List.mem_of_getElem? hp1
  have m2 : ls.tree ∈ st.trees := List.mem_of_getElem? hp2
  refine ⟨hsm, fun d => toExpr_copy hinv d p _ _ hp1 hp2,
    fun α I d env env' ht => denote_copy I hinv hno env env' ht d p _ _ hp1 hp2, ?_,
    fun m name hmn => hsm.vars_pos m name hmn⟩
  intro nm d hd
  have r1 := posRank_lt m1
  have r2 : posRank st.trees ls.tree < ids'.length := by rw [← hinv.len]; exact posRank_lt m2
  exact ⟨toExpr_stable hord.ranked nm d ids'.length s.tree m1 (by omega) r1,
    toExpr_stable (hinv.ranked_trees hord) nm d ids'.length ls.tree m2 (by omega) r2⟩

/-- **archive_roundtrip_flat_denote.** The same for `serializeFlat` (shapes whose trees may still
    contain remap/apply in the C++; the serializer stores `flat s.tree`): every reloaded shape denotes,
    in `Expr.denote`, the function of the *flattened* tree `flat s.tree` of the original heap.
    Nothing about `flat` is assumed. -/
theorem archive_roundtrip_flat_denote (F : Folder) (heap : NodeId → Node) (flat : NodeId → NodeId)
    (hax : AxesUnique heap) (fuelW : Nat) (shapes : List Shape) (bytes : List Byte)
    (hser : serializeFlat heap flat fuelW shapes = .ok bytes)
    (hok : ∀ s ∈ shapes, ShapeOK heap fuelW { s with tree := flat s.tree })
    (hsize : ∀ b ids', serShapes heap fuelW [] (shapes.map fun s => { s with tree := flat s.tree }) = .ok (b, ids') →
      ids'.length < 4294967296) :
    ∃ (ids' : List NodeId) (lshapes : List LShape) (st : DState),
      deserialize F bytes = .ok (lshapes, st) ∧ st.log = [] ∧ st.inp = ⟨[], true⟩ ∧
      AllMatch (fun s ls =>
        SameTree heap ids' st.heap st.trees { s with tree := flat s.tree } ls ∧
        SameDenotation heap ids' st.heap st.trees { s with tree := flat s.tree } ls ∧
        FullyUnfolded heap ids' st.heap { s with tree := flat s.tree } ls ∧
        SameNames ids' st.trees s ls) shapes lshapes ∧
      (∀ (α : Type) (env : Env α), EnvTransport ids' st.trees env (transportEnv ids' st.trees env)) := by
  simp only [serializeFlat, serialize] at hser
  cases h : serShapes heap fuelW [] (shapes.map fun s => { s with tree := flat s.tree }) with
  | error e => simp [h] at hser
  | ok r =>
    obtain ⟨b, ids'⟩ := r
    simp only [h] at hser
    injection hser with hb
    subst hb
    obtain ⟨ls, st, h1, h2, h3, h4, h5⟩ := archive_roundtrip_denote F heap hax fuelW _ b ids' h
      (by intro s hs; obtain ⟨s0, hs0, rfl⟩ := List.mem_map.mp hs; exact hok s0 hs0) (hsize b ids' h)
    refine ⟨ids', ls, st, h1, h2, h3, ?_, h5⟩
    exact AllMatch.imp (AllMatch.of_map _ h4) (fun s _ ls hh => ⟨hh.2.1, hh.2.2.1, hh.2.2.2.1, hh.2.2.2.2⟩)

/-- **archive_roundtrip_flat_denote_source_partial.** Composition with C07's `flatten_sound`.
    The heap of the archive model cannot hold remap/apply nodes, so the *unflattened* tree of a shape
    is given on the expression side as `src s : Expr UInt32`, and that the heap-side `flat` (a bare
    function on node ids in `serializeFlat`) realises C07's `Expr.flatten` is the hypothesis `hrel`:
    from fuel `D` on, the tree at `flat s.tree` is `Expr.flatten K (src s)`.  Then, for every lawful
    interpretation (C07's `Lawful K I`: field arithmetic for + − × ÷ neg square, idempotence of
    abs/min/max, exact folding; every other opcode uninterpreted) every reloaded shape denotes the
    function of the original, unflattened tree.
    Remaining hypothesis: `hrel` (the tie between the C++ `Tree::flatten` on pointers and
    `Expr.flatten`); for remap-free shapes it holds with `flat = id` and `src s = toExpr …` by
    `toExpr_wellformed`. -/
theorem archive_roundtrip_flat_denote_source_partial {α : Type} [Field α] (K : ConstOps UInt32)
    (I : Libfive.Interp UInt32 α) (L : Lawful K I)
    (F : Folder) (heap : NodeId → Node) (flat : NodeId → NodeId)
    (hax : AxesUnique heap) (fuelW : Nat) (shapes : List Shape) (bytes : List Byte)
    (hser : serializeFlat heap flat fuelW shapes = .ok bytes)
    (hok : ∀ s ∈ shapes, ShapeOK heap fuelW { s with tree := flat s.tree })
    (hsize : ∀ b ids', serShapes heap fuelW [] (shapes.map fun s => { s with tree := flat s.tree }) = .ok (b, ids') →
      ids'.length < 4294967296)
    (src : Shape → Expr UInt32) (D : Nat) (hw : ∀ s ∈ shapes, wellArity (src s))
    (hrel : ∀ s ∈ shapes, ∀ d, D ≤ d → toExpr heap idName d (flat s.tree) = Expr.flatten K (src s)) :
    ∃ (ids' : List NodeId) (lshapes : List LShape) (st : DState),
      deserialize F bytes = .ok (lshapes, st) ∧ st.log = [] ∧ st.inp = ⟨[], true⟩ ∧
      AllMatch (fun s ls => ∀ (d : Nat), D ≤ d → ∀ (env env' : Env α), EnvTransport ids' st.trees env env' →
        Expr.denote I (toExpr (hget st.heap) idName d ls.tree) env' = Expr.denote I (src s) env) shapes lshapes := by
  obtain ⟨ids', ls, st, h1, h2, h3, h4, _⟩ :=
    archive_roundtrip_flat_denote F heap flat hax fuelW shapes bytes hser hok hsize
  refine ⟨ids', ls, st, h1, h2, h3, AllMatch.imp h4 ?_⟩
  intro s hs l hh d hd env env' ht
  have := hh.2.1 α I d env env' ht
  simp only at this
  rw [← this, hrel s hs d hd, Libfive.flatten_sound L (src s) env (hw s hs)]

/-! ## the hypotheses are satisfiable: C08's example archive -/

/-- `exHeap` is built bottom-up -/
theorem exChildrenSmaller : ChildrenSmaller exHeap := by
  intro n
  match n with
  | 0 | 1 | 2 | 3 | 4 | 5 | 6 | 7 => simp [exHeap, Op.args]
  | k + 8 => simp [exHeap, Op.args]

/-- shape 4 of `exShapes`, `min(x*y, x+1) - v`, as an expression (node-id naming: `v` is node 6) -/
example : toExpr exHeap idName 4 7 =
    .bin .sub (.bin .min (.bin .mul .x .y) (.bin .add .x (.const 0x3f800000))) (.var 6) := by decide

/-- … and with more fuel it stays that tree -/
example (d : Nat) (hd : 7 < d) : toExpr exHeap idName d 7 =
    .bin .sub (.bin .min (.bin .mul .x .y) (.bin .add .x (.const 0x3f800000))) (.var 6) := by
  rw [toExpr_enough_fuel_ids exHeap exChildrenSmaller idName d 7 hd]; decide

/-- `evalAt` on it, in integers with an interpretation that only knows `+ − × min` -/
example :
    let I : Libfive.Interp UInt32 Int :=
      { const := fun c => if c = 0x3f800000 then 1 else 0
        un := fun _ a => a
        bin := fun op a b => match op with
          | .add => a + b | .sub => a - b | .mul => a * b | .min => if a ≤ b then a else b | _ => 0
        orc := fun _ _ _ _ => 0
        bad := 0 }
    let env : Env Int := { x := 3, y := 5, z := 0, vars := fun v => if v = 7 then 10 else 0 }
    -- `serShapes` stores v (node 6) at stream position 6, i.e. variable `optCode (some 6) = 7`
    evalAt (interpOf I env) exHeap (posOf [0, 1, 3, 2, 4, 5, 6, 7]) 4 7 = -6 ∧
    Expr.denote I (toExpr exHeap (posName (posOf [0, 1, 3, 2, 4, 5, 6, 7])) 4 7) env = -6 := by
  decide

theorem exShapesOK : ∀ s ∈ exShapes, ShapeOK exHeap 8 s := by
  intro s hs
  apply shapeOK_of_check
  simp only [exShapes, List.mem_cons, List.not_mem_nil, or_false] at hs
  rcases hs with rfl | rfl | rfl | rfl <;> decide

theorem exSer : ∃ (bytes : List Byte) (ids' : List NodeId),
    serShapes exHeap 8 [] exShapes = .ok (bytes, ids') ∧ ids'.length < 4294967296 :=
  ⟨_, _, rfl, by decide⟩

/-- the hypotheses of `archive_roundtrip_denote` hold for `exHeap` / `exShapes` (four shapes, one by
    reference, one a sub-expression, one with a named free variable), so for every folder the archive
    loads back as shapes with the same trees / the same denotation -/
example (F : Folder) : ∃ (bytes : List Byte) (ids' : List NodeId) (lshapes : List LShape) (st : DState),
    serShapes exHeap 8 [] exShapes = .ok (bytes, ids') ∧ deserialize F bytes = .ok (lshapes, st) ∧
    AllMatch (fun s ls => SameTree exHeap ids' st.heap st.trees s ls ∧
      SameDenotation exHeap ids' st.heap st.trees s ls) exShapes lshapes := by
  obtain ⟨bytes, ids', h, hlen⟩ := exSer
  obtain ⟨ls, st, h1, _, _, hm, _⟩ := archive_roundtrip_denote F exHeap exAxes 8 exShapes bytes ids' h exShapesOK hlen
  exact ⟨bytes, ids', ls, st, h, h1, AllMatch.imp hm (fun s _ l hh => ⟨hh.2.1, hh.2.2.1⟩)⟩

/-- and the flat variant with `flat = id` (remap-free shapes are their own flattening), composed with
    C07: over ℚ-like fields every reloaded shape denotes what the source expression denotes; here the
    source is read off the heap, so `hrel` is `toExpr_wellformed` -/
example {α : Type} [Field α] (K : ConstOps UInt32) (I : Libfive.Interp UInt32 α) (L : Lawful K I) (F : Folder)
    (bytes : List Byte) (hser : serializeFlat exHeap id 8 exShapes = .ok bytes) :
    ∃ (ids' : List NodeId) (lshapes : List LShape) (st : DState),
      deserialize F bytes = .ok (lshapes, st) ∧ st.log = [] ∧ st.inp = ⟨[], true⟩ ∧
      AllMatch (fun s ls => ∀ (d : Nat), 8 ≤ d → ∀ (env env' : Env α), EnvTransport ids' st.trees env env' →
        Expr.denote I (toExpr (hget st.heap) idName d ls.tree) env'
          = Expr.denote I (toExpr exHeap idName 8 s.tree) env) exShapes lshapes := by
  have hmap : (exShapes.map fun s => { s with tree := id s.tree }) = exShapes := by decide
  apply archive_roundtrip_flat_denote_source_partial K I L F exHeap id exAxes 8 exShapes bytes hser
    (fun s hs => exShapesOK s hs)
    (by
      intro b ids' h
      rw [hmap] at h
      obtain ⟨b0, i0, h0, hl0⟩ := exSer
      rw [h0] at h
      injection h with h; injection h with _ hi
      rw [← hi]; exact hl0)
    (fun s => toExpr exHeap idName 8 s.tree) 8 (fun s _ => wellArity_toExpr _ _ _ _)
  intro s hs d hd
  rw [flatten_toExpr]
  simp only [exShapes, List.mem_cons, List.not_mem_nil, or_false] at hs
  have hd' : 7 < d := by omega
  rcases hs with rfl | rfl | rfl | rfl <;> simp only [id] <;>
    rw [toExpr_enough_fuel_ids exHeap exChildrenSmaller idName d _ (by omega),
      toExpr_enough_fuel_ids exHeap exChildrenSmaller idName 8 _ (by omega)]

end Libfive.C08
