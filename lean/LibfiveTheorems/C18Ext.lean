/-
  C18 (extension) — the remaining transcribed functions of libfive's standard library mean what
  they say (or, where they do not, what they actually compute).  Property theorems only; helper
  lemmas are in LibfiveProofs/StdlibExt.lean, the model in LibfiveModel/Stdlib.lean.

  Conventions as in LibfiveTheorems/C18.lean: `eval e ρ x y z` is the value over ℝ of the tree `e`
  at the point (x,y,z), free variable `i` having the value `ρ i`; scalar parameters are passed as
  free variables (`var i`), shapes are arbitrary trees (`a.isConst = false`: not a bare constant).
-/
import LibfiveProofs.StdlibExt
import LibfiveTheorems.C18
set_option linter.unusedSimpArgs false
set_option linter.unnecessarySeqFocus false
set_option linter.unusedVariables false

namespace Libfive.C18
open Libfive Libfive.Stdlib Libfive.Stdlib.SExpr

variable (F : Folder)

/-! ## CSG -/

/-- **offset**(a, o = v_i): inside ↔ the field of `a` is below `o` (for a distance field: the
    points closer than `o` to the solid; positive offsets expand, negative ones shrink). -/
theorem offset_inside (a : SExpr) (i : ℕ) (ρ : ℕ → ℝ) (x y z : ℝ) :
    eval (offset F a (var i)) ρ x y z < 0 ↔ eval a ρ x y z < ρ i := by
  rw [eval_offset F a (var i) rfl]; exact sub_neg

/-- offset by an arbitrary (non-constant) tree -/
theorem offset_inside_tree (a o : SExpr) (ho : o.isConst = false) (ρ : ℕ → ℝ) (x y z : ℝ) :
    eval (offset F a o) ρ x y z < 0 ↔ eval a ρ x y z < eval o ρ x y z := by
  rw [eval_offset F a o ho]; exact sub_neg

/-- **shell**(a, o): the band `-|o| < a < 0` just inside the surface of `a` (for either sign of
    the offset: the code uses `-|o|`). -/
theorem shell_inside (a o : SExpr) (ha : a.isConst = false) (ho : o.isConst = false)
    (ρ : ℕ → ℝ) (x y z : ℝ) :
    eval (shell F a o) ρ x y z < 0 ↔ -|eval o ρ x y z| < eval a ρ x y z ∧ eval a ρ x y z < 0 := by
  rw [eval_shell F a o ha ho, max_lt_iff]
  constructor
  · rintro ⟨h1, h2⟩; exact ⟨by linarith, h1⟩
  · rintro ⟨h1, h2⟩; exact ⟨h2, by linarith⟩

theorem shell_inside_var (a : SExpr) (i : ℕ) (ha : a.isConst = false) (ρ : ℕ → ℝ) (x y z : ℝ) :
    eval (shell F a (var i)) ρ x y z < 0 ↔ -|ρ i| < eval a ρ x y z ∧ eval a ρ x y z < 0 :=
  shell_inside F a (var i) ha rfl ρ x y z

/-- **morph**(a, b, m = v_i) is the pointwise affine combination `(1-m)·a + m·b` … -/
theorem morph_value (a b : SExpr) (i : ℕ) (hb : b.isConst = false) (ρ : ℕ → ℝ) (x y z : ℝ) :
    eval (morph F a b (var i)) ρ x y z = (1 - ρ i) * eval a ρ x y z + ρ i * eval b ρ x y z := by
  rw [eval_morph F a b i hb]; ring

/-- … so `m = 0` produces `a` and `m = 1` produces `b` (as documented) -/
theorem morph_zero (a b : SExpr) (i : ℕ) (hb : b.isConst = false) (ρ : ℕ → ℝ) (x y z : ℝ)
    (hm : ρ i = 0) : eval (morph F a b (var i)) ρ x y z = eval a ρ x y z := by
  rw [morph_value F a b i hb, hm]; ring
theorem morph_one (a b : SExpr) (i : ℕ) (hb : b.isConst = false) (ρ : ℕ → ℝ) (x y z : ℝ)
    (hm : ρ i = 1) : eval (morph F a b (var i)) ρ x y z = eval b ρ x y z := by
  rw [morph_value F a b i hb, hm]; ring

/-- for 0 ≤ m ≤ 1 the morph lies between intersection and union -/
theorem morph_between (a b : SExpr) (i : ℕ) (hb : b.isConst = false) (ρ : ℕ → ℝ) (x y z : ℝ)
    (h0 : 0 ≤ ρ i) (h1 : ρ i ≤ 1) :
    (eval a ρ x y z < 0 ∧ eval b ρ x y z < 0 → eval (morph F a b (var i)) ρ x y z < 0) ∧
    (eval (morph F a b (var i)) ρ x y z < 0 → eval a ρ x y z < 0 ∨ eval b ρ x y z < 0) := by
  rw [morph_value F a b i hb]
  constructor
  · rintro ⟨h2, h3⟩
    rcases eq_or_lt_of_le h0 with h | h
    · rw [← h]; linarith
    · nlinarith [mul_neg_of_pos_of_neg h h3, mul_nonpos_of_nonneg_of_nonpos (sub_nonneg.mpr h1) h2.le]
  · intro h
    by_contra hc
    push Not at hc
    nlinarith [mul_nonneg (sub_nonneg.mpr h1) hc.1, mul_nonneg h0 hc.2]

/-- **loft**(a, b, zmin = v_i, zmax = v_j): exactly what the code computes -/
theorem loft_value (a b : SExpr) (i j : ℕ) (ha : a.isConst = false) (ρ : ℕ → ℝ) (x y z : ℝ) :
    eval (loft F a b (var i) (var j)) ρ x y z =
      max (z - ρ j) (max (ρ i - z)
        (((z - ρ i) * eval b ρ x y z + (ρ j - z) * eval a ρ x y z) / (ρ j - ρ i))) :=
  eval_loft F a b i j ha ρ x y z

/-- for zmin < zmax: strictly between the two heights, and the convex combination of the two
    2D fields with weight `t = (z - zmin)/(zmax - zmin)` (0 at zmin, 1 at zmax) is negative -/
theorem loft_inside (a b : SExpr) (i j : ℕ) (ha : a.isConst = false) (ρ : ℕ → ℝ) (x y z : ℝ)
    (h : ρ i < ρ j) :
    eval (loft F a b (var i) (var j)) ρ x y z < 0 ↔
      (ρ i < z ∧ z < ρ j) ∧
      (1 - (z - ρ i) / (ρ j - ρ i)) * eval a ρ x y z + (z - ρ i) / (ρ j - ρ i) * eval b ρ x y z < 0 := by
  rw [loft_value F a b i j ha]
  have hd : 0 < ρ j - ρ i := by linarith
  have e : (1 - (z - ρ i) / (ρ j - ρ i)) * eval a ρ x y z + (z - ρ i) / (ρ j - ρ i) * eval b ρ x y z
      = ((z - ρ i) * eval b ρ x y z + (ρ j - z) * eval a ρ x y z) / (ρ j - ρ i) := by
    field_simp; ring
  rw [e]; simp only [max_lt_iff, sub_neg]
  tauto

/-- on the bottom plane z = zmin the field is `max 0 a`: it vanishes exactly on the closed section
    of `a` ("a at zmin"), and likewise `b` at zmax -/
theorem loft_bottom (a b : SExpr) (i j : ℕ) (ha : a.isConst = false) (ρ : ℕ → ℝ) (x y : ℝ)
    (h : ρ i < ρ j) :
    eval (loft F a b (var i) (var j)) ρ x y (ρ i) = max 0 (eval a ρ x y (ρ i)) := by
  rw [loft_value F a b i j ha]
  have hd : ρ j - ρ i ≠ 0 := by linarith
  have e : ((ρ i - ρ i) * eval b ρ x y (ρ i) + (ρ j - ρ i) * eval a ρ x y (ρ i)) / (ρ j - ρ i)
      = eval a ρ x y (ρ i) := by field_simp; ring
  rw [e, sub_self, max_eq_right]
  exact le_trans (by linarith) (le_max_left _ _)
theorem loft_top (a b : SExpr) (i j : ℕ) (ha : a.isConst = false) (ρ : ℕ → ℝ) (x y : ℝ)
    (h : ρ i < ρ j) :
    eval (loft F a b (var i) (var j)) ρ x y (ρ j) = max 0 (eval b ρ x y (ρ j)) := by
  rw [loft_value F a b i j ha]
  have hd : ρ j - ρ i ≠ 0 := by linarith
  have e : ((ρ j - ρ i) * eval b ρ x y (ρ j) + (ρ j - ρ j) * eval a ρ x y (ρ j)) / (ρ j - ρ i)
      = eval b ρ x y (ρ j) := by field_simp; ring
  rw [e, sub_self]
  have h1 : ρ i - ρ j ≤ 0 := by linarith
  rcases le_total (ρ i - ρ j) (eval b ρ x y (ρ j)) with h2 | h2
  · rw [max_eq_right h2]
  · rw [max_eq_left h2, max_eq_left h1, max_eq_left (le_trans h2 h1)]

/-- **blend_expt**(a, b, m = v_i): the formula -/
theorem blend_expt_value (a b : SExpr) (i : ℕ) (ha : a.isConst = false) (hb : b.isConst = false)
    (ρ : ℕ → ℝ) (x y z : ℝ) :
    eval (blend_expt F a b (var i)) ρ x y z =
      -(Real.log (Real.exp (-(ρ i) * eval a ρ x y z) + Real.exp (-(ρ i) * eval b ρ x y z))) / ρ i :=
  eval_blend_expt F a b i ha hb ρ x y z

/-- for m > 0: inside ↔ `exp(-m·a) + exp(-m·b) > 1` -/
theorem blend_expt_inside (a b : SExpr) (i : ℕ) (ha : a.isConst = false) (hb : b.isConst = false)
    (ρ : ℕ → ℝ) (x y z : ℝ) (hm : 0 < ρ i) :
    eval (blend_expt F a b (var i)) ρ x y z < 0 ↔
      1 < Real.exp (-(ρ i) * eval a ρ x y z) + Real.exp (-(ρ i) * eval b ρ x y z) := by
  rw [blend_expt_value F a b i ha hb]
  have hS : 0 < Real.exp (-(ρ i) * eval a ρ x y z) + Real.exp (-(ρ i) * eval b ρ x y z) :=
    add_pos (Real.exp_pos _) (Real.exp_pos _)
  rw [div_neg_iff]
  constructor
  · rintro (⟨_, h2⟩ | ⟨h1, _⟩)
    · linarith
    · have : 0 < Real.log (Real.exp (-(ρ i) * eval a ρ x y z) + Real.exp (-(ρ i) * eval b ρ x y z)) := by
        linarith
      exact (Real.log_pos_iff hS.le).mp this
  · intro h
    exact Or.inr ⟨by have := Real.log_pos h; linarith, hm⟩

/-- for m > 0 the exponential blend contains the union (it only adds material) -/
theorem blend_expt_contains_union (a b : SExpr) (i : ℕ) (ha : a.isConst = false)
    (hb : b.isConst = false) (ρ : ℕ → ℝ) (x y z : ℝ) (hm : 0 < ρ i)
    (h : eval a ρ x y z < 0 ∨ eval b ρ x y z < 0) : eval (blend_expt F a b (var i)) ρ x y z < 0 := by
  rw [blend_expt_inside F a b i ha hb ρ x y z hm]
  rcases h with h | h
  · have : 1 < Real.exp (-(ρ i) * eval a ρ x y z) := Real.one_lt_exp_iff.mpr (by nlinarith)
    have := Real.exp_pos (-(ρ i) * eval b ρ x y z); linarith
  · have : 1 < Real.exp (-(ρ i) * eval b ρ x y z) := Real.one_lt_exp_iff.mpr (by nlinarith)
    have := Real.exp_pos (-(ρ i) * eval a ρ x y z); linarith

/-- **blend_expt_unit**(a, b, m = v_i) (alias `blend`) is `blend_expt` with parameter `2.75 / m²` -/
theorem blend_expt_unit_value (a b : SExpr) (i : ℕ) (ha : a.isConst = false) (hb : b.isConst = false)
    (ρ : ℕ → ℝ) (x y z : ℝ) :
    eval (blend_expt_unit F a b (var i)) ρ x y z =
      -(Real.log (Real.exp (-(2.75 / ρ i ^ 2) * eval a ρ x y z) +
                  Real.exp (-(2.75 / ρ i ^ 2) * eval b ρ x y z))) / (2.75 / ρ i ^ 2) := by
  rw [eval_blend_expt_unit F a b i ha hb, Real.rpow_two]

/-- **blend_rough**(a, b, m = v_i): the union plus the fillet `√|a| + √|b| < m` -/
theorem blend_rough_inside (a b : SExpr) (i : ℕ) (ha : a.isConst = false) (hb : b.isConst = false)
    (ρ : ℕ → ℝ) (x y z : ℝ) :
    eval (blend_rough F a b (var i)) ρ x y z < 0 ↔
      eval a ρ x y z < 0 ∨ eval b ρ x y z < 0 ∨
      Real.sqrt |eval a ρ x y z| + Real.sqrt |eval b ρ x y z| < ρ i := by
  rw [eval_blend_rough F a b i ha hb]; simp only [min_lt_iff, sub_neg]

/-- **blend_difference**(a, b, m = v_i, o = v_j) = `-(blend(-a, b - o, m))`: the De Morgan dual of
    the blended union, applied to `a` minus `b` grown by `o` -/
theorem blend_difference_value (a b : SExpr) (i j : ℕ) (ha : a.isConst = false)
    (hna : (inverse F a).isConst = false) (ρ : ℕ → ℝ) (x y z : ℝ) :
    eval (blend_difference F a b (var i) (var j)) ρ x y z =
      -(-(Real.log (Real.exp (-(2.75 / ρ i ^ 2) * -(eval a ρ x y z)) +
                  Real.exp (-(2.75 / ρ i ^ 2) * (eval b ρ x y z - ρ j)))) / (2.75 / ρ i ^ 2)) := by
  rw [eval_blend_difference F a b i j ha hna, Real.rpow_two]

/-- a blended difference never adds material to plain `a \ (b grown by o)`… it is contained in `a` -/
theorem blend_difference_subset (a b : SExpr) (i j : ℕ) (ha : a.isConst = false)
    (hna : (inverse F a).isConst = false) (ρ : ℕ → ℝ) (x y z : ℝ) (hm : ρ i ≠ 0)
    (h : eval (blend_difference F a b (var i) (var j)) ρ x y z < 0) : eval a ρ x y z < 0 := by
  rw [blend_difference_value F a b i j ha hna] at h
  have hM : 0 < 2.75 / ρ i ^ 2 := by positivity
  set M := 2.75 / ρ i ^ 2
  set A := eval a ρ x y z
  set S := Real.exp (-M * -A) + Real.exp (-M * (eval b ρ x y z - ρ j))
  have hS : 0 < S := add_pos (Real.exp_pos _) (Real.exp_pos _)
  have h1 : 0 < -(Real.log S) / M := by linarith
  have h2 : Real.log S < 0 := by
    rcases (div_pos_iff.mp h1) with ⟨h3, _⟩ | ⟨_, h4⟩
    · linarith
    · linarith
  have h3 : S < 1 := (Real.log_neg_iff hS).mp h2
  have h4 : Real.exp (-M * -A) < 1 := by
    have := Real.exp_pos (-M * (eval b ρ x y z - ρ j)); linarith
  have h5 : -M * -A < 0 := Real.exp_lt_one_iff.mp h4
  by_contra hc
  push Not at hc
  nlinarith [mul_nonneg hM.le hc]

/-- **loft_between**(a, b, lower = (v_i1,v_i2,v_i3), upper = (v_j1,v_j2,v_j3)): a loft between
    `lower.z` and `upper.z` of the two sections *sheared*: with `t = (z - lower.z)/(upper.z - lower.z)`,
    `a` is sampled at `(x,y) - t·(upper.xy - lower.xy)` (in place at the bottom, carried along to
    `upper.xy - lower.xy` at the top) and `b` at `(x,y) + (1-t)·(upper.xy - lower.xy)` (in place at the top). -/
theorem loft_between_value (a b : SExpr) (i1 i2 i3 j1 j2 j3 : ℕ) (ha : a.isConst = false)
    (ρ : ℕ → ℝ) (x y z : ℝ) :
    eval (loft_between F a b ⟨var i1, var i2, var i3⟩ ⟨var j1, var j2, var j3⟩) ρ x y z =
      max (z - ρ j3) (max (ρ i3 - z)
        (((z - ρ i3) * eval b ρ (x + (ρ j3 - z) / (ρ j3 - ρ i3) * (ρ j1 - ρ i1))
                                  (y + (ρ j3 - z) / (ρ j3 - ρ i3) * (ρ j2 - ρ i2)) z
          + (ρ j3 - z) * eval a ρ (x + (z - ρ i3) / (ρ j3 - ρ i3) * (ρ i1 - ρ j1))
                                    (y + (z - ρ i3) / (ρ j3 - ρ i3) * (ρ i2 - ρ j2)) z)
         / (ρ j3 - ρ i3))) :=
  eval_loft_between F a b i1 i2 i3 j1 j2 j3 ha ρ x y z

theorem loft_between_inside (a b : SExpr) (i1 i2 i3 j1 j2 j3 : ℕ) (ha : a.isConst = false)
    (ρ : ℕ → ℝ) (x y z : ℝ) (h : ρ i3 < ρ j3) :
    eval (loft_between F a b ⟨var i1, var i2, var i3⟩ ⟨var j1, var j2, var j3⟩) ρ x y z < 0 ↔
      (ρ i3 < z ∧ z < ρ j3) ∧
      (1 - (z - ρ i3) / (ρ j3 - ρ i3)) *
          eval a ρ (x + (z - ρ i3) / (ρ j3 - ρ i3) * (ρ i1 - ρ j1))
                   (y + (z - ρ i3) / (ρ j3 - ρ i3) * (ρ i2 - ρ j2)) z
        + (z - ρ i3) / (ρ j3 - ρ i3) *
          eval b ρ (x + (ρ j3 - z) / (ρ j3 - ρ i3) * (ρ j1 - ρ i1))
                   (y + (ρ j3 - z) / (ρ j3 - ρ i3) * (ρ j2 - ρ i2)) z < 0 := by
  rw [loft_between_value F a b i1 i2 i3 j1 j2 j3 ha, loft_formula_neg _ _ _ _ _ h]

/-- `loft` is `loft_between` without shear, and agrees with `loft_inside` -/
theorem loft_inside' (a b : SExpr) (i j : ℕ) (ha : a.isConst = false) (ρ : ℕ → ℝ) (x y z : ℝ)
    (h : ρ i < ρ j) :
    eval (loft F a b (var i) (var j)) ρ x y z < 0 ↔
      (ρ i < z ∧ z < ρ j) ∧
      (1 - (z - ρ i) / (ρ j - ρ i)) * eval a ρ x y z + (z - ρ i) / (ρ j - ρ i) * eval b ρ x y z < 0 := by
  rw [loft_value F a b i j ha, loft_formula_neg _ _ _ _ _ h]

/-! ## Shapes -/

/-- **emptiness** is empty everywhere: never negative (the constant +∞; over ℝ its bit pattern is
    given the positive junk value 2¹²⁸) -/
theorem emptiness_nowhere_inside (ρ : ℕ → ℝ) (x y z : ℝ) : ¬ eval emptiness ρ x y z < 0 := by
  rw [eval_emptiness]; exact not_lt.mpr f32Real_inf_pos.le

/-- union with emptiness changes nothing -/
theorem union_emptiness (a : SExpr) (ha : a.isConst = false) (ρ : ℕ → ℝ) (x y z : ℝ) :
    eval (union F a emptiness) ρ x y z < 0 ↔ eval a ρ x y z < 0 := by
  rw [eval_union F a _ ha, min_lt_iff]
  exact ⟨fun h => h.resolve_right (emptiness_nowhere_inside ρ x y z), Or.inl⟩

/-- **rounded_rectangle**(a = (v0,v1), b = (v2,v3), r = v4): the union of the two rectangles shrunk
    by `r` in y resp. x and the four discs of radius `r` centred at the corners of the rectangle
    shrunk by `r` in both directions -/
theorem rounded_rectangle_inside (ρ : ℕ → ℝ) (x y z : ℝ) (hr : 0 < ρ 4) :
    eval (rounded_rectangle F ⟨var 0, var 1⟩ ⟨var 2, var 3⟩ (var 4)) ρ x y z < 0 ↔
      ((ρ 0 < x ∧ x < ρ 2) ∧ (ρ 1 + ρ 4 < y ∧ y < ρ 3 - ρ 4)) ∨
      ((ρ 0 + ρ 4 < x ∧ x < ρ 2 - ρ 4) ∧ (ρ 1 < y ∧ y < ρ 3)) ∨
      (x - (ρ 0 + ρ 4)) ^ 2 + (y - (ρ 1 + ρ 4)) ^ 2 < ρ 4 ^ 2 ∨
      (x - (ρ 2 - ρ 4)) ^ 2 + (y - (ρ 3 - ρ 4)) ^ 2 < ρ 4 ^ 2 ∨
      (x - (ρ 0 + ρ 4)) ^ 2 + (y - (ρ 3 - ρ 4)) ^ 2 < ρ 4 ^ 2 ∨
      (x - (ρ 2 - ρ 4)) ^ 2 + (y - (ρ 1 + ρ 4)) ^ 2 < ρ 4 ^ 2 := by
  rw [eval_rounded_rectangle]
  simp only [min_lt_iff, max_lt_iff, sub_neg, Real.sqrt_lt' hr, ← sq, or_assoc]

/-! ## Arrays -/

/-- **array_x**(shape, nx ≥ 1, dx = v_i): inside ↔ inside one of the `nx` copies; copy `k` is the
    shape moved by `dx · natShift k` along x (`natShift 0 = 0`, `natShift k` = the float literal `k`).
    (`nx = 0` behaves like `nx = 1`: the loop body never runs.) -/
theorem array_x_inside (s : SExpr) (n i : ℕ) (hs : s.isConst = false) (hn : 1 ≤ n)
    (ρ : ℕ → ℝ) (x y z : ℝ) :
    eval (array_x F s n (var i)) ρ x y z < 0 ↔
      ∃ k, k < n ∧ eval s ρ (x - ρ i * natShift k) y z < 0 := by
  unfold array_x
  apply array_loop_inside F _ s hs n hn ρ x y z (fun k => eval s ρ (x - ρ i * natShift k) y z < 0)
  · simp [natShift]
  · intro k; rw [eval_move', eval_pitch, eval_c0, sub_zero, sub_zero]; simp [natShift]

theorem nc_array_x (s : SExpr) (n : ℕ) (d : SExpr) (hs : s.isConst = false) :
    (array_x F s n d).isConst = false := by
  unfold array_x; exact nc_foldl_union F _ _ s hs

/-- with exact integer literals (true below 2²⁴; `Float32.ofNat` is opaque to the kernel, the
    correspondence run checks the literals): the `n` copies at pitch `dx` -/
theorem array_x_inside_exact (s : SExpr) (n i : ℕ) (hs : s.isConst = false) (hn : 1 ≤ n)
    (ρ : ℕ → ℝ) (x y z : ℝ) (hlit : ∀ k, k < n → natLit k = k) :
    eval (array_x F s n (var i)) ρ x y z < 0 ↔
      ∃ k, k < n ∧ eval s ρ (x - k * ρ i) y z < 0 := by
  rw [array_x_inside F s n i hs hn]
  have e : ∀ k, k < n → ρ i * natShift k = k * ρ i := by
    intro k hk
    unfold natShift
    split
    · next h => subst h; simp
    · rw [hlit k hk]; ring
  constructor
  · rintro ⟨k, hk, h⟩; exact ⟨k, hk, by rw [← e k hk]; exact h⟩
  · rintro ⟨k, hk, h⟩; exact ⟨k, hk, by rw [e k hk]; exact h⟩

/-- **array_xy**(shape, nx, ny ≥ 1, delta = (v_i, v_j)): the nx·ny grid of copies -/
theorem array_xy_inside (s : SExpr) (nx ny i j : ℕ) (hs : s.isConst = false) (hnx : 1 ≤ nx)
    (hny : 1 ≤ ny) (ρ : ℕ → ℝ) (x y z : ℝ) :
    eval (array_xy F s nx ny ⟨var i, var j⟩) ρ x y z < 0 ↔
      ∃ kx ky, kx < nx ∧ ky < ny ∧
        eval s ρ (x - ρ i * natShift kx) (y - ρ j * natShift ky) z < 0 := by
  unfold array_xy
  simp only []
  rw [array_loop_inside F _ _ (nc_array_x F s nx _ hs) ny hny ρ x y z
    (fun k => eval (array_x F s nx (var i)) ρ x (y - ρ j * natShift k) z < 0)
    (by simp [natShift])
    (by intro k; rw [eval_move', eval_pitch, eval_c0, sub_zero, sub_zero]; simp [natShift])]
  simp only [array_x_inside F s nx i hs hnx]
  constructor
  · rintro ⟨ky, hky, kx, hkx, h⟩; exact ⟨kx, ky, hkx, hky, h⟩
  · rintro ⟨kx, ky, hkx, hky, h⟩; exact ⟨ky, hky, kx, hkx, h⟩

theorem nc_array_xy (s : SExpr) (nx ny : ℕ) (d : V2) (hs : s.isConst = false) :
    (array_xy F s nx ny d).isConst = false := by
  unfold array_xy; exact nc_foldl_union F _ _ _ (nc_array_x F s nx _ hs)

/-- **array_xyz**(shape, nx, ny, nz ≥ 1, delta = (v_i, v_j, v_l)): the nx·ny·nz lattice of copies -/
theorem array_xyz_inside (s : SExpr) (nx ny nz i j l : ℕ) (hs : s.isConst = false) (hnx : 1 ≤ nx)
    (hny : 1 ≤ ny) (hnz : 1 ≤ nz) (ρ : ℕ → ℝ) (x y z : ℝ) :
    eval (array_xyz F s nx ny nz ⟨var i, var j, var l⟩) ρ x y z < 0 ↔
      ∃ kx ky kz, kx < nx ∧ ky < ny ∧ kz < nz ∧
        eval s ρ (x - ρ i * natShift kx) (y - ρ j * natShift ky) (z - ρ l * natShift kz) < 0 := by
  unfold array_xyz
  simp only []
  rw [array_loop_inside F _ _ (nc_array_xy F s nx ny _ hs) nz hnz ρ x y z
    (fun k => eval (array_xy F s nx ny ⟨var i, var j⟩) ρ x y (z - ρ l * natShift k) < 0)
    (by simp [natShift])
    (by intro k; rw [eval_move', eval_pitch, eval_c0, sub_zero, sub_zero]; simp [natShift])]
  simp only [array_xy_inside F s nx ny i j hs hnx hny]
  constructor
  · rintro ⟨kz, hkz, kx, ky, hkx, hky, h⟩; exact ⟨kx, ky, kz, hkx, hky, hkz, h⟩
  · rintro ⟨kx, ky, kz, hkx, hky, hkz, h⟩; exact ⟨kz, hkz, kx, ky, hkx, hky, h⟩

/-! ## revolve -/

/-- **revolve_y**(shape, x0 = v_i): the value at p is the smaller of the 2D shape's values at
    `(x0 ± r, y)`, r = distance of p from the axis {x = x0, z = 0}.  (`hF`: the folder evaluates
    `-(0.0f)` to a zero — the C++ builds `-center` with `center.y = center.z = Tree(0)`.) -/
theorem revolve_y_spec (s : SExpr) (i : ℕ) (hs : s.isConst = false)
    (hF : f32Real (F.un Op.neg 0) = 0) (ρ : ℕ → ℝ) (x y z : ℝ) :
    eval (revolve_y F s (var i)) ρ x y z =
      min (eval s ρ (ρ i + Real.sqrt ((x - ρ i) ^ 2 + z ^ 2)) y z)
          (eval s ρ (ρ i - Real.sqrt ((x - ρ i) ^ 2 + z ^ 2)) y z) := by
  rw [eval_revolve_y F s i hs hF, sq, sq]

theorem revolve_y_inside (s : SExpr) (i : ℕ) (hs : s.isConst = false)
    (hF : f32Real (F.un Op.neg 0) = 0) (ρ : ℕ → ℝ) (x y z : ℝ) :
    eval (revolve_y F s (var i)) ρ x y z < 0 ↔
      eval s ρ (ρ i + Real.sqrt ((x - ρ i) ^ 2 + z ^ 2)) y z < 0 ∨
      eval s ρ (ρ i - Real.sqrt ((x - ρ i) ^ 2 + z ^ 2)) y z < 0 := by
  rw [revolve_y_spec F s i hs hF, min_lt_iff]

/-! ## attract / repel: `T s` at p is `s` at `locus + (p - locus) · fallout`, on the masked axes,
    with `fallout = 1 ± exaggerate · exp(-d / radius)`, d = masked distance from the locus.
    (`hsq, hadd`: the folder computes `0² = +0` and `0 + 0 = +0` exactly, as IEEE does.) -/

theorem attract_repel_generic_spec (t : SExpr) (i j k r e : ℕ) (sgn : SExpr) (σ : ℝ)
    (hs : (sgn = c1 ∧ σ = 1) ∨ (sgn = cNeg1 ∧ σ = -1)) (ax ay az : Bool)
    (hsq : F.un Op.square 0 = 0) (hadd : F.bin Op.add 0 0 = 0) (ρ : ℕ → ℝ) (x y z : ℝ) :
    eval (attract_repel_generic F t ⟨var i, var j, var k⟩ (var r) (var e) sgn ax ay az) ρ x y z =
      eval t ρ
        ((x - ρ i) * (if ax then fallout σ (ρ e) (ρ r)
            (Real.sqrt (msq ax (x - ρ i) + msq ay (y - ρ j) + msq az (z - ρ k))) else 1) + ρ i)
        ((y - ρ j) * (if ay then fallout σ (ρ e) (ρ r)
            (Real.sqrt (msq ax (x - ρ i) + msq ay (y - ρ j) + msq az (z - ρ k))) else 1) + ρ j)
        ((z - ρ k) * (if az then fallout σ (ρ e) (ρ r)
            (Real.sqrt (msq ax (x - ρ i) + msq ay (y - ρ j) + msq az (z - ρ k))) else 1) + ρ k) :=
  eval_attract_repel F t i j k r e sgn σ hs ax ay az hsq hadd ρ x y z

theorem repel_spec (t : SExpr) (i j k r e : ℕ) (ρ : ℕ → ℝ) (x y z : ℝ) :
    eval (repel F t ⟨var i, var j, var k⟩ (var r) (var e)) ρ x y z =
      eval t ρ ((x - ρ i) * fallout (-1) (ρ e) (ρ r) (Real.sqrt ((x - ρ i) * (x - ρ i) + (y - ρ j) * (y - ρ j) + (z - ρ k) * (z - ρ k))) + ρ i)
        ((y - ρ j) * fallout (-1) (ρ e) (ρ r) (Real.sqrt ((x - ρ i) * (x - ρ i) + (y - ρ j) * (y - ρ j) + (z - ρ k) * (z - ρ k))) + ρ j)
        ((z - ρ k) * fallout (-1) (ρ e) (ρ r) (Real.sqrt ((x - ρ i) * (x - ρ i) + (y - ρ j) * (y - ρ j) + (z - ρ k) * (z - ρ k))) + ρ k) := by
  unfold repel attract_repel_generic
  simp only []
  rw [eval_move', eval_remap, eval_move']
  simp [v3neg, eval, denote, realI, realBin, realUn, mkBinary, mkBinaryFuel, binaryFuel, mkUnary, c0, c1, cNeg1,
    isZeroBits, isOneBits, isNegOneBits, fallout, f32Real_one, f32Real_negone]

theorem repel_x_spec (t : SExpr) (i j k r e : ℕ) (hsq : F.un Op.square 0 = 0) (hadd : F.bin Op.add 0 0 = 0) (ρ : ℕ → ℝ) (x y z : ℝ) :
    eval (repel_x F t ⟨var i, var j, var k⟩ (var r) (var e)) ρ x y z =
      eval t ρ ((x - ρ i) * fallout (-1) (ρ e) (ρ r) (Real.sqrt ((x - ρ i) * (x - ρ i))) + ρ i)
        y
        z := by
  have h := eval_attract_repel F t i j k r e cNeg1 (-1) (Or.inr ⟨rfl, rfl⟩) true false false hsq hadd ρ x y z
  simpa [msq, repel_x] using h

theorem repel_y_spec (t : SExpr) (i j k r e : ℕ) (hsq : F.un Op.square 0 = 0) (hadd : F.bin Op.add 0 0 = 0) (ρ : ℕ → ℝ) (x y z : ℝ) :
    eval (repel_y F t ⟨var i, var j, var k⟩ (var r) (var e)) ρ x y z =
      eval t ρ x
        ((y - ρ j) * fallout (-1) (ρ e) (ρ r) (Real.sqrt ((y - ρ j) * (y - ρ j))) + ρ j)
        z := by
  have h := eval_attract_repel F t i j k r e cNeg1 (-1) (Or.inr ⟨rfl, rfl⟩) false true false hsq hadd ρ x y z
  simpa [msq, repel_y] using h

theorem repel_z_spec (t : SExpr) (i j k r e : ℕ) (hsq : F.un Op.square 0 = 0) (hadd : F.bin Op.add 0 0 = 0) (ρ : ℕ → ℝ) (x y z : ℝ) :
    eval (repel_z F t ⟨var i, var j, var k⟩ (var r) (var e)) ρ x y z =
      eval t ρ x
        y
        ((z - ρ k) * fallout (-1) (ρ e) (ρ r) (Real.sqrt ((z - ρ k) * (z - ρ k))) + ρ k) := by
  have h := eval_attract_repel F t i j k r e cNeg1 (-1) (Or.inr ⟨rfl, rfl⟩) false false true hsq hadd ρ x y z
  simpa [msq, repel_z] using h

theorem repel_xy_spec (t : SExpr) (i j k r e : ℕ) (hsq : F.un Op.square 0 = 0) (hadd : F.bin Op.add 0 0 = 0) (ρ : ℕ → ℝ) (x y z : ℝ) :
    eval (repel_xy F t ⟨var i, var j, var k⟩ (var r) (var e)) ρ x y z =
      eval t ρ ((x - ρ i) * fallout (-1) (ρ e) (ρ r) (Real.sqrt ((x - ρ i) * (x - ρ i) + (y - ρ j) * (y - ρ j))) + ρ i)
        ((y - ρ j) * fallout (-1) (ρ e) (ρ r) (Real.sqrt ((x - ρ i) * (x - ρ i) + (y - ρ j) * (y - ρ j))) + ρ j)
        z := by
  have h := eval_attract_repel F t i j k r e cNeg1 (-1) (Or.inr ⟨rfl, rfl⟩) true true false hsq hadd ρ x y z
  simpa [msq, repel_xy] using h

theorem repel_yz_spec (t : SExpr) (i j k r e : ℕ) (hsq : F.un Op.square 0 = 0) (hadd : F.bin Op.add 0 0 = 0) (ρ : ℕ → ℝ) (x y z : ℝ) :
    eval (repel_yz F t ⟨var i, var j, var k⟩ (var r) (var e)) ρ x y z =
      eval t ρ x
        ((y - ρ j) * fallout (-1) (ρ e) (ρ r) (Real.sqrt ((y - ρ j) * (y - ρ j) + (z - ρ k) * (z - ρ k))) + ρ j)
        ((z - ρ k) * fallout (-1) (ρ e) (ρ r) (Real.sqrt ((y - ρ j) * (y - ρ j) + (z - ρ k) * (z - ρ k))) + ρ k) := by
  have h := eval_attract_repel F t i j k r e cNeg1 (-1) (Or.inr ⟨rfl, rfl⟩) false true true hsq hadd ρ x y z
  simpa [msq, repel_yz] using h

theorem repel_xz_spec (t : SExpr) (i j k r e : ℕ) (hsq : F.un Op.square 0 = 0) (hadd : F.bin Op.add 0 0 = 0) (ρ : ℕ → ℝ) (x y z : ℝ) :
    eval (repel_xz F t ⟨var i, var j, var k⟩ (var r) (var e)) ρ x y z =
      eval t ρ ((x - ρ i) * fallout (-1) (ρ e) (ρ r) (Real.sqrt ((x - ρ i) * (x - ρ i) + (z - ρ k) * (z - ρ k))) + ρ i)
        y
        ((z - ρ k) * fallout (-1) (ρ e) (ρ r) (Real.sqrt ((x - ρ i) * (x - ρ i) + (z - ρ k) * (z - ρ k))) + ρ k) := by
  have h := eval_attract_repel F t i j k r e cNeg1 (-1) (Or.inr ⟨rfl, rfl⟩) true false true hsq hadd ρ x y z
  simpa [msq, repel_xz] using h

theorem attract_spec (t : SExpr) (i j k r e : ℕ) (ρ : ℕ → ℝ) (x y z : ℝ) :
    eval (attract F t ⟨var i, var j, var k⟩ (var r) (var e)) ρ x y z =
      eval t ρ ((x - ρ i) * fallout (1) (ρ e) (ρ r) (Real.sqrt ((x - ρ i) * (x - ρ i) + (y - ρ j) * (y - ρ j) + (z - ρ k) * (z - ρ k))) + ρ i)
        ((y - ρ j) * fallout (1) (ρ e) (ρ r) (Real.sqrt ((x - ρ i) * (x - ρ i) + (y - ρ j) * (y - ρ j) + (z - ρ k) * (z - ρ k))) + ρ j)
        ((z - ρ k) * fallout (1) (ρ e) (ρ r) (Real.sqrt ((x - ρ i) * (x - ρ i) + (y - ρ j) * (y - ρ j) + (z - ρ k) * (z - ρ k))) + ρ k) := by
  unfold attract attract_repel_generic
  simp only []
  rw [eval_move', eval_remap, eval_move']
  simp [v3neg, eval, denote, realI, realBin, realUn, mkBinary, mkBinaryFuel, binaryFuel, mkUnary, c0, c1, cNeg1,
    isZeroBits, isOneBits, isNegOneBits, fallout, f32Real_one, f32Real_negone]

theorem attract_x_spec (t : SExpr) (i j k r e : ℕ) (hsq : F.un Op.square 0 = 0) (hadd : F.bin Op.add 0 0 = 0) (ρ : ℕ → ℝ) (x y z : ℝ) :
    eval (attract_x F t ⟨var i, var j, var k⟩ (var r) (var e)) ρ x y z =
      eval t ρ ((x - ρ i) * fallout (1) (ρ e) (ρ r) (Real.sqrt ((x - ρ i) * (x - ρ i))) + ρ i)
        y
        z := by
  have h := eval_attract_repel F t i j k r e c1 (1) (Or.inl ⟨rfl, rfl⟩) true false false hsq hadd ρ x y z
  simpa [msq, attract_x] using h

theorem attract_y_spec (t : SExpr) (i j k r e : ℕ) (hsq : F.un Op.square 0 = 0) (hadd : F.bin Op.add 0 0 = 0) (ρ : ℕ → ℝ) (x y z : ℝ) :
    eval (attract_y F t ⟨var i, var j, var k⟩ (var r) (var e)) ρ x y z =
      eval t ρ x
        ((y - ρ j) * fallout (1) (ρ e) (ρ r) (Real.sqrt ((y - ρ j) * (y - ρ j))) + ρ j)
        z := by
  have h := eval_attract_repel F t i j k r e c1 (1) (Or.inl ⟨rfl, rfl⟩) false true false hsq hadd ρ x y z
  simpa [msq, attract_y] using h

theorem attract_z_spec (t : SExpr) (i j k r e : ℕ) (hsq : F.un Op.square 0 = 0) (hadd : F.bin Op.add 0 0 = 0) (ρ : ℕ → ℝ) (x y z : ℝ) :
    eval (attract_z F t ⟨var i, var j, var k⟩ (var r) (var e)) ρ x y z =
      eval t ρ x
        y
        ((z - ρ k) * fallout (1) (ρ e) (ρ r) (Real.sqrt ((z - ρ k) * (z - ρ k))) + ρ k) := by
  have h := eval_attract_repel F t i j k r e c1 (1) (Or.inl ⟨rfl, rfl⟩) false false true hsq hadd ρ x y z
  simpa [msq, attract_z] using h

theorem attract_xy_spec (t : SExpr) (i j k r e : ℕ) (hsq : F.un Op.square 0 = 0) (hadd : F.bin Op.add 0 0 = 0) (ρ : ℕ → ℝ) (x y z : ℝ) :
    eval (attract_xy F t ⟨var i, var j, var k⟩ (var r) (var e)) ρ x y z =
      eval t ρ ((x - ρ i) * fallout (1) (ρ e) (ρ r) (Real.sqrt ((x - ρ i) * (x - ρ i) + (y - ρ j) * (y - ρ j))) + ρ i)
        ((y - ρ j) * fallout (1) (ρ e) (ρ r) (Real.sqrt ((x - ρ i) * (x - ρ i) + (y - ρ j) * (y - ρ j))) + ρ j)
        z := by
  have h := eval_attract_repel F t i j k r e c1 (1) (Or.inl ⟨rfl, rfl⟩) true true false hsq hadd ρ x y z
  simpa [msq, attract_xy] using h

theorem attract_yz_spec (t : SExpr) (i j k r e : ℕ) (hsq : F.un Op.square 0 = 0) (hadd : F.bin Op.add 0 0 = 0) (ρ : ℕ → ℝ) (x y z : ℝ) :
    eval (attract_yz F t ⟨var i, var j, var k⟩ (var r) (var e)) ρ x y z =
      eval t ρ x
        ((y - ρ j) * fallout (1) (ρ e) (ρ r) (Real.sqrt ((y - ρ j) * (y - ρ j) + (z - ρ k) * (z - ρ k))) + ρ j)
        ((z - ρ k) * fallout (1) (ρ e) (ρ r) (Real.sqrt ((y - ρ j) * (y - ρ j) + (z - ρ k) * (z - ρ k))) + ρ k) := by
  have h := eval_attract_repel F t i j k r e c1 (1) (Or.inl ⟨rfl, rfl⟩) false true true hsq hadd ρ x y z
  simpa [msq, attract_yz] using h

theorem attract_xz_spec (t : SExpr) (i j k r e : ℕ) (hsq : F.un Op.square 0 = 0) (hadd : F.bin Op.add 0 0 = 0) (ρ : ℕ → ℝ) (x y z : ℝ) :
    eval (attract_xz F t ⟨var i, var j, var k⟩ (var r) (var e)) ρ x y z =
      eval t ρ ((x - ρ i) * fallout (1) (ρ e) (ρ r) (Real.sqrt ((x - ρ i) * (x - ρ i) + (z - ρ k) * (z - ρ k))) + ρ i)
        y
        ((z - ρ k) * fallout (1) (ρ e) (ρ r) (Real.sqrt ((x - ρ i) * (x - ρ i) + (z - ρ k) * (z - ρ k))) + ρ k) := by
  have h := eval_attract_repel F t i j k r e c1 (1) (Or.inl ⟨rfl, rfl⟩) true false true hsq hadd ρ x y z
  simpa [msq, attract_xz] using h

/-! ## twirl: a rotation about the x (y, z) axis through the centre whose angle
    `amount · exp(-d / radius)` decays with the distance d from the centre (`twirl_*`) or from the
    axis (`twirl_axis_*`) -/

theorem twirl_x_spec (s : SExpr) (a r i j k : ℕ) (ρ : ℕ → ℝ) (x y z : ℝ) :
    eval (twirl_x F s (var a) (var r) ⟨var i, var j, var k⟩) ρ x y z =
      eval s ρ x
        (Real.cos (twirlAngle (ρ a) (ρ r) (Real.sqrt ((x - ρ i) * (x - ρ i) + (y - ρ j) * (y - ρ j) + (z - ρ k) * (z - ρ k)))) * (y - ρ j) +
         Real.sin (twirlAngle (ρ a) (ρ r) (Real.sqrt ((x - ρ i) * (x - ρ i) + (y - ρ j) * (y - ρ j) + (z - ρ k) * (z - ρ k)))) * (z - ρ k) + ρ j)
        (Real.cos (twirlAngle (ρ a) (ρ r) (Real.sqrt ((x - ρ i) * (x - ρ i) + (y - ρ j) * (y - ρ j) + (z - ρ k) * (z - ρ k)))) * (z - ρ k) -
         Real.sin (twirlAngle (ρ a) (ρ r) (Real.sqrt ((x - ρ i) * (x - ρ i) + (y - ρ j) * (y - ρ j) + (z - ρ k) * (z - ρ k)))) * (y - ρ j) + ρ k) :=
  eval_twirl_x F s a r i j k ρ x y z

theorem twirl_axis_x_spec (s : SExpr) (a r i j k : ℕ) (hsq : F.un Op.square 0 = 0)
    (ρ : ℕ → ℝ) (x y z : ℝ) :
    eval (twirl_axis_x F s (var a) (var r) ⟨var i, var j, var k⟩) ρ x y z =
      eval s ρ x
        (Real.cos (twirlAngle (ρ a) (ρ r) (Real.sqrt ((y - ρ j) * (y - ρ j) + (z - ρ k) * (z - ρ k)))) * (y - ρ j) +
         Real.sin (twirlAngle (ρ a) (ρ r) (Real.sqrt ((y - ρ j) * (y - ρ j) + (z - ρ k) * (z - ρ k)))) * (z - ρ k) + ρ j)
        (Real.cos (twirlAngle (ρ a) (ρ r) (Real.sqrt ((y - ρ j) * (y - ρ j) + (z - ρ k) * (z - ρ k)))) * (z - ρ k) -
         Real.sin (twirlAngle (ρ a) (ρ r) (Real.sqrt ((y - ρ j) * (y - ρ j) + (z - ρ k) * (z - ρ k)))) * (y - ρ j) + ρ k) :=
  eval_twirl_axis_x F s a r i j k hsq ρ x y z

theorem twirl_y_spec (s : SExpr) (a r i j k : ℕ) (ρ : ℕ → ℝ) (x y z : ℝ) :
    eval (twirl_y F s (var a) (var r) ⟨var i, var j, var k⟩) ρ x y z =
      eval s ρ
        (Real.cos (twirlAngle (ρ a) (ρ r) (Real.sqrt ((y - ρ j) * (y - ρ j) + (x - ρ i) * (x - ρ i) + (z - ρ k) * (z - ρ k)))) * (x - ρ i) +
         Real.sin (twirlAngle (ρ a) (ρ r) (Real.sqrt ((y - ρ j) * (y - ρ j) + (x - ρ i) * (x - ρ i) + (z - ρ k) * (z - ρ k)))) * (z - ρ k) + ρ i)
        y
        (Real.cos (twirlAngle (ρ a) (ρ r) (Real.sqrt ((y - ρ j) * (y - ρ j) + (x - ρ i) * (x - ρ i) + (z - ρ k) * (z - ρ k)))) * (z - ρ k) -
         Real.sin (twirlAngle (ρ a) (ρ r) (Real.sqrt ((y - ρ j) * (y - ρ j) + (x - ρ i) * (x - ρ i) + (z - ρ k) * (z - ρ k)))) * (x - ρ i) + ρ k) :=
  eval_twirl_y F s a r i j k ρ x y z

theorem twirl_axis_y_spec (s : SExpr) (a r i j k : ℕ) (hsq : F.un Op.square 0 = 0)
    (ρ : ℕ → ℝ) (x y z : ℝ) :
    eval (twirl_axis_y F s (var a) (var r) ⟨var i, var j, var k⟩) ρ x y z =
      eval s ρ
        (Real.cos (twirlAngle (ρ a) (ρ r) (Real.sqrt ((x - ρ i) * (x - ρ i) + (z - ρ k) * (z - ρ k)))) * (x - ρ i) +
         Real.sin (twirlAngle (ρ a) (ρ r) (Real.sqrt ((x - ρ i) * (x - ρ i) + (z - ρ k) * (z - ρ k)))) * (z - ρ k) + ρ i)
        y
        (Real.cos (twirlAngle (ρ a) (ρ r) (Real.sqrt ((x - ρ i) * (x - ρ i) + (z - ρ k) * (z - ρ k)))) * (z - ρ k) -
         Real.sin (twirlAngle (ρ a) (ρ r) (Real.sqrt ((x - ρ i) * (x - ρ i) + (z - ρ k) * (z - ρ k)))) * (x - ρ i) + ρ k) :=
  eval_twirl_axis_y F s a r i j k hsq ρ x y z

theorem twirl_z_spec (s : SExpr) (a r i j k : ℕ) (ρ : ℕ → ℝ) (x y z : ℝ) :
    eval (twirl_z F s (var a) (var r) ⟨var i, var j, var k⟩) ρ x y z =
      eval s ρ
        (Real.cos (twirlAngle (ρ a) (ρ r) (Real.sqrt ((z - ρ k) * (z - ρ k) + (y - ρ j) * (y - ρ j) + (x - ρ i) * (x - ρ i)))) * (x - ρ i) -
         Real.sin (twirlAngle (ρ a) (ρ r) (Real.sqrt ((z - ρ k) * (z - ρ k) + (y - ρ j) * (y - ρ j) + (x - ρ i) * (x - ρ i)))) * (y - ρ j) + ρ i)
        (Real.cos (twirlAngle (ρ a) (ρ r) (Real.sqrt ((z - ρ k) * (z - ρ k) + (y - ρ j) * (y - ρ j) + (x - ρ i) * (x - ρ i)))) * (y - ρ j) +
         Real.sin (twirlAngle (ρ a) (ρ r) (Real.sqrt ((z - ρ k) * (z - ρ k) + (y - ρ j) * (y - ρ j) + (x - ρ i) * (x - ρ i)))) * (x - ρ i) + ρ j)
        z :=
  eval_twirl_z F s a r i j k ρ x y z

theorem twirl_axis_z_spec (s : SExpr) (a r i j k : ℕ) (hsq : F.un Op.square 0 = 0)
    (ρ : ℕ → ℝ) (x y z : ℝ) :
    eval (twirl_axis_z F s (var a) (var r) ⟨var i, var j, var k⟩) ρ x y z =
      eval s ρ
        (Real.cos (twirlAngle (ρ a) (ρ r) (Real.sqrt ((y - ρ j) * (y - ρ j) + (x - ρ i) * (x - ρ i)))) * (x - ρ i) -
         Real.sin (twirlAngle (ρ a) (ρ r) (Real.sqrt ((y - ρ j) * (y - ρ j) + (x - ρ i) * (x - ρ i)))) * (y - ρ j) + ρ i)
        (Real.cos (twirlAngle (ρ a) (ρ r) (Real.sqrt ((y - ρ j) * (y - ρ j) + (x - ρ i) * (x - ρ i)))) * (y - ρ j) +
         Real.sin (twirlAngle (ρ a) (ρ r) (Real.sqrt ((y - ρ j) * (y - ρ j) + (x - ρ i) * (x - ρ i)))) * (x - ρ i) + ρ j)
        z :=
  eval_twirl_axis_z F s a r i j k hsq ρ x y z

/-- the twirl angle is `amount` at the centre and tends to 0 far away: a pure twist near the
    centre that leaves distant points (almost) fixed -/
theorem twirlAngle_center (a r : ℝ) : twirlAngle a r 0 = a := by
  unfold twirlAngle; simp

/-! ## gyroid -/

/-- **gyroid**(period = (v0,v1,v2), thickness = v3): the shell of thickness |thickness| just inside
    the zero set of `sin(x·px/τ)cos(y·py/τ) + sin(y·py/τ)cos(z·pz/τ) + sin(z·pz/τ)cos(x·px/τ)`,
    τ = the single-precision literal 2π -/
theorem gyroid_value (ρ : ℕ → ℝ) (x y z : ℝ) :
    eval (gyroid F ⟨var 0, var 1, var 2⟩ (var 3)) ρ x y z =
      max (gyroidField (ρ 0) (ρ 1) (ρ 2) tauVal x y z)
        (-(gyroidField (ρ 0) (ρ 1) (ρ 2) tauVal x y z + |ρ 3|)) :=
  eval_gyroid F ρ x y z

theorem gyroid_inside (ρ : ℕ → ℝ) (x y z : ℝ) :
    eval (gyroid F ⟨var 0, var 1, var 2⟩ (var 3)) ρ x y z < 0 ↔
      -|ρ 3| < gyroidField (ρ 0) (ρ 1) (ρ 2) tauVal x y z ∧
      gyroidField (ρ 0) (ρ 1) (ρ 2) tauVal x y z < 0 := by
  rw [gyroid_value, max_lt_iff]
  constructor
  · rintro ⟨h1, h2⟩; exact ⟨by linarith, h1⟩
  · rintro ⟨h1, h2⟩; exact ⟨h2, by linarith⟩

/-- **gyroid_period_actual.**  What the "period" parameter really does: the field repeats along x
    with period `2π·τ / period.x` (≈ 4π² / period.x), i.e. `period` acts as an angular *frequency*
    scaled by τ, not as a period. -/
theorem gyroid_period_actual (px py pz τ x y z : ℝ) (hp : px ≠ 0) (hτ : τ ≠ 0) :
    gyroidField px py pz τ (x + 2 * Real.pi * τ / px) y z = gyroidField px py pz τ x y z := by
  unfold gyroidField
  have e : (x + 2 * Real.pi * τ / px) * px / τ = x * px / τ + 2 * Real.pi := by
    field_simp
  rw [e, Real.sin_add_two_pi, Real.cos_add_two_pi]

/-- **gyroid_period_not_documented.**  The documented reading "a gyroid with the given periods"
    (the shape repeats when x advances by `period.x`) is false for the code: with period (1,1,1)
    and thickness 1 the field is 0 at the origin but `sin(1/τ) > 0` at (1,0,0).
    (`hτ`: the literal 2π is at least 1 — it is 6.2831855; `Float` is opaque to the kernel.) -/
theorem gyroid_period_not_documented (hτ : 1 ≤ tauVal) :
    ¬ ∀ (ρ : ℕ → ℝ) (x y z : ℝ),
        eval (gyroid F ⟨var 0, var 1, var 2⟩ (var 3)) ρ (x + ρ 0) y z =
        eval (gyroid F ⟨var 0, var 1, var 2⟩ (var 3)) ρ x y z := by
  intro h
  have h1 := h (fun _ => 1) 0 0 0
  rw [gyroid_value, gyroid_value] at h1
  have hpos : 0 < Real.sin (1 / tauVal) := by
    apply Real.sin_pos_of_pos_of_lt_pi
    · positivity
    · have : 1 / tauVal ≤ 1 := by rw [div_le_one (by linarith)]; exact hτ
      linarith [Real.two_le_pi]
  simp [gyroidField] at h1
  have h2 : Real.sin (tauVal⁻¹) ≤ 0 := by
    rw [← h1]; exact le_max_left _ _
  rw [one_div] at hpos
  linarith

/-! ## pyramid_z -/

/-- **pyramid_z**(a = (v0,v1), b = (v2,v3), zmin = v4, height = v5), a < b, height > 0: the pyramid
    over the base rectangle [a,b] at z = zmin with apex `height` above the centre of the base:
    above the base plane and, with (u,v) the offsets from the centre and d the half sides,
    `(z - zmin)/height < 1 - |u|/dx` and `< 1 - |v|/dy` (cross-multiplied).
    (`hmul`: the folder computes `2·0 = +0` exactly: the C++ builds `reflect_x(plane, 0.0)`.) -/
theorem pyramid_z_inside (hmul : F.bin Op.mul 0x40000000 0 = 0) (ρ : ℕ → ℝ) (x y z : ℝ)
    (hx : ρ 0 < ρ 2) (hy : ρ 1 < ρ 3) (hh : 0 < ρ 5) :
    eval (pyramid_z F ⟨var 0, var 1⟩ ⟨var 2, var 3⟩ (var 4) (var 5)) ρ x y z < 0 ↔
      ρ 4 < z ∧
      (z - ρ 4) * ((ρ 2 - ρ 0) / 2) < ρ 5 * ((ρ 2 - ρ 0) / 2 - |x - (ρ 0 + ρ 2) / 2|) ∧
      (z - ρ 4) * ((ρ 3 - ρ 1) / 2) < ρ 5 * ((ρ 3 - ρ 1) / 2 - |y - (ρ 1 + ρ 3) / 2|) := by
  have hdx : 0 < (ρ 2 - ρ 0) / 2 := by linarith
  have hdy : 0 < (ρ 3 - ρ 1) / 2 := by linarith
  rw [eval_pyramid_z F hmul]
  simp only [max_lt_iff, pyrPlane_neg_iff _ _ _ _ hdx hh, pyrPlane_neg_iff _ _ _ _ hdy hh,
    neg_neg_iff_pos, sub_pos]
  constructor
  · rintro ⟨⟨⟨h1, h2⟩, h3, h4⟩, h5⟩
    refine ⟨h5, ?_, ?_⟩
    · rcases abs_cases (x - (ρ 0 + ρ 2) / 2) with ⟨e, _⟩ | ⟨e, _⟩ <;> rw [e] <;> nlinarith
    · rcases abs_cases (y - (ρ 1 + ρ 3) / 2) with ⟨e, _⟩ | ⟨e, _⟩ <;> rw [e] <;> nlinarith
  · rintro ⟨h5, h1, h3⟩
    have ax1 := le_abs_self (x - (ρ 0 + ρ 2) / 2)
    have ax2 := neg_abs_le (x - (ρ 0 + ρ 2) / 2)
    have ay1 := le_abs_self (y - (ρ 1 + ρ 3) / 2)
    have ay2 := neg_abs_le (y - (ρ 1 + ρ 3) / 2)
    refine ⟨⟨⟨?_, ?_⟩, ?_, ?_⟩, h5⟩ <;> nlinarith

/-! ## rounded_box -/

theorem boxField_eq_boxSDF (hx hy hz cx cy cz x y z : ℝ) (h0 : 0 ≤ hx) (h1 : 0 ≤ hy) (h2 : 0 ≤ hz) :
    boxField hx hy hz cx cy cz x y z = boxSDF hx hy hz cx cy cz x y z := by
  unfold boxField boxSDF
  split
  · next hin =>
    obtain ⟨a, b, c⟩ := hin
    rw [max_eq_right (sub_nonpos.mpr a), max_eq_right (sub_nonpos.mpr b),
      max_eq_right (sub_nonpos.mpr c)]
    have hm : max (|x - cx| - hx) (max (|y - cy| - hy) (|z - cz| - hz)) ≤ 0 :=
      max_le (by linarith) (max_le (by linarith) (by linarith))
    rw [min_eq_right hm]
    simp only [mul_zero, add_zero, Real.sqrt_zero]
    rw [← max_neg_neg, ← max_neg_neg]; simp only [neg_sub]
  · next hout =>
    have hm : 0 ≤ max (|x - cx| - hx) (max (|y - cy| - hy) (|z - cz| - hz)) := by
      by_contra hc
      push Not at hc
      simp only [max_lt_iff, sub_neg] at hc
      exact hout ⟨hc.1.le, hc.2.1.le, hc.2.2.le⟩
    rw [min_eq_left hm, zero_add, clamp_dist_sq _ _ _ h0, clamp_dist_sq _ _ _ h1, clamp_dist_sq _ _ _ h2]

/-- **rounded_box**(a = (v0,v1,v2), b = (v3,v4,v5), r = v6), a ≤ b, 0 ≤ r ≤ 1: with
    `R = r · (shortest side) / 2`, the value is the signed Euclidean distance to the box shrunk by
    `R` on every side, minus `R` — the set of points closer than `R` to the shrunk box: the box
    [a,b] with edges and corners rounded at radius `R`. -/
theorem rounded_box_value (ρ : ℕ → ℝ) (x y z : ℝ) (h0 : ρ 0 ≤ ρ 3) (h1 : ρ 1 ≤ ρ 4) (h2 : ρ 2 ≤ ρ 5)
    (hr0 : 0 ≤ ρ 6) (hr1 : ρ 6 ≤ 1) :
    eval (rounded_box F ⟨var 0, var 1, var 2⟩ ⟨var 3, var 4, var 5⟩ (var 6)) ρ x y z =
      boxSDF ((ρ 3 - ρ 0) / 2 - rbRadius ρ) ((ρ 4 - ρ 1) / 2 - rbRadius ρ) ((ρ 5 - ρ 2) / 2 - rbRadius ρ)
        ((ρ 0 + ρ 3) / 2) ((ρ 1 + ρ 4) / 2) ((ρ 2 + ρ 5) / 2) x y z - rbRadius ρ := by
  rw [eval_rounded_box]
  have hm0 : 0 ≤ min (ρ 3 - ρ 0) (min (ρ 4 - ρ 1) (ρ 5 - ρ 2)) :=
    le_min (by linarith) (le_min (by linarith) (by linarith))
  have hR : rbRadius ρ ≤ min (ρ 3 - ρ 0) (min (ρ 4 - ρ 1) (ρ 5 - ρ 2)) / 2 := by
    unfold rbRadius; nlinarith
  have m1 : min (ρ 3 - ρ 0) (min (ρ 4 - ρ 1) (ρ 5 - ρ 2)) ≤ ρ 3 - ρ 0 := min_le_left _ _
  have m2 : min (ρ 3 - ρ 0) (min (ρ 4 - ρ 1) (ρ 5 - ρ 2)) ≤ ρ 4 - ρ 1 :=
    le_trans (min_le_right _ _) (min_le_left _ _)
  have m3 : min (ρ 3 - ρ 0) (min (ρ 4 - ρ 1) (ρ 5 - ρ 2)) ≤ ρ 5 - ρ 2 :=
    le_trans (min_le_right _ _) (min_le_right _ _)
  rw [show (ρ 3 - rbRadius ρ - (ρ 0 + rbRadius ρ)) / 2 = (ρ 3 - ρ 0) / 2 - rbRadius ρ by ring,
    show (ρ 4 - rbRadius ρ - (ρ 1 + rbRadius ρ)) / 2 = (ρ 4 - ρ 1) / 2 - rbRadius ρ by ring,
    show (ρ 5 - rbRadius ρ - (ρ 2 + rbRadius ρ)) / 2 = (ρ 5 - ρ 2) / 2 - rbRadius ρ by ring,
    show (ρ 0 + rbRadius ρ + (ρ 3 - rbRadius ρ)) / 2 = (ρ 0 + ρ 3) / 2 by ring,
    show (ρ 1 + rbRadius ρ + (ρ 4 - rbRadius ρ)) / 2 = (ρ 1 + ρ 4) / 2 by ring,
    show (ρ 2 + rbRadius ρ + (ρ 5 - rbRadius ρ)) / 2 = (ρ 2 + ρ 5) / 2 by ring,
    boxField_eq_boxSDF _ _ _ _ _ _ _ _ _ (by linarith) (by linarith) (by linarith)]

theorem rounded_box_inside (ρ : ℕ → ℝ) (x y z : ℝ) (h0 : ρ 0 ≤ ρ 3) (h1 : ρ 1 ≤ ρ 4) (h2 : ρ 2 ≤ ρ 5)
    (hr0 : 0 ≤ ρ 6) (hr1 : ρ 6 ≤ 1) :
    eval (rounded_box F ⟨var 0, var 1, var 2⟩ ⟨var 3, var 4, var 5⟩ (var 6)) ρ x y z < 0 ↔
      boxSDF ((ρ 3 - ρ 0) / 2 - rbRadius ρ) ((ρ 4 - ρ 1) / 2 - rbRadius ρ) ((ρ 5 - ρ 2) / 2 - rbRadius ρ)
        ((ρ 0 + ρ 3) / 2) ((ρ 1 + ρ 4) / 2) ((ρ 2 + ρ 5) / 2) x y z < rbRadius ρ := by
  rw [rounded_box_value F ρ x y z h0 h1 h2 hr0 hr1]; exact sub_neg

/-! ## array_polar_z (loop structure only) -/

/-- bit pattern of the single-precision angle `i * a`, `a = (float)(2π/n)`, of copy `i` -/
def polarAngleBits (n k : ℕ) : ℕ :=
  (Float32.ofNat k * (2 * M_PI / n.toFloat).toFloat32).toBits.toNat

/-- **array_polar_z_copies_partial.**  `array_polar_z(shape, n ≥ 1, center = (v_i, v_j))` is the union
    of the shape and of its `n - 1` images `rotate_z(shape, i·a, center)`, i = 1 … n-1.
    Full statement (NOT proved): copy `i` is the shape turned by `2π i / n` about the centre — the
    rotation trees have *constant* angles, so their `cos/sin` are folded in single precision by the
    evaluator (`Folder`), and the claim holds only up to that rounding; for a variable angle it is
    `C18.rotate_z_spec`. -/
theorem array_polar_z_copies_partial (s : SExpr) (n i j : ℕ) (hs : s.isConst = false) (hn : 1 ≤ n)
    (ρ : ℕ → ℝ) (x y z : ℝ) :
    eval (array_polar_z F s n ⟨var i, var j⟩) ρ x y z < 0 ↔
      ∃ k, k < n ∧ (if k = 0 then eval s ρ x y z < 0 else
        eval (rotate_z F s (const (polarAngleBits n k)) ⟨var i, var j, c0⟩) ρ x y z < 0) := by
  unfold array_polar_z
  simp only []
  apply array_loop_inside F _ s hs n hn ρ x y z (fun k => if k = 0 then eval s ρ x y z < 0 else
        eval (rotate_z F s (const (polarAngleBits n k)) ⟨var i, var j, c0⟩) ρ x y z < 0)
  · simp
  · intro k; simp [polarAngleBits]

/-! ## polygon (loop structure only) -/

/-- **polygon_halfplanes_partial.**  `polygon(r = v0, n, center = (v1,v2))` is, in coordinates
    relative to the centre, the intersection of the half plane `y < r·cos(π/n)` (apothem; literal
    `cosLit`) with its `n - 1` images `rotate_z(half, 2π i / n, 0)`, i = 1 … n-1.
    Full statement (NOT proved): these are the n edge half planes of the regular n-gon with
    circumradius r — the rotation angles are constants, so `cos/sin` are folded in single
    precision by the evaluator and the claim holds only up to that rounding. -/
theorem polygon_halfplanes_partial (n : ℕ) (ρ : ℕ → ℝ) (x y z : ℝ) :
    eval (polygon F (var 0) n ⟨var 1, var 2⟩) ρ x y z < 0 ↔
      (y - ρ 2) - ρ 0 * cosLit F n < 0 ∧
      ∀ k ∈ List.range (n - 1),
        eval (rotate_z F (polyHalf F n) (litD (2 * M_PI * (k + 1).toFloat / n.toFloat)) ⟨c0, c0, c0⟩)
          ρ (x - ρ 1) (y - ρ 2) z < 0 := by
  have h : polygon F (var 0) n ⟨var 1, var 2⟩ =
      move F ((List.range (n - 1)).foldl (fun out k => intersection F out
        (rotate_z F (polyHalf F n) (litD (2 * M_PI * (k + 1).toFloat / n.toFloat)) ⟨c0, c0, c0⟩))
        (polyHalf F n)) ⟨var 1, var 2, c0⟩ := rfl
  rw [h, eval_move', foldl_intersection_inside F _ _ _ _ _ _ _ (nc_polyHalf F n), eval_polyHalf]
  simp only [eval_var, eval_c0, sub_zero]

/-! ## Satisfiability of the hypotheses -/

/-- a folder that evaluates the zero cases like IEEE (`-0 → -0`, `0² → +0`, `0+0 → +0`, `2·0 → +0`) -/
def zeroFolder : Folder :=
  { un := fun op c => if op = Op.neg ∧ c = 0 then 0x80000000 else 0, bin := fun _ _ _ => 0 }

example : f32Real (zeroFolder.un Op.neg 0) = 0 := by
  show f32Real 0x80000000 = 0; exact f32Real_negzero
example : zeroFolder.un Op.square 0 = 0 := rfl
example : zeroFolder.bin Op.add 0 0 = 0 := rfl
example : zeroFolder.bin Op.mul 0x40000000 0 = 0 := rfl
/-- the value of the `2π` literal the C++ builds (0x40c90fdb = 6.2831855) satisfies `hτ` -/
example : 1 ≤ f32Real 0x40c90fdb := by norm_num [f32Real]
example : (SExpr.x).isConst = false ∧ (inverse F SExpr.x).isConst = false := ⟨rfl, rfl⟩
example : (var 7).isConst = false := rfl
/-- shell of the unit sphere field, thickness 1/2: the point at distance 3/4 from the centre is in the band -/
example : -|(1 / 2 : ℝ)| < (3 / 4 : ℝ) - 1 ∧ (3 / 4 : ℝ) - 1 < 0 := by
  rw [abs_of_pos (by norm_num)]; norm_num
example : ∃ ρ : ℕ → ℝ, ρ 0 < ρ 2 ∧ ρ 1 < ρ 3 ∧ 0 < ρ 5 ∧ ρ 0 ≤ ρ 3 ∧ ρ 1 ≤ ρ 4 ∧ ρ 2 ≤ ρ 5 :=
  ⟨fun i => i, by norm_num⟩
example : ∃ ρ : ℕ → ℝ, 0 ≤ ρ 6 ∧ ρ 6 ≤ 1 ∧ 0 < ρ 4 := ⟨fun _ => 1 / 2, by norm_num⟩
/-- the apex region of the pyramid over [-1,1]², height 1, zmin 0 contains (0,0,1/2) -/
example : ∃ ρ : ℕ → ℝ, eval (pyramid_z zeroFolder ⟨var 0, var 1⟩ ⟨var 2, var 3⟩ (var 4) (var 5)) ρ 0 0 (1 / 2) < 0 := by
  refine ⟨fun i => if i < 2 then -1 else if i = 4 then 0 else 1, ?_⟩
  rw [pyramid_z_inside zeroFolder rfl _ _ _ _ (by norm_num) (by norm_num) (by norm_num)]
  norm_num
/-- … and not the point (0.9, 0, 1/2) -/
example : ∃ ρ : ℕ → ℝ, ¬ eval (pyramid_z zeroFolder ⟨var 0, var 1⟩ ⟨var 2, var 3⟩ (var 4) (var 5)) ρ (9 / 10) 0 (1 / 2) < 0 := by
  refine ⟨fun i => if i < 2 then -1 else if i = 4 then 0 else 1, ?_⟩
  rw [pyramid_z_inside zeroFolder rfl _ _ _ _ (by norm_num) (by norm_num) (by norm_num)]
  norm_num
/-- morph half-way between x and y at (−3, 1): value −1 -/
example : ∃ ρ : ℕ → ℝ, eval (morph F SExpr.x SExpr.y (var 0)) ρ (-3) 1 0 = -1 :=
  ⟨fun _ => 1 / 2, by rw [morph_value F _ _ _ rfl]; show (1 - 1 / 2 : ℝ) * (-3) + 1 / 2 * 1 = -1; norm_num⟩
/-- three copies of the half space x < 0 … at pitch 2 (with exact literals) cover x = 3 < 4 -/
example (ρ : ℕ → ℝ) (h : ρ 0 = 2) (hlit : ∀ k, k < 3 → natLit k = k) :
    eval (array_x F SExpr.x 3 (var 0)) ρ 3 0 0 < 0 := by
  rw [array_x_inside_exact F _ 3 0 rfl (by norm_num) ρ _ _ _ hlit]
  exact ⟨2, by norm_num, by show (3 : ℝ) - (2 : ℕ) * ρ 0 < 0; rw [h]; norm_num⟩

end Libfive.C18
