/-
  C07 — Tree rewriting never changes the function.
  Property theorems only (helpers: LibfiveProofs/ExprSound.lean, LibfiveProofs/OptimizeSound.lean).
  `Lawful K I` (field arithmetic for + − × ÷ neg square, idempotence facts for abs/min/max, exact
  constant folding) is the only assumption about the meaning of opcodes; every other opcode is
  uninterpreted.
-/
import LibfiveProofs.ExprSound

namespace Libfive.C07
open Libfive Expr

variable {C α : Type} [Field α] [DecidableEq C] {K : ConstOps C} {I : Interp C α}

/-- **unary_sound.** The simplifications applied while building a unary node preserve the meaning
    of the operation. -/
theorem unary_sound (L : Lawful K I) (op : Op) (a : Expr C) (e : Env α) (h : op.args = some 1) :
    denote I (mkUnary K op a) e = I.un op (denote I a e) := mkUnary_sound L op a e h

/-- **binary_sound.** Likewise for binary nodes (identity elements, double negation,
    `x*x → square x`, `min(x,x) → x`, constant folding, …). -/
theorem binary_sound (L : Lawful K I) (op : Op) (a b : Expr C) (e : Env α) (h : op.args = some 2) :
    denote I (mkBinary K op a b) e = I.bin op (denote I a e) (denote I b e) :=
  mkBinary_sound L op a b e h

/-- **remap_is_composition.** `Tree::remap` (including the cases where it is skipped) denotes the
    composition of the tree with the coordinate maps, which are evaluated in the outer
    environment. -/
theorem remap_is_composition (t x' y' z' : Expr C) (e : Env α) :
    denote I (mkRemap t x' y' z') e =
      denote I t { e with x := denote I x' e, y := denote I y' e, z := denote I z' e } :=
  mkRemap_sound I t x' y' z' e

/-- **apply_is_lexical_substitution.** `Tree::apply` binds the variable to the value of `value`
    in the environment of the apply node (not of inner remaps). -/
theorem apply_is_lexical_substitution (t : Expr C) (v : Nat) (value : Expr C) (e : Env α) :
    denote I (mkApply t v value) e =
      denote I t { e with vars := fun w => if w = v then denote I value e else e.vars w } := rfl

/-- **flatten_sound.** Flattening (pushing remaps and applies down to the leaves, rebuilding
    every node through the simplifying constructors) preserves the function. -/
theorem flatten_sound (L : Lawful K I) (t : Expr C) (e : Env α) (hw : wellArity t) :
    denote I (flatten K t) e = denote I t e := Libfive.flatten_sound L t e hw

end Libfive.C07
