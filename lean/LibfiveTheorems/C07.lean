/-
  C07 — Tree rewriting never changes the function.
  Property theorems only (helpers: LibfiveProofs/ExprSound.lean, LibfiveProofs/OptimizeSound.lean).
  `Lawful K I` (field arithmetic for + − × ÷ neg square, idempotence facts for abs/min/max, exact
  constant folding) is the only assumption about the meaning of opcodes; every other opcode is
  uninterpreted.
-/
import LibfiveProofs.ExprSound
import LibfiveProofs.OptimizeSound
import LibfiveProofs.WellArity
import Mathlib.Data.Rat.Defs
import Mathlib.Algebra.Order.Field.Rat
import Mathlib.Tactic.NormNum

namespace Libfive.C07
open Libfive Expr

variable {C α : Type} [Field α] [DecidableEq C] {K : ConstOps C} {I : Interp C α}

/-- **unary_sound.** The simplifications applied while building a unary node preserve the meaning
    of the operation. -/
theorem unary_sound (L : Lawful K I) (op : Op) (a : Expr C) (e : Env α) (h : op.args = some 1) :
    denote I (mkUnary K op a) e = I.un op (denote I a e) := mkUnary_sound L op a e h

/-- **binary_sound.** Likewise for binary nodes (identity elements, double negation,
    `x*x → square x`, `min(x,x) → x`, constant folding, …). -/
theorem binary_sound (L : Lawful K I) (op : Op) (a b : Expr C) (e : Env α) (h : op.args = some 2) :
    denote I (mkBinary K op a b) e = I.bin op (denote I a e) (denote I b e) :=
  mkBinary_sound L op a b e h

/-- **remap_is_composition.** `Tree::remap` (including the cases where it is skipped) denotes the
    composition of the tree with the coordinate maps, which are evaluated in the outer
    environment. -/
theorem remap_is_composition (t x' y' z' : Expr C) (e : Env α) :
    denote I (mkRemap t x' y' z') e =
      denote I t { e with x := denote I x' e, y := denote I y' e, z := denote I z' e } :=
  mkRemap_sound I t x' y' z' e

/-- **apply_is_lexical_substitution.** `Tree::apply` binds the variable to the value of `value`
    in the environment of the apply node (not of inner remaps). -/
theorem apply_is_lexical_substitution (t : Expr C) (v : Nat) (value : Expr C) (e : Env α) :
    denote I (mkApply t v value) e =
      denote I t { e with vars := fun w => if w = v then denote I value e else e.vars w } := rfl

/-- **flatten_sound.** Flattening (pushing remaps and applies down to the leaves, rebuilding
    every node through the simplifying constructors) preserves the function. -/
theorem flatten_sound (L : Lawful K I) (t : Expr C) (e : Env α) (hw : wellArity t) :
    denote I (flatten K t) e = denote I t e := Libfive.flatten_sound L t e hw

open Libfive.Optimize

/-- **optimize_sound.** The optimiser (affine accumulation and collapse, commutative lists with
    sorting and de-duplication, common-subexpression merging by structural identity) preserves
    the function — for every sorting order, every fuel, every lawful interpretation. -/
theorem optimize_sound (L : LawfulOpt K I) (le : Expr C → Expr C → Bool) (t : Expr C) (e : Env α)
    (hw : wellArity t) : denote I (optimize K le t) e = denote I t e :=
  Libfive.Optimize.optimize_sound L le t e hw

/-- **optimized_sound.** `Tree::optimized()` = flatten, then optimise. -/
theorem optimized_sound (L : LawfulOpt K I) (le : Expr C → Expr C → Bool) (t : Expr C) (e : Env α)
    (hw : wellArity t) : denote I (optimize K le (flatten K t)) e = denote I t e := by
  rw [Libfive.Optimize.optimize_sound L le _ e (wellArity_flatten K t hw),
    Libfive.flatten_sound L.toLawful t e hw]

/-- **eq_sound.** Two trees that optimise to the same canonical tree (what `Tree::eq` tests)
    denote the same function. -/
theorem eq_sound (L : LawfulOpt K I) (le : Expr C → Expr C → Bool) (a b : Expr C)
    (ha : wellArity a) (hb : wellArity b)
    (h : optimize K le (flatten K a) = optimize K le (flatten K b)) (e : Env α) :
    denote I a e = denote I b e := by
  rw [← optimized_sound L le a e ha, ← optimized_sound L le b e hb, h]

/-- **collapse_sound.** The tree rebuilt from an affine coefficient map denotes Σ cᵢ·tᵢ. -/
theorem collapse_sound (L : LawfulOpt K I) (le : Expr C → Expr C → Bool) (m : AffMap C) (e : Env α) :
    denote I (collapse K le m) e = evalAff I m e :=
  Libfive.Optimize.collapse_sound L le m e

/-! ### the hypotheses are satisfiable: exact rational arithmetic -/

def Kq : ConstOps ℚ where
  isZero c := c == 0
  isOne c := c == 1
  isNegOne c := c == -1
  foldUn op c := match op with
    | Op.neg => -c | Op.square => c * c | Op.abs => |c| | _ => 0
  foldBin op a b := match op with
    | Op.add => a + b | Op.sub => a - b | Op.mul => a * b | Op.div => a / b
    | Op.min => min a b | Op.max => max a b
    | Op.pow => if b = 1 then a else 0 | Op.nthRoot => if b = 1 then a else 0
    | _ => 0
  zero := 0
  one := 1
  lt a b := decide (a < b)
  eqC a b := a == b
  fma a b c := a * b + c

def Iq : Interp ℚ ℚ where
  const c := c
  un := Kq.foldUn
  bin := Kq.foldBin
  orc _ _ _ _ := 0
  bad := 0

theorem Iq_lawful : LawfulOpt Kq Iq where
  add _ _ := rfl
  sub _ _ := rfl
  mul _ _ := rfl
  div _ _ := rfl
  neg _ := rfl
  square _ := rfl
  min_self a := min_self a
  max_self a := max_self a
  abs_abs a := abs_abs a
  abs_square a := abs_of_nonneg (mul_self_nonneg a)
  pow_one a c h := by simp [Kq] at h; simp [Iq, Kq, h]
  nthRoot_one a c h := by simp [Kq] at h; simp [Iq, Kq, h]
  isZero c h := by simpa [Kq, Iq] using h
  isOne c h := by simpa [Kq, Iq] using h
  isNegOne c h := by simpa [Kq, Iq] using h
  foldUn _ _ := rfl
  foldBin _ _ _ := rfl
  zero_val := rfl
  one_val := rfl
  eqC_sound a b h := by simpa [Kq, Iq] using h
  fma_val _ _ _ := rfl
  min_ac := ⟨fun a b => min_comm a b, fun a b c => min_assoc a b c⟩
  max_ac := ⟨fun a b => max_comm a b, fun a b c => max_assoc a b c⟩

-- a non-trivial instance: (2x + 3) + (2x − y) at x = 5, y = 1
example :
    denote Iq (optimize Kq (fun _ _ => true)
      (bin Op.add (bin Op.add (bin Op.mul (const 2) x) (const 3)) (bin Op.sub (bin Op.mul (const 2) x) y)))
      ⟨5, 1, 0, fun _ => 0⟩ = 22 := by
  rw [optimize_sound Iq_lawful]
  · simp [denote, Iq, Kq]; norm_num
  · simp [wellArity, Op.args]

end Libfive.C07
