/-
  C08, load-time rewriting: `Tree::unary` / `Tree::binary`, through which the deserializer rebuilds
  every clause, rewrite while they build (constant folding, `x + 0`, `x * 1`, `x * 0`, `-(-x)`,
  `min(x, x)`, …).  `archive_roundtrip` / `archive_roundtrip_denote` assume (`nodePlain`) that none of
  these rewrites fires.  Here: when they do fire the loaded *tree* differs from the stored one, but
  it still *denotes* the same function — for every interpretation of the opcodes that satisfies the
  equations the rewrite table relies on (`RewriteLaws`, spelled out below).
  Property theorems only; definitions (`RewriteLaws`, `FoldSound`, `LoadHeap`, `NodeSane`, `ShapeOKF`,
  `StepRes`, `SemInv`) and helper
  lemmas live in `LibfiveProofs/SerializeFold.lean`.

  ## What is assumed of the interpretation (`RewriteLaws F I`)

  One equation per rewrite of `act1` / `act2` (`LibfiveModel/Serialize.lean`), nothing else; `0`, `1`,
  `-1` stand for `I.const v` with `isZero v` (bit patterns `0x00000000`, `0x80000000`), `isOne v`
  (`0x3f800000`), `isMinusOne v` (`0xbf800000`):

    fold1, fold2   `const (F.f1 op c) = un op (const c)`, `const (F.f2 op c d) = bin op (const c) (const d)`
                   (the folder computes what the interpretation computes on constants)
    abs_abs        `abs (abs a) = abs a`            abs_square  `abs (square a) = square a`
    neg_neg        `neg (neg a) = a`
    div_one        `a / 1 = a`
    zero_add       `0 + a = a`                      add_zero    `a + 0 = a`
    neg_add        `(-a) + b = b - a`               add_neg     `a + (-b) = a - b`
    zero_sub       `0 - a = -a`                     sub_zero    `a - 0 = a`
    sub_neg        `a - (-b) = a + b`
    zero_mul       `0 * a = 0`                      mul_zero    `a * 0 = 0`   (the *constant node* is returned)
    one_mul        `1 * a = a`                      mul_one     `a * 1 = a`
    negone_mul     `(-1) * a = -a`                  mul_negone  `a * (-1) = -a`
    mul_self       `a * a = square a`
    nthRoot_one    `nth-root a 1 = a`               pow_one     `pow a 1 = a`
    min_self       `min a a = a`                    max_self    `max a a = a`

  These are laws of a field with `min`/`max`/`abs` (ℝ, ℚ: `foldSound_of_lawful` derives them from
  C07's `Lawful K I`), and of GF(2) (`gf2`, used for the non-vacuity example below).

  ## Which of them binary32 (IEEE 754, the type libfive computes in) violates

  * `zero_mul`, `mul_zero`: `0 * a = 0` fails for `a = ±inf` and `a = NaN` (the product is NaN), and
    in the sign of zero for every `a` with the sign bit set (`(-3) * (+0) = -0` but the rewrite returns
    the stored `+0`; `(-3) * (-0) = +0` but the rewrite returns the stored `-0`).
  * `zero_add`, `add_zero`: `(+0) + a = a` and `a + (+0) = a` fail in the sign of zero for `a = -0`
    (`(+0) + (-0) = +0` in round-to-nearest); with the constant `-0` both hold for every `a`.
  * `zero_sub`: `(+0) - a = -a` fails in the sign of zero for `a = +0` (`(+0) - (+0) = +0`, `-(+0) = -0`);
    with the constant `-0` it holds for every `a`.
  * `sub_zero`: `a - (-0) = a` fails in the sign of zero for `a = -0` (`(-0) - (-0) = +0`);
    `a - (+0) = a` holds for every `a`.
  * `min_self`, `max_self`, `abs_abs`, `abs_square`, `neg_neg`, `neg_add`, `add_neg`, `sub_neg`, `one_mul`,
    `mul_one`, `negone_mul`, `mul_negone`, `div_one`, `mul_self` hold for every binary32 value when NaNs
    are identified with each other (sign/payload of a NaN are not preserved); `pow_one`, `nthRoot_one`
    likewise as far as the library's `pow` is exact at exponent 1 (IEEE 754 recommends it).
  * `fold1`, `fold2` say that the folder (`ArrayEvaluator` on a one-clause tree) computes on constants
    exactly what the interpretation computes (the same hypothesis as C07's `Lawful.foldUn/foldBin`).
    With `I` = real arithmetic and libfive's actual folder (binary32, rounding) this fails wherever a
    fold rounds; with `I` = binary32 arithmetic it holds but the zero laws above fail.
  So for libfive as compiled no single interpretation satisfies all of `RewriteLaws`: the theorems
  below say that load-time rewriting is meaning-preserving *in exact field arithmetic with an exact
  folder* (ℝ, ℚ satisfy the algebraic laws).  In binary32 the value of a reloaded shape can differ
  from the stored one where a stored `a * 0` meets `a = ±inf/NaN` (NaN vs 0), and in the sign of a zero.
-/
import LibfiveTheorems.C08Expr
import LibfiveProofs.SerializeFold

namespace Libfive.C08
open Libfive Libfive.Serial

/-! ## (1) one constructor call on the loader's heap -/

/-- **load_unary_preserves_meaning.** `Tree::unary(op, a)` as the loader runs it (`mkUnary F h op a`) on
    a loader heap `h` (`LoadHeap h`: operands have smaller ids than their parents and no `-(-x)` node
    is stored — true of `heap0` and preserved by every constructor call, see the conclusion), for an
    allocated operand `a` and a unary opcode.  For every value type, every interpretation `I` with
    `RewriteLaws F I`, every naming `pos` of the leaves (i.e. every environment):
    * the heap only grows (`alloc` appends) and is again a loader heap; the returned id is allocated;
    * every old node keeps its value, to every depth;
    * the returned node evaluates to `I.un op` of the value of `a` — whichever of
      fold / `abs(abs x)` / `abs(square x)` / `-(-x)` / plain allocation happened.
    Fuel: `evalAt … d n` with any `d > n` is the complete unfolding (`ChildrenSmaller`); the
    statement holds for all such fuels on both sides. -/
theorem load_unary_preserves_meaning {α : Type} (F : Folder) (I : Serial.Interp α) (L : RewriteLaws F I)
    (pos : NodeId → Option Nat) (h : List Node) (H : LoadHeap h) (op : Op) (a : NodeId)
    (hop : op.args = some 1) (ha : a < h.length) :
    (∃ e, (mkUnary F h op a).1 = h ++ e) ∧ LoadHeap (mkUnary F h op a).1 ∧
    (mkUnary F h op a).2 < (mkUnary F h op a).1.length ∧
    (∀ (d : Nat) (n : NodeId), n < h.length →
      evalAt I (hget (mkUnary F h op a).1) pos d n = evalAt I (hget h) pos d n) ∧
    (∀ (d d' : Nat), a < d → (mkUnary F h op a).2 < d' →
      evalAt I (hget (mkUnary F h op a).1) pos d' (mkUnary F h op a).2
        = I.un op (evalAt I (hget h) pos d a)) := by
  have R := mkUnary_res F I L pos H op a hop ha
  obtain ⟨e, he⟩ := R.ext
  refine ⟨⟨e, he⟩, R.wf, R.bound, ?_, ?_⟩
  · intro d n hn
    rw [he]; exact evalAt_old I pos H e d n hn
  · intro d d' hd hd'
    rw [Val_eq I pos R.wf d' _ hd', Val_eq I pos H d a hd]
    exact R.val

/-- **load_binary_preserves_meaning.** The same for `Tree::binary(op, a, b)` (`mkBinary F fuel h op a b`),
    for every recursion budget `fuel ≥ 3` (the loader model runs it with 64; on a loader heap the
    mutual rewriting `a + (-b) ↦ a - b`, `a - (-b) ↦ a + b` stops after at most two steps because no
    `-(-x)` is stored): the returned node evaluates to `I.bin op` of the values of `a` and `b` —
    whichever of fold / return an operand / negate / square / re-associate a negation / plain
    allocation happened — and old nodes keep their values. -/
theorem load_binary_preserves_meaning {α : Type} (F : Folder) (I : Serial.Interp α) (L : RewriteLaws F I)
    (pos : NodeId → Option Nat) (h : List Node) (H : LoadHeap h) (fuel : Nat) (hfuel : 3 ≤ fuel)
    (op : Op) (a b : NodeId) (hop : op.args = some 2) (ha : a < h.length) (hb : b < h.length) :
    (∃ e, (mkBinary F fuel h op a b).1 = h ++ e) ∧ LoadHeap (mkBinary F fuel h op a b).1 ∧
    (mkBinary F fuel h op a b).2 < (mkBinary F fuel h op a b).1.length ∧
    (∀ (d : Nat) (n : NodeId), n < h.length →
      evalAt I (hget (mkBinary F fuel h op a b).1) pos d n = evalAt I (hget h) pos d n) ∧
    (∀ (d d' : Nat), a < d → b < d → (mkBinary F fuel h op a b).2 < d' →
      evalAt I (hget (mkBinary F fuel h op a b).1) pos d' (mkBinary F fuel h op a b).2
        = I.bin op (evalAt I (hget h) pos d a) (evalAt I (hget h) pos d b)) := by
  obtain ⟨f, rfl⟩ : ∃ f, fuel = f + 3 := ⟨fuel - 3, by omega⟩
  have R := mkBinary_res F I L pos H f op a b hop ha hb
  obtain ⟨e, he⟩ := R.ext
  refine ⟨⟨e, he⟩, R.wf, R.bound, ?_, ?_⟩
  · intro d n hn
    rw [he]; exact evalAt_old I pos H e d n hn
  · intro d d' hda hdb hd'
    rw [Val_eq I pos R.wf d' _ hd', Val_eq I pos H d a hda, Val_eq I pos H d b hdb]
    exact R.val


/-- **load_unary_preserves_denote.** `load_unary_preserves_meaning` in the semantics of
    `LibfiveModel/Expr.lean`: for every interpretation `I` of expressions with `FoldSound F I`, every
    naming `nm`-by-position of the free variables and *every environment*, the tree `toExpr` reads off
    the heap at the returned node denotes `I.un op` of what the tree at the operand denotes (complete
    unfoldings on both sides). -/
theorem load_unary_preserves_denote {α : Type} (F : Folder) (I : Libfive.Interp UInt32 α) (L : FoldSound F I)
    (pos : NodeId → Option Nat) (h : List Node) (H : LoadHeap h) (op : Op) (a : NodeId)
    (hop : op.args = some 1) (ha : a < h.length) (env : Env α) (d d' : Nat) (hd : a < d)
    (hd' : (mkUnary F h op a).2 < d') :
    Expr.denote I (toExpr (hget (mkUnary F h op a).1) (posName pos) d' (mkUnary F h op a).2) env
      = I.un op (Expr.denote I (toExpr (hget h) (posName pos) d a) env) := by
  have := (load_unary_preserves_meaning F (interpOf I env) (L.at env) pos h H op a hop ha).2.2.2.2 d d' hd hd'
  rw [evalAt_eq_denote, evalAt_eq_denote] at this
  exact this

/-- **load_binary_preserves_denote.** The same for `Tree::binary`. -/
theorem load_binary_preserves_denote {α : Type} (F : Folder) (I : Libfive.Interp UInt32 α) (L : FoldSound F I)
    (pos : NodeId → Option Nat) (h : List Node) (H : LoadHeap h) (fuel : Nat) (hfuel : 3 ≤ fuel)
    (op : Op) (a b : NodeId) (hop : op.args = some 2) (ha : a < h.length) (hb : b < h.length)
    (env : Env α) (d d' : Nat) (hda : a < d) (hdb : b < d) (hd' : (mkBinary F fuel h op a b).2 < d') :
    Expr.denote I (toExpr (hget (mkBinary F fuel h op a b).1) (posName pos) d' (mkBinary F fuel h op a b).2) env
      = I.bin op (Expr.denote I (toExpr (hget h) (posName pos) d a) env)
          (Expr.denote I (toExpr (hget h) (posName pos) d b) env) := by
  have := (load_binary_preserves_meaning F (interpOf I env) (L.at env) pos h H fuel hfuel op a b hop ha hb).2.2.2.2
    d d' hda hdb hd'
  rw [evalAt_eq_denote, evalAt_eq_denote, evalAt_eq_denote] at this
  exact this

/-- **foldSound_of_lawful.** The hypothesis is satisfiable in the intended reading: over any field,
    C07's `Lawful K I` (field arithmetic for `+ − × ÷ neg square`, idempotence of `abs`/`min`/`max`,
    `pow`/`nth-root` by one, exact folding by `K`) gives `FoldSound F I` for every folder `F` that folds
    like `K`, provided `K`'s constant tests accept the bit patterns the heap model tests for
    (±0.0f, 1.0f, −1.0f).  So the theorems of this file compose with C07 (`flatten_sound`) exactly as
    `archive_roundtrip_flat_denote_source_partial` does. -/
theorem foldSound_of_lawful {α : Type} [Field α] (K : ConstOps UInt32) (I : Libfive.Interp UInt32 α)
    (L : Lawful K I) (F : Folder) (hf1 : ∀ op c, F.f1 op c = K.foldUn op c)
    (hf2 : ∀ op c d, F.f2 op c d = K.foldBin op c d)
    (hz : ∀ v, isZero v = true → K.isZero v = true) (h1 : ∀ v, isOne v = true → K.isOne v = true)
    (hm : ∀ v, isMinusOne v = true → K.isNegOne v = true) : FoldSound F I :=
  FoldSound.of_lawful L F hf1 hf2 hz h1 hm
/-! ## (2) the clause loop of the loader, rewrites allowed -/

/-- **clause_loop_roundtrip_denote.** The clause stream of one stored tree, without
    `nodePlain`.  Let `serNodes` (the loop of `Serializer::serializeTree`, for any offer order `w`, from
    an empty id table) write `bytes` and leave the id table `ids'`; every offered node has an opcode
    and is not its own operand (`NodeSane`: the DAG is a finite term); fewer than 2^32 nodes.  Then for
    every folder `F` and every interpretation `I` of expressions with `FoldSound F I` (= `RewriteLaws`
    for the heap interpretation `I` induces), the loader's clause loop (`clauseLoop`, the
    `while (true)` of `Deserializer::deserializeShape`, from the initial state) reads `bytes` back up
    to and including the END_OF_ITEM, prints nothing, and ends with a table `trees` with one entry per
    stored node and a loader heap, such that for *every environment* the stored node at stream
    position `p` and the loader's entry at position `p` denote the same value under `Expr.denote I`
    (free variables named by stream position on both sides; fuels: any `d > p` on the stored side —
    operands are stored before their parents — and any `d' > m` on the loaded side, i.e. the complete
    unfoldings) — whatever rewrites `Tree::unary` / `Tree::binary` performed.  The trees themselves
    need not be equal any more (see the example below).

    This is the tree-level statement (the analogue of `tree_roundtrip`) from the initial loader state;
    the whole archive — shape framing, variable sections, shapes stored by reference, clause loops
    that start from the state earlier shapes left — is `archive_roundtrip_fold_denote` below (helper
    `clauseLoop_serNodes_sem` is this statement for any state satisfying the invariant `SemInv`). -/
theorem clause_loop_roundtrip_denote {α : Type} (F : Folder) (I : Libfive.Interp UInt32 α)
    (L : FoldSound F I) (heap : NodeId → Node) (w : List NodeId) (bytes rest : List Byte)
    (ids' : List NodeId) (hser : serNodes heap [] w = .ok (bytes, ids'))
    (hsane : ∀ n ∈ w, NodeSane heap n) (hsize : ids'.length < 4294967296)
    (fuel : Nat) (hfuel : bytes.length + 1 ≤ fuel) :
    ∃ (trees : List NodeId) (lheap : List Node),
      clauseLoop F fuel ⟨⟨bytes ++ END_OF_ITEM :: rest, false⟩, [], heap0, []⟩
        = .ok (false, ⟨⟨rest, false⟩, trees, lheap, []⟩) ∧
      trees.length = ids'.length ∧ LoadHeap lheap ∧
      ∀ (env : Env α) (p : Nat) (n m : NodeId), ids'[p]? = some n → trees[p]? = some m →
        ∀ (d d' : Nat), p < d → m < d' →
          Expr.denote I (toExpr heap (posName (posOf ids')) d n) env
            = Expr.denote I (toExpr (hget lheap) (posName (posOf trees)) d' m) env := by
  have hnd : ids'.Nodup := serNodes_nodup w hser List.nodup_nil
  have hsp : ∀ (p : Nat) (n : NodeId), ids'[p]? = some n → posOf ids' n = some p :=
    fun p n h => posOf_of_nodup hnd p n h
  have run := fun env : Env α =>
    clauseLoop_serNodes_sem F I env (L.at env) heap (posOf ids') w [] ids' bytes rest [] heap0 [] fuel
      hser hsane hsize hsp (SemInv.init I env heap (posOf ids')) hfuel
  obtain ⟨te, le, h0, hinv0⟩ := run (envBad I)
  refine ⟨[] ++ te, heap0 ++ le, h0, hinv0.len, hinv0.wf, ?_⟩
  intro env p n m hn hm d d' hd hd'
  obtain ⟨te', le', h1, hinv1⟩ := run env
  rw [h0] at h1
  injection h1 with h1; injection h1 with _ h1; injection h1 with _ ht hh
  rw [← ht, ← hh] at hinv1
  have := hinv1.sem p n m d hn hm hd
  rw [← Val_eq (interpOf I env) _ hinv1.wf d' m hd', evalAt_eq_denote, evalAt_eq_denote] at this
  exact this


/-! ## (2') the whole archive, rewrites allowed -/

/-- the stored shape `s` (original heap, id table `ids`) and the loaded shape `ls` (loader's heap,
    loader's table `trees`) denote the same function under `Expr.denote I`: for every environment,
    free variables named by stream position on both sides, complete unfoldings on both sides (any
    fuel `d ≥ ids.length` on the stored side, any `d' > ls.tree` on the loaded side) -/
def SameFunction {α : Type} (I : Libfive.Interp UInt32 α) (heap : NodeId → Node) (ids : List NodeId)
    (lheap : List Node) (trees : List NodeId) (s : Shape) (ls : LShape) : Prop :=
  ∀ (env : Env α) (d d' : Nat), ids.length ≤ d → ls.tree < d' →
    Expr.denote I (toExpr heap (posName (posOf ids)) d s.tree) env
      = Expr.denote I (toExpr (hget lheap) (posName (posOf trees)) d' ls.tree) env

/-- **archive_roundtrip_fold_denote.** `archive_roundtrip_denote` WITHOUT the `nodePlain` hypothesis.
    For every archive (any number of shapes, `'t'` references, sharing, names, docs, variable names)
    such that, per shape (`ShapeOKF`): the keys of the variable map are distinct free-variable nodes,
    every node of the walk has an opcode and is not its own operand (`NodeSane`), the walk ends in its
    root (`RootLast`); fewer than 2^32 nodes; for every folder `F` and interpretation `I` with
    `FoldSound F I` (the `RewriteLaws` of the header):
    `Archive::deserialize (Archive::serialize a)` succeeds, prints nothing, consumes the stream, and
    returns as many shapes in the same order with, for every stored `s` and its reloaded `ls`,
    * `ShapeMatch`: same name, same doc, `ls.tree` is the loader's entry at the stream position of
      `s.tree`, the variable map is `varsOf` (every named variable that is in the id table, bound under
      its name to the loader's entry at that variable's position);
    * `SameFunction`: `s.tree` and `ls.tree` denote the same function, for every environment —
      whatever `Tree::unary` / `Tree::binary` rewrote while loading (the trees themselves may differ:
      `SameTree` of `archive_roundtrip_denote` is no longer true, see the example);
    * `SameNames`: the names in the loaded variable map are those of the stored map at the same
      stream positions.
    `AxesUnique` is not needed any more (two stored X nodes both load as the singleton, with the same
    meaning).  Still by hypothesis: `RootLast` and "operands before parents" (= `serShapes` succeeds);
    ORACLE outside the model.  The hypothesis `FoldSound` is a field law: not satisfied by binary32
    (header). -/
theorem archive_roundtrip_fold_denote {α : Type} (F : Folder) (I : Libfive.Interp UInt32 α)
    (L : FoldSound F I) (heap : NodeId → Node) (fuelW : Nat)
    (shapes : List Shape) (bytes : List Byte) (ids' : List NodeId)
    (hser : serShapes heap fuelW [] shapes = .ok (bytes, ids'))
    (hok : ∀ s ∈ shapes, ShapeOKF heap fuelW s) (hsize : ids'.length < 4294967296) :
    ∃ (lshapes : List LShape) (st : DState),
      deserialize F bytes = .ok (lshapes, st) ∧ st.log = [] ∧ st.inp = ⟨[], true⟩ ∧
      st.trees.length = ids'.length ∧ LoadHeap st.heap ∧
      AllMatch (fun s ls => ShapeMatch ids' st.trees s ls ∧ SameFunction I heap ids' st.heap st.trees s ls ∧
        SameNames ids' st.trees s ls) shapes lshapes := by
  have hnd : ids'.Nodup := (serShapes_grow shapes hser List.nodup_nil).2
  have hsp : ∀ (p : Nat) (n : NodeId), ids'[p]? = some n → posOf ids' n = some p :=
    fun p n h => posOf_of_nodup hnd p n h
  have run := fun env : Env α =>
    readShapes_serShapes_sem F I env (L.at env) heap (posOf ids') fuelW ids' hsp shapes [] ids' bytes
      [] heap0 [] (bytes.length + 1) hser List.nodup_nil ⟨[], by simp⟩ hok hsize
      (SemInv.init I env heap (posOf ids')) (Nat.le_refl _)
  obtain ⟨ie, te, le, lshapes, _, hread, hinv0, hm⟩ := run (envBad I)
  refine ⟨lshapes, _, hread, rfl, rfl, hinv0.len, hinv0.wf, ?_⟩
  apply AllMatch.imp hm
  intro s _ ls hsm
  refine ⟨hsm, ?_, fun m name hmn => hsm.vars_pos m name hmn⟩
  intro env d d' hd hd'
  obtain ⟨ie', te', le', lshapes', _, hread', hinv1, _⟩ := run env
  rw [hread] at hread'
  injection hread' with h1; injection h1 with _ h1; injection h1 with _ ht hh
  rw [← ht, ← hh] at hinv1
  obtain ⟨p, hp1, hp2⟩ := hsm.final_pos
  have hp : p < ids'.length := (List.getElem?_eq_some_iff.mp hp1).1
  have := hinv1.sem p _ _ d hp1 hp2 (Nat.lt_of_lt_of_le hp hd)
  rw [← Val_eq (interpOf I env) _ hinv1.wf d' ls.tree hd', evalAt_eq_denote, evalAt_eq_denote] at this
  exact this

/-! ## (3) non-vacuity: an archive in which rewrites fire on load -/

/-- GF(2) as an interpretation of the opcodes: `+`/`−` are xor, `×` and `min` are and, `max` is or,
    negation / square / abs are the identity (characteristic 2), `a / b`, `pow a b`, `nth-root a b`
    are `a`; a constant is 0 iff its bit pattern is a float zero.  `0 * a = 0` holds here. -/
def gf2 : Libfive.Interp UInt32 Bool where
  const := fun c => !(c == 0x00000000 || c == 0x80000000)
  un := fun _ a => a
  bin := fun op a b => match op with
    | .add | .sub => xor a b
    | .mul | .min => a && b
    | .max => a || b
    | .div | .pow | .nthRoot => a
    | _ => false
  orc := fun _ _ _ _ => false
  bad := false

/-- the folder that computes in GF(2) and writes 0.0f / 1.0f back -/
def gf2F : Folder where
  f1 := fun op c => if gf2.un op (gf2.const c) then 0x3f800000 else 0
  f2 := fun op c d => if gf2.bin op (gf2.const c) (gf2.const d) then 0x3f800000 else 0

theorem gf2_enc (b : Bool) : gf2.const (if b then 0x3f800000 else 0) = b := by cases b <;> decide

/-- the hypotheses of the theorems above are satisfiable: GF(2) satisfies every law of the rewrite
    table, with an exact folder -/
theorem gf2_foldSound : FoldSound gf2F gf2 := by
  have hz : ∀ v, isZero v = true → gf2.const v = false := by
    intro v hv
    simp only [isZero, Bool.or_eq_true, beq_iff_eq] at hv
    rcases hv with rfl | rfl <;> decide
  have h1 : ∀ v, isOne v = true → gf2.const v = true := by
    intro v hv
    simp only [isOne, beq_iff_eq] at hv
    subst hv; decide
  have hm : ∀ v, isMinusOne v = true → gf2.const v = true := by
    intro v hv
    simp only [isMinusOne, beq_iff_eq] at hv
    subst hv; decide
  refine ⟨?_, ?_, ?_, ?_, ?_, ?_, ?_, ?_, ?_, ?_, ?_, ?_, ?_, ?_, ?_, ?_, ?_, ?_, ?_, ?_, ?_, ?_, ?_, ?_⟩
  · intro op c _; exact gf2_enc _
  · intro op c d _; exact gf2_enc _
  · intro a; rfl
  · intro a; rfl
  · intro a; rfl
  · intro a v _; rfl
  · intro a v hv; show xor (gf2.const v) a = a; rw [hz v hv]; cases a <;> rfl
  · intro a v hv; show xor a (gf2.const v) = a; rw [hz v hv]; cases a <;> rfl
  · intro a b; show xor a b = xor b a; cases a <;> cases b <;> rfl
  · intro a b; rfl
  · intro a v hv; show xor (gf2.const v) a = a; rw [hz v hv]; cases a <;> rfl
  · intro a v hv; show xor a (gf2.const v) = a; rw [hz v hv]; cases a <;> rfl
  · intro a b; rfl
  · intro a v hv; show (gf2.const v && a) = gf2.const v; rw [hz v hv]; rfl
  · intro a v hv; show (a && gf2.const v) = gf2.const v; rw [hz v hv]; cases a <;> rfl
  · intro a v hv; show (gf2.const v && a) = a; rw [h1 v hv]; rfl
  · intro a v hv; show (a && gf2.const v) = a; rw [h1 v hv]; cases a <;> rfl
  · intro a v hv; show (gf2.const v && a) = a; rw [hm v hv]; rfl
  · intro a v hv; show (a && gf2.const v) = a; rw [hm v hv]; cases a <;> rfl
  · intro a; show (a && a) = a; cases a <;> rfl
  · intro a v _; rfl
  · intro a v _; rfl
  · intro a; show (a && a) = a; cases a <;> rfl
  · intro a; show (a || a) = a; cases a <;> rfl

/-- a heap that holds `(x + 0) * min(v, v)` unrewritten (as `remap`/`flatten` or an older version
    can leave it): 0 = x, 1 = the constant 0.0f, 2 = x + 0, 3 = free variable v, 4 = min(v, v),
    5 = (x + 0) * min(v, v) -/
def foldHeap : NodeId → Node := fun i =>
  match i with
  | 0 => { op := .varX }
  | 1 => { op := .constant, value := 0 }
  | 2 => { op := .add, lhs := 0, rhs := 1 }
  | 3 => { op := .varFree }
  | 4 => { op := .min, lhs := 3, rhs := 3 }
  | 5 => { op := .mul, lhs := 2, rhs := 4 }
  | _ => { op := .invalid }

/-- nodes 2 and 4 are not fixed points of the loader's constructors: `archive_roundtrip` does not
    apply to this heap -/
example : nodePlain foldHeap 2 = false ∧ nodePlain foldHeap 4 = false := by decide

theorem foldHeap_sane : ∀ n ∈ [0, 1, 2, 3, 4, 5], NodeSane foldHeap n := by
  intro n hn
  simp only [List.mem_cons, List.not_mem_nil, or_false] at hn
  rcases hn with rfl | rfl | rfl | rfl | rfl | rfl <;>
    simp [NodeSane, foldHeap, Op.args]


/-- one shape `a` with tree `(x + 0) * min(v, v)` and the variable `v` named -/
def foldShapes : List Shape := [{ tree := 5, name := [0x61], doc := [], vars := [(3, [0x76])] }]

theorem foldShapesOK : ∀ s ∈ foldShapes, ShapeOKF foldHeap 8 s := by
  intro s hs
  simp only [foldShapes, List.mem_cons, List.not_mem_nil, or_false] at hs
  subst hs
  refine ⟨by decide, ?_, ?_, ⟨[0, 1, 2, 3, 4], by decide, by decide⟩⟩
  · intro x hx
    simp only [List.mem_cons, List.not_mem_nil, or_false] at hx
    subst hx; rfl
  · have hw : walk foldHeap 8 5 = [0, 1, 2, 3, 4, 5] := by decide
    simp only [hw]
    exact foldHeap_sane

/-- what the loader makes of that archive (by evaluation): `x + 0` is loaded as the singleton X
    (table entry 2 is node 0), `min(v, v)` as `v` itself (entries 3 and 4 are both node 5), the
    product as a new node `x * v`; only three nodes are allocated for six clauses -/
theorem foldLoad : ∃ bytes, serialize foldHeap 8 foldShapes = .ok bytes ∧
    deserialize gf2F bytes = .ok ([{ tree := 6, name := [0x61], doc := [], vars := [(5, [0x76])] }],
      { inp := ⟨[], true⟩, trees := [0, 4, 0, 5, 5, 6],
        heap := heap0 ++ [{ op := .constant, value := 0 }, { op := .varFree }, { op := .mul, lhs := 0, rhs := 5 }],
        log := [] }) :=
  ⟨_, rfl, by decide⟩

/-- **non-vacuity.** The hypotheses of `archive_roundtrip_fold_denote` hold for `foldHeap` /
    `foldShapes` with the GF(2) interpretation and its folder; two rewrites fire while loading; the
    stored and the loaded tree are different expressions; they denote the same function. -/
example : ∃ (bytes : List Byte) (ids' : List NodeId) (lshapes : List LShape) (st : DState),
    serShapes foldHeap 8 [] foldShapes = .ok (bytes, ids') ∧ deserialize gf2F bytes = .ok (lshapes, st) ∧
    st.trees = [0, 4, 0, 5, 5, 6] ∧
    toExpr foldHeap (posName (posOf ids')) 6 5
      = .bin .mul (.bin .add .x (.const 0)) (.bin .min (.var 4) (.var 4)) ∧
    toExpr (hget st.heap) (posName (posOf st.trees)) 7 6 = .bin .mul .x (.var 4) ∧
    AllMatch (fun s ls => SameFunction gf2 foldHeap ids' st.heap st.trees s ls) foldShapes lshapes := by
  have hser : serShapes foldHeap 8 [] foldShapes = .ok
      ([84, 34, 97, 34, 34, 34, 2, 1, 0, 0, 0, 0, 17, 1, 0, 0, 0, 0, 0, 0, 0, 5, 19, 3, 0, 0, 0, 3, 0, 0, 0,
        18, 4, 0, 0, 0, 2, 0, 0, 0, 255, 34, 118, 34, 3, 0, 0, 0, 255], [0, 1, 2, 3, 4, 5]) := by decide
  obtain ⟨lshapes, st, hdes, _, _, _, _, hm⟩ :=
    archive_roundtrip_fold_denote gf2F gf2 gf2_foldSound foldHeap 8 foldShapes _ _ hser foldShapesOK (by decide)
  obtain ⟨b, hb, hload⟩ := foldLoad
  have hb' : b = [84, 34, 97, 34, 34, 34, 2, 1, 0, 0, 0, 0, 17, 1, 0, 0, 0, 0, 0, 0, 0, 5, 19, 3, 0, 0, 0, 3, 0, 0, 0,
        18, 4, 0, 0, 0, 2, 0, 0, 0, 255, 34, 118, 34, 3, 0, 0, 0, 255] := by
    simp only [serialize, hser] at hb
    injection hb with hb; exact hb.symm
  subst hb'
  rw [hload] at hdes
  injection hdes with hdes; injection hdes with h1 h2
  subst h1; subst h2
  exact ⟨_, _, _, _, hser, hload, rfl, by decide, by decide, AllMatch.imp hm (fun s _ ls h => h.2.1)⟩

/-- in numbers: under GF(2) with `x = 1`, `v = 1` both sides evaluate to 1, with `v = 0` to 0 -/
example :
    let env : Bool → Env Bool := fun v => { x := true, y := false, z := false, vars := fun k => if k = 4 then v else false }
    ∀ v, Expr.denote gf2 (toExpr foldHeap (posName (posOf [0, 1, 2, 3, 4, 5])) 6 5) (env v) = v ∧
      Expr.denote gf2 (toExpr (hget (heap0 ++ [{ op := .constant, value := 0 }, { op := .varFree },
        { op := .mul, lhs := 0, rhs := 5 }])) (posName (posOf [0, 4, 0, 5, 5, 6])) 7 6) (env v) = v := by
  decide

end Libfive.C08
