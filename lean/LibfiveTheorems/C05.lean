/-
  C05 — Specialised tapes agree with the full expression on their region.
  Property theorems only; helper lemmas live in LibfiveProofs/TapePush.lean.
-/
import LibfiveProofs.TapePush
import LibfiveProofs.IntervalKeep
import LibfiveProofs.Interval3

namespace Libfive.C05

open Libfive

variable {α : Type}

/-- **push_sound.** For every well-formed tape, every leaf environment `v` and every keep function
    that is sound at `v` (KEEP_A/KEEP_B only where the clause's value equals that operand's value,
    never on oracles), the specialised tape evaluates, at its new root, to the value of the
    unspecialised tape at its root. -/
theorem push_sound (ev : Op → α → α → α) (orc : Nat → α) (T : TapeM) (keep : Clause → Keep)
    (v : Nat → α) (hwf : WF T.t) (hk : KeepSound (evalList ev orc T.t v) keep T.t) :
    evalList ev orc (T.push keep).t v (T.push keep).root = evalList ev orc T.t v T.root := by
  unfold TapeM.push
  by_cases ht : T.terminal = true
  · simp [ht]
  · simp only [ht, Bool.false_eq_true, if_false]
    by_cases hc : pushChanged keep T.t (PushState.init T.root) = true
    · simp only [hc, Bool.not_true, Bool.false_eq_true, if_false]
      have inv := passInv_final (evalList ev orc T.t v) T.root keep T.t hwf hk
      obtain ⟨r1, _, r3, r4⟩ := resolve_ok (evalList ev orc T.t v) T.root T.t _ hwf inv T.t []
        (by simp) T.root T.t.length inv.root (by simp [ids]) (Nat.le_refl _)
      have := emit_sound ev orc v T.root T.t _ hwf inv T.t [] (by simp) _ r4 r3
      rw [this, r1]
    · simp [hc]

/-- **push_wf.** The specialised tape is again well-formed (so pushes can be nested). -/
theorem push_wf (ev : Op → α → α → α) (orc : Nat → α) (T : TapeM) (keep : Clause → Keep)
    (v : Nat → α) (hwf : WF T.t) (hk : KeepSound (evalList ev orc T.t v) keep T.t) :
    WF (T.push keep).t := by
  unfold TapeM.push
  by_cases ht : T.terminal = true
  · simpa [ht] using hwf
  · simp only [ht, Bool.false_eq_true, if_false]
    by_cases hc : pushChanged keep T.t (PushState.init T.root) = true
    · simp only [hc, Bool.not_true, Bool.false_eq_true, if_false]
      have inv := passInv_final (evalList ev orc T.t v) T.root keep T.t hwf hk
      exact (emit_wf (evalList ev orc T.t v) T.root T.t _ hwf inv T.t [] (by simp)).1
    · simpa [hc] using hwf

/-- The specialised tape is never longer than its parent. -/
theorem push_shorter (T : TapeM) (keep : Clause → Keep) : (T.push keep).t.length ≤ T.t.length := by
  unfold TapeM.push
  by_cases ht : T.terminal = true
  · simp [ht]
  · simp only [ht, Bool.false_eq_true, if_false]
    by_cases hc : pushChanged keep T.t (PushState.init T.root) = true
    · simp only [hc, Bool.not_true, Bool.false_eq_true, if_false, emit]
      exact List.length_filterMap_le _ _
    · simp [hc]

/-- A chain of nested specialisations: each keep function may depend on the tape it is applied to. -/
def pushAll : TapeM → List (TapeM → Clause → Keep) → TapeM
  | T, [] => T
  | T, k :: ks => pushAll (T.push (k T)) ks

/-- **nested_push_sound.** Any depth of nested specialisation, each step sound at `v` for the tape
    it is applied to, preserves the root value at `v`. -/
theorem nested_push_sound (ev : Op → α → α → α) (orc : Nat → α) (v : Nat → α) :
    ∀ (ks : List (TapeM → Clause → Keep)) (T : TapeM), WF T.t →
      (∀ T' : TapeM, WF T'.t → ∀ k ∈ ks, KeepSound (evalList ev orc T'.t v) (k T') T'.t) →
      evalList ev orc (pushAll T ks).t v (pushAll T ks).root = evalList ev orc T.t v T.root := by
  intro ks
  induction ks with
  | nil => intro T _ _; rfl
  | cons k ks ih =>
    intro T hwf hk
    have hk0 := hk T hwf k (by simp)
    have hwf' := push_wf ev orc T (k T) v hwf hk0
    have := ih (T.push (k T)) hwf' (fun T' h' k' hk' => hk T' h' k' (by simp [hk']))
    simp only [pushAll]
    rw [this, push_sound ev orc T (k T) v hwf hk0]

/-- **region form.** If the keep function is sound at every environment of a set `P` (the points
    of a box), the specialised tape agrees with the full one at every such environment. -/
theorem push_sound_on (ev : Op → α → α → α) (orc : Nat → α) (T : TapeM) (keep : Clause → Keep)
    (P : (Nat → α) → Prop) (hwf : WF T.t)
    (hk : ∀ v, P v → KeepSound (evalList ev orc T.t v) keep T.t) :
    ∀ v, P v → evalList ev orc (T.push keep).t v (T.push keep).root = evalList ev orc T.t v T.root :=
  fun v hv => push_sound ev orc T keep v hwf (hk v hv)

/-- **pointKeep_sound.** The keep function of `valueAndPush` is sound at the point it was computed
    at, for any `min`/`max` that return the smaller / larger operand when they are strictly ordered. -/
theorem pointKeep_sound (ev : Op → α → α → α) (orc : Nat → α) (lt : α → α → Bool) (t : List Clause)
    (v : Nat → α) (hwf : WF t)
    (hmin : ∀ a b, (lt b a = true → ev Op.min a b = b) ∧ (lt a b = true → ev Op.min a b = a))
    (hmax : ∀ a b, (lt b a = true → ev Op.max a b = a) ∧ (lt a b = true → ev Op.max a b = b)) :
    KeepSound (evalList ev orc t v) (pointKeep lt (evalList ev orc t v)) t := by
  intro c hc
  have hfix := evalList_fix ev orc t v hwf c hc
  refine ⟨?_, ?_, ?_⟩
  · intro ho
    simp [pointKeep, ho]
  · intro hk
    unfold pointKeep at hk
    by_cases h1 : c.op = Op.max
    · simp only [h1, if_true] at hk
      by_cases h2 : lt (evalList ev orc t v c.b) (evalList ev orc t v c.a) = true
      · rw [hfix]; simp only [evalClause, h1]; simpa using (hmax _ _).1 h2
      · simp only [h2, Bool.false_eq_true, if_false] at hk
        by_cases h3 : lt (evalList ev orc t v c.a) (evalList ev orc t v c.b) = true <;> simp [h3] at hk
    · simp only [h1, if_false] at hk
      by_cases h4 : c.op = Op.min
      · simp only [h4, if_true] at hk
        by_cases h2 : lt (evalList ev orc t v c.b) (evalList ev orc t v c.a) = true
        · simp [h2] at hk
        · simp only [h2, Bool.false_eq_true, if_false] at hk
          by_cases h3 : lt (evalList ev orc t v c.a) (evalList ev orc t v c.b) = true
          · rw [hfix]; simp only [evalClause, h4]; simpa using (hmin _ _).2 h3
          · simp [h3] at hk
      · simp [h4] at hk
  · intro hk
    unfold pointKeep at hk
    by_cases h1 : c.op = Op.max
    · simp only [h1, if_true] at hk
      by_cases h2 : lt (evalList ev orc t v c.b) (evalList ev orc t v c.a) = true
      · simp [h2] at hk
      · simp only [h2, Bool.false_eq_true, if_false] at hk
        by_cases h3 : lt (evalList ev orc t v c.a) (evalList ev orc t v c.b) = true
        · rw [hfix]; simp only [evalClause, h1]; simpa using (hmax _ _).2 h3
        · simp [h3] at hk
    · simp only [h1, if_false] at hk
      by_cases h4 : c.op = Op.min
      · simp only [h4, if_true] at hk
        by_cases h2 : lt (evalList ev orc t v c.b) (evalList ev orc t v c.a) = true
        · rw [hfix]; simp only [evalClause, h4]; simpa using (hmin _ _).1 h2
        · simp only [h2, Bool.false_eq_true, if_false] at hk
          by_cases h3 : lt (evalList ev orc t v c.a) (evalList ev orc t v c.b) = true <;> simp [h3] at hk
      · simp [h4] at hk

/-! ### the interval caller (joins C02 and C05) -/

section interval
open Libfive.Ivl
variable {K : Type} [Field K] [LinearOrder K] [IsStrictOrderedRing K] [FloorRing K]
variable {Bo : BoostOps K} {P : PointFns K}

/-- **intervalKeep_sound.**  The keep function of `IntervalEvaluator::push` (as repaired by
    c73cfff: `KEEP_B` only when neither operand may be NaN), computed from interval slots `I`, is
    sound at EVERY point whose slot values those intervals enclose (`enclS`: NaN only where
    flagged, non-NaN values inside the bounds) — including points where sub-expressions are NaN. -/
theorem intervalKeep_sound (pev : Op → FVal K → FVal K → FVal K)
    (hmin : ∀ a b, pev Op.min a b = pmin a b) (hmax : ∀ a b, pev Op.max a b = pmax a b)
    (porc : Nat → FVal K) (t : List Clause) (v0 : Nat → FVal K) (hwf : WF t)
    (I : Nat → IVal K) (henc : ∀ s, enclS (I s) (evalList pev porc t v0 s)) :
    KeepSound (evalList pev porc t v0)
      (intervalKeep FVal.lt (fun s => (I s).lo) (fun s => (I s).hi) (fun s => !(I s).mn)) t :=
  intervalKeep_keepSound pev hmin hmax porc t v0 hwf I henc

/-- **interval_push_sound (end to end).**  Interval evaluation of a well-formed tape over leaf
    intervals `I0` (a box, constants, variables) followed by `push`: for EVERY assignment `v0` of
    point values to the leaves enclosed by `I0` (every point of the box), the specialised tape
    evaluates to the same root value as the full tape.  Hypotheses: Boost's primitive contracts
    (`BoostSound` …, as in C02), the `pow`/`nth_root` side condition `SafeTape` (`True` for all other
    opcodes), and the point kernel `pev` is one admitted by `PointRel`. -/
theorem interval_push_sound (hS : BoostSound Bo P) (hA2 : Atan2Sound Bo P) (hM : ModSound Bo P)
    (pev : Op → FVal K → FVal K → FVal K) (hpev : ∀ op a b, PointRel P op a b (pev op a b))
    (iorc : Nat → IVal K) (porc : Nat → FVal K) (horc : ∀ k, enclS (iorc k) (porc k))
    (T : TapeM) (hwf : WF T.t) (I0 : Nat → IVal K) (hsafe : SafeTape Bo P iorc T.t I0)
    (v0 : Nat → FVal K) (hleaf : ∀ s, enclS (I0 s) (v0 s)) :
    let I := ievalList Bo iorc T.t I0
    let keep := intervalKeep FVal.lt (fun s => (I s).lo) (fun s => (I s).hi) (fun s => !(I s).mn)
    evalList pev porc (T.push keep).t v0 (T.push keep).root = evalList pev porc T.t v0 T.root := by
  intro I keep
  have henc := tape_enclS hS hA2 hM pev hpev iorc porc horc T.t I0 v0 hleaf hsafe
  have hmin : ∀ a b, pev Op.min a b = pmin a b := by
    intro a b
    rcases hpev Op.min a b with h | ⟨h, _⟩ | ⟨h, _⟩ | ⟨h, _⟩
    · simpa [pointOp] using h
    all_goals cases h
  have hmax : ∀ a b, pev Op.max a b = pmax a b := by
    intro a b
    rcases hpev Op.max a b with h | ⟨h, _⟩ | ⟨h, _⟩ | ⟨h, _⟩
    · simpa [pointOp] using h
    all_goals cases h
  exact push_sound pev porc T keep v0 hwf
    (intervalKeep_keepSound pev hmin hmax porc T.t v0 hwf I henc)

end interval

/-- **getBase_sound.** The tape returned for a query is a suffix of the push chain (an ancestor or
    the tape itself) and is either the base tape or an INTERVAL tape whose own region contains the
    query — the region on which, by `push_sound_on`, it agrees with the full expression. -/
theorem getBase_sound {β : Type} (le : β → β → Bool) (stack : List (StackEntry β))
    (lo hi : β × β × β) (hne : stack ≠ []) :
    (∃ pre, stack = pre ++ getBase le stack lo hi) ∧
    ((∃ e, getBase le stack lo hi = [e]) ∨
     (∃ e rest, getBase le stack lo hi = e :: rest ∧ e.type = TapeType.interval ∧
        boxContains le e lo hi = true)) := by
  induction stack with
  | nil => exact absurd rfl hne
  | cons e rest ih =>
    cases rest with
    | nil => exact ⟨⟨[], by simp [getBase]⟩, Or.inl ⟨e, by simp [getBase]⟩⟩
    | cons e2 rest2 =>
      by_cases hc : (e.type = TapeType.interval && boxContains le e lo hi) = true
      · have : getBase le (e :: e2 :: rest2) lo hi = e :: e2 :: rest2 := by
          simp only [getBase, hc, if_true]
        rw [this]
        refine ⟨⟨[], rfl⟩, Or.inr ⟨e, e2 :: rest2, rfl, ?_⟩⟩
        simpa using hc
      · have : getBase le (e :: e2 :: rest2) lo hi = getBase le (e2 :: rest2) lo hi := by
          simp only [getBase, hc]
          simp
        rw [this]
        obtain ⟨⟨pre, hp⟩, h2⟩ := ih (by simp)
        exact ⟨⟨e :: pre, by rw [List.cons_append, ← hp]⟩, h2⟩

/-! ### the hypotheses are satisfiable: `max(min(x,y), z)` with slots x=4 y=5 z=6 -/

def exTape : TapeM :=
  { t := [⟨Op.max, 1, 2, 6⟩, ⟨Op.min, 2, 4, 5⟩], root := 1 }

def exEv : Op → Int → Int → Int
  | Op.min, a, b => if b < a then b else a
  | Op.max, a, b => if a < b then b else a
  | _, a, _ => a

def exV : Nat → Int := fun s => if s = 4 then 3 else if s = 5 then 7 else if s = 6 then 1 else 0

example : WF exTape.t := wfb_sound _ (by decide)
-- the point keep function really shortens this tape (to the single leaf x) and the value agrees
example : (exTape.push (pointKeep (fun a b => decide (a < b)) (evalList exEv (fun _ => 0) exTape.t exV))).t = [] := by
  decide
example : (exTape.push (pointKeep (fun a b => decide (a < b)) (evalList exEv (fun _ => 0) exTape.t exV))).root = 4 := by
  decide
example : evalList exEv (fun _ => 0) exTape.t exV exTape.root = 3 := by decide

/-! the interval keep function really decides: `max(x, y)` with `x ∈ [0,1]`, `y ∈ [2,3]` keeps `y` when
    both operands are NaN-free, both when `x` may be NaN; `min` over the same slots keeps `x`
    either way (the point kernel returns its first operand on NaN) -/
section
open Libfive.Ivl
def exI (xNan : Bool) : Nat → IVal ℚ := fun s =>
  if s = 4 then ⟨.fin 0, .fin 1, xNan⟩ else if s = 5 then ⟨.fin 2, .fin 3, false⟩ else ⟨.fin 0, .fin 0, false⟩
def exKeep (xNan : Bool) (c : Clause) : Keep :=
  intervalKeep FVal.lt (fun s => (exI xNan s).lo) (fun s => (exI xNan s).hi) (fun s => !(exI xNan s).mn) c
example : exKeep false ⟨Op.max, 1, 4, 5⟩ = Keep.b := by decide +kernel
example : exKeep true ⟨Op.max, 1, 4, 5⟩ = Keep.both := by decide +kernel
example : exKeep true ⟨Op.min, 1, 4, 5⟩ = Keep.a := by decide +kernel
example : exKeep false ⟨Op.min, 1, 5, 4⟩ = Keep.b := by decide +kernel
example : exKeep true ⟨Op.min, 1, 5, 4⟩ = Keep.both := by decide +kernel
end

end Libfive.C05
