/-
  C03, dual contouring: the LITERAL recursion of `Dual<3>::work / face3 / edge3`
  (include/libfive/render/brep/dual.hpp:127-204; model `dualW / workW / face3W / edge3W` of
  LibfiveModel/DCGrid.lean) on the complete octree of EVERY depth `d` calls `load` exactly once for
  every interior lattice edge of the `2^d × 2^d × 2^d` grid of leaves, with the four leaves around
  the edge in the order `tsCell` puts them — the statement LibfiveTheorems/C03DC.lean proves only
  for depths 1 and 2 (`dual_walk_calls_partial`).  Property theorems only; the helper lemmas are in
  LibfiveProofs/DualWalk3.lean.

  Consequence: the triangle list in the order the recursive walk produces it (`walkTris`) is a
  permutation of `gridTris`, so it is closed and consistently oriented (`grid_dc_closed_walk`).

  The simplex mesher has no recursive-walk model in LibfiveModel/SimplexGrid.lean
  (`gridTetsByEdge` is a per-edge loop and its walk also needs `handleTopEdges`); nothing is
  claimed about it here.
-/
import LibfiveProofs.DualWalk3

namespace Libfive.C03
open Libfive.Marching Libfive.DCGrid Libfive.DCGrid.Walk Generated.MeshTables

/-! ## the three levels of the recursion, at arbitrary offsets -/

/-- **edge3_walk_calls.**  `edge3<A>` on a complete subtree of depth `d` at `t0` and its `Q`, `R`
    and `Q+R` neighbours of the same size (`step B n p` = `p` moved `n` cells along axis `B`):
    the recorded calls are, IN THIS ORDER, the `2^d` unit edges `k = 0 .. 2^d - 1` of the common
    edge line, each with `ts[0]` = the last cell of `t0` in `Q` and `R` at height `k` along `A`,
    and `ts[1..3]` its `Q`, `R`, `Q+R` neighbours (`callTuple`). -/
theorem edge3_walk_calls (A : Nat) (hA : A < 3) (d : Nat) (t0 : Pt) :
    edge3W A d t0 (step (axQ A) (2 ^ d) t0) (step (axR A) (2 ^ d) t0)
        (step (axQ A) (2 ^ d) (step (axR A) (2 ^ d) t0)) =
      (List.range (2 ^ d)).map fun k =>
        callTuple (A, step A k (step (axQ A) (2 ^ d - 1) (step (axR A) (2 ^ d - 1) t0))) := by
  rw [edge3W_eq A hA d t0 _ _ _ rfl rfl rfl, edgeL_eq A hA, List.map_map]
  rfl

/-- **face3_walk_calls.**  `face3<A>` on a complete subtree of depth `d` at `t0` and its `A`
    neighbour: no call is made twice, and the calls are exactly `callTuple (B, c)` for the lattice
    edges in the interior of the common `2^d × 2^d` face (`inFace`: `c` in the last `A`-layer of
    `t0`, `B` one of the two in-face axes, all four cells inside the two trees). -/
theorem face3_walk_calls (A : Nat) (hA : A < 3) (d : Nat) (t0 : Pt) :
    (face3W A d t0 (step A (2 ^ d) t0)).Nodup ∧
    ∀ x, x ∈ face3W A d t0 (step A (2 ^ d) t0) ↔ ∃ y, inFace A (2 ^ d) t0 y ∧ x = callTuple y := by
  rw [face3W_eq A hA d t0 _ rfl]
  exact ⟨(nodup_faceL A hA d t0).map callTuple_injective, mem_map_callTuple (mem_faceL A hA d t0)⟩

/-- **work_walk_calls.**  One `Dual<3>::work(t)` on a branch whose eight children are complete
    subtrees of depth `d`: no call twice, and exactly the interior lattice edges of the cube of
    side `2^(d+1)` at `o` that lie on one of its three mid-planes (the 12 faces between octants
    and the 6 inner half-axes). -/
theorem work_walk_calls (d : Nat) (o : Pt) :
    (workW d o).Nodup ∧
    ∀ x, x ∈ workW d o ↔
      ∃ y, (inCube (2 ^ (d + 1)) o y ∧ onMidPlane d o y) ∧ x = callTuple y := by
  rw [workW_eq]
  exact ⟨(nodup_workL d o).map callTuple_injective, mem_map_callTuple (mem_workL d o)⟩

/-- **dual_walk_calls_at.**  The whole recursion below a complete subtree of depth `d` at ANY
    offset `o`: no call twice, and exactly one call `(A, ts[0..3]) = callTuple (A, c)` for every
    axis `A` and cell `c` such that `c = ts[0]` and `ts[3] = c + Q + R` (hence all four cells) lie
    in the block of `2^d × 2^d × 2^d` leaves at `o` — the interior lattice edges of the block. -/
theorem dual_walk_calls_at (d : Nat) (o : Pt) :
    (dualW d o).Nodup ∧
    ∀ x, x ∈ dualW d o ↔
      ∃ A c, (A < 3 ∧ o.1 ≤ c.1 ∧ o.2.1 ≤ c.2.1 ∧ o.2.2 ≤ c.2.2 ∧
        (tsCell A c 3).1 < o.1 + 2 ^ d ∧ (tsCell A c 3).2.1 < o.2.1 + 2 ^ d ∧
        (tsCell A c 3).2.2 < o.2.2 + 2 ^ d) ∧ x = callTuple (A, c) := by
  rw [dualW_eq]
  refine ⟨(nodup_dualL d o).map callTuple_injective, fun x => ?_⟩
  rw [mem_map_callTuple (mem_dualL d o)]
  constructor
  · rintro ⟨⟨A, c⟩, h, rfl⟩
    exact ⟨A, c, (inCube_iff _ _ _ _).1 h, rfl⟩
  · rintro ⟨A, c, h, rfl⟩
    exact ⟨(A, c), (inCube_iff _ _ _ _).2 h, rfl⟩

/-! ## the full statement -/

/-- **dual_walk_calls.**  For EVERY depth `d`: on the complete octree of depth `d` the recursive
    dual walk makes exactly the calls of `calls` on the `2^d × 2^d × 2^d` grid of leaves — one
    `load<A>(ts)` per interior lattice edge, each once, with the four cells `ts[0..3]` where
    `tsCell` puts them.  (The full statement left open in LibfiveTheorems/C03DC.lean.) -/
theorem dual_walk_calls (d : Nat) :
    (dualW d (0, 0, 0)).Perm ((calls (2 ^ d) (2 ^ d) (2 ^ d)).map callTuple) :=
  dualW_perm d

/-- **dual_walk_tris_perm.**  The triangles pushed in the order of the recursive walk
    (`walkTris`: `load` run on the four cells of every recorded call) are a permutation of
    `gridTris`, the list in the closed-form order. -/
theorem dual_walk_tris_perm (d : Nat) (s : Pt → Bool) (alt : Nat → Pt → Bool) :
    (walkTris d s alt).Perm (gridTris (2 ^ d) (2 ^ d) (2 ^ d) s alt) :=
  walkTris_perm d s alt

/-- **grid_dc_closed_walk.**  `grid_dc_closed` for the list the recursive walk produces: for every
    depth `d`, every assignment of corner states that is uniform on the outer boundary of the
    `2^d × 2^d × 2^d` grid and every choice of the quad triangulations, every directed edge of
    `walkTris` occurs exactly as often as its reverse. -/
theorem grid_dc_closed_walk (d : Nat) (s : Pt → Bool) (alt : Nat → Pt → Bool)
    (hb : BoundaryUniform (2 ^ d) (2 ^ d) (2 ^ d) s) (e : Edge Vid) :
    (dirEdges (walkTris d s alt)).count e = (dirEdges (walkTris d s alt)).count (rev e) :=
  walkTris_closed d s alt hb e

/-! ## instances, satisfiability of the hypotheses, non-vacuity -/

set_option synthInstance.maxSize 1024 in
/-- depth 1: the six calls of `work` on a 2×2×2 octree, in the code's order (two per axis) -/
example : dualW 1 (0, 0, 0) =
    [(0, (0, 0, 0), (0, 1, 0), (0, 0, 1), (0, 1, 1)), (0, (1, 0, 0), (1, 1, 0), (1, 0, 1), (1, 1, 1)),
     (1, (0, 0, 0), (0, 0, 1), (1, 0, 0), (1, 0, 1)), (1, (0, 1, 0), (0, 1, 1), (1, 1, 0), (1, 1, 1)),
     (2, (0, 0, 0), (1, 0, 0), (0, 1, 0), (1, 1, 0)), (2, (0, 0, 1), (1, 0, 1), (0, 1, 1), (1, 1, 1))] := by
  decide
example : (dualW 1 (0, 0, 0)).Perm ((calls 2 2 2).map callTuple) := by
  rw [← List.isPerm_iff]; decide
set_option synthInstance.maxSize 1024 in
/-- the walk's order differs from the closed-form order from depth 2 on (a genuine permutation) -/
example : dualW 2 (0, 0, 0) ≠ (calls 4 4 4).map callTuple ∧ (dualW 2 (0, 0, 0)).length = 108 ∧
    (dualW 3 (0, 0, 0)).length = 3 * 8 * 7 * 7 := by decide +kernel
set_option synthInstance.maxSize 1024 in
/-- `edge3<Z>` at depth 1 away from the origin: two calls, low to high -/
example : edge3W 2 1 (2, 4, 6) (4, 4, 6) (2, 6, 6) (4, 6, 6) =
    [(2, (3, 5, 6), (4, 5, 6), (3, 6, 6), (4, 6, 6)), (2, (3, 5, 7), (4, 5, 7), (3, 6, 7), (4, 6, 7))] := by
  decide
/-- `face3<X>` at depth 1: the four lattice edges in the interior of a 2×2 face -/
example : (face3W 0 1 (0, 0, 0) (2, 0, 0)).length = 4 ∧
    inFace 0 2 (0, 0, 0) (1, (1, 0, 0)) ∧ inFace 0 2 (0, 0, 0) (2, (1, 0, 1)) := by
  refine ⟨by decide, ?_, ?_⟩ <;> simp [inFace, Libfive.DCGrid.coord, axQ, axR]

/-- corner states: only the centre lattice point of the 2×2×2 grid is inside -/
def centre1 : Pt → Bool := fun p => p == (1, 1, 1)

example : BoundaryUniform (2 ^ 1) (2 ^ 1) (2 ^ 1) centre1 :=
  boundaryUniform_of_B (b := false) (by decide +kernel)
/-- the walk emits the octahedron around the centre (12 triangles), closed -/
example : (walkTris 1 centre1 (fun _ _ => false)).length = 12 ∧
    closedB (walkTris 1 centre1 (fun _ _ => false)) = true := by decide +kernel
/-- depth 2 (4×4×4 leaves), two inside points: hypotheses hold, the walk's list is non-empty,
    differs from `gridTris` as a list, and is closed -/
def two2 : Pt → Bool := fun p => p == (1, 1, 1) || p == (2, 2, 2)

example : BoundaryUniform (2 ^ 2) (2 ^ 2) (2 ^ 2) two2 :=
  boundaryUniform_of_B (b := false) (by decide +kernel)
example : walkTris 2 two2 (fun _ _ => true) ≠ gridTris 4 4 4 two2 (fun _ _ => true) ∧
    (walkTris 2 two2 (fun _ _ => true)).length = 24 ∧
    closedB (walkTris 2 two2 (fun _ _ => true)) = true := by decide +kernel

end Libfive.C03
