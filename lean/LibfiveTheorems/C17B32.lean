/-
  C17 at IEEE-754 binary32 — the termination / untouched-variable theorems of `LibfiveTheorems/C17.lean`
  with the abstract `Laws` hypothesis discharged for a model of the actual `float` type.
  Property theorems only (model: LibfiveModel/B32.lean, proofs: LibfiveProofs/B32Laws.lean).

  `B32` is the set of binary32 values (one NaN, ±∞, canonical `±m·2^e`, signed zeros, subnormals);
  every operation is "exact rational result, then one round-to-nearest-even".  `B32.scalar fused` is
  the `Scalar` of `Solver::findRoot` at that type, for both ways GCC may compile `v - step*d`
  (`fused = true`: one `vfnmadd`, `fused = false`: product rounded first).  All theorems hold for both.

  RESULT.  `Laws (B32.scalar fused) bound` itself is FALSE for every `bound` (`b32_not_laws`): the law
  `subMul_zero : v - s*0 = v` fails at `v = -0`, `s < 0` (IEEE: `-0 - (-0) = +0`).  Everything else
  holds, and `subMul_zero`/`subMul_zero_step` hold up to that one case (`b32_laws_partial`).  The
  termination theorems only use the laws that do hold, so they are obtained in full
  (`inner_terminates_b32`, `findRoot_terminates_b32`: 279 trials / inner fuel 279 suffice, and 278
  halvings are really needed for `FLT_MAX`); `absent_untouched_b32` holds with "kept" meaning
  "unchanged, or `-0` came back as `+0`" — and that exception really occurs (`absent_negZero_flips`).
-/
import LibfiveProofs.B32Laws
import LibfiveTheorems.C17

namespace Libfive.C17

open Libfive.Solver

/-- **halves_to_zero / half_finite at binary32.** A finite value stays finite when halved and is
    ±0 after `B32.bound x = e + 149 + 25` halvings. -/
theorem b32_halving_laws (fused : Bool) : HalvingLaws (B32.scalar fused) B32.bound :=
  B32.halving fused

/-- the uniform bound: no finite binary32 survives 278 halvings -/
theorem b32_bound_le (x : B32) : B32.bound x ≤ 278 := B32.bound_le x

/-- **Laws is not satisfiable by binary32** (for any bound): `-0 - (-1)*(+0) = +0 ≠ -0`. -/
theorem b32_not_laws (fused : Bool) (bound : B32 → Nat) : ¬ Laws (B32.scalar fused) bound :=
  B32.not_laws fused bound

/-- **b32_laws_partial.** Every field of `Laws` at binary32, `subMul_zero` and `subMul_zero_step`
    weakened by exactly the `-0 ↦ +0` case (`B32.Kept v₀ v := v = v₀ ∨ (v₀ = -0 ∧ v = +0)`).
    Full statement (refuted by `b32_not_laws`): `Laws (B32.scalar fused) B32.bound`. -/
theorem b32_laws_partial (fused : Bool) :
    let S := B32.scalar fused
    (∀ v s, S.isFinite s = true → B32.Kept v (S.subMul v s S.zero)) ∧
    (∀ v z d, S.isZero z = true → S.isFinite d = true → B32.Kept v (S.subMul v z d)) ∧
    (∀ s, S.isFinite s = true → S.isFinite (S.half s) = true) ∧
    (∀ s, S.isFinite s = true → S.isZero (iter S.half (B32.bound s) s) = true) ∧
    (∀ r, S.isFinite r = true → S.lt (S.abs (S.sub r r)) S.eps = true) ∧
    (∀ a b, S.isFinite (S.div a b) = true → S.isFinite a = true) :=
  ⟨fun v s hs => B32.subMul_zero_prod fused v s B32.posZero hs rfl (Or.inr rfl),
   fun v z d hz hd => B32.subMul_zero_prod fused v z d (B32.isFinite_of_isZero z hz) hd (Or.inl hz),
   B32.half_finite, B32.halves_to_zero, B32.sub_self_small fused, B32.div_finite⟩

/-- `subMul_zero` and `subMul_zero_step` literally, for every `v` other than `-0` (NaN, ±∞ included). -/
theorem b32_subMul_zero_exact (fused : Bool) (v s : B32) (hv : v ≠ B32.negZero)
    (hs : (B32.scalar fused).isFinite s = true) :
    (B32.scalar fused).subMul v s (B32.scalar fused).zero = v :=
  B32.subMul_zero_exact fused v s hv hs

theorem b32_subMul_zero_step_exact (fused : Bool) (v z d : B32) (hv : v ≠ B32.negZero)
    (hz : (B32.scalar fused).isZero z = true) (hd : (B32.scalar fused).isFinite d = true) :
    (B32.scalar fused).subMul v z d = v :=
  B32.subMul_zero_step_exact fused v z d hv hz hd

/-- **The model's `step /= 2` is the IEEE division**: `half x` equals the generic correctly rounded
    `div x 2.0f` for every binary32 value (NaN, ±∞, ±0, subnormals with their ties included). -/
theorem b32_half_is_div_two (x : B32) : B32.half x = B32.div x B32.two := B32.half_eq_div_two x

/-- **Every arithmetic operation is "exact result, one rounding"**: `round` only yields canonical
    data, so the operations are the data-level definitions themselves (no fallback value is ever used). -/
theorem b32_ops_round_once (a b c : B32) :
    (B32.sub a b).val = B32.Raw.sub a.val b.val ∧ (B32.mul a b).val = B32.Raw.mul a.val b.val ∧
    (B32.div a b).val = B32.Raw.div a.val b.val ∧ (B32.add a b).val = B32.Raw.add a.val b.val ∧
    (B32.subMulFused a b c).val = B32.Raw.subMulFused a.val b.val c.val ∧
    (B32.subMulUnfused a b c).val = B32.Raw.sub a.val (B32.Raw.mul b.val c.val) :=
  ⟨B32.sub_val a b, B32.mul_val a b, B32.div_val a b, B32.add_val a b, B32.subMulFused_val a b c,
   B32.subMulUnfused_val a b c⟩

/-- **Representable values are fixed points of `round`**: the fraction `m·2^j / 2^k` of a canonical
    non-zero `±m·2^(j-k)` rounds to itself. -/
theorem b32_round_representable (s : Bool) (m : Nat) (e : Int) (j k : Nat)
    (hw : (B32.Raw.fin s m e).wf = true) (hm : m ≠ 0) (hjk : (j : Int) - (k : Int) = e) :
    B32.roundPos s (m * 2 ^ j) (2 ^ k) = .fin s m e :=
  B32.roundPos_repr s m e j k hw hm hjk

/-- **inner_terminates at binary32.** For every first step, evaluator, gradient and state the line
    search is over (accepted or gave up) within `e + 149 + 26` trials for a finite step `±m·2^e` and
    within one trial otherwise.  No hypothesis on the scalar is left. -/
theorem inner_terminates_b32 (fused : Bool) (P : Problem B32)
    (r slope : B32) (ds vars ev cur : Assign B32) (step : B32) (fuel : Nat)
    (hfuel : (if B32.isFinite step then B32.bound step else 0) + 1 ≤ fuel) :
    (lineSearch (B32.scalar fused) P r slope ds vars ev fuel 0 step cur).isOutOfFuel = false :=
  lineSearch_doneH (B32.scalar fused) B32.bound (B32.halving fused) P r slope ds vars ev fuel 0 step cur hfuel

/-- 279 trials always suffice. -/
theorem inner_terminates_b32_279 (fused : Bool) (P : Problem B32)
    (r slope : B32) (ds vars ev cur : Assign B32) (step : B32) (fuel : Nat) (hfuel : 279 ≤ fuel) :
    (lineSearch (B32.scalar fused) P r slope ds vars ev fuel 0 step cur).isOutOfFuel = false := by
  apply inner_terminates_b32
  have := B32.bound_le step
  split <;> omega

/-- **findRoot_never_hangs at binary32**: a `.hung` outcome needs inner fuel `≤ 278`. -/
theorem findRoot_never_hangs_b32 (fused : Bool) (P : Problem B32)
    (innerFuel outerFuel : Nat) (ev0 init : Assign B32) (mask : List Var) (gas : Nat)
    (st : St B32) (s : B32) (n : Nat)
    (h : findRoot (B32.scalar fused) P innerFuel outerFuel ev0 init mask gas = .hung st s n) :
    innerFuel ≤ 278 := by
  have h1 := findRoot_never_hangsH (B32.scalar fused) B32.bound (B32.halving fused) P innerFuel outerFuel
    ev0 init mask gas st s n h
  have h2 := B32.bound_le ((B32.scalar fused).div st.r (slopeOf (B32.scalar fused) st.ds))
  split at h1 <;> omega

/-- **findRoot_terminates at binary32.** With inner fuel `≥ 279` and outer fuel `≥ max gas 1` every
    call RETURNS — for every evaluator, initial assignment (NaN, ±∞, ±0, subnormals included), mask
    and budget, fused or unfused update.  No `Laws` hypothesis. -/
theorem findRoot_terminates_b32 (fused : Bool) (P : Problem B32)
    (innerFuel outerFuel : Nat) (ev0 init : Assign B32) (mask : List Var) (gas : Nat)
    (hin : 279 ≤ innerFuel) (hout : gas ≤ outerFuel) (hout1 : 1 ≤ outerFuel) :
    ∃ st, findRoot (B32.scalar fused) P innerFuel outerFuel ev0 init mask gas = .returned st :=
  findRoot_terminatesH (B32.scalar fused) B32.bound (B32.halving fused) P innerFuel outerFuel ev0 init mask
    gas (fun s => by have := B32.bound_le s; omega) hout hout1

/-- **absent_untouched at binary32.** A variable whose gradient component is always absent or a
    signed zero is returned with its initial value, except that an initial `-0` may be returned as
    `+0` (`optRel B32.Kept`: both lookups absent, or both present and `B32.Kept init returned`). -/
theorem absent_untouched_b32 (fused : Bool) (P : Problem B32) (innerFuel outerFuel : Nat)
    (ev0 init : Assign B32) (mask : List Var) (gas : Nat) (st : St B32)
    (h : findRoot (B32.scalar fused) P innerFuel outerFuel ev0 init mask gas = .returned st)
    (x : Var)
    (hgrad : ∀ ev, (P.grad ev).lookup x = none ∨
      ∃ z, (P.grad ev).lookup x = some z ∧ B32.isZero z = true) :
    optRel B32.Kept ((unmasked init mask).lookup x) (st.vars.lookup x) :=
  absent_untouched_rel (B32.scalar fused) B32.Kept (B32.keeps fused) P innerFuel outerFuel ev0 init mask gas
    st h x hgrad

/-- … and literally unchanged when the initial value is not `-0`. -/
theorem absent_untouched_b32_exact (fused : Bool) (P : Problem B32) (innerFuel outerFuel : Nat)
    (ev0 init : Assign B32) (mask : List Var) (gas : Nat) (st : St B32)
    (h : findRoot (B32.scalar fused) P innerFuel outerFuel ev0 init mask gas = .returned st)
    (x : Var)
    (hgrad : ∀ ev, (P.grad ev).lookup x = none ∨
      ∃ z, (P.grad ev).lookup x = some z ∧ B32.isZero z = true)
    (hv : (unmasked init mask).lookup x ≠ some B32.negZero) :
    st.vars.lookup x = (unmasked init mask).lookup x := by
  have hk := absent_untouched_b32 fused P innerFuel outerFuel ev0 init mask gas st h x hgrad
  revert hk hv
  cases (unmasked init mask).lookup x with
  | none =>
    cases st.vars.lookup x with
    | none => intros; rfl
    | some w => intro _ hk; exact absurd hk id
  | some v0 =>
    cases st.vars.lookup x with
    | none => intro _ hk; exact absurd hk id
    | some w =>
      intro hv hk
      rcases hk with rfl | ⟨h0, _⟩
      · rfl
      · exact absurd (congrArg some h0) hv

/-! ### concrete cases (all by evaluation of the model) -/

section examples
open Libfive.B32

-- halving `FLT_MAX` 278 times gives +0, 277 times does not: the bound 278 is attained
example : iter B32.half 278 fltMax = posZero := by decide +kernel
example : B32.isZero (iter B32.half 277 fltMax) = false := by decide +kernel
example : B32.bound fltMax = 278 := by decide
-- halving the smallest subnormal once gives +0 (tie to even); 3·2^-149 / 2 = 2·2^-149 (tie to even, up)
example : B32.half minSub = posZero := by decide
example : B32.half (ofRaw (.fin false 3 (-149))) = (ofRaw (.fin false 2 (-149))) := by decide
example : B32.half (ofRaw (.fin true 1 (-149))) = negZero := by decide
-- `half` of a normal number is exact: 1/2 = 2^23·2^-24, FLT_MIN/2 = 2^22·2^-149 (a subnormal)
example : B32.half B32.one = (ofRaw (.fin false 8388608 (-24))) := by decide
example : B32.half fltMin = (ofRaw (.fin false 4194304 (-149))) := by decide
-- the directly written `half` agrees with the generic correctly rounded division by 2 …
example : B32.div fltMax two = B32.half fltMax ∧ B32.div minSub two = B32.half minSub ∧
    B32.div (ofRaw (.fin false 3 (-149))) two = B32.half (ofRaw (.fin false 3 (-149))) ∧
    B32.div (ofRaw (.fin true 16777215 (-149))) two = B32.half (ofRaw (.fin true 16777215 (-149))) ∧
    B32.div B32.eps two = B32.half B32.eps ∧ B32.div negZero two = B32.half negZero := by decide
-- … non-finite values are fixed points of halving, which is what the guard of the fixed code catches
example : B32.half B32.nan = B32.nan ∧ B32.half posInf = posInf ∧ B32.half negInf = negInf := by decide
-- `EPSILON`: the generic `round` of the rational 1/10^6 is 0x358637BD
example : B32.round ⟨1, 1000000⟩ false = B32.eps := by decide
-- rounding landmarks: 1/3 = 0x3EAAAAAB, 2^24 + 1 ties to even, FLT_MAX * 2 overflows, FLT_MIN² underflows to +0
example : B32.div B32.one (B32.round ⟨3, 1⟩ false) = (ofRaw (.fin false 11184811 (-25))) := by decide
example : B32.round ⟨16777217, 1⟩ false = (ofRaw (.fin false 8388608 1)) := by decide
example : B32.mul fltMax two = posInf ∧ B32.mul fltMin fltMin = posZero := by decide
-- the refuting instance of `Laws.subMul_zero`, and the IEEE special cases the guard relies on
example : (B32.scalar true).subMul negZero negOne posZero = posZero ∧
    (B32.scalar false).subMul negZero negOne posZero = posZero ∧
    (B32.scalar true).subMul negZero B32.one posZero = negZero := by decide
example : B32.sub posInf posInf = B32.nan ∧ B32.mul posZero posInf = B32.nan ∧
    B32.div posZero negZero = B32.nan ∧ B32.div B32.one negZero = negInf ∧
    B32.div B32.one posInf = posZero := by decide

end examples

/-- the value of variable 0 in the evaluator's slots -/
def b0 (ev : Assign B32) : B32 := (ev.lookup 0).getD B32.nan

/-- `v - 2` (gradient 1); a second variable (1) does not occur -/
def linP : Problem B32 where
  value := fun ev => B32.sub (b0 ev) B32.two
  grad := fun _ => [(0, B32.one)]

/-- `findRoot(v - 2, v = 1, w = -0)`: residual -1, slope 1, step -1, accepted at once, `v = 2`. -/
def linRun (fused : Bool) : Outcome B32 :=
  findRoot (B32.scalar fused) linP 279 10 [(0, B32.posZero)] [(0, B32.one), (1, B32.negZero)] [] 10

/-- **absent_negZero_flips.** The exception in `absent_untouched_b32` is real: the absent variable 1
    starts as `-0` and is returned as `+0` (negative step: `-0 - (-1)*(+0) = +0`), so the literal
    conclusion of `absent_untouched` does not hold at binary32.  The run returns after one accepted
    step with residual `+0` and `v = 2`. -/
theorem absent_negZero_flips (fused : Bool) :
    ((linRun fused).st?.map fun st => (st.vars, st.r, st.iters, st.gaveUp)) =
      some ([(0, B32.two), (1, B32.posZero)], B32.posZero, 1, false) := by
  cases fused <;> decide +kernel

-- hypotheses of the theorems are satisfiable: the run returns (`h`), variable 1 has no gradient entry (`hgrad`)
example : ∃ st, linRun true = .returned st := findRoot_terminates_b32 true linP 279 10 _ _ _ 10
  (Nat.le_refl _) (Nat.le_refl _) (by omega)
example : ∀ ev, (linP.grad ev).lookup 1 = none ∨ ∃ z, (linP.grad ev).lookup 1 = some z ∧ B32.isZero z = true :=
  fun _ => Or.inl rfl
-- a finite first step for `inner_terminates_b32`: `1e-6` needs at most 106 + 25 + 1 trials
example : (if B32.isFinite B32.eps then B32.bound B32.eps else 0) + 1 ≤ 132 := by decide

end Libfive.C17
