/-
  C04 — The mesh is the boundary of the solid, to within the resolution.
  Property theorems only; helper lemmas in LibfiveProofs/MarchingSearch.lean, Boolean table
  specifications in LibfiveProofs/MarchingTables.lean.

  What is proved: orientation of every emitted triangle per tet mask (T, complete table); the
  bracket theorem of the multi-stage edge search for EVERY classifier, and the existence of a
  zero in the final bracket for the sign classifier of a continuous function (IVT); convexity
  of the region.  The geometric winding number of the float mesh is NOT derived
  (`winding_partial` below states what is and is not proved); it is checked by the oracle.
-/
import LibfiveProofs.MarchingSearch
import LibfiveProofs.MarchingTables
import LibfiveProofs.Marching

namespace Libfive.C04
open Libfive.Marching Generated.MeshTables Set

/-- **tet_triangle_outward (T).**  On a positively oriented reference tet with integer
    coordinates, for all 16 masks every emitted triangle `(p, q, r)` (corners at the midpoints of
    its tet edges) has a normal `(q - p) × (r - p)` with a strictly positive component along
    `outside vertex - inside vertex` for EVERY inside/outside vertex pair of the tet: triangles
    face from the solid towards the empty side. -/
theorem tet_triangle_outward : ∀ m, m < 16 → outwardOK m = true := by decide

/-- the reference tet is positively oriented, like every tet the meshers generate
    (`Libfive.C03.tets_per_cell_orientation`) -/
theorem refTet_positive :
    det3 (sub3 (refTet.getD 1 (0,0,0)) (refTet.getD 0 (0,0,0))) (sub3 (refTet.getD 2 (0,0,0)) (refTet.getD 0 (0,0,0)))
      (sub3 (refTet.getD 3 (0,0,0)) (refTet.getD 0 (0,0,0))) = 8 := by decide

/-- **search constants (T).**  The model's search is instantiated with the constants found in
    both mesher sources: 4 rounds of 16 samples. -/
theorem search_constants :
    simplexSearchCount = 4 ∧ simplexPointsPerSearch = 16 ∧
    hybridSearchCount = simplexSearchCount ∧ hybridPointsPerSearch = simplexPointsPerSearch := by decide

/-- **search_bracket.**  Model of `searchEdge` on the edge parameter `t ∈ [lo, hi]` (`lo` = the
    inside vertex) with `n ≥ 2` samples per round and `r` rounds, over an ARBITRARY classifier
    `outside` that calls `lo` inside and `hi` outside: the final bracket is nested in the edge, has
    length `(hi - lo) / (n - 1)^r`, and its ends are still classified inside / outside. -/
theorem search_bracket (outside : ℝ → Bool) (n r : Nat) (hn : 2 ≤ n) (lo hi : ℝ)
    (h : lo ≤ hi) (hlo : outside lo = false) (hhi : outside hi = true) :
    let q := search (lerpR n) outside n r (lo, hi)
    lo ≤ q.1 ∧ q.1 ≤ q.2 ∧ q.2 ≤ hi ∧ q.2 - q.1 = (hi - lo) / ((n : ℝ) - 1) ^ r ∧
    outside q.1 = false ∧ outside q.2 = true := by
  obtain ⟨⟨a1, a2, a3⟩, b, c, d⟩ := search_spec outside n hn r (lo, hi) ⟨h, hlo, hhi⟩
  exact ⟨b, a1, c, d, a2, a3⟩

/-- **search_finds_zero.**  If the classifier is the sign of a function continuous on the edge
    (`outside t ↔ 0 < f t`), `f lo ≤ 0 < f hi`, then the final bracket contains a zero of `f`, and
    the returned vertex (the midpoint of the bracket) is within `(hi - lo) / (2 (n-1)^r)` of it. -/
theorem search_finds_zero (f : ℝ → ℝ) (n r : Nat) (hn : 2 ≤ n) (lo hi : ℝ) (h : lo ≤ hi)
    (hf : ContinuousOn f (Icc lo hi)) (hlo : f lo ≤ 0) (hhi : 0 < f hi) :
    let q := search (lerpR n) (fun t => decide (0 < f t)) n r (lo, hi)
    ∃ z, q.1 ≤ z ∧ z ≤ q.2 ∧ lo ≤ z ∧ z ≤ hi ∧ f z = 0 ∧
      |(q.1 + q.2) / 2 - z| ≤ (hi - lo) / ((n : ℝ) - 1) ^ r / 2 := by
  intro q
  obtain ⟨b1, b2, b3, b4, b5, b6⟩ := search_bracket (fun t => decide (0 < f t)) n r hn lo hi h
    (by simpa using hlo) (by simpa using hhi)
  change lo ≤ q.1 at b1
  change q.1 ≤ q.2 at b2
  change q.2 ≤ hi at b3
  change q.2 - q.1 = _ at b4
  have c5 : f q.1 ≤ 0 := by simpa using b5
  have c6 : 0 < f q.2 := by simpa using b6
  have hsub : Icc q.1 q.2 ⊆ Icc lo hi := Icc_subset_Icc b1 b3
  have := intermediate_value_Icc b2 (hf.mono hsub) (show (0 : ℝ) ∈ Icc (f q.1) (f q.2) from ⟨c5, c6.le⟩)
  obtain ⟨z, ⟨hz1, hz2⟩, hz⟩ := this
  refine ⟨z, hz1, hz2, by linarith, by linarith, hz, ?_⟩
  rw [← b4, abs_le]
  constructor <;> linarith

/-- with the constants of the sources: bracket length `L / 15^4` -/
theorem search_bracket_libfive (outside : ℝ → Bool) (lo hi : ℝ) (h : lo ≤ hi)
    (hlo : outside lo = false) (hhi : outside hi = true) :
    let q := search (lerpR simplexPointsPerSearch) outside simplexPointsPerSearch simplexSearchCount (lo, hi)
    q.2 - q.1 = (hi - lo) / 50625 := by
  have := (search_bracket outside simplexPointsPerSearch simplexSearchCount (by decide) lo hi h hlo hhi).2.2.2.1
  simp only [simplexPointsPerSearch, simplexSearchCount] at this ⊢
  rw [this]
  norm_num

/-- **vertex_in_region.**  A point on the segment between two points of an axis-aligned box lies in
    the box (per coordinate): surface vertices, being convex combinations `a + t (b - a)`,
    `t ∈ [0, 1]`, of two subspace vertices inside the region, are inside the region. -/
theorem vertex_in_region (lo hi a b t : ℝ) (ha : lo ≤ a ∧ a ≤ hi) (hb : lo ≤ b ∧ b ≤ hi)
    (ht : 0 ≤ t ∧ t ≤ 1) : lo ≤ a + t * (b - a) ∧ a + t * (b - a) ≤ hi := by
  obtain ⟨ha1, ha2⟩ := ha
  obtain ⟨hb1, hb2⟩ := hb
  obtain ⟨ht1, ht2⟩ := ht
  constructor
  · nlinarith [mul_nonneg ht1 (sub_nonneg.mpr hb1), mul_nonneg (sub_nonneg.mpr ht2) (sub_nonneg.mpr ha1)]
  · nlinarith [mul_nonneg ht1 (sub_nonneg.mpr hb2), mul_nonneg (sub_nonneg.mpr ht2) (sub_nonneg.mpr ha2)]

/-- **winding_partial** (combinatorial part only).  Under hypothesis (H) the emitted triangle set
    is a closed, consistently oriented 2-cycle (every directed edge as often as its reverse).
    Together with `tet_triangle_outward` (orientation towards the outside vertices in every
    tet) and `Libfive.C03.tets_per_cell_orientation` this fixes the SIGN of the winding number.

    NOT proved (stated, checked by the oracle in tools/checks/c04.py on every run): for every point
    `x` whose distance to `{f = 0}` exceeds `k · min_feature`, the winding number of the float mesh
    around `x` (sum of signed solid angles / 4π) is `1` if `f x < 0` and `0` if `f x > 0`.
    That needs a geometric model of the octree (cells cover the region, sign samples decide every
    tet) and of float vertex placement, neither of which is derived here. -/
theorem winding_partial (s : Vid → Bool) (ts : List Tet) (H : HypH s (allFaces ts)) (e : Edge (SV Vid)) :
    (dirEdges (marchTets s ts)).count e = (dirEdges (marchTets s ts)).count (rev e) :=
  count_eq_of_wsum_zero (fun w hw => marchTets_boundary_zero s ts (hypH_bal s _ H) w hw) e

/-! ## satisfiability -/

example : outwardOK 1 = true ∧ (localTris 1).length = 1 := by decide
example : (localTris 3).length = 2 := by decide
/-- a classifier and a continuous function meeting the hypotheses -/
example : let f : ℝ → ℝ := fun t => t - 1 / 3
    ContinuousOn f (Icc 0 1) ∧ f 0 ≤ 0 ∧ 0 < f 1 := by
  refine ⟨(continuous_id.sub continuous_const).continuousOn, by norm_num, by norm_num⟩
example : (0 : ℝ) ≤ 0 + (1 / 2) * (1 - 0) ∧ (0 : ℝ) + (1 / 2) * (1 - 0) ≤ 1 :=
  vertex_in_region 0 1 0 1 (1 / 2) ⟨le_refl _, by norm_num⟩ ⟨by norm_num, le_refl _⟩ ⟨by norm_num, by norm_num⟩

end Libfive.C04
