/-
  C18 — Standard-library shapes, CSG and transforms mean what they say.
  Property theorems only; helper lemmas are in LibfiveProofs/Stdlib.lean, the model
  (transcription of libfive/stdlib/stdlib_impl.cpp) in LibfiveModel/Stdlib.lean.

  Conventions.  `eval e ρ x y z` is the value over ℝ of the tree `e` at the point (x,y,z) when the
  free variable number `i` has the value `ρ i`.  Primitives are stated with their parameters
  passed as the free variables 0,1,2,… in signature order (exactly what the tie compares with
  the real C entry points); since `ρ` is arbitrary this covers every real parameter value.
  `F` is the constant folder (single-precision evaluation in the C++); the theorems hold for every
  folder because no all-constant node is built on these inputs.  CSG and transform theorems
  hold for arbitrary argument trees (`a.isConst = false`: a shape is not a bare constant), hence
  for arbitrary compositions.
-/
import LibfiveProofs.Stdlib
set_option linter.unusedSimpArgs false
set_option linter.unnecessarySeqFocus false

namespace Libfive.C18
open Libfive Libfive.Stdlib Libfive.Stdlib.SExpr

variable (F : Folder)

/-! ## The tree-building rewrites of `Tree::unary / binary / remap` never change the meaning -/

/-- every simplification in `Tree::binary` (x+0, x*1, x*x → square, a-(-b) → a+b, min(a,a) …)
    preserves the value, in any interpretation satisfying the ordered-field laws `Lawful`,
    whenever the node is not an all-constant one (those are folded in single precision) -/
theorem binary_rewrites_sound {α : Type} {I : Interp α} (L : Lawful I) (op : Op) (a b : SExpr)
    (ρ : Env α) (h : a.isConst = false ∨ b.isConst = false) :
    denote I (mkBinary F op a b) ρ = I.bin op (denote I a ρ) (denote I b ρ) :=
  denote_mkBinary L F op a b ρ h

theorem unary_rewrites_sound {α : Type} {I : Interp α} (L : Lawful I) (op : Op) (a : SExpr)
    (ρ : Env α) (h : a.isConst = false) :
    denote I (mkUnary F op a) ρ = I.un op (denote I a ρ) :=
  denote_mkUnary L F op a ρ h

/-- `Tree::remap` (including its two short cuts) is substitution of the coordinates -/
theorem remap_is_substitution {α : Type} (I : Interp α) (t X Y Z : SExpr) (ρ : Env α) :
    denote I (mkRemap t X Y Z) ρ =
      denote I t { x := denote I X ρ, y := denote I Y ρ, z := denote I Z ρ, v := ρ.v } :=
  denote_mkRemap I t X Y Z ρ

/-- the real numbers with `Real.sqrt`, `Real.cos`, … and float constants by value are lawful -/
theorem real_interpretation_lawful : Lawful realI := realI_lawful

/-! ## Primitives: negative exactly on the documented point set -/

/-- **sphere**(radius = v0, center = (v1,v2,v3)): inside ↔ distance to the centre < radius.
    (`sphere_value`: the field is the exact Euclidean distance to the surface.) -/
theorem sphere_value (ρ : ℕ → ℝ) (x y z : ℝ) :
    eval (sphere F (var 0) ⟨var 1, var 2, var 3⟩) ρ x y z =
      Real.sqrt ((x - ρ 1) ^ 2 + (y - ρ 2) ^ 2 + (z - ρ 3) ^ 2) - ρ 0 := by
  rw [eval_sphere]; ring_nf

theorem sphere_inside (ρ : ℕ → ℝ) (x y z : ℝ) (hr : 0 < ρ 0) :
    eval (sphere F (var 0) ⟨var 1, var 2, var 3⟩) ρ x y z < 0 ↔
      (x - ρ 1) ^ 2 + (y - ρ 2) ^ 2 + (z - ρ 3) ^ 2 < ρ 0 ^ 2 := by
  rw [sphere_value, sub_neg, Real.sqrt_lt' hr]

/-- **circle**(r = v0, center = (v1,v2)) -/
theorem circle_inside (ρ : ℕ → ℝ) (x y z : ℝ) (hr : 0 < ρ 0) :
    eval (circle F (var 0) ⟨var 1, var 2⟩) ρ x y z < 0 ↔ (x - ρ 1) ^ 2 + (y - ρ 2) ^ 2 < ρ 0 ^ 2 := by
  rw [eval_circle, sub_neg, Real.sqrt_lt' hr]; ring_nf

/-- **rectangle**(a = (v0,v1), b = (v2,v3)): the open rectangle between the bounding corners -/
theorem rectangle_inside (ρ : ℕ → ℝ) (x y z : ℝ) :
    eval (rectangle F ⟨var 0, var 1⟩ ⟨var 2, var 3⟩) ρ x y z < 0 ↔
      (ρ 0 < x ∧ x < ρ 2) ∧ (ρ 1 < y ∧ y < ρ 3) := by
  rw [eval_rectangle]; simp only [max_lt_iff, sub_neg]

/-- **box_mitered**(a = (v0,v1,v2), b = (v3,v4,v5)) (aliases `box`, `cube`) -/
theorem box_mitered_inside (ρ : ℕ → ℝ) (x y z : ℝ) :
    eval (box_mitered F ⟨var 0, var 1, var 2⟩ ⟨var 3, var 4, var 5⟩) ρ x y z < 0 ↔
      ((ρ 0 < x ∧ x < ρ 3) ∧ (ρ 1 < y ∧ y < ρ 4)) ∧ (ρ 2 < z ∧ z < ρ 5) := by
  rw [eval_box_mitered]; simp only [max_lt_iff, sub_neg]

/-- **box_mitered_centered**(size = (v0,v1,v2), center = (v3,v4,v5)) -/
theorem box_mitered_centered_inside (ρ : ℕ → ℝ) (x y z : ℝ) :
    eval (box_mitered_centered F ⟨var 0, var 1, var 2⟩ ⟨var 3, var 4, var 5⟩) ρ x y z < 0 ↔
      |x - ρ 3| < ρ 0 / 2 ∧ |y - ρ 4| < ρ 1 / 2 ∧ |z - ρ 5| < ρ 2 / 2 := by
  rw [eval_box_mitered_centered]; simp only [max_lt_iff, sub_neg, abs_lt]
  constructor
  · rintro ⟨⟨⟨h1, h2⟩, h3, h4⟩, h5, h6⟩
    exact ⟨⟨by linarith, by linarith⟩, ⟨by linarith, by linarith⟩, ⟨by linarith, by linarith⟩⟩
  · rintro ⟨⟨h1, h2⟩, ⟨h3, h4⟩, ⟨h5, h6⟩⟩
    exact ⟨⟨⟨by linarith, by linarith⟩, by linarith, by linarith⟩, by linarith, by linarith⟩

/-- **extrude_z**(t, zmin = v_i, zmax = v_j) for an arbitrary 2D shape `t` -/
theorem extrude_z_inside (t : SExpr) (i j : ℕ) (ρ : ℕ → ℝ) (x y z : ℝ) :
    eval (extrude_z F t (var i) (var j)) ρ x y z < 0 ↔ eval t ρ x y z < 0 ∧ ρ i < z ∧ z < ρ j := by
  unfold eval extrude_z
  rw [denote_mkBinary realI_lawful F _ _ _ _ (Or.inr rfl)]
  show max (denote realI t _) (max (ρ i - z) (z - ρ j)) < 0 ↔ _
  simp only [max_lt_iff, sub_neg]

/-- **cylinder_z**(r = v0, h = v1, base = (v2,v3,v4)) -/
theorem cylinder_z_inside (ρ : ℕ → ℝ) (x y z : ℝ) (hr : 0 < ρ 0) :
    eval (cylinder_z F (var 0) (var 1) ⟨var 2, var 3, var 4⟩) ρ x y z < 0 ↔
      (x - ρ 2) ^ 2 + (y - ρ 3) ^ 2 < ρ 0 ^ 2 ∧ ρ 4 < z ∧ z < ρ 4 + ρ 1 := by
  rw [eval_cylinder_z]; simp only [max_lt_iff, sub_neg, Real.sqrt_lt' hr]; ring_nf

/-- **torus_z**(ro = v0, ri = v1, center = (v2,v3,v4)): the points at distance < ri from the
    circle of radius ro around the z axis through the centre (the header's "outer / inner
    radius" are the ring radius and the tube radius). -/
theorem torus_z_inside (ρ : ℕ → ℝ) (x y z : ℝ) (hr : 0 < ρ 1) :
    eval (torus_z F (var 0) (var 1) ⟨var 2, var 3, var 4⟩) ρ x y z < 0 ↔
      (ρ 0 - Real.sqrt ((x - ρ 2) ^ 2 + (y - ρ 3) ^ 2)) ^ 2 + (z - ρ 4) ^ 2 < ρ 1 ^ 2 := by
  rw [eval_torus_z, sub_neg, Real.sqrt_lt' hr]; ring_nf

/-- **half_space**(norm = (v0,v1,v2), point = (v3,v4,v5)): the open half space through `point`
    on the side *opposite* to `norm` (the header does not say which side is inside). -/
theorem half_space_inside (ρ : ℕ → ℝ) (x y z : ℝ) :
    eval (half_space F ⟨var 0, var 1, var 2⟩ ⟨var 3, var 4, var 5⟩) ρ x y z < 0 ↔
      (x - ρ 3) * ρ 0 + (y - ρ 4) * ρ 1 + (z - ρ 5) * ρ 2 < 0 := by
  rw [eval_half_space]

/-- **ring**(ro = v0, ri = v1, center = (v2,v3)): the annulus ri < distance to the centre < ro -/
theorem ring_inside (ρ : ℕ → ℝ) (x y z : ℝ) :
    eval (ring F (var 0) (var 1) ⟨var 2, var 3⟩) ρ x y z < 0 ↔
      ρ 1 < Real.sqrt ((x - ρ 2) ^ 2 + (y - ρ 3) ^ 2) ∧
      Real.sqrt ((x - ρ 2) ^ 2 + (y - ρ 3) ^ 2) < ρ 0 := by
  rw [eval_ring]; simp only [max_lt_iff, sub_neg]
  rw [show (x - ρ 2) * (x - ρ 2) + (y - ρ 3) * (y - ρ 3) = (x - ρ 2) ^ 2 + (y - ρ 3) ^ 2 by ring]
  exact And.comm

/-- **triangle**(a = (v0,v1), b = (v2,v3), c = (v4,v5)): the open triangle, whichever way it is
    wound: p is strictly on the same side of the three directed edges a→b, b→c, c→a. -/
theorem triangle_inside (ρ : ℕ → ℝ) (x y z : ℝ) :
    eval (triangle F ⟨var 0, var 1⟩ ⟨var 2, var 3⟩ ⟨var 4, var 5⟩) ρ x y z < 0 ↔
      ((ρ 3 - ρ 1) * (x - ρ 0) - (ρ 2 - ρ 0) * (y - ρ 1) < 0 ∧
       (ρ 5 - ρ 3) * (x - ρ 2) - (ρ 4 - ρ 2) * (y - ρ 3) < 0 ∧
       (ρ 1 - ρ 5) * (x - ρ 4) - (ρ 0 - ρ 4) * (y - ρ 5) < 0) ∨
      (0 < (ρ 3 - ρ 1) * (x - ρ 0) - (ρ 2 - ρ 0) * (y - ρ 1) ∧
       0 < (ρ 5 - ρ 3) * (x - ρ 2) - (ρ 4 - ρ 2) * (y - ρ 3) ∧
       0 < (ρ 1 - ρ 5) * (x - ρ 4) - (ρ 0 - ρ 4) * (y - ρ 5)) := by
  rw [eval_triangle]
  have e1 : (ρ 1 - ρ 3) * (x - ρ 2) - (ρ 0 - ρ 2) * (y - ρ 3)
      = -((ρ 3 - ρ 1) * (x - ρ 0) - (ρ 2 - ρ 0) * (y - ρ 1)) := by ring
  have e2 : (ρ 3 - ρ 5) * (x - ρ 4) - (ρ 2 - ρ 4) * (y - ρ 5)
      = -((ρ 5 - ρ 3) * (x - ρ 2) - (ρ 4 - ρ 2) * (y - ρ 3)) := by ring
  have e3 : (ρ 5 - ρ 1) * (x - ρ 0) - (ρ 4 - ρ 0) * (y - ρ 1)
      = -((ρ 1 - ρ 5) * (x - ρ 4) - (ρ 0 - ρ 4) * (y - ρ 5)) := by ring
  rw [e1, e2, e3]
  simp only [min_lt_iff, max_lt_iff, neg_neg_iff_pos]
  tauto

/-! ### cones: the code does not build the documented cone -/

/-- **cone_ang_z_actual** (`_partial`).  What `cone_ang_z(angle = v0, height = v1, base = (v2,v3,v4))`
    really is: above the base plane and below the plane `cos a·ρ + sin a·(z - base.z) = height`.
    The documented cone ("slope angle, height") has its apex at `base.z + height`; this one has
    it at `base.z + height / sin a` and base radius `height / cos a`. -/
theorem cone_ang_z_actual (ρ : ℕ → ℝ) (x y z : ℝ) :
    eval (cone_ang_z F (var 0) (var 1) ⟨var 2, var 3, var 4⟩) ρ x y z < 0 ↔
      ρ 4 < z ∧ Real.cos (ρ 0) * Real.sqrt ((x - ρ 2) ^ 2 + (y - ρ 3) ^ 2)
                 + Real.sin (ρ 0) * (z - ρ 4) < ρ 1 := by
  rw [eval_cone_ang_z]; simp only [max_lt_iff, sub_neg, neg_neg_iff_pos, sub_pos]; ring_nf

/-- **cone_z_actual** (`_partial`).  `cone_z(radius = v0, height = v1, base)`, radius, height > 0:
    the cone over the disc of radius `√(r²+h²)` (not `r`) with apex at `h·√(r²+h²)/r` (not `h`).
    Full (documented) statement, which is FALSE for this code (see `cone_z_not_documented`):
      `… < 0 ↔ ρ 4 < z ∧ √((x-bx)²+(y-by)²) / r + (z - bz) / h < 1`. -/
theorem cone_z_actual (ρ : ℕ → ℝ) (x y z : ℝ) (hr : 0 < ρ 0) (hh : 0 < ρ 1) :
    eval (cone_z F (var 0) (var 1) ⟨var 2, var 3, var 4⟩) ρ x y z < 0 ↔
      ρ 4 < z ∧ ρ 1 * Real.sqrt ((x - ρ 2) ^ 2 + (y - ρ 3) ^ 2) + ρ 0 * (z - ρ 4)
                 < ρ 1 * Real.sqrt (ρ 0 ^ 2 + ρ 1 ^ 2) := by
  rw [eval_cone_z]
  have hs : 0 < Real.sqrt (ρ 0 ^ 2 + ρ 1 ^ 2) := Real.sqrt_pos.mpr (by positivity)
  have hsq : Real.sqrt (1 + (ρ 0 / ρ 1) ^ 2) = Real.sqrt (ρ 0 ^ 2 + ρ 1 ^ 2) / ρ 1 := by
    rw [show 1 + (ρ 0 / ρ 1) ^ 2 = (ρ 0 ^ 2 + ρ 1 ^ 2) / ρ 1 ^ 2 by field_simp; ring]
    rw [Real.sqrt_div (by positivity), Real.sqrt_sq hh.le]
  have hat : realAtan2 (ρ 0) (ρ 1) = Real.arctan (ρ 0 / ρ 1) := by simp [realAtan2, hh]
  rw [hat, Real.cos_arctan, Real.sin_arctan, hsq]
  simp only [max_lt_iff, neg_neg_iff_pos, sub_pos, sub_neg]
  have key : ∀ A : ℝ, (1 / (Real.sqrt (ρ 0 ^ 2 + ρ 1 ^ 2) / ρ 1) * A
        + ρ 0 / ρ 1 / (Real.sqrt (ρ 0 ^ 2 + ρ 1 ^ 2) / ρ 1) * (z - ρ 4) < ρ 1) ↔
      (ρ 1 * A + ρ 0 * (z - ρ 4) < ρ 1 * Real.sqrt (ρ 0 ^ 2 + ρ 1 ^ 2)) := by
    intro A
    have e : 1 / (Real.sqrt (ρ 0 ^ 2 + ρ 1 ^ 2) / ρ 1) * A
        + ρ 0 / ρ 1 / (Real.sqrt (ρ 0 ^ 2 + ρ 1 ^ 2) / ρ 1) * (z - ρ 4)
        = (ρ 1 * A + ρ 0 * (z - ρ 4)) / Real.sqrt (ρ 0 ^ 2 + ρ 1 ^ 2) := by
      field_simp
    rw [e, div_lt_iff₀ hs]
  rw [show (x - ρ 2) * (x - ρ 2) + (y - ρ 3) * (y - ρ 3) = (x - ρ 2) ^ 2 + (y - ρ 3) ^ 2 by ring]
  rw [key]

/-- the parameters of the counterexample: radius 1, height 2, base at the origin -/
noncomputable def coneWitness : ℕ → ℝ := fun i => if i = 0 then 1 else if i = 1 then 2 else 0

/-- **cone_z_not_documented.**  The documented claim — `cone_z(radius, height, base)` is the cone
    with base radius `radius` and apex `height` above the base — is false for the code:
    `cone_z(1, 2, [0,0,0])` contains the point `(2, 0, 1/10)`, which is at distance 2 > 1 from
    the axis.  (Replayed on the real library by the check on every run.) -/
theorem cone_z_not_documented :
    ¬ ∀ (ρ : ℕ → ℝ) (x y z : ℝ), 0 < ρ 0 → 0 < ρ 1 →
        (eval (cone_z F (var 0) (var 1) ⟨var 2, var 3, var 4⟩) ρ x y z < 0 ↔
          ρ 4 < z ∧ Real.sqrt ((x - ρ 2) ^ 2 + (y - ρ 3) ^ 2) / ρ 0 + (z - ρ 4) / ρ 1 < 1) := by
  intro h
  have h1 := h coneWitness 2 0 (1 / 10) (by norm_num [coneWitness]) (by norm_num [coneWitness])
  rw [cone_z_actual F coneWitness 2 0 (1 / 10) (by norm_num [coneWitness]) (by norm_num [coneWitness])] at h1
  have e4 : Real.sqrt 4 = 2 := by
    rw [show (4 : ℝ) = 2 ^ 2 by norm_num]; exact Real.sqrt_sq (by norm_num)
  have e5 : (41 / 20 : ℝ) < Real.sqrt 5 := by
    rw [Real.lt_sqrt (by norm_num)]; norm_num
  simp only [coneWitness] at h1
  norm_num at h1
  rw [e4] at h1
  have := h1.mp (by linarith)
  norm_num at this

/-- **cone_z_fixed_inside.**  With the repair of proposed_fixes/C18-cone-plane-offset.patch
    (`sin(angle) * (z - height)` instead of `sin(angle) * z - height`) the documented statement
    holds: base disc of radius `r` at `base.z`, apex at `base.z + h`. -/
theorem cone_z_fixed_inside (ρ : ℕ → ℝ) (x y z : ℝ) (hr : 0 < ρ 0) (hh : 0 < ρ 1) :
    eval (cone_z_fixed F (var 0) (var 1) ⟨var 2, var 3, var 4⟩) ρ x y z < 0 ↔
      ρ 4 < z ∧ Real.sqrt ((x - ρ 2) ^ 2 + (y - ρ 3) ^ 2) / ρ 0 + (z - ρ 4) / ρ 1 < 1 := by
  rw [eval_cone_z_fixed]
  have hs : 0 < Real.sqrt (ρ 0 ^ 2 + ρ 1 ^ 2) := Real.sqrt_pos.mpr (by positivity)
  have hsq : Real.sqrt (1 + (ρ 0 / ρ 1) ^ 2) = Real.sqrt (ρ 0 ^ 2 + ρ 1 ^ 2) / ρ 1 := by
    rw [show 1 + (ρ 0 / ρ 1) ^ 2 = (ρ 0 ^ 2 + ρ 1 ^ 2) / ρ 1 ^ 2 by field_simp; ring]
    rw [Real.sqrt_div (by positivity), Real.sqrt_sq hh.le]
  have hat : realAtan2 (ρ 0) (ρ 1) = Real.arctan (ρ 0 / ρ 1) := by simp [realAtan2, hh]
  rw [hat, Real.cos_arctan, Real.sin_arctan, hsq]
  simp only [max_lt_iff, neg_neg_iff_pos, sub_pos]
  rw [show (x - ρ 2) * (x - ρ 2) + (y - ρ 3) * (y - ρ 3) = (x - ρ 2) ^ 2 + (y - ρ 3) ^ 2 by ring]
  generalize Real.sqrt ((x - ρ 2) ^ 2 + (y - ρ 3) ^ 2) = A
  have e : 1 / (Real.sqrt (ρ 0 ^ 2 + ρ 1 ^ 2) / ρ 1) * A
      + ρ 0 / ρ 1 / (Real.sqrt (ρ 0 ^ 2 + ρ 1 ^ 2) / ρ 1) * (z - ρ 4 - ρ 1)
      = (ρ 1 * A + ρ 0 * (z - ρ 4 - ρ 1)) / Real.sqrt (ρ 0 ^ 2 + ρ 1 ^ 2) := by
    field_simp
  have e2 : A / ρ 0 + (z - ρ 4) / ρ 1 - 1 = (ρ 1 * A + ρ 0 * (z - ρ 4 - ρ 1)) / (ρ 0 * ρ 1) := by
    field_simp; ring
  have hp : 0 < ρ 0 * ρ 1 := by positivity
  have h2 : A / ρ 0 + (z - ρ 4) / ρ 1 < 1 ↔ ρ 1 * A + ρ 0 * (z - ρ 4 - ρ 1) < 0 := by
    rw [← sub_neg, e2, div_lt_iff₀ hp, zero_mul]
  rw [e, div_lt_iff₀ hs, zero_mul, h2]

/-! ## `*_exact`: the value is the signed Euclidean distance to the boundary -/

/-- nearest point of the interval `[lo, hi]` -/
noncomputable def clamp (a lo hi : ℝ) : ℝ := max lo (min a hi)

/-- Signed Euclidean distance from `(px,py,pz)` to the boundary of the axis-aligned box with
    centre `c` and half sizes `h` (specification): inside, minus the distance to the nearest
    face; outside, the distance to the nearest point of the box (the clamped point). -/
noncomputable def boxSDF (hx hy hz cx cy cz px py pz : ℝ) : ℝ :=
  if |px - cx| ≤ hx ∧ |py - cy| ≤ hy ∧ |pz - cz| ≤ hz then
    -(min (hx - |px - cx|) (min (hy - |py - cy|) (hz - |pz - cz|)))
  else
    Real.sqrt ((px - clamp px (cx - hx) (cx + hx)) ^ 2 + (py - clamp py (cy - hy) (cy + hy)) ^ 2
      + (pz - clamp pz (cz - hz) (cz + hz)) ^ 2)

/-- the same in the plane -/
noncomputable def rectSDF (hx hy cx cy px py : ℝ) : ℝ :=
  if |px - cx| ≤ hx ∧ |py - cy| ≤ hy then -(min (hx - |px - cx|) (hy - |py - cy|))
  else Real.sqrt ((px - clamp px (cx - hx) (cx + hx)) ^ 2 + (py - clamp py (cy - hy) (cy + hy)) ^ 2)

theorem clamp_dist_sq (p c h : ℝ) (hh : 0 ≤ h) :
    (p - clamp p (c - h) (c + h)) ^ 2 = max (|p - c| - h) 0 * max (|p - c| - h) 0 := by
  unfold clamp
  rcases lt_or_ge h (p - c) with h1 | h1
  · have hpos : 0 ≤ p - c := by linarith
    rw [min_eq_right (by linarith), max_eq_right (by linarith), abs_of_nonneg hpos,
      max_eq_left (by linarith)]; ring
  · rcases lt_or_ge (p - c) (-h) with h2 | h2
    · have hneg : p - c ≤ 0 := by linarith
      rw [min_eq_left (by linarith), max_eq_left (by linarith), abs_of_nonpos hneg,
        max_eq_left (by linarith)]; ring
    · have : |p - c| ≤ h := abs_le.mpr ⟨h2, h1⟩
      rw [min_eq_left (by linarith), max_eq_right (by linarith), max_eq_right (by linarith)]; ring

/-- **box_exact_centered**(size = (v0,v1,v2) ≥ 0, center = (v3,v4,v5)) returns the signed
    Euclidean distance to the boundary of the box. -/
theorem box_exact_centered_value (ρ : ℕ → ℝ) (x y z : ℝ)
    (h0 : 0 ≤ ρ 0) (h1 : 0 ≤ ρ 1) (h2 : 0 ≤ ρ 2) :
    eval (box_exact_centered F ⟨var 0, var 1, var 2⟩ ⟨var 3, var 4, var 5⟩) ρ x y z =
      boxSDF (ρ 0 / 2) (ρ 1 / 2) (ρ 2 / 2) (ρ 3) (ρ 4) (ρ 5) x y z := by
  rw [eval_box_exact_centered]
  unfold boxSDF
  split
  · next hin =>
    obtain ⟨a, b, c⟩ := hin
    rw [max_eq_right (sub_nonpos.mpr a), max_eq_right (sub_nonpos.mpr b),
      max_eq_right (sub_nonpos.mpr c)]
    have hm : max (|x - ρ 3| - ρ 0 / 2) (max (|y - ρ 4| - ρ 1 / 2) (|z - ρ 5| - ρ 2 / 2)) ≤ 0 :=
      max_le (by linarith) (max_le (by linarith) (by linarith))
    rw [min_eq_right hm]
    simp only [mul_zero, add_zero, Real.sqrt_zero]
    rw [← max_neg_neg, ← max_neg_neg]; simp only [neg_sub]
  · next hout =>
    have hm : 0 ≤ max (|x - ρ 3| - ρ 0 / 2) (max (|y - ρ 4| - ρ 1 / 2) (|z - ρ 5| - ρ 2 / 2)) := by
      by_contra hc
      push Not at hc
      simp only [max_lt_iff, sub_neg] at hc
      exact hout ⟨hc.1.le, hc.2.1.le, hc.2.2.le⟩
    rw [min_eq_left hm, zero_add, clamp_dist_sq _ _ _ (by linarith), clamp_dist_sq _ _ _ (by linarith),
      clamp_dist_sq _ _ _ (by linarith)]

/-- **box_exact**(a = (v0,v1,v2), b = (v3,v4,v5)), a ≤ b: signed distance to the box with these
    bounding corners. -/
theorem box_exact_value (ρ : ℕ → ℝ) (x y z : ℝ) (h0 : ρ 0 ≤ ρ 3) (h1 : ρ 1 ≤ ρ 4) (h2 : ρ 2 ≤ ρ 5) :
    eval (box_exact F ⟨var 0, var 1, var 2⟩ ⟨var 3, var 4, var 5⟩) ρ x y z =
      boxSDF ((ρ 3 - ρ 0) / 2) ((ρ 4 - ρ 1) / 2) ((ρ 5 - ρ 2) / 2)
        ((ρ 0 + ρ 3) / 2) ((ρ 1 + ρ 4) / 2) ((ρ 2 + ρ 5) / 2) x y z := by
  rw [eval_box_exact]
  unfold boxSDF
  split
  · next hin =>
    obtain ⟨a, b, c⟩ := hin
    rw [max_eq_right (sub_nonpos.mpr a), max_eq_right (sub_nonpos.mpr b),
      max_eq_right (sub_nonpos.mpr c)]
    rw [min_eq_right (max_le (by linarith) (max_le (by linarith) (by linarith)))]
    simp only [mul_zero, add_zero, Real.sqrt_zero]
    rw [← max_neg_neg, ← max_neg_neg]; simp only [neg_sub]
  · next hout =>
    rw [min_eq_left (by
      by_contra hc
      push Not at hc
      simp only [max_lt_iff, sub_neg] at hc
      exact hout ⟨hc.1.le, hc.2.1.le, hc.2.2.le⟩), zero_add,
      clamp_dist_sq _ _ _ (by linarith), clamp_dist_sq _ _ _ (by linarith),
      clamp_dist_sq _ _ _ (by linarith)]

/-- **rectangle_centered_exact**(size = (v0,v1) ≥ 0, center = (v2,v3)) -/
theorem rectangle_centered_exact_value (ρ : ℕ → ℝ) (x y z : ℝ) (h0 : 0 ≤ ρ 0) (h1 : 0 ≤ ρ 1) :
    eval (rectangle_centered_exact F ⟨var 0, var 1⟩ ⟨var 2, var 3⟩) ρ x y z =
      rectSDF (ρ 0 / 2) (ρ 1 / 2) (ρ 2) (ρ 3) x y := by
  rw [eval_rectangle_centered_exact]
  unfold rectSDF
  split
  · next hin =>
    obtain ⟨a, b⟩ := hin
    rw [max_eq_right (sub_nonpos.mpr a), max_eq_right (sub_nonpos.mpr b)]
    have hm : max (|x - ρ 2| - ρ 0 / 2) (|y - ρ 3| - ρ 1 / 2) ≤ 0 := max_le (by linarith) (by linarith)
    rw [min_eq_left hm]
    simp only [mul_zero, add_zero, Real.sqrt_zero]
    rw [← max_neg_neg]; simp only [neg_sub]
  · next hout =>
    have hm : 0 ≤ max (|x - ρ 2| - ρ 0 / 2) (|y - ρ 3| - ρ 1 / 2) := by
      by_contra hc
      push Not at hc
      simp only [max_lt_iff, sub_neg] at hc
      exact hout ⟨hc.1.le, hc.2.le⟩
    rw [min_eq_right hm, zero_add, clamp_dist_sq _ _ _ (by linarith), clamp_dist_sq _ _ _ (by linarith)]

/-- **rectangle_exact**(a = (v0,v1), b = (v2,v3)), a ≤ b: signed distance to the rectangle with
    these bounding corners (centre (a+b)/2, half size (b-a)/2). -/
theorem rectangle_exact_value (ρ : ℕ → ℝ) (x y z : ℝ) (h0 : ρ 0 ≤ ρ 2) (h1 : ρ 1 ≤ ρ 3) :
    eval (rectangle_exact F ⟨var 0, var 1⟩ ⟨var 2, var 3⟩) ρ x y z =
      rectSDF ((ρ 2 - ρ 0) / 2) ((ρ 3 - ρ 1) / 2) ((ρ 0 + ρ 2) / 2) ((ρ 1 + ρ 3) / 2) x y := by
  rw [eval_rectangle_exact]
  unfold rectSDF
  split
  · next hin =>
    obtain ⟨a, b⟩ := hin
    rw [max_eq_right (sub_nonpos.mpr a), max_eq_right (sub_nonpos.mpr b)]
    have hm : max (|x - (ρ 0 + ρ 2) / 2| - (ρ 2 - ρ 0) / 2) (|y - (ρ 1 + ρ 3) / 2| - (ρ 3 - ρ 1) / 2) ≤ 0 :=
      max_le (by linarith) (by linarith)
    rw [min_eq_left hm]
    simp only [mul_zero, add_zero, Real.sqrt_zero]
    rw [← max_neg_neg]; simp only [neg_sub]
  · next hout =>
    have hm : 0 ≤ max (|x - (ρ 0 + ρ 2) / 2| - (ρ 2 - ρ 0) / 2) (|y - (ρ 1 + ρ 3) / 2| - (ρ 3 - ρ 1) / 2) := by
      by_contra hc
      push Not at hc
      simp only [max_lt_iff, sub_neg] at hc
      exact hout ⟨hc.1.le, hc.2.le⟩
    rw [min_eq_right hm, zero_add, clamp_dist_sq _ _ _ (by linarith), clamp_dist_sq _ _ _ (by linarith)]

/-! ## CSG: set algebra on inside-ness (strict inequalities; the boundary is excluded) -/

theorem union_inside (a b : SExpr) (ha : a.isConst = false) (ρ : ℕ → ℝ) (x y z : ℝ) :
    eval (union F a b) ρ x y z < 0 ↔ eval a ρ x y z < 0 ∨ eval b ρ x y z < 0 := by
  unfold eval union
  rw [denote_mkBinary realI_lawful F _ _ _ _ (Or.inl ha)]
  exact min_lt_iff

theorem intersection_inside (a b : SExpr) (ha : a.isConst = false) (ρ : ℕ → ℝ) (x y z : ℝ) :
    eval (intersection F a b) ρ x y z < 0 ↔ eval a ρ x y z < 0 ∧ eval b ρ x y z < 0 := by
  unfold eval intersection
  rw [denote_mkBinary realI_lawful F _ _ _ _ (Or.inl ha)]
  exact max_lt_iff

/-- inverse: inside ↔ strictly outside the argument (points with value 0 belong to neither) -/
theorem inverse_inside (a : SExpr) (ha : a.isConst = false) (ρ : ℕ → ℝ) (x y z : ℝ) :
    eval (inverse F a) ρ x y z < 0 ↔ 0 < eval a ρ x y z := by
  unfold eval inverse
  rw [denote_mkUnary realI_lawful F _ _ _ ha]
  exact neg_neg_iff_pos

/-- difference: inside `a` and strictly outside `b` -/
theorem difference_inside (a b : SExpr) (ha : a.isConst = false) (hb : b.isConst = false)
    (ρ : ℕ → ℝ) (x y z : ℝ) :
    eval (difference F a b) ρ x y z < 0 ↔ eval a ρ x y z < 0 ∧ 0 < eval b ρ x y z := by
  unfold difference
  rw [intersection_inside F _ _ ha, inverse_inside F _ hb]

/-- offset: the field is shifted (for an exact distance field: the solid grows by `o`) -/
theorem offset_value (a : SExpr) (i : ℕ) (ρ : ℕ → ℝ) (x y z : ℝ) :
    eval (offset F a (var i)) ρ x y z = eval a ρ x y z - ρ i := by
  unfold eval offset
  rw [denote_mkBinary realI_lawful F _ _ _ _ (Or.inr rfl)]; rfl

/-- clearance(a, b, o): inside `a` and strictly outside `b` grown by `o` -/
theorem clearance_inside (a b : SExpr) (i : ℕ) (ha : a.isConst = false)
    (ρ : ℕ → ℝ) (x y z : ℝ) :
    eval (clearance F a b (var i)) ρ x y z < 0 ↔ eval a ρ x y z < 0 ∧ ρ i < eval b ρ x y z := by
  unfold clearance difference
  rw [intersection_inside F _ _ ha]
  unfold eval inverse offset
  have hnc : (mkBinary F Op.sub b (var i)).isConst = false := by
    show (mkBinaryFuel F (63 + 1) Op.sub b (var i)).isConst = false
    unfold mkBinaryFuel
    cases b <;> simp [isConst, mkUnary]
    split_ifs <;> rfl
  rw [denote_mkUnary realI_lawful F _ _ _ hnc, denote_mkBinary realI_lawful F _ _ _ _ (Or.inr rfl)]
  show _ ∧ -(denote realI b _ - ρ i) < 0 ↔ _
  simp only [neg_sub, sub_neg]

/-! ## Transforms: `T s` at `p` is `s` at the preimage of `p` under the documented point map.
    `t` is arbitrary, so these compose (`transform_compose` below). -/

/-- move by `o = (v_i, v_j, v_k)`:  φ(p) = p + o -/
theorem move_spec (t : SExpr) (i j k : ℕ) (ρ : ℕ → ℝ) (x y z : ℝ) :
    eval (move F t ⟨var i, var j, var k⟩) ρ x y z = eval t ρ (x - ρ i) (y - ρ j) (z - ρ k) := by
  unfold eval move; rw [denote_mkRemap]; rfl

/-- reflect about the plane x = x0:  φ(p) = (2 x0 - x, y, z) (an involution) -/
theorem reflect_x_spec (t : SExpr) (i : ℕ) (ρ : ℕ → ℝ) (x y z : ℝ) :
    eval (reflect_x F t (var i)) ρ x y z = eval t ρ (2 * ρ i - x) y z := by
  unfold eval reflect_x; rw [denote_mkRemap, ← f32Real_two]; rfl
theorem reflect_y_spec (t : SExpr) (i : ℕ) (ρ : ℕ → ℝ) (x y z : ℝ) :
    eval (reflect_y F t (var i)) ρ x y z = eval t ρ x (2 * ρ i - y) z := by
  unfold eval reflect_y; rw [denote_mkRemap, ← f32Real_two]; rfl
theorem reflect_z_spec (t : SExpr) (i : ℕ) (ρ : ℕ → ℝ) (x y z : ℝ) :
    eval (reflect_z F t (var i)) ρ x y z = eval t ρ x y (2 * ρ i - z) := by
  unfold eval reflect_z; rw [denote_mkRemap, ← f32Real_two]; rfl

/-- reflections about the planes x=y, y=z, x=z swap the two coordinates -/
theorem reflect_xy_spec (t : SExpr) (ρ : ℕ → ℝ) (x y z : ℝ) :
    eval (reflect_xy t) ρ x y z = eval t ρ y x z := by
  unfold eval reflect_xy; rw [denote_mkRemap]; rfl
theorem reflect_yz_spec (t : SExpr) (ρ : ℕ → ℝ) (x y z : ℝ) :
    eval (reflect_yz t) ρ x y z = eval t ρ x z y := by
  unfold eval reflect_yz; rw [denote_mkRemap]; rfl
theorem reflect_xz_spec (t : SExpr) (ρ : ℕ → ℝ) (x y z : ℝ) :
    eval (reflect_xz t) ρ x y z = eval t ρ z y x := by
  unfold eval reflect_xz; rw [denote_mkRemap]; rfl

/-- symmetric_x: the half x ≥ 0 of the shape, mirrored: p is inside iff (|x|,y,z) is -/
theorem symmetric_x_spec (t : SExpr) (ρ : ℕ → ℝ) (x y z : ℝ) :
    eval (symmetric_x F t) ρ x y z = eval t ρ |x| y z := by
  unfold eval symmetric_x; rw [denote_mkRemap]; rfl
theorem symmetric_y_spec (t : SExpr) (ρ : ℕ → ℝ) (x y z : ℝ) :
    eval (symmetric_y F t) ρ x y z = eval t ρ x |y| z := by
  unfold eval symmetric_y; rw [denote_mkRemap]; rfl
theorem symmetric_z_spec (t : SExpr) (ρ : ℕ → ℝ) (x y z : ℝ) :
    eval (symmetric_z F t) ρ x y z = eval t ρ x y |z| := by
  unfold eval symmetric_z; rw [denote_mkRemap]; rfl

/-- scale_x by `s = v_i` about `x0 = v_j`:  φ(p) = (x0 + s (x - x0), y, z); stated with φ⁻¹ -/
theorem scale_x_spec (t : SExpr) (i j : ℕ) (ρ : ℕ → ℝ) (x y z : ℝ) :
    eval (scale_x F t (var i) (var j)) ρ x y z = eval t ρ (ρ j + (x - ρ j) / ρ i) y z := by
  unfold eval scale_x; rw [denote_mkRemap]; rfl
theorem scale_y_spec (t : SExpr) (i j : ℕ) (ρ : ℕ → ℝ) (x y z : ℝ) :
    eval (scale_y F t (var i) (var j)) ρ x y z = eval t ρ x (ρ j + (y - ρ j) / ρ i) z := by
  unfold eval scale_y; rw [denote_mkRemap]; rfl
theorem scale_z_spec (t : SExpr) (i j : ℕ) (ρ : ℕ → ℝ) (x y z : ℝ) :
    eval (scale_z F t (var i) (var j)) ρ x y z = eval t ρ x y (ρ j + (z - ρ j) / ρ i) := by
  unfold eval scale_z; rw [denote_mkRemap]; rfl
theorem scale_xyz_spec (t : SExpr) (i j k l m n : ℕ) (ρ : ℕ → ℝ) (x y z : ℝ) :
    eval (scale_xyz F t ⟨var i, var j, var k⟩ ⟨var l, var m, var n⟩) ρ x y z =
      eval t ρ (ρ l + (x - ρ l) / ρ i) (ρ m + (y - ρ m) / ρ j) (ρ n + (z - ρ n) / ρ k) := by
  unfold eval scale_xyz; rw [denote_mkRemap]; rfl

/-- φ⁻¹ really is the inverse of the documented scaling (s ≠ 0) -/
theorem scale_inverse (s c x : ℝ) (hs : s ≠ 0) : c + ((c + s * (x - c)) - c) / s = x := by
  field_simp; ring

/-- rotate_z by `a = v_i` about the vertical axis through `c = (v_j,v_k,v_l)`: the shape is turned
    counter-clockwise (right-handed about +z) by `a`; the preimage of p is p turned by `-a`. -/
theorem rotate_z_spec (t : SExpr) (i j k l : ℕ) (ρ : ℕ → ℝ) (x y z : ℝ) :
    eval (rotate_z F t (var i) ⟨var j, var k, var l⟩) ρ x y z =
      eval t ρ (ρ j + (Real.cos (ρ i) * (x - ρ j) + Real.sin (ρ i) * (y - ρ k)))
               (ρ k + (-Real.sin (ρ i) * (x - ρ j) + Real.cos (ρ i) * (y - ρ k)))
               z := by
  unfold eval rotate_z move
  simp only [denote_mkRemap]
  show denote realI t ⟨_, _, _, ρ⟩ = denote realI t ⟨_, _, _, ρ⟩
  congr 2 <;> simp [denote, realI, realBin, realUn, mkBinary, mkBinaryFuel, binaryFuel, mkUnary] <;> ring

/-- rotate_x by `a` about the axis through `c` parallel to x: right-handed about +x -/
theorem rotate_x_spec (t : SExpr) (i j k l : ℕ) (ρ : ℕ → ℝ) (x y z : ℝ) :
    eval (rotate_x F t (var i) ⟨var j, var k, var l⟩) ρ x y z =
      eval t ρ x
               (ρ k + (Real.cos (ρ i) * (y - ρ k) + Real.sin (ρ i) * (z - ρ l)))
               (ρ l + (-Real.sin (ρ i) * (y - ρ k) + Real.cos (ρ i) * (z - ρ l))) := by
  unfold eval rotate_x move
  simp only [denote_mkRemap]
  show denote realI t ⟨_, _, _, ρ⟩ = denote realI t ⟨_, _, _, ρ⟩
  congr 2 <;> simp [denote, realI, realBin, realUn, mkBinary, mkBinaryFuel, binaryFuel, mkUnary] <;> ring

/-- rotate_y by `a` about the axis through `c` parallel to y.  NOTE the sense: the preimage of p
    is p turned by `+a` in the right-handed sense about +y, i.e. the shape is turned by `-a`
    (x towards z) — opposite to rotate_x / rotate_z.  The header only says "rotate by an angle
    in radians", so this is recorded, not reported. -/
theorem rotate_y_spec (t : SExpr) (i j k l : ℕ) (ρ : ℕ → ℝ) (x y z : ℝ) :
    eval (rotate_y F t (var i) ⟨var j, var k, var l⟩) ρ x y z =
      eval t ρ (ρ j + (Real.cos (ρ i) * (x - ρ j) + Real.sin (ρ i) * (z - ρ l)))
               y
               (ρ l + (-Real.sin (ρ i) * (x - ρ j) + Real.cos (ρ i) * (z - ρ l))) := by
  unfold eval rotate_y move
  simp only [denote_mkRemap]
  show denote realI t ⟨_, _, _, ρ⟩ = denote realI t ⟨_, _, _, ρ⟩
  congr 2 <;> simp [denote, realI, realBin, realUn, mkBinary, mkBinaryFuel, binaryFuel, mkUnary] <;> ring

/-- shear_x_y(t, base = (v_i,v_j), height = v_k, offset = v_l, base_offset = v_m): the x offset goes
    linearly from `base_offset` at y = base.y to `offset` at y = base.y + height -/
theorem shear_x_y_spec (t : SExpr) (i j k l m : ℕ) (ρ : ℕ → ℝ) (x y z : ℝ) :
    eval (shear_x_y F t ⟨var i, var j⟩ (var k) (var l) (var m)) ρ x y z =
      eval t ρ (x - ρ m * (1 - (y - ρ j) / ρ k) - ρ l * ((y - ρ j) / ρ k)) y z := by
  unfold eval shear_x_y; rw [denote_mkRemap, ← f32Real_one]; rfl

/-- taper_xy_z(t, base = (v_i,v_j,v_k), height = v_l, scale = v_m, base_scale = v_n): xy are scaled about
    base by the factor `s(z) = (scale·(z-base.z) + base_scale·(height-(z-base.z))) / height`, which is
    `base_scale` at z = base.z and `scale` at z = base.z + height; the preimage divides by `s(z)` -/
theorem taper_xy_z_spec (t : SExpr) (i j k l m n : ℕ) (ρ : ℕ → ℝ) (x y z : ℝ) :
    eval (taper_xy_z F t ⟨var i, var j, var k⟩ (var l) (var m) (var n)) ρ x y z =
      eval t ρ (ρ i + (x - ρ i) * (ρ l / (ρ m * (z - ρ k) + ρ n * (ρ l - (z - ρ k)))))
               (ρ j + (y - ρ j) * (ρ l / (ρ m * (z - ρ k) + ρ n * (ρ l - (z - ρ k)))))
               z := by
  unfold eval taper_xy_z move v3neg
  simp only [denote_mkRemap]
  show denote realI t ⟨_, _, _, ρ⟩ = denote realI t ⟨_, _, _, ρ⟩
  congr 2 <;> simp [denote, realI, realBin, realUn, mkBinary, mkBinaryFuel, binaryFuel, mkUnary] <;> ring


theorem taper_x_y_spec (t : SExpr) (i j l m n : ℕ) (ρ : ℕ → ℝ) (x y z : ℝ) :
    eval (taper_x_y F t ⟨var i, var j⟩ (var l) (var m) (var n)) ρ x y z =
      eval t ρ (ρ i + (x - ρ i) * (ρ l / (ρ m * (y - ρ j) + ρ n * (ρ l - (y - ρ j))))) y z := by
  unfold eval taper_x_y move
  simp only [denote_mkRemap]
  show denote realI t ⟨_, _, _, ρ⟩ = denote realI t ⟨_, _, _, ρ⟩
  congr 2 <;> simp [denote, realI, realBin, realUn, mkBinary, mkBinaryFuel, binaryFuel, mkUnary, c0, isZeroBits] <;> ring

/-- the rotation preimage map is a rigid motion: it preserves distances to the centre -/
theorem rotation_isometry (a u v : ℝ) :
    (Real.cos a * u + Real.sin a * v) ^ 2 + (-Real.sin a * u + Real.cos a * v) ^ 2 = u ^ 2 + v ^ 2 := by
  have := Real.sin_sq_add_cos_sq a
  nlinarith [this]

/-- **closed under composition**: e.g. a moved, rotated sphere, cut by a moved box -/
theorem transform_compose (s : SExpr) (ρ : ℕ → ℝ) (x y z : ℝ) :
    eval (move F (reflect_x F (scale_z F s (var 10) (var 11)) (var 12)) ⟨var 13, var 14, var 15⟩) ρ x y z =
      eval s ρ (2 * ρ 12 - (x - ρ 13)) (y - ρ 14) (ρ 11 + (z - ρ 15 - ρ 11) / ρ 10) := by
  rw [move_spec, reflect_x_spec, scale_z_spec]

/-! ## Satisfiability of the hypotheses (each theorem is used on a concrete instance) -/

noncomputable def unitParams : ℕ → ℝ := fun i => if i = 0 then 1 else 0

example : eval (sphere F (var 0) ⟨var 1, var 2, var 3⟩) unitParams 0 0 0 < 0 := by
  rw [sphere_inside F unitParams 0 0 0 (by norm_num [unitParams])]; norm_num [unitParams]
example : ¬ eval (sphere F (var 0) ⟨var 1, var 2, var 3⟩) unitParams 2 0 0 < 0 := by
  rw [sphere_inside F unitParams 2 0 0 (by norm_num [unitParams])]; norm_num [unitParams]
example : eval (circle F (var 0) ⟨var 1, var 2⟩) unitParams 0 0 5 < 0 := by
  rw [circle_inside F unitParams 0 0 5 (by norm_num [unitParams])]; norm_num [unitParams]
example : ∃ ρ : ℕ → ℝ, eval (rectangle F ⟨var 0, var 1⟩ ⟨var 2, var 3⟩) ρ 1 1 0 < 0 :=
  ⟨fun i => if i < 2 then 0 else 2, by rw [rectangle_inside]; norm_num⟩
example : ∃ ρ : ℕ → ℝ, eval (box_mitered F ⟨var 0, var 1, var 2⟩ ⟨var 3, var 4, var 5⟩) ρ 1 1 1 < 0 :=
  ⟨fun i => if i < 3 then 0 else 2, by rw [box_mitered_inside]; norm_num⟩
example : ∃ ρ : ℕ → ℝ, eval (box_mitered_centered F ⟨var 0, var 1, var 2⟩ ⟨var 3, var 4, var 5⟩) ρ 0 0 0 < 0 :=
  ⟨fun i => if i < 3 then 2 else 0, by rw [box_mitered_centered_inside]; norm_num⟩
example : ∃ ρ : ℕ → ℝ, 0 < ρ 0 ∧ eval (cylinder_z F (var 0) (var 1) ⟨var 2, var 3, var 4⟩) ρ 0 0 (1/2) < 0 :=
  ⟨fun i => if i < 2 then 1 else 0, by norm_num, by rw [cylinder_z_inside _ _ _ _ _ (by norm_num)]; norm_num⟩
example : ∃ ρ : ℕ → ℝ, 0 < ρ 1 ∧ eval (torus_z F (var 0) (var 1) ⟨var 2, var 3, var 4⟩) ρ 2 0 0 < 0 := by
  have e4 := sqrt_four
  exact ⟨fun i => if i = 0 then 2 else if i = 1 then 1 else 0, by norm_num,
   by rw [torus_z_inside _ _ _ _ _ (by norm_num)]; norm_num [e4]⟩
example : ∃ ρ : ℕ → ℝ, eval (half_space F ⟨var 0, var 1, var 2⟩ ⟨var 3, var 4, var 5⟩) ρ 0 0 (-1) < 0 :=
  ⟨fun i => if i = 2 then 1 else 0, by rw [half_space_inside]; norm_num⟩
example : 0 < coneWitness 0 ∧ 0 < coneWitness 1 := by norm_num [coneWitness]
example : ∃ ρ : ℕ → ℝ, eval (triangle F ⟨var 0, var 1⟩ ⟨var 2, var 3⟩ ⟨var 4, var 5⟩) ρ 1 (1/2) 0 < 0 :=
  ⟨fun i => if i = 2 then 4 else if i = 5 then 4 else 0, by rw [triangle_inside]; norm_num⟩
example : ∃ ρ : ℕ → ℝ, eval (ring F (var 0) (var 1) ⟨var 2, var 3⟩) ρ 2 0 0 < 0 :=
  ⟨fun i => if i = 0 then 3 else if i = 1 then 1 else 0, by
    rw [ring_inside]; norm_num [sqrt_four]⟩
example : ∃ ρ : ℕ → ℝ, ρ 0 ≤ ρ 3 ∧ ρ 1 ≤ ρ 4 ∧ ρ 2 ≤ ρ 5 ∧ ρ 0 ≤ ρ 2 := ⟨fun i => i, by norm_num⟩
example : boxSDF 1 1 1 0 0 0 3 0 0 = 2 := by
  unfold boxSDF clamp; norm_num [sqrt_four]
example : boxSDF 1 1 1 0 0 0 0 0 0 = -1 := by
  unfold boxSDF; norm_num
example : rectSDF 1 1 0 0 3 0 = 2 := by
  unfold rectSDF clamp; norm_num [sqrt_four]
example : rectSDF 1 1 0 0 0 0 = -1 := by
  unfold rectSDF; norm_num
example : (SExpr.x).isConst = false := rfl
example : (sphere F (var 0) ⟨var 1, var 2, var 3⟩).isConst = false := rfl

end Libfive.C18
