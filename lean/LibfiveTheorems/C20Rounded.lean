/-
  C20 — Progress reports are monotone: the ROUNDED computation.
  Property theorems only; the model is LibfiveModel/ProgressRounded.lean, helper lemmas are in
  LibfiveProofs/ProgressRounded.lean.  `LibfiveTheorems/C20.lean` (`progress_monotone`) is the
  same statement for the exact rational fraction; `rounded_eq_exact` below connects the two models.
-/
import LibfiveProofs.ProgressRounded
import LibfiveProofs.Progress
import Mathlib.Data.Rat.Floor
import Mathlib.Tactic.NormNum

namespace Libfive.C20
open Libfive.Progress (Phase)
open Libfive.ProgressRounded

section field
variable {K : Type} [Field K] [LinearOrder K] [IsStrictOrderedRing K]

/-- **rounded_fraction_monotone_counters.**  `ProgressHandler::run` computes

        accum = 0;  for each phase up to the current one:
                        if (total) accum = rnd(accum + rnd(rnd(weight·counter) / rnd(total)));
        next  = total_weight ? rnd(accum / rnd(total_weight)) : 0

    (`rfraction rnd W ps`, `ps` = the phases up to and including the current one, in order, `W` =
    `total_weight`).  If between two wake-ups of the thread the current phase is the same and, in
    every phase, weight and total are unchanged and the counter has not decreased
    (`SamePhaseLe ps qs`), then the value computed later is not smaller — for EVERY rounding
    function `rnd` that is monotone and maps 0 to 0.

    What this assumes about the C++ / IEEE-754 binary32 (hypotheses here, not proved):
    * conversion to `float` (of a `uint64_t` or `unsigned`), `float` division and `float` addition
      are each the exact result followed by ONE AND THE SAME rounding function (round to nearest,
      ties to even), and that function is monotone (`a ≤ b → rnd a ≤ rnd b`) with `rnd 0 = 0` —
      the standard property of IEEE rounding, so that conversion is monotone, and division and
      addition are monotone in each argument wherever the exact operation is;
    * no FMA contraction / excess precision changes the sequence of roundings (contraction cannot
      apply: there is no multiply feeding an add in floating point — the product is an integer one);
    * `weight * counter` does not wrap around in `uint64_t`, so it is the mathematical product;
    * every quantity stays finite (true: all operands are at most 2^64 and `total ≠ 0` where it
      divides, `total_weight ≠ 0` where it divides), so `K` = the rationals is enough.
    Nothing else about `rnd` is used; in particular not that it is close to the identity. -/
theorem rounded_fraction_monotone_counters (rnd : K → K) (hm : Monotone rnd) (h0 : rnd 0 = 0)
    (W : Nat) (ps qs : List Phase) (h : SamePhaseLe ps qs) :
    rfraction rnd W ps ≤ rfraction rnd W qs :=
  rfraction_mono_of_raccum hm h0 W (raccum_mono hm h0 h)

/-- the fraction is never negative (weights, counters, totals are unsigned) -/
theorem rounded_fraction_nonneg (rnd : K → K) (hm : Monotone rnd) (h0 : rnd 0 = 0)
    (W : Nat) (ps : List Phase) : 0 ≤ rfraction rnd W ps :=
  rfraction_nonneg hm h0 W ps

/-- **rounded_fraction_monotone_phase.**  `Later ps qs`: `qs` has at least as many phases as `ps`
    (the current phase only moves forward), and each phase of `ps` is seen in `qs` either with the
    same weight and total and a counter that has not decreased, or it had `total == 0` in `ps`
    (`nextPhase` stores `total` after it has released the lock).  All weights, counters and totals
    are unsigned, hence non-negative.  Then the value computed later is not smaller.

    Besides `Monotone rnd` and `rnd 0 = 0` this needs that `rnd` is IDEMPOTENT
    (`rnd (rnd x) = rnd x`: a representable number rounds to itself — true of IEEE rounding): the
    extra iterations compute `rnd (accum + term)` with `term ≥ 0` from an `accum` that is itself a
    value of `rnd`.  Without idempotence the statement is false, see
    `rounded_phase_needs_idempotent`. -/
theorem rounded_fraction_monotone_phase (rnd : K → K) (hm : Monotone rnd) (h0 : rnd 0 = 0)
    (hid : ∀ x, rnd (rnd x) = rnd x) (W : Nat) (ps qs : List Phase) (h : Later ps qs) :
    rfraction rnd W ps ≤ rfraction rnd W qs :=
  rfraction_mono_of_raccum hm h0 W (raccum_mono_later hm h0 hid h)

/-- the same in "longer prefix" form: `qs₁` are `ps`'s phases seen later (a finished phase keeps
    `counter = total`), `ext` the phases the handler has advanced through since -/
theorem rounded_fraction_monotone_phase_append (rnd : K → K) (hm : Monotone rnd) (h0 : rnd 0 = 0)
    (hid : ∀ x, rnd (rnd x) = rnd x) (W : Nat) (ps qs₁ ext : List Phase)
    (h : SamePhaseLe ps qs₁) :
    rfraction rnd W ps ≤ rfraction rnd W (qs₁ ++ ext) :=
  rounded_fraction_monotone_phase rnd hm h0 hid W ps _
    (later_append ext (later_of_samePhaseLe h))

/-- **reported_sequence_monotone.**  `ss` = the snapshots the thread sees at its successive
    wake-ups (`Ordered`: each one `Later` than the one before).  `reported rnd W ss` = the
    arguments of the `progress(next)` calls made inside the loop (those with `next != prev`,
    `prev` starting at `0.0f`); the thread calls `progress(0.0f)` once before the loop, which is
    the leading `0`.  The whole sequence of reported values is non-decreasing, and it starts at 0
    so every value is `≥ 0`. -/
theorem reported_sequence_monotone (rnd : K → K) (hm : Monotone rnd) (h0 : rnd 0 = 0)
    (hid : ∀ x, rnd (rnd x) = rnd x) (W : Nat) (ss : List (List Phase)) (h : Ordered ss) :
    ((0 : K) :: reported rnd W ss).Pairwise (· ≤ ·) ∧ ∀ x ∈ reported rnd W ss, 0 ≤ x := by
  have key : ChainLe (0 : K) (ss.map (rfraction rnd W)) := by
    cases ss with
    | nil => trivial
    | cons s ss => exact ⟨rfraction_nonneg hm h0 W s, chainLe_of_ordered hm h0 hid W s ss h⟩
  obtain ⟨h1, h2⟩ := reportedVals_strict _ 0 key
  exact ⟨List.pairwise_cons.2 ⟨fun x hx => (h1 x hx).le, h2.imp fun hab => hab.le⟩,
    fun x hx => (h1 x hx).le⟩

/-- … in fact strictly increasing (a value is reported only when it differs from the previous
    one): no value is reported twice, and `0` is reported only by the call before the loop. -/
theorem reported_sequence_strict (rnd : K → K) (hm : Monotone rnd) (h0 : rnd 0 = 0)
    (hid : ∀ x, rnd (rnd x) = rnd x) (W : Nat) (ss : List (List Phase)) (h : Ordered ss) :
    ((0 : K) :: reported rnd W ss).Pairwise (· < ·) := by
  have key : ChainLe (0 : K) (ss.map (rfraction rnd W)) := by
    cases ss with
    | nil => trivial
    | cons s ss => exact ⟨rfraction_nonneg hm h0 W s, chainLe_of_ordered hm h0 hid W s ss h⟩
  obtain ⟨h1, h2⟩ := reportedVals_strict _ 0 key
  exact List.pairwise_cons.2 ⟨h1, h2⟩

/-- **rounded_fraction_le_one_of_exact** (upper bound, under an EXTRA hypothesis).  `fraction ≤ 1`
    does not follow from monotonicity (see `rounded_fraction_not_le_one`).  It does follow when
    the integers that occur are representable: `rnd n = n` for all naturals `n ≤ B` (binary32:
    `B = 2^24`), and `total_weight ≤ B`, every `total ≤ B`, every `weight · total ≤ B`; plus the
    facts about the handler that no counter exceeds its total and the weights of the phases
    seen sum to at most `total_weight`. -/
theorem rounded_fraction_le_one_of_exact (rnd : K → K) (hm : Monotone rnd) (h0 : rnd 0 = 0)
    (B : Nat) (hex : ∀ n : Nat, n ≤ B → rnd (n : K) = n) (W : Nat) (ps : List Phase)
    (hW : W ≤ B) (hsum : weightSum ps ≤ W)
    (hps : ∀ p ∈ ps, p.total ≤ B ∧ p.weight * p.total ≤ B ∧ p.counter ≤ p.total) :
    rfraction rnd W ps ≤ 1 :=
  rfraction_le_one hm h0 B hex W ps hW hsum hps

/-- **rounded_fraction_le_one_unit_weights** (upper bound, the render case).  Every render in
    libfive starts the handler with unit weights (`Mesh::render`: `start({1, 1, 1})`,
    `total_weight = W = 3`).  Then `weight * counter` is just `counter`, and
    `rounded_fraction_le_one_of_exact`'s bound `weight · total ≤ B` is not needed: the totals are
    ARBITRARY (deep renders have totals of 19 million and more, beyond `2^24`, where `(float)total`
    is inexact).  Hypotheses: `Monotone rnd`, `rnd 0 = 0`, the small integers `0 … W` are exact
    (`rnd n = n` for `n ≤ W`), every phase seen has weight 1 and `counter ≤ total`, and there are
    at most `W` of them.  (Each term is `rnd (rnd c / rnd t) ≤ rnd 1 = 1` because
    `rnd c ≤ rnd t`; after `k` phases `accum ≤ k = rnd k`; finally `rnd (accum / W) ≤ rnd 1`.)

    The bound is FALSE for a weight `≥ 2` in binary32: with `start({3})` and
    `total = counter = 2^24 + 1` the real code reports `1 + 2^-23 = 1.00000012` (observed by
    running the C++; by hand: `(float)(3·(2^24+1)) = 3·2^24 + 4`, `(float)(2^24+1) = 2^24`, the
    quotient `3 + 2^-22` is representable, and `(3 + 2^-22) / 3` rounds to `1 + 2^-23`).  That is
    outside renders (unit weights) but reachable through the public `ProgressHandler::start`;
    `rounded_fraction_not_le_one` is the same mechanism with a toy rounding. -/
theorem rounded_fraction_le_one_unit_weights (rnd : K → K) (hm : Monotone rnd) (h0 : rnd 0 = 0)
    (W : Nat) (hex : ∀ n : Nat, n ≤ W → rnd (n : K) = n) (ps : List Phase)
    (hlen : ps.length ≤ W) (hps : ∀ p ∈ ps, p.weight = 1 ∧ p.counter ≤ p.total) :
    rfraction rnd W ps ≤ 1 :=
  rfraction_le_one_unit hm h0 W hex ps hlen hps

/-- **rounded_fraction_eq_one_unit_weights_complete** ("the completed fraction is exactly 1", at
    the rounded level).  Unit weights, all `W ≥ 1` phases seen, each with `counter = total ≥ 1`
    (totals arbitrary), `rnd` monotone and exact on `0 … W`: the value computed is exactly 1.
    (Each term is `rnd (rnd t / rnd t) = rnd 1 = 1` since `rnd t ≥ rnd 1 = 1 > 0`; `accum`
    runs through `1, 2, …, W` exactly; `rnd (W / W) = 1`.)  `rnd 0 = 0` is the case `n = 0` of
    the exactness hypothesis. -/
theorem rounded_fraction_eq_one_unit_weights_complete (rnd : K → K) (hm : Monotone rnd)
    (W : Nat) (hex : ∀ n : Nat, n ≤ W → rnd (n : K) = n) (ps : List Phase)
    (hlen : ps.length = W) (hW : 1 ≤ W)
    (hps : ∀ p ∈ ps, p.weight = 1 ∧ p.counter = p.total ∧ 1 ≤ p.total) :
    rfraction rnd W ps = 1 :=
  rfraction_eq_one_unit hm W hex ps hlen hW hps

omit [LinearOrder K] [IsStrictOrderedRing K] in
/-- **rounded_eq_exact.**  With `rnd = id` the rounded model is the exact model of
    LibfiveModel/Progress.lean (`fraction ps n cur`: handler with `n` phases `ps 0 … ps (n-1)`,
    current phase `cur`), about which `progress_monotone` speaks. -/
theorem rounded_eq_exact (ps : Nat → Phase) (n cur : Nat) :
    rfraction (id : K → K) (Libfive.Progress.totalWeight ps n) ((List.range (cur + 1)).map ps) =
      Libfive.Progress.fraction ps n cur := by
  have hacc : ∀ m, raccum (id : K → K) ((List.range (m + 1)).map ps) =
      Libfive.Progress.accum ps m := by
    intro m
    induction m with
    | zero =>
      simp only [raccum, rstep, rterm, Libfive.Progress.accum, Libfive.Progress.contrib,
        List.range_succ, List.range_zero, List.nil_append, List.map_cons, List.map_nil,
        List.foldl_cons, List.foldl_nil, id]
      split <;> simp
    | succ m ih =>
      rw [List.range_succ, List.map_append, raccum, List.foldl_append]
      change rstep id (raccum id ((List.range (m + 1)).map ps)) (ps (m + 1)) = _
      rw [ih]
      simp only [rstep, rterm, Libfive.Progress.accum, Libfive.Progress.contrib, id]
      split <;> simp
  unfold rfraction Libfive.Progress.fraction
  rw [hacc]
  rfl

end field

/-! ### what cannot be dropped / what does not follow -/

/-- **rounded_phase_needs_idempotent.**  `rnd x = x / 2` is monotone with `rnd 0 = 0` but not
    idempotent; with it, advancing to a second phase (weight 1, total 1, counter 0) LOWERS the
    fraction from 1/8 to 1/16.  So `rounded_fraction_monotone_phase` needs more than monotonicity;
    idempotence is what IEEE rounding provides. -/
theorem rounded_phase_needs_idempotent :
    ∃ rnd : ℚ → ℚ, Monotone rnd ∧ rnd 0 = 0 ∧
      Later [⟨1, 1, 1⟩] [⟨1, 1, 1⟩, ⟨1, 1, 0⟩] ∧
      rfraction rnd 2 [⟨1, 1, 1⟩, ⟨1, 1, 0⟩] < rfraction rnd 2 [⟨1, 1, 1⟩] := by
  refine ⟨fun x => x / 2, ?_, by norm_num, ?_, ?_⟩
  · intro a b h
    exact div_le_div_of_nonneg_right h (by norm_num)
  · simp [Later, PhaseStep, PhaseLe]
  · norm_num [rfraction, raccum, rstep, rterm]

/-- a rounding that is exact on `[0, 4]` and on `[8, ∞)` and rounds the gap `(4, 8)` up to 8 -/
def rndGap (q : ℚ) : ℚ := if q ≤ 4 then q else max q 8

theorem rndGap_monotone : Monotone rndGap := by
  intro a b h
  unfold rndGap
  split <;> split
  · exact h
  · rename_i ha hb
    exact (ha.trans (by norm_num)).trans (le_max_right _ _)
  · rename_i ha hb
    exact absurd (h.trans hb) ha
  · exact max_le_max h le_rfl

theorem rndGap_idempotent (x : ℚ) : rndGap (rndGap x) = rndGap x := by
  by_cases h : x ≤ 4
  · have hx : rndGap x = x := by unfold rndGap; rw [if_pos h]
    rw [hx, hx]
  · have hx : rndGap x = max x 8 := by unfold rndGap; rw [if_neg h]
    have h8 : ¬ max x 8 ≤ 4 := by
      intro h'
      have := (le_max_right x 8).trans h'
      norm_num at this
    rw [hx]
    unfold rndGap
    rw [if_neg h8, max_assoc, max_self]

/-- **rounded_fraction_not_le_one** (remark on the upper bound).  `fraction ≤ 1` is NOT a
    consequence of `rnd` being monotone, idempotent, `rnd 0 = 0`, and even exact on every number
    in `[0, 4]`: with `rndGap`, one phase of weight 3 (= `total_weight`) and `counter = total = 2`,
    the product 6 rounds up to 8 while the total 2 is exact, the term is `8 / 2 = 4 > 3` and the
    completed handler reports `4/3`.  (In binary32 the same mechanism needs
    `weight · counter > 2^24`; `rounded_fraction_le_one_of_exact` is the positive statement.) -/
theorem rounded_fraction_not_le_one :
    Monotone rndGap ∧ rndGap 0 = 0 ∧ (∀ x, rndGap (rndGap x) = rndGap x) ∧
    (∀ x, 0 ≤ x → x ≤ 4 → rndGap x = x) ∧
    rfraction rndGap 3 [⟨3, 2, 2⟩] = 4 / 3 ∧ ¬ rfraction rndGap 3 [⟨3, 2, 2⟩] ≤ 1 := by
  have hv : rfraction rndGap 3 [⟨3, 2, 2⟩] = 4 / 3 := by
    norm_num [rfraction, raccum, rstep, rterm, rndGap]
  refine ⟨rndGap_monotone, by norm_num [rndGap], rndGap_idempotent, ?_, hv, ?_⟩
  · intro x _ h4
    unfold rndGap
    rw [if_pos h4]
  · rw [hv]; norm_num

/-! ### the hypotheses are satisfiable -/

/-- round down to a multiple of 1/8: monotone, idempotent, not the identity -/
def rnd8 (q : ℚ) : ℚ := (⌊q * 8⌋ : ℚ) / 8

theorem rnd8_monotone : Monotone rnd8 := by
  intro a b h
  unfold rnd8
  apply div_le_div_of_nonneg_right _ (by norm_num)
  exact_mod_cast Int.floor_mono (mul_le_mul_of_nonneg_right h (by norm_num))

theorem rnd8_zero : rnd8 0 = 0 := by norm_num [rnd8]

theorem rnd8_idempotent (x : ℚ) : rnd8 (rnd8 x) = rnd8 x := by
  unfold rnd8
  rw [div_mul_cancel₀ _ (by norm_num : (8 : ℚ) ≠ 0), Int.floor_intCast]

-- `rnd8` is not the identity
example : rnd8 (1 / 3) = 1 / 4 := by norm_num [rnd8]

-- a two-phase computation (weights 1 and 2, total_weight 3): phase 0 complete (3 of 3), phase 1
-- at 3 of 7.  Exactly (1 + 6/7) / 3 = 13/21; rounded: term₁ = rnd8 (6/7) = 3/4, accum = 7/4,
-- next = rnd8 (7/12) = 1/2.
example : rfraction rnd8 3 [⟨1, 3, 3⟩, ⟨2, 7, 3⟩] = 1 / 2 := by
  norm_num [rfraction, raccum, rstep, rterm, rnd8]

-- one more tick in phase 1: 4 of 7; term₁ = rnd8 (8/7) = 1, accum = 2, next = rnd8 (2/3) = 5/8
example : rfraction rnd8 3 [⟨1, 3, 3⟩, ⟨2, 7, 4⟩] = 5 / 8 := by
  norm_num [rfraction, raccum, rstep, rterm, rnd8]

-- the hypotheses of the three theorems are discharged for `rnd8` and concrete snapshots
example : rfraction rnd8 3 [⟨1, 3, 3⟩, ⟨2, 7, 3⟩] ≤ rfraction rnd8 3 [⟨1, 3, 3⟩, ⟨2, 7, 4⟩] :=
  rounded_fraction_monotone_counters rnd8 rnd8_monotone rnd8_zero 3 _ _
    (by simp [SamePhaseLe, PhaseLe])

example : rfraction rnd8 3 [⟨1, 3, 2⟩] ≤ rfraction rnd8 3 [⟨1, 3, 3⟩, ⟨2, 7, 3⟩] :=
  rounded_fraction_monotone_phase rnd8 rnd8_monotone rnd8_zero rnd8_idempotent 3 _ _
    (by simp [Later, PhaseStep, PhaseLe])

-- a run: phase 0 seen with total still 0, then 2 of 3, then phase 1 reached (total 0), 3 of 7, 4 of 7
example : Ordered [[⟨1, 0, 0⟩], [⟨1, 3, 2⟩], [⟨1, 3, 3⟩, ⟨2, 0, 0⟩], [⟨1, 3, 3⟩, ⟨2, 7, 3⟩],
    [⟨1, 3, 3⟩, ⟨2, 7, 4⟩]] := by
  simp [Ordered, Later, PhaseStep, PhaseLe]

example : reported rnd8 3 [[⟨1, 0, 0⟩], [⟨1, 3, 2⟩], [⟨1, 3, 3⟩, ⟨2, 0, 0⟩], [⟨1, 3, 3⟩, ⟨2, 7, 3⟩],
    [⟨1, 3, 3⟩, ⟨2, 7, 4⟩]] = [1 / 8, 1 / 4, 1 / 2, 5 / 8] := by
  norm_num [reported, reportedVals, rfraction, raccum, rstep, rterm, rnd8]

-- `rounded_fraction_le_one_of_exact`: `rnd8` is exact on all naturals
example : rfraction rnd8 3 [⟨1, 3, 3⟩, ⟨2, 7, 7⟩] ≤ 1 :=
  rounded_fraction_le_one_of_exact rnd8 rnd8_monotone rnd8_zero 100
    (fun n _ => by
      unfold rnd8
      rw [show ((n : ℚ) * 8) = ((n * 8 : ℤ) : ℚ) by push_cast; ring, Int.floor_intCast]
      push_cast; ring)
    3 _ (by decide) (by decide) (by simp)

/-- exact up to 4, rounds DOWN to a multiple of 4 above: inexact on large totals, exact on `0 … 3` -/
def rndT (q : ℚ) : ℚ := if q ≤ 4 then q else (⌊q / 4⌋ : ℚ) * 4

theorem rndT_monotone : Monotone rndT := by
  intro a b h
  unfold rndT
  split <;> split
  · exact h
  · rename_i ha hb
    have hb' : (4 : ℚ) < b := lt_of_not_ge hb
    have h1 : (1 : ℤ) ≤ ⌊b / 4⌋ := by
      rw [Int.le_floor]
      push_cast
      rw [le_div_iff₀ (by norm_num)]
      linarith
    have h1' : (1 : ℚ) ≤ (⌊b / 4⌋ : ℚ) := by exact_mod_cast h1
    linarith
  · rename_i ha hb
    exact absurd (h.trans hb) ha
  · apply mul_le_mul_of_nonneg_right _ (by norm_num)
    exact_mod_cast Int.floor_mono (div_le_div_of_nonneg_right h (by norm_num))

theorem rndT_exact (n : Nat) (h : n ≤ 3) : rndT (n : ℚ) = n := by
  unfold rndT
  rw [if_pos]
  exact_mod_cast (by omega : n ≤ 4)

-- `rndT` is inexact on the totals used below
example : rndT 7 = 4 ∧ rndT 9 = 8 ∧ rndT 10 = 8 := by norm_num [rndT]

-- `rounded_fraction_le_one_unit_weights` / `…_eq_one_…_complete`: the render case
-- (`start({1,1,1})`), totals 7, 9, 10 on which `rndT` is inexact
example : rfraction rndT 3 [⟨1, 7, 7⟩, ⟨1, 9, 7⟩] ≤ 1 :=
  rounded_fraction_le_one_unit_weights rndT rndT_monotone (by norm_num [rndT]) 3 rndT_exact _
    (by decide) (by simp)

example : rfraction rndT 3 [⟨1, 7, 7⟩, ⟨1, 9, 7⟩] = 1 / 2 := by
  norm_num [rfraction, raccum, rstep, rterm, rndT]

example : rfraction rndT 3 [⟨1, 7, 7⟩, ⟨1, 9, 9⟩, ⟨1, 10, 10⟩] = 1 :=
  rounded_fraction_eq_one_unit_weights_complete rndT rndT_monotone 3 rndT_exact _ rfl (by decide)
    (by simp)

end Libfive.C20
