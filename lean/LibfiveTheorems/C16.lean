/-
  C16 — Black-box oracles behave exactly like the expressions they wrap.
  Property theorems only; the model is LibfiveModel/Oracle.lean, helper lemmas are in
  LibfiveProofs/Oracle.lean, specialisation soundness is reused from C05.
-/
import LibfiveProofs.Oracle
import LibfiveTheorems.C05

namespace Libfive.C16

open Libfive Libfive.OracleM

/-! ## values -/

/-- **transformed_value.** A transformed oracle over an oracle wrapping `e`, with coordinate
    evaluators for `X Y Z`, returns at `p` the value of `e` at `(⟦X⟧p, ⟦Y⟧p, ⟦Z⟧p)`, which is the
    value of the plain remapped expression `e.remap(X,Y,Z)` at `p`.  `e`, `X`, `Y`, `Z` may
    themselves contain oracle nodes (coordinates that mention the oracle again, nested remaps). -/
theorem transformed_value {α : Type} [Add α] [Mul α] (F : FeatOps α) (K : Kern α)
    (Γ : Nat → OracleI α) (fe : Expr α → V3 α → List (Feat α)) (e X Y Z : Expr α) (p : V3 α) :
    (transformed F (wrap K Γ fe e) (evalOf K Γ fe X) (evalOf K Γ fe Y) (evalOf K Γ fe Z)).point p
        = den K Γ e ⟨den K Γ X p, den K Γ Y p, den K Γ Z p⟩ ∧
    den K Γ e ⟨den K Γ X p, den K Γ Y p, den K Γ Z p⟩ = den K Γ (remap X Y Z e) p :=
  ⟨rfl, (den_remap K Γ X Y Z e p).symm⟩

/-- replace every oracle leaf by the expression it wraps (the "equivalent plain expression") -/
def inline {α : Type} (ws : Nat → Expr α) : Expr α → Expr α
  | .x => .x
  | .y => .y
  | .z => .z
  | .const c => .const c
  | .un op a => .un op (inline ws a)
  | .bin op a b => .bin op (inline ws a) (inline ws b)
  | .oracle k => ws k
  | .toracle k X Y Z => remap (inline ws X) (inline ws Y) (inline ws Z) (ws k)

/-- **oracle_tree_value.** If every oracle `k` answers point queries like the expression `ws k`
    it wraps, a tree with oracle nodes (bare or under any remap chain) has the same value
    everywhere as the plain tree obtained by inlining the wrapped expressions. -/
theorem oracle_tree_value {α : Type} (K : Kern α) (Γ : Nat → OracleI α) (ws : Nat → Expr α)
    (hΓ : ∀ k p, (Γ k).point p = den K Γ (ws k) p) (e : Expr α) (p : V3 α) :
    den K Γ e p = den K Γ (inline ws e) p := by
  induction e generalizing p with
  | x => rfl
  | y => rfl
  | z => rfl
  | const c => rfl
  | un op a ih => simp only [den, inline, ih]
  | bin op a b iha ihb => simp only [den, inline, iha, ihb]
  | oracle k => exact hΓ k p
  | toracle k X Y Z ihX ihY ihZ =>
    simp only [den, inline, den_remap, hΓ, ihX, ihY, ihZ]

/-- **remap_chain.** Remapping a transformed oracle yields the transformed oracle with composed
    coordinate maps (`TransformedOracleClause::remap`), for whole trees and any nesting depth;
    semantically the chain is the composition of the point maps. -/
theorem remap_chain {α : Type} (K : Kern α) (Γ : Nat → OracleI α) (k : Nat)
    (X Y Z X' Y' Z' e : Expr α) (p : V3 α) :
    remap X' Y' Z' (.toracle k X Y Z) =
      .toracle k (remap X' Y' Z' X) (remap X' Y' Z' Y) (remap X' Y' Z' Z) ∧
    remap X' Y' Z' (remap X Y Z e) =
      remap (remap X' Y' Z' X) (remap X' Y' Z' Y) (remap X' Y' Z' Z) e ∧
    den K Γ (remap X' Y' Z' (remap X Y Z e)) p =
      den K Γ e ⟨den K Γ X ⟨den K Γ X' p, den K Γ Y' p, den K Γ Z' p⟩,
                 den K Γ Y ⟨den K Γ X' p, den K Γ Y' p, den K Γ Z' p⟩,
                 den K Γ Z ⟨den K Γ X' p, den K Γ Y' p, den K Γ Z' p⟩⟩ :=
  ⟨rfl, remap_remap X' Y' Z' X Y Z e, by simp only [den_remap]⟩

/-! ## intervals -/

/-- **transformed_interval_sound.** If the three coordinate evaluators and the underlying oracle
    enclose their point values on every box, so does the transformed oracle (composition of
    enclosures; `le` is an arbitrary relation, no order axioms are needed).
    This is the *strict* form (no NaN anywhere); the flagged form, which covers coordinate ranges
    that are flagged maybe-NaN, is `transformed_interval_sound_flagged` below (true of the code
    since fix dde738c; `transformed_interval_old_unsound` is the witness against the old code). -/
theorem transformed_interval_sound {α : Type} [Add α] [Mul α] (le : α → α → Prop) (F : FeatOps α)
    (u X Y Z : OracleI α) (hu : SoundOracle le u) (hX : SoundOracle le X) (hY : SoundOracle le Y)
    (hZ : SoundOracle le Z) : SoundOracle le (transformed F u X Y Z) := by
  intro lo hi p hp
  have hx := hX lo hi p hp
  have hy := hY lo hi p hp
  have hz := hZ lo hi p hp
  exact hu _ _ _ ⟨hx.1, hx.2, hy.1, hy.2, hz.1, hz.2⟩

/-- **oracle_tree_interval_sound.** With sound interval kernels (C02) and sound user oracles, the
    interval evaluation of any tree with oracle nodes under any remap chain encloses its value. -/
theorem oracle_tree_interval_sound {α : Type} (le : α → α → Prop) (K : Kern α) (Γ : Nat → OracleI α)
    (hrefl : ∀ a, le a a) (hK : SoundKern le K) (hΓ : ∀ k, SoundOracle le (Γ k)) (e : Expr α)
    (lo hi p : V3 α) (hp : inBox le lo hi p) : encloses le (ivl K Γ e lo hi) (den K Γ e p) :=
  ivl_sound le K Γ hrefl hK hΓ e lo hi p hp

/-- **transformed_interval_eq_plain.** When the coordinate ranges carry no NaN flag, the
    transformed oracle over a wrapped expression returns exactly the interval the plain remapped
    expression evaluates to (so any extra width seen on the real code comes from the optimiser
    working on the whole plain tree, not from the oracle). -/
theorem transformed_interval_eq_plain {α : Type} [Add α] [Mul α] (F : FeatOps α) (K : Kern α)
    (Γ : Nat → OracleI α) (fe : Expr α → V3 α → List (Feat α)) (e X Y Z : Expr α) (lo hi : V3 α)
    (hx : (ivl K Γ X lo hi).nan = false) (hy : (ivl K Γ Y lo hi).nan = false)
    (hz : (ivl K Γ Z lo hi).nan = false) :
    (transformed F (wrap K Γ fe e) (evalOf K Γ fe X) (evalOf K Γ fe Y) (evalOf K Γ fe Z)).interval lo hi
      = ivl K Γ (remap X Y Z e) lo hi := by
  rw [ivl_remap K Γ X Y Z e lo hi hx hy hz]
  have hx' : ((evalOf K Γ fe X).interval lo hi).nan = false := hx
  have hy' : ((evalOf K Γ fe Y).interval lo hi).nan = false := hy
  have hz' : ((evalOf K Γ fe Z).interval lo hi).nan = false := hz
  simp only [transformed, hx', hy', hz', Bool.or_false]
  rfl

/-- flagged enclosure, the property's own notion: a result that is not flagged maybe-NaN bounds a
    non-NaN value (`nanv` is the "is NaN" predicate of the scalar type) -/
def enclF {α : Type} (le : α → α → Prop) (nanv : α → Prop) (I : Ivl α) (v : α) : Prop :=
  I.nan = true ∨ (¬ nanv v ∧ le I.lo v ∧ le v I.hi)

/-- an oracle / evaluator whose interval answer encloses its point answer in the flagged sense on
    every box -/
def SoundOracleF {α : Type} (le : α → α → Prop) (nanv : α → Prop) (o : OracleI α) : Prop :=
  ∀ lo hi p, inBox le lo hi p → enclF le nanv (o.interval lo hi) (o.point p)

/-- **transformed_interval_sound_flagged** (the repaired `evalInterval`, fix dde738c).  If the
    three coordinate evaluators and the underlying oracle are sound in the flagged sense — their
    intervals may be flagged maybe-NaN, and then promise nothing — so is the transformed oracle:
    either a coordinate range is flagged and the result is flagged, or all three coordinates are
    non-NaN inside their ranges, the transformed point lies in the box handed to the underlying
    oracle, and its (possibly flagged) answer is passed on.  No order axioms are needed. -/
theorem transformed_interval_sound_flagged {α : Type} [Add α] [Mul α] (le : α → α → Prop)
    (nanv : α → Prop) (F : FeatOps α) (u X Y Z : OracleI α)
    (hu : SoundOracleF le nanv u) (hX : SoundOracleF le nanv X) (hY : SoundOracleF le nanv Y)
    (hZ : SoundOracleF le nanv Z) : SoundOracleF le nanv (transformed F u X Y Z) := by
  intro lo hi p hp
  rcases hX lo hi p hp with fx | ⟨_, hx1, hx2⟩
  · left; simp [transformed, fx]
  rcases hY lo hi p hp with fy | ⟨_, hy1, hy2⟩
  · left; simp [transformed, fy]
  rcases hZ lo hi p hp with fz | ⟨_, hz1, hz2⟩
  · left; simp [transformed, fz]
  rcases hu ⟨(X.interval lo hi).lo, (Y.interval lo hi).lo, (Z.interval lo hi).lo⟩
      ⟨(X.interval lo hi).hi, (Y.interval lo hi).hi, (Z.interval lo hi).hi⟩ (tpoint X Y Z p)
      ⟨hx1, hx2, hy1, hy2, hz1, hz2⟩ with fu | hu'
  · left; simp [transformed, fu]
  · right; exact hu'

/-- the PRE-FIX `evalInterval` (coordinate flags dropped) is not sound in the flagged sense -/
def transformedOldInterval {α : Type} (u X Y Z : OracleI α) (lo hi : V3 α) : Ivl α :=
  u.interval ⟨(X.interval lo hi).lo, (Y.interval lo hi).lo, (Z.interval lo hi).lo⟩
             ⟨(X.interval lo hi).hi, (Y.interval lo hi).hi, (Z.interval lo hi).hi⟩

/-- witness: scalars `Option Int` (`none` = NaN); the coordinate `X = "sqrt-like" x` (NaN for
    negative x, flagged on boxes reaching below 0) over the identity oracle.  On the box x ∈ [-1, 1]
    the old `evalInterval` answered the unflagged `[0, 1]` although the value at x = -1 is NaN; the
    repaired one flags it. -/
def leO : Option Int → Option Int → Prop
  | some a, some b => a ≤ b
  | _, _ => False
def wId : OracleI (Option Int) := ⟨fun p => p.x, fun lo hi => ⟨lo.x, hi.x, false⟩, fun p => p, fun _ => []⟩
def wSqrt : OracleI (Option Int) :=
  ⟨fun p => match p.x with | some v => if v < 0 then none else some v | none => none,
   fun lo hi => match lo.x with
     | some l => if l < 0 then ⟨some 0, hi.x, true⟩ else ⟨lo.x, hi.x, false⟩
     | none => ⟨none, none, true⟩,
   fun p => p, fun _ => []⟩
instance : Add (Option Int) := ⟨fun a b => match a, b with | some x, some y => some (x + y) | _, _ => none⟩
instance : Mul (Option Int) := ⟨fun a b => match a, b with | some x, some y => some (x * y) | _, _ => none⟩
def wLo : V3 (Option Int) := ⟨some (-1), some 0, some 0⟩
def wHi : V3 (Option Int) := ⟨some 1, some 0, some 0⟩

theorem transformed_interval_old_unsound :
    inBox leO wLo wHi wLo ∧
    ¬ enclF leO (· = none) (transformedOldInterval wId wSqrt wId wId wLo wHi)
        ((transformed ⟨fun _ _ => true, fun d _ _ => ⟨d, []⟩, ⟨none, none, none⟩⟩ wId wSqrt wId wId).point wLo) ∧
    ((transformed ⟨fun _ _ => true, fun d _ _ => ⟨d, []⟩, ⟨none, none, none⟩⟩ wId wSqrt wId wId).interval wLo wHi).nan = true := by
  refine ⟨by simp [inBox, leO, wLo, wHi], ?_, by simp [transformed, wSqrt, wId, wLo, wHi]⟩
  simp [enclF, transformedOldInterval, transformed, tpoint, wSqrt, wId, wLo, wHi]

/-! ## gradients and features -/

/-- **transformed_gradient.** Chain rule as an *algebraic identity over any commutative ring*:
    the gradient the transformed oracle returns — `J · ∇e` at the transformed point, with the
    gradients of `X, Y, Z` as the columns of `J` — equals the forward-mode gradient the plain
    evaluator computes for the remapped expression `e.remap(X,Y,Z)`.  (That forward mode computes
    the analytic derivative is C06's statement; it is not re-proved here.) -/
theorem transformed_gradient {α : Type} [CommRing α] (F : FeatOps α) (K : Kern α)
    (Γ : Nat → OracleI α) (fe : Expr α → V3 α → List (Feat α)) (h0 : K.zero = 0) (h1 : K.one = 1)
    (e X Y Z : Expr α) (p : V3 α) :
    (transformed F (wrap K Γ fe e) (evalOf K Γ fe X) (evalOf K Γ fe Y) (evalOf K Γ fe Z)).grad p
      = gradE K Γ (remap X Y Z e) p :=
  (gradE_remap K Γ h0 h1 X Y Z e p).symm

/-- **oracle_tree_gradient.** If every oracle answers value and gradient queries like the
    expression it wraps, the gradient of a tree with oracle nodes is the forward-mode gradient of
    the inlined plain tree. -/
theorem oracle_tree_gradient {α : Type} [CommRing α] (K : Kern α) (Γ : Nat → OracleI α)
    (ws : Nat → Expr α) (h0 : K.zero = 0) (h1 : K.one = 1)
    (hv : ∀ k p, (Γ k).point p = den K Γ (ws k) p)
    (hg : ∀ k p, (Γ k).grad p = gradE K Γ (ws k) p) (e : Expr α) (p : V3 α) :
    gradE K Γ e p = gradE K Γ (inline ws e) p := by
  induction e generalizing p with
  | x => rfl
  | y => rfl
  | z => rfl
  | const c => rfl
  | un op a ih => simp only [gradE, inline, ih, ← oracle_tree_value K Γ ws hv]
  | bin op a b iha ihb => simp only [gradE, inline, iha, ihb, ← oracle_tree_value K Γ ws hv]
  | oracle k => exact hg k p
  | toracle k X Y Z ihX ihY ihZ =>
    simp only [gradE, inline, gradE_remap K Γ h0 h1, hg, ← ihX, ← ihY, ← ihZ,
      ← oracle_tree_value K Γ ws hv]

/-- **transformed_features.** Every feature the transformed oracle reports has as gradient the
    Jacobian image `J·d` of one underlying feature gradient `d`, where the columns of `J` are one
    feature gradient of each coordinate evaluator — for *any* epsilon-compatibility test. -/
theorem transformed_features {α : Type} [Add α] [Mul α] (F : FeatOps α)
    (hmerge : ∀ d a b, (F.merge d a b).deriv = d) (u X Y Z : OracleI α) (p : V3 α) (f : Feat α)
    (hf : f ∈ (transformed F u X Y Z).feats p) :
    ∃ f1 ∈ X.feats p, ∃ f2 ∈ Y.feats p, ∃ f3 ∈ Z.feats p, ∃ f4 ∈ u.feats (tpoint X Y Z p),
      f.deriv = jmul f1.deriv f2.deriv f3.deriv f4.deriv :=
  transformedFeats_deriv F hmerge _ _ _ _ f hf

/-! ## the context protocol -/

/-- **context_balanced.** Start from a freshly built deck and perform any sequence of evaluations
    (`values / derivs / eval / features`, on any tape, touching any oracle clauses) and tape pushes
    (any tape, any set of active oracle clauses, any tape type, any answers of the user oracles):
    afterwards every oracle — including those owned by transformed oracles — is unbound, and every
    tape made so far holds exactly one context per oracle of the deck. -/
theorem context_balanced (orcs : List Orc) (hinit : ∀ o ∈ orcs, o.lowerUnbound = true)
    (calls : List Call) : ((DeckM.init orcs).run calls).balanced = true := by
  have key : ∀ (cs : List Call) (d : DeckM), d.balanced = true → (d.run cs).balanced = true := by
    intro cs
    induction cs with
    | nil => intro d h; exact h
    | cons c cs ih =>
      intro d h
      simp only [DeckM.run, List.foldl_cons]
      apply ih
      cases c with
      | eval t ks iv => exact DeckM.eval_balanced d t ks iv h
      | push t ks iv ans store => exact DeckM.push_balanced d t ks iv ans store h
  exact key calls _ (DeckM.init_balanced orcs hinit)

/-- what `balanced` says, spelled out -/
theorem balanced_spec (d : DeckM) (h : d.balanced = true) :
    (∀ o ∈ d.orcs, o.allUnbound = true) ∧ ∀ cs ∈ d.tapes, cs.length = d.orcs.length :=
  (DeckM.balanced_iff d).mp h

/-- **context_forwarding.** During a point-type query the user oracle below a transformed oracle
    is bound to exactly `ctx->u` of the context the transformed oracle is bound to (and to the
    tape's own context when it sits in the deck directly); during `evalInterval` it stays as it was. -/
theorem context_forwarding (b c : Ctx) :
    ((Orc.user b).bind c).query.2 = c ∧
    ((Orc.trans b (Orc.user .null)).bind c).query.2 = c.under ∧
    ((Orc.trans b (Orc.user .null)).bind c).queryInterval.2 = .null :=
  ⟨rfl, rfl, rfl⟩

/-! ## specialisation -/

/-- **push_preserves_oracle_value.** Specialising a tape that contains ORACLE clauses (kept with
    KEEP_BOTH / KEEP_ALWAYS, as `KeepSound` demands) and re-binding every oracle to the context the
    new tape stores does not change the value at the root, at any environment `v` where the keep
    function is sound and where each oracle answers the same under its new context as under its
    old one (for a transformed oracle that hypothesis is `transformed_push_value`). -/
theorem push_preserves_oracle_value {α : Type} (ev : Op → α → α → α) (val : Nat → Ctx → α)
    (T : TapeM) (keep : Clause → Keep) (v : Nat → α) (ctxs ctxs' : List Ctx) (hwf : WF T.t)
    (hk : KeepSound (evalList ev (orcWith val ctxs) T.t v) keep T.t)
    (hctx : ∀ k, val k (ctxs'.getD k .null) = val k (ctxs.getD k .null)) :
    evalList ev (orcWith val ctxs') (T.push keep).t v (T.push keep).root =
      evalList ev (orcWith val ctxs) T.t v T.root := by
  have : orcWith val ctxs' = orcWith val ctxs := funext hctx
  rw [this]
  exact C05.push_sound ev (orcWith val ctxs) T keep v hwf hk

/-- value of a transformed oracle bound to a context: the three coordinate tapes of the context
    are evaluated, the underlying oracle answers under the context's `u` -/
def tvalCtx {α κ : Type} (ev : Op → α → α → α) (orc : Nat → α) (u : κ → V3 α → α)
    (envX envY envZ : V3 α → Nat → α) (tx ty tz : TapeM) (cu : κ) (p : V3 α) : α :=
  u cu ⟨evalList ev orc tx.t (envX p) tx.root, evalList ev orc ty.t (envY p) ty.root,
        evalList ev orc tz.t (envZ p) tz.root⟩

/-- **transformed_push_value.** `TransformedOracle::push` specialises its three coordinate tapes
    and pushes the underlying oracle; if each of the three keep functions is sound at `p` and the
    underlying oracle answers the same under its new context at the transformed point, the
    transformed oracle answers the same under the new context as under the old one. -/
theorem transformed_push_value {α κ : Type} (ev : Op → α → α → α) (orc : Nat → α)
    (u : κ → V3 α → α) (envX envY envZ : V3 α → Nat → α) (tx ty tz : TapeM)
    (kx ky kz : Clause → Keep) (cu cu' : κ) (p : V3 α)
    (wx : WF tx.t) (wy : WF ty.t) (wz : WF tz.t)
    (hx : KeepSound (evalList ev orc tx.t (envX p)) kx tx.t)
    (hy : KeepSound (evalList ev orc ty.t (envY p)) ky ty.t)
    (hz : KeepSound (evalList ev orc tz.t (envZ p)) kz tz.t)
    (hu : ∀ q, u cu' q = u cu q) :
    tvalCtx ev orc u envX envY envZ (tx.push kx) (ty.push ky) (tz.push kz) cu' p =
      tvalCtx ev orc u envX envY envZ tx ty tz cu p := by
  unfold tvalCtx
  rw [C05.push_sound ev orc tx kx (envX p) wx hx, C05.push_sound ev orc ty ky (envY p) wy hy,
    C05.push_sound ev orc tz kz (envZ p) wz hz, hu]

/-! ## the hypotheses are satisfiable -/

section examples

def exK : Kern Int where
  ev := fun op a b => match op with
    | .add => a + b | .mul => a * b | .sub => a - b | .square => a * a | .neg => -a
    | .min => if b < a then b else a | .max => if a < b then b else a | _ => a
  iev := fun op A B => match op with
    | .add => ⟨A.lo + B.lo, A.hi + B.hi, A.nan || B.nan⟩
    | _ => ⟨A.lo, A.hi, A.nan⟩
  dev := fun op a b => match op with
    | .add => (1, 1) | .sub => (1, -1) | .mul => (b, a) | .square => (2 * a, 0) | .neg => (-1, 0)
    | _ => (1, 0)
  zero := 0
  one := 1

instance : Inhabited (OracleI Int) := ⟨⟨fun _ => 0, fun _ _ => ⟨0, 0, false⟩, fun _ => ⟨0, 0, 0⟩, fun _ => []⟩⟩
def exF : FeatOps Int := { check := fun _ _ => true, merge := fun d a b => ⟨d, a.eps ++ b.eps⟩, zero := ⟨0, 0, 0⟩ }
def exFe : Expr Int → V3 Int → List (Feat Int) := fun _ _ => [⟨⟨1, 0, 0⟩, []⟩]
/-- `e = x*x + y`, wrapped as oracle 0 -/
def exE : Expr Int := .bin .add (.un .square .x) .y
def exΓ : Nat → OracleI Int := fun _ => wrap exK (fun _ => default) exFe exE
def exX : Expr Int := .bin .mul .x (.const 2)
def exY : Expr Int := .bin .add .y (.oracle 0)     -- a coordinate that mentions the oracle again
def exP : V3 Int := ⟨3, 1, 5⟩

-- the oracle tree `oracle0.remap(2x, y + oracle0, z)` at (3,1,5): e(6, 1 + e(3,1,5), 5) = 36 + 11 = 47
example : den exK exΓ (remap exX exY .z (.oracle 0)) exP = 47 := by decide
example : den exK exΓ (inline (fun _ => exE) (remap exX exY .z (.oracle 0))) exP = 47 := by decide
example : ∀ k p, (exΓ k).point p = den exK exΓ ((fun _ => exE) k) p := fun _ _ => rfl
-- gradient: both sides are (24 + 6, 1 + 1, 0) ... computed by the model
example : gradE exK exΓ (remap exX exY .z (.oracle 0)) exP =
    gradE exK exΓ (inline (fun _ => exE) (remap exX exY .z (.oracle 0))) exP := by decide
example : exK.zero = 0 ∧ exK.one = 1 := ⟨rfl, rfl⟩
-- a sound oracle / evaluator for `transformed_interval_sound`: the identity on x
def exId : OracleI Int := ⟨fun p => p.x, fun lo hi => ⟨lo.x, hi.x, false⟩, fun _ => ⟨1, 0, 0⟩, fun _ => []⟩
example : SoundOracle (· ≤ ·) exId := fun _ _ _ hp => ⟨hp.1, hp.2.1⟩
example : (ivl exK exΓ exX ⟨0, 0, 0⟩ ⟨1, 1, 1⟩).nan = false := by decide
example : ∀ d a b, (exF.merge d a b).deriv = d := fun _ _ _ => rfl
example : (transformed exF exId exId exId exId).feats exP = [] := by decide

-- context protocol: a deck with a direct oracle and a transformed one; an interval push, an
-- evaluation on the pushed tape, a point push
def exOrcs : List Orc := [.user .null, .trans .null (.user .null)]
def exCalls : List Call :=
  [.eval 0 [1, 0] true, .push 0 [0, 1] true (fun k _ => .user (10 + k)) true,
   .eval 1 [1, 0] false, .push 1 [0] false (fun _ _ => .null) true]
example : ∀ o ∈ exOrcs, o.lowerUnbound = true := by decide
example : ((DeckM.init exOrcs).run exCalls).tapes =
    [[.null, .null], [.user 10, .trans (.user 11)], [.null, .trans (.user 11)]] := by decide
-- on the pushed tape the user oracle under the transformed oracle is bound to ctx->u = user 11
example : (((DeckM.init exOrcs).run (exCalls.take 2)).eval 1 [1, 0] false).2 =
    [(1, .user 11), (0, .user 10)] := by decide

-- specialisation: `max(oracle0, x)` with slot x = 4, specialised at a point where x wins
def exTape : TapeM := { t := [⟨Op.max, 1, 2, 4⟩, ⟨Op.oracle, 2, 0, 0⟩], root := 1 }
def exEv : Op → Int → Int → Int
  | Op.min, a, b => if b < a then b else a
  | Op.max, a, b => if a < b then b else a
  | _, a, _ => a
def exVal : Nat → Ctx → Int := fun _ _ => 3
def exV : Nat → Int := fun s => if s = 4 then 7 else 0
example : WF exTape.t := wfb_sound _ (by decide)
example : KeepSound (evalList exEv (orcWith exVal [.null]) exTape.t exV)
    (pointKeep (fun a b => decide (a < b)) (evalList exEv (orcWith exVal [.null]) exTape.t exV)) exTape.t :=
  C05.pointKeep_sound exEv _ _ exTape.t exV (wfb_sound _ (by decide))
    (fun a b => ⟨fun h => by simp only [exEv]; simp at h; simp [h],
                 fun h => by simp only [exEv]; simp at h; simp [Int.lt_asymm h]⟩)
    (fun a b => ⟨fun h => by simp only [exEv]; simp at h; simp [Int.lt_asymm h],
                 fun h => by simp only [exEv]; simp at h; simp [h]⟩)
example : (exTape.push (pointKeep (fun a b => decide (a < b))
    (evalList exEv (orcWith exVal [.null]) exTape.t exV))).t = [] := by decide

end examples

end Libfive.C16
