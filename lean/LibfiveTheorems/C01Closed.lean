/-
  C01 (closed form) — `deck_eval_correct` without hypotheses about the node list.
  `C01.deck_eval_correct` assumes of `flat` that it meets `walk()`'s specification (`TopoFlat`), that
  its operator nodes carry opcodes of the right arity (`nodeArity`) and that it contains the root.
  Here these are PROVED for `flat := postorder (optimize (flatten t))` from hypotheses on the input
  tree `t` alone:
    * `wellArity t`          every operator node carries an opcode of that arity;
    * `noInvalid t`          no `Tree::invalid()` sub-term;
    * `oracleUnremapped t`   no oracle inside the body of a remap (flatten turns such an oracle into
                             a transformed oracle, which the model writes as a `remap` node around the
                             oracle and `Deck` does not handle).
  Each of the three is needed for the shape statements `flatten_plain` / `optimize_plain`
  (kernel-checked witnesses below).  For the end-to-end equation `deck_eval_correct_closed`,
  `noInvalid` is NOT needed (the deck model treats `invalid` as a leaf whose slot holds `I.bad`, which
  is what `invalid` denotes; `TopoFlat` merely excludes it), while `wellArity` and `oracleUnremapped`
  are: the equation fails on the witnesses (`deck_eval_bad_arity`,
  `deck_eval_closed_fails_on_remapped_oracle`).
  Property theorems only; helper lemmas live in LibfiveProofs/OptimizeShape.lean.
-/
import LibfiveTheorems.C01
import LibfiveTheorems.C07
import LibfiveProofs.OptimizeShape

namespace Libfive.C01
open Libfive Expr Libfive.Deck Libfive.Optimize Libfive.Shape

variable {C α : Type} [DecidableEq C]

/-! ### (1) flatten -/

/-- **flatten_plain.**  For a `wellArity` tree without `invalid` sub-terms whose oracles do not sit
    in the body of a remap, `Tree::flatten` leaves no remap / apply / invalid node anywhere. -/
theorem flatten_plain (K : ConstOps C) (t : Expr C) (hw : wellArity t) (hn : noInvalid t)
    (ho : oracleUnremapped t) : plainDeep (flatten K t) :=
  plainDeep_flatten K t hw hn ho

/-- `noInvalid` cannot be dropped: flatten returns the invalid tree unchanged. -/
theorem flatten_plain_needs_noInvalid (K : ConstOps C) :
    wellArity (invalid : Expr C) ∧ oracleUnremapped (invalid : Expr C) ∧
      ¬ plainDeep (flatten K (invalid : Expr C)) := by
  refine ⟨trivial, trivial, ?_⟩
  simp [flatten, hasRemap, plainDeep]

/-- `oracleUnremapped` cannot be dropped: `remap (oracle 0) y x z` is `wellArity` and free of
    `invalid`, and flatten keeps the `remap` node (the transformed oracle). -/
theorem flatten_plain_needs_oracleUnremapped (K : ConstOps C) :
    wellArity (wOrc : Expr C) ∧ noInvalid (wOrc : Expr C) ∧ ¬ plainDeep (flatten K (wOrc : Expr C)) := by
  refine ⟨⟨trivial, trivial, trivial, trivial⟩, ⟨trivial, trivial, trivial, trivial⟩, ?_⟩
  rw [flatten_wOrc]; simp [wOrc, plainDeep]

/-- `wellArity` cannot be dropped: a unary node with a binary opcode whose operand changes under the
    remap is rebuilt by `Tree::unary` as the invalid tree. -/
theorem flatten_plain_needs_wellArity (K : ConstOps C) :
    noInvalid (remap (un Op.add x) y y y : Expr C) ∧
      oracleUnremapped (remap (un Op.add x) y y y : Expr C) ∧
      ¬ plainDeep (flatten K (remap (un Op.add x) y y y : Expr C)) := by
  refine ⟨⟨trivial, trivial, trivial, trivial⟩, ⟨rfl, trivial, trivial, trivial⟩, ?_⟩
  rw [flatten_badArity]; simp [plainDeep]

/-! ### (2), (3) the optimiser -/

/-- **optimize_wellArity.**  The optimiser keeps `wellArity` (every tree, every fuel — it returns the
    node itself when fuel runs out —, every sorting order). -/
theorem optimize_wellArity (K : ConstOps C) (le : Expr C → Expr C → Bool) (t : Expr C)
    (hw : wellArity t) : wellArity (optimize K le t) :=
  wellArity_optimize K le t hw

/-- **optimize_plain.**  On `wellArity` trees the optimiser introduces no remap / apply / invalid
    node (in particular `UpCommutative` is never run on an empty list). -/
theorem optimize_plain (K : ConstOps C) (le : Expr C → Expr C → Bool) (t : Expr C)
    (hw : wellArity t) (hp : plainDeep t) : plainDeep (optimize K le t) :=
  plainDeep_optimize K le t hw hp

/-- **optimize_plain is FALSE without `wellArity`.**  `add(max(x, x))` (a unary node carrying a
    binary opcode) has no remap / apply / invalid node, yet the optimiser returns the invalid tree:
    the operand is rewritten to `x`, the node is rebuilt through `Tree::unary`, which rejects the
    opcode.  Holds for every `K` and every sorting order. -/
theorem optimize_plain_needs_wellArity (K : ConstOps C) (le : Expr C → Expr C → Bool) :
    ¬ ∀ t : Expr C, plainDeep t → plainDeep (optimize K le t) := by
  intro h
  have := h (un Op.add (bin Op.max x x)) ⟨trivial, trivial⟩
  rw [optimize_badArity] at this
  exact this

/-! ### (4) node arity of the traversal -/

/-- **nodeArity_of_wellArity.**  Every node of the post-order list of a `wellArity` tree carries an
    opcode of the right arity (the nodes are sub-terms). -/
theorem nodeArity_of_wellArity (e : Expr C) (hw : wellArity e) : ∀ m ∈ postorder e, nodeArity m :=
  postorder_nodeArity e hw

/-! ### (5) the closed chain -/

/-- **walk_spec_closed.**  All hypotheses `deck_eval_correct` makes about `flat` hold for the
    post-order list of `Tree::optimized()`. -/
theorem walk_spec_closed (K : ConstOps C) (le : Expr C → Expr C → Bool) (t : Expr C)
    (hw : wellArity t) (hn : noInvalid t) (ho : oracleUnremapped t) :
    let o := optimize K le (flatten K t)
    TopoFlat (postorder o) ∧ (∀ m ∈ postorder o, nodeArity m) ∧ o ∈ postorder o := by
  intro o
  have hwo : wellArity o := optimize_wellArity K le _ (wellArity_flatten K t hw)
  have hpo : plainDeep o :=
    optimize_plain K le _ (wellArity_flatten K t hw) (flatten_plain K t hw hn ho)
  have hs := postorder_spec o hpo
  exact ⟨hs.1, nodeArity_of_wellArity o hwo, hs.2⟩

/-- **deck_eval_correct_closed (expression → optimised expression → tape → value).**  For every
    tree `t` that is `wellArity` and has no oracle in the body of a remap (any sharing, nested
    remap / apply), with `o = optimize (flatten t)` what `Tree::optimized()` returns and
    `flat = postorder o`: the root slot of the evaluated deck holds the mathematical value of `t`,
    over any field with a lawful interpretation of the opcodes, at every point, for every sorting
    order.  No hypothesis about `flat` is left, and `invalid` sub-terms are allowed (an `invalid` node
    gets a slot holding `I.bad` and no clause). -/
theorem deck_eval_correct_closed [Field α] {K : ConstOps C} {I : Interp C α} (L : LawfulOpt K I)
    (le : Expr C → Expr C → Bool) (t : Expr C) (hw : wellArity t) (ho : oracleUnremapped t)
    (e : Env α) :
    let o := optimize K le (flatten K t)
    let flat := postorder o
    evalList (evTape I) (orcTable I e flat) (build flat o).t (slots0 I e flat) (build flat o).root
      = denote I t e := by
  intro o flat
  have hwf := wellArity_flatten K t hw
  have hwo : wellArity o := optimize_wellArity K le _ hwf
  have hpo : noRemapDeep o := noRemapDeep_optimize K le _ hwf (noRemapDeep_flatten K t ho)
  obtain ⟨hT, hroot⟩ := postorder_specI o hpo
  have h1 := build_evalI I e flat o hT (nodeArity_of_wellArity o hwo) o hroot
  have h2 : denote I o e = denote I t e := by
    show denote I (optimize K le (flatten K t)) e = denote I t e
    rw [Libfive.Optimize.optimize_sound L le _ e hwf, Libfive.flatten_sound L.toLawful t e hw]
  rw [← h2]; exact h1

/-- **deck_eval_correct_closed_plain.**  The same equation obtained literally from
    `C01.deck_eval_correct`, all of whose hypotheses about `flat` are discharged by
    `walk_spec_closed` (this route needs `noInvalid`, because `TopoFlat` excludes `invalid` nodes). -/
theorem deck_eval_correct_closed_plain [Field α] {K : ConstOps C} {I : Interp C α}
    (L : LawfulOpt K I) (le : Expr C → Expr C → Bool) (t : Expr C) (hw : wellArity t)
    (hn : noInvalid t) (ho : oracleUnremapped t) (e : Env α) :
    let o := optimize K le (flatten K t)
    let flat := postorder o
    evalList (evTape I) (orcTable I e flat) (build flat o).t (slots0 I e flat) (build flat o).root
      = denote I t e := by
  intro o flat
  obtain ⟨hT, hA, hroot⟩ := walk_spec_closed K le t hw hn ho
  exact deck_eval_correct L le t hw e flat hT hA hroot

/-- **deck_wf_closed.**  Under the hypotheses of `walk_spec_closed` the emitted base tape is well-formed (the
    hypothesis of every `Tape::push` theorem of C05). -/
theorem deck_wf_closed (K : ConstOps C) (le : Expr C → Expr C → Bool) (t : Expr C)
    (hw : wellArity t) (hn : noInvalid t) (ho : oracleUnremapped t) :
    let o := optimize K le (flatten K t)
    WF (build (postorder o) o).t := by
  intro o
  exact deck_wf _ o (walk_spec_closed K le t hw hn ho).1

/-! ### `oracleUnremapped` and `wellArity` are needed for the equation itself -/

/-- On `remap (oracle 0) y x z` (which is `wellArity` and free of `invalid`) the model's deck is
    empty and its root slot holds `I.bad`, while the tree denotes the oracle at `(y, x, z)` — for
    every interpretation, point, `K` and order. -/
theorem deck_eval_remapped_oracle (I : Interp C α) (e : Env α) (K : ConstOps C)
    (le : Expr C → Expr C → Bool) :
    let o := optimize K le (flatten K (wOrc : Expr C))
    let flat := postorder o
    evalList (evTape I) (orcTable I e flat) (build flat o).t (slots0 I e flat) (build flat o).root
      = I.bad ∧ denote I (wOrc : Expr C) e = I.orc 0 e.y e.x e.z :=
  deck_wOrc I e K le

/-- `wellArity` is needed for the equation: on `remap (add x) y y y` (a unary node with a binary
    opcode; no `invalid`, no oracle) the optimised tree is `invalid`, the deck's root slot holds
    `I.bad`, and the tree denotes the uninterpreted `I.un Op.add` at `y`. -/
theorem deck_eval_bad_arity (I : Interp C α) (e : Env α) (K : ConstOps C)
    (le : Expr C → Expr C → Bool) :
    let t : Expr C := remap (un Op.add x) y y y
    let o := optimize K le (flatten K t)
    let flat := postorder o
    evalList (evTape I) (orcTable I e flat) (build flat o).t (slots0 I e flat) (build flat o).root
      = I.bad ∧ denote I t e = I.un Op.add e.y :=
  deck_badArity I e K le

/-- exact rational arithmetic (C07's `Iq`) with an oracle that returns its first coordinate -/
def IqO : Interp ℚ ℚ := { C07.Iq with orc := fun _ a _ _ => a }

theorem IqO_lawful : LawfulOpt C07.Kq IqO where
  add := C07.Iq_lawful.add
  sub := C07.Iq_lawful.sub
  mul := C07.Iq_lawful.mul
  div := C07.Iq_lawful.div
  neg := C07.Iq_lawful.neg
  square := C07.Iq_lawful.square
  min_self := C07.Iq_lawful.min_self
  max_self := C07.Iq_lawful.max_self
  abs_abs := C07.Iq_lawful.abs_abs
  abs_square := C07.Iq_lawful.abs_square
  pow_one := C07.Iq_lawful.pow_one
  nthRoot_one := C07.Iq_lawful.nthRoot_one
  isZero := C07.Iq_lawful.isZero
  isOne := C07.Iq_lawful.isOne
  isNegOne := C07.Iq_lawful.isNegOne
  foldUn := C07.Iq_lawful.foldUn
  foldBin := C07.Iq_lawful.foldBin
  zero_val := C07.Iq_lawful.zero_val
  one_val := C07.Iq_lawful.one_val
  eqC_sound := C07.Iq_lawful.eqC_sound
  fma_val := C07.Iq_lawful.fma_val
  min_ac := C07.Iq_lawful.min_ac
  max_ac := C07.Iq_lawful.max_ac

/-- **The closed statement is FALSE without `oracleUnremapped`**: with a lawful interpretation over
    ℚ whose oracle returns its first coordinate, at the point `(0, 1, 0)` the deck of
    `remap (oracle 0) y x z` yields `0` and the tree denotes `1`. -/
theorem deck_eval_closed_fails_on_remapped_oracle (le : Expr ℚ → Expr ℚ → Bool) :
    ¬ ∀ (t : Expr ℚ), wellArity t → noInvalid t → ∀ e : Env ℚ,
      let o := optimize C07.Kq le (flatten C07.Kq t)
      let flat := postorder o
      evalList (evTape IqO) (orcTable IqO e flat) (build flat o).t (slots0 IqO e flat)
        (build flat o).root = denote IqO t e := by
  intro h
  have h1 := h wOrc ⟨trivial, trivial, trivial, trivial⟩ ⟨trivial, trivial, trivial, trivial⟩
    ⟨0, 1, 0, fun _ => 0⟩
  obtain ⟨h2, h3⟩ := deck_eval_remapped_oracle IqO ⟨0, 1, 0, fun _ => 0⟩ C07.Kq le
  simp only [] at h1 h2
  rw [h2, h3] at h1
  simp [IqO, C07.Iq] at h1

/-! ### the hypotheses are satisfiable -/

section examples

/-- `max(min(x,y) + 7, min(x,y))` (shared sub-term) under the coordinate map
    `(x, y, z) ↦ (x + 1, −y, z)`, the whole thing with the free variable 0 bound to `x·x` (shared) -/
def exT : Expr ℚ :=
  apply
    (bin Op.sub
      (remap (bin Op.max (bin Op.add (bin Op.min x y) (const 7)) (bin Op.min x y))
        (bin Op.add x (const 1)) (un Op.neg y) z)
      (bin Op.mul (var 0) (var 0)))
    0 (bin Op.mul x x)

theorem exT_ok : wellArity exT ∧ noInvalid exT ∧ oracleUnremapped exT := by
  simp [exT, wellArity, noInvalid, oracleUnremapped, hasOracle, Op.args]

/-- `deck_eval_correct_closed` on `exT`, exact rational arithmetic, every point, every sorting order:
    the deck built from the post-order list of `Tree::optimized()` evaluates to the value of the
    original expression. -/
example (le : Expr ℚ → Expr ℚ → Bool) (e : Env ℚ) :
    let o := optimize C07.Kq le (flatten C07.Kq exT)
    let flat := postorder o
    evalList (evTape C07.Iq) (orcTable C07.Iq e flat) (build flat o).t (slots0 C07.Iq e flat)
      (build flat o).root
      = max (min (e.x + 1) (-e.y) + 7) (min (e.x + 1) (-e.y)) - (e.x * e.x) * (e.x * e.x) := by
  intro o flat
  have h := deck_eval_correct_closed C07.Iq_lawful le exT exT_ok.1 exT_ok.2.2 e
  simp only [] at h
  rw [h]
  simp [exT, denote, C07.Iq, C07.Kq]

/-- oracles are admitted outside remap bodies — here at top level and as a coordinate argument of a
    remap (any constants, any lawful interpretation) -/
example [Field α] {K : ConstOps C} {I : Interp C α} (L : LawfulOpt K I)
    (le : Expr C → Expr C → Bool) (e : Env α) :
    let t : Expr C := bin Op.add (oracle 3) (remap (bin Op.mul x y) (oracle 3) (un Op.sin y) z)
    let o := optimize K le (flatten K t)
    let flat := postorder o
    evalList (evTape I) (orcTable I e flat) (build flat o).t (slots0 I e flat) (build flat o).root
      = I.orc 3 e.x e.y e.z + I.orc 3 e.x e.y e.z * I.un Op.sin e.y := by
  intro t o flat
  have h := deck_eval_correct_closed L le t (by simp [t, wellArity, Op.args])
    (by simp [t, oracleUnremapped, hasOracle]) e
  simp only [] at h
  rw [h]
  simp [t, denote, L.add, L.mul]

/-- `invalid` sub-terms are covered by `deck_eval_correct_closed` (not by the `_plain` form): the
    node gets a slot holding `I.bad` -/
example [Field α] {K : ConstOps C} {I : Interp C α} (L : LawfulOpt K I)
    (le : Expr C → Expr C → Bool) (e : Env α) :
    let t : Expr C := remap (bin Op.add x invalid) (un Op.cos y) y z
    let o := optimize K le (flatten K t)
    let flat := postorder o
    evalList (evTape I) (orcTable I e flat) (build flat o).t (slots0 I e flat) (build flat o).root
      = I.un Op.cos e.y + I.bad := by
  intro t o flat
  have h := deck_eval_correct_closed L le t (by simp [t, wellArity, Op.args])
    (by simp [t, oracleUnremapped, hasOracle]) e
  simp only [] at h
  rw [h]
  simp [t, denote, L.add]

end examples

end Libfive.C01
