/-
  C02 — Interval evaluation soundly encloses every point value in the box.
  Property theorems only; models in LibfiveModel/Interval.lean, helper lemmas in
  LibfiveProofs/Interval*.lean.

  Reading guide.  `enclS I v` is the inductive invariant (NaN only when flagged, non-NaN values inside
  the bounds); `encl I v := I.mn ∨ (v ≠ nan ∧ I.lo ≤ v ≤ I.hi)` is the property's statement and follows
  from it.  `BoostSound / Atan2Sound / ModSound` are the assumed contracts of the Boost / libm
  primitives.  The model mirrors the FIXED interval.hpp (fix commits f3afb29 a650b90 34669ce 6b977f5
  d4c68d5 9cea0ae 0078f64 73663d7 0be5df1).  `SafeArgs op A B` is now `True` for every opcode except `pow` and
  `nth_root` (integer constant exponent; two Boost corner cases, see `SafeArgs`).  The `*_unsound_old`
  theorems at the end are about the PRE-FIX formulas (`…Old` definitions) and document why each fix
  was needed.
-/
import LibfiveProofs.Interval3
import LibfiveProofs.IntervalExact
import Mathlib.Algebra.Order.Field.Rat
import Mathlib.Data.Rat.Floor

set_option linter.unusedSectionVars false
set_option linter.unusedVariables false

namespace Libfive.C02

open Libfive Libfive.Ivl FVal

variable {K : Type} [Field K] [LinearOrder K] [IsStrictOrderedRing K] [FloorRing K]
variable {Bo : BoostOps K} {P : PointFns K}

/-- **op_enclosure** (flag completeness, every opcode).  For operand values enclosed by the operand
    intervals, every result the point kernel may produce (`PointRel`: both signs of zero, first operand
    on NaN for min/max) is enclosed by libfive's interval result — under the opcode's side condition. -/
theorem op_enclosure (hS : BoostSound Bo P) (hA2 : Atan2Sound Bo P) (hM : ModSound Bo P)
    (op : Op) {A B : IVal K} {a b r : FVal K}
    (hsafe : SafeArgs Bo P op A B) (ha : enclS A a) (hb : enclS B b) (hr : PointRel P op a b r) :
    enclS (iop Bo op A B) r :=
  op_enclS_all hS hA2 hM op hsafe ha hb hr

/-- the same in the property's own terms: not flagged ⇒ non-NaN and inside the bounds -/
theorem op_enclosure_weak (hS : BoostSound Bo P) (hA2 : Atan2Sound Bo P) (hM : ModSound Bo P)
    (op : Op) {A B : IVal K} {a b r : FVal K}
    (hsafe : SafeArgs Bo P op A B) (ha : enclS A a) (hb : enclS B b) (hr : PointRel P op a b r) :
    encl (iop Bo op A B) r :=
  (op_enclosure hS hA2 hM op hsafe ha hb hr).encl

/-- opcodes whose lemma needs no side condition: all but `pow` / `nth_root` -/
def soundOp : Op → Bool
  | .pow | .nthRoot => false
  | _ => true

theorem safeArgs_of_soundOp {op : Op} (h : soundOp op = true) (A B : IVal K) :
    SafeArgs Bo P op A B := by
  cases op <;> simp_all [soundOp, SafeArgs]

/-- **tape_enclosure_partial.**  For every clause list (tape), every assignment of intervals and point
    values to the leaf slots with the point values enclosed (a box and a point of it, constants,
    variables), every resolution `pev` of the point kernel's choices and every oracle pair: if every
    `pow` / `nth_root` clause meets its side condition on the interval slots (`SafeTape`; `True` for every
    other opcode), then at every slot — in particular the root — the interval evaluation encloses the
    point evaluation. -/
theorem tape_enclosure_partial (hS : BoostSound Bo P) (hA2 : Atan2Sound Bo P) (hM : ModSound Bo P)
    (pev : Op → FVal K → FVal K → FVal K) (hpev : ∀ op a b, PointRel P op a b (pev op a b))
    (iorc : Nat → IVal K) (porc : Nat → FVal K) (horc : ∀ k, enclS (iorc k) (porc k))
    (T : TapeM) (I0 : Nat → IVal K) (v0 : Nat → FVal K)
    (hleaf : ∀ s, enclS (I0 s) (v0 s)) (hsafe : SafeTape Bo P iorc T.t I0) :
    encl (ievalList Bo iorc T.t I0 T.root) (evalList pev porc T.t v0 T.root) :=
  (tape_enclS hS hA2 hM pev hpev iorc porc horc T.t I0 v0 hleaf hsafe T.root).encl

theorem safeTape_of_soundOps (iorc : Nat → IVal K) (I0 : Nat → IVal K) :
    ∀ t : List Clause, (∀ c ∈ t, c.op = Op.oracle ∨ soundOp c.op = true) → SafeTape Bo P iorc t I0
  | [], _ => trivial
  | c :: rest, h => by
    refine ⟨safeTape_of_soundOps iorc I0 rest (fun d hd => h d (List.mem_cons_of_mem _ hd)), ?_⟩
    intro ho
    rcases h c (List.mem_cons_self ..) with h1 | h1
    · exact absurd h1 ho
    · exact safeArgs_of_soundOp h1 _ _

/-- **tape_enclosure**: unconditional for every tape without `pow` / `nth_root` clauses, i.e. over
    `+ − * / min max atan2 mod nanfill compare square sqrt neg sin cos tan asin acos atan exp log abs
    recip const-var` and oracles. -/
theorem tape_enclosure (hS : BoostSound Bo P) (hA2 : Atan2Sound Bo P) (hM : ModSound Bo P)
    (pev : Op → FVal K → FVal K → FVal K) (hpev : ∀ op a b, PointRel P op a b (pev op a b))
    (iorc : Nat → IVal K) (porc : Nat → FVal K) (horc : ∀ k, enclS (iorc k) (porc k))
    (T : TapeM) (I0 : Nat → IVal K) (v0 : Nat → FVal K)
    (hleaf : ∀ s, enclS (I0 s) (v0 s))
    (hops : ∀ c ∈ T.t, c.op = Op.oracle ∨ soundOp c.op = true) :
    encl (ievalList Bo iorc T.t I0 T.root) (evalList pev porc T.t v0 T.root) :=
  tape_enclosure_partial hS hA2 hM pev hpev iorc porc horc T I0 v0 hleaf
    (safeTape_of_soundOps iorc I0 T.t hops)

/-- **state_sound.**  A box classified FILLED contains no point with a NaN or non-negative value; a box
    classified EMPTY no point with a NaN or non-positive value. -/
theorem state_sound {I : IVal K} {v : FVal K} (h : encl I v) :
    (istate I = IState.filled → v ≠ nan ∧ FVal.lt v zeroV = true) ∧
    (istate I = IState.empty → v ≠ nan ∧ FVal.gt v zeroV = true) :=
  ⟨fun hs => filled_sound hs h, fun hs => empty_sound hs h⟩

/-- leaves: a box axis `[lo,hi]` and a coordinate inside it; a constant -/
theorem leaf_enclosure {lo hi x : FVal K} (h1 : FVal.le lo x = true) (h2 : FVal.le x hi = true) :
    enclS (ileaf lo hi) x := leaf_enclS h1 h2
theorem const_enclosure (c : FVal K) : enclS (ileaf c c) c := const_enclS c

/-! ### Why the fixes were needed: the PRE-FIX formulas are unsound (concrete witnesses)
    `…Old` = the expression as it stood before the fix commit named in each docstring. -/

/-- pre-fix `operator-` (before f3afb29): the second disjunct repeated the `−∞` test -/
def isubOld (Bo : BoostOps K) (A B : IVal K) : IVal K :=
  IVal.ofOld (Bo.sub A.b B.b)
    (A.mn || B.mn || (A.lo.isNinf && B.lo.isNinf) || (A.hi.isNinf && B.hi.isNinf))

/-- `[1,+∞] − [1,+∞]` was not flagged, `(+∞) − (+∞)` is NaN. -/
theorem sub_unsound_old (Bo : BoostOps K) :
    ∃ A B : IVal K, ∃ a b : FVal K, enclS A a ∧ enclS B b ∧ ¬ encl (isubOld Bo A B) (FVal.sub a b) := by
  refine ⟨⟨fin 1, pinf, false⟩, ⟨fin 1, pinf, false⟩, pinf, pinf, ?_, ?_, ?_⟩
  · exact Or.inr ⟨by simp, rfl, rfl⟩
  · exact Or.inr ⟨by simp, rfl, rfl⟩
  · rintro (h | h)
    · simp [isubOld, IVal.ofOld, FVal.isNinf] at h
    · exact h.1 rfl

/-- pre-fix `nth_root` (before a650b90): `a.lower() <= 0 && !(bPt & 2)` -/
def inthRootOld (Bo : BoostOps K) (A B : IVal K) : IVal K :=
  IVal.ofOld (Bo.nthRoot A.b (Bo.toInt B.lo))
    (A.mn || B.mn || (FVal.le A.lo zeroV && !(bit1 (Bo.toInt B.lo))))

/-- the 6th root of `[−1,1]` was not flagged (`6 & 2 ≠ 0`), the value at `−1` is NaN. -/
theorem nthRoot_unsound_old (Bo : BoostOps K) (P : PointFns K)
    (h6 : P.toInt? (6 : K) = some 6) (hti : Bo.toInt (fin (6 : K)) = 6) :
    ∃ A B : IVal K, ∃ a b : FVal K, enclS A a ∧ enclS B b ∧
      ¬ encl (inthRootOld Bo A B) (pointOp P Op.nthRoot a b) := by
  refine ⟨⟨fin (-1), fin 1, false⟩, ⟨fin 6, fin 6, false⟩, fin (-1), fin 6, ?_, ?_, ?_⟩
  · exact Or.inr ⟨by simp, by simp [IVal.b], by simp [IVal.b]⟩
  · exact Or.inr ⟨by simp, by simp [IVal.b], by simp [IVal.b]⟩
  · have hp : pointOp P Op.nthRoot (fin (-1)) (fin (6 : K)) = nan := by
      simp [pointOp, expOf, h6, pnthRoot, oddI]
    rw [hp]
    rintro (h | h)
    · simp [inthRootOld, IVal.ofOld, hti, bit1] at h
    · exact h.1 rfl

/-- pre-fix `sin` / `cos` / `tan` (before 34669ce): only the operand's flag was copied -/
def itrigOld (f : Bnd K → Bnd K) (A : IVal K) : IVal K := IVal.ofOld (f A.b) A.mn

/-- `[0,+∞]` was not flagged, the value at `+∞` is NaN. -/
theorem sin_cos_tan_unsound_old (Bo : BoostOps K) (P : PointFns K) :
    ∃ A : IVal K, ∃ a : FVal K, enclS A a ∧
      ¬ encl (itrigOld Bo.sin A) (ptrig P.sin a) ∧ ¬ encl (itrigOld Bo.cos A) (ptrig P.cos a) ∧
      ¬ encl (itrigOld Bo.tan A) (ptrig P.tan a) := by
  refine ⟨⟨fin 0, pinf, false⟩, pinf, Or.inr ⟨by simp, rfl, rfl⟩, ?_, ?_, ?_⟩ <;>
  · rintro (h | h)
    · simp [itrigOld, IVal.ofOld] at h
    · exact h.1 rfl

/-- pre-fix flag of `Interval::mod` (before 6b977f5): `b.upper() >= 0 && b.lower() <= 0` only -/
def imodFlagOld (A B : IVal K) : Bool := FVal.ge B.hi zeroV && FVal.le B.lo zeroV

/-- the old flag missed `mod(+∞, b)`, `mod(a, +∞)` and NaN operands (all NaN at the point). -/
theorem mod_flag_unsound_old (P : PointFns K) :
    (∃ A B : IVal K, ∃ a b : FVal K, enclS A a ∧ enclS B b ∧ pmod P a b = nan ∧
      imodFlagOld A B = false ∧ a = pinf) ∧
    (∃ A B : IVal K, ∃ a b : FVal K, enclS A a ∧ enclS B b ∧ pmod P a b = nan ∧
      imodFlagOld A B = false ∧ b = pinf) ∧
    (∃ A B : IVal K, ∃ a b : FVal K, enclS A a ∧ enclS B b ∧ pmod P a b = nan ∧
      imodFlagOld A B = false ∧ a = nan) := by
  have h01 : ¬ ((1 : K) ≤ 0) := not_le.2 zero_lt_one
  refine ⟨?_, ?_, ?_⟩
  · exact ⟨⟨fin 1, pinf, false⟩, ⟨fin 1, fin 2, false⟩, pinf, fin 1, Or.inr ⟨by simp, rfl, rfl⟩,
      Or.inr ⟨by simp, by simp [IVal.b], by simp [IVal.b]⟩, rfl,
      by simp [imodFlagOld, zeroV, FVal.ge, h01], rfl⟩
  · exact ⟨⟨fin 1, fin 2, false⟩, ⟨fin 1, pinf, false⟩, fin 1, pinf,
      Or.inr ⟨by simp, by simp [IVal.b], by simp [IVal.b]⟩, Or.inr ⟨by simp, rfl, rfl⟩, rfl,
      by simp [imodFlagOld, zeroV, FVal.ge, h01], rfl⟩
  · exact ⟨⟨fin 0, fin 1, true⟩, ⟨fin 1, fin 1, false⟩, nan, fin 1, Or.inl ⟨rfl, rfl⟩,
      Or.inr ⟨by simp, by simp [IVal.b], by simp [IVal.b]⟩, rfl,
      by simp [imodFlagOld, zeroV, FVal.ge, h01], rfl⟩

/-- pre-fix `Interval::compare` (before 9cea0ae): the operands' flags were ignored -/
def icompareOld (A B : IVal K) : IVal K :=
  if FVal.lt A.hi B.lo then ⟨negOneV, negOneV, false⟩
  else if FVal.gt A.lo B.hi then ⟨oneV, oneV, false⟩
  else ⟨negOneV, oneV, false⟩

/-- `compare([−10,−9]?, [0,0])` was `[−1,−1]` not flagged (FILLED); the kernel returns `0` for NaN. -/
theorem compare_unsound_old :
    ∃ A B : IVal K, ∃ a b : FVal K, enclS A a ∧ enclS B b ∧ ¬ encl (icompareOld A B) (pcompare a b) ∧
      istate (icompareOld A B) = IState.filled := by
  have h1 : (-10 : K) ≤ -9 := by norm_num
  have h2 : (-9 : K) < 0 := by norm_num
  have h3 : ¬ ((0 : K) ≤ -1) := by norm_num
  have h4 : (-1 : K) < 0 := by norm_num
  refine ⟨⟨fin (-10), fin (-9), true⟩, ⟨fin 0, fin 0, false⟩, nan, fin 0, Or.inl ⟨rfl, rfl⟩,
    Or.inr ⟨by simp, by simp [IVal.b], by simp [IVal.b]⟩, ?_, ?_⟩
  · rintro (h | h)
    · simp [icompareOld, h2] at h
    · have := h.2.2
      simp [icompareOld, h2, pcompare, FVal.gt, IVal.b, negOneV, h3] at this
  · simp [icompareOld, h2, istate, FVal.gt, negOneV, zeroV, h4]

/-- pre-fix `recip` (before 0078f64): `Interval(1.0f / a.i, a.maybe_nan)`, no zero-crossing rule.
    There is a reciprocal primitive meeting Boost's contract (for non-zero points) for which
    `recip([−1,0])` is one-sided and not flagged, while `1/(+0) = +∞`. -/
theorem recip_unsound_old :
    ∃ od : Bnd K → Bnd K, (∀ X a, inBb X a → a ≠ fin 0 → inBb (od X) (precip a)) ∧
      ∃ A : IVal K, ∃ a : FVal K, enclS A a ∧ ¬ encl (IVal.ofOld (od A.b) A.mn) (precip a) := by
  refine ⟨fun X => if FVal.le X.hi zeroV = true then ⟨ninf, fin 0⟩ else wholeB, ?_, ?_⟩
  · intro X a h h0
    by_cases c : FVal.le X.hi zeroV = true
    · simp only [c, if_true]
      have ha0 : FVal.le a zeroV = true := fle_trans h.2.2 c
      refine ⟨precip_ne_nan h.1, ?_, ?_⟩
      · have := precip_ne_nan h.1
        cases hp : precip a <;> simp_all [FVal.le]
      · cases a with
        | nan => exact absurd rfl h.1
        | ninf => simp [precip, FVal.div]
        | pinf => exact absurd ha0 (by simp [zeroV, FVal.le])
        | fin x =>
          have hx : x ≤ 0 := by simpa [zeroV] using ha0
          have hx0 : x ≠ 0 := fun e => h0 (by rw [e])
          have hlt : x < 0 := lt_of_le_of_ne hx hx0
          simp [precip, FVal.div, hlt, not_lt.2 hx]
          exact le_of_lt (by simpa using one_div_neg.2 hlt)
    · simp only [c]; exact inBb_whole (precip_ne_nan h.1)
  · refine ⟨⟨fin (-1), fin 0, false⟩, fin 0, Or.inr ⟨by simp, by simp [IVal.b], by simp [IVal.b]⟩, ?_⟩
    rintro (h | h)
    · simp [IVal.ofOld] at h
    · have := h.2.2
      simp [IVal.b, IVal.ofOld, zeroV, precip, FVal.div, FVal.le] at this

/-! ### The constructor repair (/repo 0be5df1): NaN-bounded Boost results become `[−∞,+∞]`

    Before, `Interval(const I&, bool)` flagged a result with a NaN bound but KEPT the NaN bounds
    (`IVal.ofNanKept`).  Boost treats a NaN-bounded interval as empty: `max`/`min` of it are empty and
    `hull` ignores it, so `min`/`max`/`nanfill`'s "take the range of a maybe-NaN operand" rule lost the
    operand's non-NaN values. -/

/-- Boost's `test_input`: an interval with a NaN bound counts as empty -/
def nanBnd (X : Bnd K) : Bool := X.lo.isNan || X.hi.isNan

/-- `boost::numeric::max` as it behaves on libfive's `I` (observed on the real library): empty when an
    operand has a NaN bound, endpoint-wise `std::max` otherwise -/
def boostMaxB (X Y : Bnd K) : Bnd K := if nanBnd X || nanBnd Y then ⟨nan, nan⟩ else maxB X Y

/-- `boost::numeric::hull` likewise: a NaN-bounded operand contributes nothing -/
def boostHullB (X Y : Bnd K) : Bnd K :=
  if nanBnd X then (if nanBnd Y then ⟨nan, nan⟩ else Y) else if nanBnd Y then X else hullB X Y

/-- `Interval::max` with the PREVIOUS constructor (before 0be5df1) -/
def imaxNanKept (Bo : BoostOps K) (A B : IVal K) : IVal K :=
  let i := Bo.max A.b B.b
  let i := if B.mn then Bo.hull i A.b else i
  IVal.ofNanKept i A.mn

theorem nanBnd_of_inBb {X : Bnd K} {a : FVal K} (h : inBb X a) : nanBnd X = false := by
  have h1 := ne_nan_of_le_l h.2.1
  have h2 := ne_nan_of_le_r h.2.2
  unfold nanBnd
  cases hl : X.lo <;> cases hh : X.hi <;> simp_all [FVal.isNan]

/-- **nan_bounds_kept_unsound.**  With Boost's `max` / `hull` (which meet the contracts `BoostSound`
    asks of them) and the PREVIOUS constructor, the hull rule of `Interval::max` is unsound: for
    `A = [c,c]` and the Boost bounds `[NaN,+∞]` of `inf − z·inf` (`z` straddling 0; the only non-NaN
    value is `+∞`), the previous constructor yields the operand `[NaN,+∞]` flagged, which satisfies the
    property's `encl` but not the invariant `enclS`, and `max(A, ·)` is `[c,c]` NOT flagged although
    `max(c, +∞) = +∞`.  The repaired constructor yields `[−∞,+∞]` flagged, which satisfies `enclS`, and
    `max(A, ·)` encloses the value. -/
theorem nan_bounds_kept_unsound (Bo : BoostOps K) (c : K) :
    let Bo' : BoostOps K := { Bo with max := boostMaxB, hull := boostHullB }
    let A : IVal K := ⟨fin c, fin c, false⟩
    let Bb : Bnd K := ⟨nan, pinf⟩
    -- the two primitives meet Boost's contracts
    ((∀ X Y a b, inBb X a → inBb Y b → inBb (Bo'.max X Y) (pmax a b)) ∧
     (∀ X Y a, inBb X a → inBb (Bo'.hull X Y) a) ∧ (∀ X Y a, inBb Y a → inBb (Bo'.hull X Y) a)) ∧
    enclS A (fin c) ∧ pmax (fin c) pinf = pinf ∧
    -- previous constructor: operand flagged, NaN bound kept; result `[c,c]` not flagged
    (IVal.ofNanKept Bb true = ⟨nan, pinf, true⟩ ∧
     encl (IVal.ofNanKept Bb true) pinf ∧ ¬ enclS (IVal.ofNanKept Bb true) pinf ∧
     imaxNanKept Bo' A (IVal.ofNanKept Bb true) = ⟨fin c, fin c, false⟩ ∧
     ¬ encl (imaxNanKept Bo' A (IVal.ofNanKept Bb true)) (pmax (fin c) pinf)) ∧
    -- repaired constructor: operand `[−∞,+∞]` flagged; the result encloses the value
    (IVal.of Bb true = ⟨ninf, pinf, true⟩ ∧ enclS (IVal.of Bb true) pinf ∧
     imax Bo' A (IVal.of Bb true) = ⟨fin c, pinf, false⟩ ∧
     enclS (imax Bo' A (IVal.of Bb true)) (pmax (fin c) pinf)) := by
  intro Bo' A Bb
  have hpm : pmax (fin c) (pinf : FVal K) = pinf := by simp [pmax, FVal.isNan, FVal.lt]
  have hA : enclS A (fin c) := Or.inr ⟨by simp, by simp [A, IVal.b], by simp [A, IVal.b]⟩
  have hold : imaxNanKept Bo' A (IVal.ofNanKept Bb true) = ⟨fin c, fin c, false⟩ := by
    simp [imaxNanKept, IVal.ofNanKept, Bo', A, Bb, IVal.b, boostMaxB, boostHullB, nanBnd, FVal.isNan]
  have hnew : imax Bo' A (IVal.of Bb true) = ⟨fin c, pinf, false⟩ := by
    simp [imax, IVal.of, Bo', A, Bb, IVal.b, boostMaxB, boostHullB, nanBnd, FVal.isNan, maxB, hullB,
      emax, FVal.fmin, FVal.fmax, FVal.lt]
  refine ⟨⟨?_, ?_, ?_⟩, hA, hpm, ⟨rfl, Or.inl rfl, ?_, hold, ?_⟩, ⟨rfl, ?_, hnew, ?_⟩⟩
  · intro X Y a b h1 h2
    show inBb (boostMaxB X Y) (pmax a b)
    simp only [boostMaxB, nanBnd_of_inBb h1, nanBnd_of_inBb h2, Bool.or_self, Bool.false_eq_true,
      if_false]
    exact maxB_sound h1 h2
  · intro X Y a h
    show inBb (boostHullB X Y) a
    unfold boostHullB
    simp only [nanBnd_of_inBb h, Bool.false_eq_true, if_false]
    split
    · exact h
    · exact hullB_l Y h
  · intro X Y a h
    show inBb (boostHullB X Y) a
    unfold boostHullB
    simp only [nanBnd_of_inBb h, Bool.false_eq_true, if_false]
    split
    · exact h
    · exact hullB_r X h
  · rintro (⟨_, h⟩ | h)
    · exact absurd h (by simp)
    · have := h.2.1
      simp [IVal.ofNanKept, Bb, IVal.b] at this
  · rw [hold, hpm]
    rintro (h | h)
    · exact absurd h (by simp)
    · have := h.2.2
      simp [IVal.b, FVal.le] at this
  · exact Or.inr ⟨by simp, rfl, rfl⟩
  · rw [hnew, hpm]
    exact Or.inr ⟨by simp, by simp [IVal.b, FVal.le], by simp [IVal.b, FVal.le]⟩

/-- **flagged_bounds_enclose.**  The strong half of the invariant no longer needs NaN-free Boost
    bounds: for every result `Interval(b, u)` of the (repaired) constructor, a non-NaN value that is
    inside the Boost bounds `b` — or ANY non-NaN value when `b` has a NaN bound — is inside the
    result's bounds; the result's own bounds are never NaN, and a NaN bound of `b` flags it. -/
theorem flagged_bounds_enclose (b : Bnd K) (u : Bool) :
    (∀ v : FVal K, v ≠ nan → (inBb b v ∨ (b.lo.isNan || b.hi.isNan) = true) →
      inB (IVal.of b u) v ∧ enclS (IVal.of b u) v) ∧
    ((b.lo.isNan || b.hi.isNan) = true → (IVal.of b u).mn = true) ∧
    ((b.lo.isNan || b.hi.isNan) = false → (IVal.of b u).b = b ∧ (IVal.of b u).mn = u) ∧
    (IVal.of b u).lo ≠ nan ∧ (IVal.of b u).hi ≠ nan := by
  refine ⟨?_, ?_, ?_, ?_⟩
  · intro v hv h
    have : inB (IVal.of b u) v := by
      rcases h with h | h
      · exact inB_of h
      · exact inB_of_iff.2 (Or.inr ⟨hv, h⟩)
    exact ⟨this, Or.inr this⟩
  · intro h
    rw [mn_of]
    simp only [Bool.or_eq_true] at h ⊢
    rcases h with h | h
    · exact Or.inl (Or.inr h)
    · exact Or.inr h
  · intro h
    have h' := h
    simp only [Bool.or_eq_false_iff] at h'
    refine ⟨by rw [b_of]; simp [h], ?_⟩
    rw [mn_of]; simp [h'.1, h'.2]
  · by_cases h : (b.lo.isNan || b.hi.isNan) = true
    · simp [IVal.of, h]
    · have h' : b.lo.isNan = false ∧ b.hi.isNan = false := by simpa using h
      have e : IVal.of b u = ⟨b.lo, b.hi, u⟩ := by simp [IVal.of, h'.1, h'.2]
      rw [e]
      constructor
      · intro hn
        have hn : b.lo = nan := hn
        have := h'.1; rw [hn] at this; exact Bool.noConfusion this
      · intro hn
        have hn : b.hi = nan := hn
        have := h'.2; rw [hn] at this; exact Bool.noConfusion this

/-! ### The hypotheses are satisfiable (non-degenerate intervals, `K = ℚ`) -/

section examples

/-- a Boost model: every primitive returns the whole line (trivially meets every contract) -/
def wholeOps : BoostOps ℚ :=
  { add := fun _ _ => wholeB, sub := fun _ _ => wholeB, mul := fun _ _ => wholeB,
    div := fun _ _ => wholeB, min := fun _ _ => wholeB, max := fun _ _ => wholeB,
    hull := fun _ _ => wholeB, neg := fun _ => wholeB, abs := fun _ => wholeB,
    square := fun _ => wholeB, sqrt := fun _ => wholeB, sin := fun _ => wholeB,
    cos := fun _ => wholeB, tan := fun _ => wholeB, asin := fun _ => wholeB,
    acos := fun _ => wholeB, atan := fun _ => wholeB, exp := fun _ => wholeB,
    log := fun _ => wholeB, oneDiv := fun _ => wholeB, powi := fun _ _ => wholeB,
    nthRoot := fun _ _ => wholeB, mulNeg1 := fun _ => wholeB, mulF := fun _ _ => wholeB,
    empty := ⟨nan, nan⟩, atanWhole := wholeB, atan2f := fun _ _ => fin 0, pi := fin 4,
    negPi := fin (-4),
    toInt := fun v => match v with | fin q => ⌊q⌋ | _ => 0,
    floorF := fun v => match v with | fin q => fin ((⌊q⌋ : Int) : ℚ) | w => w,
    nanOnZeroToNeg := false, powM1IsNan := fun _ => false }

/-- point functions: any will do (the lemmas never look inside them) -/
def exFns : PointFns ℚ :=
  { sqrt := id, sin := fun _ => 0, cos := fun _ => 1, tan := fun _ => 0, asin := id, acos := id,
    atan := fun _ => 0, exp := fun _ => 1, log := fun _ => 0, atan2 := fun _ _ => 0, halfPi := 2,
    powi := fun x k => x ^ k, root := fun x _ => x, floor := fun x => ⌊x⌋, ofInt := fun k => (k : ℚ),
    toInt? := fun y => if (⌊y⌋ : ℚ) = y then some ⌊y⌋ else none }

theorem pmin_ne_nan {a b : FVal ℚ} (ha : a ≠ nan) (hb : b ≠ nan) : pmin a b ≠ nan :=
  fun h => ha (pmin_eq_nan h)
theorem pmax_ne_nan {a b : FVal ℚ} (ha : a ≠ nan) (hb : b ≠ nan) : pmax a b ≠ nan :=
  fun h => ha (pmax_eq_nan h)

theorem wholeOps_sound : BoostSound wholeOps exFns where
  add := fun _ _ _ _ _ _ h => inBb_whole h
  sub := fun _ _ _ _ _ _ h => inBb_whole h
  mul := fun _ _ _ _ _ _ h => inBb_whole h
  div := fun _ _ _ _ _ _ _ h => inBb_whole h
  min := fun _ _ _ _ h1 h2 => inBb_whole (pmin_ne_nan h1.1 h2.1)
  max := fun _ _ _ _ h1 h2 => inBb_whole (pmax_ne_nan h1.1 h2.1)
  hull_l := fun _ _ _ h => inBb_whole h.1
  hull_r := fun _ _ _ h => inBb_whole h.1
  neg := fun _ _ h => inBb_whole (neg_ne_nan h.1)
  abs := fun _ _ h => inBb_whole (abs_ne_nan h.1)
  square := fun _ _ h => inBb_whole (mul_self_ne_nan h.1)
  sqrt := fun _ _ _ h => inBb_whole h
  sin := fun _ _ _ h => inBb_whole h
  cos := fun _ _ _ h => inBb_whole h
  tan := fun _ _ _ h => inBb_whole h
  asin := fun _ _ _ h => inBb_whole h
  acos := fun _ _ _ h => inBb_whole h
  atan := fun _ _ h => inBb_whole (patan_ne_nan h.1)
  atanWhole := fun _ h => inBb_whole (patan_ne_nan h)
  exp := fun _ _ h => inBb_whole (pexp_ne_nan h.1)
  log := fun _ _ _ _ h => inBb_whole h
  oneDiv := fun _ _ h _ => inBb_whole (precip_ne_nan h.1)
  powi := fun _ _ _ h _ _ => inBb_whole (ppowi_ne_nan h.1)
  nthRoot := fun _ _ _ _ _ _ _ h => inBb_whole h

theorem wholeOps_atan2 : Atan2Sound wholeOps exFns where
  eq := fun _ _ _ _ => rfl
  range := fun _ _ _ _ => ⟨by simp [wholeOps, exFns], by simp [wholeOps, exFns]⟩
  monoY_right := fun _ _ _ _ _ => le_refl _
  monoX_nonneg_right := fun _ _ _ _ _ _ => le_refl _
  monoX_nonpos_right := fun _ _ _ _ _ _ => le_refl _
  monoX_pos := fun _ _ _ _ _ => le_refl _
  monoX_neg := fun _ _ _ _ _ => le_refl _
  monoY_nonneg_pos := fun _ _ _ _ _ _ => le_refl _
  monoY_nonpos_pos := fun _ _ _ _ _ _ => le_refl _
  monoY_nonpos_neg := fun _ _ _ _ _ _ => le_refl _
  monoY_nonneg_neg := fun _ _ _ _ _ _ => le_refl _

theorem wholeOps_mod : ModSound wholeOps exFns where
  mulNeg1 := fun _ _ h => inBb_whole (neg_ne_nan h.1)
  mulF := fun _ _ _ _ h => inBb_whole h
  floorF_fin := fun _ => rfl
  floorF_finite := fun v h => by cases v <;> simp_all [wholeOps, FVal.isFinite]
  floor := fun _ => rfl
  ofInt := fun _ => rfl

/-- `x ∈ [1,2]`, `y ∈ [3,5]`, `z ∈ [−1,1]` maybe-NaN -/
def iA : IVal ℚ := ⟨fin 1, fin 2, false⟩
def iB : IVal ℚ := ⟨fin 3, fin 5, false⟩
def iZ : IVal ℚ := ⟨fin (-1), fin 1, true⟩
theorem hA : enclS iA (fin (3/2)) := Or.inr ⟨by simp, by simp [iA, IVal.b]; norm_num, by simp [iA, IVal.b]; norm_num⟩
theorem hB : enclS iB (fin 4) := Or.inr ⟨by simp, by simp [iB, IVal.b]; norm_num, by simp [iB, IVal.b]; norm_num⟩
theorem hZ : enclS iZ (nan : FVal ℚ) := Or.inl ⟨rfl, rfl⟩

-- one instance per opcode lemma (side conditions discharged on these intervals)
example : enclS (iop wholeOps Op.add iA iB) (FVal.add (fin (3/2)) (fin 4)) :=
  op_enclosure wholeOps_sound wholeOps_atan2 wholeOps_mod Op.add trivial hA hB (Or.inl rfl)
example : enclS (iop wholeOps Op.mul iA iZ) (FVal.mul (fin (3/2)) nan) :=
  op_enclosure wholeOps_sound wholeOps_atan2 wholeOps_mod Op.mul trivial hA hZ (Or.inl rfl)
example : enclS (iop wholeOps Op.sub iA iB) (FVal.sub (fin (3/2)) (fin 4)) :=
  op_enclosure wholeOps_sound wholeOps_atan2 wholeOps_mod Op.sub trivial hA hB (Or.inl rfl)
example : enclS (iop wholeOps Op.div iA iB) (FVal.div (fin (3/2)) (fin 4)) :=
  op_enclosure wholeOps_sound wholeOps_atan2 wholeOps_mod Op.div trivial hA hB (Or.inl rfl)
example : enclS (iop wholeOps Op.min iA iZ) (pmin (fin (3/2)) nan) :=
  op_enclosure wholeOps_sound wholeOps_atan2 wholeOps_mod Op.min trivial hA hZ (Or.inl rfl)
example : enclS (iop wholeOps Op.max iZ iB) (pmax nan (fin 4)) :=
  op_enclosure wholeOps_sound wholeOps_atan2 wholeOps_mod Op.max trivial hZ hB (Or.inl rfl)
example : enclS (iop wholeOps Op.nanfill iZ iB) (pnanfill nan (fin 4)) :=
  op_enclosure wholeOps_sound wholeOps_atan2 wholeOps_mod Op.nanfill trivial hZ hB (Or.inl rfl)
example : enclS (iop wholeOps Op.atan2 iA iB) (patan2 exFns (fin (3/2)) (fin 4)) :=
  op_enclosure wholeOps_sound wholeOps_atan2 wholeOps_mod Op.atan2 trivial hA hB (Or.inl rfl)
example : enclS (iop wholeOps Op.compare iA iB) (pcompare (fin (3/2)) (fin 4)) :=
  op_enclosure wholeOps_sound wholeOps_atan2 wholeOps_mod Op.compare trivial hA hB (Or.inl rfl)
example : enclS (iop wholeOps Op.sin iA iA) (ptrig exFns.sin (fin (3/2))) :=
  op_enclosure wholeOps_sound wholeOps_atan2 wholeOps_mod Op.sin trivial hA hA (Or.inl rfl)
example : enclS (iop wholeOps Op.log iA iA) (plog exFns (fin (3/2))) :=
  op_enclosure wholeOps_sound wholeOps_atan2 wholeOps_mod Op.log trivial hA hA (Or.inl rfl)
example : enclS (iop wholeOps Op.recip iA iA) (precip (fin (3/2))) :=
  op_enclosure wholeOps_sound wholeOps_atan2 wholeOps_mod Op.recip
    trivial hA hA (Or.inl rfl)
example : enclS (iop wholeOps Op.sqrt iZ iZ) (psqrt exFns nan) :=
  op_enclosure wholeOps_sound wholeOps_atan2 wholeOps_mod Op.sqrt trivial hZ hZ (Or.inl rfl)

/-- exponent operand `[3,3]` -/
def iK : IVal ℚ := ⟨fin 3, fin 3, false⟩
theorem hK : enclS iK (fin 3) := Or.inr ⟨by simp, by simp [iK, IVal.b], by simp [iK, IVal.b]⟩
theorem k3 : exFns.toInt? (3 : ℚ) = some 3 := by
  have : (⌊(3 : ℚ)⌋ : Int) = 3 := by exact_mod_cast Int.floor_natCast (R := ℚ) 3
  simp [exFns, this]
theorem k3' : wholeOps.toInt (fin (3 : ℚ)) = 3 := by
  show (⌊(3 : ℚ)⌋ : Int) = 3
  exact_mod_cast Int.floor_natCast (R := ℚ) 3

example : enclS (iop wholeOps Op.pow iA iK) (pointOp exFns Op.pow (fin (3/2)) (fin 3)) :=
  op_enclosure wholeOps_sound wholeOps_atan2 wholeOps_mod Op.pow
    ⟨3, 3, rfl, k3, k3', by norm_num⟩ hA hK (Or.inl rfl)
example : enclS (iop wholeOps Op.nthRoot iA iK) (pointOp exFns Op.nthRoot (fin (3/2)) (fin 3)) :=
  op_enclosure wholeOps_sound wholeOps_atan2 wholeOps_mod Op.nthRoot
    ⟨3, 3, rfl, k3, k3', by norm_num, rfl, rfl⟩ hA hK (Or.inl rfl)

/-- `mod` with a positive divisor interval (position 1) and a zero-straddling one (position 3) -/
def iS : IVal ℚ := ⟨fin (-1), fin 1, false⟩
theorem hS' : enclS iS (fin (1/2)) := Or.inr ⟨by simp, by simp [iS, IVal.b]; norm_num, by simp [iS, IVal.b]; norm_num⟩
example : enclS (iop wholeOps Op.mod iA iB) (pointOp exFns Op.mod (fin (3/2)) (fin 4)) :=
  op_enclosure wholeOps_sound wholeOps_atan2 wholeOps_mod Op.mod trivial hA hB (Or.inl rfl)
example : enclS (iop wholeOps Op.mod iA iS) (pointOp exFns Op.mod (fin (3/2)) (fin (1/2))) :=
  op_enclosure wholeOps_sound wholeOps_atan2 wholeOps_mod Op.mod trivial hA hS' (Or.inl rfl)

/-- a three-clause tape `max(mod(x − y, y), z)` with slots x=4 y=5 z=6 over the box -/
def exTape : TapeM := { t := [⟨Op.max, 1, 2, 6⟩, ⟨Op.mod, 2, 3, 5⟩, ⟨Op.sub, 3, 4, 5⟩], root := 1 }
def exI0 : Nat → IVal ℚ := fun s => if s = 4 then iA else if s = 5 then iB else iS
def exV0 : Nat → FVal ℚ := fun s => if s = 4 then fin (3/2) else if s = 5 then fin 4 else fin (1/2)
theorem exLeaf : ∀ s, enclS (exI0 s) (exV0 s) := by
  intro s
  unfold exI0 exV0
  by_cases h4 : s = 4
  · simp only [h4, if_true]; exact hA
  · by_cases h5 : s = 5
    · simp only [h5]; exact hB
    · simp only [h4, h5, if_false]; exact hS'

example : encl (ievalList wholeOps (fun _ => iS) exTape.t exI0 exTape.root)
    (evalList (pointOp exFns) (fun _ => fin (1/2)) exTape.t exV0 exTape.root) :=
  tape_enclosure wholeOps_sound wholeOps_atan2 wholeOps_mod (pointOp exFns) (fun _ _ _ => Or.inl rfl)
    (fun _ => iS) (fun _ => fin (1/2)) (fun _ => hS') exTape exI0 exV0 exLeaf
    (by intro c hc; simp [exTape] at hc; rcases hc with rfl | rfl | rfl <;> simp [soundOp])

end examples

end Libfive.C02
