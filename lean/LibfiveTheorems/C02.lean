/-
  C02 — Interval evaluation soundly encloses every point value in the box.
  Property theorems only; models in LibfiveModel/Interval.lean, helper lemmas in
  LibfiveProofs/Interval*.lean.

  Reading guide.  `enclS I v` is the inductive invariant (NaN only when flagged, non-NaN values inside
  the bounds); `encl I v := I.mn ∨ (v ≠ nan ∧ I.lo ≤ v ≤ I.hi)` is the property's statement and follows
  from it.  `BoostSound / Atan2Sound / ModSound` are the assumed contracts of the Boost / libm
  primitives.  `SafeArgs op A B` is `True` for the opcodes whose libfive-authored flag logic is
  complete and otherwise spells out the hypothesis that is missing on this tree; the `*_unsound`
  theorems prove, with concrete witnesses, that those hypotheses cannot be dropped.
-/
import LibfiveProofs.Interval3
import Mathlib.Algebra.Order.Field.Rat
import Mathlib.Data.Rat.Floor

set_option linter.unusedSectionVars false
set_option linter.unusedVariables false

namespace Libfive.C02

open Libfive Libfive.Ivl FVal

variable {K : Type} [Field K] [LinearOrder K] [IsStrictOrderedRing K] [FloorRing K]
variable {Bo : BoostOps K} {P : PointFns K}

/-- **op_enclosure** (flag completeness, every opcode).  For operand values enclosed by the operand
    intervals, every result the point kernel may produce (`PointRel`: both signs of zero, first operand
    on NaN for min/max) is enclosed by libfive's interval result — under the opcode's side condition. -/
theorem op_enclosure (hS : BoostSound Bo P) (hA2 : Atan2Sound Bo P) (hM : ModSound Bo P)
    (op : Op) {A B : IVal K} {a b r : FVal K}
    (hsafe : SafeArgs Bo P op A B) (ha : enclS A a) (hb : enclS B b) (hr : PointRel P op a b r) :
    enclS (iop Bo op A B) r :=
  op_enclS_all hS hA2 hM op hsafe ha hb hr

/-- the same in the property's own terms: not flagged ⇒ non-NaN and inside the bounds -/
theorem op_enclosure_weak (hS : BoostSound Bo P) (hA2 : Atan2Sound Bo P) (hM : ModSound Bo P)
    (op : Op) {A B : IVal K} {a b r : FVal K}
    (hsafe : SafeArgs Bo P op A B) (ha : enclS A a) (hb : enclS B b) (hr : PointRel P op a b r) :
    encl (iop Bo op A B) r :=
  (op_enclosure hS hA2 hM op hsafe ha hb hr).encl

/-- opcodes whose lemma needs no side condition on this tree -/
def soundOp : Op → Bool
  | .add | .mul | .min | .max | .div | .atan2 | .nanfill | .square | .sqrt | .neg | .asin | .acos
  | .atan | .exp | .abs | .constVar => true
  | _ => false

theorem safeArgs_of_soundOp {op : Op} (h : soundOp op = true) (A B : IVal K) :
    SafeArgs Bo P op A B := by
  cases op <;> simp_all [soundOp, SafeArgs]

/-- **tape_enclosure_partial.**  For every clause list (tape), every assignment of intervals and point
    values to the leaf slots with the point values enclosed (a box and a point of it, constants,
    variables), every resolution `pev` of the point kernel's choices and every oracle pair: if every
    clause meets its side condition on the interval slots (`SafeTape`), then at every slot — in
    particular the root — the interval evaluation encloses the point evaluation.
    (Full statement without `SafeTape`: false on this tree, see `*_unsound` below.) -/
theorem tape_enclosure_partial (hS : BoostSound Bo P) (hA2 : Atan2Sound Bo P) (hM : ModSound Bo P)
    (pev : Op → FVal K → FVal K → FVal K) (hpev : ∀ op a b, PointRel P op a b (pev op a b))
    (iorc : Nat → IVal K) (porc : Nat → FVal K) (horc : ∀ k, enclS (iorc k) (porc k))
    (T : TapeM) (I0 : Nat → IVal K) (v0 : Nat → FVal K)
    (hleaf : ∀ s, enclS (I0 s) (v0 s)) (hsafe : SafeTape Bo P iorc T.t I0) :
    encl (ievalList Bo iorc T.t I0 T.root) (evalList pev porc T.t v0 T.root) :=
  (tape_enclS hS hA2 hM pev hpev iorc porc horc T.t I0 v0 hleaf hsafe T.root).encl

theorem safeTape_of_soundOps (iorc : Nat → IVal K) (I0 : Nat → IVal K) :
    ∀ t : List Clause, (∀ c ∈ t, c.op = Op.oracle ∨ soundOp c.op = true) → SafeTape Bo P iorc t I0
  | [], _ => trivial
  | c :: rest, h => by
    refine ⟨safeTape_of_soundOps iorc I0 rest (fun d hd => h d (List.mem_cons_of_mem _ hd)), ?_⟩
    intro ho
    rcases h c (List.mem_cons_self ..) with h1 | h1
    · exact absurd h1 ho
    · exact safeArgs_of_soundOp h1 _ _

/-- **tape_enclosure** for tapes over the opcodes whose flag logic is complete
    (`+ * min max / atan2 nanfill square sqrt neg asin acos atan exp abs`): unconditional. -/
theorem tape_enclosure (hS : BoostSound Bo P) (hA2 : Atan2Sound Bo P) (hM : ModSound Bo P)
    (pev : Op → FVal K → FVal K → FVal K) (hpev : ∀ op a b, PointRel P op a b (pev op a b))
    (iorc : Nat → IVal K) (porc : Nat → FVal K) (horc : ∀ k, enclS (iorc k) (porc k))
    (T : TapeM) (I0 : Nat → IVal K) (v0 : Nat → FVal K)
    (hleaf : ∀ s, enclS (I0 s) (v0 s))
    (hops : ∀ c ∈ T.t, c.op = Op.oracle ∨ soundOp c.op = true) :
    encl (ievalList Bo iorc T.t I0 T.root) (evalList pev porc T.t v0 T.root) :=
  tape_enclosure_partial hS hA2 hM pev hpev iorc porc horc T I0 v0 hleaf
    (safeTape_of_soundOps iorc I0 T.t hops)

/-- **state_sound.**  A box classified FILLED contains no point with a NaN or non-negative value; a box
    classified EMPTY no point with a NaN or non-positive value. -/
theorem state_sound {I : IVal K} {v : FVal K} (h : encl I v) :
    (istate I = IState.filled → v ≠ nan ∧ FVal.lt v zeroV = true) ∧
    (istate I = IState.empty → v ≠ nan ∧ FVal.gt v zeroV = true) :=
  ⟨fun hs => filled_sound hs h, fun hs => empty_sound hs h⟩

/-- leaves: a box axis `[lo,hi]` and a coordinate inside it; a constant -/
theorem leaf_enclosure {lo hi x : FVal K} (h1 : FVal.le lo x = true) (h2 : FVal.le x hi = true) :
    enclS (ileaf lo hi) x := leaf_enclS h1 h2
theorem const_enclosure (c : FVal K) : enclS (ileaf c c) c := const_enclS c

/-! ### The side conditions cannot be dropped: negations with concrete witnesses
    (each witness is replayed on the real IntervalEvaluator + ArrayEvaluator by tools/checks/c02.py) -/

/-- `operator-`: `[1,+∞] − [1,+∞]` is not flagged, `(+∞) − (+∞)` is NaN. -/
theorem sub_unsound (Bo : BoostOps K) :
    ∃ A B : IVal K, ∃ a b : FVal K, enclS A a ∧ enclS B b ∧ ¬ encl (isub Bo A B) (FVal.sub a b) := by
  refine ⟨⟨fin 1, pinf, false⟩, ⟨fin 1, pinf, false⟩, pinf, pinf, ?_, ?_, ?_⟩
  · exact Or.inr ⟨by simp, rfl, rfl⟩
  · exact Or.inr ⟨by simp, rfl, rfl⟩
  · rintro (h | h)
    · simp [isub, FVal.isNinf] at h
    · exact h.1 rfl

/-- `nth_root`: the 6th root of `[−1,1]` is not flagged (`6 & 2 ≠ 0`), the value at `−1` is NaN. -/
theorem nthRoot_unsound (Bo : BoostOps K) (P : PointFns K)
    (h6 : P.toInt? (6 : K) = some 6) (hti : Bo.toInt (fin (6 : K)) = 6) :
    ∃ A B : IVal K, ∃ a b : FVal K, enclS A a ∧ enclS B b ∧
      ¬ encl (inthRoot Bo A B) (pointOp P Op.nthRoot a b) := by
  refine ⟨⟨fin (-1), fin 1, false⟩, ⟨fin 6, fin 6, false⟩, fin (-1), fin 6, ?_, ?_, ?_⟩
  · exact Or.inr ⟨by simp, by simp [IVal.b], by simp [IVal.b]⟩
  · exact Or.inr ⟨by simp, by simp [IVal.b], by simp [IVal.b]⟩
  · have hp : pointOp P Op.nthRoot (fin (-1)) (fin (6 : K)) = nan := by
      simp [pointOp, expOf, h6, pnthRoot, oddI]
    rw [hp]
    rintro (h | h)
    · simp [inthRoot, hti, bit1] at h
    · exact h.1 rfl

/-- `sin`, `cos`, `tan`: `[0,+∞]` is not flagged, the value at `+∞` is NaN. -/
theorem sin_cos_tan_unsound (Bo : BoostOps K) (P : PointFns K) :
    ∃ A : IVal K, ∃ a : FVal K, enclS A a ∧
      ¬ encl (isin Bo A) (ptrig P.sin a) ∧ ¬ encl (icos Bo A) (ptrig P.cos a) ∧
      ¬ encl (itan Bo A) (ptrig P.tan a) := by
  refine ⟨⟨fin 0, pinf, false⟩, pinf, Or.inr ⟨by simp, rfl, rfl⟩, ?_, ?_, ?_⟩ <;>
  · rintro (h | h)
    · simp [isin, icos, itan] at h
    · exact h.1 rfl

/-- `mod` with an infinite first operand: `mod([1,+∞],[1,2])` is not flagged, `mod(+∞, 1)` is NaN;
    with an infinite second operand: `mod([1,2],[1,+∞])`, `mod(1, +∞)` is NaN. -/
theorem mod_infinite_unsound (Bo : BoostOps K) (P : PointFns K) :
    (∃ A B : IVal K, ∃ a b : FVal K, enclS A a ∧ enclS B b ∧ ¬ encl (imod Bo A B) (pmod P a b)) ∧
    (∃ A B : IVal K, ∃ a b : FVal K, a ≠ pinf ∧ enclS A a ∧ enclS B b ∧
      ¬ encl (imod Bo A B) (pmod P a b)) := by
  have h01 : ¬ ((1 : K) ≤ 0) := not_le.2 zero_lt_one
  constructor
  · refine ⟨⟨fin 1, pinf, false⟩, ⟨fin 1, fin 2, false⟩, pinf, fin 1, Or.inr ⟨by simp, rfl, rfl⟩,
      Or.inr ⟨by simp, by simp [IVal.b], by simp [IVal.b]⟩, ?_⟩
    rintro (h | h)
    · simp [imod, zeroV, FVal.ge, h01] at h
    · exact h.1 rfl
  · refine ⟨⟨fin 1, fin 2, false⟩, ⟨fin 1, pinf, false⟩, fin 1, pinf, by simp,
      Or.inr ⟨by simp, by simp [IVal.b], by simp [IVal.b]⟩, Or.inr ⟨by simp, rfl, rfl⟩, ?_⟩
    rintro (h | h)
    · simp [imod, zeroV, FVal.ge, h01] at h
    · exact h.1 rfl

/-- `mod` drops the operands' flags: `mod([0,1]?, [1,1])` is not flagged, `mod(NaN, 1)` is NaN. -/
theorem mod_flag_unsound (Bo : BoostOps K) (P : PointFns K) :
    ∃ A B : IVal K, ∃ a b : FVal K, enclS A a ∧ enclS B b ∧ ¬ encl (imod Bo A B) (pmod P a b) := by
  have h01 : ¬ ((1 : K) ≤ 0) := not_le.2 zero_lt_one
  refine ⟨⟨fin 0, fin 1, true⟩, ⟨fin 1, fin 1, false⟩, nan, fin 1, Or.inl ⟨rfl, rfl⟩,
    Or.inr ⟨by simp, by simp [IVal.b], by simp [IVal.b]⟩, ?_⟩
  rintro (h | h)
  · simp [imod, zeroV, FVal.ge, h01] at h
  · exact h.1 rfl

/-- `compare` drops the operands' flags: `compare([−10,−9]?, [0,0])` is `[−1,−1]` not flagged (FILLED),
    the kernel returns `0` for a NaN operand. -/
theorem compare_unsound :
    ∃ A B : IVal K, ∃ a b : FVal K, enclS A a ∧ enclS B b ∧ ¬ encl (icompare A B) (pcompare a b) ∧
      istate (icompare A B) = IState.filled := by
  have h1 : (-10 : K) ≤ -9 := by norm_num
  have h2 : (-9 : K) < 0 := by norm_num
  have h3 : ¬ ((0 : K) ≤ -1) := by norm_num
  have h4 : (-1 : K) < 0 := by norm_num
  refine ⟨⟨fin (-10), fin (-9), true⟩, ⟨fin 0, fin 0, false⟩, nan, fin 0, Or.inl ⟨rfl, rfl⟩,
    Or.inr ⟨by simp, by simp [IVal.b], by simp [IVal.b]⟩, ?_, ?_⟩
  · rintro (h | h)
    · simp [icompare, h2] at h
    · have := h.2.2
      simp [icompare, h2, pcompare, FVal.gt, IVal.b, negOneV, h3] at this
  · simp [icompare, h2, istate, FVal.gt, negOneV, zeroV, h4]

/-- `recip` has no zero-crossing rule: there is a reciprocal primitive meeting Boost's contract (for
    non-zero points) for which `recip([−1,0])` is `[−∞,0]`-sided and not flagged, while `1/(+0) = +∞`. -/
theorem recip_unsound :
    ∃ od : Bnd K → Bnd K, (∀ X a, inBb X a → a ≠ fin 0 → inBb (od X) (precip a)) ∧
      ∃ A : IVal K, ∃ a : FVal K, enclS A a ∧ ¬ encl (IVal.of (od A.b) A.mn) (precip a) := by
  refine ⟨fun X => if FVal.le X.hi zeroV = true then ⟨ninf, fin 0⟩ else wholeB, ?_, ?_⟩
  · intro X a h h0
    by_cases c : FVal.le X.hi zeroV = true
    · simp only [c, if_true]
      have ha0 : FVal.le a zeroV = true := fle_trans h.2.2 c
      refine ⟨precip_ne_nan h.1, ?_, ?_⟩
      · have := precip_ne_nan h.1
        cases hp : precip a <;> simp_all [FVal.le]
      · cases a with
        | nan => exact absurd rfl h.1
        | ninf => simp [precip, FVal.div]
        | pinf => exact absurd ha0 (by simp [zeroV, FVal.le])
        | fin x =>
          have hx : x ≤ 0 := by simpa [zeroV] using ha0
          have hx0 : x ≠ 0 := fun e => h0 (by rw [e])
          have hlt : x < 0 := lt_of_le_of_ne hx hx0
          simp [precip, FVal.div, hlt, not_lt.2 hx]
          exact le_of_lt (by simpa using one_div_neg.2 hlt)
    · simp only [c]; exact inBb_whole (precip_ne_nan h.1)
  · refine ⟨⟨fin (-1), fin 0, false⟩, fin 0, Or.inr ⟨by simp, by simp [IVal.b], by simp [IVal.b]⟩, ?_⟩
    rintro (h | h)
    · simp at h
    · have := h.2.2
      simp [IVal.b, IVal.of, zeroV, precip, FVal.div, FVal.le] at this

/-! ### The hypotheses are satisfiable (non-degenerate intervals, `K = ℚ`) -/

section examples

/-- a Boost model: every primitive returns the whole line (trivially meets every contract) -/
def wholeOps : BoostOps ℚ :=
  { add := fun _ _ => wholeB, sub := fun _ _ => wholeB, mul := fun _ _ => wholeB,
    div := fun _ _ => wholeB, min := fun _ _ => wholeB, max := fun _ _ => wholeB,
    hull := fun _ _ => wholeB, neg := fun _ => wholeB, abs := fun _ => wholeB,
    square := fun _ => wholeB, sqrt := fun _ => wholeB, sin := fun _ => wholeB,
    cos := fun _ => wholeB, tan := fun _ => wholeB, asin := fun _ => wholeB,
    acos := fun _ => wholeB, atan := fun _ => wholeB, exp := fun _ => wholeB,
    log := fun _ => wholeB, oneDiv := fun _ => wholeB, powi := fun _ _ => wholeB,
    nthRoot := fun _ _ => wholeB, mulNeg1 := fun _ => wholeB, mulInt := fun _ _ => wholeB,
    empty := ⟨nan, nan⟩, atanWhole := wholeB, atan2f := fun _ _ => fin 0, pi := fin 4,
    negPi := fin (-4),
    toInt := fun v => match v with | fin q => ⌊q⌋ | _ => 0,
    floorInt := fun v => match v with | fin q => ⌊q⌋ | _ => 0,
    nanOnZeroToNeg := false, powM1IsNan := fun _ => false }

/-- point functions: any will do (the lemmas never look inside them) -/
def exFns : PointFns ℚ :=
  { sqrt := id, sin := fun _ => 0, cos := fun _ => 1, tan := fun _ => 0, asin := id, acos := id,
    atan := fun _ => 0, exp := fun _ => 1, log := fun _ => 0, atan2 := fun _ _ => 0, halfPi := 2,
    powi := fun x k => x ^ k, root := fun x _ => x, floor := fun x => ⌊x⌋, ofInt := fun k => (k : ℚ),
    toInt? := fun y => if (⌊y⌋ : ℚ) = y then some ⌊y⌋ else none }

theorem pmin_ne_nan {a b : FVal ℚ} (ha : a ≠ nan) (hb : b ≠ nan) : pmin a b ≠ nan :=
  fun h => ha (pmin_eq_nan h)
theorem pmax_ne_nan {a b : FVal ℚ} (ha : a ≠ nan) (hb : b ≠ nan) : pmax a b ≠ nan :=
  fun h => ha (pmax_eq_nan h)

theorem wholeOps_sound : BoostSound wholeOps exFns where
  add := fun _ _ _ _ _ _ h => inBb_whole h
  sub := fun _ _ _ _ _ _ h => inBb_whole h
  mul := fun _ _ _ _ _ _ h => inBb_whole h
  div := fun _ _ _ _ _ _ _ h => inBb_whole h
  min := fun _ _ _ _ h1 h2 => inBb_whole (pmin_ne_nan h1.1 h2.1)
  max := fun _ _ _ _ h1 h2 => inBb_whole (pmax_ne_nan h1.1 h2.1)
  hull_l := fun _ _ _ h => inBb_whole h.1
  hull_r := fun _ _ _ h => inBb_whole h.1
  neg := fun _ _ h => inBb_whole (neg_ne_nan h.1)
  abs := fun _ _ h => inBb_whole (abs_ne_nan h.1)
  square := fun _ _ h => inBb_whole (mul_self_ne_nan h.1)
  sqrt := fun _ _ _ h => inBb_whole h
  sin := fun _ _ _ h => inBb_whole h
  cos := fun _ _ _ h => inBb_whole h
  tan := fun _ _ _ h => inBb_whole h
  asin := fun _ _ _ h => inBb_whole h
  acos := fun _ _ _ h => inBb_whole h
  atan := fun _ _ h => inBb_whole (patan_ne_nan h.1)
  atanWhole := fun _ h => inBb_whole (patan_ne_nan h)
  exp := fun _ _ h => inBb_whole (pexp_ne_nan h.1)
  log := fun _ _ _ _ h => inBb_whole h
  oneDiv := fun _ _ h _ => inBb_whole (precip_ne_nan h.1)
  powi := fun _ _ _ h _ _ => inBb_whole (ppowi_ne_nan h.1)
  nthRoot := fun _ _ _ _ _ _ _ h => inBb_whole h

theorem wholeOps_atan2 : Atan2Sound wholeOps exFns where
  eq := fun _ _ _ _ => rfl
  range := fun _ _ _ _ => ⟨by simp [wholeOps, exFns], by simp [wholeOps, exFns]⟩
  monoY_right := fun _ _ _ _ _ => le_refl _
  monoX_nonneg_right := fun _ _ _ _ _ _ => le_refl _
  monoX_nonpos_right := fun _ _ _ _ _ _ => le_refl _
  monoX_pos := fun _ _ _ _ _ => le_refl _
  monoX_neg := fun _ _ _ _ _ => le_refl _
  monoY_nonneg_pos := fun _ _ _ _ _ _ => le_refl _
  monoY_nonpos_pos := fun _ _ _ _ _ _ => le_refl _
  monoY_nonpos_neg := fun _ _ _ _ _ _ => le_refl _
  monoY_nonneg_neg := fun _ _ _ _ _ _ => le_refl _

theorem wholeOps_mod : ModSound wholeOps exFns where
  mulNeg1 := fun _ _ h => inBb_whole (neg_ne_nan h.1)
  mulInt := fun _ _ _ _ h => inBb_whole h
  floorInt := fun _ _ => rfl
  floor := fun _ => rfl
  ofInt := fun _ => rfl

/-- `x ∈ [1,2]`, `y ∈ [3,5]`, `z ∈ [−1,1]` maybe-NaN -/
def iA : IVal ℚ := ⟨fin 1, fin 2, false⟩
def iB : IVal ℚ := ⟨fin 3, fin 5, false⟩
def iZ : IVal ℚ := ⟨fin (-1), fin 1, true⟩
theorem hA : enclS iA (fin (3/2)) := Or.inr ⟨by simp, by simp [iA, IVal.b]; norm_num, by simp [iA, IVal.b]; norm_num⟩
theorem hB : enclS iB (fin 4) := Or.inr ⟨by simp, by simp [iB, IVal.b]; norm_num, by simp [iB, IVal.b]; norm_num⟩
theorem hZ : enclS iZ (nan : FVal ℚ) := Or.inl ⟨rfl, rfl⟩

-- one instance per opcode lemma (side conditions discharged on these intervals)
example : enclS (iop wholeOps Op.add iA iB) (FVal.add (fin (3/2)) (fin 4)) :=
  op_enclosure wholeOps_sound wholeOps_atan2 wholeOps_mod Op.add trivial hA hB (Or.inl rfl)
example : enclS (iop wholeOps Op.mul iA iZ) (FVal.mul (fin (3/2)) nan) :=
  op_enclosure wholeOps_sound wholeOps_atan2 wholeOps_mod Op.mul trivial hA hZ (Or.inl rfl)
example : enclS (iop wholeOps Op.sub iA iB) (FVal.sub (fin (3/2)) (fin 4)) :=
  op_enclosure wholeOps_sound wholeOps_atan2 wholeOps_mod Op.sub (by simp [SafeArgs, iA]) hA hB (Or.inl rfl)
example : enclS (iop wholeOps Op.div iA iB) (FVal.div (fin (3/2)) (fin 4)) :=
  op_enclosure wholeOps_sound wholeOps_atan2 wholeOps_mod Op.div trivial hA hB (Or.inl rfl)
example : enclS (iop wholeOps Op.min iA iZ) (pmin (fin (3/2)) nan) :=
  op_enclosure wholeOps_sound wholeOps_atan2 wholeOps_mod Op.min trivial hA hZ (Or.inl rfl)
example : enclS (iop wholeOps Op.max iZ iB) (pmax nan (fin 4)) :=
  op_enclosure wholeOps_sound wholeOps_atan2 wholeOps_mod Op.max trivial hZ hB (Or.inl rfl)
example : enclS (iop wholeOps Op.nanfill iZ iB) (pnanfill nan (fin 4)) :=
  op_enclosure wholeOps_sound wholeOps_atan2 wholeOps_mod Op.nanfill trivial hZ hB (Or.inl rfl)
example : enclS (iop wholeOps Op.atan2 iA iB) (patan2 exFns (fin (3/2)) (fin 4)) :=
  op_enclosure wholeOps_sound wholeOps_atan2 wholeOps_mod Op.atan2 trivial hA hB (Or.inl rfl)
example : enclS (iop wholeOps Op.compare iA iB) (pcompare (fin (3/2)) (fin 4)) :=
  op_enclosure wholeOps_sound wholeOps_atan2 wholeOps_mod Op.compare ⟨rfl, rfl⟩ hA hB (Or.inl rfl)
example : enclS (iop wholeOps Op.sin iA iA) (ptrig exFns.sin (fin (3/2))) :=
  op_enclosure wholeOps_sound wholeOps_atan2 wholeOps_mod Op.sin ⟨rfl, rfl⟩ hA hA (Or.inl rfl)
example : enclS (iop wholeOps Op.log iA iA) (plog exFns (fin (3/2))) :=
  op_enclosure wholeOps_sound wholeOps_atan2 wholeOps_mod Op.log (by simp [SafeArgs, iA, zeroV]) hA hA (Or.inl rfl)
example : enclS (iop wholeOps Op.recip iA iA) (precip (fin (3/2))) :=
  op_enclosure wholeOps_sound wholeOps_atan2 wholeOps_mod Op.recip
    (by simp [SafeArgs, Ivl.hasZero, iA, zeroV]) hA hA (Or.inl rfl)
example : enclS (iop wholeOps Op.sqrt iZ iZ) (psqrt exFns nan) :=
  op_enclosure wholeOps_sound wholeOps_atan2 wholeOps_mod Op.sqrt trivial hZ hZ (Or.inl rfl)

/-- exponent operand `[3,3]` -/
def iK : IVal ℚ := ⟨fin 3, fin 3, false⟩
theorem hK : enclS iK (fin 3) := Or.inr ⟨by simp, by simp [iK, IVal.b], by simp [iK, IVal.b]⟩
theorem k3 : exFns.toInt? (3 : ℚ) = some 3 := by
  have : (⌊(3 : ℚ)⌋ : Int) = 3 := by exact_mod_cast Int.floor_natCast (R := ℚ) 3
  simp [exFns, this]
theorem k3' : wholeOps.toInt (fin (3 : ℚ)) = 3 := by
  show (⌊(3 : ℚ)⌋ : Int) = 3
  exact_mod_cast Int.floor_natCast (R := ℚ) 3

example : enclS (iop wholeOps Op.pow iA iK) (pointOp exFns Op.pow (fin (3/2)) (fin 3)) :=
  op_enclosure wholeOps_sound wholeOps_atan2 wholeOps_mod Op.pow
    ⟨3, 3, rfl, k3, k3', by norm_num, by norm_num⟩ hA hK (Or.inl rfl)
example : enclS (iop wholeOps Op.nthRoot iA iK) (pointOp exFns Op.nthRoot (fin (3/2)) (fin 3)) :=
  op_enclosure wholeOps_sound wholeOps_atan2 wholeOps_mod Op.nthRoot
    ⟨3, 3, rfl, k3, k3', by norm_num, rfl, rfl, by simp [iA, zeroV, FVal.lt]⟩ hA hK (Or.inl rfl)

/-- `mod` with a divisor interval straddling zero (position 3) -/
def iS : IVal ℚ := ⟨fin (-1), fin 1, false⟩
theorem hS' : enclS iS (fin (1/2)) := Or.inr ⟨by simp, by simp [iS, IVal.b]; norm_num, by simp [iS, IVal.b]; norm_num⟩
example : enclS (iop wholeOps Op.mod iA iS) (pointOp exFns Op.mod (fin (3/2)) (fin (1/2))) :=
  op_enclosure wholeOps_sound wholeOps_atan2 wholeOps_mod Op.mod
    ⟨rfl, rfl, rfl, rfl, rfl, rfl, by simp [Ivl.hasZero, iS, zeroV, FVal.ge]⟩ hA hS' (Or.inl rfl)

/-- a two-clause tape `max(x + y, z)` with slots x=4 y=5 z=6 over the box, and `SafeTape` holds -/
def exTape : TapeM := { t := [⟨Op.max, 1, 2, 6⟩, ⟨Op.add, 2, 4, 5⟩], root := 1 }
def exI0 : Nat → IVal ℚ := fun s => if s = 4 then iA else if s = 5 then iB else iS
def exV0 : Nat → FVal ℚ := fun s => if s = 4 then fin (3/2) else if s = 5 then fin 4 else fin (1/2)
theorem exLeaf : ∀ s, enclS (exI0 s) (exV0 s) := by
  intro s
  unfold exI0 exV0
  by_cases h4 : s = 4
  · simp only [h4, if_true]; exact hA
  · by_cases h5 : s = 5
    · simp only [h5]; exact hB
    · simp only [h4, h5, if_false]; exact hS'

example : encl (ievalList wholeOps (fun _ => iS) exTape.t exI0 exTape.root)
    (evalList (pointOp exFns) (fun _ => fin (1/2)) exTape.t exV0 exTape.root) :=
  tape_enclosure wholeOps_sound wholeOps_atan2 wholeOps_mod (pointOp exFns) (fun _ _ _ => Or.inl rfl)
    (fun _ => iS) (fun _ => fin (1/2)) (fun _ => hS') exTape exI0 exV0 exLeaf
    (by intro c hc; simp [exTape] at hc; rcases hc with rfl | rfl <;> simp [soundOp])

end examples

end Libfive.C02
