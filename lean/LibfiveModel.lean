import LibfiveModel.Op
import LibfiveModel.Tape
import LibfiveModel.F32
