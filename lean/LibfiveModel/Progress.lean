/-
  Model of libfive's progress accounting (C20):
    * `WorkerPool::build` / `run`   (libfive/src/render/brep/worker_pool.inl)  — build phase
    * `Dual::walk_` / `run`         (libfive/include/libfive/render/brep/dual.hpp) — walk phase
    * `Root::reset`, `ObjectPool::reset` (root.hpp, object_pool.inl)           — pool-reset phase
    * `ProgressHandler`             (libfive/src/render/brep/progress.cpp)     — fraction, start/finish

  Core Lean only (the driver `vd-c20` links this file).  `N` is the dimension (2 or 3): every
  branch has `2^N` children.
-/

namespace Libfive.Progress

/-! ## Build phase -/

/-- The loop both `WorkerPool::build` (announced total) and `WorkerPool::run` (credit for a cell
    that is not subdivided) execute:
    `ticks = 0; for (i = 0; i < level; ++i) ticks = (ticks + 1) * (1 << N);` -/
def loopTicks (N : Nat) : Nat → Nat
  | 0 => 0
  | l + 1 => (loopTicks N l + 1) * 2 ^ N

/-- what `build` passes to `nextPhase` / what `run` passes to `tick` for an unsubdivided cell:
    `ticks + 1` -/
def announced (N l : Nat) : Nat := loopTicks N l + 1

/-- What the worker pool did with a cell (the *build-time* shape, before `collectChildren`
    merges anything):
    * `leaf`     — `region.level == 0`: `evalLeaf`, then `tick(1)`
    * `terminal` — `region.level > 0` and the interval result is EMPTY / FILLED: `tick(ticks+1)`
    * `branch`   — AMBIGUOUS: the children are pushed as tasks; when the last of them has
                   arrived, `collectChildren` returns true exactly once (C11 `last_arriver`)
                   and the collector calls `tick()`.  Whether the branch is afterwards collapsed
                   into a leaf or kept does not matter for the accounting. -/
inductive Shape where
  | leaf
  | terminal
  | branch (cs : List Shape)
deriving Repr, Inhabited

mutual
/-- ticks credited to the build phase by the sub-tree rooted at a cell of level `l` -/
def ticks (N : Nat) : Nat → Shape → Nat
  | _, .leaf => 1
  | l, .terminal => announced N l
  | l, .branch cs => 1 + ticksList N (l - 1) cs
def ticksList (N : Nat) : Nat → List Shape → Nat
  | _, [] => 0
  | l, c :: cs => ticks N l c + ticksList N l cs
end

mutual
/-- well-formedness of a build-time shape for a cell of level `l` -/
def wf (N : Nat) : Nat → Shape → Bool
  | l, .leaf => l == 0
  | l, .terminal => decide (0 < l)
  | l, .branch cs => decide (0 < l) && cs.length == 2 ^ N && wfList N (l - 1) cs
def wfList (N : Nat) : Nat → List Shape → Bool
  | _, [] => true
  | l, c :: cs => wf N l c && wfList N l cs
end

mutual
/-- number of cells that were evaluated -/
def cells : Shape → Nat
  | .leaf => 1
  | .terminal => 1
  | .branch cs => 1 + cellsList cs
def cellsList : List Shape → Nat
  | [] => 0
  | c :: cs => cells c + cellsList cs
end

/-- The build phase as the sequence of `tick(i)` calls of one schedule; ticks are atomic
    `counter += i`, so the final counter is the sum whatever the order. -/
def counterAfter (events : List Nat) : Nat := events.foldl (· + ·) 0

/-! ## Walk phase -/

/-- The tree the dual walk sees (after merging): `cell` = non-branch, non-singleton;
    `singleton` = the shared EMPTY / FILLED object (`DCTree::singletonEmpty()` …). -/
inductive Final where
  | cell
  | singleton
  | branch (cs : List Final)
deriving Repr, Inhabited

def Final.isSingleton : Final → Bool
  | .singleton => true
  | _ => false

mutual
/-- live pool objects + root = what `ObjectPool::size()` sums to, plus the root (`new T`) -/
def liveCells : Final → Nat
  | .cell => 1
  | .singleton => 0
  | .branch cs => 1 + liveCellsList cs
def liveCellsList : List Final → Nat
  | [] => 0
  | c :: cs => liveCells c + liveCellsList cs
end

/-- `Dual::walk_` announces `t.size() + 1`; `size()` is the number of live pool objects, i.e.
    every non-singleton cell except the root (which is allocated with `new`). -/
def walkAnnounced (root : Final) : Nat := (liveCells root - 1) + 1

/-- number of non-singleton children = number of `pending--` arrivals at a branch in the walk -/
def arrivals (cs : List Final) : Nat := (cs.filter (fun c => !c.isSingleton)).length

/-- `resetPending`: `pending = 2^N - 1`, minus one per singleton child.  (Unsigned wrap-around
    is modelled by truncated subtraction; `Walkable` excludes the wrapping case.) -/
def pendingInit (N : Nat) (cs : List Final) : Nat := 2 ^ N - 1 - (cs.length - arrivals cs)

mutual
/-- ticks of the walk phase: every popped non-branch non-singleton cell ticks once; a branch is
    ticked by the thread that observes `pending-- == 0`, which happens iff at least one
    non-singleton child arrives. -/
def walkTicks : Final → Nat
  | .cell => 1
  | .singleton => 0
  | .branch cs => walkTicksList cs + (if arrivals cs = 0 then 0 else 1)
def walkTicksList : List Final → Nat
  | [] => 0
  | c :: cs => walkTicks c + walkTicksList cs
end

mutual
/-- every branch has `2^N` children, at least one of which is not a singleton -/
def walkable (N : Nat) : Final → Bool
  | .cell => true
  | .singleton => true
  | .branch cs => cs.length == 2 ^ N && decide (0 < arrivals cs) && walkableList N cs
def walkableList (N : Nat) : List Final → Bool
  | [] => true
  | c :: cs => walkable N c && walkableList N cs
end

/-! ## Pool-reset phase -/

/-- One `ObjectPool<T, …>` level: number of fully used blocks and of partially used blocks. -/
structure PoolBlocks where
  allocated : Nat
  fresh : Nat
deriving Repr, DecidableEq, Inhabited

def PoolBlocks.blocks (p : PoolBlocks) : Nat := p.allocated + p.fresh

/-- `num_blocks()` of the whole chain = what `Root::reset` announces -/
def numBlocks : List PoolBlocks → Nat
  | [] => 0
  | p :: ps => p.blocks + numBlocks ps

/-- the clamp at the top of `ObjectPool::reset` -/
def clamp (workers : Nat) (p : PoolBlocks) : Nat :=
  let needed := max p.allocated p.fresh
  if needed < workers then needed else workers

/-- indices visited by thread `i`'s loop `for (j = i; j < n; j += workers)` -/
def strided (workers i n : Nat) : List Nat := (List.range n).filter (fun j => j % workers == i)

/-- ticks of one pool level with `workers` (already clamped) threads -/
def poolTicks (workers : Nat) (p : PoolBlocks) : Nat :=
  ((List.range workers).map fun i =>
    (strided workers i p.allocated).length + (strided workers i p.fresh).length).sum

/-- `ObjectPool::reset(workers, handler)` (after the fix a65b5bf): clamp a local copy, tick per
    deleted block, then `next().reset(workers_for_next, handler)` with the caller's value. -/
def resetTicks : Nat → List PoolBlocks → Nat
  | _, [] => 0
  | w, p :: ps => poolTicks (clamp w p) p + resetTicks w ps

/-- the formula BEFORE the fix: the clamped value (0 for an empty level) was passed down -/
def resetTicksOld : Nat → List PoolBlocks → Nat
  | _, [] => 0
  | w, p :: ps => poolTicks (clamp w p) p + resetTicksOld (clamp w p) ps

/-- no empty pool level precedes a non-empty one (the condition under which the OLD formula was complete) -/
def resetGood : List PoolBlocks → Bool
  | [] => true
  | p :: ps => if p.blocks = 0 then numBlocks ps == 0 else resetGood ps

/-! ## ProgressHandler: the reported fraction -/

structure Phase where
  weight : Nat
  total : Nat
  counter : Nat
deriving Repr, DecidableEq, Inhabited

section fraction
variable {K : Type} [Add K] [Mul K] [Div K] [OfNat K 0] [NatCast K]

/-- `if (itr->total) accum += itr->weight * itr->counter.load() / (float)itr->total;`
    (the product is computed in `uint64_t`, then converted) -/
def contrib (p : Phase) : K :=
  if p.total = 0 then 0 else ((p.weight * p.counter : Nat) : K) / (p.total : K)

/-- sum over `phases.begin() … current_phase` inclusive (`cur` = index of the current phase) -/
def accum (ps : Nat → Phase) : Nat → K
  | 0 => contrib (ps 0)
  | n + 1 => accum ps n + contrib (ps (n + 1))

def totalWeight (ps : Nat → Phase) : Nat → Nat
  | 0 => 0
  | n + 1 => totalWeight ps n + (ps n).weight

/-- `next = total_weight ? accum / total_weight : 0` for a handler started with `n` phases -/
def fraction (ps : Nat → Phase) (n cur : Nat) : K :=
  if totalWeight ps n = 0 then 0 else accum ps cur / ((totalWeight ps n : Nat) : K)
end fraction

/-! ## ProgressHandler: start / nextPhase / finish / destructor state machine -/

/-- who holds `timed_mut` -/
inductive Owner | ctor | runner | nobody
deriving Repr, DecidableEq, Inhabited

inductive Thread | notStarted | running | exited
deriving Repr, DecidableEq, Inhabited

structure Handler where
  futureValid : Bool := false   -- `future.valid()`
  thread : Thread := .notStarted
  done : Bool := false
  timed : Owner := .ctor        -- locked in the constructor
  /-- number of `timed_mut.unlock()` calls made while the caller did not own the mutex -/
  foreignUnlocks : Nat := 0
  /-- number of threads joined by `future.wait()` (0 or 1) -/
  joined : Bool := false
deriving Repr, DecidableEq, Inhabited

/-- first `nextPhase`: `future = std::async(run)`; later ones only move `current_phase` -/
def Handler.nextPhase (h : Handler) : Handler :=
  if h.futureValid then h else { h with futureValid := true, thread := .running }

/-- one iteration of the loop in `run()`: `while (!done) { try_lock_for(50ms); … }`.
    `acquired` says whether `try_lock_for` obtained the mutex (possible only if nobody holds it). -/
def Handler.runnerStep (h : Handler) (acquired : Bool) : Handler :=
  match h.thread with
  | .running =>
    if h.done then { h with thread := .exited }
    else if acquired && h.timed == .nobody then { h with timed := .runner } else h
  | _ => h

/-- the part of `finish()` before `future.wait()` -/
def Handler.finishSignal (h : Handler) : Handler :=
  if h.futureValid then
    { h with done := true, timed := .nobody,
             foreignUnlocks := h.foreignUnlocks + (if h.timed == .ctor then 0 else 1) }
  else h

/-- `future.wait()` can return only when the thread has exited -/
def Handler.canReturn (h : Handler) : Bool := !h.futureValid || h.thread == .exited

/-- `finish()` as a whole, given that the runner gets to run: signal, let the runner take
    iterations until it exits (at most one more after `done` is set), then join -/
def Handler.finish (h : Handler) : Handler :=
  let s := h.finishSignal
  if s.futureValid then { (s.runnerStep true) with joined := true } else s

/-- observable part of the state: everything except the bookkeeping of foreign unlocks -/
def Handler.observable (h : Handler) : Bool × Thread × Bool × Bool :=
  (h.futureValid, h.thread, h.done, h.joined)

end Libfive.Progress
