/-
  Executable model of 3D dual contouring on a UNIFORM n1 × n2 × n3 grid of level-0 DC leaf cells
  (all leaves at the same level, nothing merged): which triangles `Dual<3>::walk<DCMesher>` pushes
  into `branes`.  Core Lean only.

  Mirrors (file:line in /repo/libfive):
  * `DCTree<3>::evalLeaf`, src/render/brep/dc/dc_tree.inl:262-274 and `buildCornerMask`
    (dc_tree.inl:567-578): `corner_mask |= (corners[i] == FILLED) << i`; corner `i` of a cell is
    the lattice point offset by `i & X`, `i & Y`, `i & Z` (numbering of marching.cpp:99-113,
    `Axis::X = 1, Y = 2, Z = 4`); one vertex per patch of `MarchingTable<3>::v(corner_mask)`
    (`vertex_count`, dc_tree.inl:272-274, 549).  `cornerState(i)` (dc_tree.inl:840-847) is
    `corner_mask & (1 << i)` for an AMBIGUOUS leaf.
  * `Dual<3>::work`, `call_edge3`, `call_face3`, `face3`, `edge3`
    (include/libfive/render/brep/dual.hpp:127-204): on a complete octree `load<A>(ts)` is called
    once for every INTERIOR lattice edge along `A` (an edge shared by four cells; `DCMesher` has
    `needsTopEdges() == false`, so `handleTopEdges`, dual.hpp:292-298, is not run), with
    `ts[i]` the cell at `Q` offset `i & 1` and `R` offset `i >> 1` of the edge
    (dual.hpp:172-175, 136-137, 159-163), `(A, Q, R)` right-handed (axes.hpp:18-29).
    The model indexes such a call by the axis `A` and the cell `c = ts[0]`.
  * `DCMesher::load<A>` (src/render/brep/dc/dc_mesher.cpp:22-77): return unless all four cells
    are AMBIGUOUS (l.27-31); `index` = first cell of minimal level = 0 here (l.56-58);
    `a = ts[0]->cornerState(Q|R)`, `b = ts[0]->cornerState(Q|R|A)` (l.63-68); if they differ,
    `load<A, D>` with `D = (a == FILLED)` (l.69-76).
  * `DCMesher::load<A, D>` (dc_mesher.cpp:79-188): the cell edge of `ts[i]` is
    `ev[i] = {q|r, q|r|A}, {r, r|A}, {q, q|A}, {0, A}` (l.86-90), its id
    `es[i] = e(D ? first : second)[D ? second : first]` (inside end first, l.93-94); the vertex
    of `ts[i]` is patch `vi = p(corner_mask)[es[i]]` (level 0, l.107-109), its index
    `leaf->index[vi]`, allocated on first use by `pushVertex` (l.115-118) — one index per
    (cell, patch), modelled by the injective numbering `vid`.  Then `if (!D) swap(vs[1], vs[2])`
    and one of the two triangulations, degenerate triangles dropped (l.135-187): this is
    `Libfive.Marching.dcQuad`; which triangulation is taken depends on vertex POSITIONS
    (l.170) and is an arbitrary oracle `alt` of the model.
  The tables are `Generated.MeshTables.marchE3 / marchP3`, dumped from the running library.
-/
import LibfiveModel.Marching

namespace Libfive.DCGrid
open Libfive.Marching Generated.MeshTables

/-- a lattice point / a cell (by the lattice point of its corner 0) -/
abbrev Pt := Nat × Nat × Nat

/-- `Axis::X = 1, Axis::Y = 2, Axis::Z = 4` for `A = 0, 1, 2` -/
def axBit : Nat → Nat
  | 0 => 1
  | 1 => 2
  | _ => 4

/-- `Axis::Q(A)`: `Q(X) = Y, Q(Y) = Z, Q(Z) = X` (axes.hpp:18-23) -/
def axQ : Nat → Nat
  | 0 => 1
  | 1 => 2
  | _ => 0

/-- `Axis::R(A)`: `R(X) = Z, R(Y) = X, R(Z) = Y` (axes.hpp:24-29) -/
def axR : Nat → Nat
  | 0 => 2
  | 1 => 0
  | _ => 1

/-- one lattice step along axis `A` -/
def unit : Nat → Pt
  | 0 => (1, 0, 0)
  | 1 => (0, 1, 0)
  | _ => (0, 0, 1)

def addPt (o p : Pt) : Pt := (o.1 + p.1, o.2.1 + p.2.1, o.2.2 + p.2.2)

/-- lattice position of corner `k` (0..7) of cell `c` -/
def corner (c : Pt) (k : Nat) : Pt := (c.1 + k % 2, c.2.1 + k / 2 % 2, c.2.2 + k / 4 % 2)

/-- `buildCornerMask` from the eight corner states (true = FILLED) -/
def mask8 (b0 b1 b2 b3 b4 b5 b6 b7 : Bool) : Nat :=
  b0.toNat + 2 * b1.toNat + 4 * b2.toNat + 8 * b3.toNat + 16 * b4.toNat + 32 * b5.toNat +
  64 * b6.toNat + 128 * b7.toNat

/-- `leaf->corner_mask` of cell `c` for corner states `s p = (lattice point p is FILLED)` -/
def cellMask (s : Pt → Bool) (c : Pt) : Nat :=
  mask8 (s (corner c 0)) (s (corner c 1)) (s (corner c 2)) (s (corner c 3))
    (s (corner c 4)) (s (corner c 5)) (s (corner c 6)) (s (corner c 7))

/-- `cornerState(i) == FILLED` of an AMBIGUOUS leaf: `corner_mask & (1 << i)` -/
def cornerState (m i : Nat) : Bool := (m &&& (1 <<< i)) != 0

/-- `type == Interval::AMBIGUOUS` for a leaf whose corners were evaluated: neither all empty
    (mask 0) nor all full (mask 2^8 - 1) -/
def ambiguous (m : Nat) : Bool := m != 0 && m != 255

/-- `MarchingTable<3>::e(a)[b]` -/
def eId (a b : Nat) : Int := (marchE3.getD a []).getD b (-1)

/-- `MarchingTable<3>::p(mask)[edge]` -/
def pId (m : Nat) (e : Int) : Int := (marchP3.getD m []).getD e.toNat (-1)

/-- the patch of a cell with mask `m` that owns the cell edge between corners `lo` and `hi`, looked
    up with the inside end first: `p(mask)[e(D ? lo : hi)[D ? hi : lo]]` (dc_mesher.cpp:93-94, 109) -/
def ownPatch (m lo hi : Nat) (d : Bool) : Nat :=
  (pId m (if d then eId lo hi else eId hi lo)).toNat

/-- `ev[i]` of `load<A, D>` (dc_mesher.cpp:86-90): the corners of `ts[i]` at the two ends of the
    shared edge -/
def ev (A i : Nat) : Nat × Nat :=
  let q := axBit (axQ A)
  let r := axBit (axR A)
  let a := axBit A
  match i with
  | 0 => (q ||| r, q ||| r ||| a)
  | 1 => (r, r ||| a)
  | 2 => (q, q ||| a)
  | _ => (0, a)

/-- `load<A>` + the vertex lookup of `load<A, D>` on the four corner masks: `none` if nothing is
    pushed, else `D` and the patch indices `vi` of `ts[0..3]` -/
def load (A m0 m1 m2 m3 : Nat) : Option (Bool × Nat × Nat × Nat × Nat) :=
  if ambiguous m0 && ambiguous m1 && ambiguous m2 && ambiguous m3 then
    let a := cornerState m0 (ev A 0).1
    let b := cornerState m0 (ev A 0).2
    if a != b then
      some (a, ownPatch m0 (ev A 0).1 (ev A 0).2 a, ownPatch m1 (ev A 1).1 (ev A 1).2 a,
        ownPatch m2 (ev A 2).1 (ev A 2).2 a, ownPatch m3 (ev A 3).1 (ev A 3).2 a)
    else none
  else none

/-- the cell `ts[i]` of the call whose `ts[0]` is `c`: `Q` offset `i & 1`, `R` offset `i >> 1` -/
def tsCell (A : Nat) (c : Pt) : Nat → Pt
  | 0 => c
  | 1 => addPt c (unit (axQ A))
  | 2 => addPt c (unit (axR A))
  | _ => addPt (addPt c (unit (axQ A))) (unit (axR A))

/-- a mesh vertex: (cell, index of the patch in that cell) -/
abbrev Vtx := Pt × Nat

/-- injective numbering of the (cell, patch) pairs of an `n1 × n2 × _` grid (at most 4 patches) -/
def vid (n1 n2 : Nat) (v : Vtx) : Vid := 4 * (v.1.1 + n1 * (v.1.2.1 + n2 * v.1.2.2)) + v.2

def inGrid (n1 n2 n3 : Nat) (c : Pt) : Bool :=
  decide (c.1 < n1) && decide (c.2.1 < n2) && decide (c.2.2 < n3)

/-- the triangles pushed by the call `load<A>(ts)` with `ts[0] = c` -/
def emit (n1 n2 : Nat) (s : Pt → Bool) (alt : Nat → Pt → Bool) (A : Nat) (c : Pt) : List (Tri Vid) :=
  match load A (cellMask s (tsCell A c 0)) (cellMask s (tsCell A c 1)) (cellMask s (tsCell A c 2))
      (cellMask s (tsCell A c 3)) with
  | none => []
  | some (d, p0, p1, p2, p3) =>
    dcQuad (vid n1 n2 (tsCell A c 0, p0)) (vid n1 n2 (tsCell A c 1, p1))
      (vid n1 n2 (tsCell A c 2, p2)) (vid n1 n2 (tsCell A c 3, p3)) d (alt A c)

/-- the cells `(i, j, k)`, `i < n1`, `j < n2`, `k < n3` -/
def cells (n1 n2 n3 : Nat) : List Pt :=
  (List.range n1).flatMap fun i => (List.range n2).flatMap fun j => (List.range n3).map fun k => (i, j, k)

/-- the calls of the dual walk: for every axis, every interior lattice edge along it, given by
    its cell `ts[0]` (all four cells `ts[0..3]` are cells of the grid iff `ts[3]` is) -/
def calls (n1 n2 n3 : Nat) : List (Nat × Pt) :=
  [0, 1, 2].flatMap fun A =>
    ((cells n1 n2 n3).filter fun c => inGrid n1 n2 n3 (tsCell A c 3)).map fun c => (A, c)

/-- **the triangle list of the DC mesher on the uniform grid** -/
def gridTris (n1 n2 n3 : Nat) (s : Pt → Bool) (alt : Nat → Pt → Bool) : List (Tri Vid) :=
  (calls n1 n2 n3).flatMap fun x => emit n1 n2 s alt x.1 x.2

/-- every lattice point on the outer boundary of the grid has the same corner state
    (the solid is strictly inside the meshed region, or the region strictly inside the solid) -/
def BoundaryUniform (n1 n2 n3 : Nat) (s : Pt → Bool) : Prop :=
  ∃ b : Bool, ∀ p : Pt, p.1 ≤ n1 → p.2.1 ≤ n2 → p.2.2 ≤ n3 →
    (p.1 = 0 ∨ p.1 = n1 ∨ p.2.1 = 0 ∨ p.2.1 = n2 ∨ p.2.2 = 0 ∨ p.2.2 = n3) → s p = b

/-- the vertices that exist: `vertex_count` = number of patches of the cell's mask
    (dc_tree.inl:272-274: patches are read until the first one whose first edge is -1) -/
def vertexCount (m : Nat) : Nat :=
  ((marchV3.getD m []).takeWhile fun p => match p with
    | (a, _) :: _ => a != -1
    | [] => false).length

/-! ### the recursive dual walk on the complete octree of depth `d` (2^d × 2^d × 2^d leaves)

  A subtree is identified with (depth below it, cell coordinates of its lowest leaf); `child(k)`
  of a branch of depth `d+1` at `o` is the subtree of depth `d` at `o + 2^d · (k&1, k>>1&1, k>>2&1)`.
  The walk records every `load<A>(ts)` with all four cells; `callTuple` is the form in which the
  closed-form enumeration `calls` lists the same call.  (For depth 1 and 2 the two are checked
  to be permutations of each other in LibfiveTheorems/C03DC.lean; the general statement is the
  3D analogue of `dual_walk_calls` of C10 and is not proved here.) -/

/-- origin of `child(k)` of a branch of depth `d + 1` at `o` -/
def childAt (d : Nat) (o : Pt) (k : Nat) : Pt :=
  (o.1 + 2 ^ d * (k % 2), o.2.1 + 2 ^ d * (k / 2 % 2), o.2.2 + 2 ^ d * (k / 4 % 2))

/-- one recorded call: axis and `ts[0..3]` -/
abbrev Call4 := Nat × Pt × Pt × Pt × Pt

/-- `edge3<A>(ts)` (dual.hpp:127-143) on four complete subtrees of depth `d` -/
def edge3W (A : Nat) : Nat → Pt → Pt → Pt → Pt → List Call4
  | 0, t0, t1, t2, t3 => [(A, t0, t1, t2, t3)]
  | d + 1, t0, t1, t2, t3 =>
    let q := axBit (axQ A)
    let r := axBit (axR A)
    let a := axBit A
    edge3W A d (childAt d t0 (q ||| r)) (childAt d t1 r) (childAt d t2 q) (childAt d t3 0) ++
    edge3W A d (childAt d t0 (q ||| r ||| a)) (childAt d t1 (r ||| a)) (childAt d t2 (q ||| a))
      (childAt d t3 a)

/-- `face3<A>(ts)` (dual.hpp:145-165) on two complete subtrees of depth `d` -/
def face3W (A : Nat) : Nat → Pt → Pt → List Call4
  | 0, _, _ => []
  | d + 1, t0, t1 =>
    let q := axBit (axQ A)
    let r := axBit (axR A)
    let a := axBit A
    ([0, q, r, q ||| r].flatMap fun k => face3W A d (childAt d t0 (k ||| a)) (childAt d t1 k)) ++
    edge3W (axQ A) d (childAt d t0 a) (childAt d t0 (r ||| a)) (childAt d t1 0) (childAt d t1 r) ++
    edge3W (axQ A) d (childAt d t0 (q ||| a)) (childAt d t0 (q ||| r ||| a)) (childAt d t1 q)
      (childAt d t1 (q ||| r)) ++
    edge3W (axR A) d (childAt d t0 a) (childAt d t1 0) (childAt d t0 (a ||| q)) (childAt d t1 q) ++
    edge3W (axR A) d (childAt d t0 (r ||| a)) (childAt d t1 r) (childAt d t0 (r ||| a ||| q))
      (childAt d t1 (r ||| q))

/-- `Dual<3>::work(t)` (dual.hpp:191-204) for a branch of depth `d + 1` at `o`:
    `call_face3` (l.179-189) and `call_edge3` (l.167-177) for the three axes -/
def workW (d : Nat) (o : Pt) : List Call4 :=
  ([0, 1, 2].flatMap fun A =>
    let q := axBit (axQ A)
    let r := axBit (axR A)
    let a := axBit A
    face3W A d (childAt d o 0) (childAt d o a) ++
    face3W A d (childAt d o q) (childAt d o (q ||| a)) ++
    face3W A d (childAt d o r) (childAt d o (r ||| a)) ++
    face3W A d (childAt d o (q ||| r)) (childAt d o (q ||| r ||| a))) ++
  ([0, 1, 2].flatMap fun A =>
    let q := axBit (axQ A)
    let r := axBit (axR A)
    [0, axBit A].flatMap fun a =>
      edge3W A d (childAt d o a) (childAt d o (q ||| a)) (childAt d o (r ||| a))
        (childAt d o (q ||| r ||| a)))

/-- all `work(t)` calls for the branches of the complete octree of depth `d` at `o`, children first
    (the order `Dual<3>::run` guarantees, dual.hpp:376-380) -/
def dualW : Nat → Pt → List Call4
  | 0, _ => []
  | d + 1, o => ((List.range 8).flatMap fun k => dualW d (childAt d o k)) ++ workW d o

/-- a call of `calls` with its four cells spelled out -/
def callTuple (x : Nat × Pt) : Call4 :=
  (x.1, tsCell x.1 x.2 0, tsCell x.1 x.2 1, tsCell x.1 x.2 2, tsCell x.1 x.2 3)

/-! ### executable checks (used by the `example`s and for experiments) -/

/-- Boolean form of `BoundaryUniform` with the common state `b` given
    (sound: `boundaryUniform_of_B` in LibfiveProofs/DCGrid.lean) -/
def boundaryB (n1 n2 n3 : Nat) (s : Pt → Bool) (b : Bool) : Bool :=
  (List.range (n1 + 1)).all fun x => (List.range (n2 + 1)).all fun y => (List.range (n3 + 1)).all fun z =>
    !(x == 0 || x == n1 || y == 0 || y == n2 || z == 0 || z == n3) || s (x, y, z) == b

/-- every directed edge of the triangle list occurs as often as its reverse -/
def closedB (l : List (Tri Vid)) : Bool :=
  let E := dirEdges l
  E.all fun e => E.count e == E.count (rev e)

end Libfive.DCGrid
