/-
  A model of IEEE-754 binary32 (`float`) arithmetic, round-to-nearest-even, for the operations that
  `Solver::findRoot` (libfive/src/solve/solver.cpp) performs on `float`.  Core Lean only.

  WHAT IS MODELLED
  * The value set: NaN (one NaN: payloads and signalling are not distinguished), ±∞, and the finite
    values `±m·2^e` in canonical form: `m < 2^24`, `-149 ≤ e ≤ 104`, and (`2^23 ≤ m` or `e = -149`);
    `m = 0, e = -149` are the two signed zeros, `e = -149, 0 < m < 2^23` the subnormals,
    `(2^24-1)·2^104` is `FLT_MAX`.  `B32` is the subtype of canonical data, so every `∀ x : B32` ranges
    over exactly the values of the format (all NaNs identified).
  * Every arithmetic operation is "compute the exact result as an (unnormalised) fraction of
    integers, then round once" (`Q`, `round`): `sub`, `mul`, `add`, `div`, the unfused
    `v - round(s*d)` and the fused `round(v - s*d)` (GCC contracts `v - step*d` into `vfnmadd` under
    -march=native).  `round` is round-to-nearest, ties to even, gradual underflow (subnormals, no
    flush-to-zero), overflow to ±∞; a non-zero exact result that rounds to zero keeps its sign; the
    sign of an exactly-zero sum is `+0` unless both addends are negative (IEEE 754 §6.3).
    The special cases (`∞ - ∞`, `0·∞`, `0/0`, `∞/∞` = NaN, `x/0 = ±∞`, `x/∞ = ±0`) follow IEEE 754.
  * `half` (`step /= 2`) is written directly: exponent decrement for `e > -149`, else round-to-nearest-
    even of `m/2` on the subnormal grid (so `2^-149 / 2 = +0`, `3·2^-149 / 2 = 2·2^-149`); that this
    equals the generic correctly rounded `div x 2.0f` for EVERY value is proved
    (`LibfiveProofs/B32Laws.lean`: `half_eq_div_two`).
  * comparisons are IEEE (`false` on NaN, `-0 = +0`); `geHalf q s` is `q >= s*0.5` evaluated exactly
    (the C++ evaluates it in `double`, where both sides are exact); `eps` is the binary32 nearest
    to 1e-6 (`8796093·2^-43 = 0x358637BD`).

  WHAT IS NOT MODELLED
  * rounding modes other than to-nearest-even, exception flags, NaN payloads / sign of NaN;
  * `powf(x, 2.0f)` is modelled as the correctly rounded `x*x` and the accumulation `d + powf(..)`
    as unfused (`sqAdd`); no theorem of C17 depends on `sqAdd` (they hold for every value it returns);
  * the evaluator (`Problem.value` / `Problem.grad`) stays abstract: arbitrary functions into `B32`.
-/
import LibfiveModel.Solver

namespace Libfive.B32

/-- a binary32 datum before the canonical-form invariant -/
inductive Raw where
  | nan
  | inf (neg : Bool)
  | fin (neg : Bool) (m : Nat) (e : Int)
  deriving DecidableEq, Repr, Inhabited

namespace Raw

/-- canonical form of the finite values: `m < 2^24`, `-149 ≤ e ≤ 104`, normal or on the subnormal grid -/
def wf : Raw → Bool
  | fin _ m e => decide (m < 16777216) && decide (-149 ≤ e) && decide (e ≤ 104) &&
      (decide (8388608 ≤ m) || decide (e = -149))
  | _ => true

end Raw

/-- The binary32 values: canonical data. -/
def _root_.Libfive.B32 : Type := { r : Raw // r.wf = true }

instance : DecidableEq B32 := inferInstanceAs (DecidableEq { r : Raw // r.wf = true })
instance : Repr B32 := ⟨fun x n => reprPrec x.val n⟩

/-- Canonical data pass; anything else becomes NaN.  `round` only produces canonical data
    (`LibfiveProofs/B32Laws.lean`: `roundPos_wf`), so the NaN branch is never taken by the operations
    below. -/
def ofRaw (r : Raw) : B32 := if h : r.wf = true then ⟨r, h⟩ else ⟨.nan, rfl⟩

def nan : B32 := ⟨.nan, rfl⟩
def posInf : B32 := ⟨.inf false, rfl⟩
def negInf : B32 := ⟨.inf true, rfl⟩
def posZero : B32 := ⟨.fin false 0 (-149), rfl⟩
def negZero : B32 := ⟨.fin true 0 (-149), rfl⟩
/-- `FLT_MAX = (2^24 - 1)·2^104` -/
def fltMax : B32 := ⟨.fin false 16777215 104, rfl⟩
/-- `FLT_MIN = 2^-126`, the smallest normal -/
def fltMin : B32 := ⟨.fin false 8388608 (-149), rfl⟩
/-- `2^-149`, the smallest subnormal -/
def minSub : B32 := ⟨.fin false 1 (-149), rfl⟩
def one : B32 := ⟨.fin false 8388608 (-23), rfl⟩
def two : B32 := ⟨.fin false 8388608 (-22), rfl⟩
/-- `EPSILON = 1e-6f = 0x358637BD = 8796093·2^-43` -/
def eps : B32 := ⟨.fin false 8796093 (-43), rfl⟩

/-! ### exact values: unnormalised fractions of integers -/

/-- the rational `num/den` (`den > 0` for every value built below) -/
structure Q where
  num : Int
  den : Nat
  deriving DecidableEq, Repr

namespace Q
def sub (a b : Q) : Q := ⟨a.num * b.den - b.num * a.den, a.den * b.den⟩
def mul (a b : Q) : Q := ⟨a.num * b.num, a.den * b.den⟩
/-- `a / b` for `b ≠ 0` -/
def div (a b : Q) : Q := ⟨a.num * b.den * b.num.sign, a.den * b.num.natAbs⟩
end Q

/-- the exact value `±m·2^e` as a fraction: `±m·2^e / 1` for `e ≥ 0`, `±m / 2^-e` for `e < 0` -/
def toQ (neg : Bool) (m : Nat) (e : Int) : Q :=
  ⟨(if neg then -1 else 1) * ((m * 2 ^ e.toNat : Nat) : Int), 2 ^ (-e).toNat⟩

/-! ### rounding -/

/-- round-to-nearest, ties to even, of the fraction `n/d` (`d > 0`) to an integer -/
def rne (n d : Nat) : Nat :=
  let q := n / d
  let r := n % d
  if 2 * r < d then q else if d < 2 * r then q + 1 else if q % 2 = 0 then q else q + 1

/-- `⌊log2 (n/d)⌋` for `n, d > 0`: the difference of the bit lengths, corrected by one comparison -/
def flog2 (n d : Nat) : Int :=
  let e0 : Int := (n.log2 : Int) - (d.log2 : Int)
  if d * 2 ^ e0.toNat ≤ n * 2 ^ (-e0).toNat then e0 else e0 - 1

/-- the binary32 nearest (ties to even) to the positive rational `n/d`, with sign `s`:
    the exponent of the result grid is `max (⌊log2 (n/d)⌋ - 23) (-149)` (24 significant bits, or the
    subnormal grid), the mantissa is `n/d` in units of that grid rounded to an integer; a mantissa
    that rounds up to `2^24` is renormalised; an exponent above 104 is an overflow. -/
def roundPos (s : Bool) (n d : Nat) : Raw :=
  let e := max (flog2 n d - 23) (-149)
  let m := rne (n * 2 ^ (-e).toNat) (d * 2 ^ e.toNat)
  let m' := if m = 16777216 then 8388608 else m
  let e' := if m = 16777216 then e + 1 else e
  if 104 < e' then .inf s else .fin s m' e'

/-- round an exact value; `zneg` is the sign given to an exactly-zero result -/
def roundRaw (q : Q) (zneg : Bool) : Raw :=
  if q.num = 0 then .fin zneg 0 (-149) else roundPos (decide (q.num < 0)) q.num.natAbs q.den

def round (q : Q) (zneg : Bool) : B32 := ofRaw (roundRaw q zneg)

/-! ### operations on data -/

namespace Raw

def neg : Raw → Raw
  | nan => nan
  | inf s => inf (!s)
  | fin s m e => fin (!s) m e

def abs : Raw → Raw
  | nan => nan
  | inf _ => inf false
  | fin _ m e => fin false m e

def isFinite : Raw → Bool
  | fin _ _ _ => true
  | _ => false

def isZero : Raw → Bool
  | fin _ m _ => decide (m = 0)
  | _ => false

/-- `a - b`, exactly rounded -/
def sub : Raw → Raw → Raw
  | nan, _ | _, nan => nan
  | inf s, inf t => if s = t then nan else inf s
  | inf s, fin _ _ _ => inf s
  | fin _ _ _, inf t => inf (!t)
  | fin s m e, fin t n f => roundRaw (Q.sub (toQ s m e) (toQ t n f)) (s && !t)

/-- `a + b = a - (-b)` (also for the sign of a zero sum) -/
def add (a b : Raw) : Raw := sub a (neg b)

/-- `a * b`, exactly rounded -/
def mul : Raw → Raw → Raw
  | nan, _ | _, nan => nan
  | inf s, inf t => inf (s ^^ t)
  | inf s, fin t n _ => if n = 0 then nan else inf (s ^^ t)
  | fin s m _, inf t => if m = 0 then nan else inf (s ^^ t)
  | fin s m e, fin t n f => roundRaw (Q.mul (toQ s m e) (toQ t n f)) (s ^^ t)

/-- `a / b`, exactly rounded -/
def div : Raw → Raw → Raw
  | nan, _ | _, nan => nan
  | inf _, inf _ => nan
  | inf s, fin t _ _ => inf (s ^^ t)
  | fin s _ _, inf t => fin (s ^^ t) 0 (-149)
  | fin s m e, fin t n f =>
    if n = 0 then (if m = 0 then nan else inf (s ^^ t))
    else roundRaw (Q.div (toQ s m e) (toQ t n f)) (s ^^ t)

/-- `v - s*d` with a single rounding (`vfnmadd`): with three finite operands the exact value of
    `v - s*d` is rounded once; a non-finite `s` or `d` makes the product exactly NaN or ±∞ (no
    rounding involved) and a non-finite `v` with finite `s, d` is returned as it is (the exact
    product is finite: it cannot overflow before the subtraction). -/
def subMulFused : Raw → Raw → Raw → Raw
  | fin sv mv ev, fin ss ms es, fin sd md ed =>
    roundRaw (Q.sub (toQ sv mv ev) (Q.mul (toQ ss ms es) (toQ sd md ed))) (sv && !(ss ^^ sd))
  | v, fin _ _ _, fin _ _ _ => v
  | v, s, d => sub v (mul s d)

/-- the value in units of `2^-149` (an integer for every canonical finite datum) -/
def toInt : Raw → Int
  | fin s m e => (if s then -1 else 1) * ((m * 2 ^ (e + 149).toNat : Nat) : Int)
  | _ => 0

def lt : Raw → Raw → Bool
  | nan, _ | _, nan => false
  | inf s, inf t => s && !t
  | inf s, fin _ _ _ => s
  | fin _ _ _, inf t => !t
  | a@(fin _ _ _), b@(fin _ _ _) => decide (a.toInt < b.toInt)

def le : Raw → Raw → Bool
  | nan, _ | _, nan => false
  | inf s, inf t => s || !t
  | inf s, fin _ _ _ => s
  | fin _ _ _, inf t => !t
  | a@(fin _ _ _), b@(fin _ _ _) => decide (a.toInt ≤ b.toInt)

/-- `q >= s * 0.5`, both sides exact -/
def geHalf : Raw → Raw → Bool
  | q@(fin _ _ _), s@(fin _ _ _) => decide (s.toInt ≤ 2 * q.toInt)
  | q, s => le s q

/-- `step /= 2`: exact for `e > -149`; on the subnormal grid `m/2` is rounded to nearest-even -/
def half : Raw → Raw
  | fin s m e => if -149 < e then fin s m (e - 1) else fin s (rne m 2) (-149)
  | x => x

end Raw

theorem rne_two_le (m : Nat) : rne m 2 ≤ (m + 1) / 2 := by
  unfold rne
  simp only
  split
  · omega
  · split
    · omega
    · split <;> omega

theorem Raw.wf_fin_iff (s : Bool) (m : Nat) (e : Int) :
    (Raw.fin s m e).wf = true ↔ m < 16777216 ∧ -149 ≤ e ∧ e ≤ 104 ∧ (8388608 ≤ m ∨ e = -149) := by
  simp only [Raw.wf, Bool.and_eq_true, Bool.or_eq_true, decide_eq_true_eq, and_assoc]

theorem Raw.half_wf (x : Raw) (h : x.wf = true) : x.half.wf = true := by
  cases x with
  | nan => rfl
  | inf s => rfl
  | fin s m e =>
    rw [Raw.wf_fin_iff] at h
    show (if -149 < e then Raw.fin s m (e - 1) else Raw.fin s (rne m 2) (-149)).wf = true
    by_cases he : -149 < e
    · rw [if_pos he, Raw.wf_fin_iff]
      omega
    · have := rne_two_le m
      rw [if_neg he, Raw.wf_fin_iff]
      omega

theorem Raw.abs_wf (x : Raw) (h : x.wf = true) : x.abs.wf = true := by
  cases x <;> first | rfl | exact h

/-! ### operations on `B32` -/

def isFinite (x : B32) : Bool := x.val.isFinite
def isZero (x : B32) : Bool := x.val.isZero
def abs (x : B32) : B32 := ⟨x.val.abs, Raw.abs_wf x.val x.property⟩
def half (x : B32) : B32 := ⟨x.val.half, Raw.half_wf x.val x.property⟩
def sub (a b : B32) : B32 := ofRaw (Raw.sub a.val b.val)
def add (a b : B32) : B32 := ofRaw (Raw.add a.val b.val)
def mul (a b : B32) : B32 := ofRaw (Raw.mul a.val b.val)
def div (a b : B32) : B32 := ofRaw (Raw.div a.val b.val)
/-- `v - s*d`, product rounded, then difference rounded -/
def subMulUnfused (v s d : B32) : B32 := sub v (mul s d)
/-- `v - s*d`, rounded once -/
def subMulFused (v s d : B32) : B32 := ofRaw (Raw.subMulFused v.val s.val d.val)
def lt (a b : B32) : Bool := Raw.lt a.val b.val
def ge (a b : B32) : Bool := Raw.le b.val a.val
def geHalf (q s : B32) : Bool := Raw.geHalf q.val s.val

/-- The operations of `Solver::findRoot` at binary32; `fused` selects whether `v - step*d` is
    contracted into one fused multiply-subtract (what GCC emits for this build) or not. -/
def scalar (fused : Bool) : Solver.Scalar B32 where
  zero := posZero
  eps := eps
  abs := abs
  sub := sub
  div := div
  half := half
  sqAdd := fun acc x => add acc (mul x x)
  subMul := if fused then subMulFused else subMulUnfused
  lt := lt
  ge := ge
  geHalf := geHalf
  isFinite := isFinite
  isZero := isZero

/-- halvings after which a finite value has reached ±0: `e + 149` to arrive on the subnormal grid,
    then at most 25 (`m < 2^24` shrinks to `≤ 1` in 24 steps and `1/2` rounds to even, i.e. 0) -/
def bound (x : B32) : Nat :=
  match x.val with
  | .fin _ _ e => (e + 149).toNat + 25
  | _ => 0

end Libfive.B32
