/-
  Model of libfive's quadratic error functions
  (libfive/include/libfive/render/brep/simplex/qef.hpp, template `QEF<N>`), together with the
  parts of `Region<N>` (region.hpp: `contains`, `shrink`) and `NeighborIndex` (indexes.hpp:
  `dimension`, `isAxisFixed`, `pos`) that `solveConstrained` / `solveBounded` use.

  Core Lean only, executable.  Everything is polymorphic in the scalar `α`:
  * the arithmetic part (`insert`, `+=`, `sub<mask>`, `error`, the row/column elimination of
    `solveConstrained`) uses the ordinary `+ - * /` classes, so that it runs at `Float` in the
    driver and is a statement about an ordered field in the theorems;
  * the control logic of `solveBounded` uses the comparison class `QOrd` (IEEE-style `<`, `<=`,
    `==` returning `Bool`, plus the two special values the code writes, `+inf` and `nan`), so the
    selection theorems hold for *any* comparison semantics, in particular the IEEE one.
  * the dense inner solver (`static RawSolution solve(AtA, AtB, target)`: Eigen's
    `SelfAdjointEigenSolver` with eigenvalue cut-offs) is an arbitrary function parameter.

  Vectors are `Fin n → α`, matrices `Fin n → Fin n → α`; the `(N+1)`-th row/column is the
  distance-value coordinate, exactly as in the C++.
-/

namespace Libfive.QEF

/-! ## Comparison semantics -/

/-- The comparisons `solveBounded` performs on `double`s, and the two non-finite constants it
    writes (`std::numeric_limits<double>::infinity()`, `std::nan("")`). -/
class QOrd (α : Type) where
  lt : α → α → Bool
  le : α → α → Bool
  eq : α → α → Bool
  inf : α
  nan : α

instance : QOrd Float where
  lt a b := decide (a < b)
  le a b := decide (a ≤ b)
  eq a b := a == b            -- IEEE `==` (NaN ≠ NaN, -0 == +0)
  inf := 1.0 / 0.0
  nan := 0.0 / 0.0

/-- A miniature of the order structure of `double` (finite values, `+inf`, NaN) on which the
    satisfiability examples of the theorems can be decided by the kernel. -/
inductive Ext | fin (x : Int) | pinf | nan
deriving DecidableEq, Repr, Inhabited

instance : QOrd Ext where
  lt a b := match a, b with
    | .fin x, .fin y => decide (x < y)
    | .fin _, .pinf => true
    | _, _ => false
  le a b := match a, b with
    | .fin x, .fin y => decide (x ≤ y)
    | .fin _, .pinf => true
    | .pinf, .pinf => true
    | _, _ => false
  eq a b := match a, b with
    | .fin x, .fin y => decide (x = y)
    | .pinf, .pinf => true
    | _, _ => false
  inf := .pinf
  nan := .nan

instance : OfNat Ext n := ⟨.fin n⟩

/-- total arithmetic on `Ext` (anything involving a non-finite operand is NaN); only used to
    exhibit concrete instances of the theorems' hypotheses -/
def Ext.lift2 (f : Int → Int → Int) : Ext → Ext → Ext
  | .fin x, .fin y => .fin (f x y)
  | _, _ => .nan

instance : Add Ext := ⟨Ext.lift2 (· + ·)⟩
instance : Sub Ext := ⟨Ext.lift2 (· - ·)⟩
instance : Mul Ext := ⟨Ext.lift2 (· * ·)⟩
instance : Neg Ext := ⟨fun a => match a with | .fin x => .fin (-x) | _ => .nan⟩
instance : Div Ext := ⟨fun a b => match a, b with
  | .fin x, .fin y => if y = 0 then (if x = 0 then .nan else .pinf) else .fin (x / y)
  | _, _ => .nan⟩

/-! ## Small vector helpers -/

/-- `v << head, last` -/
def snoc {α : Type} {n : Nat} (x : Fin n → α) (last : α) : Fin (n + 1) → α :=
  fun i => if h : i.val < n then x ⟨i.val, h⟩ else last

/-- `v.head<N>()` -/
def headN {α : Type} {n : Nat} (v : Fin (n + 1) → α) : Fin n → α := fun i => v i.castSucc

/-- `all` over the coordinates of an `N`-vector of booleans -/
def allFin : (n : Nat) → (Fin n → Bool) → Bool
  | 0, _ => true
  | n + 1, f => allFin n (fun i => f i.castSucc) && f (Fin.last n)

section arith
variable {α : Type} [Add α] [Sub α] [Mul α] [Div α] [Neg α] [OfNat α 0] [OfNat α 1] [OfNat α 2]

/-- left-to-right sum of `f 0 … f (n-1)` -/
def sumFin : (n : Nat) → (Fin n → α) → α
  | 0, _ => 0
  | n + 1, f => sumFin n (fun i => f i.castSucc) + f (Fin.last n)

/-! ## The accumulated matrices -/

/-- `QEF<N>`: the three `(N+1)×(N+1)` matrices `AtA`, `AtBp`, `BptBp`. -/
structure QEF (n : Nat) (α : Type) where
  AtA : Fin (n + 1) → Fin (n + 1) → α
  AtBp : Fin (n + 1) → Fin (n + 1) → α
  BptBp : Fin (n + 1) → Fin (n + 1) → α

/-- `QEF()` / `reset()` -/
def QEF.empty (n : Nat) : QEF n α :=
  { AtA := fun _ _ => 0, AtBp := fun _ _ => 0, BptBp := fun _ _ => 0 }

/-- `operator+=` -/
def QEF.add {n : Nat} (a b : QEF n α) : QEF n α :=
  { AtA := fun i j => a.AtA i j + b.AtA i j,
    AtBp := fun i j => a.AtBp i j + b.AtBp i j,
    BptBp := fun i j => a.BptBp i j + b.BptBp i j }

/-- `operator/=` -/
def QEF.divBy {n : Nat} (a : QEF n α) (d : α) : QEF n α :=
  { AtA := fun i j => a.AtA i j / d,
    AtBp := fun i j => a.AtBp i j / d,
    BptBp := fun i j => a.BptBp i j / d }

/-- One sample: position, normal, distance value. -/
structure Sample (n : Nat) (α : Type) where
  pos : Fin n → α
  nrm : Fin n → α
  val : α

/-- `if (!normal.array().isFinite().all()) normal.array() = 0.0;` — `fin` is `std::isfinite`. -/
def effNormal {n : Nat} (fin : α → Bool) (nrm : Fin n → α) : Fin n → α :=
  if allFin n (fun i => fin (nrm i)) then nrm else fun _ => 0

/-- the row `ni << normal, -1` -/
def Sample.ni {n : Nat} (fin : α → Bool) (s : Sample n α) : Fin (n + 1) → α :=
  snoc (effNormal fin s.nrm) (-1)

/-- the row `pi << position, value` -/
def Sample.pi {n : Nat} (s : Sample n α) : Fin (n + 1) → α := snoc s.pos s.val

/-- `Bp_row = ni.cwiseProduct(pi)` -/
def Sample.bp {n : Nat} (fin : α → Bool) (s : Sample n α) : Fin (n + 1) → α :=
  fun k => s.ni fin k * s.pi k

/-- `insert(position, normal, value)` -/
def QEF.insert {n : Nat} (fin : α → Bool) (q : QEF n α) (s : Sample n α) : QEF n α :=
  { AtA := fun i j => q.AtA i j + s.ni fin i * s.ni fin j,
    AtBp := fun i j => q.AtBp i j + s.ni fin i * s.bp fin j,
    BptBp := fun i j => q.BptBp i j + s.bp fin i * s.bp fin j }

/-- A QEF accumulated from a list of samples by repeated `insert`. -/
def QEF.ofSamples {n : Nat} (fin : α → Bool) (l : List (Sample n α)) : QEF n α :=
  l.foldl (QEF.insert fin) (QEF.empty n)

/-- `AtB() = AtBp * Vector::Ones()` -/
def QEF.AtB {n : Nat} (q : QEF n α) : Fin (n + 1) → α := fun i => sumFin (n + 1) (fun j => q.AtBp i j)

/-- `BtB() = RowVector::Ones() * BptBp * Vector::Ones()` -/
def QEF.BtB {n : Nat} (q : QEF n α) : α :=
  sumFin (n + 1) (fun j => sumFin (n + 1) (fun i => q.BptBp i j))

/-- `error(pos, value)`:  `vᵀ·AtA·v − 2·vᵀ·AtB + BtB` for `v = (pos, value)`.  The same
    expression is evaluated at the end of `solve`, `solveConstrained`, `minimizeErrorAt`. -/
def QEF.errorV {n : Nat} (q : QEF n α) (v : Fin (n + 1) → α) : α :=
  sumFin (n + 1) (fun j => sumFin (n + 1) (fun i => v i * q.AtA i j) * v j)
    - 2 * sumFin (n + 1) (fun i => v i * q.AtB i)
    + q.BtB

def QEF.error {n : Nat} (q : QEF n α) (pos : Fin n → α) (value : α) : α :=
  q.errorV (snoc pos value)

/-- What one sample asks of `v = (position, value)`:  `nᵢ·v − bᵢ` with `bᵢ = Σ Bp_row`
    (i.e. `normal·(x − p) − (w − d)`). -/
def Sample.residual {n : Nat} (fin : α → Bool) (s : Sample n α) (v : Fin (n + 1) → α) : α :=
  sumFin (n + 1) (fun k => s.ni fin k * v k) - sumFin (n + 1) (fun k => s.bp fin k)

/-- `averageDistanceValue()`, also the default `target_value` of `solveBounded(region, shrink)`. -/
def QEF.averageDistanceValue {n : Nat} (q : QEF n α) : α :=
  q.AtBp (Fin.last n) (Fin.last n) / q.AtA (Fin.last n) (Fin.last n)

/-! ## `sub<mask>`: keep the position axes whose bit is set, and the value row -/

/-- the position axes `i < n` with bit `i` of `mask` set, ascending -/
def keptAxes (n mask : Nat) : List (Fin n) := (List.finRange n).filter (fun i => mask.testBit i.val)

/-- row/column `r` of the reduced matrix ↦ row/column of the full one (`axes` are the kept
    position axes; the last reduced index is the value row `N`). -/
def liftIdx {n : Nat} (axes : List (Fin n)) (r : Fin (axes.length + 1)) : Fin (n + 1) :=
  if h : r.val < axes.length then (axes.get ⟨r.val, h⟩).castSucc else Fin.last n

/-- `sub<mask>()` -/
def QEF.sub {n : Nat} (q : QEF n α) (mask : Nat) : QEF (keptAxes n mask).length α :=
  let ax := keptAxes n mask
  { AtA := fun r c => q.AtA (liftIdx ax r) (liftIdx ax c),
    AtBp := fun r c => q.AtBp (liftIdx ax r) (liftIdx ax c),
    BptBp := fun r c => q.BptBp (liftIdx ax r) (liftIdx ax c) }

/-! ## Regions and neighbour indices -/

structure Region (n : Nat) (α : Type) where
  lower : Fin n → α
  upper : Fin n → α

/-- `Region::shrink(percentage)` -/
def Region.shrink {n : Nat} (r : Region n α) (percentage : α) : Region n α :=
  let d : Fin n → α := fun i => ((r.upper i - r.lower i) * (1 - percentage)) / 2
  { lower := fun i => r.lower i + d i, upper := fun i => r.upper i - d i }

/-- `(lower + upper) / 2.0`, the default `target_pos` -/
def Region.center {n : Nat} (r : Region n α) : Fin n → α := fun i => (r.lower i + r.upper i) / 2

/-- ternary digit `axis` of a `NeighborIndex`: 0 = fixed at lower, 1 = fixed at upper, 2 = floating -/
def nbDigit (nb axis : Nat) : Nat := (nb / 3 ^ axis) % 3

/-- `NeighborIndex::isAxisFixed(axis)` for `axis < N` -/
def nbFixed (nb axis : Nat) : Bool := nbDigit nb axis != 2

/-- `NeighborIndex::pos() & (1 << axis)` -/
def nbUpper (nb axis : Nat) : Bool := nbDigit nb axis == 1

/-- `NeighborIndex::dimension()` restricted to the `n` axes of the space -/
def nbDim (n nb : Nat) : Nat := ((List.range n).filter (fun a => nbDigit nb a == 2)).length

/-- the coordinate a fixed axis is given: `pos & (1<<i) ? region.upper(i) : region.lower(i)` -/
def Region.face {n : Nat} (r : Region n α) (nb : Nat) (i : Fin n) : α :=
  if nbUpper nb i.val then r.upper i else r.lower i

/-- the floating position axes of neighbour `nb`, ascending -/
def freeAxes (n nb : Nat) : List (Fin n) := (List.finRange n).filter (fun i => !nbFixed nb i.val)

/-! ## Solutions and the abstract dense solver -/

/-- `QEF<N>::Solution`.  `rank` is `unsigned` in the C++ (and `solve` computes `sol.rank - 1`,
    which wraps for a rank-0 system), hence `UInt32`. -/
structure Solution (n : Nat) (α : Type) where
  position : Fin n → α
  constrained : Fin n → Bool
  value : α
  rank : UInt32
  error : α

/-- `RawSolution` of the inner solver on an `(m+1)`-dimensional system -/
structure RawSolution (m : Nat) (α : Type) where
  value : Fin (m + 1) → α
  rank : UInt32

/-- The dense inner solver `static RawSolution solve(AtA, AtB, target)`: arbitrary. -/
abbrev Solver (α : Type) := (m : Nat) → (Fin (m + 1) → Fin (m + 1) → α) → (Fin (m + 1) → α) →
  (Fin (m + 1) → α) → RawSolution m α

/-- `solve(target_pos, target_value)` — the full-dimension, unconstrained solve. -/
def QEF.solve {n : Nat} (solver : Solver α) (q : QEF n α) (tpos : Fin n → α) (tval : α) : Solution n α :=
  let sol := solver n q.AtA q.AtB (snoc tpos tval)
  { position := headN sol.value, constrained := fun _ => false, value := sol.value (Fin.last n),
    rank := sol.rank - 1, error := q.errorV sol.value }

/-- The reduced system of `solveConstrained<Neighbor_>`: rows/columns of the fixed axes are
    dropped from `AtA`/`AtB`, and `AtA(row, col) * face(col)` of every fixed column is subtracted
    from the right-hand side. -/
def QEF.reducedAtA {n : Nat} (q : QEF n α) (nb : Nat) :
    Fin ((freeAxes n nb).length + 1) → Fin ((freeAxes n nb).length + 1) → α :=
  fun r c => q.AtA (liftIdx (freeAxes n nb) r) (liftIdx (freeAxes n nb) c)

def QEF.reducedAtB {n : Nat} (q : QEF n α) (region : Region n α) (nb : Nat) :
    Fin ((freeAxes n nb).length + 1) → α :=
  fun r => q.AtB (liftIdx (freeAxes n nb) r)
    - sumFin n (fun col => if nbFixed nb col.val
        then q.AtA (liftIdx (freeAxes n nb) r) col.castSucc * region.face nb col else 0)

def reducedTarget {n : Nat} (nb : Nat) (tpos : Fin n → α) (tval : α) :
    Fin ((freeAxes n nb).length + 1) → α :=
  fun r => snoc tpos tval (liftIdx (freeAxes n nb) r)

/-- index of axis `i` among the floating axes (number of floating axes below it): the `r++`
    counter of the unpacking loop -/
def freeRank (nb : Nat) (i : Nat) : Nat := ((List.range i).filter (fun a => !nbFixed nb a)).length

/-- Unpacking loop of `solveConstrained`: fixed axes get the face coordinate and
    `constrained = true`, floating axes take the next component of the reduced solution. -/
def assemblePos {n m : Nat} (region : Region n α) (nb : Nat) (x : Fin (m + 1) → α) : Fin n → α :=
  fun i => if nbFixed nb i.val then region.face nb i
           else if h : freeRank nb i.val < m + 1 then x ⟨freeRank nb i.val, h⟩ else x (Fin.last m)

/-- `solveConstrained<nb>(region, target_pos, target_value)` -/
def QEF.solveConstrained {n : Nat} (solver : Solver α) (q : QEF n α) (region : Region n α)
    (nb : Nat) (tpos : Fin n → α) (tval : α) : Solution n α :=
  let m := (freeAxes n nb).length
  let sol := solver m (q.reducedAtA nb) (q.reducedAtB region nb) (reducedTarget nb tpos tval)
  let position := assemblePos region nb sol.value
  let value := sol.value (Fin.last m)
  { position := position, constrained := fun i => nbFixed nb i.val, value := value,
    rank := sol.rank + (n - m).toUInt32, error := q.error position value }

end arith

/-! ## `solveBounded`: the control logic -/

section select
variable {α : Type} [QOrd α]

/-- `region.contains(p, 0)`:  `(p >= lower - 0).all() && (p <= upper + 0).all()`.
    (`x - 0.0` and `x + 0.0` are the identity on doubles up to the sign of zero, which the
    comparisons ignore, so the epsilon is not modelled.) -/
def Region.contains {n : Nat} (r : Region n α) (p : Fin n → α) : Bool :=
  allFin n (fun i => QOrd.le (r.lower i) (p i)) && allFin n (fun i => QOrd.le (p i) (r.upper i))

/-- The acceptance test of `UnrollSubspace::operator()`:
    `sol.error < out.error || (sol.error == out.error && !region.contains(sol.position, 0)
                                                      && region.contains(out.position, 0))` -/
def accepts {n : Nat} (r : Region n α) (out sol : Solution n α) : Bool :=
  QOrd.lt sol.error out.error ||
    (QOrd.eq sol.error out.error && !r.contains sol.position && r.contains out.position)

def step {n : Nat} (r : Region n α) (out sol : Solution n α) : Solution n α :=
  if accepts r out sol then sol else out

/-- The neighbours visited by `UnrollSubspace<D, ipow(3,N)>`, in visiting order
    (`TargetSubspace - 1` runs from `3^N - 1` down to `0`; only those of dimension `D` act). -/
def subspacesOfDim (n d : Nat) : List Nat := ((List.range (3 ^ n)).reverse).filter (fun nb => nbDim n nb == d)

/-- `UnrollSubspace<D, ipow(3,N)>` -/
def unrollSubspace {n : Nat} (cand : Nat → Solution n α) (r : Region n α) (d : Nat)
    (out : Solution n α) : Solution n α :=
  (subspacesOfDim n d).foldl (fun o nb => step r o (cand nb)) out

/-- `UnrollDimension<k - 1>` (so `k = 0` is the terminating `UnrollDimension<-1>`). -/
def unrollDimension {n : Nat} (cand : Nat → Solution n α) (r : Region n α) :
    Nat → Solution n α → Solution n α
  | 0, out => out
  | d + 1, out =>
    let out' := unrollSubspace cand r d out
    if !r.contains out'.position then
      unrollDimension cand r d { out' with error := QOrd.inf }
    else out'

/-- The "empty solution object with infinite error" -/
def dummy (n : Nat) (zero : α) : Solution n α :=
  { position := fun _ => zero, constrained := fun _ => false, value := QOrd.nan, rank := 0,
    error := QOrd.inf }

/-- Selection logic of the 4-argument `solveBounded`, given the full-dimension candidate, the
    per-subspace candidates and the (already shrunk) region. -/
def selectBounded {n : Nat} (zero : α) (full : Solution n α) (cand : Nat → Solution n α)
    (r : Region n α) : Solution n α :=
  if r.contains full.position then full
  else unrollDimension cand r n (dummy n zero)

end select

section top
variable {α : Type} [Add α] [Sub α] [Mul α] [Div α] [Neg α] [OfNat α 0] [OfNat α 1] [OfNat α 2] [QOrd α]

/-- `solveBounded(region, shrink, target_pos, target_value)` -/
def QEF.solveBounded {n : Nat} (solver : Solver α) (q : QEF n α) (region : Region n α) (shrink : α)
    (tpos : Fin n → α) (tval : α) : Solution n α :=
  let region_ := region.shrink shrink
  selectBounded 0 (q.solve solver tpos tval)
    (fun nb => q.solveConstrained solver region_ nb tpos tval) region_

/-- default `target_value` of the 2-argument `solveBounded`:
    `(AtA(N, N) != 0.0) ? (AtBp(N, N) / AtA(N, N)) : 0.0`
    (an empty QEF has `AtA(N,N) == 0`; before commit e5a8679 this was the bare quotient, 0/0). -/
def QEF.defaultTargetValue {n : Nat} (q : QEF n α) : α :=
  if !QOrd.eq (q.AtA (Fin.last n) (Fin.last n)) 0 then q.averageDistanceValue else 0

/-- `solveBounded(region, shrink = 1 - 1e-9)`: minimise towards the centre of the region and
    the average distance value (0 for an empty QEF). -/
def QEF.solveBoundedDefault {n : Nat} (solver : Solver α) (q : QEF n α) (region : Region n α)
    (shrink : α) : Solution n α :=
  q.solveBounded solver region shrink region.center q.defaultTargetValue

end top

end Libfive.QEF
