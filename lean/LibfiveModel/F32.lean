/-
  Executable single-precision interpretation of the opcodes, following
  libfive/src/eval/eval_array.cpp (`ArrayEvaluator::operator()`).
  `+ - * / neg abs min max square recip compare nanfill` are IEEE-exact (Eigen's AVX-512
  `sqrt` kernel is a refined reciprocal-sqrt estimate, not correctly rounded, so it is not in the list) and therefore
  bit-comparable with the C++; the transcendental ones go through libm here and Eigen's
  vector kernels there, and are compared with a tolerance by the checks.
-/
import LibfiveModel.Op

namespace Libfive.F32

def ofBits (u : UInt32) : Float32 := Float32.ofBits u

def hexDigit (c : Char) : Option Nat :=
  if '0' ≤ c ∧ c ≤ '9' then some (c.toNat - '0'.toNat)
  else if 'a' ≤ c ∧ c ≤ 'f' then some (c.toNat - 'a'.toNat + 10)
  else if 'A' ≤ c ∧ c ≤ 'F' then some (c.toNat - 'A'.toNat + 10)
  else none

def parseHex (s : String) : Option Nat :=
  s.foldl (fun acc c => match acc, hexDigit c with
    | some a, some d => some (a * 16 + d)
    | _, _ => none) (some 0)

def parseF32 (s : String) : Option Float32 :=
  (parseHex s).map fun n => Float32.ofBits n.toUInt32

def toHex (f : Float32) : String :=
  let n := f.toBits.toNat
  let digs := (List.range 8).map fun i =>
    let d := (n >>> (4 * (7 - i))) % 16
    if d < 10 then Char.ofNat (d + '0'.toNat) else Char.ofNat (d - 10 + 'a'.toNat)
  String.ofList digs

/-- Opcodes whose single-precision kernel is one correctly rounded IEEE operation (or pure
    selection), hence bit-reproducible. -/
def exactOp : Op → Bool
  | .add | .sub | .mul | .div | .min | .max | .neg | .abs | .square | .recip
  | .compare | .nanfill | .constVar => true
  | _ => false

/-- Python-style `mod` with the safety clamps of eval_array.cpp -/
def fmod (a b : Float32) : Float32 :=
  let d0 := (a / b).abs
  let d := if (a < 0) != (b < 0) then -(d0.ceil) else d0.floor
  let out := a - b * d
  let out := if (b > 0 && out > b) || (b < 0 && out < b) then b else out
  let out := if (b > 0 && out < 0) || (b < 0 && out > 0) then 0 else out
  out

def ev (op : Op) (a b : Float32) : Float32 :=
  match op with
  | .add => a + b
  | .mul => a * b
  -- Eigen's AVX-512 `pmin/pmax` (`_mm512_min_ps(b, a)`): on ties (±0) and NaN operands the
  -- *first* operand is returned
  | .min => if b < a then b else a
  | .max => if a < b then b else a
  | .sub => a - b
  | .div => a / b
  | .atan2 => Float32.atan2 a b
  | .pow => Float32.pow a b
  -- negative bases are routed through Boost's interval nth_root in the C++ (odd roots of
  -- negative numbers are defined; the lower bound of the outward-rounded result is returned)
  | .nthRoot =>
    if a < 0 then
      if b.toUInt32 % 2 == 1 then 0 - Float32.pow (0 - a) (1 / b) else Float32.ofBits 0x7fc00000
    else Float32.pow a (1 / b)
  | .mod => fmod a b
  | .nanfill => if a.isNaN then b else a
  | .compare => if a < b then -1 else if a > b then 1 else 0
  | .square => a * a
  | .sqrt => a.sqrt
  | .neg => 0 - a        -- Eigen's AVX-512 `pnegate` is `0 - a`, so neg(+0) = +0
  | .sin => a.sin
  | .cos => a.cos
  | .tan => a.tan
  | .asin => a.asin
  | .acos => a.acos
  | .atan => a.atan
  | .exp => a.exp
  | .log => a.log
  | .abs => a.abs
  | .recip => 1 / a
  | .constVar => a
  | _ => a

end Libfive.F32
