/-
  Executable model of the table-driven part of libfive's meshers (core Lean only):

  * marching tetrahedra as done by `SimplexMesher::load` / `HybridMesher::load`
    (simplex_mesher.cpp, hybrid_mesher.cpp): per tet, the 4-bit inside mask selects a row of
    `tet_table`; every triangle of the row is three tet edges `(first, second)`; the surface
    vertex on a tet edge is shared through the edge key, so a surface vertex *is* a tet edge.
  * the quad -> triangles rule of `DCMesher::load<A, D>` (dc_mesher.cpp): polarity swap,
    the two triangulations, `push_triangle` dropping degenerate triangles.
  * the multi-stage edge search of `SimplexMesher::searchEdge` / `HybridMesher::searchEdge`.

  The tables are *not* written here: they are `Generated.MeshTables.*`, regenerated from /repo
  on every run by tools/translate_meshtables.py.
-/
import Generated.MeshTables

namespace Libfive.Marching

/-- global subspace-vertex index (`sub->index` / `leaf->index[...]`) -/
abbrev Vid := Nat

/-- a directed edge between two vertices of type `β` -/
abbrev Edge (β : Type) := β × β

/-- reversal of a directed edge -/
def rev {β : Type} (e : Edge β) : Edge β := (e.2, e.1)

/-- an oriented triangle over vertices of type `β` -/
abbrev Tri (β : Type) := β × β × β

/-- the three directed sides of an oriented triangle -/
def triEdges {β : Type} (t : Tri β) : List (Edge β) := [(t.1, t.2.1), (t.2.1, t.2.2), (t.2.2, t.1)]

/-- all directed sides of a triangle list (a multiset, as a list) -/
def dirEdges {β : Type} (l : List (Tri β)) : List (Edge β) := l.flatMap triEdges

/-- a triangle repeats a vertex -/
def triDegenerate {β : Type} [DecidableEq β] (t : Tri β) : Bool :=
  t.1 == t.2.1 || t.2.1 == t.2.2 || t.1 == t.2.2

/-! ### Marching tetrahedra -/

/-- A surface vertex is identified with the tet edge it lies on: `(first, second)` exactly as the
    table lists it (`first` is the inside end, `tet_inside_first` in LibfiveTheorems/C03). -/
abbrev SV (α : Type) := α × α

def mapSV {α β : Type} (φ : α → β) (p : SV α) : SV β := (φ p.1, φ p.2)
def mapTri {α β : Type} (φ : α → β) (t : Tri α) : Tri β := (φ t.1, φ t.2.1, φ t.2.2)
def mapEdge {α β : Type} (φ : α → β) (e : Edge α) : Edge β := (φ e.1, φ e.2)

/-- The triangles of one raw table row.  The C++ loop is
    `for (tri : tet_table.at(mask)) { if (tri.at(0).first == -1) break; ... }`. -/
def rowTris (row : List (List (Int × Int))) : List (Tri (SV Nat)) :=
  (row.takeWhile (fun tri => match tri with
      | (a, _) :: _ => a != -1
      | [] => false)).filterMap fun tri =>
    match tri with
    | [(a0, b0), (a1, b1), (a2, b2)] =>
        some ((a0.toNat, b0.toNat), (a1.toNat, b1.toNat), (a2.toNat, b2.toNat))
    | _ => none

/-- the table the model is driven by: the simplex mesher's copy (the hybrid copy is proved equal) -/
def tetTable : List (List (List (Int × Int))) := Generated.MeshTables.simplexTetTable

/-- triangles in *local* tet-vertex numbers 0..3 for an inside mask -/
def localTris (mask : Nat) : List (Tri (SV Nat)) := rowTris (tetTable.getD mask [])

/-- an (ordered) tet: four global vertex indices in the order the mesher numbers them -/
structure Tet where
  v0 : Vid
  v1 : Vid
  v2 : Vid
  v3 : Vid
deriving DecidableEq, Repr

def Tet.vtx (t : Tet) : Nat → Vid
  | 0 => t.v0
  | 1 => t.v1
  | 2 => t.v2
  | _ => t.v3

def maskOf (b0 b1 b2 b3 : Bool) : Nat := b0.toNat + 2 * b1.toNat + 4 * b2.toNat + 8 * b3.toNat

/-- `mask |= subvs.at(...).inside << j` -/
def Tet.mask (s : Vid → Bool) (t : Tet) : Nat := maskOf (s t.v0) (s t.v1) (s t.v2) (s t.v3)

/-- marching one tet with a given mask: every triangle corner is the tet edge
    `(vs[tet[edge.first]].index, vs[tet[edge.second]].index)` -/
def marchTetM (mask : Nat) (t : Tet) : List (Tri (SV Vid)) :=
  (localTris mask).map (mapTri (mapSV t.vtx))

/-- marching one tet under a sign function on vertex ids -/
def marchTet (s : Vid → Bool) (t : Tet) : List (Tri (SV Vid)) := marchTetM (t.mask s) t

def marchTets (s : Vid → Bool) (ts : List Tet) : List (Tri (SV Vid)) := ts.flatMap (marchTet s)

def Tet.verts (t : Tet) : List Vid := [t.v0, t.v1, t.v2, t.v3]

/-- extra hypothesis of the edge-manifold clause: no two tets of the complex (at different
    positions of the list) have the same vertex set -/
def TetSetsDistinct (ts : List Tet) : Prop := ts.Pairwise fun t t' => ¬ t.verts.Perm t'.verts

/-! ### Oriented faces of tets and the segment a face carries -/

abbrev Face := Vid × Vid × Vid

/-- the four faces with the orientation induced by the tet:
    ∂[v0,v1,v2,v3] = [v1,v2,v3] - [v0,v2,v3] + [v0,v1,v3] - [v0,v1,v2] -/
def Tet.faces (t : Tet) : List Face :=
  [(t.v1, t.v2, t.v3), (t.v0, t.v3, t.v2), (t.v0, t.v1, t.v3), (t.v0, t.v2, t.v1)]

def allFaces (ts : List Tet) : List Face := ts.flatMap Tet.faces

/-- The directed surface segment carried by an oriented face `(a, b, c)` with inside flags
    `sa sb sc`: a function of the face's (vertex, sign) pairs and its orientation only. -/
def seg {α : Type} (sa sb sc : Bool) (a b c : α) : List (Edge (SV α)) :=
  match sa, sb, sc with
  | true, false, false => [((a, c), (a, b))]
  | false, true, false => [((b, a), (b, c))]
  | false, false, true => [((c, b), (c, a))]
  | true, true, false => [((a, c), (b, c))]
  | false, true, true => [((b, a), (c, a))]
  | true, false, true => [((c, b), (a, b))]
  | _, _, _ => []

def faceSeg (s : Vid → Bool) (f : Face) : List (Edge (SV Vid)) :=
  seg (s f.1) (s f.2.1) (s f.2.2) f.1 f.2.1 f.2.2

/-- all three vertices of the face have the same sign -/
def faceUniform (s : Vid → Bool) (f : Face) : Bool := s f.1 == s f.2.1 && s f.2.1 == s f.2.2

/-- Canonical form of an oriented face: the sorted triple and the parity of the sorting
    permutation (`true` = even, i.e. same orientation as the sorted triple). -/
def canon (f : Face) : Face × Bool :=
  let (a, b, c) := f
  if a < b then
    if b < c then ((a, b, c), true)
    else if a < c then ((a, c, b), false)
    else ((c, a, b), true)
  else
    if a < c then ((b, a, c), false)
    else if b < c then ((b, c, a), true)
    else ((c, b, a), false)

/-- number of faces in `F` with canonical triple `k` and parity `p` -/
def oriCount (F : List Face) (k : Face) (p : Bool) : Nat :=
  (F.filter fun f => (canon f).1 == k && (canon f).2 == p).length

/-- **Hypothesis (H)** of the lifting theorem, as a proposition on the face list of a complex:
    every face triple that is not sign-uniform occurs exactly once with each orientation
    (= in exactly two tets, with opposite induced orientations). -/
def HypH (s : Vid → Bool) (F : List Face) : Prop :=
  ∀ k : Face, faceUniform s k = false → k ∈ F.map (fun f => (canon f).1) →
    oriCount F k true = 1 ∧ oriCount F k false = 1

/-- the weaker, balanced form that already gives closedness -/
def HypBal (s : Vid → Bool) (F : List Face) : Prop :=
  ∀ k : Face, faceUniform s k = false → oriCount F k true = oriCount F k false

/-- quadratic reference implementation of (H), used by the driver on small complexes to
    cross-check its hash-map implementation -/
def hypHRef (s : Vid → Bool) (F : List Face) : Bool :=
  F.all fun f =>
    let k := (canon f).1
    faceUniform s k || (oriCount F k true == 1 && oriCount F k false == 1)

/-! ### Dual contouring: `DCMesher::load<A, D>` after the four vertex ids are loaded -/

/-- `push_triangle`: only triangles that aren't simply lines -/
def pushTriangle (a b c : Vid) : List (Tri Vid) :=
  if a != b && b != c && a != c then [(a, b, c)] else []

/-- `d = D` (direction of the sign change), `alt = !(norms[0]·norms[3] > norms[1]·norms[2])`.
    `if (!D) std::swap(vs[1], vs[2])`, then one of the two triangulations. -/
def dcQuad (v0 v1 v2 v3 : Vid) (d alt : Bool) : List (Tri Vid) :=
  let w1 := if d then v1 else v2
  let w2 := if d then v2 else v1
  if alt then pushTriangle v0 w1 v3 ++ pushTriangle v0 v3 w2
  else pushTriangle v0 w1 w2 ++ pushTriangle w2 w1 v3

/-- the boundary cycle of the quad in the winding `0 -> 1 -> 3 -> 2 -> 0` of the comment in
    dc_mesher.cpp (after the polarity swap) -/
def quadCycle (v0 v1 v2 v3 : Vid) (d : Bool) : List (Edge Vid) :=
  let w1 := if d then v1 else v2
  let w2 := if d then v2 else v1
  [(v0, w1), (w1, v3), (v3, w2), (w2, v0)]

/-! ### The multi-stage edge search (`searchEdge`) over an arbitrary classifier -/

/-- First `j` in `start .. last` with `f j`, else `last`
    (`for j = 1 .. N-1: if (outside(j) || j == N-1) break`). -/
def firstOutFrom (f : Nat → Bool) (last : Nat) : Nat → Nat → Nat
  | 0, j => j
  | fuel + 1, j => if f j || decide (last ≤ j) then j else firstOutFrom f last fuel (j + 1)

def firstOut (f : Nat → Bool) (n : Nat) : Nat := firstOutFrom f (n - 1) (n - 1) 1

/-- One round: sample `lerp lo hi j` for `j = 0 .. n-1`, keep `(sample (j-1), sample j)` for the
    first `j ≥ 1` classified outside (the last sample is taken unconditionally). -/
def searchRound {α : Type} (lerp : α → α → Nat → α) (outside : α → Bool) (n : Nat) (p : α × α) : α × α :=
  let j := firstOut (fun j => outside (lerp p.1 p.2 j)) n
  (lerp p.1 p.2 (j - 1), lerp p.1 p.2 j)

def search {α : Type} (lerp : α → α → Nat → α) (outside : α → Bool) (n : Nat) : Nat → α × α → α × α
  | 0, p => p
  | r + 1, p => search lerp outside n r (searchRound lerp outside n p)

end Libfive.Marching
