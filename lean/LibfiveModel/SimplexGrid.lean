/-
  Model of the tet complex the simplex mesher marches on a UNIFORM grid (core Lean only).

  Setting: an `n1 × n2 × n3` grid of equally sized simplex cells (all leaves AMBIGUOUS and at the
  same level, nothing collapsed).  A cell `(i, j, k)` owns the 27 subspace vertices
  `2 (i, j, k) + {0, 1, 2}^3` of the lattice `{0..2 n1} × {0..2 n2} × {0..2 n3}`; the number of
  odd coordinates tells whether a lattice point is a corner (0), edge (1), face (2) or cell (3)
  subspace.  `SimplexTree::assignIndices` (simplex_tree.inl, l.746-841) makes neighbouring leaves
  share ONE `SimplexLeafSubspace` per lattice point (the canonical pointer) and gives every such
  object a unique non-zero `index`, so `sub->index` is an injective function of the lattice point;
  the model uses the injective row-major number `vid`.

  `Dual<3>::work` / `handleTopEdges` (dual.hpp, l.128-229) call `SimplexMesher::load<A>(ts)` once
  for every lattice EDGE of the grid (interior edges from `edge3` inside `work` / `face3`, the
  edges on the outer faces and outer edges of the root from `handleTopEdges`, where the cells that
  do not exist are the `empty()` singleton: type UNKNOWN, `leaf == nullptr`, skipped at
  simplex_mesher.cpp l.336-338).  `ts[i]` sits at `Q` offset `i & 1` and `R` offset `i & 2`
  (dual.hpp l.172-175), `(A, Q, R)` right-handed (axes.hpp l.17-29).

  `load<A>` (simplex_mesher.cpp):
    * l.70-81, l.120-129, l.138-169, l.175-182: the 11 subspace vertices `subvs`
      (0 edge; 1, 2 corner at the low / high end; 3..6 faces 0-1, 1-3, 2-3, 0-2; 7..10 the cells
      ts[0], ts[1], ts[3], ts[2]).  With equal levels the face vertex is taken from the second
      cell of the pair, which is the same shared object.  `subOff` below lists their lattice
      positions relative to the edge vertex (shifted by +1 to stay in `Nat`).
    * l.329-332, l.370-371, l.388, l.398: for the cells in the order 0, 1, 3, 2, for every row
      `tet` of `tet_vertices`, the tet `subvs[cell_vertices[i][tet[j]]].index`, j = 0..3.
      `next_shared` / `prev_shared` (l.364-367) are false (four different cells).

  The model enumerates the same tets cell by cell: for each cell, each axis `A`, each of the four
  positions `c` the cell can take around one of its four `A`-edges, the four rows of
  `tet_vertices` through `cell_vertices[c]` — i.e. the loops `(A, edge, c)` of the code reindexed
  as `(cell, A, c)`; `gridTetsByEdge` is the literal per-edge order.
  The tables are `Generated.MeshTables.simplexCellVertices / simplexTetVertices`.
-/
import LibfiveModel.Marching

namespace Libfive.SimplexGrid
open Libfive.Marching Generated.MeshTables

/-- a lattice point `(x, y, z)` -/
abbrev Pt := Nat × Nat × Nat

def addPt (o p : Pt) : Pt := (o.1 + p.1, o.2.1 + p.2.1, o.2.2 + p.2.2)
def dbl (c : Pt) : Pt := (2 * c.1, 2 * c.2.1, 2 * c.2.2)

/-- `(a, q, r)` coordinates in the right-handed frame `(A, Q(A), R(A))` to `(x, y, z)`;
    `A = 0, 1, 2` is X, Y, Z; `Q(X) = Y, R(X) = Z; Q(Y) = Z, R(Y) = X; Q(Z) = X, R(Z) = Y` -/
def frame (A : Nat) (p : Nat × Nat × Nat) : Pt :=
  match A with
  | 0 => (p.1, p.2.1, p.2.2)
  | 1 => (p.2.2, p.1, p.2.1)
  | _ => (p.2.1, p.2.2, p.1)

/-- position of `subvs[j]` relative to the edge vertex in `(A, Q, R)` half-cell units, plus 1 -/
def subOff : List (Nat × Nat × Nat) :=
  [(1, 1, 1), (0, 1, 1), (2, 1, 1),
   (1, 1, 0), (1, 2, 1), (1, 1, 2), (1, 0, 1),
   (1, 0, 0), (1, 2, 0), (1, 2, 2), (1, 0, 2)]

/-- Position of `subvs[j]` relative to the LOW corner of the cell `ts[c]`.  The cell sits at `Q`
    offset `c & 1` and `R` offset `c & 2` of the edge, so in the cell's own frame the edge vertex
    is at `(1, 2 or 0, 2 or 0)`.  (Only used for the `j` listed in `cell_vertices[c]`, for which
    the truncated subtraction is exact.) -/
def relPos (A c j : Nat) : Pt :=
  let o := subOff.getD j (0, 0, 0)
  let eq := if c % 2 = 1 then 0 else 2
  let er := if c / 2 = 1 then 0 else 2
  frame A (o.1, eq + o.2.1 - 1, er + o.2.2 - 1)

/-- a tet over lattice points, in the mesher's vertex order -/
abbrev LTet := Pt × Pt × Pt × Pt

/-- the cells in the order `load` visits them -/
def cellOrder : List Nat := [0, 1, 3, 2]

/-- the four tets `load<A>` marches in the cell at position `c` around an `A`-edge, lattice
    positions relative to the cell's low corner -/
def edgeCellTets (cv tv : List (List Nat)) (A c : Nat) : List LTet :=
  let vs := cv.getD c []
  tv.map fun tet =>
    let P := fun j => relPos A c (vs.getD (tet.getD j 0) 0)
    (P 0, P 1, P 2, P 3)

/-- all 48 tets of one cell: 3 axes × 4 edges (= 4 positions) × 4 rows of `tet_vertices` -/
def refCellOf (cv tv : List (List Nat)) : List LTet :=
  [0, 1, 2].flatMap fun A => cellOrder.flatMap fun c => edgeCellTets cv tv A c

def refCell : List LTet := refCellOf simplexCellVertices simplexTetVertices

def shiftT (o : Pt) (t : LTet) : LTet := (addPt o t.1, addPt o t.2.1, addPt o t.2.2.1, addPt o t.2.2.2)

/-- the cells `(i, j, k)`, `i < n1`, `j < n2`, `k < n3` -/
def gridCells (n1 n2 n3 : Nat) : List Pt :=
  (List.range n1).flatMap fun i => (List.range n2).flatMap fun j => (List.range n3).map fun k => (i, j, k)

/-- the tets of the whole grid, over lattice points -/
def gridL (n1 n2 n3 : Nat) : List LTet :=
  (gridCells n1 n2 n3).flatMap fun c => refCell.map (shiftT (dbl c))

/-- injective numbering of the lattice points with `x < W1`, `y < W2` -/
def vidW (W1 W2 : Nat) (p : Pt) : Vid := p.1 + W1 * (p.2.1 + W2 * p.2.2)

/-- the global subspace-vertex index of a lattice point of the `n1 × n2 × n3` grid -/
def vid (n1 n2 : Nat) (p : Pt) : Vid := vidW (2 * n1 + 1) (2 * n2 + 1) p

def encTet (e : Pt → Vid) (t : LTet) : Tet := ⟨e t.1, e t.2.1, e t.2.2.1, e t.2.2.2⟩

/-- **the complex the mesher marches on the uniform grid** -/
def gridTets (n1 n2 n3 : Nat) : List Tet := (gridL n1 n2 n3).map (encTet (vid n1 n2))

/-! ### the literal loop order of the code: per lattice edge, the cells around it -/

/-- `coordinate A` of a point -/
def coord (A : Nat) (p : Pt) : Nat :=
  match A with
  | 0 => p.1
  | 1 => p.2.1
  | _ => p.2.2

/-- The tets of one call `load<A>(ts)` for the edge whose low end is the lattice corner
    `frame A (2a, 2q, 2r)`: `ts[c]` is the cell with `(A, Q, R)` index `(a, q - 1 + (c & 1),
    r - 1 + (c >> 1))`; cells outside the grid are the `empty()` singleton and are skipped. -/
def edgeTets (cv tv : List (List Nat)) (nq nr : Nat) (A a q r : Nat) : List LTet :=
  cellOrder.flatMap fun c =>
    let cq := q + c % 2
    let cr := r + c / 2
    if 1 ≤ cq ∧ cq ≤ nq ∧ 1 ≤ cr ∧ cr ≤ nr then
      (edgeCellTets cv tv A c).map (shiftT (dbl (frame A (a, cq - 1, cr - 1))))
    else []

/-- all calls of `load`: for every axis, every lattice edge along it -/
def gridLByEdge (n1 n2 n3 : Nat) : List LTet :=
  [0, 1, 2].flatMap fun A =>
    let n := frame ((3 - A) % 3) (n1, n2, n3)   -- (nA, nQ, nR): inverse of `frame A`
    (List.range n.1).flatMap fun a => (List.range (n.2.1 + 1)).flatMap fun q =>
      (List.range (n.2.2 + 1)).flatMap fun r =>
        edgeTets simplexCellVertices simplexTetVertices n.2.1 n.2.2 A a q r

def gridTetsByEdge (n1 n2 n3 : Nat) : List Tet := (gridLByEdge n1 n2 n3).map (encTet (vid n1 n2))

/-! ### the sign hypothesis -/

def inGrid (n1 n2 n3 : Nat) (p : Pt) : Prop := p.1 ≤ 2 * n1 ∧ p.2.1 ≤ 2 * n2 ∧ p.2.2 ≤ 2 * n3

def onBoundary (n1 n2 n3 : Nat) (p : Pt) : Prop :=
  p.1 = 0 ∨ p.1 = 2 * n1 ∨ p.2.1 = 0 ∨ p.2.1 = 2 * n2 ∨ p.2.2 = 0 ∨ p.2.2 = 2 * n3

/-- every subspace vertex on the outer boundary of the grid has the same sign
    (the solid is strictly inside the meshed region, or the region strictly inside the solid) -/
def BoundaryUniform (n1 n2 n3 : Nat) (s : Vid → Bool) : Prop :=
  ∃ b : Bool, ∀ p : Pt, inGrid n1 n2 n3 p → onBoundary n1 n2 n3 p → s (vid n1 n2 p) = b

end Libfive.SimplexGrid
