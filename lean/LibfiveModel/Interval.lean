/-
  Model of libfive's interval arithmetic (libfive/include/libfive/eval/interval.hpp, class `Interval`)
  and of the point semantics it has to enclose (libfive/src/eval/eval_array.cpp,
  `ArrayEvaluator::operator()`).

  * `FVal K`: extended values `nan | ninf | fin x | pinf` over a scalar type `K`, with IEEE comparison
    and IEEE arithmetic *in exact arithmetic* (no rounding): ∞−∞, 0·∞, 0/0, ∞/∞ = nan, x/0 = ±∞.
    There is one zero; where IEEE's answer depends on the sign of a zero the deterministic `pointOp`
    picks the `+0` answer and `PointRel` also admits the `−0` answer.
  * `IVal K`: `{lo hi : FVal K, mn : Bool}` = `Interval { I i; bool maybe_nan; }`.
  * `BoostOps K`: the Boost.Interval primitives (and the few libm / conversion calls) that the
    libfive-authored code calls.  They are PARAMETERS; what is written out literally below is the
    libfive-authored part: flag expressions, case splits, and which primitive gets which arguments.

  Core Lean only (the driver links this file); all theorems live in LibfiveProofs/Interval*.lean.
-/
import LibfiveModel.Op
import LibfiveModel.Tape

namespace Libfive.Ivl

inductive FVal (K : Type) where
  | nan : FVal K
  | ninf : FVal K
  | fin (x : K) : FVal K
  | pinf : FVal K
deriving Repr, Inhabited

/-- the `I i` member: a pair of bounds -/
structure Bnd (K : Type) where
  lo : FVal K
  hi : FVal K
deriving Repr, Inhabited

/-- `class Interval` -/
structure IVal (K : Type) where
  lo : FVal K
  hi : FVal K
  mn : Bool
deriving Repr, Inhabited

def IVal.b {K : Type} (A : IVal K) : Bnd K := ⟨A.lo, A.hi⟩
/-- pre-fix `Interval(const I& i, bool maybe_nan)` (kept for the `…Old` theorems) -/
def IVal.ofOld {K : Type} (b : Bnd K) (mn : Bool) : IVal K := ⟨b.lo, b.hi, mn⟩

namespace FVal
variable {K : Type}

def isNan : FVal K → Bool
  | nan => true | _ => false
/-- `x == -INFINITY` -/
def isNinf : FVal K → Bool
  | ninf => true | _ => false
/-- `x == INFINITY` -/
def isPinf : FVal K → Bool
  | pinf => true | _ => false
/-- `std::isinf` -/
def isInf : FVal K → Bool
  | ninf => true | pinf => true | _ => false
/-- `std::isfinite` -/
def isFinite : FVal K → Bool
  | fin _ => true | _ => false

end FVal

/-- the PREVIOUS `Interval(const I& i, bool maybe_nan)` (before /repo 0be5df1): a result with a NaN
    bound is flagged but KEEPS its NaN bounds (kept for `nan_bounds_kept_unsound`) -/
def IVal.ofNanKept {K : Type} (b : Bnd K) (mn : Bool) : IVal K :=
  ⟨b.lo, b.hi, mn || b.lo.isNan || b.hi.isNan⟩

/-- `Interval(const I& i_, bool maybe_nan)`: a result with a NaN bound is REPLACED by
    `I(-INFINITY, INFINITY)` and flagged; otherwise the bounds are kept and the flag is `maybe_nan`
    (`maybe_nan || isnan(lower) || isnan(upper)` with both tests false) -/
def IVal.of {K : Type} (b : Bnd K) (mn : Bool) : IVal K :=
  if b.lo.isNan || b.hi.isNan then ⟨FVal.ninf, FVal.pinf, true⟩ else ⟨b.lo, b.hi, mn⟩

namespace FVal
variable {K : Type}

section order
variable [LT K] [LE K] [DecidableLT K] [DecidableLE K]

/-- IEEE `<` (false when either side is NaN) -/
def lt : FVal K → FVal K → Bool
  | nan, nan => false | nan, ninf => false | nan, fin _ => false | nan, pinf => false
  | ninf, nan => false | ninf, ninf => false | ninf, fin _ => true | ninf, pinf => true
  | fin _, nan => false | fin _, ninf => false | fin x, fin y => decide (x < y) | fin _, pinf => true
  | pinf, nan => false | pinf, ninf => false | pinf, fin _ => false | pinf, pinf => false

/-- IEEE `<=` -/
def le : FVal K → FVal K → Bool
  | nan, nan => false | nan, ninf => false | nan, fin _ => false | nan, pinf => false
  | ninf, nan => false | ninf, ninf => true | ninf, fin _ => true | ninf, pinf => true
  | fin _, nan => false | fin _, ninf => false | fin x, fin y => decide (x ≤ y) | fin _, pinf => true
  | pinf, nan => false | pinf, ninf => false | pinf, fin _ => false | pinf, pinf => true

/-- IEEE `>` and `>=` -/
def gt (a b : FVal K) : Bool := lt b a
def ge (a b : FVal K) : Bool := le b a
/-- IEEE `==` -/
def feq (a b : FVal K) : Bool := le a b && le b a

/-- `fmin(x, y)` of libm: the other operand if one is NaN -/
def fmin (a b : FVal K) : FVal K :=
  match a, b with
  | nan, y => y
  | x, nan => x
  | x, y => if lt y x then y else x

def fmax (a b : FVal K) : FVal K :=
  match a, b with
  | nan, y => y
  | x, nan => x
  | x, y => if lt x y then y else x

end order

section arith
variable [Add K] [Mul K] [Div K] [Neg K] [LT K] [DecidableLT K] [OfNat K 0]

def neg : FVal K → FVal K
  | nan => nan | ninf => pinf | fin x => fin (-x) | pinf => ninf

def add : FVal K → FVal K → FVal K
  | nan, _ => nan | _, nan => nan
  | ninf, pinf => nan | pinf, ninf => nan
  | ninf, _ => ninf | _, ninf => ninf
  | pinf, _ => pinf | _, pinf => pinf
  | fin x, fin y => fin (x + y)

def sub (a b : FVal K) : FVal K := add a (neg b)

/-- `±∞ · x` for finite `x`: sign rule, `0·∞ = nan` -/
def infTimes (pos : Bool) (x : K) : FVal K :=
  if (0 : K) < x then (if pos then pinf else ninf)
  else if x < (0 : K) then (if pos then ninf else pinf)
  else nan

def mul : FVal K → FVal K → FVal K
  | nan, _ => nan | _, nan => nan
  | pinf, pinf => pinf | ninf, ninf => pinf | pinf, ninf => ninf | ninf, pinf => ninf
  | pinf, fin x => infTimes true x | ninf, fin x => infTimes false x
  | fin x, pinf => infTimes true x | fin x, ninf => infTimes false x
  | fin x, fin y => fin (x * y)

/-- `±∞ / x` and `x / 0` pick the answer for a `+0` divisor; `PointRel` adds the `−0` answer -/
def div : FVal K → FVal K → FVal K
  | nan, _ => nan | _, nan => nan
  | pinf, pinf => nan | pinf, ninf => nan | ninf, pinf => nan | ninf, ninf => nan
  | fin _, pinf => fin 0 | fin _, ninf => fin 0
  | pinf, fin y => if y < (0 : K) then ninf else pinf
  | ninf, fin y => if y < (0 : K) then pinf else ninf
  | fin x, fin y =>
    if (0 : K) < y ∨ y < (0 : K) then fin (x / y)
    else if (0 : K) < x then pinf else if x < (0 : K) then ninf else nan

def abs : FVal K → FVal K
  | nan => nan | ninf => pinf | pinf => pinf
  | fin x => if x < (0 : K) then fin (-x) else fin x

end arith
end FVal

open FVal

/-! ### Boost.Interval primitives (parameters) -/

/-- Everything `interval.hpp` calls but does not define.  Bounds-valued fields are Boost.Interval
    operations on `I`; `atan2f … powM1IsNan` are the libm / conversion calls of the authored code. -/
structure BoostOps (K : Type) where
  add : Bnd K → Bnd K → Bnd K
  sub : Bnd K → Bnd K → Bnd K
  mul : Bnd K → Bnd K → Bnd K
  div : Bnd K → Bnd K → Bnd K
  min : Bnd K → Bnd K → Bnd K
  max : Bnd K → Bnd K → Bnd K
  hull : Bnd K → Bnd K → Bnd K
  neg : Bnd K → Bnd K
  abs : Bnd K → Bnd K
  square : Bnd K → Bnd K
  sqrt : Bnd K → Bnd K
  sin : Bnd K → Bnd K
  cos : Bnd K → Bnd K
  tan : Bnd K → Bnd K
  asin : Bnd K → Bnd K
  acos : Bnd K → Bnd K
  atan : Bnd K → Bnd K
  exp : Bnd K → Bnd K
  log : Bnd K → Bnd K
  /-- `1.0f / a.i` -/
  oneDiv : Bnd K → Bnd K
  /-- `boost::numeric::pow(a.i, int)` -/
  powi : Bnd K → Int → Bnd K
  /-- `boost::numeric::nth_root(a.i, int)` -/
  nthRoot : Bnd K → Int → Bnd K
  /-- `usedA *= -1` -/
  mulNeg1 : Bnd K → Bnd K
  /-- `b.i * quotientInt` (interval times a float) -/
  mulF : Bnd K → FVal K → Bnd K
  /-- `I::empty()` -/
  empty : Bnd K
  /-- `I(-M_PI/2, M_PI/2)` -/
  atanWhole : Bnd K
  /-- `::atan2(y, x)` on two endpoint values -/
  atan2f : FVal K → FVal K → FVal K
  /-- `float(M_PI)` -/
  pi : FVal K
  /-- `-float(M_PI)` -/
  negPi : FVal K
  /-- `int(x)` (C++ float → int conversion) -/
  toInt : FVal K → Int
  /-- `std::floor(x)` -/
  floorF : FVal K → FVal K
  /-- `std::isnan(std::pow(0.0f, -1.0f))` -/
  nanOnZeroToNeg : Bool
  /-- `std::isnan(std::pow(-1.0f, bPt))` -/
  powM1IsNan : Int → Bool

/-! ### The libfive-authored interval operations -/

section iops
variable {K : Type} [LT K] [LE K] [DecidableLT K] [DecidableLE K] [OfNat K 0] [OfNat K 1] [Neg K]
variable (Bo : BoostOps K)

def zeroV : FVal K := fin 0
def oneV : FVal K := fin 1
def negOneV : FVal K := fin (-1)

/-- `x.lower() <= 0.0f && x.upper() >= 0.0f` -/
def hasZero (A : IVal K) : Bool := le A.lo zeroV && ge A.hi zeroV

/-- `I(-INFINITY, INFINITY)` -/
def wholeB : Bnd K := ⟨ninf, pinf⟩

/-- `operator+` -/
def iadd (A B : IVal K) : IVal K :=
  let u := A.mn || B.mn ||
    (A.lo.isNinf && B.hi.isPinf) ||
    (B.lo.isNinf && A.hi.isPinf)
  IVal.of (Bo.add A.b B.b) u

/-- `operator*` -/
def imul (A B : IVal K) : IVal K :=
  let u := A.mn || B.mn ||
    ((A.lo.isNinf || A.hi.isPinf) && le B.lo zeroV && ge B.hi zeroV) ||
    ((B.lo.isNinf || B.hi.isPinf) && le A.lo zeroV && ge A.hi zeroV)
  IVal.of (Bo.mul A.b B.b) u

/-- `operator-` (binary) -/
def isub (A B : IVal K) : IVal K :=
  let u := A.mn || B.mn ||
    (A.lo.isNinf && B.lo.isNinf) ||
    (A.hi.isPinf && B.hi.isPinf)
  IVal.of (Bo.sub A.b B.b) u

/-- `operator/` -/
def idiv (A B : IVal K) : IVal K :=
  let i := if le B.lo zeroV && ge B.hi zeroV then wholeB else Bo.div A.b B.b
  let u := A.mn || B.mn ||
    ((A.lo.isNinf || A.hi.isPinf) && (B.lo.isNinf || B.hi.isPinf)) ||
    (le A.lo zeroV && ge A.hi zeroV && le B.lo zeroV && ge B.hi zeroV)
  IVal.of i u

/-- `Interval::min` with `LIBFIVE_USES_STD_MIN_AND_MAX` -/
def imin (A B : IVal K) : IVal K :=
  let i := Bo.min A.b B.b
  let i := if B.mn then Bo.hull i A.b else i
  IVal.of i A.mn

/-- `Interval::max` with `LIBFIVE_USES_STD_MIN_AND_MAX` -/
def imax (A B : IVal K) : IVal K :=
  let i := Bo.max A.b B.b
  let i := if B.mn then Bo.hull i A.b else i
  IVal.of i A.mn

/-- which of the 9 cases of `Interval::atan2(y, x)` is taken (numbered in source order) -/
def atan2Case (Y X : IVal K) : Nat :=
  if gt X.lo zeroV then
    if gt Y.lo zeroV then 1 else if lt Y.hi zeroV then 2 else 3
  else if lt X.hi zeroV then
    if gt Y.lo zeroV then 4 else if lt Y.hi zeroV then 5 else 6
  else
    if gt Y.lo zeroV then 7 else if lt Y.hi zeroV then 8 else 9

/-- `Interval::atan2(y, x)` -/
def iatan2 (Y X : IVal K) : IVal K :=
  let u := Y.mn || X.mn ||
    (le X.lo zeroV && ge X.hi zeroV && le Y.lo zeroV && ge Y.hi zeroV)
  match atan2Case Y X with
  | 1 => ⟨Bo.atan2f Y.lo X.hi, Bo.atan2f Y.hi X.lo, u⟩
  | 2 => ⟨Bo.atan2f Y.lo X.lo, Bo.atan2f Y.hi X.hi, u⟩
  | 3 => ⟨Bo.atan2f Y.lo X.lo, Bo.atan2f Y.hi X.lo, u⟩
  | 4 => ⟨Bo.atan2f Y.hi X.hi, Bo.atan2f Y.lo X.lo, u⟩
  | 5 => ⟨Bo.atan2f Y.hi X.lo, Bo.atan2f Y.lo X.hi, u⟩
  | 6 => ⟨Bo.negPi, Bo.pi, u⟩
  | 7 => ⟨Bo.atan2f Y.lo X.hi, Bo.atan2f Y.lo X.lo, u⟩
  | 8 => ⟨Bo.atan2f Y.hi X.lo, Bo.atan2f Y.hi X.hi, u⟩
  | _ => ⟨Bo.negPi, Bo.pi, u⟩

/-- `Interval::pow` -/
def ipow (A B : IVal K) : IVal K :=
  let bPt := Bo.toInt B.lo
  let out := Bo.powi A.b bPt
  let aZero := le A.lo zeroV && ge A.hi zeroV
  let out := if aZero && decide (bPt < 0) then wholeB else out
  let u := A.mn || B.mn ||
    (aZero && (bPt == 0 || (decide (bPt < 0) && Bo.nanOnZeroToNeg))) ||
    (lt A.lo zeroV && Bo.powM1IsNan bPt)
  IVal.of out u

/-- `bPt & 2` is non-zero (two's complement; the pre-fix test) -/
def bit1 (k : Int) : Bool := (k / 2) % 2 != 0
/-- `bPt & 1` is non-zero -/
def bit0 (k : Int) : Bool := k % 2 != 0

/-- `Interval::nth_root` -/
def inthRoot (A B : IVal K) : IVal K :=
  let bPt := Bo.toInt B.lo
  let i := Bo.nthRoot A.b bPt
  let u := A.mn || B.mn || (lt A.lo zeroV && !(bit0 bPt))
  IVal.of i u

/-- `(b.upper() >= 0.0f) + 2 * (b.lower() <= 0.0f)` -/
def modPosition (B : IVal K) : Nat :=
  (if ge B.hi zeroV then 1 else 0) + 2 * (if le B.lo zeroV then 1 else 0)

/-- `Interval::mod` -/
def imod (A B : IVal K) : IVal K :=
  let out0 : Bnd K := ⟨fmin B.lo zeroV, fmax zeroV B.hi⟩
  let out :=
    if A.hi.isFinite && A.lo.isFinite then
      match modPosition B with
      | 3 => out0
      | 0 => Bo.empty
      | p =>
        -- case 2 negates `usedA` and falls through to case 1
        let usedA := if p == 2 then Bo.mulNeg1 A.b else A.b
        let absB := Bo.abs B.b
        let quotients := Bo.div usedA absB
        let quotientInt := Bo.floorF quotients.lo
        if quotientInt.isFinite && feq quotientInt (Bo.floorF quotients.hi) then
          Bo.sub A.b (Bo.mulF B.b quotientInt)
        else out0
    else out0
  let u := A.mn || B.mn || (ge B.hi zeroV && le B.lo zeroV) ||
    A.lo.isInf || A.hi.isInf || B.lo.isInf || B.hi.isInf
  IVal.of out u

/-- `Interval::nanfill` -/
def inanfill (A B : IVal K) : IVal K :=
  if A.mn then IVal.of (Bo.hull A.b B.b) B.mn else IVal.of A.b false

/-- `Interval::compare` -/
def icompare (A B : IVal K) : IVal K :=
  if A.mn || B.mn then ⟨negOneV, oneV, false⟩
  else if lt A.hi B.lo then ⟨negOneV, negOneV, false⟩
  else if gt A.lo B.hi then ⟨oneV, oneV, false⟩
  else ⟨negOneV, oneV, false⟩

def isquare (A : IVal K) : IVal K := IVal.of (Bo.square A.b) A.mn
def isqrt (A : IVal K) : IVal K := IVal.of (Bo.sqrt A.b) (A.mn || lt A.lo zeroV)
def ineg (A : IVal K) : IVal K := IVal.of (Bo.neg A.b) A.mn
def isin (A : IVal K) : IVal K := IVal.of (Bo.sin A.b) (A.mn || A.lo.isInf || A.hi.isInf)
def icos (A : IVal K) : IVal K := IVal.of (Bo.cos A.b) (A.mn || A.lo.isInf || A.hi.isInf)
def itan (A : IVal K) : IVal K := IVal.of (Bo.tan A.b) (A.mn || A.lo.isInf || A.hi.isInf)
def iasin (A : IVal K) : IVal K :=
  IVal.of (Bo.asin A.b) (A.mn || lt A.lo negOneV || gt A.hi oneV)
def iacos (A : IVal K) : IVal K :=
  IVal.of (Bo.acos A.b) (A.mn || lt A.lo negOneV || gt A.hi oneV)
def iatan (A : IVal K) : IVal K :=
  let i := if A.lo.isInf || A.hi.isInf then Bo.atanWhole else Bo.atan A.b
  IVal.of i A.mn
def iexp (A : IVal K) : IVal K := IVal.of (Bo.exp A.b) A.mn
def ilog (A : IVal K) : IVal K :=
  let u := A.mn || lt A.lo zeroV
  if feq A.hi zeroV then IVal.of ⟨ninf, ninf⟩ u else IVal.of (Bo.log A.b) u
def iabs (A : IVal K) : IVal K := IVal.of (Bo.abs A.b) A.mn
def irecip (A : IVal K) : IVal K :=
  let i := if le A.lo zeroV && ge A.hi zeroV then wholeB else Bo.oneDiv A.b
  IVal.of i A.mn

/-- `IntervalEvaluator::operator()` -/
def iop (op : Op) (A B : IVal K) : IVal K :=
  match op with
  | .add => iadd Bo A B
  | .mul => imul Bo A B
  | .min => imin Bo A B
  | .max => imax Bo A B
  | .sub => isub Bo A B
  | .div => idiv Bo A B
  | .atan2 => iatan2 Bo A B
  | .pow => ipow Bo A B
  | .nthRoot => inthRoot Bo A B
  | .mod => imod Bo A B
  | .nanfill => inanfill Bo A B
  | .compare => icompare A B
  | .square => isquare Bo A
  | .sqrt => isqrt Bo A
  | .neg => ineg Bo A
  | .sin => isin Bo A
  | .cos => icos Bo A
  | .tan => itan Bo A
  | .asin => iasin Bo A
  | .acos => iacos Bo A
  | .atan => iatan Bo A
  | .exp => iexp Bo A
  | .log => ilog Bo A
  | .abs => iabs Bo A
  | .recip => irecip Bo A
  | .constVar => A
  | _ => A

/-- `Interval::State` -/
inductive IState | empty | filled | ambiguous
deriving DecidableEq, Repr

/-- `Interval::state()` -/
def istate (A : IVal K) : IState :=
  if A.mn then IState.ambiguous
  else if gt A.lo zeroV then IState.empty
  else if lt A.hi zeroV then IState.filled
  else IState.ambiguous

/-- `Interval(float lower, float upper)`: flagged iff a bound is NaN -/
def ileaf (lo hi : FVal K) : IVal K := ⟨lo, hi, lo.isNan || hi.isNan⟩

end iops

/-! ### Point semantics (`ArrayEvaluator::operator()`) -/

/-- the real-valued functions the point kernels compute on finite arguments (uninterpreted), plus
    `floor` and the integer embedding -/
structure PointFns (K : Type) where
  sqrt : K → K
  sin : K → K
  cos : K → K
  tan : K → K
  asin : K → K
  acos : K → K
  atan : K → K
  exp : K → K
  log : K → K
  /-- `atan2f` on extended (non-NaN) arguments; never NaN -/
  atan2 : FVal K → FVal K → K
  /-- `atan(+∞) = π/2` -/
  halfPi : K
  /-- `x^k` for finite `x ≠ 0` (or `k ≥ 0`) and integer `k` -/
  powi : K → Int → K
  /-- the positive real `k`-th root of `x ≥ 0` -/
  root : K → Int → K
  floor : K → Int
  ofInt : Int → K
  /-- the integer a finite exponent value denotes, if any -/
  toInt? : K → Option Int

section pops
variable {K : Type} [Add K] [Sub K] [Mul K] [Div K] [Neg K] [LT K] [LE K] [DecidableLT K]
  [DecidableLE K] [OfNat K 0] [OfNat K 1]
variable (P : PointFns K)

/-- `a.cwiseMin(b)`: first operand when either is NaN (observed, = `std::min`) -/
def pmin (a b : FVal K) : FVal K :=
  if a.isNan || b.isNan then a else if lt b a then b else a
def pmax (a b : FVal K) : FVal K :=
  if a.isNan || b.isNan then a else if lt a b then b else a

def psqrt : FVal K → FVal K
  | nan => nan | ninf => nan | pinf => pinf
  | fin x => if x < (0 : K) then nan else fin (P.sqrt x)
def ptrig (f : K → K) : FVal K → FVal K
  | fin x => fin (f x) | _ => nan
def pasin (f : K → K) : FVal K → FVal K
  | fin x => if x < (-1 : K) ∨ (1 : K) < x then nan else fin (f x)
  | _ => nan
def patan : FVal K → FVal K
  | nan => nan | ninf => fin (-P.halfPi) | pinf => fin P.halfPi | fin x => fin (P.atan x)
def pexp : FVal K → FVal K
  | nan => nan | ninf => fin 0 | pinf => pinf | fin x => fin (P.exp x)
def plog : FVal K → FVal K
  | nan => nan | ninf => nan | pinf => pinf
  | fin x => if x < (0 : K) then nan else if (0 : K) < x then fin (P.log x) else ninf
def precip (a : FVal K) : FVal K := FVal.div (fin 1) a
def patan2 (y x : FVal K) : FVal K :=
  if y.isNan || x.isNan then nan else fin (P.atan2 y x)
def pcompare (a b : FVal K) : FVal K :=
  if lt a b then fin (-1) else if gt a b then fin 1 else fin 0
def pnanfill (a b : FVal K) : FVal K := if a.isNan then b else a

/-- is the integer odd -/
def oddI (k : Int) : Bool := k % 2 != 0

/-- `a.pow(b)` for an integer exponent `k` (the only exponents libfive's API admits): never NaN for a
    non-NaN base; `0^k` for `k < 0` is the `+0` answer `+∞` -/
def ppowi (a : FVal K) (k : Int) : FVal K :=
  match a with
  | nan => nan          -- (IEEE pow(NaN, 0) = 1; the operand is flagged either way)
  | fin x =>
    if k == 0 then fin 1
    else if decide (k < 0) && !(decide ((0 : K) < x) || decide (x < (0 : K))) then pinf
    else fin (P.powi x k)
  | pinf => if k == 0 then fin 1 else if decide (k < 0) then fin 0 else pinf
  | ninf => if k == 0 then fin 1 else if decide (k < 0) then fin 0
            else if oddI k then ninf else pinf

/-- `OP_NTH_ROOT` for an integer `k ≥ 1`: negative bases go through `Interval::nth_root` on a point
    interval (even `k`: `empty().lower()` = NaN; odd: `−root(−x)`), others through `powf(a, 1/k)`.
    Infinite bases are outside the modelled domain (`SafeArgs` excludes them). -/
def pnthRoot (a : FVal K) (k : Int) : FVal K :=
  match a with
  | fin x =>
    if x < (0 : K) then (if oddI k then fin (-(P.root (-x) k)) else nan)
    else fin (P.root x k)
  | pinf => pinf
  | _ => nan

/-- `OP_MOD`: `d = ±floor/ceil |a/b|` is `floor(a/b)` in exact arithmetic; `out = a − b·d`; clamps -/
def pmod (a b : FVal K) : FVal K :=
  match a, b with
  | fin x, fin y =>
    if (0 : K) < y ∨ y < (0 : K) then
      let d := P.ofInt (P.floor (x / y))
      let out := x - y * d
      let out := if ((0 : K) < y ∧ y < out) ∨ (y < (0 : K) ∧ out < y) then y else out
      let out := if ((0 : K) < y ∧ out < (0 : K)) ∨ (y < (0 : K) ∧ (0 : K) < out) then 0 else out
      fin out
    else nan            -- a − 0·(a/0) = a − 0·∞
  | _, _ => nan         -- NaN operand; ∞ − b·∞ ; a − ∞·0

/-- the exponent an operand value denotes -/
def expOf (b : FVal K) : Option Int :=
  match b with
  | fin y => P.toInt? y
  | _ => none

/-- `ArrayEvaluator::operator()`, deterministic choice (`+0` divisors, first operand on NaN) -/
def pointOp (op : Op) (a b : FVal K) : FVal K :=
  match op with
  | .add => FVal.add a b
  | .mul => FVal.mul a b
  | .min => pmin a b
  | .max => pmax a b
  | .sub => FVal.sub a b
  | .div => FVal.div a b
  | .atan2 => patan2 P a b
  | .pow => match expOf P b with | some k => ppowi P a k | none => nan
  | .nthRoot => match expOf P b with | some k => pnthRoot P a k | none => nan
  | .mod => pmod P a b
  | .nanfill => pnanfill a b
  | .compare => pcompare a b
  | .square => FVal.mul a a
  | .sqrt => psqrt P a
  | .neg => FVal.neg a
  | .sin => ptrig P.sin a
  | .cos => ptrig P.cos a
  | .tan => ptrig P.tan a
  | .asin => pasin P.asin a
  | .acos => pasin P.acos a
  | .atan => patan P a
  | .exp => pexp P a
  | .log => plog P a
  | .abs => FVal.abs a
  | .recip => precip a
  | .constVar => a
  | _ => a

/-- is this value the (single) zero -/
def isZero (a : FVal K) : Prop := a = fin 0

/-- Every result the real kernel may produce: the deterministic one, or the answer for a zero of the
    other sign where IEEE distinguishes them (`x/−0`, `1/−0`, `(−0)^k` for `k<0`). -/
def PointRel (op : Op) (a b r : FVal K) : Prop :=
  r = pointOp P op a b ∨
  (op = Op.div ∧ isZero b ∧ r = FVal.neg (pointOp P op a b)) ∨
  (op = Op.recip ∧ isZero a ∧ r = ninf) ∨
  (op = Op.pow ∧ isZero a ∧ (∃ k, expOf P b = some k ∧ k < 0) ∧ r = ninf)

end pops

/-! ### Tapes -/

section tapes
variable {K : Type} [LT K] [LE K] [DecidableLT K] [DecidableLE K] [OfNat K 0] [OfNat K 1] [Neg K]

/-- `IntervalEvaluator::eval` over a clause list (slots → intervals); `iorc k` is what interval
    oracle `k` returns -/
def ievalList (Bo : BoostOps K) (iorc : Nat → IVal K) (t : List Clause) (I0 : Nat → IVal K) :
    Nat → IVal K :=
  evalList (iop Bo) iorc t I0

end tapes

end Libfive.Ivl
