/-
  Model of `Tree::optimized_helper` (libfive/src/tree/tree.cpp), big-step form of the four
  explicit stacks:
  * affine accumulation: chains of  neg / add / sub / mul-by-constant / div-by-constant are
    collected into a map  term ↦ coefficient  (constants accumulate on the key `one`), then
    `collapse` rebuilds  Σ positive − Σ negative  with equal multipliers grouped;
  * commutative accumulation: chains of the same operator among  mul (no constant operand) /
    min / max  are flattened into a list, sorted, (min/max) de-duplicated and folded;
  * everything else is rebuilt from its optimised children.
  The canonical-node map (`uniq`) only affects sharing, not the term that is built: after it,
  pointer equality coincides with structural equality, which is what the model uses.
  Sorting is by pointer in the C++ (an arbitrary order); the model sorts coefficients with the
  same comparison and leaves ties / commutative lists in traversal order — the theorems hold for
  that order and the correspondence compares AC-canonical forms.
  All functions take explicit fuel (every call decrements it); `optimize` supplies enough.
  Core Lean only.
-/
import LibfiveModel.Expr

namespace Libfive.Optimize
open Libfive Expr

variable {C : Type}

/-- affine accumulator: term ↦ coefficient, in insertion order; the constant part is keyed by
    `const K.one` (the `Tree::one()` singleton) -/
abbrev AffMap (C : Type) := List (Expr C × C)

def addCoef [DecidableEq C] (K : ConstOps C) (k : Expr C) (s : C) : AffMap C → AffMap C
  | [] => [(k, K.foldBin Op.add K.zero s)]
  | (k', c) :: rest =>
    if k' = k then (k', K.foldBin Op.add c s) :: rest else (k', c) :: addCoef K k s rest

/-- `map[one] += scale * value` (one fused multiply-add) -/
def addConst [DecidableEq C] (K : ConstOps C) (s v : C) : AffMap C → AffMap C
  | [] => [(const K.one, K.fma s v K.zero)]
  | (k', c) :: rest =>
    if k' = const K.one then (k', K.fma s v c) :: rest else (k', c) :: addConst K s v rest

/-- `map[new_self] += scale` / `map[one] += scale * value` -/
def addTerm [DecidableEq C] (K : ConstOps C) (t : Expr C) (s : C) (acc : AffMap C) : AffMap C :=
  match t with
  | const v => addConst K s v acc
  | _ => addCoef K t s acc

/-- stable insertion by coefficient (`sort_fn` compares the multiplier first) -/
def insertByCoef (K : ConstOps C) (p : Expr C × C) : AffMap C → AffMap C
  | [] => [p]
  | q :: rest => if K.lt p.2 q.2 then p :: q :: rest else q :: insertByCoef K p rest

/-- `std::sort` with `sort_fn`: by multiplier, ties by pointer.  Pointer order of canonical nodes
    is an arbitrary but FIXED total order; the model uses the structural order `le` for it, so
    that (as in the C++) equal coefficient maps give identical trees. -/
def sortByCoef (K : ConstOps C) (le : Expr C → Expr C → Bool) (m : AffMap C) : AffMap C :=
  (m.mergeSort (fun p q => le p.1 q.1)).foldr (fun p acc => insertByCoef K p acc) []

/-- split into positive terms and (negated) negative terms; zero coefficients are dropped,
    NaN coefficients go to the positive list -/
def splitPosNeg (K : ConstOps C) : AffMap C → AffMap C × AffMap C
  | [] => ([], [])
  | (t, c) :: rest =>
    let (p, n) := splitPosNeg K rest
    if K.lt K.zero c then ((t, c) :: p, n)
    else if K.lt c K.zero then (p, (t, K.foldUn Op.neg c) :: n)
    else if !K.isZero c then ((t, c) :: p, n)
    else (p, n)

/-- the inner `while` of `collapse`: add up the following terms with the same multiplier -/
def takeGroup [DecidableEq C] (K : ConstOps C) (m : C) (t : Expr C) : AffMap C → Expr C × AffMap C
  | [] => (t, [])
  | (u, c) :: rest =>
    if K.eqC c m then takeGroup K m (mkBinary K Op.add t u) rest else (t, (u, c) :: rest)

theorem takeGroup_length [DecidableEq C] (K : ConstOps C) (m : C) (t : Expr C) (l : AffMap C) :
    (takeGroup K m t l).2.length ≤ l.length := by
  induction l generalizing t with
  | nil => simp [takeGroup]
  | cons p rest ih =>
    obtain ⟨u, c⟩ := p
    simp only [takeGroup]
    split
    · exact Nat.le_trans (ih _) (Nat.le_succ _)
    · simp

/-- the outer `while` of `collapse` on a sorted list; `out = none` is the invalid tree -/
def collapseGo [DecidableEq C] (K : ConstOps C) : Nat → Option (Expr C) → AffMap C → Option (Expr C)
  | 0, out, _ => out
  | _, out, [] => out
  | fuel + 1, out, (t, m) :: rest =>
    let (g, rest') := takeGroup K m t rest
    let g :=
      if K.isOne m then g
      else if g = const K.one then const m
      else mkBinary K Op.mul g (const m)
    let out' := match out with
      | some o => mkBinary K Op.add o g
      | none => g
    collapseGo K fuel (some out') rest'

def collapseList [DecidableEq C] (K : ConstOps C) (le : Expr C → Expr C → Bool) (l : AffMap C) : Expr C :=
  let sorted := sortByCoef K le l
  (collapseGo K (sorted.length + 1) none sorted).getD (const K.zero)

/-- `UpAffine`: positive part minus negative part (both are always valid trees) -/
def collapse [DecidableEq C] (K : ConstOps C) (le : Expr C → Expr C → Bool) (m : AffMap C) : Expr C :=
  let (p, n) := splitPosNeg K m
  mkBinary K Op.sub (collapseList K le p) (collapseList K le n)

/-! ### commutative lists -/

def dedup [DecidableEq C] : List (Expr C) → List (Expr C)
  | [] => []
  | a :: rest => if a ∈ rest then dedup rest else a :: dedup rest

def foldComm [DecidableEq C] (K : ConstOps C) (op : Op) : List (Expr C) → Expr C
  | [] => invalid
  | a :: rest => rest.foldl (fun acc b => mkBinary K op acc b) a

/-- `UpCommutative` -/
def buildComm [DecidableEq C] (K : ConstOps C) (le : Expr C → Expr C → Bool) (op : Op)
    (items : List (Expr C)) : Expr C :=
  let sorted := items.mergeSort le          -- `std::sort` by pointer: see `sortByCoef`
  foldComm K op (if op.isIdempotent then dedup sorted else sorted)

/-! ### classification of a node (the `mark_affine` / `mark_commutative` tests in `Down`) -/

def isAffineRoot : Expr C → Bool
  | un Op.neg _ => true
  | bin Op.add _ _ => true
  | bin Op.sub _ _ => true
  | bin Op.mul a b => (constOf a).isSome || (constOf b).isSome
  | bin Op.div _ b => (constOf b).isSome
  | _ => false

/-- the commutative operator a node starts / continues a chain of, if any -/
def commOp : Expr C → Option Op
  | bin op a b =>
    if op = Op.mul then (if (constOf a).isSome || (constOf b).isSome then none else some Op.mul)
    else if op = Op.min then some Op.min
    else if op = Op.max then some Op.max
    else none
  | _ => none

mutual
/-- optimised form of a standalone subtree -/
def opt [DecidableEq C] (K : ConstOps C) (le : Expr C → Expr C → Bool) : Nat → Expr C → Expr C
  | 0, t => t
  | f + 1, t =>
    if isAffineRoot t then collapse K le (affineTerms K le f t K.one [])
    else optNonAffine K le f t

/-- optimised form of a node that does not start an affine chain -/
def optNonAffine [DecidableEq C] (K : ConstOps C) (le : Expr C → Expr C → Bool) : Nat → Expr C → Expr C
  | 0, t => t
  | f + 1, t =>
    match t with
    | un op a =>
      let a' := opt K le f a
      if a' = a then un op a else mkUnary K op a'
    | bin op a b =>
      if commOp (bin op a b) = some op then
        buildComm K le op (commItems K le f op a (commItems K le f op b []))
      else
        let a' := opt K le f a
        let b' := opt K le f b
        if a' = a ∧ b' = b then bin op a b else mkBinary K op a' b'
    | t => t

/-- accumulate `scale · t` into the affine map -/
def affineTerms [DecidableEq C] (K : ConstOps C) (le : Expr C → Expr C → Bool) :
    Nat → Expr C → C → AffMap C → AffMap C
  | 0, t, s, acc => addTerm K t s acc
  | f + 1, t, s, acc =>
    match t with
    | un op a =>
      if op = Op.neg then affineTerms K le f a (K.foldUn Op.neg s) acc
      else addTerm K (optNonAffine K le f (un op a)) s acc
    | bin op a b =>
      if op = Op.add then affineTerms K le f a s (affineTerms K le f b s acc)
      else if op = Op.sub then affineTerms K le f a s (affineTerms K le f b (K.foldUn Op.neg s) acc)
      else if op = Op.mul then
        match constOf a, constOf b with
        | some c, _ => affineTerms K le f b (K.foldBin Op.mul c s) acc
        | none, some c => affineTerms K le f a (K.foldBin Op.mul c s) acc
        | none, none => addTerm K (optNonAffine K le f (bin op a b)) s acc
      else if op = Op.div then
        match constOf b with
        | some c => affineTerms K le f a (K.foldBin Op.div s c) acc
        | none => addTerm K (optNonAffine K le f (bin op a b)) s acc
      else addTerm K (optNonAffine K le f (bin op a b)) s acc
    | t => addTerm K (optNonAffine K le f t) s acc

/-- operands of a chain of the commutative operator `op` (appended to `acc`) -/
def commItems [DecidableEq C] (K : ConstOps C) (le : Expr C → Expr C → Bool) :
    Nat → Op → Expr C → List (Expr C) → List (Expr C)
  | 0, _, t, acc => acc ++ [t]
  | f + 1, op, t, acc =>
    match t with
    | bin op' a b =>
      if commOp (bin op' a b) = some op ∧ op' = op then
        commItems K le f op a (commItems K le f op b acc)
      else acc ++ [opt K le f (bin op' a b)]
    | t => acc ++ [opt K le f t]
end

/-- `Tree::optimized()` on a flattened tree -/
def optimize [DecidableEq C] (K : ConstOps C) (le : Expr C → Expr C → Bool) (t : Expr C) : Expr C :=
  opt K le (4 * size t + 4) t

end Libfive.Optimize
