/-
  C13 — executable model of libfive's intrusive reference-counted `Tree` handle
  (libfive/include/libfive/tree/tree.hpp, src/tree/tree.cpp, src/libfive.cpp).  Core Lean only.

  * heap      : node id ↦ (kind tag, child ids = the `Tree` members of the variant, refcount);
                ids are never reused (`delete` leaves a tombstone), so "allocated" is decidable and a
                use-after-free is visible as an access to a tombstone.
  * slots     : the client's handles.  `tree p` is a C++ `Tree` object whose `ptr` is `p`
                (`none` = nullptr, e.g. moved-from), `raw p` is a C-API `libfive_tree` (a released
                `const Data*` that owns one count), `dead` = no object.  Slots 0..4 are the
                function-local statics X, Y, Z, invalid, one of tree.cpp (never destroyed).
  * ub        : sticky flag: the model performed something that is undefined behaviour in the C++
                (touching a freed node, decrementing a zero refcount, running out of destructor fuel).

  Every operation is written as the composition of the micro-steps the C++ performs:
  `incr`  = `d->refcount++` in `Tree(const Data*, bool increment, flags)`,
  `loop`  = the explicit-stack loop of `Tree::~Tree` (decrement, on reaching zero steal the children
            with `std::exchange` onto the work list and `delete`),
  `mkNode`= `Tree(new Data(Variant{… copies of the children …}))`.
-/
namespace Libfive.RC

structure Node where
  kind : Nat
  kids : List Nat
  rc   : Nat
  deriving Repr, DecidableEq

inductive Slot where
  | dead
  | tree (p : Option Nat)
  | raw (p : Option Nat)
  deriving Repr, DecidableEq

/-- the node a slot owns one count of -/
def Slot.own : Slot → List Nat
  | .tree (some n) => [n]
  | .raw (some n) => [n]
  | _ => []

/-- the pointer held by a slot -/
def Slot.ptr : Slot → Option Nat
  | .tree p => p
  | .raw p => p
  | .dead => none

structure State where
  heap  : Array (Option Node)
  slots : Array Slot
  ub    : Bool := false
  deriving Repr

def NSTATIC : Nat := 5

/-- X, Y, Z, invalid, one: leaves owned by their function-local static `Tree` -/
def init (nslots : Nat) : State :=
  { heap := #[some ⟨0, [], 1⟩, some ⟨1, [], 1⟩, some ⟨2, [], 1⟩, some ⟨3, [], 1⟩, some ⟨4, [], 1⟩]
    slots := #[.tree (some 0), .tree (some 1), .tree (some 2), .tree (some 3), .tree (some 4)]
              ++ Array.replicate nslots Slot.dead }

def State.node? (s : State) (n : Nat) : Option Node := (s.heap[n]?).join
def State.slot (s : State) (h : Nat) : Slot := s.slots.getD h .dead

def fieldsOf : Option Node → List Nat
  | some nd => nd.kids
  | none => []

/-- all parent fields (`Tree` members inside nodes), as a multiset of node ids -/
def State.fields (s : State) : List Nat := s.heap.toList.flatMap fieldsOf
/-- the targets of all client handles and statics -/
def State.slotOwn (s : State) : List Nat := s.slots.toList.flatMap Slot.own
/-- every owner of a count -/
def State.owners (s : State) : List Nat := s.slotOwn ++ s.fields

def State.setUb (s : State) : State := { s with ub := true }

/-- overwrite heap cell `n` (`none` = `delete`) -/
def setNode (n : Nat) (o : Option Node) (s : State) : State :=
  { s with heap := s.heap.setIfInBounds n o }

/-- `d->refcount++` -/
def incr (n : Nat) (s : State) : State :=
  match s.node? n with
  | some nd => setNode n (some { nd with rc := nd.rc + 1 }) s
  | none => s.setUb

def incrAll : List Nat → State → State
  | [], s => s
  | k :: ks, s => incrAll ks (incr k s)

def incrOpt : Option Nat → State → State
  | none, s => s
  | some n, s => incr n s

/-- `Tree(new Data(V{kids…}))`: copy-construct the children into the variant (`++` each), allocate
    with `refcount = 0`, then the `++` of `Tree(const Data*, true, 0)`.  Returns the new id; the
    caller holds the one count. -/
def mkNode (kind : Nat) (kids : List Nat) (s : State) : State × Nat :=
  let s1 := incrAll kids s
  let id := s1.heap.size      -- read before the push so that the heap stays unshared (in-place update)
  ({ s1 with heap := s1.heap.push (some ⟨kind, kids, 1⟩) }, id)

/-- One iteration of the `while (!todo.empty())` loop of `Tree::~Tree` (the first iteration is the
    `--ptr->refcount` before the loop: `t == ptr` in the C++ only skips the decrement that was
    already done).  No recursion: this is a plain function on (work list, state). -/
def loopStep (todo : List Nat) (s : State) : List Nat × State :=
  match todo with
  | [] => ([], s)
  | t :: rest =>
    match s.node? t with
    | none => ([], s.setUb)                       -- use after free
    | some nd =>
      if nd.rc = 0 then ([], s.setUb)             -- refcount underflow (double free)
      else if nd.rc = 1 then
        -- last owner: children are exchanged out onto the stack (pushed lhs first, so popped
        -- rhs first), then `delete t`
        (nd.kids.reverse ++ rest, setNode t none s)
      else
        (rest, setNode t (some { nd with rc := nd.rc - 1 }) s)

/-- The destructor loop: tail recursion on explicit fuel only; the work list lives in an argument
    (the heap-allocated `std::stack`), never on the native stack. -/
def loop : Nat → List Nat → State → State
  | _, [], s => s
  | 0, _ :: _, s => s.setUb
  | f + 1, t :: rest, s =>
    let r := loopStep (t :: rest) s
    loop f r.1 r.2

/-- fuel: every node has at most 4 `Tree` members, so there are at most `4·|heap|` fields to pop -/
def fuel (s : State) : Nat := 4 * s.heap.size + 1

/-- `Tree::~Tree` for a handle whose `ptr` is `n` -/
def dtor (n : Nat) (s : State) : State := loop (fuel s) [n] s

def dtorOpt : Option Nat → State → State
  | none, s => s
  | some n, s => dtor n s

def dtorAll : List Nat → State → State
  | [], s => s
  | n :: ns, s => dtorAll ns (dtor n s)

def setSlot (h : Nat) (v : Slot) (s : State) : State :=
  { s with slots := s.slots.setIfInBounds h v }

/-! ### operations -/

inductive Ref where
  | old (n : Nat)      -- a node that existed before the call
  | new (k : Nat)      -- the k-th node created by this call
  deriving Repr, DecidableEq

structure Spec where
  kind : Nat
  kids : List Ref
  deriving Repr

inductive Op where
  /-- `new (&d) Tree(s)` — copy constructor (also `Tree::X()` = copy of a static, `Tree(raw)`) -/
  | copy (d s : Nat)
  /-- `new (&d) Tree(std::move(s))` — `s` stays a live, null handle -/
  | move (d s : Nat)
  /-- `d = s` — `*this = Tree(other.ptr, true, flags)`: temp copy, swap, temp destructor -/
  | copyAssign (d s : Nat)
  /-- `d = std::move(s)` — `std::swap(ptr, other.ptr)` -/
  | moveAssign (d s : Nat)
  /-- `d.~Tree()` on a `Tree`; `libfive_tree_delete(d)` on a raw pointer -/
  | destroy (d : Nat)
  /-- `d = s.release()` (raw pointer, no refcount change; `s` becomes null) -/
  | release (d s : Nat)
  /-- `new (&d) Tree(Tree::reclaim(s))` (the raw pointer `s` is consumed) -/
  | reclaim (d s : Nat)
  /-- any tree-building call (`Tree(float)`, `var`, `unary`, `binary`, `remap`, `apply`,
      `optimized`, `flatten`, `deserialize`, every `libfive_tree_*` constructor):
      `temps` = the C API wraps each argument in a temporary `Tree(a)`;
      `news`  = the nodes the call leaves allocated, children first, each built by `mkNode`
                and held by a local until the end of the call;
      `root`  = what is returned (a copy of it goes to slot `d`, as `Tree` or released raw). -/
  | build (d : Nat) (args : List Nat) (temps : Bool) (news : List Spec) (root : Ref) (asRaw : Bool)
  /-- calls that only look: print, serialize, eval_f/r/d, evaluator construction, id, size, eq…:
      a temporary `Tree(a)` per argument, destroyed at the end -/
  | observe (args : List Nat)
  /-- a C-API call that returns `nullptr` without touching anything (invalid opcode / null arg) -/
  | null (d : Nat)
  deriving Repr

inductive Out where
  | ok
  | reject      -- the client broke the discipline (dead handle, occupied slot, bad outcome spec)
  deriving Repr, DecidableEq

def resolve (base : Array Nat) : Ref → Option Nat
  | .old n => some n
  | .new k => base[k]?

def resolveAll (base : Array Nat) : List Ref → Option (List Nat)
  | [] => some []
  | r :: rs =>
    match resolve base r, resolveAll base rs with
    | some n, some ns => some (n :: ns)
    | _, _ => none

/-- a reference is admissible if it names a node allocated before the call, or an earlier new node -/
def refOk (s : State) (nnew : Nat) : Ref → Bool
  | .old n => (s.node? n).isSome
  | .new k => k < nnew

def specsOk (s : State) : Nat → List Spec → Bool
  | _, [] => true
  | i, sp :: rest => sp.kids.length ≤ 4 && sp.kids.all (refOk s i) && specsOk s (i + 1) rest

/-- build the new nodes in order; `base` collects their ids -/
def mkAll : List Spec → Array Nat → State → State × Array Nat
  | [], base, s => (s, base)
  | sp :: rest, base, s =>
    match resolveAll base sp.kids with
    | none => (s.setUb, base)       -- cannot happen after `specsOk`
    | some kids =>
      let r := mkNode sp.kind kids s
      mkAll rest (base.push r.2) r.1

def argPtrs (s : State) (args : List Nat) : List Nat :=
  args.flatMap fun a => (s.slot a).own

def live (s : State) (h : Nat) : Bool := h < s.slots.size && s.slot h != .dead
def free (s : State) (h : Nat) : Bool := NSTATIC ≤ h && h < s.slots.size && s.slot h == .dead
def isTree (s : State) (h : Nat) : Bool := match s.slot h with | .tree _ => h < s.slots.size | _ => false
def isRaw (s : State) (h : Nat) : Bool := match s.slot h with | .raw _ => h < s.slots.size | _ => false

def step (s : State) : Op → State × Out
  | .copy d x =>
    if free s d && live s x then
      let p := (s.slot x).ptr
      (setSlot d (.tree p) (incrOpt p s), .ok)
    else (s, .reject)
  | .move d x =>
    if free s d && isTree s x && NSTATIC ≤ x && d ≠ x then
      let p := (s.slot x).ptr
      -- `ptr(std::exchange(other.ptr, nullptr))`: the source is nulled first
      (setSlot d (.tree p) (setSlot x (.tree none) s), .ok)
    else (s, .reject)
  | .copyAssign d x =>
    if isTree s d && NSTATIC ≤ d && live s x then
      let p := (s.slot x).ptr
      let q := (s.slot d).ptr
      -- temp(p) ; swap(d.ptr, temp.ptr) ; ~temp (now holding q)
      (dtorOpt q (setSlot d (.tree p) (incrOpt p s)), .ok)
    else (s, .reject)
  | .moveAssign d x =>
    if isTree s d && NSTATIC ≤ d && isTree s x && NSTATIC ≤ x then
      let p := (s.slot x).ptr
      let q := (s.slot d).ptr
      if d = x then (s, .ok) else (setSlot x (.tree q) (setSlot d (.tree p) s), .ok)
    else (s, .reject)
  | .destroy d =>
    if NSTATIC ≤ d && live s d then
      let q := (s.slot d).ptr
      (dtorOpt q (setSlot d .dead s), .ok)
    else (s, .reject)
  | .release d x =>
    if free s d && isTree s x && NSTATIC ≤ x && d ≠ x then
      let p := (s.slot x).ptr
      (setSlot d (.raw p) (setSlot x (.tree none) s), .ok)
    else (s, .reject)
  | .reclaim d x =>
    if free s d && isRaw s x && NSTATIC ≤ x && d ≠ x then
      let p := (s.slot x).ptr
      (setSlot d (.tree p) (setSlot x .dead s), .ok)
    else (s, .reject)
  | .build d args temps news root asRaw =>
    if free s d && args.all (live s) && specsOk s 0 news && refOk s news.length root then
      let tmp := if temps then argPtrs s args else []
      let s1 := incrAll tmp s
      let r := mkAll news #[] s1
      match resolve r.2 root with
      | none => (r.1.setUb, .ok)      -- unreachable after `refOk` (proved: `ub` is never set)
      | some n =>
        let s2 := incr n r.1
        let s3 := setSlot d (if asRaw then .raw (some n) else .tree (some n)) s2
        -- locals holding the new nodes die in reverse order, then the argument temporaries
        (dtorAll (r.2.toList.reverse ++ tmp) s3, .ok)
    else (s, .reject)
  | .observe args =>
    if args.all (live s) then
      let tmp := argPtrs s args
      (dtorAll tmp (incrAll tmp s), .ok)
    else (s, .reject)
  | .null d =>
    if free s d then (setSlot d (.raw none) s, .ok) else (s, .reject)

def run : State → List Op → State
  | s, [] => s
  | s, o :: os => run (step s o).1 os

/-- number of allocated nodes (what `verif::live_nodes` counts) -/
def State.liveCount (s : State) : Nat := s.heap.foldl (fun c o => if o.isSome then c + 1 else c) 0

def State.rcOf (s : State) (n : Nat) : Option Nat := (s.node? n).map (·.rc)

end Libfive.RC
